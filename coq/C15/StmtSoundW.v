(* C15 extension (session 3): value-level soundness of the compile_ir lowering (model Lower.v) for the non-loop statement
   fragment INCLUDING `with` and `set`, against SemW.evalW (environment-binding meaning).
   Machine: StmtSound's pc machine plus SWAPn (wstep).  With-variables live on the stack: the stack is described by a list of
   SLOTS, top first -- `Some t` a temporary (operand value or label reference), `None` a variable slot -- and the concrete
   stack is `conc sl en`: the k-th variable slot from the top holds the value of the k-th binding of the environment
   (innermost first).  `WA sl wa`: the lowerer's withargs `wa` record exactly the heights of the variable slots.
   Theorem lower_stmtW: for code emitted at height |sl| for a tree of the fragment, placed anywhere in a program with
   distinct labels (and the shared revert block when an assert was lowered):
     evalW e en st = NormW v en' st'  =>  the machine runs to the end of the code, store st', stack = [v ::] conc sl en'
                                          (temporaries untouched, every variable slot holds its NEW value -- `set` is a
                                          SWAPn POP into the slot, `with` pushes a slot and removes it by POP / SWAP1 POP);
     evalW e en st = HaltW h          =>  the machine halts with observation h;
     evalW never yields BrkW / CntW / FuelW / StuckW on the fragment (part of the statement).
   Hypotheses on opsem: only REVERT 0 0 / INVALID are the failed-assert observations (no strictness or getvar hypotheses:
   evalW fixes the meaning of opcode nodes itself, and variables are not part of the store). *)
From Coq Require Import ZArith Bool List String Lia PeanoNat.
From Verif Require Import Base.Word256 Base.PyInt C15.Syntax C15.WordFacts C15.GenUtils C15.Peephole C15.Lower C15.LowerSound
  C15.OptSound C15.OptTree C15.OptTreeSound C15.LowerFlow C15.FlowSound C15.StmtSound C15.SemW.
Import ListNotations.
Open Scope Z_scope.

Section StmtW.
Variable M : Sem.                                                            (*section*)
Variable opsem : string -> list Z -> St M -> outcome (St M) (Hl M).          (*section*)
Notation evW := (evalW M opsem).

(* ---- the machine: StmtSound.vstep + SWAPn ---- *)
Inductive wstep (P : list item) : cfg M -> cfg M -> Prop :=
| W_v c c' : vstep M opsem P c c' -> wstep P c c'
| W_swap pc (x y : sval) (mid rest : list sval) st d :
    nth_error P pc = Some (Op ("SWAP" ++ nat_str d)) -> (1 <= d <= 16)%nat -> List.length mid = (d - 1)%nat ->
    wstep P (pc, (x :: mid ++ y :: rest)%list, st) (S pc, (y :: mid ++ x :: rest)%list, st).
Inductive starW (P : list item) : cfg M -> cfg M -> Prop :=
| starW_refl c : starW P c c
| starW_step c1 c2 c3 : wstep P c1 c2 -> starW P c2 c3 -> starW P c1 c3.
Definition haltsW (P : list item) (c : cfg M) (h : Hl M) : Prop := exists c1, starW P c c1 /\ vhalt M opsem P c1 h.
Lemma starW_trans P a b c : starW P a b -> starW P b c -> starW P a c.
Proof. induction 1; auto. intros. econstructor; eauto. Qed.
Lemma starW_one P a b : wstep P a b -> starW P a b.
Proof. intros. econstructor; [eassumption | constructor]. Qed.
Lemma haltsW_star P a b h : starW P a b -> haltsW P b h -> haltsW P a h.
Proof. intros S (c1 & S1 & H). exists c1. split; [eapply starW_trans; eauto | exact H]. Qed.
Lemma star_W P a b : star M opsem P a b -> starW P a b.
Proof. induction 1; [constructor|]. econstructor; [apply W_v; eassumption | assumption]. Qed.
Lemma starW_to P a b b' : starW P a b -> b = b' -> starW P a b'.
Proof. intros S <-. exact S. Qed.

(* the steps of the old machine, as steps of the new one (same argument order as the constructors of vstep) *)
Lemma W_lbl P pc stk st l : nth_error P pc = Some (Lbl l) -> wstep P (pc, stk, st) (S pc, stk, st).
Proof. intros. apply W_v. econstructor; eauto. Qed.
Lemma W_pushlbl P pc stk st l : nth_error P pc = Some (PushLbl l) -> wstep P (pc, stk, st) (S pc, VL l :: stk, st).
Proof. intros. apply W_v. econstructor; eauto. Qed.
Lemma W_dup P pc stk st d x :
  nth_error P pc = Some (Op ("DUP" ++ nat_str d)) -> (1 <= d <= 16)%nat -> nth_error stk (d - 1) = Some x ->
  wstep P (pc, stk, st) (S pc, x :: stk, st).
Proof. intros. apply W_v. apply S_dup with (d := d); auto. Qed.
Lemma W_pop P pc stk st x : nth_error P pc = Some (Op "POP") -> wstep P (pc, x :: stk, st) (S pc, stk, st).
Proof. intros. apply W_v. eapply S_pop; eauto. Qed.
Lemma W_bin P pc stk st o g a b : nth_error P pc = Some (Op o) -> mbin o = Some g ->
  wstep P (pc, VZ a :: VZ b :: stk, st) (S pc, VZ (g a b) :: stk, st).
Proof. intros. apply W_v. eapply S_bin; eauto. Qed.
Lemma W_un P pc stk st o g a : nth_error P pc = Some (Op o) -> mbin o = None -> mun o = Some g ->
  wstep P (pc, VZ a :: stk, st) (S pc, VZ (g a) :: stk, st).
Proof. intros. apply W_v. eapply S_un; eauto. Qed.
Lemma W_jump P pc stk st l p : nth_error P pc = Some (Op "JUMP") -> pos l P = Some p -> wstep P (pc, VL l :: stk, st) (p, stk, st).
Proof. intros. apply W_v. eapply S_jump; eauto. Qed.
Lemma W_jumpi_t P pc stk st l p c : nth_error P pc = Some (Op "JUMPI") -> pos l P = Some p -> c <> 0 ->
  wstep P (pc, VL l :: VZ c :: stk, st) (p, stk, st).
Proof. intros. apply W_v. eapply S_jumpi_t; eauto. Qed.
Lemma W_jumpi_f P pc stk st l : nth_error P pc = Some (Op "JUMPI") -> wstep P (pc, VL l :: VZ 0 :: stk, st) (S pc, stk, st).
Proof. intros. apply W_v. eapply S_jumpi_f; eauto. Qed.
Lemma W_eff P pc stk st o ins outs vs v st' :
  nth_error P pc = Some (Op o) -> effop o -> assoc o evm_opcodes = Some (ins, outs) -> List.length vs = ins ->
  opsem o vs st = Norm v st' ->
  wstep P (pc, (map VZ vs ++ stk)%list, st) (S pc, (if Nat.eqb outs 1 then VZ v :: stk else stk), st').
Proof. intros. apply W_v. eapply S_eff; eauto. Qed.
Lemma starW_push P pc stk st v : (0 <= v < W) -> At P pc (push v) ->
  starW P (pc, stk, st) ((pc + List.length (push v))%nat, VZ v :: stk, st).
Proof. intros. apply star_W. apply star_push; assumption. Qed.

(* ---- slots: where the with-variables sit ---- *)
Definition slot : Type := option sval.
Fixpoint conc (sl : list slot) (en : env) : list sval :=
  match sl with
  | [] => []
  | Some t :: r => t :: conc r en
  | None :: r => match en with (_, v) :: en' => VZ v :: conc r en' | [] => [] end
  end.
Inductive WA : list slot -> list (string * nat) -> Prop :=
| WA_nil : WA [] []
| WA_tmp t sl wa : WA sl wa -> WA (Some t :: sl) wa
| WA_var x sl wa : WA sl wa -> WA (None :: sl) ((x, List.length sl) :: wa).

Lemma WA_lt sl wa : WA sl wa -> forall x hx, assoc x wa = Some hx -> (hx < List.length sl)%nat.
Proof.
  induction 1 as [|t sl wa H IH|x0 sl wa H IH]; intros x hx A.
  - discriminate.
  - specialize (IH x hx A). cbn [List.length]. lia.
  - cbn [assoc] in A. destruct (String.eqb x0 x).
    + inversion A; subst. cbn [List.length]. lia.
    + specialize (IH x hx A). cbn [List.length]. lia.
Qed.
(* reading a variable: DUP(h - hx) finds the visible binding *)
Lemma WA_read sl wa : WA sl wa -> forall en x hx, map fst en = map fst wa -> assoc x wa = Some hx ->
  exists v, assoc x en = Some v /\ nth_error (conc sl en) (List.length sl - 1 - hx) = Some (VZ v).
Proof.
  induction 1 as [|t sl wa H IH|x0 sl wa H IH]; intros en x hx NM A.
  - discriminate.
  - pose proof (WA_lt _ _ H _ _ A) as L. destruct (IH en x hx NM A) as (v & A1 & N). exists v. split; [exact A1|].
    cbn [List.length conc]. replace (S (List.length sl) - 1 - hx)%nat with (S (List.length sl - 1 - hx)) by lia. exact N.
  - destruct en as [|[y w] en']; [discriminate|]. cbn [map fst] in NM. inversion NM; subst y.
    cbn [assoc] in *. destruct (String.eqb x0 x).
    + inversion A; subst. exists w. split; [reflexivity|]. cbn [List.length conc].
      replace (S (List.length sl) - 1 - List.length sl)%nat with 0%nat by lia. reflexivity.
    + pose proof (WA_lt _ _ H _ _ A) as L. destruct (IH en' x hx H2 A) as (v & A1 & N). exists v. split; [exact A1|].
      cbn [List.length conc]. replace (S (List.length sl) - 1 - hx)%nat with (S (List.length sl - 1 - hx)) by lia. exact N.
Qed.
(* assigning a variable: the slot is (h - 1 - hx) below the top; overwriting it is `upd` *)
Lemma WA_write sl wa : WA sl wa -> forall en x hx vv, map fst en = map fst wa -> assoc x wa = Some hx ->
  exists mid old rest, conc sl en = (mid ++ VZ old :: rest)%list /\ List.length mid = (List.length sl - 1 - hx)%nat /\
    conc sl (upd x vv en) = (mid ++ VZ vv :: rest)%list /\ map fst (upd x vv en) = map fst wa.
Proof.
  induction 1 as [|t sl wa H IH|x0 sl wa H IH]; intros en x hx vv NM A.
  - discriminate.
  - pose proof (WA_lt _ _ H _ _ A) as L. destruct (IH en x hx vv NM A) as (mid & old & rest & E1 & LM & E2 & N2).
    exists (t :: mid), old, rest. cbn [conc List.length app]. rewrite E1, E2. repeat split; [lia | exact N2].
  - destruct en as [|[y w] en']; [discriminate|]. cbn [map fst] in NM. inversion NM; subst y.
    cbn [assoc] in A. cbn [upd]. destruct (String.eqb x0 x).
    + inversion A; subst. exists [], w, (conc sl en'). cbn [conc List.length app map fst]. repeat split; [lia | congruence].
    + pose proof (WA_lt _ _ H _ _ A) as L. destruct (IH en' x hx vv H2 A) as (mid & old & rest & E1 & LM & E2 & N2).
      exists (VZ w :: mid), old, rest. cbn [conc List.length app map fst]. rewrite E1, E2. repeat split; [lia | congruence].
Qed.
Definition tmps (acc : list Z) : list slot := map (fun z => Some (VZ z)) acc.
Lemma conc_tmps acc sl en : conc (tmps acc ++ sl) en = (map VZ acc ++ conc sl en)%list.
Proof. induction acc as [|a t IH]; [reflexivity|]. cbn [tmps map app conc]. unfold tmps in IH. rewrite IH. reflexivity. Qed.
Lemma WA_tmps acc sl wa : WA sl wa -> WA (tmps acc ++ sl) wa.
Proof. intros H. induction acc as [|a t IH]; [exact H|]. cbn [tmps map app]. apply WA_tmp. exact IH. Qed.

(* ---- outcomes of the meaning as properties of machine runs ---- *)
Definition ReachW (P : list item) (c : cfg M) (o : outW M) (tgt : Z -> env -> St M -> cfg M) (names : list string) : Prop :=
  match o with
  | NormW v en' st' => starW P c (tgt v en' st') /\ map fst en' = names
  | HaltW h => haltsW P c h
  | _ => False
  end.
Lemma reach_bindW P c (d : denW M) (k : Z -> denW M) en st tgt1 tgt2 names :
  ReachW P c (d en st) tgt1 names ->
  (forall v en1 st1, d en st = NormW v en1 st1 -> map fst en1 = names ->
     ReachW P (tgt1 v en1 st1) (k v en1 st1) tgt2 names) ->
  ReachW P c (bindW M d k en st) tgt2 names.
Proof.
  intros R1 R2. unfold bindW. destruct (d en st) as [v en1 st1|h| | | |] eqn:E; try exact R1.
  destruct R1 as [S1 N1]. specialize (R2 v en1 st1 eq_refl N1). unfold ReachW in *.
  destruct (k v en1 st1) as [v2 en2 st2|h2| | | |]; try exact R2.
  - destruct R2 as [S2 N2]. split; [eapply starW_trans; eauto | exact N2].
  - eapply haltsW_star; eauto.
Qed.
Lemma reach_retW P c v en st tgt names : map fst en = names -> starW P c (tgt v en st) -> ReachW P c (NormW v en st) tgt names.
Proof. intros E S. split; assumption. Qed.
Lemma reach_postW P c o tgt1 tgt2 names :
  ReachW P c o tgt1 names -> (forall v en' st', starW P (tgt1 v en' st') (tgt2 v en' st')) -> ReachW P c o tgt2 names.
Proof. unfold ReachW. destruct o; auto. intros [S G] H. split; [eapply starW_trans; eauto | exact G]. Qed.
Lemma reach_preW P c c1 o tgt names : starW P c c1 -> ReachW P c1 o tgt names -> ReachW P c o tgt names.
Proof.
  unfold ReachW. intros S. destruct o; auto.
  - intros [S1 G]. split; [eapply starW_trans; eauto | exact G].
  - intros H. eapply haltsW_star; eauto.
Qed.

Hypothesis revert_ok : forall st, opsem "REVERT" [0; 0] st = Halt (sem_revert M st).   (*section*)
Hypothesis invalid_ok : forall st, opsem "INVALID" [] st = Halt (sem_invalid M st).    (*section*)

(* ---- the fragment: StmtSound.frag + with / set ---- *)
Fixpoint fragW (e : expr) : Prop :=
  match e with
  | Lit _ => True
  | Var x => assoc (upper x) evm_opcodes = None
  | Node op args =>
      let vall := (fix go (l : list expr) : Prop := match l with [] => True | x :: t => (fragW x /\ valency x = 1%nat) /\ go t end) in
      match kind_of op with
      | KBin _ => match args with [a; b] => (fragW a /\ valency a = 1%nat) /\ (fragW b /\ valency b = 1%nat) | _ => False end
      | KUn _ | KCeil32 | KAssert | KAssertUnreachable =>
          match args with [a] => fragW a /\ valency a = 1%nat | _ => False end
      | KSeq => (fix go (l : list expr) : Prop := match l with [] => True | x :: t => (fragW x /\ v01 x) /\ go t end) args
      | KIf =>
          match args with
          | [c; t] => (fragW c /\ valency c = 1%nat) /\ fragW t /\ valency t = 0%nat
          | [c; t; f] => (fragW c /\ valency c = 1%nat) /\ fragW t /\ fragW f /\ valency t = valency f /\ v01 t
          | _ => False
          end
      | KPass => args = []
      | KOther =>
          match assoc (upper op) evm_opcodes with
          | Some (ins, outs) => effop (upper op) /\ List.length args = ins /\ (outs <= 1)%nat /\ vall args
          | None =>
              if String.eqb op "with" then
                match args with [Var _; v; b] => (fragW v /\ valency v = 1%nat) /\ fragW b /\ v01 b | _ => False end
              else if String.eqb op "set" then
                match args with [Var _; v] => fragW v /\ valency v = 1%nat | _ => False end
              else False
          end
      end
  end.

Definition TgtW (pc : nat) (n : nat) (sl : list slot) (valued : bool) : Z -> env -> St M -> cfg M :=
  fun v en' st' => ((pc + n)%nat, (if valued then VZ v :: conc sl en' else conc sl en'), st').
Definition SpecW (rec : nat -> expr -> lst -> res (list item * lst)) (wa : list (string * nat)) : Prop :=
  forall h e s code s', rec h e s = Ok (code, s') -> fragW e -> rinv s ->
    mono s s' /\ rinv s' /\
    forall P pc, At P pc code -> NoDup (lbls P) -> (forall l, In (l, None) (lh s') -> RevBlock P l) ->
    forall sl en st, WA sl wa -> map fst en = map fst wa -> List.length sl = h ->
      ReachW P (pc, conc sl en, st) (evW e en st) (TgtW pc (List.length code) sl (Nat.eqb (valency e) 1)) (map fst wa).

(* operands of an opcode node *)
Fixpoint runvW (l : list expr) (acc : list Z) (en : env) (st : St M) : (list Z * env * St M) + outW M :=
  match l with
  | [] => inl (acc, en, st)
  | x :: t => match evW x en st with NormW v en1 st1 => runvW t (v :: acc) en1 st1 | o => inr o end
  end.
Lemma runW_vals l : forall acc en st k,
  runW M (map evW l) acc en st k = match runvW l acc en st with inl (vs, en', st') => k vs en' st' | inr o => o end.
Proof.
  induction l as [|x t IH]; intros acc en st k; cbn [map runW runvW]; [reflexivity|].
  destruct (evW x en st); try reflexivity. apply IH.
Qed.
Lemma runvW_len l : forall acc en st vs en' st', runvW l acc en st = inl (vs, en', st') ->
  List.length vs = (List.length l + List.length acc)%nat.
Proof.
  induction l as [|x t IH]; intros acc en st vs en' st' H; cbn [runvW] in H; [inversion H; reflexivity|].
  destruct (evW x en st); try discriminate. apply IH in H. cbn [List.length] in *. lia.
Qed.

Lemma many_soundW rec wa : SpecW rec wa -> forall l h s code s',
  many_ rec l h s = Ok (code, s') -> Forall (fun x => fragW x /\ valency x = 1%nat) l -> rinv s ->
  mono s s' /\ rinv s' /\
  forall P pc, At P pc code -> NoDup (lbls P) -> (forall l, In (l, None) (lh s') -> RevBlock P l) ->
  forall acc sl en st, WA sl wa -> map fst en = map fst wa -> List.length (tmps acc ++ sl) = h ->
    match runvW l acc en st with
    | inl (vs, en', st') => starW P (pc, (map VZ acc ++ conc sl en)%list, st)
                                    ((pc + List.length code)%nat, (map VZ vs ++ conc sl en')%list, st') /\
                            map fst en' = map fst wa
    | inr (HaltW hl) => haltsW P (pc, (map VZ acc ++ conc sl en)%list, st) hl
    | inr _ => False
    end.
Proof.
  intros SP. induction l as [|x t IH]; intros h s code s' H F R; cbn [many_] in H.
  - inversion H; subst. split; [apply mono_refl|]. split; [exact R|]. intros P pc A ND RB acc sl en st WAs NM LN. cbn [runvW].
    rewrite Nat.add_0_r. split; [constructor | exact NM].
  - inversion F as [|? ? [Fx Vx] Ft]; subst.
    destruct (rec h x s) as [[cx s1]|] eqn:Ex; cbn [bind] in H; [|discriminate].
    destruct (many_ rec t (S h) s1) as [[ct s2]|] eqn:Et; cbn [bind] in H; [|discriminate]. inversion H; subst. clear H.
    destruct (SP _ _ _ _ _ Ex Fx R) as (M1 & R1 & S1). destruct (IH _ _ _ _ Et Ft R1) as (M2 & R2 & S2).
    split; [eapply mono_trans; eauto|]. split; [exact R2|]. intros P pc A ND RB acc sl en st WAs NM LN. cbn [runvW].
    specialize (S1 P pc (at_app_l _ _ _ _ A) ND (fun l Hl => RB l (M2 _ Hl)) (tmps acc ++ sl)%list en st (WA_tmps acc _ _ WAs) NM LN).
    rewrite Vx in S1. cbn [Nat.eqb] in S1. unfold ReachW, TgtW in S1. rewrite !conc_tmps in S1.
    destruct (evW x en st) as [v en1 st1|hl| | | |]; try exact S1.
    destruct S1 as [St1 N1]. rewrite conc_tmps in St1.
    specialize (S2 P _ (at_app_r _ _ _ _ A) ND RB (v :: acc) sl en1 st1 WAs N1).
    cbn [tmps map app List.length] in S2. unfold tmps in LN. specialize (S2 ltac:(cbn [List.length]; lia)).
    destruct (runvW t (v :: acc) en1 st1) as [[[vs en'] st']|o].
    + destruct S2 as [St2 N2]. split; [|exact N2].
      eapply starW_trans; [exact St1|]. rewrite app_length, Nat.add_assoc. exact St2.
    + destruct o; try exact S2. eapply haltsW_star; eauto.
Qed.

Lemma seq_soundW (rec : expr -> lst -> res (list item * lst)) wa h :
  (forall e s code s', rec e s = Ok (code, s') -> fragW e -> rinv s ->
     mono s s' /\ rinv s' /\
     forall P pc, At P pc code -> NoDup (lbls P) -> (forall l, In (l, None) (lh s') -> RevBlock P l) ->
     forall sl en st, WA sl wa -> map fst en = map fst wa -> List.length sl = h ->
       ReachW P (pc, conc sl en, st) (evW e en st) (TgtW pc (List.length code) sl (Nat.eqb (valency e) 1)) (map fst wa)) ->
  forall l s code s', seq_ rec l s = Ok (code, s') -> Forall (fun x => fragW x /\ v01 x) l -> rinv s ->
  mono s s' /\ rinv s' /\
  forall P pc, At P pc code -> NoDup (lbls P) -> (forall l, In (l, None) (lh s') -> RevBlock P l) ->
  forall sl en st, WA sl wa -> map fst en = map fst wa -> List.length sl = h ->
    ReachW P (pc, conc sl en, st) (seqW M (map evW l) en st) (TgtW pc (List.length code) sl (Nat.eqb (last_valency l) 1)) (map fst wa).
Proof.
  intros SP. induction l as [|x t IH]; intros s code s' H F R; cbn [seq_] in H.
  - inversion H; subst. split; [apply mono_refl|]. split; [exact R|]. intros P pc A ND RB sl en st WAs NM LN. cbn.
    split; [unfold TgtW; rewrite Nat.add_0_r; constructor | exact NM].
  - inversion F as [|? ? [Fx Vx] Ft]; subst.
    destruct (rec x s) as [[cx s1]|] eqn:Ex; cbn [bind] in H; [|discriminate].
    destruct (seq_ rec t s1) as [[ct s2]|] eqn:Et; cbn [bind] in H; [|discriminate]. inversion H; subst. clear H.
    destruct (SP _ _ _ _ Ex Fx R) as (M1 & R1 & S1). destruct (IH _ _ _ Et Ft R1) as (M2 & R2 & S2).
    split; [eapply mono_trans; eauto|]. split; [exact R2|]. intros P pc A ND RB sl en st WAs NM LN.
    specialize (S1 P pc (at_app_l _ _ _ _ A) ND (fun l Hl => RB l (M2 _ Hl)) sl en st WAs NM LN).
    destruct t as [|y t'].
    + cbn [seq_] in Et. inversion Et; subst. rewrite andb_false_r in *. cbn [app map seqW]. rewrite !app_nil_r in *.
      exact S1.
    + change (last_valency (x :: y :: t')) with (last_valency (y :: t')).
      change (seqW M (map evW (x :: y :: t')) en st) with (bindW M (evW x) (fun _ => seqW M (map evW (y :: t'))) en st).
      eapply reach_bindW; [exact S1|]. intros v en1 st1 E N1. unfold TgtW at 1.
      cbn [negb andb] in *. rewrite andb_true_r in *. apply at_app_r in A.
      destruct Vx as [V|V]; rewrite V in *; cbn [Nat.eqb app List.length] in *.
      * specialize (S2 P _ A ND RB sl en1 st1 WAs N1 LN).
        unfold TgtW in *. rewrite app_length. rewrite Nat.add_assoc. exact S2.
      * pose proof (at_nth _ _ _ _ A) as NP. apply at_cons in A.
        specialize (S2 P _ A ND RB sl en1 st1 WAs N1 LN).
        eapply reach_preW; [apply starW_one; apply W_pop; exact NP|].
        unfold TgtW in *. rewrite app_length. cbn [List.length].
        replace (pc + (List.length cx + S (List.length ct)))%nat with (S (pc + List.length cx) + List.length ct)%nat by lia.
        exact S2.
Qed.

Ltac cfg_eqW := unfold TgtW; repeat (first [rewrite app_length | progress cbn [List.length Nat.eqb]]);
  first [apply f_equal2; [apply f_equal2; [lia | reflexivity] | reflexivity] | repeat f_equal; lia].

Lemma evalW_other op args : kind_of op = KOther ->
  evW (Node op args) =
    if is_evm op then (fun en st => runW M (rev (map evW args)) [] en st (opW M opsem (upper op)))
    else if String.eqb op "with" then
      match args with
      | [Var x; v; b] => bindW M (evW v) (fun vv en s => popW M (evW b ((x, vv) :: en) s))
      | _ => fun _ _ => StuckW
      end
    else if String.eqb op "set" then
      match args with
      | [Var x; v] =>
          bindW M (evW v) (fun vv en s => match assoc x en with Some _ => NormW 0 (upd x vv en) s | None => StuckW end)
      | _ => fun _ _ => StuckW
      end
    else evW (Node op args).
Proof.
  intros K. cbn [evalW]. rewrite K. destruct (is_evm op); [reflexivity|].
  destruct (String.eqb op "with"); [reflexivity|]. destruct (String.eqb op "set"); reflexivity.
Qed.

Local Opaque push.
Theorem lower_stmtW f : forall wa, SpecW (lower f wa None) wa.
Proof.
  induction f as [|f IH]; intros wa h e s code s' H FR R; [discriminate|].
  destruct e as [v|x|op args].
  - (* literal *)
    cbn [lower] in H. destruct (lit_okb v); [|discriminate]. inversion H; subst.
    split; [apply mono_refl|]. split; [exact R|]. intros P pc A ND RB sl en st WAs NM LN. cbn [evalW]. unfold retW.
    apply reach_retW; [exact NM|]. unfold TgtW. cbn [valency Nat.eqb]. apply starW_push; [apply Z.mod_pos_bound; unfold W; lia | exact A].
  - (* with-variable *)
    cbn [fragW] in FR. cbn [lower] in H. rewrite FR in H.
    destruct (assoc x wa) as [hx|] eqn:Ax; [|discriminate].
    destruct (Nat.ltb 16 (h - hx)) eqn:D; [discriminate|]. apply Nat.ltb_ge in D. inversion H; subst.
    split; [apply mono_refl|]. split; [exact R|]. intros P pc A ND RB sl en st WAs NM LN. subst h. cbn [evalW].
    destruct (WA_read _ _ WAs en x hx NM Ax) as (v & Av & N). pose proof (WA_lt _ _ WAs _ _ Ax) as L. rewrite Av.
    apply reach_retW; [exact NM|]. unfold TgtW. cbn [valency Nat.eqb List.length].
    eapply starW_to; [apply starW_one; apply (W_dup P pc _ st (List.length sl - hx)); [eapply at_nth; exact A | lia |]|f_equal; f_equal; lia].
    replace (List.length sl - hx - 1)%nat with (List.length sl - 1 - hx)%nat by lia. exact N.
  - pose proof (kind_of_name op) as KN. cbn [fragW] in FR. destruct (kind_of op) eqn:K; cbn [kind_name] in KN.
    + (* binary operators *)
      destruct args as [|a [|b [|? ?]]]; try contradiction. destruct FR as [[Fa Va] [Fb Vb]].
      assert (EB: bop_of_name op = Some o) by (unfold kind_of in K; destruct (bop_of_name op); [inversion K; reflexivity|];
        repeat match type of K with (if ?c then _ else _) = _ => destruct c end; discriminate).
      clear KN. apply bop_of_name_some' in EB. subst op.
      assert (H': exists cb s1 ca tail, lower f wa None h b s = Ok (cb, s1) /\ lower f wa None (S h) a s1 = Ok (ca, s') /\
                  code = (cb ++ ca ++ tail)%list /\
                  forall P p stk st va vb, At P p tail ->
                    starW P (p, VZ va :: VZ vb :: stk, st) ((p + List.length tail)%nat, VZ (bop_sem o va vb) :: stk, st)).
      { destruct o; red_ops H; cbn [rev app] in H; cbn [many_] in H;
          sub H b cb s1 Eb; cbn [bind] in H; sub H a ca s2 Ea; cbn [bind] in H; inversion H; subst; clear H;
          rewrite ?app_nil_r; exists cb, s1, ca;
          try (eexists [Op _]; split; [first [reflexivity | exact Eb]|]; split; [first [exact Ea | reflexivity]|]; split; [rewrite <- app_assoc; reflexivity|];
               intros P p stk st va vb AT;
               eapply starW_to; [apply starW_one; eapply W_bin; [eapply at_nth; exact AT | reflexivity]|]; cfg_eqW);
          (eexists [Op _; Op "ISZERO"]; split; [first [reflexivity | exact Eb]|]; split; [first [exact Ea | reflexivity]|]; split; [reflexivity|];
           intros P p stk st va vb AT; pose proof (at_nth _ _ _ _ AT) as N1; apply at_cons in AT;
           eapply starW_step; [eapply W_bin; [exact N1 | reflexivity]|];
           eapply starW_to; [apply starW_one; eapply (W_un P _ _ _ "ISZERO"); [eapply at_nth; exact AT | reflexivity | reflexivity]|]; cfg_eqW). }
      destruct H' as (cb & s1 & ca & tail & Eb & Ea & -> & TL).
      destruct (IH wa _ _ _ _ _ Eb Fb R) as (M1 & R1 & S1). destruct (IH wa _ _ _ _ _ Ea Fa R1) as (M2 & R2 & S2).
      split; [eapply mono_trans; eauto|]. split; [exact R2|]. intros P pc A ND RB sl en st WAs NM LN.
      assert (EV: evW (Node (bop_name o) [a; b]) en st =
                  bindW M (evW b) (fun vb => bindW M (evW a) (fun va => retW M (bop_sem o va vb))) en st).
      { cbn [evalW]. rewrite K. reflexivity. }
      rewrite EV.
      eapply reach_bindW; [apply (S1 P pc (at_app_l _ _ _ _ A) ND (fun l0 Hl => RB l0 (M2 _ Hl)) sl en st WAs NM LN)|].
      intros vb en1 st1 E1 N1. rewrite Vb. cbn [Nat.eqb]. unfold TgtW at 1.
      apply at_app_r in A.
      eapply reach_bindW.
      { apply (S2 P _ (at_app_l _ _ _ _ A) ND RB (Some (VZ vb) :: sl) en1 st1 (WA_tmp _ _ _ WAs) N1). cbn [List.length]; lia. }
      intros va en2 st2 E2 N2. rewrite Va. cbn [Nat.eqb]. unfold TgtW at 1. cbn [conc].
      apply at_app_r in A. apply reach_retW; [exact N2|].
      eapply starW_to; [apply (TL P _ (conc sl en2) st2 va vb A)|].
      replace (valency (Node (bop_name o) [a; b])) with 1%nat by (destruct o; reflexivity). cfg_eqW.
    + (* iszero / not *)
      destruct args as [|a [|? ?]]; try contradiction. destruct FR as [Fa Va]. subst op.
      assert (G: exists g, mun (upper (uop_name o)) = Some g /\ mbin (upper (uop_name o)) = None /\ (forall z, g z = uop_sem o z))
        by (destruct o; eexists; repeat split; reflexivity).
      destruct G as (g & G1 & G2 & G3).
      assert (H': exists ca, lower f wa None h a s = Ok (ca, s') /\ code = (ca ++ [Op (upper (uop_name o))])%list).
      { destruct o; red_ops H; cbn [rev app many_] in H; sub H a ca s1 Ea; cbn [bind] in H; inversion H; subst;
          exists ca; rewrite app_nil_r; auto. }
      destruct H' as (ca & Ea & ->). destruct (IH wa _ _ _ _ _ Ea Fa R) as (M1 & R1 & S1).
      split; [exact M1|]. split; [exact R1|]. intros P pc A ND RB sl en st WAs NM LN.
      assert (EV: evW (Node (uop_name o) [a]) en st = bindW M (evW a) (fun va => retW M (uop_sem o va)) en st).
      { cbn [evalW]. rewrite K. destruct o; reflexivity. }
      rewrite EV. eapply reach_bindW; [apply (S1 P pc (at_app_l _ _ _ _ A) ND RB sl en st WAs NM LN)|].
      intros va en1 st1 E N1. rewrite Va. cbn [Nat.eqb]. unfold TgtW at 1.
      apply reach_retW; [exact N1|]. apply at_app_r in A.
      eapply starW_to; [apply starW_one; eapply W_un; [eapply at_nth; exact A | exact G2 | exact G1]|].
      rewrite G3. replace (valency (Node (uop_name o) [a])) with 1%nat by (destruct o; reflexivity). cfg_eqW.
    + (* ceil32 *)
      destruct args as [|a [|? ?]]; try contradiction. destruct FR as [Fa Va]. subst op. red_ops H.
      sub H a ca s1 Ea; cbn [bind] in H. inversion H; subst. clear H.
      destruct (IH wa _ _ _ _ _ Ea Fa R) as (M1 & R1 & S1).
      split; [exact M1|]. split; [exact R1|]. intros P pc A ND RB sl en st WAs NM LN.
      assert (EV: evW (Node "ceil32" [a]) en st = bindW M (evW a) (fun va => retW M (ceil32_sem va)) en st) by reflexivity.
      rewrite EV.
      pose proof (at_app_l _ _ _ _ A) as A1. apply at_app_r in A. pose proof (at_nth _ _ _ _ A) as N2. apply at_cons in A.
      pose proof (at_app_l _ _ _ _ A) as A3. apply at_app_r in A. pose proof (at_app_l _ _ _ _ A) as A4. apply at_app_r in A.
      eapply reach_preW with (c1 := (_, VZ 31 :: VZ (w_not 31) :: conc sl en, st)).
      { eapply starW_trans; [apply (starW_push P pc _ st 31); [unfold W; lia | exact A1]|].
        eapply starW_step; [eapply (W_un P _ _ st "NOT"); [exact N2 | reflexivity | reflexivity]|].
        apply (starW_push P _ _ st 31); [unfold W; lia | exact A3]. }
      eapply reach_bindW.
      { apply (S1 P _ A4 ND RB (Some (VZ 31) :: Some (VZ (w_not 31)) :: sl) en st); [do 2 apply WA_tmp; exact WAs | exact NM | cbn [List.length]; lia]. }
      intros va en1 st1 E N1. rewrite Va. cbn [Nat.eqb]. unfold TgtW at 1. cbn [conc].
      apply reach_retW; [exact N1|]. pose proof (at_nth _ _ _ _ A) as N5. apply at_cons in A. pose proof (at_nth _ _ _ _ A) as N6.
      eapply starW_step; [eapply (W_bin P _ _ st1 "ADD"); [exact N5 | reflexivity]|].
      eapply starW_to; [apply starW_one; eapply (W_bin P _ _ st1 "AND"); [exact N6 | reflexivity]|].
      change (valency (Node "ceil32" [a])) with 1%nat. unfold ceil32_sem. cfg_eqW.
    + (* seq *)
      subst op. red_ops H.
      assert (FA: Forall (fun x => fragW x /\ v01 x) args) by (apply go_forall; exact FR).
      destruct (seq_soundW _ wa h (fun e0 s0 c0 s0' H0 F0 R0 => IH wa h e0 s0 c0 s0' H0 F0 R0) _ _ _ _ H FA R) as (M1 & R1 & S1).
      split; [exact M1|]. split; [exact R1|]. intros P pc A ND RB sl en st WAs NM LN.
      rewrite last_valency_seq. exact (S1 P pc A ND RB sl en st WAs NM LN).
    + (* if *)
      subst op. destruct args as [|c [|t [|el [|? ?]]]]; try contradiction.
      * (* (if c t) *)
        destruct FR as ((Fc & Vc) & Ft & Vt). red_ops H.
        sub H c ac s1 Ec; cbn [bind] in H. destruct (mksym "join" (Some h) s1) as [lend s2] eqn:Ms.
        sub H t at_ s3 Et; cbn [bind] in H. inversion H; subst. clear H.
        destruct (IH wa _ _ _ _ _ Ec Fc R) as (M1 & R1 & S1).
        destruct (mksym_spec _ _ _ _ _ Ms) as (M2 & _ & _ & R2). specialize (R2 R1).
        destruct (IH wa _ _ _ _ _ Et Ft R2) as (M3 & R3 & S3).
        split; [eapply mono_trans; [eapply mono_trans; eauto | exact M3]|]. split; [exact R3|].
        intros P pc A ND RB sl en st WAs NM LN.
        assert (EV: evW (Node "if" [c; t]) en st = bindW M (evW c) (fun vc => if vc =? 0 then retW M 0 else evW t) en st) by reflexivity.
        rewrite EV.
        eapply reach_bindW; [apply (S1 P pc (at_app_l _ _ _ _ A) ND (fun l0 Hl => RB l0 (M3 _ (M2 _ Hl))) sl en st WAs NM LN)|].
        intros vc en1 st1 E1 N1. rewrite Vc. cbn [Nat.eqb]. unfold TgtW at 1.
        apply at_app_r in A. pose proof (at_nth _ _ _ _ A) as N1'. apply at_cons in A. pose proof (at_nth _ _ _ _ A) as N2.
        apply at_cons in A. pose proof (at_nth _ _ _ _ A) as N3. apply at_cons in A.
        pose proof (at_app_l _ _ _ _ A) as AT. apply at_app_r in A. pose proof (at_nth _ _ _ _ A) as N4.
        pose proof (pos_unique P ND _ lend N4) as PL.
        change (valency (Node "if" [c; t])) with (valency t). rewrite Vt. cbn [Nat.eqb].
        eapply reach_preW with (c1 := (_, VL lend :: VZ (w_iszero vc) :: conc sl en1, st1)).
        { eapply starW_step; [eapply (W_un P _ _ st1 "ISZERO"); [exact N1' | reflexivity | reflexivity]|].
          apply starW_one. eapply W_pushlbl. exact N2. }
        destruct (vc =? 0) eqn:Z0.
        -- apply Z.eqb_eq in Z0. subst vc. apply reach_retW; [exact N1|].
           eapply starW_step; [eapply (W_jumpi_t P _ _ st1 lend _ 1); [exact N3 | exact PL | discriminate]|].
           eapply starW_to; [apply starW_one; eapply W_lbl; exact N4|]. cfg_eqW.
        -- replace (w_iszero vc) with 0 by (unfold w_iszero; rewrite Z0; reflexivity).
           eapply reach_preW with (c1 := (_, conc sl en1, st1)); [apply starW_one; eapply W_jumpi_f; exact N3|].
           eapply reach_postW; [apply (S3 P _ AT ND RB sl en1 st1 WAs N1 LN)|].
           intros v en' st'. rewrite Vt. cbn [Nat.eqb]. eapply starW_to; [apply starW_one; eapply W_lbl; exact N4|]. cfg_eqW.
      * (* (if c t el) *)
        destruct FR as ((Fc & Vc) & Ft & Fe & Vte & _). red_ops H.
        sub H c ac s1 Ec; cbn [bind] in H. destruct (mksym "else" (Some h) s1) as [lmid s2] eqn:Ms1.
        destruct (mksym "join" (Some (h + valency t)%nat) s2) as [lend s3] eqn:Ms2.
        sub H t at_ s4 Et; cbn [bind] in H. sub H el ae s5 Ee; cbn [bind] in H. inversion H; subst. clear H.
        destruct (IH wa _ _ _ _ _ Ec Fc R) as (M1 & R1 & S1).
        destruct (mksym_spec _ _ _ _ _ Ms1) as (M2 & _ & _ & R2). specialize (R2 R1).
        destruct (mksym_spec _ _ _ _ _ Ms2) as (M3 & _ & _ & R3). specialize (R3 R2).
        destruct (IH wa _ _ _ _ _ Et Ft R3) as (M4 & R4 & S4). destruct (IH wa _ _ _ _ _ Ee Fe R4) as (M5 & R5 & S5).
        assert (M15: mono s1 s') by (eapply mono_trans; [exact M2|]; eapply mono_trans; [exact M3|]; eapply mono_trans; eauto).
        split; [eapply mono_trans; eauto|]. split; [exact R5|]. intros P pc A ND RB sl en st WAs NM LN.
        assert (EV: evW (Node "if" [c; t; el]) en st = bindW M (evW c) (fun vc => if vc =? 0 then evW el else evW t) en st) by reflexivity.
        rewrite EV.
        eapply reach_bindW; [apply (S1 P pc (at_app_l _ _ _ _ A) ND (fun l0 Hl => RB l0 (M15 _ Hl)) sl en st WAs NM LN)|].
        intros vc en1 st1 E1 N1. rewrite Vc. cbn [Nat.eqb]. unfold TgtW at 1.
        apply at_app_r in A. pose proof (at_nth _ _ _ _ A) as N1'. apply at_cons in A. pose proof (at_nth _ _ _ _ A) as N2.
        apply at_cons in A. pose proof (at_nth _ _ _ _ A) as N3. apply at_cons in A.
        pose proof (at_app_l _ _ _ _ A) as AT. apply at_app_r in A.
        pose proof (at_nth _ _ _ _ A) as N4. apply at_cons in A. pose proof (at_nth _ _ _ _ A) as N5. apply at_cons in A.
        pose proof (at_nth _ _ _ _ A) as N6. apply at_cons in A.
        pose proof (at_app_l _ _ _ _ A) as AE. apply at_app_r in A. pose proof (at_nth _ _ _ _ A) as N7.
        pose proof (pos_unique P ND _ lmid N6) as PM. pose proof (pos_unique P ND _ lend N7) as PL.
        change (valency (Node "if" [c; t; el])) with (valency t).
        eapply reach_preW with (c1 := (_, VL lmid :: VZ (w_iszero vc) :: conc sl en1, st1)).
        { eapply starW_step; [eapply (W_un P _ _ st1 "ISZERO"); [exact N1' | reflexivity | reflexivity]|].
          apply starW_one. eapply W_pushlbl. exact N2. }
        destruct (vc =? 0) eqn:Z0.
        -- apply Z.eqb_eq in Z0. subst vc.
           eapply reach_preW with (c1 := (_, conc sl en1, st1)).
           { eapply starW_step; [eapply (W_jumpi_t P _ _ st1 lmid _ 1); [exact N3 | exact PM | discriminate]|].
             apply starW_one. eapply W_lbl. exact N6. }
           eapply reach_postW; [apply (S5 P _ AE ND RB sl en1 st1 WAs N1 LN)|].
           intros v en' st'. rewrite <- Vte. eapply starW_to; [apply starW_one; eapply W_lbl; exact N7|]. cfg_eqW.
        -- replace (w_iszero vc) with 0 by (unfold w_iszero; rewrite Z0; reflexivity).
           eapply reach_preW with (c1 := (_, conc sl en1, st1)); [apply starW_one; eapply W_jumpi_f; exact N3|].
           eapply reach_postW; [apply (S4 P _ AT ND (fun l0 Hl => RB l0 (M5 _ Hl)) sl en1 st1 WAs N1 LN)|].
           intros v en' st'. eapply starW_step; [eapply W_pushlbl; exact N4|].
           eapply starW_step; [eapply (W_jump P _ _ st' lend); [exact N5 | exact PL]|].
           eapply starW_to; [apply starW_one; eapply W_lbl; exact N7|]. cfg_eqW.
    + (* assert *)
      destruct args as [|c [|? ?]]; try contradiction. destruct FR as [Fc Vc]. subst op. red_ops H.
      sub H c ac s1 Ec; cbn [bind] in H. destruct (assert_false s1) as [af s2] eqn:Af. inversion H; subst. clear H.
      destruct (IH wa _ _ _ _ _ Ec Fc R) as (M1 & R1 & S1).
      destruct (assert_false_spec _ _ _ Af R1) as (M2 & R2 & l & -> & IL).
      split; [eapply mono_trans; eauto|]. split; [exact R2|]. intros P pc A ND RB sl en st WAs NM LN.
      assert (EV: evW (Node "assert" [c]) en st =
                  bindW M (evW c) (fun vc => if vc =? 0 then (fun _ s => HaltW (sem_revert M s)) else retW M 0) en st) by reflexivity.
      rewrite EV. destruct (RB l IL) as (r & AR).
      eapply reach_bindW; [apply (S1 P pc (at_app_l _ _ _ _ A) ND (fun l0 Hl => RB l0 (M2 _ Hl)) sl en st WAs NM LN)|].
      intros vc en1 st1 E N1. rewrite Vc. cbn [Nat.eqb]. unfold TgtW at 1.
      apply at_app_r in A. pose proof (at_nth _ _ _ _ A) as N1'. apply at_cons in A. pose proof (at_nth _ _ _ _ A) as N2.
      apply at_cons in A. pose proof (at_nth _ _ _ _ A) as N3.
      assert (PRE: starW P ((pc + List.length ac)%nat, VZ vc :: conc sl en1, st1)
                          (S (S (pc + List.length ac)), VL l :: VZ (w_iszero vc) :: conc sl en1, st1)).
      { eapply starW_step; [eapply (W_un P _ _ st1 "ISZERO"); [exact N1' | reflexivity | reflexivity]|].
        apply starW_one. eapply W_pushlbl. exact N2. }
      destruct (vc =? 0) eqn:Z0.
      * apply Z.eqb_eq in Z0. subst vc. pose proof (at_nth _ _ _ _ AR) as NR. apply at_cons in AR.
        pose proof (pos_unique P ND r l NR) as PL. pose proof (at_app_l _ _ _ _ AR) as AP. apply at_app_r in AR.
        pose proof (at_nth _ _ _ _ AR) as ND1. apply at_cons in AR. pose proof (at_nth _ _ _ _ AR) as NRV.
        exists (S (S r + List.length (push 0)), (map VZ [0; 0] ++ conc sl en1)%list, st1). split.
        -- eapply starW_trans; [exact PRE|].
           eapply starW_step; [eapply (W_jumpi_t P _ _ st1 l r 1); [exact N3 | exact PL | discriminate]|].
           eapply starW_step; [eapply W_lbl; exact NR|].
           eapply starW_trans; [apply (starW_push P (S r) _ st1 0); [unfold W; lia | exact AP]|].
           apply starW_one. apply (W_dup P _ (VZ 0 :: conc sl en1) st1 1 (VZ 0)); [exact ND1 | lia | reflexivity].
        -- eapply (H_eff M opsem P _ _ st1 "REVERT" 2 0 [0; 0]); [exact NRV | apply effop_revert | reflexivity | reflexivity | apply revert_ok].
      * apply reach_retW; [exact N1|]. eapply starW_trans; [exact PRE|].
        replace (w_iszero vc) with 0 by (unfold w_iszero; rewrite Z0; reflexivity).
        eapply starW_to; [apply starW_one; eapply W_jumpi_f; exact N3|].
        change (valency (Node "assert" [c])) with 0%nat. cfg_eqW.
    + (* assert_unreachable *)
      destruct args as [|c [|? ?]]; try contradiction. destruct FR as [Fc Vc]. subst op. red_ops H.
      sub H c ac s1 Ec; cbn [bind] in H. destruct (mksym "reachable" (Some h) s1) as [lend s2] eqn:Ms. inversion H; subst. clear H.
      destruct (IH wa _ _ _ _ _ Ec Fc R) as (M1 & R1 & S1).
      destruct (mksym_spec _ _ _ _ _ Ms) as (M2 & _ & _ & R2). specialize (R2 R1).
      split; [eapply mono_trans; eauto|]. split; [exact R2|]. intros P pc A ND RB sl en st WAs NM LN.
      assert (EV: evW (Node "assert_unreachable" [c]) en st =
                  bindW M (evW c) (fun vc => if vc =? 0 then (fun _ s => HaltW (sem_invalid M s)) else retW M 0) en st) by reflexivity.
      rewrite EV.
      eapply reach_bindW; [apply (S1 P pc (at_app_l _ _ _ _ A) ND (fun l0 Hl => RB l0 (M2 _ Hl)) sl en st WAs NM LN)|].
      intros vc en1 st1 E N1. rewrite Vc. cbn [Nat.eqb]. unfold TgtW at 1.
      apply at_app_r in A. pose proof (at_nth _ _ _ _ A) as N1'. apply at_cons in A. pose proof (at_nth _ _ _ _ A) as N2.
      apply at_cons in A. pose proof (at_nth _ _ _ _ A) as N3. apply at_cons in A. pose proof (at_nth _ _ _ _ A) as N4.
      pose proof (pos_unique P ND _ lend N4) as PL.
      destruct (vc =? 0) eqn:Z0.
      * apply Z.eqb_eq in Z0. subst vc. exists (S (S (pc + List.length ac)), (map VZ [] ++ conc sl en1)%list, st1). split.
        -- eapply starW_step; [eapply W_pushlbl; exact N1'|]. apply starW_one. eapply W_jumpi_f. exact N2.
        -- eapply (H_eff M opsem P _ _ st1 "INVALID" 0 0 []); [exact N3 | apply effop_invalid | reflexivity | reflexivity | apply invalid_ok].
      * apply reach_retW; [exact N1|]. apply Z.eqb_neq in Z0.
        eapply starW_step; [eapply W_pushlbl; exact N1'|].
        eapply starW_step; [eapply (W_jumpi_t P _ _ st1 lend _ vc); [exact N2 | exact PL | exact Z0]|].
        eapply starW_to; [apply starW_one; eapply W_lbl; exact N4|].
        change (valency (Node "assert_unreachable" [c])) with 0%nat. cfg_eqW.
    + (* pass *)
      subst op args. red_ops H. inversion H; subst. split; [apply mono_refl|]. split; [exact R|].
      intros P pc A ND RB sl en st WAs NM LN. cbn. split; [unfold TgtW; rewrite Nat.add_0_r; constructor | exact NM].
    + destruct (assoc (upper op) evm_opcodes) as [[ins outs]|] eqn:Oop.
      * (* effect opcode *)
        destruct FR as (EO & LA & LO & FA). apply go_forall in FA. apply Forall_rev in FA.
        cbn [lower] in H. rewrite Oop in H.
        destruct (many_ (lower f wa None) (rev args) h s) as [[am s1]|] eqn:Em; cbn [bind] in H; [|discriminate].
        inversion H; subst. clear H.
        destruct (many_soundW _ wa (IH wa) _ _ _ _ _ Em FA R) as (M1 & R1 & S1).
        split; [exact M1|]. split; [exact R1|]. intros P pc A ND RB sl en st WAs NM LN.
        assert (EV: evW (Node op args) en st = match runvW (rev args) [] en st with
                                               | inl (vs, en', st') => opW M opsem (upper op) vs en' st' | inr o => o end).
        { rewrite (evalW_other op args K). unfold is_evm. rewrite Oop. rewrite <- map_rev. apply runW_vals. }
        rewrite EV. specialize (S1 P pc (at_app_l _ _ _ _ A) ND RB [] sl en st WAs NM LN). cbn [map app] in S1.
        destruct (runvW (rev args) [] en st) as [[[vs en1] st1]|o] eqn:RV; [|destruct o; first [exact S1 | contradiction]].
        destruct S1 as [St1 N1]. apply runvW_len in RV. rewrite rev_length in RV. cbn [List.length] in RV.
        apply at_app_r in A. pose proof (at_nth _ _ _ _ A) as NP. unfold opW.
        destruct (opsem (upper op) vs st1) as [v st2|hl] eqn:OS.
        -- split; [|exact N1].
           eapply starW_trans; [exact St1|]. eapply starW_to; [apply starW_one; eapply (W_eff P _ _ st1 _ _ outs vs v st2); eauto; lia|].
           replace (valency (Node op args)) with outs by (cbn [valency]; rewrite (evm_in_ir _ _ Oop); reflexivity). cfg_eqW.
        -- exists ((pc + List.length am)%nat, (map VZ vs ++ conc sl en1)%list, st1). split; [exact St1|].
           eapply (H_eff M opsem P _ _ st1 _ _ outs vs hl); eauto; lia.
      * destruct (String.eqb op "with") eqn:EW.
        -- (* with: the value becomes a new variable slot; POP / SWAP1 POP removes it *)
           apply String.eqb_eq in EW. subst op. destruct args as [|[?|x|? ?] [|v [|b [|? ?]]]]; try contradiction.
           destruct FR as ((Fv & Vv) & Fb & Vb). red_ops H.
           sub H v av s1 Ev; cbn [bind] in H. sub H b ab s2 Eb; cbn [bind] in H. inversion H; subst. clear H.
           destruct (IH wa _ _ _ _ _ Ev Fv R) as (M1 & R1 & S1). destruct (IH _ _ _ _ _ _ Eb Fb R1) as (M2 & R2 & S2).
           split; [eapply mono_trans; eauto|]. split; [exact R2|]. intros P pc A ND RB sl en st WAs NM LN. subst h.
           assert (EV: evW (Node "with" [Var x; v; b]) en st =
                       bindW M (evW v) (fun vv en s => popW M (evW b ((x, vv) :: en) s)) en st) by reflexivity.
           rewrite EV.
           eapply reach_bindW; [apply (S1 P pc (at_app_l _ _ _ _ A) ND (fun l0 Hl => RB l0 (M2 _ Hl)) sl en st WAs NM eq_refl)|].
           intros vv en1 st1 E1 N1. rewrite Vv. cbn [Nat.eqb]. unfold TgtW at 1.
           apply at_app_r in A.
           specialize (S2 P _ (at_app_l _ _ _ _ A) ND RB (None :: sl) ((x, vv) :: en1) st1 (WA_var x _ _ WAs)
                          ltac:(cbn [map fst]; congruence) eq_refl).
           cbn [conc] in S2. apply at_app_r in A.
           change (valency (Node "with" [Var x; v; b])) with (valency b).
           unfold ReachW in *. destruct (evW b ((x, vv) :: en1) st1) as [vb en2 st2|hl| | | |]; cbn [popW]; try exact S2.
           destruct S2 as [St2 N2]. destruct en2 as [|[y w] en2']; [discriminate|]. cbn [map fst] in N2. injection N2 as Ey N2'.
           cbn [tl]. split; [|exact N2'].
           destruct Vb as [V|V]; rewrite V in *; cbn [Nat.eqb] in *; unfold TgtW in *; cbn [conc] in *.
           ++ eapply starW_trans; [exact St2|].
              eapply starW_to; [apply starW_one; apply W_pop; eapply at_nth; exact A|]. cfg_eqW.
           ++ eapply starW_trans; [exact St2|].
              pose proof (at_nth _ _ _ _ A) as NA. apply at_cons in A.
              eapply starW_step; [apply (W_swap P _ (VZ vb) (VZ w) [] (conc sl en2') st2 1); [exact NA | lia | reflexivity]|].
              eapply starW_to; [apply starW_one; apply W_pop; eapply at_nth; exact A|]. cfg_eqW.
        -- destruct (String.eqb op "set") eqn:ES; [|contradiction].
           (* set: SWAP(h - hx) POP overwrites the slot of the visible binding *)
           apply String.eqb_eq in ES. subst op. destruct args as [|[?|x|? ?] [|v [|? ?]]]; try contradiction.
           destruct FR as (Fv & Vv). red_ops H.
           destruct (assoc x wa) as [hx|] eqn:Ax; [|discriminate].
           destruct (Nat.ltb 16 (h - hx)) eqn:D; [discriminate|]. apply Nat.ltb_ge in D.
           sub H v av s1 Ev; cbn [bind] in H. inversion H; subst. clear H.
           destruct (IH wa _ _ _ _ _ Ev Fv R) as (M1 & R1 & S1).
           split; [exact M1|]. split; [exact R1|]. intros P pc A ND RB sl en st WAs NM LN. subst h.
           assert (EV: evW (Node "set" [Var x; v]) en st =
                       bindW M (evW v) (fun vv en s => match assoc x en with Some _ => NormW 0 (upd x vv en) s | None => StuckW end) en st)
             by reflexivity.
           rewrite EV.
           eapply reach_bindW; [apply (S1 P pc (at_app_l _ _ _ _ A) ND RB sl en st WAs NM eq_refl)|].
           intros vv en1 st1 E1 N1. rewrite Vv. cbn [Nat.eqb]. unfold TgtW at 1.
           destruct (WA_read _ _ WAs en1 x hx N1 Ax) as (old0 & Ao & _). rewrite Ao.
           destruct (WA_write _ _ WAs en1 x hx vv N1 Ax) as (mid & old & rest & E2 & LM & E3 & N3).
           pose proof (WA_lt _ _ WAs _ _ Ax) as L.
           apply reach_retW; [exact N3|]. apply at_app_r in A. pose proof (at_nth _ _ _ _ A) as NA. apply at_cons in A.
           rewrite E2.
           eapply starW_step; [apply (W_swap P _ (VZ vv) (VZ old) mid rest st1 (List.length sl - hx)); [exact NA | lia | lia]|].
           eapply starW_to; [apply starW_one; apply W_pop; eapply at_nth; exact A|].
           change (valency (Node "set" [Var x; v])) with 0%nat. unfold TgtW. cbn [Nat.eqb]. rewrite E3.
           repeat (first [rewrite app_length | progress cbn [List.length]]).
           apply f_equal2; [apply f_equal2; [lia | reflexivity] | reflexivity].
Qed.
End StmtW.

(* the assumptions on the opcode meanings, bundled *)
Record StmtOkW (M : Sem) (opsem : string -> list Z -> St M -> outcome (St M) (Hl M)) : Prop := {
  sw_revert : forall st, opsem "REVERT" [0; 0] st = Halt (sem_revert M st);
  sw_invalid : forall st, opsem "INVALID" [] st = Halt (sem_invalid M st)
}.
Theorem lower_stmtW_ok M opsem : StmtOkW M opsem -> forall f wa, SpecW M opsem (lower f wa None) wa.
Proof. intros [A B]. apply lower_stmtW; assumption. Qed.
Lemma StmtOk_W M opsem : StmtOk M opsem -> StmtOkW M opsem.
Proof. intros [_ _ C D]. constructor; assumption. Qed.
