(* C15: syntax and semantics of legacy IR as the optimiser sees it.  No proofs here.
   An IR node is a literal, a non-complex leaf (with-variable, calldatasize, callvalue) or an
   operator node with arguments (exactly IRnode's value/args).  The semantics is denotational and
   compositional: the node kinds the optimiser rewrites have a fixed meaning (word arithmetic,
   seq, if, assert, iszero, ...; arguments evaluated last-to-first as compile_ir does); every other
   node kind -- memory/storage/log/call opcodes, with, set, repeat, goto, return, revert ... -- is
   interpreted by an arbitrary functional [sem_K] of the denotations of its children, so theorems hold
   for every compositional semantics of the rest of the language, every state space and every
   notion of halting. *)
From Coq Require Import ZArith Bool List String.
From Verif Require Import Base.Word256 Base.Hex.
Import ListNotations.
Open Scope Z_scope.

Inductive bop :=
| B_add | B_sub | B_mul | B_div | B_sdiv | B_mod | B_smod | B_exp
| B_eq | B_ne | B_lt | B_le | B_gt | B_ge | B_slt | B_sle | B_sgt | B_sge
| B_or | B_and | B_xor | B_shl | B_shr | B_sar.
Inductive uop := U_iszero | U_not.

Inductive expr :=
| Lit (v : Z)                          (* int literal, raw python value in [MIN_INT256, MAX_UINT256] *)
| Var (x : string)                     (* non-complex leaf *)
| Node (op : string) (args : list expr).

Definition bop_eqb (x y : bop) : bool :=
  match x, y with
  | B_add, B_add | B_sub, B_sub | B_mul, B_mul | B_div, B_div | B_sdiv, B_sdiv | B_mod, B_mod
  | B_smod, B_smod | B_exp, B_exp | B_eq, B_eq | B_ne, B_ne | B_lt, B_lt | B_le, B_le | B_gt, B_gt
  | B_ge, B_ge | B_slt, B_slt | B_sle, B_sle | B_sgt, B_sgt | B_sge, B_sge | B_or, B_or
  | B_and, B_and | B_xor, B_xor | B_shl, B_shl | B_shr, B_shr | B_sar, B_sar => true
  | _, _ => false
  end.
Fixpoint memb (o : bop) (l : list bop) : bool :=
  match l with [] => false | x :: t => bop_eqb o x || memb o t end.

Definition bop_name (o : bop) : string :=
  match o with
  | B_add => "add" | B_sub => "sub" | B_mul => "mul" | B_div => "div" | B_sdiv => "sdiv"
  | B_mod => "mod" | B_smod => "smod" | B_exp => "exp" | B_eq => "eq" | B_ne => "ne"
  | B_lt => "lt" | B_le => "le" | B_gt => "gt" | B_ge => "ge" | B_slt => "slt" | B_sle => "sle"
  | B_sgt => "sgt" | B_sge => "sge" | B_or => "or" | B_and => "and" | B_xor => "xor"
  | B_shl => "shl" | B_shr => "shr" | B_sar => "sar"
  end.
Definition uop_name (o : uop) : string := match o with U_iszero => "iszero" | U_not => "not" end.
Definition all_bops : list bop :=
  [B_add; B_sub; B_mul; B_div; B_sdiv; B_mod; B_smod; B_exp; B_eq; B_ne; B_lt; B_le; B_gt; B_ge;
   B_slt; B_sle; B_sgt; B_sge; B_or; B_and; B_xor; B_shl; B_shr; B_sar].
Definition bop_of_name (s : string) : option bop :=
  find (fun o => String.eqb (bop_name o) s) all_bops.

(* smart constructors *)
Definition Bin (o : bop) (a b : expr) : expr := Node (bop_name o) [a; b].
Definition Un (o : uop) (a : expr) : expr := Node (uop_name o) [a].
Definition Seq1 (a : expr) : expr := Node "seq" [a].
Definition Cx (k : Z) : expr := Node "sload" [Lit k].     (* some effectful node *)

(* pseudo-ops as lowered by compile_ir: ne = iszero eq, le = iszero gt, ... *)
Definition bop_sem (o : bop) (a b : Z) : Z :=
  match o with
  | B_add => w_add a b | B_sub => w_sub a b | B_mul => w_mul a b
  | B_div => w_div a b | B_sdiv => w_sdiv a b | B_mod => w_mod a b | B_smod => w_smod a b
  | B_exp => w_exp a b
  | B_eq => w_eq a b | B_ne => w_iszero (w_eq a b)
  | B_lt => w_lt a b | B_le => w_iszero (w_gt a b) | B_gt => w_gt a b | B_ge => w_iszero (w_lt a b)
  | B_slt => w_slt a b | B_sle => w_iszero (w_sgt a b) | B_sgt => w_sgt a b | B_sge => w_iszero (w_slt a b)
  | B_or => w_or a b | B_and => w_and a b | B_xor => w_xor a b
  | B_shl => w_shl a b | B_shr => w_shr a b | B_sar => w_sar a b
  end.
Definition uop_sem (o : uop) (a : Z) : Z :=
  match o with U_iszero => w_iszero a | U_not => w_not a end.
(* compile_ir: (ceil32 x) = (and (add x 31) (not 31)) *)
Definition ceil32_sem (a : Z) : Z := w_and (w_add a 31) (w_not 31).

Inductive kind :=
| KBin (o : bop) | KUn (o : uop) | KCeil32 | KSeq | KIf | KAssert | KAssertUnreachable | KPass | KOther.
Definition kind_of (s : string) : kind :=
  match bop_of_name s with
  | Some o => KBin o
  | None =>
    if String.eqb s "iszero" then KUn U_iszero else if String.eqb s "not" then KUn U_not
    else if String.eqb s "ceil32" then KCeil32 else if String.eqb s "seq" then KSeq
    else if String.eqb s "if" then KIf else if String.eqb s "assert" then KAssert
    else if String.eqb s "assert_unreachable" then KAssertUnreachable
    else if String.eqb s "pass" then KPass else KOther
  end.

(* ---- semantics ---- *)
Inductive outcome (St Hl : Type) :=
| Norm (v : Z) (s : St)       (* value (0 for statements) and next state *)
| Halt (h : Hl).              (* return / revert / stop / invalid / selfdestruct ...: final observation *)
Arguments Norm {St Hl} _ _.
Arguments Halt {St Hl} _.

Record Sem := {
  St : Type;                  (* machine state: memory, storage, logs, variables, ... *)
  Hl : Type;                  (* what is observable of a halted execution *)
  getvar : St -> string -> Z;                                   (* read a non-complex leaf *)
  sem_K : string -> list (St -> outcome St Hl) -> St -> outcome St Hl;  (* every other node kind *)
  sem_revert : St -> Hl;      (* failed assert *)
  sem_invalid : St -> Hl;     (* failed assert_unreachable *)
}.

Section Eval.
Variable M : Sem. (*section*)
Definition den := St M -> outcome (St M) (Hl M).
Definition ret (v : Z) : den := fun s => Norm v s.
Definition bindd (d : den) (k : Z -> den) : den :=
  fun s => match d s with Norm v s' => k v s' | Halt h => Halt h end.
(* (seq d1 .. dn): in order; the value is the value of the last; (seq) = 0 *)
Fixpoint seq_den (ds : list den) : den :=
  match ds with
  | [] => ret 0
  | [d] => d
  | d :: t => bindd d (fun _ => seq_den t)
  end.

Fixpoint eval (e : expr) : den :=
  match e with
  | Lit v => ret (wrap v)
  | Var x => fun s => Norm (wrap (getvar M s x)) s
  | Node op args =>
      match kind_of op, args with
      | KBin o, [a; b] =>
          bindd (eval b) (fun vb => bindd (eval a) (fun va => ret (bop_sem o va vb)))
      | KUn o, [a] => bindd (eval a) (fun va => ret (uop_sem o va))
      | KCeil32, [a] => bindd (eval a) (fun va => ret (ceil32_sem va))
      | KSeq, _ => seq_den (map eval args)
      | KIf, [c; t] => bindd (eval c) (fun vc => if vc =? 0 then ret 0 else eval t)
      | KIf, [c; t; f] => bindd (eval c) (fun vc => if vc =? 0 then eval f else eval t)
      | KAssert, [c] => bindd (eval c) (fun vc => if vc =? 0 then (fun s => Halt (sem_revert M s)) else ret 0)
      | KAssertUnreachable, [c] =>
          bindd (eval c) (fun vc => if vc =? 0 then (fun s => Halt (sem_invalid M s)) else ret 0)
      | KPass, [] => ret 0
      (* wrong arity for iszero / if / assert: rejected by the IRnode constructor; meaning immaterial *)
      | KUn U_iszero, _ | KIf, _ | KAssert, _ => sem_K M op []
      | _, _ => sem_K M op (map eval args)
      end
  end.
End Eval.

(* pointwise equality of denotations *)
Definition deq {M : Sem} (d d' : den M) : Prop := forall s, d s = d' s.

(* what is assumed of the interpretation of the other node kinds *)
Record SemOk (M : Sem) : Prop := {
  (* values are EVM words *)
  K_range : forall op ds s v s', sem_K M op ds s = Norm v s' -> 0 <= v < W;
  (* compositional: the meaning depends only on the meaning of the children *)
  K_ext : forall op ds ds', Forall2 deq ds ds' -> forall s, sem_K M op ds s = sem_K M op ds' s;
}.

(* all literals inside are IRnode-legal *)
Definition lit_ok (v : Z) : Prop := MINS <= v <= MAXU.
Definition lit_okb (v : Z) : bool := (MINS <=? v) && (v <=? MAXU).
Fixpoint wf (e : expr) : Prop :=
  match e with
  | Lit v => lit_ok v
  | Var _ => True
  | Node _ args => (fix wfl (l : list expr) : Prop := match l with [] => True | x :: t => wf x /\ wfl t end) args
  end.
Definition wfl (l : list expr) : Prop := Forall wf l.

(* IRnode.is_complex_ir: every opcode/macro node except calldatasize/callvalue/~empty (those are [Var]) *)
Definition is_complex (e : expr) : bool :=
  match e with Lit _ | Var _ => false | Node _ _ => true end.
Definition is_int (e : expr) : bool := match e with Lit _ => true | _ => false end.

(* printing (harness only) *)
Fixpoint show (e : expr) : string :=
  match e with
  | Lit v => hexZ v
  | Var x => x
  | Node op [] => ("(" ++ op ++ ")")%string
  | Node op args => ("(" ++ op ++ String.concat "" (map (fun a => " " ++ show a) args) ++ ")")%string
  end.
