(* C15: syntax and semantics of the legacy-IR expression fragment the optimiser rewrites.
   No proofs here.  Evaluation order is that of compile_ir._step_r: arguments are evaluated
   last-to-first; a complex leaf [Cx k] models any effectful / state-dependent node: it appends k
   to the effect trace and its value may depend on the whole trace so far. *)
From Coq Require Import ZArith Bool List String.
From Verif Require Import Base.Word256 Base.Hex.
Import ListNotations.
Open Scope Z_scope.

Inductive bop :=
| B_add | B_sub | B_mul | B_div | B_sdiv | B_mod | B_smod | B_exp
| B_eq | B_ne | B_lt | B_le | B_gt | B_ge | B_slt | B_sle | B_sgt | B_sge
| B_or | B_and | B_xor | B_shl | B_shr | B_sar.
Inductive uop := U_iszero | U_not.

Inductive expr :=
| Lit (v : Z)                 (* int literal, raw python value in [MIN_INT256, MAX_UINT256] *)
| Var (x : string)            (* non-complex leaf: with-variable, calldatasize, callvalue *)
| Cx (k : Z)                  (* opaque complex (effectful / state-reading) node *)
| Un (o : uop) (a : expr)
| Bin (o : bop) (a b : expr)
| Seq1 (a : expr)             (* (seq a) *)
| If3 (c t f : expr).         (* (if c t f) with valued branches *)

Definition bop_eqb (x y : bop) : bool :=
  match x, y with
  | B_add, B_add | B_sub, B_sub | B_mul, B_mul | B_div, B_div | B_sdiv, B_sdiv | B_mod, B_mod
  | B_smod, B_smod | B_exp, B_exp | B_eq, B_eq | B_ne, B_ne | B_lt, B_lt | B_le, B_le | B_gt, B_gt
  | B_ge, B_ge | B_slt, B_slt | B_sle, B_sle | B_sgt, B_sgt | B_sge, B_sge | B_or, B_or
  | B_and, B_and | B_xor, B_xor | B_shl, B_shl | B_shr, B_shr | B_sar, B_sar => true
  | _, _ => false
  end.
Fixpoint memb (o : bop) (l : list bop) : bool :=
  match l with [] => false | x :: t => bop_eqb o x || memb o t end.

(* pseudo-ops as lowered by compile_ir: ne = iszero eq, le = iszero gt, ... *)
Definition bop_sem (o : bop) (a b : Z) : Z :=
  match o with
  | B_add => w_add a b | B_sub => w_sub a b | B_mul => w_mul a b
  | B_div => w_div a b | B_sdiv => w_sdiv a b | B_mod => w_mod a b | B_smod => w_smod a b
  | B_exp => w_exp a b
  | B_eq => w_eq a b | B_ne => w_iszero (w_eq a b)
  | B_lt => w_lt a b | B_le => w_iszero (w_gt a b) | B_gt => w_gt a b | B_ge => w_iszero (w_lt a b)
  | B_slt => w_slt a b | B_sle => w_iszero (w_sgt a b) | B_sgt => w_sgt a b | B_sge => w_iszero (w_slt a b)
  | B_or => w_or a b | B_and => w_and a b | B_xor => w_xor a b
  | B_shl => w_shl a b | B_shr => w_shr a b | B_sar => w_sar a b
  end.
Definition uop_sem (o : uop) (a : Z) : Z :=
  match o with U_iszero => w_iszero a | U_not => w_not a end.

Definition env := string -> Z.
Definition oracle := Z -> list Z -> Z.

Fixpoint eval (en : env) (orc : oracle) (e : expr) (tr : list Z) : Z * list Z :=
  match e with
  | Lit v => (wrap v, tr)
  | Var x => (wrap (en x), tr)
  | Cx k => (wrap (orc k tr), k :: tr)
  | Un o a => let '(va, t1) := eval en orc a tr in (uop_sem o va, t1)
  | Bin o a b =>
      let '(vb, t1) := eval en orc b tr in
      let '(va, t2) := eval en orc a t1 in
      (bop_sem o va vb, t2)
  | Seq1 a => eval en orc a tr
  | If3 c t f =>
      let '(vc, t1) := eval en orc c tr in
      if vc =? 0 then eval en orc f t1 else eval en orc t t1
  end.

(* all literals inside are IRnode-legal *)
Definition lit_ok (v : Z) : Prop := MINS <= v <= MAXU.
Definition lit_okb (v : Z) : bool := (MINS <=? v) && (v <=? MAXU).
Fixpoint wf (e : expr) : Prop :=
  match e with
  | Lit v => lit_ok v
  | Var _ | Cx _ => True
  | Un _ a | Seq1 a => wf a
  | Bin _ a b => wf a /\ wf b
  | If3 c t f => wf c /\ wf t /\ wf f
  end.

(* IRnode.is_complex_ir: every opcode/macro node except calldatasize/callvalue *)
Definition is_complex (e : expr) : bool :=
  match e with Lit _ | Var _ => false | _ => true end.
Definition is_int (e : expr) : bool := match e with Lit _ => true | _ => false end.

(* printing (harness only) *)
Definition bop_name (o : bop) : string :=
  match o with
  | B_add => "add" | B_sub => "sub" | B_mul => "mul" | B_div => "div" | B_sdiv => "sdiv"
  | B_mod => "mod" | B_smod => "smod" | B_exp => "exp" | B_eq => "eq" | B_ne => "ne"
  | B_lt => "lt" | B_le => "le" | B_gt => "gt" | B_ge => "ge" | B_slt => "slt" | B_sle => "sle"
  | B_sgt => "sgt" | B_sge => "sge" | B_or => "or" | B_and => "and" | B_xor => "xor"
  | B_shl => "shl" | B_shr => "shr" | B_sar => "sar"
  end.
Definition uop_name (o : uop) : string := match o with U_iszero => "iszero" | U_not => "not" end.
Fixpoint show (e : expr) : string :=
  match e with
  | Lit v => hexZ v
  | Var x => x
  | Cx k => "c" ++ hexZ k
  | Un o a => "(" ++ uop_name o ++ " " ++ show a ++ ")"
  | Bin o a b => "(" ++ bop_name o ++ " " ++ show a ++ " " ++ show b ++ ")"
  | Seq1 a => "(seq " ++ show a ++ ")"
  | If3 c t f => "(if " ++ show c ++ " " ++ show t ++ " " ++ show f ++ ")"
  end.
