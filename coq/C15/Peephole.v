(* C15 part 3: model of evm/assembler/optimizer.py:_stack_peephole_opts and _merge_iszero over an
   assembly list, and a small stack-machine semantics.  No proofs here. *)
From Coq Require Import ZArith Bool List String.
From Verif Require Import Base.Word256 Base.PyInt Base.Hex.
Import ListNotations.
Open Scope Z_scope.
Open Scope string_scope.

Inductive item :=
| Op (s : string)        (* opcode mnemonic *)
| Imm (n : Z)            (* push immediate *)
| Lbl (l : string)       (* Label *)
| PushLbl (l : string)   (* PUSHLABEL *)
| PushOfst (l : string) (n : Z)   (* PUSH_OFST(Label, ofst) *)
| DataHdr (l : string)   (* DataHeader *)
| DataLbl (l : string)   (* DATA_ITEM(Label) *)
| Opaque (s : string).   (* anything else: DATA_ITEM(bytes), CONST, PUSH_OFST(CONSTREF, ..) *)

Definition item_eqb (a b : item) : bool :=
  match a, b with
  | Op x, Op y => String.eqb x y
  | Imm x, Imm y => Z.eqb x y
  | Lbl x, Lbl y => String.eqb x y
  | PushLbl x, PushLbl y => String.eqb x y
  | PushOfst x n, PushOfst y m => String.eqb x y && Z.eqb n m
  | DataHdr x, DataHdr y => String.eqb x y
  | DataLbl x, DataLbl y => String.eqb x y
  | Opaque x, Opaque y => String.eqb x y
  | _, _ => false
  end.
Definition is_op (a : item) (s : string) : bool := item_eqb a (Op s).

Definition swaps : list string :=
  ["SWAP1"; "SWAP2"; "SWAP3"; "SWAP4"; "SWAP5"; "SWAP6"; "SWAP7"; "SWAP8";
   "SWAP9"; "SWAP10"; "SWAP11"; "SWAP12"; "SWAP13"; "SWAP14"; "SWAP15"; "SWAP16"].
Definition dups : list string :=
  ["DUP1"; "DUP2"; "DUP3"; "DUP4"; "DUP5"; "DUP6"; "DUP7"; "DUP8";
   "DUP9"; "DUP10"; "DUP11"; "DUP12"; "DUP13"; "DUP14"; "DUP15"; "DUP16"].
Fixpoint index_of (s : string) (l : list string) (k : nat) : option nat :=
  match l with
  | [] => None
  | x :: t => if String.eqb s x then Some k else index_of s t (S k)
  end.
(* assembly[i].startswith("SWAP") *)
Definition starts_swap (a : item) : bool :=
  match a with Op s => String.prefix "SWAP" s | _ => false end.
(* str(item).lower() in COMMUTATIVE_OPS (the pseudo-op "ne" is not an opcode and is left out) *)
Definition comm_ops : list string := ["ADD"; "MUL"; "EQ"; "AND"; "OR"; "XOR"].
Definition is_comm (a : item) : bool :=
  match a with Op s => existsb (String.eqb s) comm_ops | _ => false end.

(* ---- _stack_peephole_opts: zipper (reversed prefix = assembly[:i], suffix = assembly[i:]) ---- *)
Fixpoint sp_loop (fuel : nat) (pre suf : list item) : res (list item) :=
  match fuel with
  | O => Err OutOfFuel
  | S f =>
    match suf with
    | a :: b :: c :: rest =>
      if is_op a "DUP1" && is_op b "SWAP2" && is_op c "SWAP1" then
        sp_loop f pre (Op "SWAP1" :: Op "DUP2" :: rest)
      else if is_op a "DUP1" && is_op b "SWAP1" && is_op c "POP" then sp_loop f pre rest
      else if is_op a "SWAP1" && is_op b "POP" && is_op c "POP" then sp_loop f pre (b :: c :: rest)
      else
        let s1 := if starts_swap a && item_eqb a b then c :: rest else suf in
        s2 <- match s1 with
              | a1 :: tl =>
                  if is_op a1 "SWAP1" then
                    match tl with b1 :: _ => Ok (if is_comm b1 then tl else s1) | [] => Err BadIndex end
                  else Ok s1
              | [] => Err BadIndex
              end ;;
        s3 <- match s2 with
              | a2 :: tl =>
                  if is_op a2 "DUP1" then
                    match tl with b2 :: tl2 => Ok (if is_op b2 "SWAP1" then a2 :: tl2 else s2) | [] => Err BadIndex end
                  else Ok s2
              | [] => Err BadIndex
              end ;;
        match s3 with
        | h :: t => sp_loop f (h :: pre) t
        | [] => Ok (rev pre)
        end
    | _ => Ok (rev pre ++ suf)%list
    end
  end.
Definition stack_peephole (l : list item) : res (list item) :=
  sp_loop (3 * List.length l + 3) [] l.

(* ---- _merge_iszero ---- *)
Definition ret01 : list string :=
  ["LT"; "GT"; "SLT"; "SGT"; "EQ"; "ISZERO"; "CALL"; "STATICCALL"; "CALLCODE"; "DELEGATECALL"].
Definition is_ret01 (a : item) : bool :=
  match a with Op s => existsb (String.eqb s) ret01 | _ => false end.
Definition is_pushlabel (a : item) : bool := match a with PushLbl _ => true | _ => false end.
Fixpoint mi_loop1 (fuel : nat) (pre suf : list item) : res (list item) :=
  match fuel with
  | O => Err OutOfFuel
  | S f =>
    match suf with
    | a :: b :: c :: rest =>
      if is_ret01 a && is_op b "ISZERO" && is_op c "ISZERO" then mi_loop1 f pre (a :: rest)
      else mi_loop1 f (a :: pre) (b :: c :: rest)
    | _ => Ok (rev pre ++ suf)%list
    end
  end.
Fixpoint mi_loop2 (fuel : nat) (pre suf : list item) : res (list item) :=
  match fuel with
  | O => Err OutOfFuel
  | S f =>
    match suf with
    | a :: b :: c :: d :: rest =>
      if is_op a "ISZERO" && is_op b "ISZERO" && is_pushlabel c && is_op d "JUMPI" then
        mi_loop2 f pre (c :: d :: rest)
      else mi_loop2 f (a :: pre) (b :: c :: d :: rest)
    | _ => Ok (rev pre ++ suf)%list
    end
  end.
Definition merge_iszero (l : list item) : res (list item) :=
  l1 <- mi_loop1 (2 * List.length l + 2) [] l ;;
  mi_loop2 (2 * List.length l1 + 2) [] l1.

(* ---- stack machine: known stack ops, word ops; every other item is an arbitrary partial
        stack transformer (a parameter of the semantics) ---- *)
Definition stack := list Z.
Definition swap_at (k : nat) (s : stack) : option stack :=   (* SWAP(k+1) *)
  match s with
  | x :: t => match skipn k t with y :: r => Some (y :: firstn k t ++ x :: r)%list | [] => None end
  | [] => None
  end.
Definition dup_at (k : nat) (s : stack) : option stack :=    (* DUP(k+1) *)
  match nth_error s k with Some v => Some (v :: s) | None => None end.
Definition bin (f : Z -> Z -> Z) (s : stack) : option stack :=
  match s with a :: b :: t => Some (f a b :: t) | _ => None end.

Definition exec1 (other : item -> stack -> option stack) (it : item) (s : stack) : option stack :=
  match it with
  | Op o =>
      match index_of o swaps 0 with
      | Some k => swap_at k s
      | None =>
      match index_of o dups 0 with
      | Some k => dup_at k s
      | None =>
        if String.eqb o "POP" then match s with _ :: t => Some t | [] => None end
        else if String.eqb o "ISZERO" then match s with a :: t => Some (w_iszero a :: t) | [] => None end
        else if String.eqb o "ADD" then bin w_add s
        else if String.eqb o "MUL" then bin w_mul s
        else if String.eqb o "EQ" then bin w_eq s
        else if String.eqb o "AND" then bin w_and s
        else if String.eqb o "OR" then bin w_or s
        else if String.eqb o "XOR" then bin w_xor s
        else if String.eqb o "LT" then bin w_lt s
        else if String.eqb o "GT" then bin w_gt s
        else if String.eqb o "SLT" then bin w_slt s
        else if String.eqb o "SGT" then bin w_sgt s
        else other it s
      end end
  | _ => other it s
  end.
Fixpoint exec (other : item -> stack -> option stack) (l : list item) (s : stack) : option stack :=
  match l with
  | [] => Some s
  | it :: t => match exec1 other it s with Some s' => exec other t s' | None => None end
  end.

(* printing for the harness *)
Definition show_item (a : item) : string :=
  match a with
  | Op s => s
  | Imm n => "#" ++ Verif.Base.Hex.hexZ n
  | Lbl l => "L:" ++ l
  | PushLbl l => "P:" ++ l
  | PushOfst l n => "O:" ++ l ++ ":" ++ Verif.Base.Hex.hexZ n
  | DataHdr l => "D:" ++ l
  | DataLbl l => "DL:" ++ l
  | Opaque s => "<" ++ s ++ ">"
  end.
Definition show_asm (r : res (list item)) : string :=
  match r with
  | Ok l => String.concat " " (map show_item l)
  | Err _ => "E"
  end.
