(* C15 round 2 (b): the seq-level merges of the legacy optimiser (_merge_memzero, _merge_load for
   calldataload / dload / mload, _rewrite_mstore_dload, _remove_empty_seqs; model: OptTree.v) preserve
   the meaning of the seq, for every state space that contains an EVM-like byte memory accessed by
   mstore / mload / calldataload / calldatacopy / dload / dloadbytes / mcopy in the usual way ([MemOk]). *)
From Coq Require Import ZArith Bool List String Lia PeanoNat.
From Verif Require Import Base.Word256 Base.PyInt C15.Syntax C15.WordFacts C15.GenUtils C15.Optimizer
  C15.OptSound C15.OptTree C15.OptTreeSound C15.Bytes.
Import ListNotations.
Open Scope Z_scope.

Definition zn (z : Z) : nat := Z.to_nat z.

(* what is assumed of a state space with a memory: a lens onto the byte array, read-only calldata and data
   section, word <-> 32 bytes conversion, and the meaning of the seven memory nodes *)
Record MemOk (M : Sem) := {
  mget : St M -> list Z;
  mput : St M -> list Z -> St M;
  cdat : St M -> list Z;                 (* calldata bytes *)
  ddat : list Z;                         (* data section bytes: immutable code *)
  b_of : Z -> list Z;                    (* word -> 32 bytes *)
  w_of : list Z -> Z;                    (* 32 bytes -> word *)
  (* memory, calldata and the data section hold bytes; the memory can be replaced by any byte array *)
  mem_bytes : forall s, bytes (mget s);
  cd_bytes : forall s, bytes (cdat s);
  dd_bytes : bytes ddat;
  mget_put : forall s m, bytes m -> mget (mput s m) = m;
  mput_put : forall s m m', mput (mput s m) m' = mput s m';
  cdat_put : forall s m, cdat (mput s m) = cdat s;
  getvar_put : forall s m x, getvar M (mput s m) x = getvar M s x;
  b_of_len : forall v, List.length (b_of v) = 32%nat;
  b_of_bytes : forall v, bytes (b_of v);
  b_of_0 : b_of 0 = repeat 0 32;
  (* a word made of 32 bytes stores back the same bytes *)
  bw : forall bs, List.length bs = 32%nat -> bytes bs -> b_of (wrap (w_of bs)) = bs;
  (* calldatasize is the length of the calldata *)
  cds_len : forall s, (List.length (cdat s) <= zn (wrap (getvar M s "calldatasize")))%nat;
  (* the nodes; arguments are evaluated last-to-first *)
  K_mstore : forall da dv s, sem_K M "mstore" [da; dv] s =
    bindd M dv (fun v => bindd M da (fun a s1 => Norm 0 (mput s1 (upd (mget s1) (zn a) (b_of v))))) s;
  K_mload : forall da s, sem_K M "mload" [da] s =
    bindd M da (fun a s1 => Norm (wrap (w_of (rd (mget s1) (zn a) 32))) (mput s1 (touch (mget s1) (zn a) 32))) s;
  K_calldataload : forall da s, sem_K M "calldataload" [da] s =
    bindd M da (fun a s1 => Norm (wrap (w_of (rd (cdat s1) (zn a) 32))) s1) s;
  K_dload : forall da s, sem_K M "dload" [da] s =
    bindd M da (fun a s1 => Norm (wrap (w_of (rd ddat (zn a) 32))) s1) s;
  K_calldatacopy : forall dd dsrc dn s, sem_K M "calldatacopy" [dd; dsrc; dn] s =
    bindd M dn (fun n => bindd M dsrc (fun src => bindd M dd (fun d s1 =>
      Norm 0 (mput s1 (upd (mget s1) (zn d) (rd (cdat s1) (zn src) (zn n))))))) s;
  K_dloadbytes : forall dd dsrc dn s, sem_K M "dloadbytes" [dd; dsrc; dn] s =
    bindd M dn (fun n => bindd M dsrc (fun src => bindd M dd (fun d s1 =>
      Norm 0 (mput s1 (upd (mget s1) (zn d) (rd ddat (zn src) (zn n))))))) s;
  K_mcopy : forall dd dsrc dn s, sem_K M "mcopy" [dd; dsrc; dn] s =
    bindd M dn (fun n => bindd M dsrc (fun src => bindd M dd (fun d s1 =>
      Norm 0 (mput s1 (mcopy_mem (mget s1) (zn d) (zn src) (zn n)))))) s;
}.

Section MS.
Variable SM : Sem. (*section*)
Hypothesis OK : SemOk SM. (*section*)
Variable MO : MemOk SM. (*section*)
Notation ev := (eval SM).
Notation eqval := (equiv_val SM).
Notation MGET := (mget SM MO).
Notation MPUT := (mput SM MO).

Lemma bw_mem st a : b_of SM MO (wrap (w_of SM MO (rd (MGET st) a 32))) = rd (MGET st) a 32.
Proof. apply (bw SM MO); [apply rd_length | apply bytes_rd, (mem_bytes SM MO)]. Qed.
Lemma bw_cd st a : b_of SM MO (wrap (w_of SM MO (rd (cdat SM MO st) a 32))) = rd (cdat SM MO st) a 32.
Proof. apply (bw SM MO); [apply rd_length | apply bytes_rd, (cd_bytes SM MO)]. Qed.
Lemma bw_dd a : b_of SM MO (wrap (w_of SM MO (rd (ddat SM MO) a 32))) = rd (ddat SM MO) a 32.
Proof. apply (bw SM MO); [apply rd_length | apply bytes_rd, (dd_bytes SM MO)]. Qed.

(* ---- blocks: a seq runs its elements in order; its value is the value of the last one ---- *)
Fixpoint blk (ds : list (den SM)) (v0 : Z) : den SM :=
  match ds with
  | [] => ret SM v0
  | d :: t => bindd SM d (fun v => blk t v)
  end.
Lemma seq_den_blk ds s : seq_den SM ds s = blk ds 0 s.
Proof.
  revert s. induction ds as [|d t IH]; intros s; [reflexivity|].
  destruct t as [|d2 t2].
  - cbn. unfold bindd, ret. destruct (d s); reflexivity.
  - change (seq_den SM (d :: d2 :: t2) s) with (bindd SM d (fun _ => seq_den SM (d2 :: t2)) s).
    cbn [blk]. unfold bindd. destruct (d s) as [v s1|]; [|reflexivity].
    rewrite IH. cbn [blk]. reflexivity.
Qed.
Lemma blk_app a b v0 s : blk (a ++ b) v0 s = bindd SM (blk a v0) (fun v => blk b v) s.
Proof.
  revert v0 s. induction a as [|d t IH]; intros v0 s; cbn [app blk]; [reflexivity|].
  unfold bindd. destruct (d s) as [v s1|]; [|reflexivity]. rewrite IH. unfold bindd. reflexivity.
Qed.
(* replacing a window by one with the same block meaning *)
Lemma blk_window p w w' t :
  (forall v0 s, blk w v0 s = blk w' v0 s) ->
  forall v0 s, blk (p ++ w ++ t) v0 s = blk (p ++ w' ++ t) v0 s.
Proof.
  intros H v0 s. rewrite !blk_app. unfold bindd. destruct (blk p v0 s) as [v s1|]; [|reflexivity].
  rewrite !blk_app. unfold bindd. rewrite H. reflexivity.
Qed.
Lemma eval_seq_blk l s : ev (Node "seq" l) s = blk (map ev l) 0 s.
Proof. change (ev (Node "seq" l) s) with (seq_den SM (map ev l) s). apply seq_den_blk. Qed.

Lemma seq_equiv_blk l l' :
  (forall v0 s, blk (map ev l) v0 s = blk (map ev l') v0 s) -> eqval (Node "seq" l) (Node "seq" l').
Proof. intros H s. rewrite !eval_seq_blk. apply H. Qed.

(* ---- list surgery ---- *)
Lemma skipn_add (l : list expr) a b : skipn b (skipn a l) = skipn (a + b) l.
Proof. revert l. induction a as [|a IH]; intros l; [reflexivity|]. destruct l; [destruct b; reflexivity|]. cbn. apply IH. Qed.
Lemma nth_error_skipn' (l : list expr) a n : nth_error (skipn a l) n = nth_error l (a + n).
Proof. revert l. induction a as [|a IH]; intros l; [reflexivity|]. destruct l; [destruct n; reflexivity|]. cbn. apply IH. Qed.
Lemma list_split3 (l : list expr) idx n :
  l = (firstn idx l ++ firstn n (skipn idx l) ++ skipn (idx + n) l)%list.
Proof.
  rewrite <- (firstn_skipn idx l) at 1. f_equal.
  rewrite <- (firstn_skipn n (skipn idx l)) at 1. f_equal. apply skipn_add.
Qed.
Lemma firstn_snoc (l : list expr) idx n e :
  nth_error l (idx + n) = Some e ->
  firstn (S n) (skipn idx l) = (firstn n (skipn idx l) ++ [e])%list.
Proof.
  intros H. assert (H2: nth_error (skipn idx l) n = Some e).
  { rewrite nth_error_skipn'. exact H. }
  clear H. revert H2. generalize (skipn idx l) as k. induction n as [|n IH]; intros k H.
  - destruct k; cbn in *; [discriminate|]. inversion H. reflexivity.
  - destruct k; cbn in H; [discriminate|]. cbn [firstn app]. f_equal. apply IH. exact H.
Qed.
Lemma in_firstn (l : list expr) n x : In x (firstn n l) -> In x l.
Proof. revert l. induction n as [|n IH]; intros [|a l] H; cbn in *; try contradiction. destruct H; auto. Qed.
Lemma in_skipn (l : list expr) n x : In x (skipn n l) -> In x l.
Proof. revert l. induction n as [|n IH]; intros [|a l] H; cbn in *; try contradiction; auto. Qed.
Lemma splice_eq (l : list expr) idx n new :
  splice l idx n new = (firstn idx l ++ [new] ++ skipn (idx + n) l)%list.
Proof. reflexivity. Qed.

(* ================= the generic merge loop ================= *)
Section Generic.
Variable sp : mspec. (*section*)
(* the new memory produced by a node / merged node described by (dst, src, len) *)
Variable eff : Z -> Z -> Z -> St SM -> list Z. (*section*)
Definition node_den (d s n : Z) : den SM := fun st => Norm 0 (MPUT st (eff d s n st)).
(* run well-formedness: what the loop has checked when it holds a run *)
Definition guard_ok (r : mrun) : Prop :=
  ms_allow_overlap sp = false -> ~ (r_src r < r_dst r < r_src r + r_total r).
Inductive GR : list expr -> mrun -> Prop :=
| GR_first e d s n i :
    ms_cls sp e = Some (d, s, n) -> 0 <= d -> 0 <= s -> 0 <= n ->
    guard_ok {| r_n := 1; r_dst := d; r_src := s; r_total := n; r_idx := i |} ->
    GR [e] {| r_n := 1; r_dst := d; r_src := s; r_total := n; r_idx := i |}
| GR_snoc w r e d s n :
    GR w r -> ms_cls sp e = Some (d, s, n) -> 0 <= d -> 0 <= s -> 0 <= n ->
    r_dst r + r_total r = d -> (ms_src sp = true -> r_src r + r_total r = s) ->
    guard_ok {| r_n := S (r_n r); r_dst := r_dst r; r_src := r_src r; r_total := r_total r + n; r_idx := r_idx r |} ->
    GR (w ++ [e]) {| r_n := S (r_n r); r_dst := r_dst r; r_src := r_src r; r_total := r_total r + n; r_idx := r_idx r |}.

Hypothesis node_eff : forall e d s n, (*section*)
  wf e -> ms_cls sp e = Some (d, s, n) -> 0 <= d -> 0 <= s -> 0 <= n ->
  forall st, ev e st = node_den d s n st.
Hypothesis mk_eff : forall d s t, (*section*)
  0 <= d -> 0 <= s -> 0 <= t -> lit_ok d -> lit_ok s -> lit_ok t ->
  (forall st, ev (ms_mk sp d s t) st = node_den d s t st) /\ wf (ms_mk sp d s t) /\
  node_safe sp (ms_mk sp d s t) = true.
(* the offsets a classified node carries are legal literals *)
Hypothesis cls_lit : forall e d s n, wf e -> ms_cls sp e = Some (d, s, n) -> lit_ok d /\ lit_ok s. (*section*)
(* two adjacent effects are one *)
Hypothesis eff_compose : forall d s t s2 n st, (*section*)
  0 <= d -> 0 <= s -> 0 <= t -> 0 <= n -> (ms_src sp = true -> s2 = s + t) ->
  guard_ok {| r_n := 2; r_dst := d; r_src := s; r_total := t + n; r_idx := 0 |} ->
  MPUT (MPUT st (eff d s t st)) (eff (d + t) s2 n (MPUT st (eff d s t st))) = MPUT st (eff d s (t + n) st).

(* the overlap guard compares with src + 32: it is only used where every node moves one word *)
Hypothesis noov_32 : ms_allow_overlap sp = false -> (*section*)
  ms_src sp = true /\ forall e d s n, ms_cls sp e = Some (d, s, n) -> n = 32.

Lemma blk_single (d : den SM) v0 st : blk [d] v0 st = d st.
Proof. cbn. unfold bindd, ret. destruct (d st); reflexivity. Qed.

Lemma GR_facts w r : GR w r -> Forall wf w ->
  List.length w = r_n r /\ (1 <= r_n r)%nat /\ 0 <= r_dst r /\ 0 <= r_src r /\ 0 <= r_total r /\
  lit_ok (r_dst r) /\ lit_ok (r_src r) /\ guard_ok r.
Proof.
  induction 1 as [e d s n i C Hd Hs Hn G | w r e d s n H IH C Hd Hs Hn E1 E2 G]; intros W.
  - inversion W as [|? ? We _]; subst. destruct (cls_lit e d s n We C) as [L1 L2]. cbn.
    refine (conj _ (conj _ (conj _ (conj _ (conj _ (conj _ (conj _ _))))))); auto; lia.
  - apply Forall_app in W. destruct W as [Ww _]. destruct (IH Ww) as (A & B & C1 & C2 & C3 & C4 & C5 & C6).
    cbn. rewrite app_length. cbn.
    refine (conj _ (conj _ (conj _ (conj _ (conj _ (conj _ (conj _ _))))))); auto; lia.
Qed.

Lemma GR_blk w r : GR w r -> Forall wf w ->
  forall v0 st, blk (map ev w) v0 st = node_den (r_dst r) (r_src r) (r_total r) st.
Proof.
  induction 1 as [e d s n i C Hd Hs Hn G | w r e d s n H IH C Hd Hs Hn E1 E2 G]; intros W v0 st.
  - inversion W as [|? ? We _]; subst. cbn [map]. rewrite blk_single. cbn. apply node_eff; auto.
  - pose proof W as W0. apply Forall_app in W. destruct W as [Ww We]. inversion We as [|? ? We1 _]; subst.
    destruct (GR_facts w r H Ww) as (_ & _ & C1 & C2 & C3 & _ & _ & _).
    rewrite map_app, blk_app. unfold bindd. rewrite (IH Ww). unfold node_den at 1. cbn [map]. rewrite blk_single.
    rewrite (node_eff e (r_dst r + r_total r) s n We1 C ltac:(lia) Hs Hn). unfold node_den. cbn [r_dst r_src r_total].
    f_equal. apply eff_compose; auto. intros Q. symmetry. apply E2. exact Q.
Qed.

(* state of the loop: either no run, or the run is the window l[idx .. idx+n) *)
Definition Inv (l : list expr) (r : mrun) : Prop :=
  (r_n r = 0%nat /\ r_total r = 0) \/ GR (firstn (r_n r) (skipn (r_idx r) l)) r.

Definition concl (l l' : list expr) : Prop :=
  (forall v0 st, blk (map ev l) v0 st = blk (map ev l') v0 st) /\ Forall wf l'.

Lemma safe_nonneg e d s n : node_safe sp e = true -> ms_cls sp e = Some (d, s, n) -> 0 <= d /\ 0 <= s /\ 0 <= n.
Proof.
  unfold node_safe. intros H C. rewrite C in H. apply andb_true_iff in H. destruct H as [H H3].
  apply andb_true_iff in H. destruct H as [H1 H2]. apply Z.leb_le in H1, H2, H3. auto.
Qed.

Lemma finish_sound f l i r1 c c' l' :
  (forall l0 i0 r0 c0 c1 l1, Forall wf l0 -> forallb (node_safe sp) l0 = true -> Inv l0 r0 ->
     (r_n r0 = 0%nat \/ r_idx r0 + r_n r0 = i0)%nat ->
     g_loop sp f l0 i0 r0 c0 = Ok (c1, l1) -> concl l0 l1) ->
  Forall wf l -> forallb (node_safe sp) l = true ->
  ((r_n r1 <= 1)%nat \/ GR (firstn (r_n r1) (skipn (r_idx r1) l)) r1) ->
  (if Nat.ltb 1 (r_n r1) then
     if lit_okb (r_total r1) then
       g_loop sp f (splice l (r_idx r1) (r_n r1) (ms_mk sp (r_dst r1) (r_src r1) (r_total r1))) (S i) run0 true
     else Err AssertFail
   else g_loop sp f l (S i) run0 c) = Ok (c', l') ->
  concl l l'.
Proof.
  intros IH W Sf V H.
  assert (I0: forall l0, Inv l0 run0) by (intros; left; cbn; auto).
  destruct (Nat.ltb 1 (r_n r1)) eqn:E.
  - apply Nat.ltb_lt in E. destruct V as [V|V]; [lia|].
    destruct (lit_okb (r_total r1)) eqn:LO; [|discriminate]. apply lit_okb_ok in LO.
    set (w := firstn (r_n r1) (skipn (r_idx r1) l)) in *.
    assert (Ww: Forall wf w).
    { unfold w. apply Forall_forall. intros x Hx. apply (proj1 (Forall_forall _ _) W).
      apply in_firstn in Hx. eapply in_skipn; eauto. }
    destruct (GR_facts w r1 V Ww) as (_ & _ & C1 & C2 & C3 & C4 & C5 & _).
    destruct (mk_eff (r_dst r1) (r_src r1) (r_total r1) C1 C2 C3 C4 C5 LO) as (ME & MW & MS).
    set (new := ms_mk sp (r_dst r1) (r_src r1) (r_total r1)) in *.
    set (l2 := splice l (r_idx r1) (r_n r1) new) in *.
    assert (B: forall v0 st, blk (map ev l) v0 st = blk (map ev l2) v0 st).
    { intros v0 st. rewrite (list_split3 l (r_idx r1) (r_n r1)) at 1. unfold l2. rewrite splice_eq.
      rewrite !map_app. apply blk_window. intros v1 st1. fold w. rewrite (GR_blk w r1 V Ww). cbn [map].
      rewrite blk_single, ME. reflexivity. }
    assert (W2: Forall wf l2).
    { unfold l2. rewrite splice_eq. apply Forall_app. split.
      - apply Forall_forall. intros x Hx. apply (proj1 (Forall_forall _ _) W). eapply in_firstn; eauto.
      - constructor; [exact MW|]. apply Forall_forall. intros x Hx. apply (proj1 (Forall_forall _ _) W). eapply in_skipn; eauto. }
    assert (S2: forallb (node_safe sp) l2 = true).
    { unfold l2. rewrite splice_eq. rewrite forallb_app. apply andb_true_iff. split.
      - apply forallb_forall. intros x Hx. apply (proj1 (forallb_forall _ _) Sf). eapply in_firstn; eauto.
      - cbn [app forallb]. rewrite MS. cbn. apply forallb_forall. intros x Hx.
        apply (proj1 (forallb_forall _ _) Sf). eapply in_skipn; eauto. }
    destruct (IH l2 (S i) run0 true c' l' W2 S2 (I0 l2) ltac:(left; reflexivity) H) as [B2 W3].
    split; [|exact W3]. intros v0 st. rewrite B. apply B2.
  - exact (IH l (S i) run0 c c' l' W Sf (I0 l) ltac:(left; reflexivity) H).
Qed.

Lemma Inv_V l r : Inv l r -> (r_n r <= 1)%nat \/ GR (firstn (r_n r) (skipn (r_idx r) l)) r.
Proof. intros [[H _]|H]; [left; lia | right; exact H]. Qed.

Lemma g_loop_sound f : forall l i r c c' l',
  Forall wf l -> forallb (node_safe sp) l = true -> Inv l r ->
  (r_n r = 0%nat \/ r_idx r + r_n r = i)%nat ->
  g_loop sp f l i r c = Ok (c', l') -> concl l l'.
Proof.
  induction f as [|f IH]; intros l i r c c' l' W Sf I IX H; [discriminate|].
  cbn [g_loop] in H.
  destruct (nth_error l i) as [node|] eqn:EN.
  2:{ inversion H; subst. split; [reflexivity | exact W]. }
  assert (Wn: wf node) by (apply (proj1 (Forall_forall _ _) W); eapply nth_error_In; eauto).
  assert (Sn: node_safe sp node = true) by (apply (proj1 (forallb_forall _ _) Sf); eapply nth_error_In; eauto).
  destruct (ms_cls sp node) as [[[d s] n]|] eqn:C.
  2:{ eapply finish_sound; eauto. apply Inv_V; exact I. }
  destruct (safe_nonneg node d s n Sn C) as (Hd & Hs & Hn).
  set (r' := if Nat.eqb (r_n r) 0 then {| r_n := 0; r_dst := d; r_src := s; r_total := r_total r; r_idx := i |} else r) in *.
  destruct ((r_dst r' + r_total r' =? d) && (negb (ms_src sp) || (r_src r' + r_total r' =? s)) &&
            (ms_allow_overlap sp || negb ((r_src r' <? r_dst r') && (r_dst r' <? s + 32)))) eqn:ACC.
  - (* the node joins the run *)
    apply andb_true_iff in ACC. destruct ACC as [ACC A3]. apply andb_true_iff in ACC. destruct ACC as [A1 A2].
    apply Z.eqb_eq in A1.
    assert (A2': ms_src sp = true -> r_src r' + r_total r' = s).
    { intros Q. rewrite Q in A2. cbn in A2. apply Z.eqb_eq in A2. exact A2. }
    set (r1 := {| r_n := S (r_n r'); r_dst := r_dst r'; r_src := r_src r'; r_total := r_total r' + n; r_idx := r_idx r' |}) in *.
    assert (GD: guard_ok r1).
    { intros NA. rewrite NA in A3. cbn in A3. apply negb_true_iff in A3.
      destruct (noov_32 NA) as [SR N32]. specialize (N32 node d s n C). subst n. specialize (A2' SR).
      unfold r1; cbn [r_src r_dst r_total]. intros [P1 P2].
      assert (r_src r' <? r_dst r' = true) by (apply Z.ltb_lt; exact P1).
      assert (r_dst r' <? s + 32 = true) by (apply Z.ltb_lt; lia).
      rewrite H0, H1 in A3. discriminate. }
    assert (V1: GR (firstn (r_n r1) (skipn (r_idx r1) l)) r1 /\ (r_idx r1 + r_n r1 = S i)%nat).
    { unfold r1, r' in *. destruct (Nat.eqb (r_n r) 0) eqn:E0.
      - apply Nat.eqb_eq in E0. destruct I as [[_ T0]|G]; [|destruct (GR_facts _ _ G) as (_ & Q & _); [|lia]].
        + cbn [r_n r_dst r_src r_total r_idx] in *. rewrite T0 in *. split; [|lia].
          rewrite (firstn_snoc l i 0 node) by (rewrite Nat.add_0_r; exact EN). cbn [firstn app].
          replace (0 + n) with n in * by lia. apply GR_first; auto.
        + apply Forall_forall. intros x Hx. apply (proj1 (Forall_forall _ _) W). apply in_firstn in Hx. eapply in_skipn; eauto.
      - apply Nat.eqb_neq in E0. destruct IX as [IX|IX]; [contradiction|].
        destruct I as [[Z0 _]|G]; [contradiction|]. split; [|cbn; lia].
        cbn [r_n r_idx]. rewrite (firstn_snoc l (r_idx r) (r_n r) node) by (rewrite IX; exact EN).
        apply (GR_snoc _ r node d s n); auto. }
    destruct V1 as [V1 IX1].
    destruct (negb (Nat.eqb i (List.length l - 1))).
    + eapply (IH l (S i) r1); eauto. right; exact V1.
    + eapply finish_sound; eauto.
  - (* the node does not join: flush *)
    eapply finish_sound; eauto. unfold r'. destruct (Nat.eqb (r_n r) 0); [left; cbn; lia | apply Inv_V; exact I].
Qed.

Theorem g_merge_sound l c l' :
  Forall wf l -> g_merge sp l = Ok (c, l') ->
  equiv_val SM (Node "seq" l) (Node "seq" l') /\ Forall wf l'.
Proof.
  unfold g_merge. intros W H. destruct (forallb (node_safe sp) l) eqn:Sf; [|discriminate].
  destruct (g_loop_sound _ l 0%nat run0 false c l' W Sf ltac:(left; cbn; auto) ltac:(left; reflexivity) H) as [B W'].
  split; [apply seq_equiv_blk; exact B | exact W'].
Qed.
End Generic.

(* ================= instances ================= *)
Lemma wrap_nn v : 0 <= v -> lit_ok v -> wrap v = v.
Proof. intros H L. apply wrap_small. wl. Qed.
Lemma zn_add a b : 0 <= a -> 0 <= b -> zn (a + b) = (zn a + zn b)%nat.
Proof. intros. unfold zn. apply Z2Nat.inj_add; assumption. Qed.
Lemma wf_args op args : wf (Node op args) -> Forall wf args.
Proof. apply wf_node. Qed.

Ltac wf_lits W :=
  apply wf_args in W;
  repeat match goal with
  | H : Forall wf (_ :: _) |- _ => let a := fresh "Wa" in let b := fresh "Wb" in inversion H as [|? ? a b]; subst; clear H
  | H : Forall wf [] |- _ => clear H
  | H : wf (Lit _) |- _ => cbn [wf] in H
  | H : wf (Node _ _) |- _ => apply wf_args in H
  end.

(* ---- _merge_memzero ---- *)
Definition eff_z (d s n : Z) (st : St SM) : list Z := upd (MGET st) (zn d) (repeat 0 (zn n)).

Lemma zeroing_inv e d s n : zeroing e = Some (d, s, n) ->
  s = 0 /\ ((e = Node "mstore" [Lit d; Lit 0] /\ n = 32) \/ e = Node "calldatacopy" [Lit d; Var "calldatasize"; Lit n]).
Proof.
  destruct e as [v|x|op [|a [|b [|c [|c2 r]]]]]; cbn; try discriminate;
    destruct a; try discriminate; destruct b; try discriminate.
  - destruct (String.eqb op "mstore" && (v0 =? 0)) eqn:E; [|discriminate]. intros H. inversion H; subst.
    apply andb_true_iff in E. destruct E as [E1 E2]. apply String.eqb_eq in E1. apply Z.eqb_eq in E2. subst. auto.
  - destruct c; try discriminate.
    destruct (String.eqb op "calldatacopy" && String.eqb x "calldatasize") eqn:E; [|discriminate]. intros H. inversion H; subst.
    apply andb_true_iff in E. destruct E as [E1 E2]. apply String.eqb_eq in E1, E2. subst. auto.
  - destruct c; discriminate.
Qed.

Lemma ev_mstore a b st :
  ev (Node "mstore" [a; b]) st =
  bindd SM (ev b) (fun v => bindd SM (ev a) (fun x s1 => Norm 0 (MPUT s1 (upd (MGET s1) (zn x) (b_of SM MO v))))) st.
Proof. cbn [eval]. change (kind_of "mstore") with KOther. cbn iota. cbn [map]. apply (K_mstore SM MO). Qed.
Lemma ev_copy3 op a b c st (Hk : kind_of op = KOther) :
  ev (Node op [a; b; c]) st = sem_K SM op [ev a; ev b; ev c] st.
Proof. cbn [eval]. rewrite Hk. reflexivity. Qed.
Lemma ev_load1 op a st (Hk : kind_of op = KOther) : ev (Node op [a]) st = sem_K SM op [ev a] st.
Proof. cbn [eval]. rewrite Hk. reflexivity. Qed.

Lemma ev_zero_cdc d n st : 0 <= d -> lit_ok d -> 0 <= n -> lit_ok n ->
  ev (Node "calldatacopy" [Lit d; Var "calldatasize"; Lit n]) st = node_den eff_z d 0 n st.
Proof.
  intros Hd Ld Hn Ln. rewrite (ev_copy3 "calldatacopy") by reflexivity. rewrite (K_calldatacopy SM MO).
  unfold bindd. cbn [eval]. unfold ret. rewrite (wrap_nn n Hn Ln), (wrap_nn d Hd Ld).
  unfold node_den, eff_z. rewrite rd_zero_tail by apply (cds_len SM MO). reflexivity.
Qed.

Lemma memzero_sound l c l' :
  Forall wf l -> merge_memzero l = Ok (c, l') ->
  equiv_val SM (Node "seq" l) (Node "seq" l') /\ Forall wf l'.
Proof.
  apply (g_merge_sound sp_memzero eff_z).
  - (* node_eff *) intros e d s n W C Hd Hs Hn st. destruct (zeroing_inv e d s n C) as [-> [[-> ->]| ->]].
    + wf_lits W. rewrite ev_mstore. unfold bindd. cbn [eval]. unfold ret. change (wrap 0) with 0.
      rewrite (wrap_nn d Hd Wa), (b_of_0 SM MO). reflexivity.
    + wf_lits W. apply ev_zero_cdc; auto.
  - (* mk_eff *) intros d s t Hd Hs Ht Ld Ls Lt. cbn [sp_memzero ms_mk]. split; [|split].
    + intros st. rewrite ev_zero_cdc by auto. reflexivity.
    + cbn. auto.
    + unfold node_safe. cbn. repeat (apply andb_true_iff; split); try reflexivity; apply Z.leb_le; lia.
  - (* cls_lit *) intros e d s n W C. destruct (zeroing_inv e d s n C) as [-> [[-> ->]| ->]]; wf_lits W; split; auto; wl.
  - (* compose *) intros d s t s2 n st Hd Hs Ht Hn _ _. unfold eff_z.
    rewrite (mget_put SM MO) by (apply bytes_upd; [apply (mem_bytes SM MO) | apply bytes_repeat0]).
    rewrite (mput_put SM MO). f_equal.
    rewrite zn_add by assumption.
    replace (zn d + zn t)%nat with (zn d + List.length (repeat 0%Z (zn t)))%nat by (rewrite repeat_length; reflexivity).
    rewrite upd_upd_adjacent.
    rewrite <- repeat_app. rewrite <- zn_add by assumption. reflexivity.
  - (* no overlap guard here *) cbn. discriminate.
Qed.

(* ---- _merge_load ---- *)
Lemma loading_inv LOAD e d s n : loading LOAD e = Some (d, s, n) ->
  e = Node "mstore" [Lit d; Node LOAD [Lit s]] /\ n = 32.
Proof.
  intros H. unfold loading in H.
  repeat match type of H with
  | context[match ?x with _ => _ end] => is_var x; destruct x; try discriminate H
  end.
  match type of H with context[if ?c then _ else _] => destruct c eqn:E; [|discriminate H] end.
  inversion H; subst.
  apply andb_true_iff in E. destruct E as [E1 E2]. apply String.eqb_eq in E1, E2. subst. auto.
Qed.

Section ExtLoad.
(* calldataload -> calldatacopy and dload -> dloadbytes: a read-only byte source *)
Variable LOAD COPY : string. (*section*)
Variable dat : St SM -> list Z. (*section*)
Hypothesis kL : kind_of LOAD = KOther. (*section*)
Hypothesis kC : kind_of COPY = KOther. (*section*)
Hypothesis dat_put : forall st m, dat (MPUT st m) = dat st. (*section*)
Hypothesis dat_bytes : forall st, bytes (dat st). (*section*)
Hypothesis bw : forall st a, b_of SM MO (wrap (w_of SM MO (rd (dat st) a 32))) = rd (dat st) a 32. (*section*)
Hypothesis K_load : forall da st, sem_K SM LOAD [da] st = (*section*)
  bindd SM da (fun a s1 => Norm (wrap (w_of SM MO (rd (dat s1) (zn a) 32))) s1) st.
Hypothesis K_copy : forall dd dsrc dn st, sem_K SM COPY [dd; dsrc; dn] st = (*section*)
  bindd SM dn (fun n => bindd SM dsrc (fun src => bindd SM dd (fun d s1 =>
    Norm 0 (MPUT s1 (upd (MGET s1) (zn d) (rd (dat s1) (zn src) (zn n))))))) st.

Definition eff_x (d s n : Z) (st : St SM) : list Z := upd (MGET st) (zn d) (rd (dat st) (zn s) (zn n)).

Lemma extload_sound l c l' :
  Forall wf l -> merge_load LOAD COPY true l = Ok (c, l') ->
  equiv_val SM (Node "seq" l) (Node "seq" l') /\ Forall wf l'.
Proof.
  apply (g_merge_sound (sp_load LOAD COPY true) eff_x).
  - intros e d s n W C Hd Hs Hn st. destruct (loading_inv LOAD e d s n C) as [-> ->].
    wf_lits W. rewrite ev_mstore. unfold bindd. rewrite (ev_load1 LOAD) by exact kL. rewrite K_load.
    unfold bindd. cbn [eval]. unfold ret. rewrite (wrap_nn s Hs Wa1), (wrap_nn d Hd Wa), bw. reflexivity.
  - intros d s t Hd Hs Ht Ld Ls Lt. cbn [sp_load ms_mk]. split; [|split].
    + intros st. rewrite (ev_copy3 COPY) by exact kC. rewrite K_copy. unfold bindd. cbn [eval]. unfold ret.
      rewrite (wrap_nn t Ht Lt), (wrap_nn s Hs Ls), (wrap_nn d Hd Ld). reflexivity.
    + cbn. auto.
    + reflexivity.
  - intros e d s n W C. destruct (loading_inv LOAD e d s n C) as [-> ->]. wf_lits W. auto.
  - intros d s t s2 n st Hd Hs Ht Hn E _. rewrite (E eq_refl). unfold eff_x.
    rewrite (mget_put SM MO) by (apply bytes_upd; [apply (mem_bytes SM MO) | apply bytes_rd, dat_bytes]).
    rewrite (mput_put SM MO), dat_put. f_equal.
    rewrite !zn_add by assumption.
    replace (zn d + zn t)%nat with (zn d + List.length (rd (dat st) (zn s) (zn t)))%nat by (rewrite rd_length; reflexivity).
    rewrite upd_upd_adjacent. rewrite <- rd_split. reflexivity.
  - cbn. discriminate.
Qed.
End ExtLoad.

Lemma calldataload_sound l c l' :
  Forall wf l -> merge_load "calldataload" "calldatacopy" true l = Ok (c, l') ->
  equiv_val SM (Node "seq" l) (Node "seq" l') /\ Forall wf l'.
Proof.
  apply (extload_sound "calldataload" "calldatacopy" (cdat SM MO)); try reflexivity.
  - apply (cdat_put SM MO). - apply (cd_bytes SM MO). - apply bw_cd. - apply (K_calldataload SM MO). - apply (K_calldatacopy SM MO).
Qed.
Lemma dload_sound l c l' :
  Forall wf l -> merge_load "dload" "dloadbytes" true l = Ok (c, l') ->
  equiv_val SM (Node "seq" l) (Node "seq" l') /\ Forall wf l'.
Proof.
  apply (extload_sound "dload" "dloadbytes" (fun _ => ddat SM MO)); try reflexivity.
  - intros st. apply (dd_bytes SM MO). - intros st a. apply bw_dd. - apply (K_dload SM MO). - apply (K_dloadbytes SM MO).
Qed.

(* mload -> mcopy: here the overlap guard matters *)
Definition eff_m (d s n : Z) (st : St SM) : list Z := mcopy_mem (MGET st) (zn d) (zn s) (zn n).
Lemma mload_sound l c l' :
  Forall wf l -> merge_load "mload" "mcopy" false l = Ok (c, l') ->
  equiv_val SM (Node "seq" l) (Node "seq" l') /\ Forall wf l'.
Proof.
  apply (g_merge_sound (sp_load "mload" "mcopy" false) eff_m).
  - intros e d s n W C Hd Hs Hn st. destruct (loading_inv "mload" e d s n C) as [-> ->].
    wf_lits W. rewrite ev_mstore. unfold bindd. rewrite (ev_load1 "mload") by reflexivity. rewrite (K_mload SM MO).
    unfold bindd. cbn [eval]. unfold ret. rewrite (wrap_nn s Hs Wa1), (wrap_nn d Hd Wa).
    rewrite (mget_put SM MO) by (apply bytes_touch, (mem_bytes SM MO)).
    rewrite (mput_put SM MO), bw_mem. reflexivity.
  - intros d s t Hd Hs Ht Ld Ls Lt. cbn [sp_load ms_mk]. split; [|split].
    + intros st. rewrite (ev_copy3 "mcopy") by reflexivity. rewrite (K_mcopy SM MO). unfold bindd. cbn [eval]. unfold ret.
      rewrite (wrap_nn t Ht Lt), (wrap_nn s Hs Ls), (wrap_nn d Hd Ld). reflexivity.
    + cbn. auto.
    + reflexivity.
  - intros e d s n W C. destruct (loading_inv "mload" e d s n C) as [-> ->]. wf_lits W. auto.
  - intros d s t s2 n st Hd Hs Ht Hn E G. rewrite (E eq_refl). unfold eff_m.
    rewrite (mget_put SM MO) by (apply bytes_mcopy, (mem_bytes SM MO)).
    rewrite (mput_put SM MO). f_equal.
    rewrite !zn_add by assumption. apply mcopy_compose.
    specialize (G eq_refl). cbn [r_src r_dst r_total] in G. unfold zn.
    destruct (Z_le_dec d s); [left; apply Z2Nat.inj_le; lia|]. right.
    rewrite <- !Z2Nat.inj_add by lia. apply Z2Nat.inj_le; lia.
  - intros _. split; [reflexivity|]. intros e d s n C. apply (loading_inv "mload" e d s n C).
Qed.

(* ---- _rewrite_mstore_dload: (mstore dst (dload src)) = (dloadbytes dst src 32), any dst / src ---- *)
Lemma rewrite_dload1_sound e : wf e -> equiv_val SM e (snd (rewrite_dload1 e)) /\ wf (snd (rewrite_dload1 e)).
Proof.
  intros W. unfold rewrite_dload1.
  destruct e as [v|x|op [|a [|b [|c r]]]]; try (split; [intros st; reflexivity | exact W]).
  2:{ destruct b as [v2|x2|ld [|a2 [|b2 r2]]]; split; try (intros st; reflexivity); exact W. }
  destruct b as [v2|x2|ld [|a2 [|b2 r2]]]; try (split; [intros st; reflexivity | exact W]).
  destruct (String.eqb op "mstore" && String.eqb ld "dload") eqn:E; [|split; [intros st; reflexivity | exact W]].
  apply andb_true_iff in E. destruct E as [E1 E2]. apply String.eqb_eq in E1, E2. subst op ld. cbn [snd].
  wf_lits W. split.
  - intros st. rewrite ev_mstore. rewrite (ev_copy3 "dloadbytes") by reflexivity. rewrite (K_dloadbytes SM MO).
    unfold bindd. rewrite (ev_load1 "dload") by reflexivity. rewrite (K_dload SM MO). unfold bindd.
    cbn [eval]. unfold ret. change (wrap 32) with 32.
    destruct (ev a2 st) as [vs s1|]; [|reflexivity]. destruct (ev a s1) as [vd s2|]; [|reflexivity].
    rewrite bw_dd. reflexivity.
  - apply (proj2 (wf_node _ _)). constructor; [exact Wa|]. constructor; [exact Wa1|]. constructor; [|constructor]. cbn [wf]. wl.
Qed.
Lemma rewrite_mstore_dload_sound l :
  Forall wf l -> equiv_val SM (Node "seq" l) (Node "seq" (snd (rewrite_mstore_dload l))) /\
                 Forall wf (snd (rewrite_mstore_dload l)).
Proof.
  intros W. unfold rewrite_mstore_dload. cbn [snd]. split.
  - intros st. change (ev (Node "seq" l) st) with (seq_den SM (map ev l) st).
    change (ev (Node "seq" (map (fun e => snd (rewrite_dload1 e)) l)) st)
      with (seq_den SM (map ev (map (fun e => snd (rewrite_dload1 e)) l)) st).
    apply seq_den_congr. clear st. induction W as [|x t Wx Wt IH]; cbn [map]; constructor; auto.
    intros st. apply (proj1 (rewrite_dload1_sound x Wx)).
  - induction W as [|x t Wx Wt IH]; cbn [map]; constructor; auto. apply (proj2 (rewrite_dload1_sound x Wx)).
Qed.

(* ---- _remove_empty_seqs ---- *)
Lemma empty_seq_den e v0 st : is_empty_seq e = true -> blk [ev e] v0 st = Norm 0 st.
Proof.
  destruct e as [v|x|op [|a r]]; cbn [is_empty_seq]; try discriminate. intros H. rewrite blk_single.
  apply orb_true_iff in H. destruct H as [H|H]; apply String.eqb_eq in H; subst op; reflexivity.
Qed.
Lemma remove_empty_seqs_sound l :
  Forall wf l -> (forall v0 st, blk (map ev l) v0 st = blk (map ev (snd (remove_empty_seqs l))) v0 st) /\
                 Forall wf (snd (remove_empty_seqs l)).
Proof.
  induction l as [|x t IH]; intros W; [split; [reflexivity | constructor]|].
  inversion W as [|? ? Wx Wt]; subst. destruct (IH Wt) as [B W'].
  cbn [remove_empty_seqs]. destruct t as [|y t2]; [split; [reflexivity | exact W]|].
  destruct (remove_empty_seqs (y :: t2)) as [c t'] eqn:E. cbn [snd] in *.
  destruct (is_empty_seq x) eqn:Ex; cbn [snd].
  - split; [|exact W']. intros v0 st. change (map ev (x :: y :: t2)) with ([ev x] ++ map ev (y :: t2))%list.
    rewrite blk_app. unfold bindd. rewrite (empty_seq_den x v0 st Ex).
    (* the value of a non-last element is ignored: the rest is not empty *)
    rewrite <- (B v0 st). reflexivity.
  - split; [|constructor; assumption]. intros v0 st. cbn [map blk]. unfold bindd.
    destruct (ev x st) as [vx s1|]; [|reflexivity]. apply B.
Qed.

(* ---- all merges ---- *)
Theorem merges_sound cancun l c l' :
  Forall wf l -> merges cancun l = Ok (c, l') ->
  equiv_val SM (Node "seq" l) (Node "seq" l') /\ Forall wf l'.
Proof.
  intros W H. unfold merges in H.
  destruct (merge_memzero l) as [[c1 l1]|] eqn:E1; [|discriminate]. cbn [bind] in H.
  destruct (merge_load "calldataload" "calldatacopy" true l1) as [[c2 l2]|] eqn:E2; [|discriminate]. cbn [bind] in H.
  destruct (merge_load "dload" "dloadbytes" true l2) as [[c3 l3]|] eqn:E3; [|discriminate]. cbn [bind] in H.
  destruct (rewrite_mstore_dload l3) as [c4 l4] eqn:E4.
  destruct (memzero_sound l c1 l1 W E1) as [Q1 W1].
  destruct (calldataload_sound l1 c2 l2 W1 E2) as [Q2 W2].
  destruct (dload_sound l2 c3 l3 W2 E3) as [Q3 W3].
  destruct (rewrite_mstore_dload_sound l3 W3) as [Q4 W4]. rewrite E4 in Q4, W4. cbn [snd] in Q4, W4.
  assert (M5: exists c5 l5, (if cancun then merge_load "mload" "mcopy" false l4 else Ok (false, l4)) = Ok (c5, l5) /\
              equiv_val SM (Node "seq" l4) (Node "seq" l5) /\ Forall wf l5).
  { destruct cancun.
    - destruct (merge_load "mload" "mcopy" false l4) as [[c5 l5]|] eqn:E5; [|discriminate H].
      exists c5, l5. split; [reflexivity|]. apply (mload_sound l4 c5 l5 W4 E5).
    - exists false, l4. split; [reflexivity|]. split; [intros st; reflexivity | exact W4]. }
  destruct M5 as (c5 & l5 & E5 & Q5 & W5). rewrite E5 in H. cbn [bind] in H.
  destruct (remove_empty_seqs l5) as [c6 l6] eqn:E6. inversion H; subst.
  destruct (remove_empty_seqs_sound l5 W5) as [Q6 W6]. rewrite E6 in Q6, W6. cbn [snd] in Q6, W6.
  split; [|exact W6]. intros st. rewrite (Q1 st), (Q2 st), (Q3 st), (Q4 st), (Q5 st).
  apply seq_equiv_blk. exact Q6.
Qed.

(* optimize_sound: unconditional for state spaces with a memory *)
Theorem optimize_sound_all cancun e e' :
  wf e -> optimize cancun e = Ok e' -> equiv_val SM e e' /\ wf e'.
Proof. apply (optimize_sound_gen SM OK merges_sound). Qed.
Theorem optimize_raised_all cancun e : wf e -> optimize cancun e = Err Raised -> Blame SM e.
Proof. apply (optimize_raised_gen SM OK merges_sound). Qed.
End MS.
