(* C15: hand model of vyper/ir/optimizer.py:_optimize_binop and _comparison_helper (no proofs here).
   Constant folding goes through the translated source (GenUtils: arith table, evm_div/mod/pow,
   signed_to_unsigned/unsigned_to_signed, _wrap256).  The rollback test of `finalize`
   (identity containment of the original argument nodes in the new argument list) is modelled with
   templates over the two argument slots. *)
From Coq Require Import ZArith Bool List String.
From Verif Require Import Base.Word256 Base.PyInt C15.Syntax C15.GenUtils.
Import ListNotations.
Open Scope Z_scope.

Inductive pctx := PNone | PIf | PAssert | PIszero | POther.
Definition is_truthy (pc : pctx) : bool :=
  match pc with PIf | PAssert | PIszero => true | _ => false end.

(* templates over the argument slots X (args[0]) and Y (args[1]) *)
Inductive tmpl :=
| TLit (v : Z) | TX | TY
| TUn (o : uop) (t : tmpl)
| TBin (o : bop) (t1 t2 : tmpl)
| TSeq1 (t : tmpl).

Fixpoint usesX (t : tmpl) : bool :=
  match t with
  | TX => true | TLit _ | TY => false
  | TUn _ t | TSeq1 t => usesX t
  | TBin _ t1 t2 => usesX t1 || usesX t2
  end.
Fixpoint usesY (t : tmpl) : bool :=
  match t with
  | TY => true | TLit _ | TX => false
  | TUn _ t | TSeq1 t => usesY t
  | TBin _ t1 t2 => usesY t1 || usesY t2
  end.
Fixpoint inst (t : tmpl) (x y : expr) : expr :=
  match t with
  | TLit v => Lit v | TX => x | TY => y
  | TUn o t => Un o (inst t x y)
  | TBin o t1 t2 => Bin o (inst t1 x y) (inst t2 x y)
  | TSeq1 t => Seq1 (inst t x y)
  end.

(* finalize: roll back if a complex argument does not occur in the output *)
Definition finalize (x y : expr) (t : tmpl) : option expr :=
  if (is_complex x && negb (usesX t)) || (is_complex y && negb (usesY t)) then None
  else Some (inst t x y).

(* _evm_int on a literal value (pure form; the strict asserts cannot fire on IRnode-legal literals) *)
Definition evm_int (unsigned : bool) (v : Z) : Z :=
  if unsigned then (if v <? 0 then v + W else v) else (if v >? MAXS then v - W else v).
(* _evm_int through the translated source, used by the constant folder *)
Definition evm_int_t (unsigned : bool) (v : Z) : res Z :=
  if unsigned && (v <? 0) then signed_to_unsigned v 256 true
  else if negb unsigned && (v >? 2 ^ 255 - 1) then unsigned_to_signed v 256 true
  else Ok v.
(* `_int(e) == c` (None == c is False) *)
Definition int_is (unsigned : bool) (e : expr) (c : Z) : bool :=
  match e with Lit v => evm_int unsigned v =? c | _ => false end.

(* _conservative_eq *)
Definition ceq (x y : expr) : bool :=
  match x, y with
  | Var a, Var b => String.eqb a b
  | Lit a, Lit b => a =? b
  | _, _ => false
  end.

Definition pow2b (n : Z) : bool := negb (n =? 0) && (Z.land n (n - 1) =? 0).
Definition ilog2 (n : Z) : Z := py_bit_length n - 1.

(* ---- _comparison_helper ---- *)
Definition flip_cmp (o : bop) : bop :=
  match o with
  | B_gt => B_lt | B_lt => B_gt | B_ge => B_le | B_le => B_ge
  | B_sgt => B_slt | B_slt => B_sgt | B_sge => B_sle | B_sle => B_sge
  | o => o
  end.
Definition cmp_unsigned (o : bop) : bool :=
  match o with B_slt | B_sle | B_sgt | B_sge => false | _ => true end.
Definition cmp_strict (o : bop) : bool :=
  match o with B_lt | B_gt | B_slt | B_sgt => true | _ => false end.
Definition cmp_gt (o : bop) : bool :=
  match o with B_gt | B_ge | B_sgt | B_sge => true | _ => false end.
Definition to_strict (o : bop) : bop :=
  match o with B_ge => B_gt | B_le => B_lt | B_sge => B_sgt | B_sle => B_slt | o => o end.
Definition to_unstrict (o : bop) : bop :=
  match o with B_gt => B_ge | B_lt => B_le | B_sgt => B_sge | B_slt => B_sle | o => o end.

(* outcome of the helper, independent of which argument slot holds the literal *)
Inductive cres :=
| CLit (c : Z)                 (* (c, []) *)
| CEqNever (nv : Z)            (* ("eq", [args[0], never]) *)
| CEqArgs                      (* ("eq", args) *)
| CNeArgs                      (* ("ne", args) *)
| CNew (o : bop) (rhs : Z)     (* (new_op, [args[0], new_rhs]) *)
| CIszIsz.                     (* ("iszero", [["iszero", args[0]]]) *)
Definition cres_tmpl (r : cres) (tx ty : tmpl) : tmpl :=
  match r with
  | CLit c => TLit c
  | CEqNever nv => TBin B_eq tx (TLit nv)
  | CEqArgs => TBin B_eq tx ty
  | CNeArgs => TBin B_ne tx ty
  | CNew o rhs => TBin o tx (TLit rhs)
  | CIszIsz => TUn U_iszero (TUn U_iszero tx)
  end.

(* the helper after the flip: o is the (possibly flipped) op, y its second argument *)
Definition cmp_core (o : bop) (y : expr) (prefer_strict : bool) : res (option cres) :=
  let u := cmp_unsigned o in
  let st := cmp_strict o in
  let g := cmp_gt o in
  '(lo, hi) <- int_bounds (negb u) 256 ;;
  let '(aa, nv, an) := if g then (lo, hi, hi - 1) else (hi, lo, lo + 1) in
  if st && int_is u y nv then Ok (Some (CLit 0)) else
  if negb st && int_is u y aa then Ok (Some (CLit 1)) else
  if st && int_is u y an then Ok (Some (CEqNever nv)) else
  let special :=
    if bop_eqb o B_gt && int_is u y 0 then Some CIszIsz else None in
  match y with
  | Lit v =>
      if negb (Bool.eqb st prefer_strict) then
        let rhs := evm_int u v in
        if prefer_strict && (rhs =? nv) then Ok (Some CEqArgs) else
        if negb prefer_strict && (rhs =? aa) then Ok (Some CNeArgs) else
        let new_rhs := if Bool.eqb g st then rhs + 1 else rhs - 1 in
        w <- _wrap256 new_rhs u ;;
        if w =? new_rhs then
          Ok (Some (CNew (if prefer_strict then to_strict o else to_unstrict o) new_rhs))
        else Err AssertFail
      else Ok special
  | _ => Ok special
  end.

Definition comparison_helper (o0 : bop) (x0 y0 : expr) (prefer_strict : bool) : res (option tmpl) :=
  if is_int x0 then
    r <- cmp_core (flip_cmp o0) x0 prefer_strict ;;
    Ok (match r with Some r => Some (cres_tmpl r TY TX) | None => None end)
  else
    r <- cmp_core o0 y0 prefer_strict ;;
    Ok (match r with Some r => Some (cres_tmpl r TX TY) | None => None end).

(* ---- the rule cascade of _optimize_binop, after the literal x literal case and the
        commutative swap; u is the signedness flag of the op from the arith table ---- *)
Definition rules_cmp (o : bop) (x y : expr) (truthy : bool) : res (option tmpl) :=
  if comparison o then comparison_helper o x y (negb truthy) else Ok None.

Definition rules_tail (o : bop) (u : bool) (x y : expr) (pc : pctx) : res (option tmpl) :=
  let truthy := is_truthy pc in
  if bop_eqb o B_eq && int_is u y 0 then Ok (Some (TUn U_iszero TX)) else
  if bop_eqb o B_ne && int_is u y 0 then Ok (Some (TUn U_iszero (TUn U_iszero TX))) else
  if bop_eqb o B_eq && int_is false y (-1) then Ok (Some (TUn U_iszero (TUn U_not TX))) else
  if truthy then
    if bop_eqb o B_eq then (if u then Ok (Some (TUn U_iszero (TBin B_xor TX TY))) else Err AssertFail) else
    if bop_eqb o B_ne && (match pc with PIszero => true | _ => false end) then
      Ok (Some (TUn U_iszero (TBin B_eq TX TY))) else
    if bop_eqb o B_or && is_int y && negb (int_is u y 0) then Ok (Some (TLit 1)) else
    rules_cmp o x y truthy
  else rules_cmp o x y truthy.

Definition rules (o : bop) (u : bool) (x y : expr) (pc : pctx) : res (option tmpl) :=
  if memb o [B_add; B_sub; B_xor; B_or] && int_is u y 0 then Ok (Some (TSeq1 TX)) else
  if memb o [B_sub; B_xor; B_ne] && ceq x y then Ok (Some (TLit 0)) else
  if strict_comparison o && ceq x y then Ok (Some (TLit 0)) else
  if (bop_eqb o B_eq || unstrict_comparison o) && ceq x y then Ok (Some (TLit 1)) else
  if memb o [B_mul; B_div; B_sdiv; B_mod; B_smod; B_and] && int_is u y 0 then Ok (Some (TLit 0)) else
  if memb o [B_mod; B_smod] && int_is u y 1 then Ok (Some (TLit 0)) else
  if memb o [B_mul; B_div; B_sdiv] && int_is u y 1 then Ok (Some (TSeq1 TX)) else
  if memb o [B_mul; B_sdiv] && int_is false y (-1) then Ok (Some (TBin B_sub (TLit 0) TX)) else
  if memb o [B_and; B_or; B_xor] && int_is false y (-1) then
    (if negb u then Err AssertFail else
     match o, y with
     | B_and, _ => Ok (Some (TSeq1 TX))
     | B_xor, _ => Ok (Some (TUn U_not TX))
     | B_or, Lit v => Ok (Some (TLit v))
     | _, _ => Err Raised
     end) else
  if bop_eqb o B_sub && int_is false x (-1) then Ok (Some (TUn U_not TY)) else
  if bop_eqb o B_exp && (int_is u y 0 || int_is u x 1) then Ok (Some (TLit 1)) else
  if bop_eqb o B_exp && int_is u x 0 then Ok (Some (TUn U_iszero TY)) else
  if bop_eqb o B_exp && int_is u y 1 then Ok (Some (TSeq1 TX)) else
  match y with
  | Lit v =>
      if memb o [B_mod; B_div; B_mul] && pow2b (evm_int u v) then
        (if negb u then Err AssertFail else
         match o with
         | B_mod => Ok (Some (TBin B_and TX (TLit (evm_int u v - 1))))
         | B_div => Ok (Some (TBin B_shr (TLit (ilog2 (evm_int u v))) TX))
         | B_mul => Ok (Some (TBin B_shl (TLit (ilog2 (evm_int u v))) TX))
         | _ => Err Raised
         end)
      else rules_tail o u x y pc
  | _ => rules_tail o u x y pc
  end.

(* compile-time arithmetic: _wrap(fn(_int(l), _int(r))) *)
Definition fold (o : bop) (l r : Z) : res Z :=
  match arith o with
  | None => Err KeyErr
  | Some (fn, u) =>
      l' <- evm_int_t u l ;; r' <- evm_int_t u r ;;
      v <- fn l' r' ;; _wrap256 v u
  end.

Definition opt_binop (o : bop) (a b : expr) (pc : pctx) : res (option expr) :=
  match arith o with
  | None => Ok None
  | Some (fn, u) =>
      match a, b with
      | Lit l, Lit r =>
          w <- fold o l r ;;
          Ok (finalize a b (TLit w))
      | _, _ =>
          let '(x, y) := if commutative o && is_int a then (b, a) else (a, b) in
          t <- rules o u x y pc ;;
          Ok (match t with Some t => finalize x y t | None => None end)
      end
  end.

(* printing for the harness *)
Definition show_res (r : res (option expr)) : string :=
  match r with
  | Ok None => "N"
  | Ok (Some e) => show e
  | Err _ => "E"
  end.
Definition show_tmpl_res (x y : expr) (r : res (option tmpl)) : string :=
  match r with
  | Ok None => "N"
  | Ok (Some t) => show (inst t x y)
  | Err _ => "E"
  end.
