(* C15 round 2 (c): simulation theorem for the rewrite relation T (JumpSem.v) and proofs that the passes
   _prune_unreachable_code, _prune_inefficient_jumps, _optimize_inefficient_jumps and _merge_iszero (models in
   JumpOpt.v / Peephole.v) produce T-related programs. *)
From Coq Require Import ZArith Bool List String Lia PeanoNat Wf_nat.
From Verif Require Import Base.Word256 Base.PyInt C15.Peephole C15.JumpOpt C15.JumpSem.
Import ListNotations.
Open Scope Z_scope.

Section Sim.
Variable other : item -> lstack -> option lstack. (*section*)
Variable P P' : list item. (*section*)
Notation TT := (T other P).
(* label coherence: a label of P is a label of P' and the code behind them is related *)
Hypothesis LC : forall l k2, find_label l P = Some k2 -> (*section*)
  exists k2', find_label l P' = Some k2' /\ TT k2 k2'.

Lemma run_mono prog f : forall f2 k st w s,
  run other prog f k st = Halted w s -> (f <= f2)%nat -> run other prog f2 k st = Halted w s.
Proof.
  induction f as [|f IH]; intros f2 k st w s H L; [discriminate|].
  destruct f2 as [|f2]; [lia|]. assert (L2: (f <= f2)%nat) by lia.
  cbn [run] in *. destruct k as [|a k']; [exact H|].
  destruct a; try (destruct (other _ st); [eapply IH; eauto | discriminate]); try (eapply IH; eauto); try exact H.
  destruct (String.eqb s0 "JUMP").
  { destruct st as [|[z|l] st']; try discriminate. destruct (jump_to prog l); [eapply IH; eauto | discriminate]. }
  destruct (String.eqb s0 "JUMPI").
  { destruct st as [|[z|l] [|[c|l2] st']]; try discriminate.
    destruct (c =? 0); [eapply IH; eauto|]. destruct (jump_to prog l); [eapply IH; eauto | discriminate]. }
  destruct (is_halt s0); [exact H|].
  destruct (String.eqb s0 "ISZERO").
  { destruct st as [|[z|l] st']; try discriminate. eapply IH; eauto. }
  destruct (other (Op s0) st); [eapply IH; eauto | discriminate].
Qed.

Lemma plain_op o : plain (Op o) = true ->
  String.eqb o "JUMP" = false /\ String.eqb o "JUMPI" = false /\ is_halt o = false.
Proof.
  cbn [plain]. intros H. apply negb_true_iff in H. apply orb_false_iff in H. destruct H as [H H3].
  apply orb_false_iff in H. destruct H as [H1 H2]. auto.
Qed.

(* one step of a plain item *)
Lemma run_plain_step prog a f k st : plain a = true ->
  run other prog (S f) (a :: k) st =
  match sexec other [a] st with Some st1 => run other prog f k st1 | None => Stuck end.
Proof.
  intros Pa. cbn [run sexec]. destruct a; try discriminate Pa; try reflexivity;
    try (destruct (other _ st); reflexivity).
  destruct (plain_op s Pa) as (E1 & E2 & E3). rewrite E1, E2, E3.
  destruct (String.eqb s "ISZERO").
  - destruct st as [|[z|l] st']; reflexivity.
  - destruct (other (Op s) st); reflexivity.
Qed.
Lemma sexec_cons a w st : plain a = true ->
  sexec other (a :: w) st = match sexec other [a] st with Some st1 => sexec other w st1 | None => None end.
Proof.
  intros Pa. cbn [sexec]. destruct a; try discriminate Pa; try reflexivity;
    try (destruct (other _ st); reflexivity).
  destruct (String.eqb s "ISZERO").
  - destruct st as [|[z|l] st']; reflexivity.
  - destruct (other (Op s) st); reflexivity.
Qed.

Lemma run_plain_fwd prog w : forall f k st st1,
  forallb plain w = true -> sexec other w st = Some st1 ->
  run other prog (List.length w + f) (w ++ k) st = run other prog f k st1.
Proof.
  induction w as [|a w IH]; intros f k st st1 Pw E.
  - cbn in E. inversion E. reflexivity.
  - cbn [forallb] in Pw. apply andb_true_iff in Pw. destruct Pw as [Pa Pw].
    rewrite sexec_cons in E by exact Pa. cbn [List.length app Nat.add]. rewrite run_plain_step by exact Pa.
    destruct (sexec other [a] st) as [st2|]; [|discriminate]. apply IH; assumption.
Qed.
Lemma run_plain_bwd prog w : forall f k st h s,
  forallb plain w = true -> run other prog f (w ++ k) st = Halted h s ->
  exists f1 st1, f = (List.length w + f1)%nat /\ sexec other w st = Some st1 /\ run other prog f1 k st1 = Halted h s.
Proof.
  induction w as [|a w IH]; intros f k st h s Pw H.
  - exists f, st. cbn. auto.
  - cbn [forallb] in Pw. apply andb_true_iff in Pw. destruct Pw as [Pa Pw].
    destruct f as [|f]; [discriminate|]. cbn [app] in H. rewrite run_plain_step in H by exact Pa.
    rewrite sexec_cons by exact Pa.
    destruct (sexec other [a] st) as [st2|]; [|discriminate].
    destruct (IH f k st2 h s Pw H) as (f1 & st1 & E1 & E2 & E3). exists f1, st1. cbn [List.length Nat.add]. auto.
Qed.

Lemma terminal_inv a : is_terminal a = true -> exists o, a = Op o /\ (String.eqb o "JUMP" = true \/ is_halt o = true).
Proof.
  destruct a; cbn; try discriminate. intros H. exists s. split; [reflexivity|].
  cbn [existsb terminal_ops] in H. unfold is_halt. cbn [existsb halt_ops].
  destruct (String.eqb s "JUMP"); [left; reflexivity | right; exact H].
Qed.
Lemma halt_not_jump o : is_halt o = true -> String.eqb o "JUMP" = false /\ String.eqb o "JUMPI" = false.
Proof.
  unfold is_halt. cbn [existsb halt_ops]. intros H.
  repeat (apply orb_true_iff in H; destruct H as [H|H]); try discriminate; apply String.eqb_eq in H; subst; split; reflexivity.
Qed.

(* the simulation theorem: every halting run of P from a T-related point is a halting run of P' with the same
   final stack and the same halting instruction *)
Theorem T_sim : forall fuel k k' st h s,
  TT k k' -> run other P fuel k st = Halted h s -> exists fuel', run other P' fuel' k' st = Halted h s.
Proof.
  induction fuel as [fuel IHf] using lt_wf_ind. intros k k' st h s HT. revert st h s.
  induction HT as [| a k k' HT IHT | w w' k k' Pw Pw' SR HT IHT | l k k' HT IHT | a junk k k' TA NJ HT IHT
                  | x k K' FL HT IHT | c x k K' FL HT IHT]; intros st h s H.
  - (* nil *) destruct fuel; [discriminate|]. cbn in H. exists 1%nat. exact H.
  - (* same *)
    destruct fuel as [|f]; [discriminate|]. cbn [run] in H.
    assert (STEP: forall st1, run other P f k st1 = Halted h s -> exists f', run other P' f' k' st1 = Halted h s)
      by (intros st1 H1; eapply (IHf f); eauto).
    assert (JMP: forall l st1, match jump_to P l with Some k2 => run other P f k2 st1 | None => Stuck end = Halted h s ->
                 exists f', match jump_to P' l with Some k2 => run other P' f' k2 st1 | None => Stuck end = Halted h s).
    { intros l st1 H1. unfold jump_to in *. destruct (find_label l P) as [k2|] eqn:E; [|discriminate].
      destruct (LC l k2 E) as (k2' & E' & T2). rewrite E'. eapply (IHf f); eauto. }
    destruct a.
    + (* Op *)
      destruct (String.eqb s0 "JUMP") eqn:EJ.
      { destruct st as [|[z|l] st']; try discriminate. destruct (JMP l st' H) as [f' H']. exists (S f'). cbn [run]. rewrite EJ. exact H'. }
      destruct (String.eqb s0 "JUMPI") eqn:EI.
      { destruct st as [|[z|l] [|[c|l2] st']]; try discriminate.
        destruct (c =? 0) eqn:EC.
        - destruct (STEP st' H) as [f' H']. exists (S f'). cbn [run]. rewrite EJ, EI, EC. exact H'.
        - destruct (JMP l st' H) as [f' H']. exists (S f'). cbn [run]. rewrite EJ, EI, EC. exact H'. }
      destruct (is_halt s0) eqn:EH.
      { exists 1%nat. cbn [run]. rewrite EJ, EI, EH. exact H. }
      destruct (String.eqb s0 "ISZERO") eqn:EZ.
      { destruct st as [|[z|l] st']; try discriminate. destruct (STEP _ H) as [f' H']. exists (S f'). cbn [run]. rewrite EJ, EI, EH, EZ. exact H'. }
      destruct (other (Op s0) st) as [st1|] eqn:EO; [|discriminate].
      destruct (STEP _ H) as [f' H']. exists (S f'). cbn [run]. rewrite EJ, EI, EH, EZ, EO. exact H'.
    + destruct (other (Imm n) st) as [st1|] eqn:EO; [|discriminate]. destruct (STEP _ H) as [f' H']. exists (S f'). cbn [run]. rewrite EO. exact H'.
    + destruct (STEP _ H) as [f' H']. exists (S f'). exact H'.
    + destruct (STEP _ H) as [f' H']. exists (S f'). exact H'.
    + destruct (other (PushOfst l n) st) as [st1|] eqn:EO; [|discriminate]. destruct (STEP _ H) as [f' H']. exists (S f'). cbn [run]. rewrite EO. exact H'.
    + exists 1%nat. exact H.
    + destruct (other (DataLbl l) st) as [st1|] eqn:EO; [|discriminate]. destruct (STEP _ H) as [f' H']. exists (S f'). cbn [run]. rewrite EO. exact H'.
    + destruct (other (Opaque s0) st) as [st1|] eqn:EO; [|discriminate]. destruct (STEP _ H) as [f' H']. exists (S f'). cbn [run]. rewrite EO. exact H'.
  - (* window *)
    destruct (run_plain_bwd P w fuel k st h s Pw H) as (f1 & st1 & EF & ES & ER).
    assert (R': exists f', run other P' f' k' st1 = Halted h s).
    { destruct w as [|a w0].
      - cbn in EF. subst f1. apply IHT. exact ER.
      - eapply (IHf f1); eauto. cbn in EF. lia. }
    destruct R' as [f' R']. exists (List.length w' + f')%nat.
    rewrite (run_plain_fwd P' w' f' k' st st1 Pw' (SR st st1 ES)). exact R'.
  - (* ISZERO ISZERO PUSHLABEL JUMPI *)
    destruct fuel as [|[|[|[|f]]]]; try discriminate; cbn [run] in H;
      try (destruct st as [|[z|l0] st']; discriminate).
    destruct st as [|[z|l0] st']; try discriminate. cbn in H.
    assert (EQ: (w_iszero (w_iszero z) =? 0) = (z =? 0)) by (unfold w_iszero; destruct (z =? 0); reflexivity).
    rewrite EQ in H. destruct (z =? 0) eqn:EC.
    + destruct (IHf f ltac:(lia) k k' st' h s HT H) as [f' H']. exists (S (S f')). cbn. rewrite EC. exact H'.
    + unfold jump_to in *. destruct (find_label l P) as [k2|] eqn:E; [|discriminate].
      destruct (LC l k2 E) as (k2' & E' & T2). destruct (IHf f ltac:(lia) k2 k2' st' h s T2 H) as [f' H'].
      exists (S (S f')). cbn. rewrite EC. unfold jump_to. rewrite E'. exact H'.
  - (* dead code after a terminal instruction *)
    destruct (terminal_inv a TA) as (o & -> & [EJ|EH]).
    + destruct fuel as [|f]; [discriminate|]. cbn [run] in H. rewrite EJ in H.
      destruct st as [|[z|l] st']; try discriminate. unfold jump_to in *.
      destruct (find_label l P) as [k2|] eqn:E; [|discriminate]. destruct (LC l k2 E) as (k2' & E' & T2).
      destruct (IHf f ltac:(lia) k2 k2' st' h s T2 H) as [f' H']. exists (S f'). cbn [run]. rewrite EJ. unfold jump_to. rewrite E'. exact H'.
    + destruct (halt_not_jump o EH) as [E1 E2]. destruct fuel as [|f]; [discriminate|]. cbn [run] in H. rewrite E1, E2, EH in H.
      exists 1%nat. cbn [run]. rewrite E1, E2, EH. exact H.
  - (* PUSHLABEL x JUMP LABEL x *)
    destruct fuel as [|[|f]]; try discriminate. cbn in H. unfold jump_to in H. rewrite FL in H.
    assert (H1: run other P (S f) (Lbl x :: k) st = Halted h s) by exact H.
    exact (IHf (S f) ltac:(lia) _ _ st h s HT H1).
  - (* PUSHLABEL c JUMPI PUSHLABEL x JUMP LABEL c *)
    destruct fuel as [|[|f]]; try discriminate. cbn in H.
    destruct st as [|[z|l0] st']; try discriminate.
    destruct (z =? 0) eqn:EC.
    + (* falls through to PUSHLABEL x JUMP *)
      destruct f as [|[|f]]; try discriminate. cbn in H. unfold jump_to in *.
      destruct (find_label x P) as [k2|] eqn:E; [|discriminate]. destruct (LC x k2 E) as (k2' & E' & T2).
      destruct (IHf f ltac:(lia) k2 k2' st' h s T2 H) as [f' H']. exists (S (S (S f'))). cbn.
      assert (w_iszero z =? 0 = false) as -> by (unfold w_iszero; rewrite EC; reflexivity).
      unfold jump_to. rewrite E'. exact H'.
    + unfold jump_to in H. rewrite FL in H.
      assert (H1: run other P (S f) (Lbl c :: k) st' = Halted h s) by exact H.
      destruct (IHf (S f) ltac:(lia) _ _ st' h s HT H1) as [f' H']. exists (S (S (S f'))). cbn.
      assert (w_iszero z =? 0 = true) as -> by (unfold w_iszero; rewrite EC; reflexivity). exact H'.
Qed.
End Sim.

(* ---- label coherence follows from T itself ---- *)
Section Coh.
Variable other : item -> lstack -> option lstack. (*section*)
Variable P : list item. (*section*)
Notation TT := (T other P).

Lemma find_label_plain l w k : forallb plain w = true -> find_label l (w ++ k) = find_label l k.
Proof.
  induction w as [|a w IH]; intros H; [reflexivity|]. cbn [forallb] in H. apply andb_true_iff in H. destruct H as [Pa Pw].
  cbn [app find_label]. destruct a; try discriminate Pa; apply IH; exact Pw.
Qed.
Lemma find_label_noreach l w k : forallb (fun x => negb (is_reach x)) w = true -> find_label l (w ++ k) = find_label l k.
Proof.
  induction w as [|a w IH]; intros H; [reflexivity|]. cbn [forallb] in H. apply andb_true_iff in H. destruct H as [Pa Pw].
  cbn [app find_label]. destruct a; try discriminate Pa; apply IH; exact Pw.
Qed.

Lemma T_coherent k k' : TT k k' ->
  forall l k2, find_label l k = Some k2 -> exists k2', find_label l k' = Some k2' /\ TT k2 k2'.
Proof.
  induction 1 as [| a k k' HT IHT | w w' k k' Pw Pw' SR HT IHT | l0 k k' HT IHT | a junk k k' TA NJ HT IHT
                  | x k K' FL HT IHT | c x k K' FL HT IHT]; intros l k2 H.
  - discriminate.
  - destruct a; cbn [find_label] in *; try (apply IHT; exact H).
    destruct (String.eqb l0 l); [inversion H; subst; eauto | apply IHT; exact H].
  - rewrite find_label_plain in H by exact Pw. rewrite find_label_plain by exact Pw'. apply IHT; exact H.
  - cbn [find_label] in *. apply IHT; exact H.
  - destruct (terminal_inv a TA) as (o & -> & _). cbn [find_label] in *.
    rewrite find_label_noreach in H by exact NJ. apply IHT; exact H.
  - apply IHT. exact H.
  - cbn [find_label]. apply IHT. exact H.
Qed.

(* programs related by T have the same halting behaviour from the start *)
Theorem T_program_sound P' : TT P P' ->
  forall fuel st h s, run other P fuel P st = Halted h s -> exists fuel', run other P' fuel' P' st = Halted h s.
Proof.
  intros HT fuel st h s H. eapply (T_sim other P P'); eauto.
  intros l k2 E. eapply T_coherent; eauto.
Qed.

Lemma T_refl k : TT k k.
Proof. induction k; constructor; auto. Qed.
Lemma T_prefix p k k' : TT k k' -> TT (p ++ k) (p ++ k').
Proof. induction p; cbn; [auto | intros; constructor; auto]. Qed.
End Coh.

(* ================= the passes ================= *)
(* what is observable of a final stack: its numbers; the names of label values are not *)
Definition obs (st : lstack) : list (option Z) :=
  map (fun v => match v with SV z => Some z | SL _ => None end) st.
Definition nolbl (st : lstack) : Prop := forall l, ~ In (SL l) st.

(* P' halts whenever P does (started at the beginning on a stack without label values), with the same halting
   instruction and the same observable stack *)
Definition sound_rel (other : item -> lstack -> option lstack) (P P' : list item) : Prop :=
  forall fuel st h s, nolbl st -> run other P fuel P st = Halted h s ->
    exists fuel' s', run other P' fuel' P' st = Halted h s' /\ obs s' = obs s.
Lemma sound_rel_refl other P : sound_rel other P P.
Proof. intros fuel st h s N H. eauto. Qed.
Lemma sound_rel_trans other A B C : sound_rel other A B -> sound_rel other B C -> sound_rel other A C.
Proof.
  intros H1 H2 fuel st h s N H. destruct (H1 _ _ _ _ N H) as (f1 & s1 & H' & O1).
  destruct (H2 _ _ _ _ N H') as (f2 & s2 & H'' & O2). exists f2, s2. split; [exact H''|congruence].
Qed.
Lemma T_sound_rel other P P' : T other P P P' -> sound_rel other P P'.
Proof. intros HT fuel st h s N H. destruct (T_program_sound other P P' HT fuel st h s H) as [f' H']. eauto. Qed.

(* labels are unique *)
Fixpoint labels (p : list item) : list string :=
  match p with [] => [] | Lbl x :: t => x :: labels t | _ :: t => labels t end.
Lemma labels_app a b : labels (a ++ b) = (labels a ++ labels b)%list.
Proof. induction a as [|x a IH]; [reflexivity|]. destruct x; cbn; rewrite ?IH; reflexivity. Qed.
Lemma find_label_unique P pre x k :
  NoDup (labels P) -> P = (pre ++ Lbl x :: k)%list -> find_label x P = Some k.
Proof.
  intros ND ->. induction pre as [|a pre IH].
  - cbn. rewrite String.eqb_refl. reflexivity.
  - cbn [app find_label]. destruct a; try (apply IH; exact ND).
    cbn [labels app] in ND. inversion ND as [|? ? NI ND']; subst.
    destruct (String.eqb l x) eqn:E; [|apply IH; exact ND'].
    apply String.eqb_eq in E. subst l. exfalso. apply NI. rewrite labels_app. apply in_or_app. right. cbn. auto.
Qed.

Section Passes.
Variable other : item -> lstack -> option lstack. (*section*)

(* ---- _prune_unreachable_code ---- *)
Lemma drop_unreach_split l :
  exists junk, l = (junk ++ drop_unreach l)%list /\ forallb (fun x => negb (is_reach x)) junk = true.
Proof.
  induction l as [|a t IH]; [exists []; auto|]. cbn [drop_unreach]. destruct (is_reach a) eqn:E.
  - exists []. auto.
  - destruct IH as (junk & E1 & E2). exists (a :: junk). cbn. rewrite E, E2. rewrite <- E1. auto.
Qed.
Lemma prune_unreach_T P fuel : forall l, T other P l (prune_unreach_ fuel l).
Proof.
  induction fuel as [|f IH]; intros l; [apply T_refl|]. cbn [prune_unreach_].
  destruct l as [|a [|b t]]; try apply T_refl.
  destruct (is_terminal a) eqn:E.
  - destruct (drop_unreach_split (b :: t)) as (junk & E1 & E2). rewrite E1 at 1.
    apply T_dead; auto.
  - apply T_same. apply IH.
Qed.
Theorem prune_unreachable_sound P : sound_rel other P (prune_unreachable P).
Proof. apply T_sound_rel. apply prune_unreach_T. Qed.

(* ---- _prune_inefficient_jumps ---- *)
Lemma prune_ineff_T P fuel : NoDup (labels P) ->
  forall pre l, P = (pre ++ l)%list -> T other P l (prune_ineff_ fuel l).
Proof.
  intros ND. induction fuel as [|f IH]; intros pre l E; [apply T_refl|]. cbn [prune_ineff_].
  assert (STEP: forall a t, l = a :: t -> T other P (a :: t) (a :: prune_ineff_ f t)).
  { intros a t ->. apply T_same. apply (IH (pre ++ [a])%list). rewrite <- app_assoc. exact E. }
  destruct l as [|a [|b [|c r]]]; try apply T_refl;
    try (destruct a; try apply T_refl; destruct b; apply T_refl).
  destruct a; try (apply STEP; reflexivity).
  destruct b; try (apply STEP; reflexivity). destruct c; try (apply STEP; reflexivity).
  destruct (String.eqb s "JUMP" && String.eqb l l0) eqn:C.
  - apply andb_true_iff in C. destruct C as [C1 C2]. apply String.eqb_eq in C1, C2. subst s l0.
    apply T_jumpnext.
    + apply (find_label_unique P (pre ++ [PushLbl l; Op "JUMP"])%list); [exact ND|]. rewrite <- app_assoc. exact E.
    + apply T_same. apply (IH (pre ++ [PushLbl l; Op "JUMP"; Lbl l])%list). rewrite <- app_assoc. exact E.
  - apply T_same. apply (IH (pre ++ [PushLbl l])%list). rewrite <- app_assoc. exact E.
Qed.
Theorem prune_inefficient_jumps_sound P : NoDup (labels P) -> sound_rel other P (prune_inefficient_jumps P).
Proof. intros ND. apply T_sound_rel. apply (prune_ineff_T P _ ND []). reflexivity. Qed.

(* ---- _optimize_inefficient_jumps ---- *)
Lemma opt_ineff_T P fuel : NoDup (labels P) ->
  forall pre l, P = (pre ++ l)%list -> T other P l (opt_ineff_ fuel l).
Proof.
  intros ND. induction fuel as [|f IH]; intros pre l E; [apply T_refl|]. cbn [opt_ineff_].
  assert (STEP: forall a t, l = a :: t -> T other P (a :: t) (a :: opt_ineff_ f t)).
  { intros a t ->. apply T_same. apply (IH (pre ++ [a])%list). rewrite <- app_assoc. exact E. }
  destruct l as [|a [|b [|c [|d [|e r]]]]]; try apply T_refl;
    try (destruct a; try apply T_refl; destruct b; try apply T_refl; destruct c; try apply T_refl; destruct d; apply T_refl).
  destruct a; try (apply STEP; reflexivity).
  destruct b; try (apply STEP; reflexivity). destruct c; try (apply STEP; reflexivity).
  destruct d; try (apply STEP; reflexivity). destruct e; try (apply STEP; reflexivity).
  destruct (String.eqb s "JUMPI" && String.eqb s0 "JUMP" && String.eqb l l1) eqn:C.
  - apply andb_true_iff in C. destruct C as [C C3]. apply andb_true_iff in C. destruct C as [C1 C2].
    apply String.eqb_eq in C1, C2, C3. subst s s0 l1.
    apply T_cond.
    + apply (find_label_unique P (pre ++ [PushLbl l; Op "JUMPI"; PushLbl l0; Op "JUMP"])%list); [exact ND|].
      rewrite <- app_assoc. exact E.
    + apply (IH (pre ++ [PushLbl l; Op "JUMPI"; PushLbl l0; Op "JUMP"])%list). rewrite <- app_assoc. exact E.
  - apply T_same. apply (IH (pre ++ [PushLbl l])%list). rewrite <- app_assoc. exact E.
Qed.
Theorem optimize_inefficient_jumps_sound P : NoDup (labels P) -> sound_rel other P (optimize_inefficient_jumps P).
Proof. intros ND. apply T_sound_rel. apply (opt_ineff_T P _ ND []). reflexivity. Qed.

(* ---- _merge_iszero (pass level) ----
   assumption on the opcodes of _RETURNS_ZERO_OR_ONE that are not ISZERO: they leave 0 or 1 on the stack *)
Hypothesis other_01 : forall o st st', is_ret01 (Op o) = true -> String.eqb o "ISZERO" = false -> (*section*)
  other (Op o) st = Some st' -> exists v t, st' = SV v :: t /\ (v = 0 \/ v = 1).

Lemma ret01_plain o : is_ret01 (Op o) = true -> plain (Op o) = true.
Proof.
  cbn [is_ret01 ret01 existsb plain]. intros H.
  repeat (apply orb_true_iff in H; destruct H as [H|H]); try discriminate; apply String.eqb_eq in H; subst; reflexivity.
Qed.
Lemma win_ret01 o : is_ret01 (Op o) = true -> srefines other [Op o; Op "ISZERO"; Op "ISZERO"] [Op o].
Proof.
  intros R st r H. cbn [sexec] in *. destruct (String.eqb o "ISZERO") eqn:EZ.
  - destruct st as [|[z|l] t]; try discriminate. cbn in H. inversion H. f_equal. f_equal. f_equal.
    unfold w_iszero. destruct (z =? 0); reflexivity.
  - destruct (other (Op o) st) as [st1|] eqn:EO; [|discriminate].
    destruct (other_01 o st st1 R EZ EO) as (v & t & -> & V). cbn in H. inversion H. f_equal. f_equal. f_equal.
    destruct V as [-> | ->]; reflexivity.
Qed.

Lemma mi_loop1_sound fuel : forall pre suf out,
  mi_loop1 fuel pre suf = Ok out -> sound_rel other (rev pre ++ suf) out.
Proof.
  induction fuel as [|f IH]; intros pre suf out H; [discriminate|]. cbn [mi_loop1] in H.
  destruct suf as [|a [|b [|c rest]]]; try (inversion H; apply sound_rel_refl).
  destruct (is_ret01 a && is_op b "ISZERO" && is_op c "ISZERO") eqn:C.
  - apply andb_true_iff in C. destruct C as [C C3]. apply andb_true_iff in C. destruct C as [C1 C2].
    unfold is_op in C2, C3. destruct b; try discriminate C2. destruct c; try discriminate C3.
    cbn in C2, C3. apply String.eqb_eq in C2, C3. subst. destruct a; try discriminate C1.
    eapply sound_rel_trans; [|apply (IH _ _ _ H)].
    apply T_sound_rel. apply T_prefix.
    apply (T_win other _ [Op s; Op "ISZERO"; Op "ISZERO"] [Op s] rest rest).
    + cbn [forallb]. rewrite (ret01_plain s C1). reflexivity.
    + cbn [forallb]. rewrite (ret01_plain s C1). reflexivity.
    + apply win_ret01. exact C1.
    + apply T_refl.
  - specialize (IH _ _ _ H). cbn [rev] in IH. rewrite <- app_assoc in IH. exact IH.
Qed.
Lemma mi_loop2_sound fuel : forall pre suf out,
  mi_loop2 fuel pre suf = Ok out -> sound_rel other (rev pre ++ suf) out.
Proof.
  induction fuel as [|f IH]; intros pre suf out H; [discriminate|]. cbn [mi_loop2] in H.
  destruct suf as [|a [|b [|c [|d rest]]]]; try (inversion H; apply sound_rel_refl).
  destruct (is_op a "ISZERO" && is_op b "ISZERO" && is_pushlabel c && is_op d "JUMPI") eqn:C.
  - apply andb_true_iff in C. destruct C as [C C4]. apply andb_true_iff in C. destruct C as [C C3].
    apply andb_true_iff in C. destruct C as [C1 C2].
    unfold is_op in C1, C2, C4. destruct a; try discriminate C1. destruct b; try discriminate C2.
    destruct d; try discriminate C4. destruct c; try discriminate C3.
    cbn in C1, C2, C4. apply String.eqb_eq in C1, C2, C4. subst.
    eapply sound_rel_trans; [|apply (IH _ _ _ H)].
    apply T_sound_rel. apply T_prefix. apply T_izjumpi. apply T_refl.
  - specialize (IH _ _ _ H). cbn [rev] in IH. rewrite <- app_assoc in IH. exact IH.
Qed.
Theorem merge_iszero_sound P out : merge_iszero P = Ok out -> sound_rel other P out.
Proof.
  unfold merge_iszero. intros H. destruct (mi_loop1 (2 * List.length P + 2) [] P) as [l1|] eqn:E1; [|discriminate].
  cbn [bind] in H. eapply sound_rel_trans; [apply (mi_loop1_sound _ [] P l1 E1) | apply (mi_loop2_sound _ [] l1 out H)].
Qed.
End Passes.
