(* C15 round 2 (c): _merge_jumpdests (retargeting PUSHLABELs) and _prune_unused_jumpdests (deleting labels):
   simulations with a relation on stacks / an invariant on the label values on the stack. *)
From Coq Require Import ZArith Bool List String Lia PeanoNat.
From Verif Require Import Base.Word256 Base.PyInt C15.Peephole C15.JumpOpt C15.JumpSem C15.JumpSound.
Import ListNotations.
Open Scope Z_scope.

Lemma find_label_map (g : item -> item) l p :
  (forall z, g (Lbl z) = Lbl z) -> (forall a, is_label a = false -> is_label (g a) = false) ->
  find_label l (map g p) = option_map (map g) (find_label l p).
Proof.
  intros G1 G2. induction p as [|a t IH]; [reflexivity|]. cbn [map].
  destruct (is_label a) eqn:LA.
  - destruct a; try discriminate LA. rewrite G1. cbn [find_label]. destruct (String.eqb l0 l); [reflexivity | exact IH].
  - pose proof (G2 a LA) as LG. destruct a; try discriminate LA; cbn [find_label];
      (destruct (g _); try discriminate LG; exact IH).
Qed.

Section Retarget.
Variable other : item -> lstack -> option lstack. (*section*)
Variable P : list item. (*section*)
Variable x y : string. (*section*)
Definition rv (v : sval) : sval := match v with SL l => if String.eqb l x then SL y else v | _ => v end.
Definition rs (st : lstack) : lstack := map rv st.
Notation rt := (map (retarget x y)).
(* the other instructions do not look at the names of label values *)
Hypothesis other_equiv : forall it st, other it (rs st) = option_map rs (other it st). (*section*)
(* LABEL x is directly followed by LABEL y, or by PUSHLABEL y JUMP *)
Hypothesis fwd : exists kx, find_label x P = Some kx /\ (*section*)
  ((exists ky, kx = Lbl y :: ky /\ find_label y P = Some ky) \/ exists r, kx = PushLbl y :: Op "JUMP" :: r).

Lemma find_label_rt l : find_label l (rt P) = option_map rt (find_label l P).
Proof.
  apply find_label_map; [reflexivity|]. intros a H. destruct a; try reflexivity; try discriminate H.
  cbn. destruct (String.eqb l0 x); reflexivity.
Qed.

Lemma retarget_sim fuel : forall k st h s,
  run other P fuel k st = Halted h s ->
  exists fuel', run other (rt P) fuel' (rt k) (rs st) = Halted h (rs s).
Proof.
  induction fuel as [fuel IH] using lt_wf_ind. intros k st h s H.
  destruct fuel as [|f]; [discriminate|]. cbn [run] in H.
  assert (STEP: forall k1 st1, run other P f k1 st1 = Halted h s ->
            exists f', run other (rt P) f' (rt k1) (rs st1) = Halted h (rs s)) by (intros; eapply (IH f); eauto).
  (* a jump of P to label l with stack st1, seen from the retargeted program holding (rv (SL l)) *)
  assert (JMP: forall l st1, match jump_to P l with Some k2 => run other P f k2 st1 | None => Stuck end = Halted h s ->
            exists f' l', rv (SL l) = SL l' /\
              match jump_to (rt P) l' with Some k2 => run other (rt P) f' k2 (rs st1) | None => Stuck end = Halted h (rs s)).
  { intros l st1 H1. unfold jump_to in *. cbn [rv]. destruct (String.eqb l x) eqn:EX.
    - apply String.eqb_eq in EX. subst l. destruct fwd as (kx & Fx & SH). rewrite Fx in H1.
      destruct SH as [(ky & -> & Fy) | [r ->]].
      + (* LABEL x LABEL y *) destruct f as [|f0]; [discriminate|]. cbn [run] in H1.
        destruct (IH f0 ltac:(lia) ky st1 h s H1) as [f' H']. exists f', y. split; [reflexivity|].
        rewrite find_label_rt, Fy. exact H'.
      + (* LABEL x PUSHLABEL y JUMP *) destruct f as [|[|f0]]; try discriminate. cbn in H1. unfold jump_to in H1.
        destruct (find_label y P) as [ky|] eqn:Fy; [|discriminate].
        destruct (IH f0 ltac:(lia) ky st1 h s H1) as [f' H']. exists f', y. split; [reflexivity|].
        rewrite find_label_rt, Fy. exact H'.
    - destruct (find_label l P) as [k2|] eqn:E; [|discriminate].
      destruct (STEP k2 st1 H1) as [f' H']. exists f', l. split; [reflexivity|]. rewrite find_label_rt, E. exact H'. }
  destruct k as [|a k']; [exists 1%nat; cbn; inversion H; reflexivity|].
  destruct a; cbn [map retarget].
  - (* Op *)
    destruct (String.eqb s0 "JUMP") eqn:EJ.
    { destruct st as [|[z|l] st']; try discriminate. destruct (JMP l st' H) as (f' & l' & RV & H').
      exists (S f'). cbn [run rs map]. rewrite EJ, RV. exact H'. }
    destruct (String.eqb s0 "JUMPI") eqn:EI.
    { destruct st as [|[z|l] [|[c|l2] st']]; try discriminate. destruct (c =? 0) eqn:EC.
      - destruct (STEP _ _ H) as [f' H']. exists (S f'). cbn [run rs map rv]. rewrite EJ, EI.
        destruct (String.eqb l x); cbn [rv]; rewrite EC; exact H'.
      - destruct (JMP l st' H) as (f' & l' & RV & H'). exists (S f'). cbn [run rs map]. rewrite EJ, EI, RV. cbn [rv]. rewrite EC. exact H'. }
    destruct (is_halt s0) eqn:EH.
    { exists 1%nat. cbn [run]. rewrite EJ, EI, EH. inversion H. reflexivity. }
    destruct (String.eqb s0 "ISZERO") eqn:EZ.
    { destruct st as [|[z|l] st']; try discriminate. destruct (STEP _ _ H) as [f' H']. exists (S f'). cbn [run rs map rv]. rewrite EJ, EI, EH, EZ. exact H'. }
    destruct (other (Op s0) st) as [st1|] eqn:EO; [|discriminate]. destruct (STEP _ _ H) as [f' H'].
    exists (S f'). cbn [run]. rewrite EJ, EI, EH, EZ, other_equiv, EO. exact H'.
  - destruct (other (Imm n) st) as [st1|] eqn:EO; [|discriminate]. destruct (STEP _ _ H) as [f' H']. exists (S f'). cbn [run]. rewrite other_equiv, EO. exact H'.
  - destruct (STEP _ _ H) as [f' H']. exists (S f'). exact H'.
  - (* PUSHLABEL *) destruct (STEP _ _ H) as [f' H']. exists (S f').
    destruct (String.eqb l x) eqn:EX; cbn [run]; cbn [rs map rv] in H'; rewrite EX in H'; exact H'.
  - destruct (other (PushOfst l n) st) as [st1|] eqn:EO; [|discriminate]. destruct (STEP _ _ H) as [f' H']. exists (S f'). cbn [run]. rewrite other_equiv, EO. exact H'.
  - exists 1%nat. cbn [run]. inversion H. reflexivity.
  - destruct (other (DataLbl l) st) as [st1|] eqn:EO; [|discriminate]. destruct (STEP _ _ H) as [f' H']. exists (S f'). cbn [run]. rewrite other_equiv, EO. exact H'.
  - destruct (other (Opaque s0) st) as [st1|] eqn:EO; [|discriminate]. destruct (STEP _ _ H) as [f' H']. exists (S f'). cbn [run]. rewrite other_equiv, EO. exact H'.
Qed.

Lemma obs_rs st : obs (rs st) = obs st.
Proof. unfold obs, rs. rewrite map_map. apply map_ext. intros [z|l]; cbn; [reflexivity|]. destruct (String.eqb l x); reflexivity. Qed.
Lemma rs_nolbl st : nolbl st -> rs st = st.
Proof.
  intros N. unfold rs. induction st as [|v t IH]; [reflexivity|]. cbn [map]. rewrite IH.
  - destruct v; [reflexivity|]. exfalso. apply (N l). left; reflexivity.
  - intros l H. apply (N l). right; exact H.
Qed.
Theorem retarget_sound : sound_rel other P (rt P).
Proof.
  intros fuel st h s N H. destruct (retarget_sim fuel P st h s H) as [f' H'].
  rewrite (rs_nolbl st N) in H'. exists f', (rs s). split; [exact H' | apply obs_rs].
Qed.
End Retarget.

(* ---- the pass ---- *)
Section MJ.
Variable other : item -> lstack -> option lstack. (*section*)
Hypothesis other_equiv : forall x y it st, other it (rs x y st) = option_map (rs x y) (other it st). (*section*)

Lemma labels_retarget x y l : labels (map (retarget x y) l) = labels l.
Proof.
  induction l as [|a t IH]; [reflexivity|]. destruct a; cbn [map retarget labels]; try exact IH.
  - rewrite IH. reflexivity.
  - destruct (String.eqb l x); cbn [labels]; exact IH.
Qed.
Lemma nth_split3 (l : list item) i a b :
  nth_error l i = Some a -> nth_error l (i + 1) = Some b ->
  exists pre rest, l = (pre ++ a :: b :: rest)%list.
Proof.
  intros H1 H2. destruct (nth_error_split l i H1) as (pre & rest & E & L). subst l.
  rewrite nth_error_app2 in H2 by lia. replace (i + 1 - List.length pre)%nat with 1%nat in H2 by lia.
  destruct rest as [|b' rest]; [discriminate|]. cbn in H2. inversion H2; subst. eauto.
Qed.

Lemma nth_split4 (l : list item) i a b d :
  nth_error l i = Some a -> nth_error l (i + 1) = Some b -> nth_error l (i + 2) = Some d ->
  exists pre rest, l = (pre ++ a :: b :: d :: rest)%list.
Proof.
  intros H1 H2 H3. destruct (nth_error_split l i H1) as (pre & rest & E & L). subst l.
  rewrite nth_error_app2 in H2 by lia. replace (i + 1 - List.length pre)%nat with 1%nat in H2 by lia.
  rewrite nth_error_app2 in H3 by lia. replace (i + 2 - List.length pre)%nat with 2%nat in H3 by lia.
  destruct rest as [|b' [|d' rest]]; try discriminate. cbn in H2, H3. inversion H2; inversion H3; subst. eauto.
Qed.

Lemma mj_loop_sound fuel : forall l i c,
  NoDup (labels l) -> sound_rel other l (snd (mj_loop fuel l i c)).
Proof.
  induction fuel as [|f IH]; intros l i c ND; [apply sound_rel_refl|]. cbn [mj_loop].
  destruct (Nat.ltb (i + 2) (List.length l)); [|apply sound_rel_refl].
  destruct (nth_error l i) as [a|] eqn:E0; [|apply IH; exact ND].
  destruct a; try (apply IH; exact ND).
  destruct (nth_error l (i + 1)) as [b|] eqn:E1; [|apply IH; exact ND].
  assert (RT: forall y, (exists kx, find_label l0 l = Some kx /\
             ((exists ky, kx = Lbl y :: ky /\ find_label y l = Some ky) \/ exists r, kx = PushLbl y :: Op "JUMP" :: r)) ->
           forall c', sound_rel other l (snd (mj_loop f (map (retarget l0 y) l) (S i) c'))).
  { intros y FW c'. eapply sound_rel_trans.
    - apply (retarget_sound other l l0 y (other_equiv l0 y) FW).
    - apply IH. rewrite labels_retarget. exact ND. }
  destruct b; try (apply IH; exact ND).
  - (* LABEL x LABEL y *)
    destruct (String.eqb l0 l1) eqn:EQ; [apply IH; exact ND|].
    destruct (nth_split3 l i _ _ E0 E1) as (pre & rest & EL).
    apply RT. exists (Lbl l1 :: rest). split.
    + apply (find_label_unique l pre l0 (Lbl l1 :: rest) ND EL).
    + left. exists rest. split; [reflexivity|].
      apply (find_label_unique l (pre ++ [Lbl l0]) l1 rest ND). rewrite <- app_assoc. exact EL.
  - (* LABEL x PUSHLABEL y JUMP *)
    destruct (nth_error l (i + 2)) as [d|] eqn:E2; [|apply IH; exact ND].
    destruct d; try (apply IH; exact ND).
    destruct (String.eqb s "JUMP") eqn:EJ; [|apply IH; exact ND]. apply String.eqb_eq in EJ. subst s.
    destruct (nth_split4 l i _ _ _ E0 E1 E2) as (pre & r & EL).
    apply RT. exists (PushLbl l1 :: Op "JUMP" :: r). split.
    + apply (find_label_unique l pre l0 _ ND EL).
    + right. eauto.
Qed.

Theorem merge_jumpdests_sound P : NoDup (labels P) -> sound_rel other P (snd (merge_jumpdests P)).
Proof. intros ND. apply mj_loop_sound. exact ND. Qed.
End MJ.

(* ================= _prune_unused_jumpdests ================= *)
Section Unused.
Variable other : item -> lstack -> option lstack. (*section*)
Variable P : list item. (*section*)
Definition used (l : string) : bool := existsb (uses l) P.
Definition keep (a : item) : bool := match a with Lbl z => used z | _ => true end.
Notation flt := (filter keep).
Definition SOK (st : lstack) : Prop := forall l, In (SL l) st -> used l = true.
Definition sfx (k : list item) : Prop := exists pre, P = (pre ++ k)%list.
(* label values on the stack come from the stack or from the instruction that pushes them *)
Hypothesis other_lbl : forall it st st' l, (*section*)
  other it st = Some st' -> In (SL l) st' -> In (SL l) st \/ uses l it = true.

Lemma prune_unused_eq : prune_unused_jumpdests P = flt P.
Proof. reflexivity. Qed.

Lemma sfx_tl a k : sfx (a :: k) -> sfx k.
Proof. intros [pre E]. exists (pre ++ [a])%list. rewrite <- app_assoc. exact E. Qed.
Lemma sfx_in a k : sfx (a :: k) -> In a P.
Proof. intros [pre E]. rewrite E. apply in_or_app. right. left. reflexivity. Qed.
Lemma find_label_sfx_gen l p k2 : find_label l p = Some k2 -> exists pre, p = (pre ++ k2)%list.
Proof.
  revert k2. induction p as [|a t IH]; intros k2 H; [discriminate|]. cbn [find_label] in H.
  assert (REC: find_label l t = Some k2 -> exists pre, a :: t = (pre ++ k2)%list).
  { intros H1. destruct (IH k2 H1) as [pre E]. exists (a :: pre). cbn. rewrite E. reflexivity. }
  destruct a; try (apply REC; exact H).
  destruct (String.eqb l0 l); [|apply REC; exact H]. inversion H; subst. exists [Lbl l0]. reflexivity.
Qed.
Lemma find_label_sfx l k2 : find_label l P = Some k2 -> sfx k2.
Proof. apply find_label_sfx_gen. Qed.
Lemma used_of_item l a : In a P -> uses l a = true -> used l = true.
Proof. intros I U. unfold used. apply existsb_exists. exists a. auto. Qed.

Lemma find_label_flt l p : used l = true -> find_label l (flt p) = option_map flt (find_label l p).
Proof.
  intros U. induction p as [|a t IH]; [reflexivity|]. cbn [filter].
  destruct a; cbn [keep find_label]; try exact IH.
  destruct (String.eqb l0 l) eqn:E.
  - apply String.eqb_eq in E. subst l0. rewrite U. cbn [find_label]. rewrite String.eqb_refl. reflexivity.
  - destruct (used l0); [cbn [find_label]; rewrite E|]; exact IH.
Qed.

Lemma unused_sim fuel : forall k st h s,
  sfx k -> SOK st -> run other P fuel k st = Halted h s ->
  exists fuel', run other (flt P) fuel' (flt k) st = Halted h s.
Proof.
  induction fuel as [|f IH]; intros k st h s SF SK H; [discriminate|]. cbn [run] in H.
  destruct k as [|a k']; [exists 1%nat; exact H|].
  pose proof (sfx_tl a k' SF) as SF'. pose proof (sfx_in a k' SF) as IA.
  assert (OTH: forall it st1, it = a -> keep it = true -> other it st = Some st1 ->
            run other P f k' st1 = Halted h s ->
            exists f', match other it st with Some st' => run other (flt P) f' (flt k') st' | None => Stuck end = Halted h s).
  { intros it st1 -> K EO H1. rewrite EO. apply (IH k' st1 h s SF'); [|exact H1].
    intros l I. destruct (other_lbl a st st1 l EO I) as [I2|U]; [apply SK; exact I2 | eapply used_of_item; eauto]. }
  assert (JMP: forall l st1, SOK st1 -> used l = true ->
            match jump_to P l with Some k2 => run other P f k2 st1 | None => Stuck end = Halted h s ->
            exists f', match jump_to (flt P) l with Some k2 => run other (flt P) f' k2 st1 | None => Stuck end = Halted h s).
  { intros l st1 S1 U H1. unfold jump_to in *. rewrite (find_label_flt l P U).
    destruct (find_label l P) as [k2|] eqn:E; [|discriminate]. cbn [option_map].
    apply (IH k2 st1 h s); auto. eapply find_label_sfx; eauto. }
  destruct a; cbn [filter keep].
  - (* Op *)
    destruct (String.eqb s0 "JUMP") eqn:EJ.
    { destruct st as [|[z|l] st']; try discriminate.
      destruct (JMP l st' ltac:(intros l2 I; apply SK; right; exact I) (SK l ltac:(left; reflexivity)) H) as [f' H'].
      exists (S f'). cbn [run]. rewrite EJ. exact H'. }
    destruct (String.eqb s0 "JUMPI") eqn:EI.
    { destruct st as [|[z|l] [|[c|l2] st']]; try discriminate.
      assert (S1: SOK st') by (intros l3 I; apply SK; right; right; exact I).
      destruct (c =? 0) eqn:EC.
      - destruct (IH k' st' h s SF' S1 H) as [f' H']. exists (S f'). cbn [run]. rewrite EJ, EI, EC. exact H'.
      - destruct (JMP l st' S1 (SK l ltac:(left; reflexivity)) H) as [f' H']. exists (S f'). cbn [run]. rewrite EJ, EI, EC. exact H'. }
    destruct (is_halt s0) eqn:EH.
    { exists 1%nat. cbn [run]. rewrite EJ, EI, EH. exact H. }
    destruct (String.eqb s0 "ISZERO") eqn:EZ.
    { destruct st as [|[z|l] st']; try discriminate.
      destruct (IH k' (SV (w_iszero z) :: st') h s SF') as [f' H']; [|exact H|].
      - intros l I. destruct I as [I|I]; [discriminate|]. apply SK. right; exact I.
      - exists (S f'). cbn [run]. rewrite EJ, EI, EH, EZ. exact H'. }
    destruct (other (Op s0) st) as [st1|] eqn:EO; [|discriminate].
    destruct (OTH (Op s0) st1 eq_refl eq_refl EO H) as [f' H']. exists (S f'). cbn [run]. rewrite EJ, EI, EH, EZ. exact H'.
  - destruct (other (Imm n) st) as [st1|] eqn:EO; [|discriminate].
    destruct (OTH (Imm n) st1 eq_refl eq_refl EO H) as [f' H']. exists (S f'). exact H'.
  - (* LABEL *) destruct (IH k' st h s SF' SK H) as [f' H'].
    destruct (used l); [exists (S f'); exact H' | exists f'; exact H'].
  - (* PUSHLABEL *) destruct (IH k' (SL l :: st) h s SF') as [f' H']; [|exact H|exists (S f'); exact H'].
    intros l2 I. destruct I as [I|I]; [|apply SK; exact I]. inversion I; subst.
    apply (used_of_item l2 (PushLbl l2) IA). cbn. apply String.eqb_refl.
  - destruct (other (PushOfst l n) st) as [st1|] eqn:EO; [|discriminate].
    destruct (OTH (PushOfst l n) st1 eq_refl eq_refl EO H) as [f' H']. exists (S f'). exact H'.
  - exists 1%nat. exact H.
  - destruct (other (DataLbl l) st) as [st1|] eqn:EO; [|discriminate].
    destruct (OTH (DataLbl l) st1 eq_refl eq_refl EO H) as [f' H']. exists (S f'). exact H'.
  - destruct (other (Opaque s0) st) as [st1|] eqn:EO; [|discriminate].
    destruct (OTH (Opaque s0) st1 eq_refl eq_refl EO H) as [f' H']. exists (S f'). exact H'.
Qed.

Theorem prune_unused_jumpdests_sound : sound_rel other P (prune_unused_jumpdests P).
Proof.
  intros fuel st h s N H. rewrite prune_unused_eq.
  destruct (unused_sim fuel P st h s ltac:(exists []; reflexivity) ltac:(intros l I; exfalso; apply (N l I)) H) as [f' H'].
  exists f', s. auto.
Qed.
End Unused.
