(* C15 round 2 (c): a labelled-program semantics for vyper assembly (code suffix + stack; jumps look the label
   up in the whole program; label values live on the stack) and the rewrite relation [T] that contains what the
   jump-related peephole passes do.  No proofs here. *)
From Coq Require Import ZArith Bool List String.
From Verif Require Import Base.Word256 Base.PyInt C15.Peephole C15.JumpOpt.
Import ListNotations.
Open Scope Z_scope.

Inductive sval := SV (z : Z) | SL (l : string).
Definition lstack := list sval.

Fixpoint find_label (l : string) (p : list item) : option (list item) :=
  match p with
  | [] => None
  | Lbl x :: t => if String.eqb x l then Some t else find_label l t
  | _ :: t => find_label l t
  end.

Definition halt_ops : list string := ["RETURN"; "REVERT"; "STOP"; "INVALID"]%string.
Definition is_halt (o : string) : bool := existsb (String.eqb o) halt_ops.

Inductive outcome := Halted (why : string) (st : lstack) | Stuck | NoFuel.

Section Run.
(* every instruction that is not a jump, halt, label, push-label or ISZERO: an arbitrary partial stack
   transformer (this includes SWAP/DUP/arithmetic, PUSH immediates, memory, calls ...) *)
Variable other : item -> lstack -> option lstack. (*section*)
Variable prog : list item. (*section*)

Definition jump_to (l : string) : option (list item) := find_label l prog.

Fixpoint run (fuel : nat) (k : list item) (st : lstack) : outcome :=
  match fuel with
  | O => NoFuel
  | S f =>
    match k with
    | [] => Halted "END" st
    | Lbl _ :: k' => run f k' st
    | PushLbl l :: k' => run f k' (SL l :: st)
    | DataHdr _ :: _ => Halted "DATA" st
    | Op o :: k' =>
        if String.eqb o "JUMP" then
          match st with
          | SL l :: st' => match jump_to l with Some k2 => run f k2 st' | None => Stuck end
          | _ => Stuck
          end
        else if String.eqb o "JUMPI" then
          match st with
          | SL l :: SV c :: st' =>
              if c =? 0 then run f k' st'
              else match jump_to l with Some k2 => run f k2 st' | None => Stuck end
          | _ => Stuck
          end
        else if is_halt o then Halted o st
        else if String.eqb o "ISZERO" then
          match st with SV a :: t => run f k' (SV (w_iszero a) :: t) | _ => Stuck end
        else match other (Op o) st with Some st' => run f k' st' | None => Stuck end
    | it :: k' => match other it st with Some st' => run f k' st' | None => Stuck end
    end
  end.
End Run.

(* straight-line items: no control transfer, no label *)
Definition plain (a : item) : bool :=
  match a with
  | Op o => negb (String.eqb o "JUMP" || String.eqb o "JUMPI" || is_halt o)
  | Lbl _ | DataHdr _ => false
  | _ => true
  end.
(* straight-line execution of plain items (ISZERO and PUSHLABEL as in [run]) *)
Fixpoint sexec (other : item -> lstack -> option lstack) (w : list item) (st : lstack) : option lstack :=
  match w with
  | [] => Some st
  | PushLbl l :: t => sexec other t (SL l :: st)
  | Op o :: t =>
      if String.eqb o "ISZERO" then match st with SV a :: r => sexec other t (SV (w_iszero a) :: r) | _ => None end
      else match other (Op o) st with Some st' => sexec other t st' | None => None end
  | it :: t => match other it st with Some st' => sexec other t st' | None => None end
  end.
Definition srefines (other : item -> lstack -> option lstack) (w w' : list item) : Prop :=
  forall st r, sexec other w st = Some r -> sexec other w' st = Some r.

(* the rewrite relation, relative to the source program P (for the rules that rely on where a label is) *)
Section Rel.
Variable other : item -> lstack -> option lstack. (*section*)
Variable P : list item. (*section*)
Inductive T : list item -> list item -> Prop :=
| T_nil : T [] []
| T_same a k k' : T k k' -> T (a :: k) (a :: k')
(* a label-free straight-line window replaced by one that refines it *)
| T_win w w' k k' :
    forallb plain w = true -> forallb plain w' = true -> srefines other w w' -> T k k' ->
    T (w ++ k) (w' ++ k')
(* ISZERO ISZERO PUSHLABEL l JUMPI -> PUSHLABEL l JUMPI *)
| T_izjumpi l k k' : T k k' ->
    T (Op "ISZERO" :: Op "ISZERO" :: PushLbl l :: Op "JUMPI" :: k) (PushLbl l :: Op "JUMPI" :: k')
(* code between a terminal instruction and the next label / data header is dead *)
| T_dead a junk k k' :
    is_terminal a = true -> forallb (fun x => negb (is_reach x)) junk = true ->
    T k k' -> T (a :: junk ++ k) (a :: k')
(* PUSHLABEL x JUMP LABEL x -> LABEL x *)
| T_jumpnext x k K' : find_label x P = Some k -> T (Lbl x :: k) K' ->
    T (PushLbl x :: Op "JUMP" :: Lbl x :: k) K'
(* PUSHLABEL c JUMPI PUSHLABEL x JUMP LABEL c -> ISZERO PUSHLABEL x JUMPI LABEL c *)
| T_cond c x k K' : find_label c P = Some k -> T (Lbl c :: k) K' ->
    T (PushLbl c :: Op "JUMPI" :: PushLbl x :: Op "JUMP" :: Lbl c :: k)
      (Op "ISZERO" :: PushLbl x :: Op "JUMPI" :: K').
End Rel.
