(* C15 round 3: unique_symbol bookkeeping.  The sanity check _check_symbols of _optimize (after a binop rewrite the
   rebuilt node must carry the same unique symbols) can never fire: every rewrite of _optimize_binop keeps each
   argument that carries symbols exactly once. *)
From Coq Require Import ZArith Bool List String Lia.
From Verif Require Import Base.Word256 Base.PyInt C15.Syntax C15.WordFacts C15.GenUtils C15.Optimizer C15.FoldSound
  C15.OptSound C15.OptTree C15.OptTreeSound.
Import ListNotations.
Open Scope Z_scope.

Definition disj (a b : list string) : Prop := forall z, In z a -> In z b -> False.
Lemma existsb_disj a b : disj a b -> existsb (fun x => existsb (String.eqb x) a) b = false.
Proof.
  intros D. apply not_true_is_false. intros H. apply existsb_exists in H. destruct H as (z & Zb & H).
  apply existsb_exists in H. destruct H as (w & Wa & E). apply String.eqb_eq in E. subst. eapply D; eauto.
Qed.

Lemma existsb_nil (s : list string) : existsb (fun _ : string => false) s = false.
Proof. induction s; cbn; auto. Qed.
(* usyms of the node shapes the templates build (none is unique_symbol / deploy) *)
Lemma usyms_un o a : usyms (Un o a) = (s <- usyms a ;; Ok s).
Proof. unfold Un. cbn [usyms]. destruct o; cbn; destruct (usyms a); cbn; rewrite ?existsb_nil; reflexivity. Qed.
Lemma usyms_seq1 a : usyms (Seq1 a) = (s <- usyms a ;; Ok s).
Proof. unfold Seq1. cbn. destruct (usyms a); cbn; rewrite ?existsb_nil; reflexivity. Qed.
Lemma usyms_bin o a b sa sb : usyms a = Ok sa -> usyms b = Ok sb ->
  usyms (Bin o a b) = if existsb (fun x => existsb (String.eqb x) sa) sb then Err KeyErr else Ok (sa ++ sb)%list.
Proof. intros Ha Hb. unfold Bin. cbn [usyms]. destruct o; cbn; rewrite Ha; cbn; rewrite existsb_nil, Hb; reflexivity. Qed.

Fixpoint tsyms (T : tmpl) (sx sy : list string) : list string :=
  match T with
  | TLit _ => [] | TX => sx | TY => sy
  | TUn _ t | TSeq1 t => tsyms t sx sy
  | TBin _ t1 t2 => (tsyms t1 sx sy ++ tsyms t2 sx sy)%list
  end.
Lemma tsyms_in T sx sy z : In z (tsyms T sx sy) ->
  (In z sx /\ (1 <= cntX T)%nat) \/ (In z sy /\ (1 <= cntY T)%nat).
Proof.
  induction T; cbn [tsyms cntX cntY]; intros H; try contradiction; auto.
  apply in_app_or in H. destruct H as [H|H]; [destruct (IHT1 H) as [[A B]|[A B]] | destruct (IHT2 H) as [[A B]|[A B]]];
    [left | right | left | right]; split; auto; lia.
Qed.

Lemma usyms_inst T x y sx sy :
  (cntX T <= 1)%nat -> (cntY T <= 1)%nat -> disj sx sy -> usyms x = Ok sx -> usyms y = Ok sy ->
  usyms (inst T x y) = Ok (tsyms T sx sy).
Proof.
  intros CX CY D Hx Hy. induction T; cbn [inst tsyms cntX cntY] in *; auto.
  - rewrite usyms_un, IHT by assumption. reflexivity.
  - rewrite (usyms_bin o _ _ _ _ (IHT1 ltac:(lia) ltac:(lia)) (IHT2 ltac:(lia) ltac:(lia))).
    rewrite existsb_disj; [reflexivity|]. intros z Z1 Z2.
    destruct (tsyms_in _ _ _ _ Z1) as [[A1 B1]|[A1 B1]], (tsyms_in _ _ _ _ Z2) as [[A2 B2]|[A2 B2]]; try lia.
    + eapply D; eauto.
    + eapply D; eauto.
  - rewrite usyms_seq1, IHT by assumption. reflexivity.
Qed.

(* every template of the rule cascade uses each slot at most once *)
Lemma cres_cnt_all c :
  (cntX (cres_tmpl c TX TY) <= 1 /\ cntY (cres_tmpl c TX TY) <= 1 /\
   cntX (cres_tmpl c TY TX) <= 1 /\ cntY (cres_tmpl c TY TX) <= 1)%nat.
Proof. destruct c; cbn; lia. Qed.
Lemma comparison_helper_cnt o x y ps T : comparison_helper o x y ps = Ok (Some T) -> (cntX T <= 1 /\ cntY T <= 1)%nat.
Proof.
  unfold comparison_helper. destruct (is_int x).
  - destruct (cmp_core (flip_cmp o) x ps) as [[c|]|]; cbn [bind]; intros H; inversion H. destruct (cres_cnt_all c). lia.
  - destruct (cmp_core o y ps) as [[c|]|]; cbn [bind]; intros H; inversion H. destruct (cres_cnt_all c). lia.
Qed.
Ltac fire_or_next :=
  match goal with
  | |- (if ?c then _ else _) = _ -> _ => destruct c; [intros HH; inversion HH; subst; cbn; lia|]
  end.
Lemma rules_tail_cnt o u x y pc T : rules_tail o u x y pc = Ok (Some T) -> (cntX T <= 1 /\ cntY T <= 1)%nat.
Proof.
  unfold rules_tail, rules_cmp. repeat fire_or_next.
  destruct (is_truthy pc).
  - destruct (bop_eqb o B_eq). { destruct u; intros HH; inversion HH; cbn; lia. }
    repeat fire_or_next. destruct (comparison o); [apply comparison_helper_cnt | discriminate].
  - destruct (comparison o); [apply comparison_helper_cnt | discriminate].
Qed.
Lemma rules_cnt o u x y pc T : rules o u x y pc = Ok (Some T) -> (cntX T <= 1 /\ cntY T <= 1)%nat.
Proof.
  unfold rules. do 8 fire_or_next.
  match goal with |- (if ?c then _ else _) = _ -> _ => destruct c end.
  { destruct (negb u); [discriminate|]. destruct o, y; intros HH; inversion HH; cbn; lia. }
  repeat fire_or_next.
  destruct y; try apply rules_tail_cnt.
  match goal with |- (if ?c then _ else _) = _ -> _ => destruct c end; [|apply rules_tail_cnt].
  destruct (negb u); [discriminate|]. destruct o; intros HH; inversion HH; cbn; lia.
Qed.

Lemma same_set_refl_perm (a b : list string) :
  (forall z, In z a <-> In z b) -> same_set a b = true.
Proof.
  intros H. unfold same_set. apply andb_true_iff. split; apply forallb_forall; intros z Hz;
    apply existsb_exists; exists z; (split; [apply H; exact Hz | apply String.eqb_refl]).
Qed.

Lemma noncomplex_usyms e : is_complex e = false -> usyms e = Ok [].
Proof. destruct e; cbn; intros; try discriminate; reflexivity. Qed.

(* the symbols of a rewritten binop are those of the original *)
Theorem opt_binop_syms o a b pc e' S :
  opt_binop o a b pc = Ok (Some e') -> usyms (Bin o a b) = Ok S ->
  exists S', usyms e' = Ok S' /\ same_set S S' = true.
Proof.
  intros H U. unfold opt_binop in H. destruct (arith o) as [[fn u]|]; [|discriminate].
  destruct (usyms a) as [sa|] eqn:Ua; [|unfold Bin in U; cbn [usyms] in U; destruct o; cbn in U; rewrite Ua in U; discriminate U].
  destruct (usyms b) as [sb|] eqn:Ub; [|unfold Bin in U; cbn [usyms] in U; destruct o; cbn in U; rewrite Ua in U; cbn in U; rewrite existsb_nil, Ub in U; discriminate U].
  rewrite (usyms_bin o a b sa sb Ua Ub) in U.
  destruct (existsb _ sb) eqn:EX; [discriminate|]. inversion U; subst S. clear U.
  assert (D: disj sa sb).
  { intros z Za Zb. assert (existsb (fun x => existsb (String.eqb x) sa) sb = true); [|congruence].
    apply existsb_exists. exists z. split; [exact Zb|]. apply existsb_exists. exists z. split; [exact Za | apply String.eqb_refl]. }
  assert (GEN: forall x y sx sy, usyms x = Ok sx -> usyms y = Ok sy -> disj sx sy ->
            (forall z, In z (sa ++ sb) <-> In z (sx ++ sy)) ->
            (t <- rules o u x y pc ;; Ok (match t with Some t => finalize x y t | None => None end)) = Ok (Some e') ->
            exists S', usyms e' = Ok S' /\ same_set (sa ++ sb) S' = true).
  { intros x y sx sy Ux Uy Dxy EQ HR. destruct (rules o u x y pc) as [[T|]|] eqn:ER; cbn [bind] in HR; try discriminate.
    inversion HR as [HF]. destruct (rules_cnt _ _ _ _ _ _ ER) as [CX CY].
    apply (finalize_inv) in HF. destruct HF as [-> [FX FY]].
    exists (tsyms T sx sy). split; [apply usyms_inst; auto|].
    apply same_set_refl_perm. intros z. rewrite EQ. split.
    - intros Hz. apply in_app_or in Hz. destruct Hz as [Hz|Hz].
      + destruct (cntX T) as [|[|n]] eqn:CT; [|clear FX|lia].
        * rewrite (noncomplex_usyms x (FX eq_refl)) in Ux. inversion Ux; subst. contradiction.
        * clear -Hz CT. induction T; cbn [tsyms cntX] in *; try discriminate; auto.
          apply in_or_app. destruct (cntX T1) eqn:C1; [right; apply IHT2; lia | left; apply IHT1; lia].
      + destruct (cntY T) as [|[|n]] eqn:CT; [|clear FY|lia].
        * rewrite (noncomplex_usyms y (FY eq_refl)) in Uy. inversion Uy; subst. contradiction.
        * clear -Hz CT. induction T; cbn [tsyms cntY] in *; try discriminate; auto.
          apply in_or_app. destruct (cntY T1) eqn:C1; [right; apply IHT2; lia | left; apply IHT1; lia].
    - intros Hz. destruct (tsyms_in _ _ _ _ Hz) as [[A _]|[A _]]; apply in_or_app; auto. }
  destruct a as [l| |]; destruct b as [r| |];
    try (destruct (commutative o && is_int _) eqn:CM;
         [eapply (GEN _ _ _ _ Ub Ua); eauto; [intros z Z1 Z2; eapply D; eauto | intros z; rewrite !in_app_iff; tauto]
         | eapply (GEN _ _ _ _ Ua Ub); eauto; intros z; tauto]).
  (* literal x literal *)
  destruct (fold o l r) as [w|]; cbn [bind] in H; [|discriminate]. cbn in H. inversion H; subst.
  cbn in Ua, Ub. inversion Ua; inversion Ub; subst. exists []. split; reflexivity.
Qed.

(* the "missing symbols" panic of _check_symbols is impossible: whenever the rebuilt node has symbols at all
   (its unique_symbols does not raise the non-unique panic), they are those of the optimised operands *)
Lemma usyms_bin_inv o a b S : usyms (Bin o a b) = Ok S ->
  exists sa sb, usyms a = Ok sa /\ usyms b = Ok sb /\ S = (sa ++ sb)%list.
Proof.
  intros U.
  destruct (usyms a) as [sa|] eqn:Ua; [|unfold Bin in U; cbn [usyms] in U; destruct o; cbn in U; rewrite Ua in U; discriminate U].
  destruct (usyms b) as [sb|] eqn:Ub; [|unfold Bin in U; cbn [usyms] in U; destruct o; cbn in U; rewrite Ua in U; cbn in U; rewrite existsb_nil, Ub in U; discriminate U].
  rewrite (usyms_bin o a b sa sb Ua Ub) in U. destruct (existsb _ sb); [discriminate|]. inversion U. eauto.
Qed.
Lemma usyms_inst_any T x y sx sy : usyms x = Ok sx -> usyms y = Ok sy ->
  forall S', usyms (inst T x y) = Ok S' -> S' = tsyms T sx sy.
Proof.
  intros Hx Hy. induction T; intros S' H; cbn [inst tsyms] in *; try congruence.
  - cbn in H. congruence.
  - rewrite usyms_un in H. destruct (usyms (inst T x y)) as [s|]; cbn [bind] in H; [|discriminate].
    inversion H; subst. apply IHT. reflexivity.
  - apply usyms_bin_inv in H. destruct H as (sa & sb & H1 & H2 & ->). rewrite (IHT1 _ H1), (IHT2 _ H2). reflexivity.
  - rewrite usyms_seq1 in H. destruct (usyms (inst T x y)) as [s|]; cbn [bind] in H; [|discriminate].
    inversion H; subst. apply IHT. reflexivity.
Qed.
Lemma tsyms_covers T sx sy z : (1 <= cntX T)%nat -> In z sx -> In z (tsyms T sx sy).
Proof.
  induction T; cbn [tsyms cntX]; intros C Hz; try lia; auto.
  apply in_or_app. destruct (cntX T1) eqn:C1; [right; apply IHT2; [lia | exact Hz] | left; apply IHT1; [lia | exact Hz]].
Qed.
Lemma tsyms_coversY T sx sy z : (1 <= cntY T)%nat -> In z sy -> In z (tsyms T sx sy).
Proof.
  induction T; cbn [tsyms cntY]; intros C Hz; try lia; auto.
  apply in_or_app. destruct (cntY T1) eqn:C1; [right; apply IHT2; [lia | exact Hz] | left; apply IHT1; [lia | exact Hz]].
Qed.
Theorem symbol_check_never_fires o a b pc e' st now :
  opt_binop o a b pc = Ok (Some e') -> usyms_union [a; b] = Ok st -> usyms e' = Ok now -> same_set st now = true.
Proof.
  intros H U N. cbn [usyms_union] in U.
  destruct (usyms a) as [sa|] eqn:Ua; cbn [bind] in U; [|discriminate].
  destruct (usyms b) as [sb|] eqn:Ub; cbn [bind] in U; [|discriminate]. inversion U; subst st. clear U.
  unfold opt_binop in H. destruct (arith o) as [[fn u]|]; [|discriminate].
  assert (GEN: forall x y sx sy, usyms x = Ok sx -> usyms y = Ok sy ->
            (forall z, In z (sa ++ sb ++ []) <-> In z (sx ++ sy)) ->
            (t <- rules o u x y pc ;; Ok (match t with Some t => finalize x y t | None => None end)) = Ok (Some e') ->
            same_set (sa ++ sb ++ []) now = true).
  { intros x y sx sy Ux Uy EQ HR. destruct (rules o u x y pc) as [[T|]|] eqn:ER; cbn [bind] in HR; try discriminate.
    inversion HR as [HF]. apply finalize_inv in HF. destruct HF as [-> [FX FY]].
    rewrite (usyms_inst_any T x y sx sy Ux Uy _ N).
    apply same_set_refl_perm. intros z. rewrite EQ. split.
    - intros Hz. apply in_app_or in Hz. destruct Hz as [Hz|Hz].
      + destruct (cntX T) eqn:CT; [|apply tsyms_covers; [lia | exact Hz]].
        rewrite (noncomplex_usyms x (FX eq_refl)) in Ux. inversion Ux; subst. contradiction.
      + destruct (cntY T) eqn:CT; [|apply tsyms_coversY; [lia | exact Hz]].
        rewrite (noncomplex_usyms y (FY eq_refl)) in Uy. inversion Uy; subst. contradiction.
    - intros Hz. destruct (tsyms_in _ _ _ _ Hz) as [[A _]|[A _]]; apply in_or_app; auto. }
  destruct a as [l| |]; destruct b as [r| |];
    try (destruct (commutative o && is_int _) eqn:CM;
         [eapply (GEN _ _ _ _ Ub Ua); eauto; intros z; rewrite !in_app_iff; cbn [In]; tauto
         | eapply (GEN _ _ _ _ Ua Ub); eauto; intros z; rewrite !in_app_iff; cbn [In]; tauto]).
  destruct (fold o l r) as [w|]; cbn [bind] in H; [|discriminate]. cbn in H. inversion H; subst.
  cbn in Ua, Ub, N. inversion Ua; inversion Ub; inversion N; subst. reflexivity.
Qed.

(* ---------- the whole optimiser never duplicates or invents a symbol ----------
   cnt z e: how many (unique_symbol z) markers e carries (deploy skips its second argument, like unique_symbols);
   a marker whose name argument is not a leaf is counted for every z (its name could change under rewriting). *)
Definition own_cnt (z op : string) (args : list expr) : nat :=
  if String.eqb op "unique_symbol" then
    match args with a :: _ => if is_complex a then 1 else if String.eqb (sym_name a) z then 1 else 0 | [] => 0 end
  else 0.
Definition is_dep (op : string) (n : nat) : bool := String.eqb op "deploy" && Nat.eqb n 3.
Fixpoint cnt (z : string) (e : expr) : nat :=
  match e with
  | Node op args =>
      own_cnt z op args +
      (fix go (l : list expr) (i : nat) : nat :=
         match l with
         | [] => 0
         | c :: t => (if is_dep op (List.length args) && Nat.eqb i 1 then 0 else cnt z c) + go t (S i)
         end) args 0
  | _ => 0
  end%nat.
Fixpoint cntl (z : string) (skip : bool) (i : nat) (l : list expr) : nat :=
  match l with [] => 0 | c :: t => (if skip && Nat.eqb i 1 then 0 else cnt z c) + cntl z skip (S i) t end%nat.
Definition sumc (z : string) (l : list expr) : nat := cntl z false 0 l.

Lemma cnt_node z op args : cnt z (Node op args) = (own_cnt z op args + cntl z (is_dep op (List.length args)) 0 args)%nat.
Proof.
  cbn [cnt]. f_equal. set (skip := is_dep op (List.length args)). clearbody skip.
  assert (G: forall l i, (fix go (l : list expr) (i : nat) : nat :=
         match l with
         | [] => 0
         | c :: t => (if skip && Nat.eqb i 1 then 0 else cnt z c) + go t (S i)
         end%nat) l i = cntl z skip i l).
  { induction l as [|c t IH]; intros i; [reflexivity|]. cbn [cntl]. rewrite IH. reflexivity. }
  apply G.
Qed.
Lemma cntl_false z l : forall i, cntl z false i l = cntl z false 0 l.
Proof. induction l as [|c t IH]; intros i; [reflexivity|]. cbn [cntl andb]. rewrite (IH (S i)), (IH 1%nat). reflexivity. Qed.
Lemma sumc_nil z : sumc z [] = 0%nat. Proof. reflexivity. Qed.
Lemma sumc_cons z a l : sumc z (a :: l) = (cnt z a + sumc z l)%nat.
Proof. unfold sumc. cbn [cntl andb]. rewrite cntl_false. reflexivity. Qed.
Lemma sumc_app z a b : sumc z (a ++ b) = (sumc z a + sumc z b)%nat.
Proof. induction a as [|x t IH]; [reflexivity|]. cbn [app]. rewrite !sumc_cons, IH. lia. Qed.
Lemma cnt_plain z op l : String.eqb op "unique_symbol" = false -> String.eqb op "deploy" = false ->
  cnt z (Node op l) = sumc z l.
Proof. intros H1 H2. rewrite cnt_node. unfold own_cnt, is_dep. rewrite H1, H2. reflexivity. Qed.
Lemma cnt_bin z o a b : cnt z (Bin o a b) = (cnt z a + cnt z b)%nat.
Proof. unfold Bin. rewrite cnt_plain by (destruct o; reflexivity). rewrite !sumc_cons, sumc_nil. lia. Qed.
Lemma cnt_un z o a : cnt z (Un o a) = cnt z a.
Proof. unfold Un. rewrite cnt_plain by (destruct o; reflexivity). rewrite !sumc_cons, sumc_nil. lia. Qed.
Lemma cnt_seq1 z a : cnt z (Seq1 a) = cnt z a.
Proof. unfold Seq1. rewrite cnt_plain by reflexivity. rewrite !sumc_cons, sumc_nil. lia. Qed.

Lemma cnt_inst z T x y : cnt z (inst T x y) = (cntX T * cnt z x + cntY T * cnt z y)%nat.
Proof.
  induction T; cbn [inst cntX cntY]; rewrite ?cnt_un, ?cnt_bin, ?cnt_seq1, ?IHT, ?IHT1, ?IHT2; cbn [cnt]; lia.
Qed.

Lemma opt_binop_cnt z o a b pc e' : opt_binop o a b pc = Ok (Some e') -> (cnt z e' <= cnt z (Bin o a b))%nat.
Proof.
  intros H. rewrite cnt_bin. unfold opt_binop in H. destruct (arith o) as [[fn u]|]; [|discriminate].
  assert (GEN: forall x y, (cnt z x + cnt z y = cnt z a + cnt z b)%nat ->
            (t <- rules o u x y pc ;; Ok (match t with Some t => finalize x y t | None => None end)) = Ok (Some e') ->
            (cnt z e' <= cnt z a + cnt z b)%nat).
  { intros x y EQ HR. destruct (rules o u x y pc) as [[T|]|] eqn:ER; cbn [bind] in HR; try discriminate.
    inversion HR as [HF]. destruct (rules_cnt _ _ _ _ _ _ ER) as [CX CY].
    apply finalize_inv in HF. destruct HF as [-> _]. rewrite cnt_inst, <- EQ. nia. }
  destruct a as [l| |]; destruct b as [r| |];
    try (destruct (commutative o && is_int _) eqn:CM; apply GEN in H; [exact H | lia | exact H | lia]).
  destruct (fold o l r) as [w|]; cbn [bind] in H; [|discriminate]. cbn in H. inversion H; subst. cbn. lia.
Qed.

(* --- the merge passes --- *)
Lemma firstn_skipn_cnt z : forall a b l, (sumc z (firstn a l) + sumc z (skipn (a + b) l) <= sumc z l)%nat.
Proof.
  induction a as [|a IH]; intros b l.
  - cbn [firstn plus]. rewrite sumc_nil. revert l. induction b as [|b IHb]; intros l; [cbn [skipn]; lia|].
    destruct l as [|e l]; cbn [skipn]; [rewrite sumc_nil; lia|]. rewrite sumc_cons. specialize (IHb l). lia.
  - destruct l as [|e l]; cbn [firstn plus skipn]; [rewrite sumc_nil; lia|]. rewrite !sumc_cons. specialize (IH b l). lia.
Qed.
Lemma splice_cnt z l idx n new : cnt z new = 0%nat -> (sumc z (splice l idx n new) <= sumc z l)%nat.
Proof. intros H. unfold splice. rewrite sumc_app, sumc_cons, H. pose proof (firstn_skipn_cnt z idx n l). lia. Qed.
Lemma g_loop_cnt z sp : (forall d s t, cnt z (ms_mk sp d s t) = 0%nat) ->
  forall fuel l i r c c' l', g_loop sp fuel l i r c = Ok (c', l') -> (sumc z l' <= sumc z l)%nat.
Proof.
  intros MK. induction fuel as [|f IH]; intros l i r c c' l' H; [discriminate|]. cbn [g_loop] in H.
  destruct (nth_error l i); [|inversion H; subst; lia].
  match type of H with (let '(r1, cont) := ?X in _) = _ => destruct X as [r1 cont] end.
  destruct cont; [eapply IH; eauto|]. destruct (Nat.ltb 1 (r_n r1)); [|eapply IH; eauto].
  destruct (lit_okb (r_total r1)); [|discriminate]. apply IH in H.
  pose proof (splice_cnt z l (r_idx r1) (r_n r1) _ (MK (r_dst r1) (r_src r1) (r_total r1))). lia.
Qed.
Lemma g_merge_cnt z sp l c l' : (forall d s t, cnt z (ms_mk sp d s t) = 0%nat) ->
  g_merge sp l = Ok (c, l') -> (sumc z l' <= sumc z l)%nat.
Proof. intros MK. unfold g_merge. destruct (forallb (node_safe sp) l); [apply g_loop_cnt; exact MK | discriminate]. Qed.
Lemma rewrite_dload1_cnt z e : (cnt z (snd (rewrite_dload1 e)) <= cnt z e)%nat.
Proof.
  destruct e as [v|x|op [|dst [|[v|x|ld [|src [|? ?]]] [|? ?]]]]; cbn [rewrite_dload1 snd]; try lia.
  destruct (String.eqb op "mstore") eqn:E1; cbn [andb snd]; [|lia].
  destruct (String.eqb ld "dload") eqn:E2; cbn [snd]; [|lia].
  apply String.eqb_eq in E1, E2. subst.
  rewrite !cnt_plain by reflexivity. rewrite !sumc_cons, !sumc_nil. rewrite cnt_plain by reflexivity.
  rewrite !sumc_cons, !sumc_nil. cbn. lia.
Qed.
Lemma rewrite_mstore_dload_cnt z l : (sumc z (snd (rewrite_mstore_dload l)) <= sumc z l)%nat.
Proof.
  unfold rewrite_mstore_dload. cbn [snd]. induction l as [|e t IH]; [cbn; lia|].
  cbn [map]. rewrite !sumc_cons. pose proof (rewrite_dload1_cnt z e). lia.
Qed.
Lemma remove_empty_seqs_cnt z l : (sumc z (snd (remove_empty_seqs l)) <= sumc z l)%nat.
Proof.
  induction l as [|x t IH]; [cbn; lia|]. destruct t as [|y t]; [cbn [remove_empty_seqs snd]; lia|].
  change (remove_empty_seqs (x :: y :: t)) with
    (let '(c, t') := remove_empty_seqs (y :: t) in if is_empty_seq x then (true, t') else (c, x :: t')).
  destruct (remove_empty_seqs (y :: t)) as [c t']. cbn [snd] in IH.
  rewrite (sumc_cons z x (y :: t)). destruct (is_empty_seq x); cbn [snd]; rewrite ?(sumc_cons z x t'); lia.
Qed.
Lemma merges_cnt z cancun l c l' : merges cancun l = Ok (c, l') -> (sumc z l' <= sumc z l)%nat.
Proof.
  unfold merges, merge_memzero, merge_load. intros H.
  destruct (g_merge sp_memzero l) as [[c1 l1]|] eqn:M1; cbn [bind] in H; [|discriminate].
  destruct (g_merge (sp_load "calldataload" "calldatacopy" true) l1) as [[c2 l2]|] eqn:M2; cbn [bind] in H; [|discriminate].
  destruct (g_merge (sp_load "dload" "dloadbytes" true) l2) as [[c3 l3]|] eqn:M3; cbn [bind] in H; [|discriminate].
  pose proof (rewrite_mstore_dload_cnt z l3) as M4.
  destruct (rewrite_mstore_dload l3) as [c4 l4]. cbn [snd] in M4.
  assert (M5: forall c5 l5, (if cancun then g_merge (sp_load "mload" "mcopy" false) l4 else Ok (false, l4)) = Ok (c5, l5) ->
               (sumc z l5 <= sumc z l4)%nat).
  { intros c5 l5 H5. destruct cancun; [|inversion H5; subst; lia].
    eapply g_merge_cnt; [|exact H5]. intros; reflexivity. }
  destruct (if cancun then _ else _) as [[c5 l5]|]; cbn [bind] in H; [|discriminate].
  specialize (M5 _ _ eq_refl).
  pose proof (remove_empty_seqs_cnt z l5) as M6. destruct (remove_empty_seqs l5) as [c6 l6]. cbn [snd] in M6.
  inversion H; subst.
  apply (g_merge_cnt z) in M1; [|intros; reflexivity]. apply (g_merge_cnt z) in M2; [|intros; reflexivity].
  apply (g_merge_cnt z) in M3; [|intros; reflexivity]. lia.
Qed.

(* --- the rule part of _optimize --- *)
Lemma top_rule_cnt z cancun pc op argz :
  match top_rule cancun pc op argz with
  | ARe _ new => (cnt z new <= cnt z (Node op argz))%nat
  | ASingle x => (cnt z x <= cnt z (Node op argz))%nat
  | _ => True
  end.
Proof.
  unfold top_rule. pose proof (kind_of_name op) as KN. destruct (kind_of op) eqn:K; cbn [kind_name] in KN; try exact I.
  - subst op. destruct (arith o) eqn:A.
    + destruct argz as [|a [|b [|? ?]]]; try exact I.
      destruct (opt_binop o a b pc) as [[e'|]|] eqn:OB; try exact I. apply opt_binop_cnt with (pc := pc). exact OB.
    + destruct argz as [|a [|b [|? ?]]]; try exact I. destruct (is_lit0 a); [|exact I].
      change (Node (bop_name o) [a; b]) with (Bin o a b). rewrite cnt_bin. lia.
  - destruct o; try exact I. destruct argz as [|[v|x|? ?] [|? ?]]; try exact I. cbn. lia.
  - destruct argz as [|[v|x|? ?] [|? ?]]; try exact I. destruct (lit_okb (ceil32_py v)); [cbn; lia | exact I].
  - subst op. destruct (merges cancun argz) as [[c l]|] eqn:M; [|exact I]. apply (merges_cnt z) in M.
    rewrite (cnt_plain z "seq" argz) by reflexivity.
    destruct l as [|x [|y t]]; [| rewrite sumc_cons, sumc_nil in M; lia |]; rewrite cnt_plain by reflexivity; exact M.
  - subst op. rewrite (cnt_plain z "if" argz) by reflexivity.
    destruct argz as [|c [|t [|fl [|? ?]]]]; try exact I; destruct c as [v|x|cop cargs]; try exact I;
      cbn [head_is]; try (destruct (evm_int true v =? 0)); try (destruct (existsb _ _)); try exact I;
      repeat (rewrite cnt_plain by reflexivity; rewrite ?sumc_cons, ?sumc_nil); lia.
  - destruct argz as [|[v|x|? ?] [|? ?]]; try exact I. destruct (evm_int true v =? 0); [exact I | cbn; lia].
  - destruct argz as [|[v|x|? ?] [|? ?]]; try exact I. destruct (evm_int true v =? 0); [exact I | cbn; lia].
Qed.

(* --- the driver --- *)
Definition R (a a' : expr) : Prop := (forall z, (cnt z a' <= cnt z a)%nat) /\ (is_complex a = false -> a' = a).
Lemma cntl_mono z skip : forall l l', Forall2 R l l' -> forall i, (cntl z skip i l' <= cntl z skip i l)%nat.
Proof.
  induction 1 as [|a a' l l' [Ra _] F IH]; intros i; [cbn; lia|]. cbn [cntl]. specialize (IH (S i)). specialize (Ra z).
  destruct (skip && Nat.eqb i 1); lia.
Qed.
Lemma own_mono z op l l' : Forall2 R l l' -> (own_cnt z op l' <= own_cnt z op l)%nat.
Proof.
  intros F. unfold own_cnt. destruct (String.eqb op "unique_symbol"); [|lia].
  destruct F as [|a a' l l' [_ Rb] F]; [lia|]. destruct (is_complex a) eqn:C.
  - destruct (is_complex a'); [lia|]. destruct (String.eqb (sym_name a') z); lia.
  - rewrite (Rb eq_refl), C. lia.
Qed.
Lemma F2_length {A B} (P : A -> B -> Prop) l l' : Forall2 P l l' -> List.length l = List.length l'.
Proof. induction 1; cbn; congruence. Qed.
Lemma node_mono z op l l' : Forall2 R l l' -> (cnt z (Node op l') <= cnt z (Node op l))%nat.
Proof.
  intros F. rewrite !cnt_node. pose proof (own_mono z op l l' F).
  rewrite <- (F2_length _ _ _ F). pose proof (cntl_mono z (is_dep op (List.length l)) l l' F 0%nat). lia.
Qed.
Lemma mapi_res_R (g : nat -> expr -> res (bool * expr)) :
  (forall j a r, g j a = Ok r -> R a (snd r)) ->
  forall l i rs, mapi_res g i l = Ok rs -> Forall2 R l (map snd rs).
Proof.
  intros G. induction l as [|a t IH]; intros i rs H; cbn [mapi_res] in H; [inversion H; constructor|].
  destruct (g i a) as [y|] eqn:Ga; cbn [bind] in H; [|discriminate].
  destruct (mapi_res g (S i) t) as [ys|] eqn:Gt; cbn [bind] in H; [|discriminate].
  inversion H; subst. cbn [map]. constructor; [eapply G; eauto | eapply IH; eauto].
Qed.

Theorem opt_R fuel : forall cancun pc e r, opt fuel cancun pc e = Ok r -> R e (snd r).
Proof.
  induction fuel as [|f IH]; intros cancun pc e r H; [discriminate|].
  destruct e as [v|x|op args]; try (cbn in H; inversion H; split; [intros; cbn; lia | reflexivity]).
  cbn [opt] in H.
  destruct (usyms (Node op args)) as [starting|]; cbn [bind] in H; [|discriminate].
  destruct (mapi_res (fun i a => opt f cancun (pc_of op i) a) 0 args) as [rs|] eqn:MR; cbn [bind] in H; [|discriminate].
  apply (mapi_res_R _ (fun j a r Hr => IH cancun (pc_of op j) a r Hr)) in MR.
  split; [|cbn; discriminate]. intros z.
  pose proof (node_mono z op _ _ MR) as NM. pose proof (top_rule_cnt z cancun pc op (map snd rs)) as TR.
  set (argz := map snd rs) in *. set (ac := existsb fst rs) in *.
  assert (REC: forall new r, (r1 <- opt f cancun pc new ;; Ok (true, snd r1)) = Ok r ->
            (cnt z new <= cnt z (Node op argz))%nat -> (cnt z (snd r) <= cnt z (Node op args))%nat).
  { intros new r0 Hr Hn. destruct (opt f cancun pc new) as [r1|] eqn:ON; cbn [bind] in Hr; [|discriminate].
    inversion Hr; subst. cbn [snd]. apply IH in ON. destruct ON as [Q _]. specialize (Q z). lia. }
  assert (FIN: forall c new r, fin_ (opt f cancun pc) (Node op args) ac c new = Ok r ->
            (cnt z new <= cnt z (Node op argz))%nat -> (cnt z (snd r) <= cnt z (Node op args))%nat).
  { intros c new r0 Hr Hn. unfold fin_ in Hr. destruct (negb c && negb ac); [inversion Hr; cbn [snd]; lia|].
    eapply REC; eauto. }
  destruct (top_rule cancun pc op argz) as [|c new|x|er].
  - eapply FIN; eauto.
  - match type of H with (if ?c then _ else _) = _ => destruct c end; [|eapply FIN; eauto].
    destruct (usyms_union argz) as [st|]; cbn [bind] in H; [|discriminate].
    destruct (usyms new) as [now|]; cbn [bind] in H; [|discriminate].
    destruct (same_set st now); [eapply FIN; eauto | discriminate].
  - eapply REC; eauto.
  - discriminate.
Qed.

(* --- unique_symbols (the python property, with its CompilerPanic) against the counts --- *)
Fixpoint symleaf (e : expr) : bool :=
  match e with
  | Node op args =>
      (negb (String.eqb op "unique_symbol") || match args with a :: _ => negb (is_complex a) | [] => true end)
      && forallb symleaf args
  | _ => true
  end.
Notation occ := (count_occ string_dec).
Lemma occ_app (a b : list string) z : occ (a ++ b) z = (occ a z + occ b z)%nat.
Proof. apply count_occ_app. Qed.
Lemma occ_one n z : occ [n] z = if String.eqb n z then 1%nat else 0%nat.
Proof. cbn. destruct (string_dec n z) as [->|N]; [rewrite String.eqb_refl; reflexivity|].
  destruct (String.eqb_spec n z); [contradiction | reflexivity]. Qed.
Lemma existsb_occ (acc s : list string) :
  existsb (fun x => existsb (String.eqb x) acc) s = false -> forall z, (1 <= occ acc z)%nat -> (1 <= occ s z)%nat -> False.
Proof.
  intros E z A B. apply count_occ_In in A, B. assert (existsb (fun x => existsb (String.eqb x) acc) s = true); [|congruence].
  apply existsb_exists. exists z. split; [exact B|]. apply existsb_exists. exists z. split; [exact A | apply String.eqb_refl].
Qed.
Lemma occ_existsb (acc s : list string) :
  (forall z, (occ acc z + occ s z <= 1)%nat) -> existsb (fun x => existsb (String.eqb x) acc) s = false.
Proof.
  intros H. apply not_true_is_false. intros E. apply existsb_exists in E. destruct E as (z & Zs & E).
  apply existsb_exists in E. destruct E as (w & Wa & E). apply String.eqb_eq in E. subst w.
  apply (count_occ_In string_dec) in Zs, Wa. specialize (H z). lia.
Qed.

Ltac open_usyms H op args own skip1 :=
  cbn [usyms] in H;
  set (own := if String.eqb op "unique_symbol" then match args with a :: _ => [sym_name a] | [] => [] end else []) in H;
  set (skip1 := String.eqb op "deploy" && Nat.eqb (List.length args) 3) in H.

(* (A) on trees whose markers are named by leaves, a successful unique_symbols is exactly the count, and no name
   occurs twice *)
Lemma usyms_count e : symleaf e = true -> forall sy, usyms e = Ok sy ->
  forall z, occ sy z = cnt z e /\ (occ sy z <= 1)%nat.
Proof.
  induction e as [v|x|op args IH] using expr_ind2; intros SL sy H z; try (inversion H; cbn; split; lia).
  rewrite cnt_node. cbn [symleaf] in SL. apply andb_true_iff in SL. destruct SL as [SL1 SL2].
  assert (OWN: forall z, occ (if String.eqb op "unique_symbol" then match args with a :: _ => [sym_name a] | [] => [] end else []) z
                 = own_cnt z op args /\
               (occ (if String.eqb op "unique_symbol" then match args with a :: _ => [sym_name a] | [] => [] end else []) z <= 1)%nat).
  { intros z0. unfold own_cnt. destruct (String.eqb op "unique_symbol"); [|cbn; lia].
    destruct args as [|a t]; [cbn; lia|]. cbn [negb orb] in SL1. apply negb_true_iff in SL1. rewrite SL1, occ_one.
    destruct (String.eqb (sym_name a) z0); lia. }
  unfold is_dep.
  open_usyms H op args own skip1. fold own in OWN. fold skip1. clearbody own skip1.
  assert (G: forall l, Forall (fun e => symleaf e = true -> forall sy, usyms e = Ok sy ->
                                 forall z, occ sy z = cnt z e /\ (occ sy z <= 1)%nat) l ->
     forallb symleaf l = true -> forall i acc sy, (forall z, (occ acc z <= 1)%nat) ->
     (fix go (l : list expr) (i : nat) (acc : list string) : res (list string) :=
         match l with
         | [] => Ok acc
         | c :: t =>
             if skip1 && Nat.eqb i 1 then go t (S i) acc else
             s <- usyms c ;;
             if existsb (fun x => existsb (String.eqb x) acc) s then Err KeyErr else go t (S i) (acc ++ s)%list
         end) l i acc = Ok sy ->
     forall z, occ sy z = (occ acc z + cntl z skip1 i l)%nat /\ (occ sy z <= 1)%nat).
  { clear. induction 1 as [|c t Hc Ht IHt]; intros SL i acc sy A H z.
    - inversion H; subst. cbn [cntl]. split; [lia | apply A].
    - cbn [forallb] in SL. apply andb_true_iff in SL. destruct SL as [Sc St]. cbn [cntl].
      destruct (skip1 && Nat.eqb i 1). { apply (IHt St _ _ _ A H). }
      destruct (usyms c) as [sc|] eqn:E; cbn [bind] in H; [|discriminate].
      destruct (existsb _ sc) eqn:EX; [discriminate|].
      assert (A': forall z, (occ (acc ++ sc) z <= 1)%nat).
      { intros z0. rewrite occ_app. pose proof (A z0). destruct (Hc Sc _ eq_refl z0) as [_ B].
        pose proof (existsb_occ _ _ EX z0). lia. }
      destruct (IHt St _ _ _ A' H z) as [Q1 Q2]. split; [|exact Q2].
      rewrite Q1, occ_app. destruct (Hc Sc _ eq_refl z) as [B _]. lia. }
  destruct (G args IH SL2 0%nat own sy (fun z0 => proj2 (OWN z0)) H z) as [Q1 Q2].
  split; [|exact Q2]. rewrite Q1. rewrite (proj1 (OWN z)). reflexivity.
Qed.

(* (B) if no name is counted twice, unique_symbols succeeds and is bounded by the counts *)
Lemma cnt_usyms e : (forall z, (cnt z e <= 1)%nat) -> exists sy, usyms e = Ok sy /\ forall z, (occ sy z <= cnt z e)%nat.
Proof.
  induction e as [v|x|op args IH] using expr_ind2; intros C; try (exists []; split; [reflexivity | intros; cbn; lia]).
  assert (OWN: forall z, (occ (if String.eqb op "unique_symbol" then match args with a :: _ => [sym_name a] | [] => [] end else []) z
                 <= own_cnt z op args)%nat).
  { intros z0. unfold own_cnt. destruct (String.eqb op "unique_symbol"); [|cbn; lia].
    destruct args as [|a t]; [cbn; lia|]. rewrite occ_one. destruct (is_complex a); destruct (String.eqb (sym_name a) z0); lia. }
  assert (C': forall z, (own_cnt z op args + cntl z (is_dep op (List.length args)) 0 args <= 1)%nat).
  { intros z0. rewrite <- cnt_node. apply C. }
  cbn [usyms]. unfold is_dep in C'.
  set (own := if String.eqb op "unique_symbol" then match args with a :: _ => [sym_name a] | [] => [] end else []) in *.
  set (skip1 := String.eqb op "deploy" && Nat.eqb (List.length args) 3) in *.
  assert (G: forall l, Forall (fun e => (forall z, (cnt z e <= 1)%nat) ->
                                 exists sy, usyms e = Ok sy /\ forall z, (occ sy z <= cnt z e)%nat) l ->
     forall i acc (b : string -> nat), (forall z, (occ acc z <= b z)%nat) -> (forall z, (b z + cntl z skip1 i l <= 1)%nat) ->
     exists sy, (fix go (l : list expr) (i : nat) (acc : list string) : res (list string) :=
         match l with
         | [] => Ok acc
         | c :: t =>
             if skip1 && Nat.eqb i 1 then go t (S i) acc else
             s <- usyms c ;;
             if existsb (fun x => existsb (String.eqb x) acc) s then Err KeyErr else go t (S i) (acc ++ s)%list
         end) l i acc = Ok sy /\ forall z, (occ sy z <= b z + cntl z skip1 i l)%nat).
  { clear. induction 1 as [|c t Hc Ht IHt]; intros i acc b A B.
    - exists acc. split; [reflexivity|]. intros z. specialize (A z). lia.
    - cbn [cntl] in *. destruct (skip1 && Nat.eqb i 1).
      { destruct (IHt (S i) acc b A) as (sy & E & Q); [intros z; specialize (B z); lia|]. exists sy. split; [exact E|].
        intros z. specialize (Q z). lia. }
      destruct Hc as (sc & E & Qc); [intros z; specialize (B z); lia|]. rewrite E. cbn [bind].
      rewrite occ_existsb; [|intros z; specialize (A z); specialize (B z); specialize (Qc z); lia].
      destruct (IHt (S i) (acc ++ sc)%list (fun z => (b z + cnt z c)%nat)) as (sy & ES & Q).
      + intros z. rewrite occ_app. specialize (A z). specialize (Qc z). lia.
      + intros z. specialize (B z). lia.
      + exists sy. split; [exact ES|]. intros z. specialize (Q z). lia. }
  destruct (G args IH 0%nat own (fun z => own_cnt z op args) OWN C') as (sy & E & Q).
  exists sy. split; [exact E|]. intros z. rewrite cnt_node. unfold is_dep. fold skip1. apply Q.
Qed.

(* optimize never duplicates, renames or invents a unique symbol: if the input's unique_symbols succeeds (markers
   named by leaves, as all front-end markers are), so does the output's, with a subset.  Hence IR-to-assembly's
   duplicate-label check cannot fail because of the optimiser. *)
Theorem optimize_syms cancun e e' sy :
  symleaf e = true -> usyms e = Ok sy -> optimize cancun e = Ok e' ->
  exists sy', usyms e' = Ok sy' /\ incl sy' sy.
Proof.
  unfold optimize. intros SL U H. destruct (opt 64 cancun PNone e) as [r|] eqn:O; [|discriminate].
  cbn [bind] in H. inversion H; subst e'. clear H. destruct (opt_R 64 cancun PNone e r O) as [Q _]. clear O.
  pose proof (usyms_count e SL sy U) as A.
  destruct (cnt_usyms (snd r)) as (sy' & U' & B).
  { intros z. specialize (Q z). destruct (A z) as [A1 A2]. lia. }
  exists sy'. split; [exact U'|]. intros z Hz. apply (count_occ_In string_dec) in Hz.
  apply (count_occ_In string_dec). specialize (B z). specialize (Q z). destruct (A z) as [A1 _]. lia.
Qed.
