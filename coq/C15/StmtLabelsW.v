(* C15 extension (session 3): StmtLabels.v for the fragment with `with` / `set` (fragW): whole lowered programs place pairwise
   distinct labels and contain the shared revert block, so the program-level statement needs no label hypothesis. *)
From Coq Require Import ZArith Bool List String Lia PeanoNat Permutation.
From Verif Require Import Base.Word256 Base.PyInt C15.Syntax C15.WordFacts C15.GenUtils C15.Peephole C15.Lower C15.LowerSound
  C15.OptSound C15.OptTree C15.OptTreeSound C15.LowerFlow C15.FlowSound C15.StmtSound C15.StmtLabels C15.SemW C15.StmtSoundW.
Import ListNotations.
Open Scope nat_scope.

Local Opaque push.
(* the lowering of the fragment places exactly the labels it creates, once each *)
Definition LSpecW (rec : nat -> expr -> lst -> res (list item * lst)) : Prop :=
  forall h e s code s', rec h e s = Ok (code, s') -> fragW e -> kinv s ->
    exists pl, J s s' pl /\ Permutation pl (lbls code).
Lemma many_labelsW rec : LSpecW rec -> forall l h s code s',
  many_ rec l h s = Ok (code, s') -> Forall (fun x => fragW x /\ valency x = 1) l -> kinv s ->
  exists pl, J s s' pl /\ Permutation pl (lbls code).
Proof.
  intros SP. induction l as [|x t IH]; intros h s code s' H F K; cbn [many_] in H.
  - inversion H; subst. exists []. split; [apply J_refl; exact K | constructor].
  - inversion F as [|? ? [Fx _] Ft]; subst.
    destruct (rec h x s) as [[cx s1]|] eqn:Ex; cbn [bind] in H; [|discriminate].
    destruct (many_ rec t (S h) s1) as [[ct s2]|] eqn:Et; cbn [bind] in H; [|discriminate]. inversion H; subst.
    destruct (SP _ _ _ _ _ Ex Fx K) as (p1 & J1 & P1).
    assert (K1: kinv s1) by (destruct J1 as (? & _ & K1 & _); exact K1).
    destruct (IH _ _ _ _ Et Ft K1) as (p2 & J2 & P2).
    exists (p1 ++ p2)%list. split; [eapply J_trans; eauto|]. rewrite lbls_app. apply Permutation_app; assumption.
Qed.
Lemma seq_labelsW (rec : expr -> lst -> res (list item * lst)) :
  (forall e s code s', rec e s = Ok (code, s') -> fragW e -> kinv s -> exists pl, J s s' pl /\ Permutation pl (lbls code)) ->
  forall l s code s', seq_ rec l s = Ok (code, s') -> Forall (fun x => fragW x /\ v01 x) l -> kinv s ->
  exists pl, J s s' pl /\ Permutation pl (lbls code).
Proof.
  intros SP. induction l as [|x t IH]; intros s code s' H F K; cbn [seq_] in H.
  - inversion H; subst. exists []. split; [apply J_refl; exact K | constructor].
  - inversion F as [|? ? [Fx _] Ft]; subst.
    destruct (rec x s) as [[cx s1]|] eqn:Ex; cbn [bind] in H; [|discriminate].
    destruct (seq_ rec t s1) as [[ct s2]|] eqn:Et; cbn [bind] in H; [|discriminate]. inversion H; subst.
    destruct (SP _ _ _ _ Ex Fx K) as (p1 & J1 & P1).
    assert (K1: kinv s1) by (destruct J1 as (? & _ & K1 & _); exact K1).
    destruct (IH _ _ _ Et Ft K1) as (p2 & J2 & P2).
    exists (p1 ++ p2)%list. split; [eapply J_trans; eauto|]. rewrite !lbls_app.
    replace (lbls (if (valency x =? 1) && negb match t with [] => true | _ :: _ => false end then [Op "POP"] else [])) with (@nil string)
      by (destruct (_ && _); reflexivity).
    cbn [app]. apply Permutation_app; assumption.
Qed.
Local Opaque push.
Theorem lower_labelsW f : forall wa, LSpecW (lower f wa None).
Proof.
  induction f as [|f IH]; intros wa h e s code s' H FR K; [discriminate|].
  destruct e as [v|x|op args].
  - cbn [lower] in H. destruct (lit_okb v); [|discriminate]. inversion H; subst.
    exists []. split; [apply J_refl; exact K | rewrite lbls_push; constructor].
  - cbn [fragW] in FR. cbn [lower] in H. rewrite FR in H. destruct (assoc x wa); [|discriminate].
    destruct (Nat.ltb 16 (h - n)); [discriminate|]. inversion H; subst. exists []. split; [apply J_refl; exact K | constructor].
  - pose proof (kind_of_name op) as KN. cbn [fragW] in FR. destruct (kind_of op) eqn:KD; cbn [kind_name] in KN.
    + destruct args as [|a [|b [|? ?]]]; try contradiction. destruct FR as [[Fa Va] [Fb Vb]].
      assert (EB: bop_of_name op = Some o) by (unfold kind_of in KD; destruct (bop_of_name op); [inversion KD; reflexivity|];
        repeat match type of KD with (if ?c then _ else _) = _ => destruct c end; discriminate).
      clear KN. apply bop_of_name_some' in EB. subst op.
      assert (H': exists cb s1 ca tail, lower f wa None h b s = Ok (cb, s1) /\ lower f wa None (S h) a s1 = Ok (ca, s') /\
                  code = (cb ++ ca ++ tail)%list /\ lbls tail = []).
      { destruct o; red_ops H; cbn [rev app] in H; cbn [many_] in H;
          sub H b cb s1 Eb; cbn [bind] in H; sub H a ca s2 Ea; cbn [bind] in H; inversion H; subst; clear H;
          rewrite ?app_nil_r; exists cb, s1, ca;
          try (eexists [Op _]; split; [first [reflexivity | exact Eb]|]; split; [first [exact Ea | reflexivity]|];
               split; [rewrite <- app_assoc; reflexivity | reflexivity]);
          (eexists [Op _; Op "ISZERO"]; split; [first [reflexivity | exact Eb]|]; split; [first [exact Ea | reflexivity]|];
           split; reflexivity). }
      destruct H' as (cb & s1 & ca & tail & Eb & Ea & -> & TL).
      destruct (IH wa _ _ _ _ _ Eb Fb K) as (p1 & J1 & P1). destruct (IH wa _ _ _ _ _ Ea Fa (J_kinv _ _ _ J1)) as (p2 & J2 & P2).
      exists (p1 ++ p2)%list. split; [eapply J_trans; eauto|]. rewrite !lbls_app, TL, app_nil_r. apply Permutation_app; assumption.
    + destruct args as [|a [|? ?]]; try contradiction. destruct FR as [Fa Va]. subst op.
      assert (H': exists ca, lower f wa None h a s = Ok (ca, s') /\ code = (ca ++ [Op (upper (uop_name o))])%list).
      { destruct o; red_ops H; cbn [rev app many_] in H; sub H a ca s1 Ea; cbn [bind] in H; inversion H; subst;
          exists ca; rewrite app_nil_r; auto. }
      destruct H' as (ca & Ea & ->). destruct (IH wa _ _ _ _ _ Ea Fa K) as (p1 & J1 & P1).
      exists p1. split; [exact J1|]. rewrite lbls_app. cbn. rewrite ?app_nil_r. exact P1.
    + destruct args as [|a [|? ?]]; try contradiction. destruct FR as [Fa Va]. subst op. red_ops H.
      sub H a ca s1 Ea; cbn [bind] in H. inversion H; subst. clear H.
      destruct (IH wa _ _ _ _ _ Ea Fa K) as (p1 & J1 & P1).
      exists p1. split; [exact J1|]. lb. cbn [app]. rewrite ?app_nil_r. exact P1.
    + subst op. red_ops H. apply go_forall in FR.
      exact (seq_labelsW _ (fun e0 s0 c0 s0' H0 F0 K0 => IH wa h e0 s0 c0 s0' H0 F0 K0) _ _ _ _ H FR K).
    + subst op. destruct args as [|c [|t [|el [|? ?]]]]; try contradiction.
      * destruct FR as ((Fc & Vc) & Ft & Vt). red_ops H.
        sub H c ac s1 Ec; cbn [bind] in H. destruct (mksym "join" (Some h) s1) as [lend s2] eqn:Ms.
        sub H t at_ s3 Et; cbn [bind] in H. inversion H; subst. clear H.
        destruct (IH wa _ _ _ _ _ Ec Fc K) as (p1 & J1 & P1).
        pose proof (mksym_J _ _ _ _ _ Ms (J_kinv _ _ _ J1)) as J2.
        destruct (IH wa _ _ _ _ _ Et Ft (J_kinv _ _ _ J2)) as (p3 & J3 & P3).
        exists (p1 ++ [lend] ++ p3)%list. split; [eapply J_trans; [exact J1|]; eapply J_trans; eauto|].
        lb. rewrite ?app_nil_r. apply perm_if2; assumption.
      * destruct FR as ((Fc & Vc) & Ft & Fe & Vte & _). red_ops H.
        sub H c ac s1 Ec; cbn [bind] in H. destruct (mksym "else" (Some h) s1) as [lmid s2] eqn:Ms1.
        destruct (mksym "join" (Some (h + valency t)%nat) s2) as [lend s3] eqn:Ms2.
        sub H t at_ s4 Et; cbn [bind] in H. sub H el ae s5 Ee; cbn [bind] in H. inversion H; subst. clear H.
        destruct (IH wa _ _ _ _ _ Ec Fc K) as (p1 & J1 & P1).
        pose proof (mksym_J _ _ _ _ _ Ms1 (J_kinv _ _ _ J1)) as J2. pose proof (mksym_J _ _ _ _ _ Ms2 (J_kinv _ _ _ J2)) as J3.
        destruct (IH wa _ _ _ _ _ Et Ft (J_kinv _ _ _ J3)) as (p4 & J4 & P4).
        destruct (IH wa _ _ _ _ _ Ee Fe (J_kinv _ _ _ J4)) as (p5 & J5 & P5).
        exists (p1 ++ [lmid] ++ [lend] ++ p4 ++ p5)%list.
        split; [eapply J_trans; [exact J1|]; eapply J_trans; [exact J2|]; eapply J_trans; [exact J3|]; eapply J_trans; eauto|].
        lb. rewrite ?app_nil_r. apply perm_if3; assumption.
    + destruct args as [|c [|? ?]]; try contradiction. destruct FR as [Fc Vc]. subst op. red_ops H.
      sub H c ac s1 Ec; cbn [bind] in H. destruct (assert_false s1) as [af s2] eqn:Af. inversion H; subst. clear H.
      destruct (IH wa _ _ _ _ _ Ec Fc K) as (p1 & J1 & P1).
      destruct (assert_false_J _ _ _ Af (J_kinv _ _ _ J1)) as [J2 LA].
      exists (p1 ++ [])%list. split; [eapply J_trans; eauto|]. lb. rewrite LA. rewrite ?app_nil_r. exact P1.
    + destruct args as [|c [|? ?]]; try contradiction. destruct FR as [Fc Vc]. subst op. red_ops H.
      sub H c ac s1 Ec; cbn [bind] in H. destruct (mksym "reachable" (Some h) s1) as [lend s2] eqn:Ms. inversion H; subst. clear H.
      destruct (IH wa _ _ _ _ _ Ec Fc K) as (p1 & J1 & P1). pose proof (mksym_J _ _ _ _ _ Ms (J_kinv _ _ _ J1)) as J2.
      exists (p1 ++ [lend])%list. split; [eapply J_trans; eauto|]. lb. rewrite ?app_nil_r.
      apply Permutation_app; [exact P1 | apply Permutation_refl].
    + subst op args. red_ops H. inversion H; subst. exists []. split; [apply J_refl; exact K | constructor].
    + destruct (assoc (upper op) evm_opcodes) as [[ins outs]|] eqn:Oop.
      * destruct FR as (EO & LA & LO & FA). apply go_forall in FA. apply Forall_rev in FA.
        cbn [lower] in H. rewrite Oop in H.
        destruct (many_ (lower f wa None) (rev args) h s) as [[am s1]|] eqn:Em; cbn [bind] in H; [|discriminate].
        inversion H; subst. clear H.
        destruct (many_labelsW _ (IH wa) _ _ _ _ _ Em FA K) as (p1 & J1 & P1).
        exists p1. split; [exact J1|]. rewrite lbls_app. cbn. rewrite ?app_nil_r. exact P1.
      * destruct (String.eqb op "with") eqn:EW.
        -- apply String.eqb_eq in EW. subst op. destruct args as [|[?|x|? ?] [|v [|b [|? ?]]]]; try contradiction.
           destruct FR as ((Fv & Vv) & Fb & Vb). red_ops H.
           sub H v av s1 Ev; cbn [bind] in H. sub H b ab s2 Eb; cbn [bind] in H. inversion H; subst. clear H.
           destruct (IH wa _ _ _ _ _ Ev Fv K) as (p1 & J1 & P1). destruct (IH _ _ _ _ _ _ Eb Fb (J_kinv _ _ _ J1)) as (p2 & J2 & P2).
           exists (p1 ++ p2)%list. split; [eapply J_trans; eauto|]. rewrite !lbls_app.
           replace (lbls (if valency b =? 0 then [Op "POP"] else [Op "SWAP1"; Op "POP"])) with (@nil string)
             by (destruct (valency b =? 0); reflexivity).
           rewrite app_nil_r. apply Permutation_app; assumption.
        -- destruct (String.eqb op "set") eqn:ES; [|contradiction].
           apply String.eqb_eq in ES. subst op. destruct args as [|[?|x|? ?] [|v [|? ?]]]; try contradiction.
           destruct FR as (Fv & Vv). red_ops H.
           destruct (assoc x wa) as [hx|] eqn:Ax; [|discriminate].
           destruct (Nat.ltb 16 (h - hx)) eqn:D; [discriminate|].
           sub H v av s1 Ev; cbn [bind] in H. inversion H; subst. clear H.
           destruct (IH wa _ _ _ _ _ Ev Fv K) as (p1 & J1 & P1).
           exists p1. split; [exact J1|]. rewrite lbls_app. cbn. rewrite ?app_nil_r. exact P1.
Qed.

(* ---- whole programs: _IRnodeLowerer.compile_to_assembly of a tree of the fragment with with / set ---- *)
Theorem lower_top_stmtW (M : Sem) (opsem : string -> list Z -> St M -> outcome (St M) (Hl M)) :
  StmtOkW M opsem -> forall e code, lower_top e = Ok code -> fragW e ->
  exists body, (exists rest, code = (body ++ Op "STOP" :: rest)%list) /\
    forall st,
      match evalW M opsem e [] st with
      | NormW v en' st' => starW M opsem code (0, [], st)
                             (List.length body, (if Nat.eqb (valency e) 1 then [VZ v] else []), st') /\ en' = []
      | HaltW h => haltsW M opsem code (0, [], st) h
      | _ => False
      end.
Proof.
  intros OK e code H FR. destruct (lower_top_inv e code H) as (a & s' & L & ->). clear H.
  exists a. split; [eexists; reflexivity|]. intros st.
  destruct (lower_stmtW_ok M opsem OK 64 [] 0 e lst0 a s' L FR rinv0) as (_ & R' & SS).
  destruct (lower_labelsW 64 [] 0 e lst0 a s' L FR kinv0) as (pl & (LL & EL & K' & _ & NDp & INp & NRp & _) & PM).
  cbn [lh lst0] in EL. rewrite app_nil_r in EL.
  assert (AT: At (a ++ post_of s') 0 a) by (exists [], (post_of s'); split; reflexivity).
  assert (ND: NoDup (lbls (a ++ post_of s'))).
  { rewrite lbls_app. unfold post_of. destruct (revl s') as [l|] eqn:RL.
    - lb. cbn [app]. apply nodup_app_intro; [eapply Permutation_NoDup; eauto | constructor; [intros [] | constructor]|].
      intros x Hx [<-|[]]. destruct R' as (RV & _ & _). specialize (RV _ RL). rewrite EL in RV.
      apply (NRp _ RV). eapply Permutation_in; [apply Permutation_sym; exact PM | exact Hx].
    - lb. rewrite app_nil_r. eapply Permutation_NoDup; eauto. }
  assert (RB: forall l, In (l, None) (lh s') -> RevBlock (a ++ post_of s') l).
  { intros l Hl. destruct K' as (_ & _ & NV). specialize (NV l Hl). unfold RevBlock, At.
    exists (Datatypes.S (List.length a)), (a ++ [Op "STOP"])%list, (@nil item).
    unfold post_of. rewrite NV. split; [rewrite <- !app_assoc, app_nil_r; reflexivity | rewrite app_length; cbn; lia]. }
  pose proof (SS _ 0 AT ND RB [] [] st (WA_nil) eq_refl eq_refl) as S. unfold ReachW, TgtW in S. cbn [conc] in S.
  destruct (evalW M opsem e [] st) as [v en' st'|h| | | |]; try exact S.
  destruct S as [S1 S2]. destruct en'; [|discriminate]. split; [exact S1 | reflexivity].
Qed.
