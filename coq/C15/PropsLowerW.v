(* C15 extension (session 3) -- property theorems: `with` / `set` get a fixed environment-binding meaning (SemW.evalW) that
   conservatively extends Syntax.eval, and the compile_ir lowering is value-level sound for the statement fragment
   INCLUDING with / set (variables live on the stack; DUPn reads, SWAPn POP writes, POP / SWAP1 POP leaves the scope). *)
From Coq Require Import ZArith Bool List String Lia PeanoNat.
From Verif Require Import Base.Word256 Base.PyInt C15.Syntax C15.WordFacts C15.GenUtils C15.Peephole C15.Lower C15.LowerSound
  C15.OptSound C15.OptTree C15.OptTreeSound C15.LowerFlow C15.FlowSound C15.StmtSound C15.SemW C15.SemWSound C15.StmtSoundW
  C15.StmtLabelsW C15.WInst.
Import ListNotations.
Open Scope Z_scope.

(* 1. Conservative extension.  On every binder-free tree (`plain`: every node kind Syntax.v interprets, at its legal arity,
   and EVM opcode nodes) and every environment of words, evalW is `eval` of the same Sem with the environment as reader of
   the non-complex leaves, and the environment comes back unchanged.  Hypothesis: sem_K of an opcode node evaluates the
   operands last-to-first and applies opsem (StmtOk.so_strict, the hypothesis of lower_stmt_sound). *)
Theorem evalW_conservative :
  forall (M : Sem) (opsem : string -> list Z -> St M -> outcome (St M) (Hl M)),
  (forall op ds st, kind_of op = KOther -> assoc (upper op) evm_opcodes <> None ->
     sem_K M op ds st = run_rev M (rev ds) [] st (opsem (upper op))) ->
  forall en, env_words en -> forall e, plain e -> forall st,
    evalW M opsem e en st = liftW M en (eval (with_env M en) e st).
Proof. intros M opsem ST en EW e PL st. exact (evalW_plain M opsem ST en EW e PL st). Qed.
Print Assumptions evalW_conservative.

(* ... in particular on the fragment of lower_stmt_sound (StmtSound.frag), from the empty environment, evalW IS eval *)
Lemma with_env_nil M : with_env M [] = M.
Proof. destruct M. reflexivity. Qed.
Theorem evalW_old_fragment :
  forall (M : Sem) (opsem : string -> list Z -> St M -> outcome (St M) (Hl M)), StmtOk M opsem ->
  forall e, frag e -> forall st,
    evalW M opsem e [] st = match eval M e st with Norm v s => NormW v [] s | Halt h => HaltW h end.
Proof.
  intros M opsem OK e F st. rewrite (evalW_plain M opsem (so_strict M opsem OK) [] (Forall_nil _) e (frag_plain e F) st).
  clear OK. revert opsem st. destruct M. intros opsem st. reflexivity.
Qed.
Print Assumptions evalW_old_fragment.

(* 2. Lowering soundness with with / set.  Fragment fragW = StmtSound.frag + (with x v b) [v valued, b of valency 0 or 1]
   + (set x v).  Machine: StmtSound's pc machine + SWAPn.  Stack = `conc sl en`: slots top first, a temporary or a variable
   slot; the k-th variable slot holds the k-th binding of the environment; `WA sl wa`: withargs records the slot heights.
   For code emitted at height |sl|, placed anywhere in a program with distinct labels (+ revert block):
     evalW e en st = NormW v en' st'  =>  run to the end of the code, store st', stack [v ::] conc sl en' (temporaries
                                          untouched, each variable slot holds its new value), names of en' = names of en;
     evalW e en st = HaltW h          =>  the machine halts with h;
     evalW e en st is never BrkW / CntW / FuelW / StuckW (ReachW is False there: evaluation does not get stuck). *)
Theorem lower_stmt_with_set_sound :
  forall (M : Sem) (opsem : string -> list Z -> St M -> outcome (St M) (Hl M)), StmtOkW M opsem ->
  forall f wa h e s code s', lower f wa None h e s = Ok (code, s') -> fragW e -> rinv s ->
    mono s s' /\ rinv s' /\
    forall P pc, At P pc code -> NoDup (lbls P) -> (forall l, In (l, None) (lh s') -> RevBlock P l) ->
    forall sl en st, WA sl wa -> map fst en = map fst wa -> List.length sl = h ->
      ReachW M opsem P (pc, conc sl en, st) (evalW M opsem e en st)
             (TgtW M pc (List.length code) sl (Nat.eqb (valency e) 1)) (map fst wa).
Proof. intros M opsem OK f wa. exact (lower_stmtW_ok M opsem OK f wa). Qed.
Print Assumptions lower_stmt_with_set_sound.

(* top level: from the empty stack and environment *)
Theorem lower_stmt_with_set_closed :
  forall (M : Sem) (opsem : string -> list Z -> St M -> outcome (St M) (Hl M)), StmtOkW M opsem ->
  forall f e s code s', lower f [] None 0%nat e s = Ok (code, s') -> fragW e -> rinv s ->
    forall P pc, At P pc code -> NoDup (lbls P) -> (forall l, In (l, None) (lh s') -> RevBlock P l) ->
    forall st,
      match evalW M opsem e [] st with
      | NormW v en' st' => starW M opsem P (pc, [], st)
                             ((pc + List.length code)%nat, (if Nat.eqb (valency e) 1 then [VZ v] else []), st') /\ en' = []
      | HaltW h => haltsW M opsem P (pc, [], st) h
      | _ => False
      end.
Proof.
  intros M opsem OK f e s code s' L F R P pc A ND RB st.
  destruct (lower_stmtW_ok M opsem OK f [] 0%nat e s code s' L F R) as (_ & _ & S).
  specialize (S P pc A ND RB [] [] st WA_nil eq_refl eq_refl). unfold ReachW, TgtW in S. cbn [conc] in S.
  destruct (evalW M opsem e [] st) as [v en' st'|h| | | |]; try exact S.
  destruct S as [S1 S2]. destruct en'; [|discriminate]. split; [exact S1 | reflexivity].
Qed.
Print Assumptions lower_stmt_with_set_closed.

(* 3. Whole programs (StmtLabelsW.v): for compile_to_assembly of a tree of the fragment the label hypotheses hold (placed
   labels pairwise distinct, revert block present), so the emitted program, run from the empty stack, realises evalW. *)
Theorem lower_program_with_set_sound :
  forall (M : Sem) (opsem : string -> list Z -> St M -> outcome (St M) (Hl M)), StmtOkW M opsem ->
  forall e code, lower_top e = Ok code -> fragW e ->
  exists body, (exists rest, code = (body ++ Op "STOP" :: rest)%list) /\
    forall st,
      match evalW M opsem e [] st with
      | NormW v en' st' => starW M opsem code (0%nat, [], st)
                             (List.length body, (if Nat.eqb (valency e) 1 then [VZ v] else []), st') /\ en' = []
      | HaltW h => haltsW M opsem code (0%nat, [], st) h
      | _ => False
      end.
Proof. exact lower_top_stmtW. Qed.
Print Assumptions lower_program_with_set_sound.

(* ---- non-vacuity ---- *)
(* the hypotheses hold in the concrete state space the check executes (WInst.v): StmtOkW, and so_strict for the
   conservativity theorem; and in the joint instance of the optimiser theorems *)
Example stmtW_hypotheses_satisfiable :
  StmtOkW TSem tops /\
  (forall op ds st, kind_of op = KOther -> assoc (upper op) evm_opcodes <> None ->
     sem_K TSem op ds st = run_rev TSem (rev ds) [] st (tops (upper op))).
Proof.
  split; [constructor; intros [[m sto] cd]; reflexivity|]. intros op ds st _ _. change (sem_K TSem op ds st) with (trun (rev ds) [] st (tops (upper op))).
  generalize (rev ds) ([] : list Z) st. induction l as [|d t IH]; intros acc s; cbn [trun run_rev]; [reflexivity|].
  destruct (d s); [apply IH | reflexivity].
Qed.
From Verif Require C15.JointInst.
Example stmtW_hypotheses_joint : StmtOkW JointInst.JSem JointInst.jops.
Proof. apply StmtOk_W. exact JointInst.JStmtOk. Qed.

(* a tree with a shadowing `with`, assignments under a branch and inside an operand, is in the fragment, is lowered, and
   its meaning in the concrete state space is the expected store *)
Definition with_set_example : expr :=
  Node "with" [Var "x"; Node "calldataload" [Lit 0];
    Node "seq" [Node "if" [Node "lt" [Var "x"; Lit 10]; Node "set" [Var "x"; Node "add" [Var "x"; Lit 1]]; Node "set" [Var "x"; Lit 0]];
                Node "with" [Var "x"; Node "mul" [Var "x"; Lit 2];
                             Node "mstore" [Lit 32; Node "add" [Var "x"; Node "seq" [Node "set" [Var "x"; Lit 100]; Var "x"]]]];
                Node "mstore" [Lit 0; Var "x"]]].
Example with_set_fragment_nonvacuous :
  fragW with_set_example /\
  (exists code, lower_top with_set_example = Ok code) /\
  (* x = 5: x := 6; inner x = 12, operand order: the assignment (last operand) happens first: 100 + 100; outer x still 6 *)
  evalW TSem tops with_set_example [] (([], [], [5]) : TSt) = @NormW TSem 0 [] (([(0, 6); (32, 200)], [], [5]) : TSt).
Proof.
  split; [|split].
  - vm_compute. repeat split; try reflexivity; try (left; reflexivity); try (right; reflexivity); try lia;
      try (intros C; intuition discriminate).
  - eexists. vm_compute. reflexivity.
  - vm_compute. reflexivity.
Qed.
