(* C15 extension (session 3): a semantics of legacy IR in which `with` / `set` (and `repeat` / `break` / `continue`) have a
   FIXED environment-binding meaning.  No proofs here.
   Syntax.v's `eval` interprets every node kind the optimiser does not rewrite through an arbitrary functional `sem_K` of the
   children's denotations, which cannot bind a name.  `evalW` threads an ENVIRONMENT (association list, innermost binding
   first) next to the state of `Sem`:
     (with x v b)   v is evaluated, x is bound to its value for the evaluation of b, the binding is dropped afterwards
                    (shadowing: the innermost binding of a name is the visible one);
     (set x v)      v is evaluated, the visible binding of x is overwritten;
     x              the visible binding (a name that is not bound falls back to `getvar`, as in `eval`);
     (repeat i start rounds bound body)   exactly what compile_ir emits: start, rounds, [bound; revert unless rounds <= bound;
                    skip if rounds = 0] (omitted when `rounds` IS `bound`), end = rounds [+ start unless start is the literal 0],
                    then do { body with i bound } while (i := i + 1) <> end; `break` leaves the loop, `continue` goes to the
                    increment.  The iteration count is bounded by fuel = the value of `rounds` (exact when the body does not
                    assign i); running out is the outcome FuelW (no claim), never a made-up value;
     EVM opcode nodes: operands last-to-first (threading the environment), then `opsem` (the meaning StmtOk assumes of sem_K);
     the node kinds Syntax.v interprets: literally the same clauses as `eval`;
     anything else (goto, label, select, ... and ill-formed arities): StuckW -- evalW gives no meaning where none is fixed.
   `evalW_conservative` (SemWSound.v): on trees without binder nodes evalW is `eval` (of the same Sem with the environment
   as its variable reader). *)
From Coq Require Import ZArith Bool List String.
From Verif Require Import Base.Word256 Base.PyInt C15.Syntax C15.GenUtils C15.Peephole C15.Lower.
Import ListNotations.
Open Scope Z_scope.

Definition env : Type := list (string * Z).
(* overwrite the visible (first) binding of x *)
Fixpoint upd (x : string) (v : Z) (en : env) : env :=
  match en with
  | [] => []
  | (y, w) :: t => if String.eqb y x then (y, v) :: t else (y, w) :: upd x v t
  end.

Section EvalW.
Variable M : Sem.                                                            (*section*)
Variable opsem : string -> list Z -> St M -> outcome (St M) (Hl M).          (*section*)

Inductive outW :=
| NormW (v : Z) (en : env) (s : St M)
| HaltW (h : Hl M)
| BrkW (en : env) (s : St M)          (* a `break` travelling to its loop *)
| CntW (en : env) (s : St M)          (* a `continue` travelling to its loop *)
| FuelW                               (* loop fuel exhausted: no claim *)
| StuckW.                             (* no fixed meaning *)
Definition denW : Type := env -> St M -> outW.
Definition retW (v : Z) : denW := fun en s => NormW v en s.
Definition bindW (d : denW) (k : Z -> denW) : denW :=
  fun en s => match d en s with NormW v en' s' => k v en' s' | o => o end.
Fixpoint seqW (ds : list denW) : denW :=
  match ds with
  | [] => retW 0
  | [d] => d
  | d :: t => bindW d (fun _ => seqW t)
  end.
(* leaving the scope of a `with`: the innermost binding is dropped, also when a break / continue passes through *)
Definition popW (o : outW) : outW :=
  match o with
  | NormW v en s => NormW v (tl en) s
  | BrkW en s => BrkW (tl en) s
  | CntW en s => CntW (tl en) s
  | o => o
  end.
(* operands of an opcode node: the list is given reversed (last operand first); values accumulate first-operand-first *)
Fixpoint runW (l : list denW) (acc : list Z) (en : env) (st : St M) (k : list Z -> env -> St M -> outW) : outW :=
  match l with
  | [] => k acc en st
  | d :: t => match d en st with NormW v en1 st1 => runW t (v :: acc) en1 st1 k | o => o end
  end.
Definition opW (o : string) : list Z -> env -> St M -> outW :=
  fun vs en st => match opsem o vs st with Norm v st' => NormW v en st' | Halt h => HaltW h end.

(* do { body } while (i + 1 <> end): the loop variable is the innermost binding while the body runs *)
Fixpoint loopW (body : denW) (i : string) (end_ : Z) (n : nat) (iv : Z) (en : env) (s : St M) : outW :=
  match n with
  | O => FuelW
  | S n' =>
      let next (en1 : env) (s1 : St M) : outW :=
        match en1 with
        | (_, iv1) :: en2 =>
            let i' := w_add 1 iv1 in
            if w_xor i' end_ =? 0 then NormW 0 en2 s1 else loopW body i end_ n' i' en2 s1
        | [] => StuckW
        end in
      match body ((i, iv) :: en) s with
      | NormW _ en1 s1 => next en1 s1
      | CntW en1 s1 => next en1 s1
      | BrkW en1 s1 => NormW 0 (tl en1) s1
      | o => o
      end
  end.

Definition is_evm (op : string) : bool := match assoc (upper op) evm_opcodes with Some _ => true | None => false end.

Fixpoint evalW (e : expr) : denW :=
  match e with
  | Lit v => retW (wrap v)
  | Var x => fun en s => match assoc x en with Some v => NormW v en s | None => NormW (wrap (getvar M s x)) en s end
  | Node op args =>
      match kind_of op, args with
      | KBin o, [a; b] => bindW (evalW b) (fun vb => bindW (evalW a) (fun va => retW (bop_sem o va vb)))
      | KUn o, [a] => bindW (evalW a) (fun va => retW (uop_sem o va))
      | KCeil32, [a] => bindW (evalW a) (fun va => retW (ceil32_sem va))
      | KSeq, _ => seqW (map evalW args)
      | KIf, [c; t] => bindW (evalW c) (fun vc => if vc =? 0 then retW 0 else evalW t)
      | KIf, [c; t; f] => bindW (evalW c) (fun vc => if vc =? 0 then evalW f else evalW t)
      | KAssert, [c] => bindW (evalW c) (fun vc => if vc =? 0 then (fun _ s => HaltW (sem_revert M s)) else retW 0)
      | KAssertUnreachable, [c] =>
          bindW (evalW c) (fun vc => if vc =? 0 then (fun _ s => HaltW (sem_invalid M s)) else retW 0)
      | KPass, [] => retW 0
      | KOther, _ =>
          if is_evm op then (fun en st => runW (rev (map evalW args)) [] en st (opW (upper op)))
          else if String.eqb op "with" then
            match args with
            | [Var x; v; b] => bindW (evalW v) (fun vv en s => popW (evalW b ((x, vv) :: en) s))
            | _ => fun _ _ => StuckW
            end
          else if String.eqb op "set" then
            match args with
            | [Var x; v] =>
                bindW (evalW v) (fun vv en s => match assoc x en with Some _ => NormW 0 (upd x vv en) s | None => StuckW end)
            | _ => fun _ _ => StuckW
            end
          else if String.eqb op "repeat" then
            match args with
            | [Var i; start; rounds; bound; body] =>
                bindW (evalW start) (fun vs => bindW (evalW rounds) (fun vr =>
                  let go : denW := fun en s =>
                    loopW (evalW body) i (if start_nonzero start then w_add vs vr else vr) (Z.to_nat vr) vs en s in
                  if expr_eqb rounds bound then go
                  else bindW (evalW bound) (fun vb =>
                         if w_gt vr vb =? 0 then (if vr =? 0 then retW 0 else go)
                         else (fun _ s => HaltW (sem_revert M s)))))
            | _ => fun _ _ => StuckW
            end
          else if String.eqb op "break" then match args with [] => (fun en s => BrkW en s) | _ => fun _ _ => StuckW end
          else if String.eqb op "continue" then match args with [] => (fun en s => CntW en s) | _ => fun _ _ => StuckW end
          else fun _ _ => StuckW
      | _, _ => fun _ _ => StuckW
      end
  end.
End EvalW.

Arguments NormW {M} _ _ _.
Arguments HaltW {M} _.
Arguments BrkW {M} _ _.
Arguments CntW {M} _ _.
Arguments FuelW {M}.
Arguments StuckW {M}.
