(* C15 round 5: value-level soundness of the compile_ir lowering (model Lower.v) for the non-loop statement fragment,
   on a pc machine with a store, stated against the Syntax.v meaning (`eval`) that the optimiser theorems use.
   Fragment: literals, with-variables bound by an enclosing scope, the 24 binary operators (incl. the pseudo-ops le ge sle
   sge ne), iszero / not / ceil32, every EVM opcode node that Syntax.v leaves uninterpreted (mstore, sstore, mload, sload,
   log*, call*, return, revert, ...: "effect opcodes", with operands from the fragment), seq, if (2/3), assert,
   assert_unreachable, pass.  `with`/`set` nodes are NOT in it: Syntax.v gives them no fixed meaning (sem_K is an arbitrary
   functional of the children's denotations and cannot bind a name), so there is nothing to be sound against.
   Machine: small-step relation over the whole assembly with label positions; an effect opcode pops its operands and
   applies `opsem` to the store; hypothesis StrictOps ties Syntax.v's sem_K of such a node to `opsem` after evaluating
   the operands last-to-first (the order compile_ir emits).  Theorem: effects happen in order, exactly once, untaken
   branches contribute nothing, the value (if any) ends on top of an otherwise unchanged stack, halting outcomes halt
   the machine with the same observation. *)
From Coq Require Import ZArith Bool List String Lia PeanoNat.
From Verif Require Import Base.Word256 Base.PyInt C15.Syntax C15.WordFacts C15.GenUtils C15.Peephole C15.Lower C15.LowerSound
  C15.OptSound C15.OptTree C15.OptTreeSound C15.LowerFlow C15.FlowSound.
Import ListNotations.
Open Scope Z_scope.

Section Stmt.
Variable M : Sem.                                                            (*section*)
Variable opsem : string -> list Z -> St M -> outcome (St M) (Hl M).          (*section*)
Notation ev := (eval M).

Inductive sval := VZ (z : Z) | VL (l : string).
Definition cfg : Type := nat * list sval * St M.

(* opcodes that are neither arithmetic nor stack / control instructions *)
Definition effop (o : string) : Prop :=
  mbin o = None /\ mun o = None /\ index_of o push_names 0 = None /\ index_of o dups 0 = None /\
  index_of o swap_names 0 = None /\ ~ In o ["JUMP"; "JUMPI"; "POP"; "JUMPDEST"]%string.

Inductive vstep (P : list item) : cfg -> cfg -> Prop :=
| S_lbl pc stk st l : nth_error P pc = Some (Lbl l) -> vstep P (pc, stk, st) (S pc, stk, st)
| S_pushlbl pc stk st l : nth_error P pc = Some (PushLbl l) -> vstep P (pc, stk, st) (S pc, VL l :: stk, st)
| S_push pc stk st bs :
    nth_error P pc = Some (Op ("PUSH" ++ nat_str (List.length bs))) -> (List.length bs <= 32)%nat ->
    firstn (List.length bs) (skipn (S pc) P) = map Imm bs ->
    vstep P (pc, stk, st) ((S pc + List.length bs)%nat, VZ (val bs 0) :: stk, st)
| S_dup pc stk st d x :
    nth_error P pc = Some (Op ("DUP" ++ nat_str d)) -> (1 <= d <= 16)%nat -> nth_error stk (d - 1) = Some x ->
    vstep P (pc, stk, st) (S pc, x :: stk, st)
| S_pop pc stk st x : nth_error P pc = Some (Op "POP") -> vstep P (pc, x :: stk, st) (S pc, stk, st)
| S_bin pc stk st o g a b : nth_error P pc = Some (Op o) -> mbin o = Some g ->
    vstep P (pc, VZ a :: VZ b :: stk, st) (S pc, VZ (g a b) :: stk, st)
| S_un pc stk st o g a : nth_error P pc = Some (Op o) -> mbin o = None -> mun o = Some g ->
    vstep P (pc, VZ a :: stk, st) (S pc, VZ (g a) :: stk, st)
| S_jump pc stk st l p : nth_error P pc = Some (Op "JUMP") -> pos l P = Some p -> vstep P (pc, VL l :: stk, st) (p, stk, st)
| S_jumpi_t pc stk st l p c : nth_error P pc = Some (Op "JUMPI") -> pos l P = Some p -> c <> 0 ->
    vstep P (pc, VL l :: VZ c :: stk, st) (p, stk, st)
| S_jumpi_f pc stk st l : nth_error P pc = Some (Op "JUMPI") -> vstep P (pc, VL l :: VZ 0 :: stk, st) (S pc, stk, st)
| S_eff pc stk st o ins outs vs v st' :
    nth_error P pc = Some (Op o) -> effop o -> assoc o evm_opcodes = Some (ins, outs) -> List.length vs = ins ->
    opsem o vs st = Norm v st' ->
    vstep P (pc, (map VZ vs ++ stk)%list, st) (S pc, (if Nat.eqb outs 1 then VZ v :: stk else stk), st').
(* a halting instruction: the observation *)
Inductive vhalt (P : list item) : cfg -> Hl M -> Prop :=
| H_eff pc stk st o ins outs vs h :
    nth_error P pc = Some (Op o) -> effop o -> assoc o evm_opcodes = Some (ins, outs) -> List.length vs = ins ->
    opsem o vs st = Halt h -> vhalt P (pc, (map VZ vs ++ stk)%list, st) h.

Inductive star (P : list item) : cfg -> cfg -> Prop :=
| star_refl c : star P c c
| star_step c1 c2 c3 : vstep P c1 c2 -> star P c2 c3 -> star P c1 c3.
Definition halts (P : list item) (c : cfg) (h : Hl M) : Prop := exists c1, star P c c1 /\ vhalt P c1 h.
Lemma star_trans P a b c : star P a b -> star P b c -> star P a c.
Proof. induction 1; auto. intros. econstructor; eauto. Qed.
Lemma star_one P a b : vstep P a b -> star P a b.
Proof. intros. econstructor; [eassumption | constructor]. Qed.
Lemma halts_star P a b h : star P a b -> halts P b h -> halts P a h.
Proof. intros S (c1 & S1 & H). exists c1. split; [eapply star_trans; eauto | exact H]. Qed.

(* the outcome of the IR meaning, as a property of machine runs from pc to pc' *)
Definition Sim (P : list item) (pc pc' : nat) (stk : list sval) (st : St M) (o : outcome (St M) (Hl M)) (valued : bool) : Prop :=
  match o with
  | Norm v st' => star P (pc, stk, st) (pc', (if valued then VZ v :: stk else stk), st') /\
                  (forall x, getvar M st' x = getvar M st x)
  | Halt h => halts P (pc, stk, st) h
  end.

(* ---- code placement ---- *)
Definition At (P : list item) (pc : nat) (c : list item) : Prop :=
  exists pre post, P = (pre ++ c ++ post)%list /\ List.length pre = pc.
Lemma at_nth P pc x c : At P pc (x :: c) -> nth_error P pc = Some x.
Proof. intros (pre & post & -> & <-). rewrite nth_error_app2 by lia. rewrite Nat.sub_diag. reflexivity. Qed.
Lemma at_app_l P pc a b : At P pc (a ++ b) -> At P pc a.
Proof. intros (pre & post & -> & <-). exists pre, (b ++ post)%list. rewrite <- app_assoc. auto. Qed.
Lemma at_app_r P pc a b : At P pc (a ++ b) -> At P (pc + List.length a) b.
Proof.
  intros (pre & post & -> & <-). exists (pre ++ a)%list, post. rewrite <- !app_assoc. split; [reflexivity | apply app_length].
Qed.
Lemma at_cons P pc x c : At P pc (x :: c) -> At P (S pc) c.
Proof. intros H. apply (at_app_r P pc [x] c) in H. replace (S pc) with (pc + List.length [x])%nat by (cbn; lia). exact H. Qed.
Lemma at_imms P pc x bs c : At P pc (x :: map Imm bs ++ c) -> firstn (List.length bs) (skipn (S pc) P) = map Imm bs.
Proof.
  intros (pre & post & -> & <-).
  replace (pre ++ (x :: map Imm bs ++ c) ++ post)%list with ((pre ++ [x]) ++ map Imm bs ++ (c ++ post))%list
    by (rewrite <- !app_assoc; cbn [app]; rewrite <- app_assoc; reflexivity).
  replace (S (List.length pre)) with (List.length (pre ++ [x])) by (rewrite app_length; cbn; lia).
  rewrite skipn_app, skipn_all, Nat.sub_diag. cbn [skipn app].
  rewrite <- (map_length Imm bs) at 1. rewrite firstn_app, firstn_all, Nat.sub_diag. cbn [firstn]. apply app_nil_r.
Qed.

(* label positions *)
Definition lbls (P : list item) : list string := flat_map (fun it => match it with Lbl l => [l] | _ => [] end) P.
Lemma pos_unique P : NoDup (lbls P) -> forall k l, nth_error P k = Some (Lbl l) -> pos l P = Some k.
Proof.
  induction P as [|it t IH]; intros ND k l N; [destruct k; discriminate|].
  destruct k as [|k].
  - cbn in N. inversion N; subst. cbn [pos]. rewrite String.eqb_refl. reflexivity.
  - cbn in N. assert (ND': NoDup (lbls t)).
    { unfold lbls in *. cbn [flat_map] in ND. destruct it; try exact ND. cbn in ND. inversion ND; assumption. }
    specialize (IH ND' k l N). cbn [pos]. destruct it; try (rewrite IH; reflexivity).
    destruct (String.eqb l0 l) eqn:E; [|rewrite IH; reflexivity].
    apply String.eqb_eq in E. subst l0. exfalso. unfold lbls in ND. cbn in ND. inversion ND as [|? ? NI _]; subst.
    apply NI. apply in_flat_map. exists (Lbl l). split; [eapply nth_error_In; eauto | left; reflexivity].
Qed.

(* ---- composition of runs ---- *)
Definition Reach (P : list item) (c : cfg) (o : outcome (St M) (Hl M)) (tgt : Z -> St M -> cfg) : Prop :=
  match o with
  | Norm v st' => star P c (tgt v st') /\ (forall x, getvar M st' x = getvar M (snd c) x)
  | Halt h => halts P c h
  end.
Lemma reach_bind P pc stk st (d : den M) (k : Z -> den M) tgt1 tgt2 :
  Reach P (pc, stk, st) (d st) tgt1 ->
  (forall v st1, d st = Norm v st1 -> (forall x, getvar M st1 x = getvar M st x) ->
     snd (tgt1 v st1) = st1 /\ Reach P (tgt1 v st1) (k v st1) tgt2) ->
  Reach P (pc, stk, st) (bindd M d k st) tgt2.
Proof.
  intros R1 R2. unfold bindd. destruct (d st) as [v st1|h] eqn:E; [|exact R1].
  destruct R1 as [S1 G1]. cbn [snd] in G1. destruct (R2 v st1 eq_refl G1) as [E1 R]. unfold Reach in *.
  destruct (k v st1) as [v2 st2|h2].
  - destruct R as [S2 G2]. split; [eapply star_trans; eauto|]. intros x. rewrite G2, E1. apply G1.
  - eapply halts_star; eauto.
Qed.
Lemma reach_ret P c v st tgt : snd c = st -> star P c (tgt v st) -> Reach P c (Norm v st) tgt.
Proof. intros E S. split; [exact S | intros x; rewrite E; reflexivity]. Qed.

(* with-variables sit where the lowerer thinks they are *)
Definition aligned (stk : list sval) (h : nat) (wa : list (string * nat)) (st : St M) : Prop :=
  forall x hx, assoc x wa = Some hx ->
    (hx < h)%nat /\ nth_error stk (h - 1 - hx) = Some (VZ (wrap (getvar M st x))) /\ assoc (upper x) evm_opcodes = None.
Lemma aligned_push stk h wa st t : aligned stk h wa st -> aligned (t :: stk) (S h) wa st.
Proof.
  intros A x hx H. destruct (A x hx H) as (L & N & O). repeat split; [lia | | exact O].
  replace (S h - 1 - hx)%nat with (S (h - 1 - hx)) by lia. exact N.
Qed.
Lemma aligned_st stk h wa st st' : (forall x, getvar M st' x = getvar M st x) -> aligned stk h wa st -> aligned stk h wa st'.
Proof. intros G A x hx H. destruct (A x hx H) as (L & N & O). rewrite G. auto. Qed.

Lemma star_push P pc stk st v : (0 <= v < W) -> At P pc (push v) ->
  star P (pc, stk, st) ((pc + List.length (push v))%nat, VZ v :: stk, st).
Proof.
  intros Hv A. unfold push in *. set (bs := bytes_of 33 v []) in *.
  assert (L: (List.length bs <= 32)%nat).
  { pose proof (bytes_of_len 33 v [] 32 ltac:(change (256 ^ Z.of_nat 32) with W; exact Hv)). cbn [List.length] in H. unfold bs. lia. }
  assert (V: val bs 0 = v).
  { unfold bs. rewrite bytes_of_val; [cbn; lia|]. split; [lia|].
    apply Z.lt_trans with W; [lia|]. change W with (256 ^ 32). apply Z.pow_lt_mono_r; lia. }
  apply star_one. cbn [List.length]. rewrite map_length. replace (pc + S (List.length bs))%nat with (S pc + List.length bs)%nat by lia.
  rewrite <- V at 1. apply S_push; [eapply at_nth; exact A | exact L |].
  rewrite <- (app_nil_r (map Imm bs)) in A. eapply at_imms. exact A.
Qed.

(* ---- what is assumed of the uninterpreted opcodes ---- *)
Fixpoint run_rev (l : list (den M)) (acc : list Z) (st : St M) (k : list Z -> St M -> outcome (St M) (Hl M))
    : outcome (St M) (Hl M) :=
  match l with
  | [] => k acc st
  | d :: t => match d st with Norm v st1 => run_rev t (v :: acc) st1 k | Halt h => Halt h end
  end.
(* an opcode node: operands last-to-first, then the opcode on their values (first operand on top) *)
Hypothesis StrictOps : forall op ds st, kind_of op = KOther -> assoc (upper op) evm_opcodes <> None ->   (*section*)
  sem_K M op ds st = run_rev (rev ds) [] st (opsem (upper op)).
Hypothesis getvar_stable : forall o vs st v st', opsem o vs st = Norm v st' -> forall x, getvar M st' x = getvar M st x.  (*section*)
Hypothesis revert_ok : forall st, opsem "REVERT" [0; 0] st = Halt (sem_revert M st).   (*section*)
Hypothesis invalid_ok : forall st, opsem "INVALID" [] st = Halt (sem_invalid M st).    (*section*)

(* ---- the fragment ---- *)
Definition v01 (e : expr) : Prop := valency e = 0%nat \/ valency e = 1%nat.
Fixpoint frag (e : expr) : Prop :=
  match e with
  | Lit _ => True
  | Var x => assoc (upper x) evm_opcodes = None
  | Node op args =>
      let vall := (fix go (l : list expr) : Prop := match l with [] => True | x :: t => (frag x /\ valency x = 1%nat) /\ go t end) in
      match kind_of op with
      | KBin _ => match args with [a; b] => (frag a /\ valency a = 1%nat) /\ (frag b /\ valency b = 1%nat) | _ => False end
      | KUn _ | KCeil32 | KAssert | KAssertUnreachable =>
          match args with [a] => frag a /\ valency a = 1%nat | _ => False end
      | KSeq => (fix go (l : list expr) : Prop := match l with [] => True | x :: t => (frag x /\ v01 x) /\ go t end) args
      | KIf =>
          match args with
          | [c; t] => (frag c /\ valency c = 1%nat) /\ frag t /\ valency t = 0%nat
          | [c; t; f] => (frag c /\ valency c = 1%nat) /\ frag t /\ frag f /\ valency t = valency f /\ v01 t
          | _ => False
          end
      | KPass => args = []
      | KOther =>
          match assoc (upper op) evm_opcodes with
          | Some (ins, outs) => effop (upper op) /\ List.length args = ins /\ (outs <= 1)%nat /\ vall args
          | None => False
          end
      end
  end.

Definition RevBlock (P : list item) (l : string) : Prop :=
  exists r, At P r (Lbl l :: push 0 ++ [Op "DUP1"; Op "REVERT"]).
Definition Tgt (pc : nat) (n : nat) (stk : list sval) (valued : bool) : Z -> St M -> cfg :=
  fun v st' => ((pc + n)%nat, (if valued then VZ v :: stk else stk), st').
Definition Spec (rec : nat -> expr -> lst -> res (list item * lst)) (wa : list (string * nat)) : Prop :=
  forall h e s code s', rec h e s = Ok (code, s') -> frag e -> rinv s ->
    mono s s' /\ rinv s' /\
    forall P pc, At P pc code -> NoDup (lbls P) -> (forall l, In (l, None) (lh s') -> RevBlock P l) ->
    forall stk st, aligned stk h wa st -> List.length stk = h ->
      Reach P (pc, stk, st) (ev e st) (Tgt pc (List.length code) stk (Nat.eqb (valency e) 1)).

(* operands of an opcode node *)
Fixpoint run_vals (l : list expr) (acc : list Z) (st : St M) : (list Z * St M) + Hl M :=
  match l with
  | [] => inl (acc, st)
  | x :: t => match ev x st with Norm v st1 => run_vals t (v :: acc) st1 | Halt h => inr h end
  end.
Lemma run_rev_vals l : forall acc st k,
  run_rev (map ev l) acc st k = match run_vals l acc st with inl (vs, st') => k vs st' | inr h => Halt h end.
Proof. induction l as [|x t IH]; intros acc st k; cbn [map run_rev run_vals]; [reflexivity|]. destruct (ev x st); [apply IH | reflexivity]. Qed.

Lemma many_sound rec wa : Spec rec wa -> forall l h s code s',
  many_ rec l h s = Ok (code, s') -> Forall (fun x => frag x /\ valency x = 1%nat) l -> rinv s ->
  mono s s' /\ rinv s' /\
  forall P pc, At P pc code -> NoDup (lbls P) -> (forall l, In (l, None) (lh s') -> RevBlock P l) ->
  forall acc stk st, aligned (map VZ acc ++ stk) h wa st -> List.length (map VZ acc ++ stk) = h ->
    match run_vals l acc st with
    | inl (vs, st') => star P (pc, (map VZ acc ++ stk)%list, st) ((pc + List.length code)%nat, (map VZ vs ++ stk)%list, st') /\
                       (forall x, getvar M st' x = getvar M st x)
    | inr hl => halts P (pc, (map VZ acc ++ stk)%list, st) hl
    end.
Proof.
  intros SP. induction l as [|x t IH]; intros h s code s' H F R; cbn [many_] in H.
  - inversion H; subst. split; [apply mono_refl|]. split; [exact R|]. intros P pc A ND RB acc stk st AL LN. cbn [run_vals].
    rewrite Nat.add_0_r. split; [constructor | reflexivity].
  - inversion F as [|? ? [Fx Vx] Ft]; subst.
    destruct (rec h x s) as [[cx s1]|] eqn:Ex; cbn [bind] in H; [|discriminate].
    destruct (many_ rec t (S h) s1) as [[ct s2]|] eqn:Et; cbn [bind] in H; [|discriminate]. inversion H; subst. clear H.
    destruct (SP _ _ _ _ _ Ex Fx R) as (M1 & R1 & S1). destruct (IH _ _ _ _ Et Ft R1) as (M2 & R2 & S2).
    split; [eapply mono_trans; eauto|]. split; [exact R2|]. intros P pc A ND RB acc stk st AL LN. cbn [run_vals].
    specialize (S1 P pc (at_app_l _ _ _ _ A) ND (fun l Hl => RB l (M2 _ Hl)) _ st AL LN).
    rewrite Vx in S1. cbn [Nat.eqb] in S1. unfold Reach, Tgt in S1. destruct (ev x st) as [v st1|hl]; [|exact S1].
    destruct S1 as [St1 G1]. cbn [snd] in G1.
    specialize (S2 P _ (at_app_r _ _ _ _ A) ND RB (v :: acc) stk st1).
    cbn [map app] in S2. specialize (S2 (aligned_st _ _ _ _ _ G1 (aligned_push _ _ _ _ _ AL)) ltac:(cbn [List.length]; lia)).
    destruct (run_vals t (v :: acc) st1) as [[vs st']|hl].
    + destruct S2 as [St2 G2]. split.
      * eapply star_trans; [exact St1|]. rewrite app_length, Nat.add_assoc. exact St2.
      * intros y. rewrite G2. apply G1.
    + eapply halts_star; eauto.
Qed.

Lemma run_vals_len l : forall acc st vs st', run_vals l acc st = inl (vs, st') -> List.length vs = (List.length l + List.length acc)%nat.
Proof.
  induction l as [|x t IH]; intros acc st vs st' H; cbn [run_vals] in H; [inversion H; reflexivity|].
  destruct (ev x st); [|discriminate]. apply IH in H. cbn [List.length] in *. lia.
Qed.

Lemma seq_sound (rec : expr -> lst -> res (list item * lst)) wa h :
  (forall e s code s', rec e s = Ok (code, s') -> frag e -> rinv s ->
     mono s s' /\ rinv s' /\
     forall P pc, At P pc code -> NoDup (lbls P) -> (forall l, In (l, None) (lh s') -> RevBlock P l) ->
     forall stk st, aligned stk h wa st -> List.length stk = h ->
       Reach P (pc, stk, st) (ev e st) (Tgt pc (List.length code) stk (Nat.eqb (valency e) 1))) ->
  forall l s code s', seq_ rec l s = Ok (code, s') -> Forall (fun x => frag x /\ v01 x) l -> rinv s ->
  mono s s' /\ rinv s' /\
  forall P pc, At P pc code -> NoDup (lbls P) -> (forall l, In (l, None) (lh s') -> RevBlock P l) ->
  forall stk st, aligned stk h wa st -> List.length stk = h ->
    Reach P (pc, stk, st) (seq_den M (map ev l) st) (Tgt pc (List.length code) stk (Nat.eqb (last_valency l) 1)).
Proof.
  intros SP. induction l as [|x t IH]; intros s code s' H F R; cbn [seq_] in H.
  - inversion H; subst. split; [apply mono_refl|]. split; [exact R|]. intros P pc A ND RB stk st AL LN. cbn.
    split; [unfold Tgt; rewrite Nat.add_0_r; constructor | reflexivity].
  - inversion F as [|? ? [Fx Vx] Ft]; subst.
    destruct (rec x s) as [[cx s1]|] eqn:Ex; cbn [bind] in H; [|discriminate].
    destruct (seq_ rec t s1) as [[ct s2]|] eqn:Et; cbn [bind] in H; [|discriminate]. inversion H; subst. clear H.
    destruct (SP _ _ _ _ Ex Fx R) as (M1 & R1 & S1). destruct (IH _ _ _ Et Ft R1) as (M2 & R2 & S2).
    split; [eapply mono_trans; eauto|]. split; [exact R2|]. intros P pc A ND RB stk st AL LN.
    specialize (S1 P pc (at_app_l _ _ _ _ A) ND (fun l Hl => RB l (M2 _ Hl)) stk st AL LN).
    destruct t as [|y t'].
    + cbn [seq_] in Et. inversion Et; subst. rewrite andb_false_r in *. cbn [app map seq_den]. rewrite !app_nil_r in *.
      exact S1.
    + change (last_valency (x :: y :: t')) with (last_valency (y :: t')).
      change (seq_den M (map ev (x :: y :: t')) st) with (bindd M (ev x) (fun _ => seq_den M (map ev (y :: t'))) st).
      eapply reach_bind; [exact S1|]. intros v st1 E G. unfold Tgt at 1. cbn [snd]. split; [reflexivity|].
      cbn [negb andb] in *. rewrite andb_true_r in *. apply at_app_r in A.
      destruct Vx as [V|V]; rewrite V in *; cbn [Nat.eqb app List.length] in *.
      * specialize (S2 P _ A ND RB stk st1 (aligned_st _ _ _ _ _ G AL) LN).
        unfold Tgt in *. rewrite app_length. rewrite Nat.add_assoc. exact S2.
      * pose proof (at_nth _ _ _ _ A) as NP. apply at_cons in A.
        specialize (S2 P _ A ND RB stk st1 (aligned_st _ _ _ _ _ G AL) LN).
        unfold Reach in *. unfold Tgt in *. rewrite app_length. cbn [List.length].
        replace (pc + (List.length cx + S (List.length ct)))%nat with (S (pc + List.length cx) + List.length ct)%nat by lia.
        destruct (seq_den M (map ev (y :: t')) st1) as [v2 st2|hl].
        -- destruct S2 as [St2 G2]. split; [|exact G2]. eapply star_step; [apply S_pop; exact NP | exact St2].
        -- eapply halts_star; [apply star_one; apply S_pop; exact NP | exact S2].
Qed.

Lemma reach_post P c o tgt1 tgt2 : Reach P c o tgt1 -> (forall v st', star P (tgt1 v st') (tgt2 v st')) -> Reach P c o tgt2.
Proof. unfold Reach. destruct o; [|auto]. intros [S G] H. split; [eapply star_trans; eauto | exact G]. Qed.
Lemma reach_pre P c c1 o tgt : star P c c1 -> snd c1 = snd c -> Reach P c1 o tgt -> Reach P c o tgt.
Proof.
  unfold Reach. intros S E. destruct o.
  - intros [S1 G]. split; [eapply star_trans; eauto | intros x; rewrite G, E; reflexivity].
  - intros H. eapply halts_star; eauto.
Qed.
Lemma star_to P a b b' : star P a b -> b = b' -> star P a b'.
Proof. intros S <-. exact S. Qed.
Lemma effop_revert : effop "REVERT". Proof. repeat split; try reflexivity. cbn. intuition discriminate. Qed.
Lemma effop_invalid : effop "INVALID". Proof. repeat split; try reflexivity. cbn. intuition discriminate. Qed.

Ltac cfg_eq := unfold Tgt; repeat (first [rewrite app_length | progress cbn [List.length Nat.eqb]]);
  first [apply f_equal2; [apply f_equal2; [lia | reflexivity] | reflexivity] | repeat f_equal; lia].

Local Opaque push.
Theorem lower_stmt f : forall wa, Spec (lower f wa None) wa.
Proof.
  induction f as [|f IH]; intros wa h e s code s' H FR R; [discriminate|].
  destruct e as [v|x|op args].
  - (* literal *)
    cbn [lower] in H. destruct (lit_okb v); [|discriminate]. inversion H; subst.
    split; [apply mono_refl|]. split; [exact R|]. intros P pc A ND RB stk st AL LN. cbn [eval]. unfold ret.
    apply reach_ret; [reflexivity|]. unfold Tgt. cbn [valency Nat.eqb]. apply star_push; [apply Z.mod_pos_bound; unfold W; lia | exact A].
  - (* with-variable *)
    cbn [frag] in FR. cbn [lower] in H. rewrite FR in H.
    destruct (assoc x wa) as [hx|] eqn:Ax; [|discriminate].
    destruct (Nat.ltb 16 (h - hx)) eqn:D; [discriminate|]. apply Nat.ltb_ge in D. inversion H; subst.
    split; [apply mono_refl|]. split; [exact R|]. intros P pc A ND RB stk st AL LN. cbn [eval].
    destruct (AL x hx Ax) as (L & N & _).
    apply reach_ret; [reflexivity|]. unfold Tgt. cbn [valency Nat.eqb List.length].
    eapply star_to; [apply star_one; apply (S_dup P pc stk st (h - hx)); [eapply at_nth; exact A | lia |]|f_equal; f_equal; lia].
    replace (h - hx - 1)%nat with (h - 1 - hx)%nat by lia. exact N.
  - pose proof (kind_of_name op) as KN. cbn [frag] in FR. destruct (kind_of op) eqn:K; cbn [kind_name] in KN.
    + (* binary operators: second operand first, then the first, then the opcode (pseudo-ops: opcode + ISZERO) *)
      destruct args as [|a [|b [|? ?]]]; try contradiction. destruct FR as [[Fa Va] [Fb Vb]].
      assert (EB: bop_of_name op = Some o) by (unfold kind_of in K; destruct (bop_of_name op); [inversion K; reflexivity|];
        repeat match type of K with (if ?c then _ else _) = _ => destruct c end; discriminate).
      clear KN. apply bop_of_name_some' in EB. subst op.
      assert (H': exists cb s1 ca tail, lower f wa None h b s = Ok (cb, s1) /\ lower f wa None (S h) a s1 = Ok (ca, s') /\
                  code = (cb ++ ca ++ tail)%list /\
                  forall P p stk st va vb, At P p tail ->
                    star P (p, VZ va :: VZ vb :: stk, st) ((p + List.length tail)%nat, VZ (bop_sem o va vb) :: stk, st)).
      { destruct o; red_ops H; cbn [rev app] in H; cbn [many_] in H;
          sub H b cb s1 Eb; cbn [bind] in H; sub H a ca s2 Ea; cbn [bind] in H; inversion H; subst; clear H;
          rewrite ?app_nil_r; exists cb, s1, ca;
          try (eexists [Op _]; split; [first [reflexivity | exact Eb]|]; split; [first [exact Ea | reflexivity]|]; split; [rewrite <- app_assoc; reflexivity|];
               intros P p stk st va vb AT;
               eapply star_to; [apply star_one; eapply S_bin; [eapply at_nth; exact AT | reflexivity]|]; cfg_eq);
          (eexists [Op _; Op "ISZERO"]; split; [first [reflexivity | exact Eb]|]; split; [first [exact Ea | reflexivity]|]; split; [reflexivity|];
           intros P p stk st va vb AT; pose proof (at_nth _ _ _ _ AT) as N1; apply at_cons in AT;
           eapply star_step; [eapply S_bin; [exact N1 | reflexivity]|];
           eapply star_to; [apply star_one; eapply (S_un P _ _ _ "ISZERO"); [eapply at_nth; exact AT | reflexivity | reflexivity]|]; cfg_eq). }
      destruct H' as (cb & s1 & ca & tail & Eb & Ea & -> & TL).
      destruct (IH wa _ _ _ _ _ Eb Fb R) as (M1 & R1 & S1). destruct (IH wa _ _ _ _ _ Ea Fa R1) as (M2 & R2 & S2).
      split; [eapply mono_trans; eauto|]. split; [exact R2|]. intros P pc A ND RB stk st AL LN.
      assert (EV: ev (Node (bop_name o) [a; b]) st =
                  bindd M (ev b) (fun vb => bindd M (ev a) (fun va => ret M (bop_sem o va vb))) st).
      { cbn [eval]. rewrite K. reflexivity. }
      rewrite EV.
      eapply reach_bind; [apply (S1 P pc (at_app_l _ _ _ _ A) ND (fun l0 Hl => RB l0 (M2 _ Hl)) stk st AL LN)|].
      intros vb st1 E1 G1. rewrite Vb. cbn [Nat.eqb]. unfold Tgt at 1. cbn [snd]. split; [reflexivity|].
      apply at_app_r in A.
      eapply reach_bind.
      { apply (S2 P _ (at_app_l _ _ _ _ A) ND RB (VZ vb :: stk) st1);
          [apply aligned_push; eapply aligned_st; eauto | cbn [List.length]; lia]. }
      intros va st2 E2 G2. rewrite Va. cbn [Nat.eqb]. unfold Tgt at 1. cbn [snd]. split; [reflexivity|].
      apply at_app_r in A. apply reach_ret; [reflexivity|].
      eapply star_to; [apply (TL P _ stk st2 va vb A)|].
      replace (valency (Node (bop_name o) [a; b])) with 1%nat by (destruct o; reflexivity). cfg_eq.
    + (* iszero / not *)
      destruct args as [|a [|? ?]]; try contradiction. destruct FR as [Fa Va]. subst op.
      assert (G: exists g, mun (upper (uop_name o)) = Some g /\ mbin (upper (uop_name o)) = None /\ (forall z, g z = uop_sem o z))
        by (destruct o; eexists; repeat split; reflexivity).
      destruct G as (g & G1 & G2 & G3).
      assert (H': exists ca, lower f wa None h a s = Ok (ca, s') /\ code = (ca ++ [Op (upper (uop_name o))])%list).
      { destruct o; red_ops H; cbn [rev app many_] in H; sub H a ca s1 Ea; cbn [bind] in H; inversion H; subst;
          exists ca; rewrite app_nil_r; auto. }
      destruct H' as (ca & Ea & ->). destruct (IH wa _ _ _ _ _ Ea Fa R) as (M1 & R1 & S1).
      split; [exact M1|]. split; [exact R1|]. intros P pc A ND RB stk st AL LN.
      assert (EV: ev (Node (uop_name o) [a]) st = bindd M (ev a) (fun va => ret M (uop_sem o va)) st).
      { cbn [eval]. rewrite K. destruct o; reflexivity. }
      rewrite EV. eapply reach_bind; [apply (S1 P pc (at_app_l _ _ _ _ A) ND RB stk st AL LN)|].
      intros va st1 E Gv. rewrite Va. cbn [Nat.eqb]. unfold Tgt at 1. cbn [snd]. split; [reflexivity|].
      apply reach_ret; [reflexivity|]. apply at_app_r in A.
      eapply star_to; [apply star_one; eapply S_un; [eapply at_nth; exact A | exact G2 | exact G1]|].
      rewrite G3. replace (valency (Node (uop_name o) [a])) with 1%nat by (destruct o; reflexivity). cfg_eq.
    + (* ceil32 *)
      destruct args as [|a [|? ?]]; try contradiction. destruct FR as [Fa Va]. subst op. red_ops H.
      sub H a ca s1 Ea; cbn [bind] in H. inversion H; subst. clear H.
      destruct (IH wa _ _ _ _ _ Ea Fa R) as (M1 & R1 & S1).
      split; [exact M1|]. split; [exact R1|]. intros P pc A ND RB stk st AL LN.
      assert (EV: ev (Node "ceil32" [a]) st = bindd M (ev a) (fun va => ret M (ceil32_sem va)) st) by reflexivity.
      rewrite EV.
      pose proof (at_app_l _ _ _ _ A) as A1. apply at_app_r in A. pose proof (at_nth _ _ _ _ A) as N2. apply at_cons in A.
      pose proof (at_app_l _ _ _ _ A) as A3. apply at_app_r in A. pose proof (at_app_l _ _ _ _ A) as A4. apply at_app_r in A.
      eapply reach_pre with (c1 := (_, VZ 31 :: VZ (w_not 31) :: stk, st)); [|reflexivity|].
      { eapply star_trans; [apply (star_push P pc stk st 31); [unfold W; lia | exact A1]|].
        eapply star_step; [eapply (S_un P _ stk st "NOT"); [exact N2 | reflexivity | reflexivity]|].
        apply (star_push P _ _ st 31); [unfold W; lia | exact A3]. }
      eapply reach_bind.
      { apply (S1 P _ A4 ND RB _ st); [do 2 apply aligned_push; exact AL | cbn [List.length]; lia]. }
      intros va st1 E Gv. rewrite Va. cbn [Nat.eqb]. unfold Tgt at 1. cbn [snd]. split; [reflexivity|].
      apply reach_ret; [reflexivity|]. pose proof (at_nth _ _ _ _ A) as N5. apply at_cons in A. pose proof (at_nth _ _ _ _ A) as N6.
      eapply star_step; [eapply (S_bin P _ _ st1 "ADD"); [exact N5 | reflexivity]|].
      eapply star_to; [apply star_one; eapply (S_bin P _ _ st1 "AND"); [exact N6 | reflexivity]|].
      change (valency (Node "ceil32" [a])) with 1%nat. unfold ceil32_sem. cfg_eq.
    + (* seq *)
      subst op. red_ops H.
      assert (FA: Forall (fun x => frag x /\ v01 x) args) by (apply go_forall; exact FR).
      destruct (seq_sound _ wa h (fun e0 s0 c0 s0' H0 F0 R0 => IH wa h e0 s0 c0 s0' H0 F0 R0) _ _ _ _ H FA R) as (M1 & R1 & S1).
      split; [exact M1|]. split; [exact R1|]. intros P pc A ND RB stk st AL LN.
      rewrite last_valency_seq. exact (S1 P pc A ND RB stk st AL LN).
    + (* if *)
      subst op. destruct args as [|c [|t [|el [|? ?]]]]; try contradiction.
      * (* (if c t) *)
        destruct FR as ((Fc & Vc) & Ft & Vt). red_ops H.
        sub H c ac s1 Ec; cbn [bind] in H. destruct (mksym "join" (Some h) s1) as [lend s2] eqn:Ms.
        sub H t at_ s3 Et; cbn [bind] in H. inversion H; subst. clear H.
        destruct (IH wa _ _ _ _ _ Ec Fc R) as (M1 & R1 & S1).
        destruct (mksym_spec _ _ _ _ _ Ms) as (M2 & _ & _ & R2). specialize (R2 R1).
        destruct (IH wa _ _ _ _ _ Et Ft R2) as (M3 & R3 & S3).
        split; [eapply mono_trans; [eapply mono_trans; eauto | exact M3]|]. split; [exact R3|].
        intros P pc A ND RB stk st AL LN.
        assert (EV: ev (Node "if" [c; t]) st = bindd M (ev c) (fun vc => if vc =? 0 then ret M 0 else ev t) st) by reflexivity.
        rewrite EV.
        eapply reach_bind; [apply (S1 P pc (at_app_l _ _ _ _ A) ND (fun l0 Hl => RB l0 (M3 _ (M2 _ Hl))) stk st AL LN)|].
        intros vc st1 E1 G1. rewrite Vc. cbn [Nat.eqb]. unfold Tgt at 1. cbn [snd]. split; [reflexivity|].
        apply at_app_r in A. pose proof (at_nth _ _ _ _ A) as N1. apply at_cons in A. pose proof (at_nth _ _ _ _ A) as N2.
        apply at_cons in A. pose proof (at_nth _ _ _ _ A) as N3. apply at_cons in A.
        pose proof (at_app_l _ _ _ _ A) as AT. apply at_app_r in A. pose proof (at_nth _ _ _ _ A) as N4.
        pose proof (pos_unique P ND _ lend N4) as PL.
        change (valency (Node "if" [c; t])) with (valency t). rewrite Vt. cbn [Nat.eqb].
        eapply reach_pre with (c1 := (_, VL lend :: VZ (w_iszero vc) :: stk, st1)); [|reflexivity|].
        { eapply star_step; [eapply (S_un P _ stk st1 "ISZERO"); [exact N1 | reflexivity | reflexivity]|].
          apply star_one. eapply S_pushlbl. exact N2. }
        destruct (vc =? 0) eqn:Z0.
        -- apply Z.eqb_eq in Z0. subst vc. apply reach_ret; [reflexivity|].
           eapply star_step; [eapply (S_jumpi_t P _ stk st1 lend _ 1); [exact N3 | exact PL | discriminate]|].
           eapply star_to; [apply star_one; eapply S_lbl; exact N4|]. cfg_eq.
        -- replace (w_iszero vc) with 0 by (unfold w_iszero; rewrite Z0; reflexivity).
           eapply reach_pre with (c1 := (_, stk, st1)); [apply star_one; eapply S_jumpi_f; exact N3 | reflexivity|].
           eapply reach_post; [apply (S3 P _ AT ND RB stk st1 (aligned_st _ _ _ _ _ G1 AL) LN)|].
           intros v st'. rewrite Vt. cbn [Nat.eqb]. eapply star_to; [apply star_one; eapply S_lbl; exact N4|]. cfg_eq.
      * (* (if c t el) *)
        destruct FR as ((Fc & Vc) & Ft & Fe & Vte & _). red_ops H.
        sub H c ac s1 Ec; cbn [bind] in H. destruct (mksym "else" (Some h) s1) as [lmid s2] eqn:Ms1.
        destruct (mksym "join" (Some (h + valency t)%nat) s2) as [lend s3] eqn:Ms2.
        sub H t at_ s4 Et; cbn [bind] in H. sub H el ae s5 Ee; cbn [bind] in H. inversion H; subst. clear H.
        destruct (IH wa _ _ _ _ _ Ec Fc R) as (M1 & R1 & S1).
        destruct (mksym_spec _ _ _ _ _ Ms1) as (M2 & _ & _ & R2). specialize (R2 R1).
        destruct (mksym_spec _ _ _ _ _ Ms2) as (M3 & _ & _ & R3). specialize (R3 R2).
        destruct (IH wa _ _ _ _ _ Et Ft R3) as (M4 & R4 & S4). destruct (IH wa _ _ _ _ _ Ee Fe R4) as (M5 & R5 & S5).
        assert (M15: mono s1 s') by (eapply mono_trans; [exact M2|]; eapply mono_trans; [exact M3|]; eapply mono_trans; eauto).
        split; [eapply mono_trans; eauto|]. split; [exact R5|]. intros P pc A ND RB stk st AL LN.
        assert (EV: ev (Node "if" [c; t; el]) st = bindd M (ev c) (fun vc => if vc =? 0 then ev el else ev t) st) by reflexivity.
        rewrite EV.
        eapply reach_bind; [apply (S1 P pc (at_app_l _ _ _ _ A) ND (fun l0 Hl => RB l0 (M15 _ Hl)) stk st AL LN)|].
        intros vc st1 E1 G1. rewrite Vc. cbn [Nat.eqb]. unfold Tgt at 1. cbn [snd]. split; [reflexivity|].
        apply at_app_r in A. pose proof (at_nth _ _ _ _ A) as N1. apply at_cons in A. pose proof (at_nth _ _ _ _ A) as N2.
        apply at_cons in A. pose proof (at_nth _ _ _ _ A) as N3. apply at_cons in A.
        pose proof (at_app_l _ _ _ _ A) as AT. apply at_app_r in A.
        pose proof (at_nth _ _ _ _ A) as N4. apply at_cons in A. pose proof (at_nth _ _ _ _ A) as N5. apply at_cons in A.
        pose proof (at_nth _ _ _ _ A) as N6. apply at_cons in A.
        pose proof (at_app_l _ _ _ _ A) as AE. apply at_app_r in A. pose proof (at_nth _ _ _ _ A) as N7.
        pose proof (pos_unique P ND _ lmid N6) as PM. pose proof (pos_unique P ND _ lend N7) as PL.
        change (valency (Node "if" [c; t; el])) with (valency t).
        eapply reach_pre with (c1 := (_, VL lmid :: VZ (w_iszero vc) :: stk, st1)); [|reflexivity|].
        { eapply star_step; [eapply (S_un P _ stk st1 "ISZERO"); [exact N1 | reflexivity | reflexivity]|].
          apply star_one. eapply S_pushlbl. exact N2. }
        destruct (vc =? 0) eqn:Z0.
        -- apply Z.eqb_eq in Z0. subst vc.
           eapply reach_pre with (c1 := (_, stk, st1)); [|reflexivity|].
           { eapply star_step; [eapply (S_jumpi_t P _ stk st1 lmid _ 1); [exact N3 | exact PM | discriminate]|].
             apply star_one. eapply S_lbl. exact N6. }
           eapply reach_post; [apply (S5 P _ AE ND RB stk st1 (aligned_st _ _ _ _ _ G1 AL) LN)|].
           intros v st'. rewrite <- Vte. eapply star_to; [apply star_one; eapply S_lbl; exact N7|]. cfg_eq.
        -- replace (w_iszero vc) with 0 by (unfold w_iszero; rewrite Z0; reflexivity).
           eapply reach_pre with (c1 := (_, stk, st1)); [apply star_one; eapply S_jumpi_f; exact N3 | reflexivity|].
           eapply reach_post; [apply (S4 P _ AT ND (fun l0 Hl => RB l0 (M5 _ Hl)) stk st1 (aligned_st _ _ _ _ _ G1 AL) LN)|].
           intros v st'. eapply star_step; [eapply S_pushlbl; exact N4|].
           eapply star_step; [eapply (S_jump P _ _ st' lend); [exact N5 | exact PL]|].
           eapply star_to; [apply star_one; eapply S_lbl; exact N7|]. cfg_eq.
    + (* assert *)
      destruct args as [|c [|? ?]]; try contradiction. destruct FR as [Fc Vc]. subst op. red_ops H.
      sub H c ac s1 Ec; cbn [bind] in H. destruct (assert_false s1) as [af s2] eqn:Af. inversion H; subst. clear H.
      destruct (IH wa _ _ _ _ _ Ec Fc R) as (M1 & R1 & S1).
      destruct (assert_false_spec _ _ _ Af R1) as (M2 & R2 & l & -> & IL).
      split; [eapply mono_trans; eauto|]. split; [exact R2|]. intros P pc A ND RB stk st AL LN.
      assert (EV: ev (Node "assert" [c]) st =
                  bindd M (ev c) (fun vc => if vc =? 0 then (fun s => Halt (sem_revert M s)) else ret M 0) st) by reflexivity.
      rewrite EV. destruct (RB l IL) as (r & AR).
      eapply reach_bind; [apply (S1 P pc (at_app_l _ _ _ _ A) ND (fun l0 Hl => RB l0 (M2 _ Hl)) stk st AL LN)|].
      intros vc st1 E Gv. rewrite Vc. cbn [Nat.eqb]. unfold Tgt at 1. cbn [snd]. split; [reflexivity|].
      apply at_app_r in A. pose proof (at_nth _ _ _ _ A) as N1. apply at_cons in A. pose proof (at_nth _ _ _ _ A) as N2.
      apply at_cons in A. pose proof (at_nth _ _ _ _ A) as N3.
      assert (PRE: star P ((pc + List.length ac)%nat, VZ vc :: stk, st1)
                          (S (S (pc + List.length ac)), VL l :: VZ (w_iszero vc) :: stk, st1)).
      { eapply star_step; [eapply (S_un P _ stk st1 "ISZERO"); [exact N1 | reflexivity | reflexivity]|].
        apply star_one. eapply S_pushlbl. exact N2. }
      destruct (vc =? 0) eqn:Z0.
      * (* the condition is zero: jump to the shared revert block *)
        apply Z.eqb_eq in Z0. subst vc. pose proof (at_nth _ _ _ _ AR) as NR. apply at_cons in AR.
        pose proof (pos_unique P ND r l NR) as PL. pose proof (at_app_l _ _ _ _ AR) as AP. apply at_app_r in AR.
        pose proof (at_nth _ _ _ _ AR) as ND1. apply at_cons in AR. pose proof (at_nth _ _ _ _ AR) as NRV.
        exists (S (S r + List.length (push 0)), (map VZ [0; 0] ++ stk)%list, st1). split.
        -- eapply star_trans; [exact PRE|].
           eapply star_step; [eapply (S_jumpi_t P _ stk st1 l r 1); [exact N3 | exact PL | discriminate]|].
           eapply star_step; [eapply S_lbl; exact NR|].
           eapply star_trans; [apply (star_push P (S r) stk st1 0); [unfold W; lia | exact AP]|].
           apply star_one. apply (S_dup P _ (VZ 0 :: stk) st1 1 (VZ 0)); [exact ND1 | lia | reflexivity].
        -- eapply (H_eff P _ stk st1 "REVERT" 2 0 [0; 0]); [exact NRV | apply effop_revert | reflexivity | reflexivity | apply revert_ok].
      * apply reach_ret; [reflexivity|]. eapply star_trans; [exact PRE|].
        replace (w_iszero vc) with 0 by (unfold w_iszero; rewrite Z0; reflexivity).
        eapply star_to; [apply star_one; eapply S_jumpi_f; exact N3|].
        change (valency (Node "assert" [c])) with 0%nat. cfg_eq.
    + (* assert_unreachable *)
      destruct args as [|c [|? ?]]; try contradiction. destruct FR as [Fc Vc]. subst op. red_ops H.
      sub H c ac s1 Ec; cbn [bind] in H. destruct (mksym "reachable" (Some h) s1) as [lend s2] eqn:Ms. inversion H; subst. clear H.
      destruct (IH wa _ _ _ _ _ Ec Fc R) as (M1 & R1 & S1).
      destruct (mksym_spec _ _ _ _ _ Ms) as (M2 & _ & _ & R2). specialize (R2 R1).
      split; [eapply mono_trans; eauto|]. split; [exact R2|]. intros P pc A ND RB stk st AL LN.
      assert (EV: ev (Node "assert_unreachable" [c]) st =
                  bindd M (ev c) (fun vc => if vc =? 0 then (fun s => Halt (sem_invalid M s)) else ret M 0) st) by reflexivity.
      rewrite EV.
      eapply reach_bind; [apply (S1 P pc (at_app_l _ _ _ _ A) ND (fun l0 Hl => RB l0 (M2 _ Hl)) stk st AL LN)|].
      intros vc st1 E Gv. rewrite Vc. cbn [Nat.eqb]. unfold Tgt at 1. cbn [snd]. split; [reflexivity|].
      apply at_app_r in A. pose proof (at_nth _ _ _ _ A) as N1. apply at_cons in A. pose proof (at_nth _ _ _ _ A) as N2.
      apply at_cons in A. pose proof (at_nth _ _ _ _ A) as N3. apply at_cons in A. pose proof (at_nth _ _ _ _ A) as N4.
      pose proof (pos_unique P ND _ lend N4) as PL.
      destruct (vc =? 0) eqn:Z0.
      * apply Z.eqb_eq in Z0. subst vc. exists (S (S (pc + List.length ac)), (map VZ [] ++ stk)%list, st1). split.
        -- eapply star_step; [eapply S_pushlbl; exact N1|]. apply star_one. eapply S_jumpi_f. exact N2.
        -- eapply (H_eff P _ stk st1 "INVALID" 0 0 []); [exact N3 | apply effop_invalid | reflexivity | reflexivity | apply invalid_ok].
      * apply reach_ret; [reflexivity|]. apply Z.eqb_neq in Z0.
        eapply star_step; [eapply S_pushlbl; exact N1|].
        eapply star_step; [eapply (S_jumpi_t P _ stk st1 lend _ vc); [exact N2 | exact PL | exact Z0]|].
        eapply star_to; [apply star_one; eapply S_lbl; exact N4|].
        change (valency (Node "assert_unreachable" [c])) with 0%nat. cfg_eq.
    + (* pass *)
      subst op args. red_ops H. inversion H; subst. split; [apply mono_refl|]. split; [exact R|].
      intros P pc A ND RB stk st AL LN. cbn. split; [unfold Tgt; rewrite Nat.add_0_r; constructor | reflexivity].
    + (* effect opcode *)
      destruct (assoc (upper op) evm_opcodes) as [[ins outs]|] eqn:Oop; [|contradiction].
      destruct FR as (EO & LA & LO & FA). apply go_forall in FA. apply Forall_rev in FA.
      cbn [lower] in H. rewrite Oop in H.
      destruct (many_ (lower f wa None) (rev args) h s) as [[am s1]|] eqn:Em; cbn [bind] in H; [|discriminate].
      inversion H; subst. clear H.
      destruct (many_sound _ wa (IH wa) _ _ _ _ _ Em FA R) as (M1 & R1 & S1).
      split; [exact M1|]. split; [exact R1|]. intros P pc A ND RB stk st AL LN.
      assert (EV: ev (Node op args) st = match run_vals (rev args) [] st with
                                         | inl (vs, st') => opsem (upper op) vs st' | inr hl => Halt hl end).
      { cbn [eval]. rewrite K. transitivity (sem_K M op (map ev args) st); [destruct args as [|? [|? [|? ?]]]; reflexivity|].
        rewrite StrictOps by (auto; congruence). rewrite <- map_rev. apply run_rev_vals. }
      rewrite EV. specialize (S1 P pc (at_app_l _ _ _ _ A) ND RB [] stk st AL LN). cbn [map app] in S1.
      destruct (run_vals (rev args) [] st) as [[vs st1]|hl] eqn:RV; [|exact S1].
      destruct S1 as [St1 G1]. apply run_vals_len in RV. rewrite rev_length in RV. cbn [List.length] in RV.
      apply at_app_r in A. pose proof (at_nth _ _ _ _ A) as NP.
      destruct (opsem (upper op) vs st1) as [v st2|hl] eqn:OS.
      * split; [|intros y; rewrite (getvar_stable _ _ _ _ _ OS); apply G1].
        eapply star_trans; [exact St1|]. eapply star_to; [apply star_one; eapply (S_eff P _ stk st1 _ _ outs vs v st2); eauto; lia|].
        replace (valency (Node op args)) with outs by (cbn [valency]; rewrite (evm_in_ir _ _ Oop); reflexivity). cfg_eq.
      * exists ((pc + List.length am)%nat, (map VZ vs ++ stk)%list, st1). split; [exact St1|].
        eapply (H_eff P _ stk st1 _ _ outs vs hl); eauto; lia.
Qed.
End Stmt.

(* the assumptions on the uninterpreted opcodes, bundled *)
Record StmtOk (M : Sem) (opsem : string -> list Z -> St M -> outcome (St M) (Hl M)) : Prop := {
  so_strict : forall op ds st, kind_of op = KOther -> assoc (upper op) evm_opcodes <> None ->
    sem_K M op ds st = run_rev M (rev ds) [] st (opsem (upper op));
  so_getvar : forall o vs st v st', opsem o vs st = Norm v st' -> forall x, getvar M st' x = getvar M st x;
  so_revert : forall st, opsem "REVERT" [0; 0] st = Halt (sem_revert M st);
  so_invalid : forall st, opsem "INVALID" [] st = Halt (sem_invalid M st)
}.
Theorem lower_stmt_ok M opsem : StmtOk M opsem -> forall f wa, Spec M opsem (lower f wa None) wa.
Proof. intros [A B C D]. apply lower_stmt; assumption. Qed.

(* satisfiable: a state space that records the effects in order *)
Definition TrSt : Type := list (string * list Z).
Definition tr_ops (o : string) (vs : list Z) (st : TrSt) : outcome TrSt (TrSt * bool) :=
  if String.eqb o "REVERT" then Halt (st, true) else if String.eqb o "INVALID" then Halt (st, false)
  else Norm 0 ((o, vs) :: st).
Fixpoint tr_run (l : list (TrSt -> outcome TrSt (TrSt * bool))) (acc : list Z) (st : TrSt)
    (k : list Z -> TrSt -> outcome TrSt (TrSt * bool)) : outcome TrSt (TrSt * bool) :=
  match l with
  | [] => k acc st
  | d :: t => match d st with Norm v st1 => tr_run t (v :: acc) st1 k | Halt h => Halt h end
  end.
Definition TrSem : Sem :=
  {| St := TrSt; Hl := (TrSt * bool)%type; getvar := fun _ _ => 0;
     sem_K := fun op ds st => tr_run (rev ds) [] st (tr_ops (upper op));
     sem_revert := fun st => (st, true); sem_invalid := fun st => (st, false) |}.
Example stmt_ok_satisfiable : StmtOk TrSem tr_ops.
Proof.
  constructor; reflexivity.
Qed.
