(* C15 part 3: every window rewrite of _stack_peephole_opts preserves the stack for every semantics of
   the other opcodes, and the whole pass refines the input sequence (no new underflow, same result);
   ISZERO ISZERO after a 0/1-valued opcode is the identity and never changes a JUMPI decision. *)
From Coq Require Import ZArith Bool List String Lia.
From Verif Require Import Base.Word256 Base.PyInt C15.Peephole.
Import ListNotations.
Open Scope Z_scope.

Section Sem.
Variable other : item -> stack -> option stack. (*section*)
Notation ex := (exec other).

Lemma exec_app l1 l2 s :
  ex (l1 ++ l2) s = match ex l1 s with Some s' => ex l2 s' | None => None end.
Proof.
  revert s. induction l1 as [|a l1 IH]; intros s; cbn [exec app]; [reflexivity|].
  destruct (exec1 other a s); [apply IH | reflexivity].
Qed.

(* l' refines l: wherever l runs without underflow, l' runs and gives the same stack *)
Definition refines (l l' : list item) : Prop := forall s r, ex l s = Some r -> ex l' s = Some r.
Lemma refines_refl l : refines l l. Proof. intros s r H; exact H. Qed.
Lemma refines_trans a b c : refines a b -> refines b c -> refines a c.
Proof. intros H1 H2 s r H. apply H2, H1, H. Qed.
Lemma refines_window p w w' t : refines w w' -> refines (p ++ w ++ t) (p ++ w' ++ t).
Proof.
  intros H s r. rewrite !exec_app. destruct (ex p s) as [s1|]; [|discriminate].
  rewrite !exec_app. destruct (ex w s1) as [s2|] eqn:E; [|discriminate]. rewrite (H _ _ E). auto.
Qed.
(* window_splice_sound *)
Lemma refines_head w w' t : refines w w' -> refines (w ++ t) (w' ++ t).
Proof. intros H. apply (refines_window [] w w' t H). Qed.

(* ---- the six window patterns ---- *)
Lemma pat_dup1_swap2_swap1 : refines [Op "DUP1"; Op "SWAP2"; Op "SWAP1"] [Op "SWAP1"; Op "DUP2"].
Proof. intros s r. destruct s as [|a [|b t]]; cbn; try discriminate; auto. Qed.
Lemma pat_dup1_swap1_pop : refines [Op "DUP1"; Op "SWAP1"; Op "POP"] [].
Proof. intros s r. destruct s as [|a t]; cbn; try discriminate; auto. Qed.
Lemma pat_swap1_pop_pop : refines [Op "SWAP1"; Op "POP"; Op "POP"] [Op "POP"; Op "POP"].
Proof. intros s r. destruct s as [|a [|b t]]; cbn; try discriminate; auto. Qed.
Lemma pat_dup1_swap1 : refines [Op "DUP1"; Op "SWAP1"] [Op "DUP1"].
Proof. intros s r. destruct s as [|a t]; cbn; try discriminate; auto. Qed.

Lemma swap_at_invol k s s' : swap_at k s = Some s' -> swap_at k s' = Some s.
Proof.
  unfold swap_at. destruct s as [|x t]; [discriminate|].
  destruct (skipn k t) as [|y r] eqn:E; [discriminate|]. intros H. inversion H; subst s'. clear H.
  assert (L: List.length (firstn k t) = k).
  { apply firstn_length_le. assert (List.length (skipn k t) = (List.length t - k)%nat) by apply skipn_length.
    rewrite E in H. cbn in H. lia. }
  rewrite skipn_app, L, Nat.sub_diag. cbn [skipn].
  rewrite (skipn_all2 (firstn k t)) by lia. cbn [app].
  rewrite firstn_app, L, Nat.sub_diag. cbn [firstn]. rewrite app_nil_r.
  rewrite (firstn_all2 (firstn k t)) by lia.
  rewrite <- E, firstn_skipn. reflexivity.
Qed.
Lemma pat_swap_swap o k : index_of o swaps 0 = Some k -> refines [Op o; Op o] [].
Proof.
  intros I s r. cbn [exec exec1]. rewrite I. destruct (swap_at k s) as [s1|] eqn:E; [|discriminate].
  rewrite (swap_at_invol _ _ _ E). auto.
Qed.

Definition comm_fn (o : string) : option (Z -> Z -> Z) :=
  if String.eqb o "ADD" then Some w_add else if String.eqb o "MUL" then Some w_mul
  else if String.eqb o "EQ" then Some w_eq else if String.eqb o "AND" then Some w_and
  else if String.eqb o "OR" then Some w_or else if String.eqb o "XOR" then Some w_xor else None.
Lemma pat_swap1_comm o : is_comm (Op o) = true -> refines [Op "SWAP1"; Op o] [Op o].
Proof.
  intros C s r. cbn [is_comm comm_ops existsb] in C.
  repeat (apply orb_true_iff in C; destruct C as [C|C]); try discriminate;
    apply String.eqb_eq in C; subst o;
    destruct s as [|a [|b t]]; cbn; try discriminate;
    unfold w_add, w_mul, w_eq, w_and, w_or, w_xor;
    rewrite 1?(Z.add_comm b a), 1?(Z.mul_comm b a), 1?(Z.eqb_sym b a), 1?(Z.land_comm b a),
            1?(Z.lor_comm b a), 1?(Z.lxor_comm b a); auto.
Qed.

(* ---- the whole pass ---- *)
Lemma is_op_eq a s : is_op a s = true -> a = Op s.
Proof. destruct a; cbn; intros H; try discriminate. apply String.eqb_eq in H. subst; reflexivity. Qed.
Lemma item_eqb_eq a b : item_eqb a b = true -> a = b.
Proof.
  destruct a, b; cbn; intros H; try discriminate;
    try (apply andb_true_iff in H; destruct H as [H H2]; apply Z.eqb_eq in H2);
    first [apply String.eqb_eq in H | apply Z.eqb_eq in H]; subst; reflexivity.
Qed.

Lemma starts_swap_ok a : starts_swap a = true ->
  (exists o k, a = Op o /\ index_of o swaps 0 = Some k) \/ (forall o, a = Op o -> index_of o swaps 0 = None).
Proof.
  intros _. destruct a as [o| | | | | | |]; try (right; intros o' E; discriminate E).
  destruct (index_of o swaps 0) as [k|] eqn:E.
  - left. exists o, k. auto.
  - right. intros o' E'. inversion E'; subst. exact E.
Qed.

(* SWAPn SWAPn is only sound when the mnemonic is a real SWAP1..SWAP16; any other string with the
   prefix "SWAP" is not an opcode the assembler accepts.  The pass theorem assumes it. *)
Definition swaps_real (l : list item) : Prop :=
  forall o, In (Op o) l -> String.prefix "SWAP" o = true -> exists k, index_of o swaps 0 = Some k.

Lemma swaps_real_sub l l' : (forall x, In x l' -> In x l) -> swaps_real l -> swaps_real l'.
Proof. intros S SR o I P. apply SR; auto. Qed.

Lemma sp_loop_sound fuel : forall pre suf out,
  swaps_real suf ->
  sp_loop fuel pre suf = Ok out -> refines (rev pre ++ suf) out.
Proof.
  induction fuel as [|f IH]; intros pre suf out SR H; [discriminate|].
  cbn [sp_loop] in H.
  destruct suf as [|a [|b [|c rest]]]; try (inversion H; apply refines_refl).
  destruct (is_op a "DUP1" && is_op b "SWAP2" && is_op c "SWAP1") eqn:P1.
  { apply andb_true_iff in P1. destruct P1 as [P1 Pc]. apply andb_true_iff in P1. destruct P1 as [Pa Pb].
    apply is_op_eq in Pa, Pb, Pc. subst a b c.
    assert (SR': swaps_real (Op "SWAP1" :: Op "DUP2" :: rest)).
    { intros o I P. destruct I as [E|[E|I]].
      - apply SR; [right; right; left; exact E | exact P].
      - inversion E; subst o. discriminate P.
      - apply SR; [right; right; right; exact I | exact P]. }
    eapply refines_trans; [|apply (IH _ _ _ SR' H)].
    apply (refines_window (rev pre) [Op "DUP1"; Op "SWAP2"; Op "SWAP1"] [Op "SWAP1"; Op "DUP2"] rest).
    apply pat_dup1_swap2_swap1. }
  destruct (is_op a "DUP1" && is_op b "SWAP1" && is_op c "POP") eqn:P2.
  { apply andb_true_iff in P2. destruct P2 as [P2 Pc]. apply andb_true_iff in P2. destruct P2 as [Pa Pb].
    apply is_op_eq in Pa, Pb, Pc. subst a b c.
    assert (SR': swaps_real rest) by (intros o I P; apply SR; [right; right; right; exact I | exact P]).
    eapply refines_trans; [|apply (IH _ _ _ SR' H)].
    apply (refines_window (rev pre) [Op "DUP1"; Op "SWAP1"; Op "POP"] [] rest). apply pat_dup1_swap1_pop. }
  destruct (is_op a "SWAP1" && is_op b "POP" && is_op c "POP") eqn:P3.
  { apply andb_true_iff in P3. destruct P3 as [P3 Pc]. apply andb_true_iff in P3. destruct P3 as [Pa Pb].
    apply is_op_eq in Pa, Pb, Pc. subst a b c.
    assert (SR': swaps_real (Op "POP" :: Op "POP" :: rest)) by (intros o I P; apply SR; [right; exact I | exact P]).
    eapply refines_trans; [|apply (IH _ _ _ SR' H)].
    apply (refines_window (rev pre) [Op "SWAP1"; Op "POP"; Op "POP"] [Op "POP"; Op "POP"] rest).
    apply pat_swap1_pop_pop. }
  (* fall-through rules *)
  set (suf0 := a :: b :: c :: rest) in *.
  set (s1 := if starts_swap a && item_eqb a b then c :: rest else suf0) in *.
  assert (R1: refines (rev pre ++ suf0) (rev pre ++ s1) /\ swaps_real s1).
  { unfold s1. destruct (starts_swap a && item_eqb a b) eqn:P4.
    - apply andb_true_iff in P4. destruct P4 as [Pa Pb]. apply item_eqb_eq in Pb. subst b.
      destruct a as [o| | | | | | |]; try discriminate Pa. cbn in Pa.
      destruct (SR o ltac:(left; reflexivity) Pa) as [k Ik]. split.
      + apply (refines_window (rev pre) [Op o; Op o] [] (c :: rest)). eapply pat_swap_swap; eauto.
      + intros o' I. apply SR. right; right; exact I.
    - split; [apply refines_refl | exact SR]. }
  destruct R1 as [R1 SR1].
  destruct s1 as [|a1 tl1] eqn:ES1; [discriminate|].
  set (s2r := if is_op a1 "SWAP1" then
               match tl1 with b1 :: _ => Ok (if is_comm b1 then tl1 else a1 :: tl1) | [] => Err BadIndex end
             else Ok (a1 :: tl1)) in *.
  destruct s2r as [s2|] eqn:ES2; [|discriminate]. cbn [bind] in H.
  assert (R2: refines (rev pre ++ a1 :: tl1) (rev pre ++ s2) /\ swaps_real s2).
  { unfold s2r in ES2. destruct (is_op a1 "SWAP1") eqn:Q.
    - destruct tl1 as [|b1 tl]; [discriminate|]. inversion ES2; subst s2. clear ES2.
      destruct (is_comm b1) eqn:C.
      + apply is_op_eq in Q. subst a1. destruct b1 as [o| | | | | | |]; try discriminate C. split.
        * apply (refines_window (rev pre) [Op "SWAP1"; Op o] [Op o] tl). apply pat_swap1_comm; exact C.
        * intros o' I. apply SR1. right; exact I.
      + split; [apply refines_refl | exact SR1].
    - inversion ES2; subst s2. split; [apply refines_refl | exact SR1]. }
  destruct R2 as [R2 SR2].
  destruct s2 as [|a2 tl2]; [discriminate|].
  set (s3r := if is_op a2 "DUP1" then
               match tl2 with b2 :: tl3 => Ok (if is_op b2 "SWAP1" then a2 :: tl3 else a2 :: tl2) | [] => Err BadIndex end
             else Ok (a2 :: tl2)) in *.
  destruct s3r as [s3|] eqn:ES3; [|discriminate]. cbn [bind] in H.
  assert (R3: refines (rev pre ++ a2 :: tl2) (rev pre ++ s3) /\ swaps_real s3).
  { unfold s3r in ES3. destruct (is_op a2 "DUP1") eqn:Q.
    - destruct tl2 as [|b2 tl3]; [discriminate|]. inversion ES3; subst s3. clear ES3.
      destruct (is_op b2 "SWAP1") eqn:C.
      + apply is_op_eq in Q, C. subst a2 b2. split.
        * apply (refines_window (rev pre) [Op "DUP1"; Op "SWAP1"] [Op "DUP1"] tl3). apply pat_dup1_swap1.
        * intros o' I. apply SR2. destruct I as [I|I]; [left; exact I | right; right; exact I].
      + split; [apply refines_refl | exact SR2].
    - inversion ES3; subst s3. split; [apply refines_refl | exact SR2]. }
  destruct R3 as [R3 SR3].
  eapply refines_trans; [exact R1|]. eapply refines_trans; [exact R2|]. eapply refines_trans; [exact R3|].
  destruct s3 as [|h t]; [inversion H; rewrite app_nil_r; apply refines_refl|].
  specialize (IH (h :: pre) t out ltac:(intros o' I; apply SR3; right; exact I) H).
  cbn [rev] in IH. rewrite <- app_assoc in IH. exact IH.
Qed.

Theorem stack_peephole_pass_sound l out :
  swaps_real l -> stack_peephole l = Ok out -> refines l out.
Proof. intros SR H. apply (sp_loop_sound _ [] l out SR H). Qed.

(* ---- ISZERO chains ---- *)
Lemma iszero_iszero_01 v : v = 0 \/ v = 1 -> w_iszero (w_iszero v) = v.
Proof. intros [->| ->]; reflexivity. Qed.
Lemma iszero_iszero_truthy v : (w_iszero (w_iszero v) =? 0) = (v =? 0).
Proof. unfold w_iszero. destruct (v =? 0); reflexivity. Qed.
Lemma b2z_01 c : Word256.b2z c = 0 \/ Word256.b2z c = 1.
Proof. destruct c; auto. Qed.

(* an opcode that leaves 0 or 1 on top, followed by ISZERO ISZERO, is the opcode alone *)
Lemma iszero_chain_after a s v t :
  exec1 other a s = Some (v :: t) -> v = 0 \/ v = 1 ->
  ex [a; Op "ISZERO"; Op "ISZERO"] s = ex [a] s.
Proof.
  intros E V. cbn [exec]. rewrite E. cbn. rewrite iszero_iszero_01 by exact V. reflexivity.
Qed.
(* the modelled members of _RETURNS_ZERO_OR_ONE do leave 0 or 1 *)
Lemma ret01_modelled o s v t :
  In o ["LT"; "GT"; "SLT"; "SGT"; "EQ"; "ISZERO"] -> exec1 other (Op o) s = Some (v :: t) -> v = 0 \/ v = 1.
Proof.
  intros I E. cbn in I. repeat (destruct I as [<-|I]; [|]); try contradiction;
    destruct s as [|a [|b r]]; cbn in E; try discriminate; inversion E;
    unfold w_lt, w_gt, w_slt, w_sgt, w_eq, w_iszero; apply b2z_01.
Qed.
End Sem.
