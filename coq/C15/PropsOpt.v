(* C15 (part 2): the rewrites of the legacy IR optimiser never change results.
   Models: C15/Optimizer.v (_optimize_binop, _comparison_helper) and C15/OptTree.v (_optimize: the recursion over
   the whole tree), tied to vyper/ir/optimizer.py by exact output equality (complete boundary grid / seeded random
   trees).  Semantics: C15/Syntax.v -- the node kinds the optimiser interprets have their EVM meaning (arguments
   evaluated last-to-first); every other node kind is an arbitrary compositional functional of its children
   ([Sem]), so the statements hold for every state space, every meaning of memory / storage / log / call /
   control nodes and every notion of halting: nothing observable can be dropped, duplicated or reordered. *)
From Coq Require Import ZArith List String Lia.
From Verif Require Import Base.Word256 Base.PyInt C15.Syntax C15.GenUtils C15.Optimizer C15.FoldSound C15.OptSound
  C15.OptTree C15.OptTreeSound C15.Bytes C15.MergeSound C15.MemInst C15.SymSound C15.SymHered.
Import ListNotations.
Open Scope Z_scope.

(* value context: identical outcome (value, final state, halting observation);
   truthy context (parent if-condition / assert / iszero): same state / halting and same truthiness *)
Theorem opt_binop_sound :
  forall (M : Sem), SemOk M ->
  forall o a b pc, wf a -> wf b ->
    exists r, opt_binop o a b pc = Ok r /\
      forall e', r = Some e' -> equiv M (is_truthy pc) (Bin o a b) e' /\ wf e'.
Proof. exact opt_binop_sound_all. Qed.
Print Assumptions opt_binop_sound.

(* all 8 comparison ops x both strictness preferences x every legal literal on either side (0, 1, MAX, MAX-1,
   MIN_INT, MIN_INT+1 are inside the quantifier): never the "bad optimizer step" assertion, new rhs legal *)
Theorem comparison_helper_sound :
  forall (M : Sem), SemOk M ->
  forall o x y prefer_strict, comparison o = true -> wf x -> wf y ->
    exists r, comparison_helper o x y prefer_strict = Ok r /\
      forall T, r = Some T -> forall e', finalize x y T = Some e' ->
        equiv_val M (Bin o x y) e' /\ wf e'.
Proof. exact comparison_helper_sound_all. Qed.
Print Assumptions comparison_helper_sound.

Theorem rollback_preserves_effects :
  forall x y T e', finalize x y T = Some e' ->
    (is_complex x = true -> usesX T = true) /\ (is_complex y = true -> usesY T = true).
Proof. exact rollback_sound. Qed.

(* optimize_sound, relative to the soundness of the seq-level merges (hypothesis [merges_ok]; discharged in
   MergeSound.v for state spaces with an EVM memory): whenever optimizer.optimize returns a tree (it may instead
   raise StaticAssertionException = Err Raised), that tree has exactly the meaning of the input tree. *)
Theorem optimize_sound_partial :
  forall (M : Sem), SemOk M ->
  (forall cancun l c l', Forall wf l -> merges cancun l = Ok (c, l') ->
     equiv_val M (Node "seq" l) (Node "seq" l') /\ Forall wf l') ->
  forall cancun e e', wf e -> optimize cancun e = Ok e' -> equiv_val M e e' /\ wf e'.
Proof. exact optimize_sound_gen. Qed.
Print Assumptions optimize_sound_partial.

(* ---- the seq-level merges, for state spaces with an EVM byte memory ([MemOk]: a lens onto the byte array, read-only
   calldata / data section, the usual meaning of mstore mload calldataload calldatacopy dload dloadbytes mcopy) ---- *)
Theorem merge_memzero_sound :
  forall (M : Sem), SemOk M -> MemOk M -> forall l c l',
    Forall wf l -> merge_memzero l = Ok (c, l') -> equiv_val M (Node "seq" l) (Node "seq" l') /\ Forall wf l'.
Proof. intros M OK MO l c l' W H. eapply memzero_sound; eauto. Qed.
Theorem merge_load_sound :
  forall (M : Sem), SemOk M -> MemOk M -> forall l c l',
    Forall wf l ->
    (merge_load "calldataload" "calldatacopy" true l = Ok (c, l') \/
     merge_load "dload" "dloadbytes" true l = Ok (c, l') \/
     merge_load "mload" "mcopy" false l = Ok (c, l')) ->
    equiv_val M (Node "seq" l) (Node "seq" l') /\ Forall wf l'.
Proof.
  intros M OK MO l c l' W [H|[H|H]];
    [eapply calldataload_sound | eapply dload_sound | eapply mload_sound]; eauto.
Qed.
(* the overlap guard of the mload merge is exactly the condition under which word-by-word forward copying equals
   MCOPY: with it two adjacent copies compose, without it they differ *)
Theorem mcopy_guard_exact :
  (forall m d s t n, (d <= s \/ s + t + n <= d)%nat ->
     mcopy_mem (mcopy_mem m d s t) (d + t) (s + t) n = mcopy_mem m d s (t + n)) /\
  (exists m, mcp_iter 2 m 0 32 <> mcopy_mem m 32 0 64).
Proof. split; [exact mcopy_compose | eexists; exact mcp_iter_overlap_differs]. Qed.
Theorem merges_all_sound :
  forall (M : Sem), SemOk M -> MemOk M -> forall cancun l c l',
    Forall wf l -> merges cancun l = Ok (c, l') -> equiv_val M (Node "seq" l) (Node "seq" l') /\ Forall wf l'.
Proof. intros M OK MO cancun l c l' W H. eapply merges_sound; eauto. Qed.
Print Assumptions merges_all_sound.

(* optimize_sound: whenever the model of optimizer.optimize returns a tree (it may raise StaticAssertionException =
   Err Raised, hit the IRnode range assertion = Err AssertFail, or decline a merge with negative literal offsets =
   Err TypeErr), that tree has exactly the meaning of the input tree *)
Theorem optimize_sound :
  forall (M : Sem), SemOk M -> MemOk M ->
  forall cancun e e', wf e -> optimize cancun e = Ok e' -> equiv_val M e e' /\ wf e'.
Proof. intros M OK MO cancun e e' W H. eapply optimize_sound_all; eauto. Qed.
Print Assumptions optimize_sound.

(* StaticAssertionException: raised only if the tree contains -- after rewrites that preserve meaning in their context
   (Blame_equiv), at some argument position (Blame_child) -- an assert / assert_unreachable node that can never
   complete: its condition always evaluates to 0 or evaluation halts before (Blame_here) *)
Theorem static_assert_sound :
  forall (M : Sem), SemOk M -> MemOk M ->
  forall cancun e, wf e -> optimize cancun e = Err Raised -> Blame M e.
Proof. intros M OK MO cancun e W H. eapply optimize_raised_all; eauto. Qed.
Print Assumptions static_assert_sound.
(* unique_symbol bookkeeping (usyms = IRnode.unique_symbols with its non-unique CompilerPanic = Err KeyErr).
   (1) a binop rewrite keeps the symbol set of the node it rewrites: the _check_symbols sanity check after
       _optimize_binop cannot fire because of the rewrite itself ... *)
Theorem binop_rewrite_keeps_symbols :
  forall o a b pc e' S, opt_binop o a b pc = Ok (Some e') -> usyms (Bin o a b) = Ok S ->
  exists S', usyms e' = Ok S' /\ same_set S S' = true.
Proof. exact opt_binop_syms. Qed.
Print Assumptions binop_rewrite_keeps_symbols.
(* the "missing symbols" CompilerPanic of _check_symbols is impossible (reference set = symbols of the optimised
   operands, /repo 8260fcf; before that repair the set was taken before the operands were optimised and the check
   fired on valid programs after dead-branch elimination -- found with this model, reported, fixed) *)
Theorem symbol_check_never_fires :
  forall o a b pc e' st now,
  opt_binop o a b pc = Ok (Some e') -> usyms_union [a; b] = Ok st -> usyms e' = Ok now -> same_set st now = true.
Proof. exact SymSound.symbol_check_never_fires. Qed.
Print Assumptions symbol_check_never_fires.
Example symbol_check_examples :
  optimize true (Bin B_add (Node "if" [Lit 1; Lit 0; Node "seq" [Node "unique_symbol" [Var "s"]; Lit 2]]) (Cx 1))
    = Ok (Cx 1) /\
  optimize true (Bin B_add (Node "seq" [Node "unique_symbol" [Var "s"]; Lit 0]) (Cx 1))
    = Ok (Bin B_add (Node "seq" [Node "unique_symbol" [Var "s"]; Lit 0]) (Cx 1)) /\
  optimize true (Node "seq" [Node "unique_symbol" [Var "s"]; Node "unique_symbol" [Var "s"]]) = Err KeyErr.
Proof. repeat split; vm_compute; reflexivity. Qed.
(* (2) whenever optimize returns a tree, that tree carries a subset of the input's symbols, each still once: the
   optimiser never duplicates, renames or invents a marker, so compile_ir's "symbol already exists" check
   cannot fail because of it (markers named by leaves, as eval_once_check produces them) *)
Theorem optimizer_keeps_symbols_unique :
  forall cancun e e' S, symleaf e = true -> usyms e = Ok S -> optimize cancun e = Ok e' ->
  exists S', usyms e' = Ok S' /\ incl S' S.
Proof. exact optimize_syms. Qed.
Print Assumptions optimizer_keeps_symbols_unique.

(* (3) optimize never raises the symbol CompilerPanics (non-unique / missing symbols = Err KeyErr) on front-end-shaped
   input: markers named by leaves and unique_symbols succeeding at every node (hereditary, because `deploy` keeps the
   runtime's markers apart); both conditions are checked on the IR of every compiled contract by tools/checks/c15.py.
   Proof: a hereditary invariant (no marker counted twice at any node) is preserved by every rule, the merge loops,
   rebuilt nodes and re-optimisation (SymHered.v) *)
Theorem optimize_never_symbol_panic :
  forall cancun e, wf e -> symleaf e = true -> usyms_all e -> optimize cancun e <> Err KeyErr.
Proof. exact optimize_no_symbol_panic_front_end. Qed.
Print Assumptions optimize_never_symbol_panic.
Theorem optimize_keeps_hereditary_uniqueness :
  forall f cancun pc e, wf e -> hok e ->
    opt f cancun pc e <> Err KeyErr /\ forall r, opt f cancun pc e = Ok r -> wf (snd r) /\ hok (snd r).
Proof. intros f cancun pc e W H. exact (opt_good f cancun pc e W H). Qed.
Print Assumptions optimize_keeps_hereditary_uniqueness.

(* the hypotheses are satisfiable: a concrete state space with a byte memory and big-endian words (MemInst.v) *)
Example semok_memok_inhabited : SemOk InstSem /\ inhabited (MemOk InstSem).
Proof. split; [exact InstSemOk | exact (inhabits InstMemOk)]. Qed.

(* non-vacuity: rewrites fire at the boundaries, the rollback does happen, whole trees are rewritten *)
Example opt_binop_nonvacuous :
  opt_binop B_sdiv (Var "x") (Lit (-1)) PNone = Ok (Some (Bin B_sub (Lit 0) (Var "x"))) /\
  opt_binop B_slt (Var "x") (Lit (MINS + 1)) PNone = Ok (Some (Bin B_eq (Var "x") (Lit MINS))) /\
  opt_binop B_gt (Lit (MAXU - 1)) (Cx 1) PIf = Ok (Some (Bin B_le (Cx 1) (Lit (MAXU - 2)))) /\
  opt_binop B_mul (Cx 1) (Lit 0) PNone = Ok None /\
  opt_binop B_or (Var "x") (Lit 2) PAssert = Ok (Some (Lit 1)) /\
  opt_binop B_or (Var "x") (Lit 2) PNone = Ok None /\
  optimize true (Node "mstore" [Lit 0; Node "if" [Var "c"; Bin B_or (Var "x") (Lit 2); Var "x"]])
    = Ok (Node "mstore" [Lit 0; Node "if" [Un U_iszero (Var "c"); Var "x"; Bin B_or (Var "x") (Lit 2)]]) /\
  optimize true (Node "if" [Bin B_gt (Var "x") (Lit 5); Node "seq" [Node "mstore" [Lit 0; Lit 0]; Node "mstore" [Lit 32; Lit 0]]])
    = Ok (Node "if" [Bin B_ge (Var "x") (Lit 6); Node "calldatacopy" [Lit 0; Var "calldatasize"; Lit 64]]) /\
  optimize true (Node "assert" [Bin B_lt (Var "x") (Lit 0)]) = Err Raised /\
  optimize true (Node "seq" [Node "mstore" [Lit 64; Node "mload" [Lit 0]]; Node "mstore" [Lit 96; Node "mload" [Lit 32]]; Node "stop" []])
    = Ok (Node "seq" [Node "mcopy" [Lit 64; Lit 0; Lit 64]; Node "stop" []]) /\
  (* overlapping: destination inside the source range -> no merge *)
  optimize true (Node "seq" [Node "mstore" [Lit 32; Node "mload" [Lit 0]]; Node "mstore" [Lit 64; Node "mload" [Lit 32]]; Node "stop" []])
    = Ok (Node "seq" [Node "mstore" [Lit 32; Node "mload" [Lit 0]]; Node "mstore" [Lit 64; Node "mload" [Lit 32]]; Node "stop" []]).
Proof. repeat split; vm_compute; reflexivity. Qed.
