(* C15 (part 2): the algebraic, truthy-context and comparison rewrites of the legacy IR optimiser
   (model C15/Optimizer.v, tied to vyper/ir/optimizer.py by exact output equality on a complete
   boundary grid) never change results. *)
From Coq Require Import ZArith List String Lia.
From Verif Require Import Base.Word256 Base.PyInt C15.Syntax C15.GenUtils C15.Optimizer C15.FoldSound C15.OptSound.
Import ListNotations.
Open Scope Z_scope.

(* For every binop, all argument trees (literals anywhere in [MIN_INT256, MAX_UINT256], variables,
   arbitrary effectful sub-nodes), every parent context, every environment, every behaviour of the
   effectful nodes and every prior effect trace: the model does not fail, and what it returns has the
   same effect trace (nothing dropped, duplicated or reordered) and the same value; under a truthy
   parent (if / assert / iszero) the same effect trace and the same truthiness. *)
Theorem opt_binop_sound :
  forall o a b pc, wf a -> wf b ->
    exists r, opt_binop o a b pc = Ok r /\
      forall e', r = Some e' -> equiv (is_truthy pc) (Bin o a b) e' /\ wf e'.
Proof. exact opt_binop_sound_all. Qed.
Print Assumptions opt_binop_sound.

(* all 8 comparison ops x both strictness preferences x every legal literal on either side (so the
   boundaries 0, 1, MAX, MAX-1, MIN_INT, MIN_INT+1 are inside the quantifier): no "bad optimizer step"
   assertion, the new right-hand side is a legal literal, value and effects preserved exactly. *)
Theorem comparison_helper_sound :
  forall o x y prefer_strict, comparison o = true -> wf x -> wf y ->
    exists r, comparison_helper o x y prefer_strict = Ok r /\
      forall T, r = Some T -> forall e', finalize x y T = Some e' ->
        equiv_val (Bin o x y) e' /\ wf e'.
Proof. exact comparison_helper_sound_all. Qed.
Print Assumptions comparison_helper_sound.

Theorem rollback_preserves_effects :
  forall x y T e', finalize x y T = Some e' ->
    (is_complex x = true -> usesX T = true) /\ (is_complex y = true -> usesY T = true).
Proof. exact rollback_sound. Qed.
Print Assumptions rollback_preserves_effects.

(* non-vacuity: rewrites fire at the boundaries, and the rollback does happen *)
Example opt_binop_nonvacuous :
  opt_binop B_sdiv (Var "x") (Lit (-1)) PNone = Ok (Some (Bin B_sub (Lit 0) (Var "x"))) /\
  opt_binop B_slt (Var "x") (Lit (MINS + 1)) PNone = Ok (Some (Bin B_eq (Var "x") (Lit MINS))) /\
  opt_binop B_gt (Lit (MAXU - 1)) (Cx 1) PIf = Ok (Some (Bin B_le (Cx 1) (Lit (MAXU - 2)))) /\
  opt_binop B_mul (Cx 1) (Lit 0) PNone = Ok None /\
  opt_binop B_or (Var "x") (Lit 2) PAssert = Ok (Some (Lit 1)) /\
  opt_binop B_or (Var "x") (Lit 2) PNone = Ok None.
Proof. repeat split; vm_compute; reflexivity. Qed.
