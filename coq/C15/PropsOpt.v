(* C15 (part 2): the rewrites of the legacy IR optimiser never change results.
   Models: C15/Optimizer.v (_optimize_binop, _comparison_helper) and C15/OptTree.v (_optimize: the recursion over
   the whole tree), tied to vyper/ir/optimizer.py by exact output equality (complete boundary grid / seeded random
   trees).  Semantics: C15/Syntax.v -- the node kinds the optimiser interprets have their EVM meaning (arguments
   evaluated last-to-first); every other node kind is an arbitrary compositional functional of its children
   ([Sem]), so the statements hold for every state space, every meaning of memory / storage / log / call /
   control nodes and every notion of halting: nothing observable can be dropped, duplicated or reordered. *)
From Coq Require Import ZArith List String Lia.
From Verif Require Import Base.Word256 Base.PyInt C15.Syntax C15.GenUtils C15.Optimizer C15.FoldSound C15.OptSound
  C15.OptTree C15.OptTreeSound.
Import ListNotations.
Open Scope Z_scope.

(* value context: identical outcome (value, final state, halting observation);
   truthy context (parent if-condition / assert / iszero): same state / halting and same truthiness *)
Theorem opt_binop_sound :
  forall (M : Sem), SemOk M ->
  forall o a b pc, wf a -> wf b ->
    exists r, opt_binop o a b pc = Ok r /\
      forall e', r = Some e' -> equiv M (is_truthy pc) (Bin o a b) e' /\ wf e'.
Proof. exact opt_binop_sound_all. Qed.
Print Assumptions opt_binop_sound.

(* all 8 comparison ops x both strictness preferences x every legal literal on either side (0, 1, MAX, MAX-1,
   MIN_INT, MIN_INT+1 are inside the quantifier): never the "bad optimizer step" assertion, new rhs legal *)
Theorem comparison_helper_sound :
  forall (M : Sem), SemOk M ->
  forall o x y prefer_strict, comparison o = true -> wf x -> wf y ->
    exists r, comparison_helper o x y prefer_strict = Ok r /\
      forall T, r = Some T -> forall e', finalize x y T = Some e' ->
        equiv_val M (Bin o x y) e' /\ wf e'.
Proof. exact comparison_helper_sound_all. Qed.
Print Assumptions comparison_helper_sound.

Theorem rollback_preserves_effects :
  forall x y T e', finalize x y T = Some e' ->
    (is_complex x = true -> usesX T = true) /\ (is_complex y = true -> usesY T = true).
Proof. exact rollback_sound. Qed.

(* optimize_sound, relative to the soundness of the seq-level merges (hypothesis [merges_ok]; discharged in
   MergeSound.v for state spaces with an EVM memory): whenever optimizer.optimize returns a tree (it may instead
   raise StaticAssertionException = Err Raised), that tree has exactly the meaning of the input tree. *)
Theorem optimize_sound_partial :
  forall (M : Sem), SemOk M ->
  (forall cancun l c l', Forall wf l -> merges cancun l = Ok (c, l') ->
     equiv_val M (Node "seq" l) (Node "seq" l') /\ Forall wf l') ->
  forall cancun e e', wf e -> optimize cancun e = Ok e' -> equiv_val M e e' /\ wf e'.
Proof. exact optimize_sound_gen. Qed.
Print Assumptions optimize_sound_partial.

(* the trace semantics is one instance: effectful nodes append their name to a trace and may read it *)
Definition TraceSem (orc : string -> list Z -> list string -> Z) (vars : string -> Z) : Sem :=
  {| St := list string; Hl := list string;
     getvar := fun _ x => vars x;
     sem_K := fun op ds s =>
       (fix go (l : list (list string -> outcome (list string) (list string))) (acc : list Z) (s : list string) :=
          match l with
          | [] => Norm (wrap (orc op acc s)) (op :: s)
          | d :: t => match go t acc s with
                      | Norm _ s1 => match d s1 with Norm v s2 => Norm (wrap (orc op (v :: acc) s2)) s2 | Halt h => Halt h end
                      | Halt h => Halt h
                      end
          end) ds [] s;
     sem_revert := fun s => ("revert"%string :: s);
     sem_invalid := fun s => ("invalid"%string :: s) |}.

(* non-vacuity: rewrites fire at the boundaries, the rollback does happen, whole trees are rewritten *)
Example opt_binop_nonvacuous :
  opt_binop B_sdiv (Var "x") (Lit (-1)) PNone = Ok (Some (Bin B_sub (Lit 0) (Var "x"))) /\
  opt_binop B_slt (Var "x") (Lit (MINS + 1)) PNone = Ok (Some (Bin B_eq (Var "x") (Lit MINS))) /\
  opt_binop B_gt (Lit (MAXU - 1)) (Cx 1) PIf = Ok (Some (Bin B_le (Cx 1) (Lit (MAXU - 2)))) /\
  opt_binop B_mul (Cx 1) (Lit 0) PNone = Ok None /\
  opt_binop B_or (Var "x") (Lit 2) PAssert = Ok (Some (Lit 1)) /\
  opt_binop B_or (Var "x") (Lit 2) PNone = Ok None /\
  optimize true (Node "mstore" [Lit 0; Node "if" [Var "c"; Bin B_or (Var "x") (Lit 2); Var "x"]])
    = Ok (Node "mstore" [Lit 0; Node "if" [Un U_iszero (Var "c"); Var "x"; Bin B_or (Var "x") (Lit 2)]]) /\
  optimize true (Node "if" [Bin B_gt (Var "x") (Lit 5); Node "seq" [Node "mstore" [Lit 0; Lit 0]; Node "mstore" [Lit 32; Lit 0]]])
    = Ok (Node "if" [Bin B_ge (Var "x") (Lit 6); Node "calldatacopy" [Lit 0; Var "calldatasize"; Lit 64]]) /\
  optimize true (Node "assert" [Bin B_lt (Var "x") (Lit 0)]) = Err Raised.
Proof. repeat split; vm_compute; reflexivity. Qed.
