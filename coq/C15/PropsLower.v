(* C15 (round 3): the compile_ir lowering of pure expressions is correct.
   Model C15/Lower.v (= _IRnodeLowerer._step_r for literals, variables, EVM opcodes, with, set, seq, pass, if, assert,
   assert_unreachable, le ge sle sge ne ceil32, select), tied to vyper/ir/compile_ir.py by exact output equality on
   seeded random trees; the opcode tables are regenerated from the source (GenUtils.v). *)
From Coq Require Import ZArith List String Lia.
From Verif Require Import Base.Word256 Base.PyInt C15.Syntax C15.GenUtils C15.Peephole C15.Lower C15.LowerSound C15.LowerFlow C15.FlowSound C15.RetRewrite C15.RetRewriteSound C15.StmtSound C15.StmtLabels.
From Verif Require C15.OptTree C15.MergeSound C15.PropsOpt.
Import ListNotations.
Open Scope Z_scope.

(* For every expression of the pure fragment (literals, with-variables, the 19 arithmetic / comparison / bitwise EVM
   opcodes, iszero, not, le ge sle sge ne, ceil32, select, with), every height bookkeeping state in which each variable
   sits in the stack slot the lowerer assumes, and every stack: running the emitted assembly pushes exactly the value
   of the expression and leaves the rest of the stack unchanged. *)
Theorem lower_sound :
  forall f wa bd h e s code s' pf en stk v,
    lower f wa bd h e s = Ok (code, s') -> LowerSound.aligned stk h wa en -> List.length stk = h ->
    peval pf en e = Some v -> runs code stk (v :: stk).
Proof. exact lower_pure_sound. Qed.
Print Assumptions lower_sound.

(* closed expressions, from an empty stack *)
Definition lst0 : lst := {| cnt := 0; revl := None; labels := []; lh := []; dsegs := [] |}.
Corollary lower_closed_sound :
  forall e code s' pf v,
    lower 64 [] None 0 e lst0 = Ok (code, s') -> peval pf [] e = Some v -> runs code [] [v].
Proof. intros e code s' pf v H P. eapply lower_pure_sound; eauto. constructor. Qed.

(* non-vacuity: operand order, DUP indices and pseudo-ops on a concrete expression:
   (with x 7 (sub (ceil32 x) (le x 3)))  =  32 - 0 *)
Definition run_lower (e : expr) : option (list Z) :=
  match lower 64 [] None 0 e lst0 with Ok (c, _) => run_code c [] | Err _ => None end.
Example lower_nonvacuous :
  let e := Node "with" [Var "x"; Lit 7; Node "sub" [Node "ceil32" [Var "x"]; Node "le" [Var "x"; Lit 3]]] in
  peval 10 [] e = Some 32 /\ run_lower e = Some [32].
Proof. split; vm_compute; reflexivity. Qed.

(* Stack-height balance with control flow (LowerFlow.v).  `flow E code st` checks emitted assembly against label heights E:
   every opcode finds its operands within the frame (DUPn needs n, SWAPn n+1 items), every static jump and every
   fall-through reaches a label at the height E gives it.  For every tree of the fragment (wv: every EVM opcode, with-
   variables, set, pass, if, with, seq, assert, assert_unreachable, select, le ge sle sge ne, ceil32, sha3_64, dload,
   dloadbytes, repeat / break / continue, unique_symbol; sub-terms have the valency their context needs; `continue`
   not under a `with` inside its loop -- compile_ir does not clean up there, unlike `break`) the code emitted at
   compile-time height h runs from h to h + valency, for E = the heights at which the lowerer placed its labels
   (mksymbol names are proved fresh).  So the height from which DUP/SWAP indices are computed is the real relative
   stack depth on every path. *)
Theorem lower_height_balance :
  forall f wa bd h e s a s' lv, lower f wa bd h e s = Ok (a, s') -> wv lv e -> rinv s ->
    mono s s' /\ rinv s' /\
    forall E, env_ok E s' -> scope_ok wa h -> bd_ok E bd h -> lv_ok lv bd h -> FlowOK E a h (h + valency e).
Proof. intros f wa bd. exact (lower_spec f wa bd). Qed.
Print Assumptions lower_height_balance.
Theorem lower_program_balanced :
  forall e code, lower_top e = Ok code -> wv false e -> exists E, flow E code (Live 0 None) = Some Dead.
Proof. exact lower_top_balanced. Qed.
Print Assumptions lower_program_balanced.

(* non-vacuity: a loop with break / continue / with / if passes the check; a `continue` under a `with` inside the loop
   body (outside the fragment) is emitted without clean-up and fails it *)
Definition flow_top (e : expr) : option hst :=
  match lower 64 [] None 0 e lst0 with
  | Ok (a, s') => flow (lh s') (a ++ postamble s') (Live 0 None)
  | Err _ => None
  end.
Example height_balance_nonvacuous :
  let body := Node "seq" [Node "if" [Node "lt" [Var "i"; Lit 3]; Node "continue" []];
                          Node "with" [Var "t"; Node "add" [Var "i"; Lit 1];
                                       Node "if" [Node "gt" [Var "t"; Lit 7]; Node "break" []; Node "mstore" [Lit 0; Var "t"]]];
                          Node "assert" [Node "calldataload" [Var "i"]]] in
  let bad := Node "with" [Var "t"; Lit 1; Node "continue" []] in
  flow_top (Node "repeat" [Var "i"; Lit 0; Node "calldataload" [Lit 0]; Lit 10; body]) = Some Dead /\
  flow_top (Node "repeat" [Var "i"; Lit 0; Lit 10; Lit 10; bad]) = None.
Proof. split; vm_compute; reflexivity. Qed.

(* What the height check means for execution (FlowSound.v): on a small-step machine over the emitted assembly (pc + stack
   of values / label references; PUSHLABEL pushes a reference, JUMP / JUMPI continue at that label; every other opcode an
   ARBITRARY stack function respecting its arity), in every reachable state of a lowered program the stack depth is exactly
   base + the statically tracked height of that pc (base = 0 until the shared revert block is entered), and no
   instruction -- in particular no DUPn / SWAPn computed from the lowerer's `height` -- reaches below the tracked frame. *)
Theorem lowered_code_stack_depth :
  forall (V : Type) (exec : string -> list (sv V) -> option (list (sv V))) (ofs : string -> Z -> sv V) (truthy : sv V -> bool),
  (forall o stk stk' i k, exec o stk = Some stk' -> effect o = Some (i, k) ->
     (i <= List.length stk /\ List.length stk' = List.length stk - i + k)%nat) ->
  forall e code, lower_top e = Ok code -> wv false e ->
  exists E,
    (forall n pc stk base, run V exec ofs truthy E code n 0 [] 0 = Some (pc, stk, base) -> Inv V E code pc stk base) /\
    (forall n pc stk base o i k, run V exec ofs truthy E code n 0 [] 0 = Some (pc, stk, base) ->
       nth_error code pc = Some (Op o) -> effect o = Some (i, k) ->
       exists h top, pre E code pc = Some (Live h top) /\ List.length stk = (base + h)%nat /\ (i <= h)%nat).
Proof.
  intros V exec ofs truthy AR e code H WV. destruct (lower_top_balanced e code H WV) as (E & F).
  exists E. split.
  - intros n pc stk base R. eapply (run_inv V exec ofs truthy AR E code (ex_intro _ _ F)); [apply inv_start | exact R].
  - intros n pc stk base o i k R N Ef. eapply (no_underflow V exec ofs truthy AR E code (ex_intro _ _ F)); eauto.
Qed.
Print Assumptions lowered_code_stack_depth.
(* the arity hypothesis is satisfiable: pop the operands, push as many results *)
Example exec_arity_satisfiable :
  exists exec : string -> list (sv Z) -> option (list (sv Z)),
  forall o stk stk' i k, exec o stk = Some stk' -> effect o = Some (i, k) ->
    (i <= List.length stk /\ List.length stk' = List.length stk - i + k)%nat.
Proof.
  exists (fun o stk => match effect o with
                       | Some (i, k) => if Nat.leb i (List.length stk) then Some (repeat (SV Z 0) k ++ skipn i stk)%list else None
                       | None => None end).
  intros o stk stk' i k H Ef. rewrite Ef in H. destruct (Nat.leb i (List.length stk)) eqn:L; [|discriminate].
  apply Nat.leb_le in L. inversion H; subst. split; [exact L|]. rewrite app_length, repeat_length, skipn_length. lia.
Qed.

(* _rewrite_return_sequences (RetRewrite.v, tied by exact output of compile_to_assembly on whole compiled contracts).
   The pass checks ONLY leaf names (ret_ofst / ret_len under `return`; return_pc as first or later argument of `exit_to`;
   return_buffer among the parameters of the enclosing label); it is the calling convention, not an optimisation:
   `exit_to` has no lowering of its own.  What it relies on, and what holds in the frames the front end builds
   (checked on every compiled contract by the shape check in tools/checks/c15.py): *)
Theorem return_sequence_identity_elsewhere : forall e ps, plain e = true -> rw ps e = Ok e.
Proof. intros e ps. apply rw_plain. Qed.
Print Assumptions return_sequence_identity_elsewhere.
Theorem return_sequence_return_sound :
  (forall f bd s, lower (S (S f)) exit_frame bd 2 ret_orig s = Ok ([Op "DUP2"; Op "DUP2"; Op "RETURN"], s)) /\
  (forall f bd s, lower (S (S f)) exit_frame bd 2 (Node "return" [pass_; pass_]) s = Ok ([Op "RETURN"], s)) /\
  (forall ofst len rest, run_code [Op "DUP2"; Op "DUP2"] (ofst :: len :: rest) = Some (ofst :: len :: ofst :: len :: rest)) /\
  (* ... and only at that height *)
  (forall c ofst len rest,
     run_code [Op "DUP3"; Op "DUP3"] (c :: ofst :: len :: rest) = Some (ofst :: len :: c :: ofst :: len :: rest) /\
     (c <> ofst -> firstn 2 (c :: ofst :: len :: rest) <> [ofst; len])).
Proof.
  split; [exact lower_return_orig|]. split; [exact lower_return_rw|]. split; [exact return_rewrite_sound|].
  exact return_rewrite_needs_height.
Qed.
Print Assumptions return_sequence_return_sound.
Theorem return_sequence_exit_sound :
  forall (V : Type) (exec : string -> list (sv V) -> option (list (sv V))) (ofs : string -> Z -> sv V) (truthy : sv V -> bool),
  (forall x r, exec "POP" (x :: r) = Some r) ->
  forall dest code pc p, pos dest code = Some p ->
  (forall rb rpc rest, nth_error code pc = Some (Op "POP") -> nth_error code (S pc) = Some (PushLbl dest) ->
     nth_error code (S (S pc)) = Some (Op "JUMP") ->
     step3 V exec ofs truthy code pc (rb :: rpc :: rest) = Some (p, rpc :: rest)) /\
  (forall l q rest, nth_error code pc = Some (Op "JUMP") -> pos l code = Some q ->
     mstep V exec ofs truthy code pc (SL V l :: rest) = Some (q, rest)).
Proof.
  intros V exec ofs truthy PS dest code pc p DP. split.
  - intros. eapply exit_buf_sound; eauto.
  - intros. eapply exit_return_sound; eauto.
Qed.
Print Assumptions return_sequence_exit_sound.

(* Value-level soundness of the lowering for the non-loop statement fragment (StmtSound.v), against the SAME meaning
   `eval` that the optimiser theorems use.  Fragment (frag): literals, with-variables of an enclosing scope, the 24 binary
   operators, iszero / not / ceil32, every EVM opcode node Syntax.v leaves uninterpreted (mstore sstore mload sload log
   call return revert ...; operands from the fragment), seq, if (2/3), assert, assert_unreachable, pass.  Machine: small
   steps over the whole assembly (pc, stack of words / label references, store); an uninterpreted opcode pops its
   operands and applies `opsem` to the store.  StmtOk: Syntax.v's sem_K of an opcode node = operands last-to-first, then
   opsem on their values; opsem leaves the variable part of the state alone; REVERT 0 0 / INVALID are the failed-assert
   observations.  For code placed anywhere in a program P with distinct labels (and the shared revert block present when
   an assert was lowered), from a stack whose with-variables sit where the lowerer assumes:
     eval e st = Norm v st'  =>  the machine reaches the end of the code with store st' and the value pushed (iff valency 1)
                                on the otherwise unchanged stack -- every effect once, in order, untaken branches nothing;
     eval e st = Halt h      =>  the machine halts with observation h.
   `with` / `set` are outside: Syntax.v gives them no fixed meaning (see StmtSound.v). *)
Theorem lower_stmt_sound :
  forall (M : Sem) (opsem : string -> list Z -> St M -> outcome (St M) (Hl M)), StmtOk M opsem ->
  forall f wa h e s code s', lower f wa None h e s = Ok (code, s') -> frag e -> rinv s ->
    mono s s' /\ rinv s' /\
    forall P pc, At P pc code -> NoDup (lbls P) -> (forall l, In (l, None) (lh s') -> RevBlock P l) ->
    forall stk st, StmtSound.aligned M stk h wa st -> List.length stk = h ->
      Reach M opsem P (pc, stk, st) (eval M e st) (Tgt M pc (List.length code) stk (Nat.eqb (valency e) 1)).
Proof. intros M opsem OK f wa. exact (lower_stmt_ok M opsem OK f wa). Qed.
Print Assumptions lower_stmt_sound.

(* optimiser soundness composed with lowering soundness: running the assembly of the OPTIMISED tree realises the meaning
   of the ORIGINAL tree (value, store, halting observation) *)
Theorem opt_then_lower_sound :
  forall (M : Sem) (opsem : string -> list Z -> St M -> outcome (St M) (Hl M)), SemOk M -> MergeSound.MemOk M -> StmtOk M opsem ->
  forall cancun e e', wf e -> OptTree.optimize cancun e = Ok e' -> frag e' ->
  forall f wa h s code s', lower f wa None h e' s = Ok (code, s') -> rinv s ->
    forall P pc, At P pc code -> NoDup (lbls P) -> (forall l, In (l, None) (lh s') -> RevBlock P l) ->
    forall stk st, StmtSound.aligned M stk h wa st -> List.length stk = h ->
      Reach M opsem P (pc, stk, st) (eval M e st) (Tgt M pc (List.length code) stk (Nat.eqb (valency e') 1)).
Proof.
  intros M opsem SO MO OK cancun e e' W OPT FR f wa h s code s' L R P pc A ND RB stk st AL LN.
  destruct (PropsOpt.optimize_sound M SO MO cancun e e' W OPT) as [EQ _]. rewrite (EQ st).
  destruct (lower_stmt_ok M opsem OK f wa h e' s code s' L FR R) as (_ & _ & S). apply S; assumption.
Qed.
Print Assumptions opt_then_lower_sound.
Example stmt_hypotheses_satisfiable : StmtOk TrSem tr_ops.
Proof. exact stmt_ok_satisfiable. Qed.

(* Whole programs (StmtLabels.v): for compile_to_assembly of a tree of the fragment the label hypotheses hold -- the placed
   labels are pairwise distinct (every mksymbol name is placed at most once), the shared revert label is not among them
   and its block is present -- so from the empty stack the emitted program realises the meaning of the tree; and the
   program emitted for the OPTIMISED tree realises the meaning of the ORIGINAL tree. *)
Theorem lower_program_stmt_sound :
  forall (M : Sem) (opsem : string -> list Z -> St M -> outcome (St M) (Hl M)), StmtOk M opsem ->
  forall e code, lower_top e = Ok code -> frag e ->
  exists body, (exists rest, code = (body ++ Op "STOP" :: rest)%list) /\
    forall st, Reach M opsem code (0%nat, [], st) (eval M e st)
                 (fun v st' => (List.length body, (if Nat.eqb (valency e) 1 then [VZ v] else []), st')).
Proof. exact lower_top_stmt. Qed.
Print Assumptions lower_program_stmt_sound.
Theorem opt_then_lower_program_sound :
  forall (M : Sem) (opsem : string -> list Z -> St M -> outcome (St M) (Hl M)), SemOk M -> MergeSound.MemOk M -> StmtOk M opsem ->
  forall cancun e e' code, wf e -> OptTree.optimize cancun e = Ok e' -> frag e' -> lower_top e' = Ok code ->
  exists body, (exists rest, code = (body ++ Op "STOP" :: rest)%list) /\
    forall st, Reach M opsem code (0%nat, [], st) (eval M e st)
                 (fun v st' => (List.length body, (if Nat.eqb (valency e') 1 then [VZ v] else []), st')).
Proof.
  intros M opsem SO MO OK cancun e e' code W OPT FR L.
  destruct (PropsOpt.optimize_sound M SO MO cancun e e' W OPT) as [EQ _].
  destruct (lower_top_stmt M opsem OK e' code L FR) as (body & HB & R). exists body. split; [exact HB|].
  intros st. rewrite (EQ st). apply R.
Qed.
Print Assumptions opt_then_lower_program_sound.
(* non-vacuity: a tree with effects under a branch and an assert is in the fragment and is lowered *)
Example stmt_fragment_nonvacuous :
  let e := Node "seq" [Node "mstore" [Lit 0; Node "add" [Node "sload" [Lit 1]; Lit 2]];
                       Node "if" [Node "lt" [Node "mload" [Lit 0]; Lit 10]; Node "sstore" [Lit 1; Lit 7]; Node "sstore" [Lit 2; Lit 8]];
                       Node "assert" [Node "iszero" [Node "sload" [Lit 2]]]] in
  frag e /\ exists code, lower_top e = Ok code.
Proof.
  split.
  - cbn. repeat split; try reflexivity; try (left; reflexivity); try (right; reflexivity); try (cbn; lia);
      try (intros C; cbn in C; intuition discriminate).
  - eexists. vm_compute. reflexivity.
Qed.

(* The hypotheses of the composition are jointly satisfiable (JointInst.v): ONE concrete state space -- byte memory x trace
   of all other effects, big-endian words, the seven memory nodes concrete, every other opcode strict in its operands
   and appended to the trace, halting opcodes as observations -- meets SemOk, MemOk and StmtOk at once. *)
From Verif Require C15.JointInst.
Theorem composition_hypotheses_satisfiable :
  SemOk JointInst.JSem /\ inhabited (MergeSound.MemOk JointInst.JSem) /\ StmtOk JointInst.JSem JointInst.jops.
Proof. exact JointInst.joint_instance. Qed.
Print Assumptions composition_hypotheses_satisfiable.

(* ... and opt_then_lower_program_sound instantiated with it on the tree of stmt_fragment_nonvacuous: the optimiser rewrites
   the tree (the if is flipped), the rewritten tree is lowered, and the emitted program, run on the pc machine from
   the empty stack, realises the meaning of the ORIGINAL tree in that state space, for every initial memory / trace *)
Definition stmt_example : expr :=
  Node "seq" [Node "mstore" [Lit 0; Node "add" [Node "sload" [Lit 1]; Lit 2]];
              Node "if" [Node "lt" [Node "mload" [Lit 0]; Lit 10]; Node "sstore" [Lit 1; Lit 7]; Node "sstore" [Lit 2; Lit 8]];
              Node "assert" [Node "iszero" [Node "sload" [Lit 2]]]].
Example composition_instance :
  exists e' code, OptTree.optimize true stmt_example = Ok e' /\ e' <> stmt_example /\ lower_top e' = Ok code /\
  exists body, (exists rest, code = (body ++ Op "STOP" :: rest)%list) /\
    forall st, Reach JointInst.JSem JointInst.jops code (0%nat, [], st) (eval JointInst.JSem stmt_example st)
                 (fun v st' => (List.length body, (if Nat.eqb (valency e') 1 then [VZ v] else []), st')).
Proof.
  let r := eval vm_compute in (OptTree.optimize true stmt_example) in
  match r with
  | Ok ?e' =>
      assert (OPT: OptTree.optimize true stmt_example = Ok e') by (vm_compute; reflexivity);
      let c := eval vm_compute in (lower_top e') in
      match c with
      | Ok ?code =>
          assert (L: lower_top e' = Ok code) by (vm_compute; reflexivity);
          exists e', code; split; [exact OPT|]; split; [discriminate|]; split; [exact L|];
          apply (opt_then_lower_program_sound JointInst.JSem JointInst.jops JointInst.JSemOk JointInst.JMemOk JointInst.JStmtOk
                   true stmt_example e' code); [| exact OPT | | exact L]
      end
  end.
  - cbn. unfold lit_ok, MINS, MAXU, HALF, W. repeat split; lia.
  - cbn. repeat split; try reflexivity; try (left; reflexivity); try (right; reflexivity); try (cbn; lia);
      try (intros C; cbn in C; intuition discriminate).
Qed.
(* the meaning itself, from the empty memory and trace: the effects in order (latest first), no halt *)
Example composition_instance_outcome :
  exists m, eval JointInst.JSem stmt_example ([], []) =
            Norm 0 (m, [("SLOAD", [2]); ("SSTORE", [1; 7]); ("SLOAD", [1])]%string).
Proof. eexists. vm_compute. reflexivity. Qed.
