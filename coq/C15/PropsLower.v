(* C15 (round 3): the compile_ir lowering of pure expressions is correct.
   Model C15/Lower.v (= _IRnodeLowerer._step_r for literals, variables, EVM opcodes, with, set, seq, pass, if, assert,
   assert_unreachable, le ge sle sge ne ceil32, select), tied to vyper/ir/compile_ir.py by exact output equality on
   seeded random trees; the opcode tables are regenerated from the source (GenUtils.v). *)
From Coq Require Import ZArith List String Lia.
From Verif Require Import Base.Word256 Base.PyInt C15.Syntax C15.GenUtils C15.Peephole C15.Lower C15.LowerSound.
Import ListNotations.
Open Scope Z_scope.

(* For every expression of the pure fragment (literals, with-variables, the 19 arithmetic / comparison / bitwise EVM
   opcodes, iszero, not, le ge sle sge ne, ceil32, select, with), every height bookkeeping state in which each variable
   sits in the stack slot the lowerer assumes, and every stack: running the emitted assembly pushes exactly the value
   of the expression and leaves the rest of the stack unchanged. *)
Theorem lower_sound :
  forall f wa h e s code s' pf en stk v,
    lower f wa h e s = Ok (code, s') -> aligned stk h wa en -> List.length stk = h ->
    peval pf en e = Some v -> runs code stk (v :: stk).
Proof. exact lower_pure_sound. Qed.
Print Assumptions lower_sound.

(* closed expressions, from an empty stack *)
Corollary lower_closed_sound :
  forall e code s' pf v,
    lower 64 [] 0 e {| cnt := 0; revl := None |} = Ok (code, s') -> peval pf [] e = Some v -> runs code [] [v].
Proof. intros e code s' pf v H P. eapply lower_pure_sound; eauto. constructor. Qed.

(* non-vacuity: operand order, DUP indices and pseudo-ops on a concrete expression:
   (with x 7 (sub (ceil32 x) (le x 3)))  =  32 - 0 *)
Definition run_lower (e : expr) : option (list Z) :=
  match lower 64 [] 0 e {| cnt := 0; revl := None |} with Ok (c, _) => run_code c [] | Err _ => None end.
Example lower_nonvacuous :
  let e := Node "with" [Var "x"; Lit 7; Node "sub" [Node "ceil32" [Var "x"]; Node "le" [Var "x"; Lit 3]]] in
  peval 10 [] e = Some 32 /\ run_lower e = Some [32].
Proof. split; vm_compute; reflexivity. Qed.
