(* C15 round 4: what _rewrite_return_sequences relies on.  The pass is not an optimisation of something that could be
   lowered without it (`exit_to` has no lowering); it is the calling convention.  Statements:
   - rw_plain: trees without `exit_to` and without `(return ret_ofst ret_len)` are left unchanged;
   - return_rewrite_*: in the frame the exit label of an external function establishes (var_list ret_ofst ret_len,
     nothing above the parameters: compile-time height 2) the original lowers to DUP2 DUP2 RETURN, the rewritten to RETURN,
     and RETURN sees the same two operands; with ONE more item on the stack (height 3) the rewritten RETURN sees other
     operands: the pass checks only the two names, soundness needs the height condition;
   - exit_*: on the pc machine of FlowSound.v, in the frame of an internal function (parameters only on the stack) the
     rewritten `exit_to` discards return_buffer, keeps return_pc as the single parameter of the clean-up label and
     arrives there; `(exit_to return_pc)` consumes return_pc and continues at that label with the caller's stack. *)
From Coq Require Import ZArith Bool List String Lia.
From Verif Require Import Base.Word256 Base.PyInt C15.Syntax C15.WordFacts C15.GenUtils C15.Peephole C15.Lower C15.LowerSound
  C15.OptSound C15.LowerFlow C15.FlowSound C15.RetRewrite.
Import ListNotations.
Open Scope Z_scope.

(* ---- the pass is the identity on trees it does not target ---- *)
Fixpoint plain (e : expr) : bool :=
  match e with
  | Node op args =>
      negb (String.eqb op "exit_to") && (negb (String.eqb op "label") || Nat.leb 2 (List.length args)) &&
      negb (String.eqb op "return" &&
            match args with a0 :: a1 :: _ => is_leaf a0 "ret_ofst" && is_leaf a1 "ret_len" | _ => false end) &&
      forallb plain args
  | _ => true
  end.
Theorem rw_plain e : forall ps, plain e = true -> rw ps e = Ok e.
Proof.
  induction e as [v|x|op args IH] using expr_ind2; intros ps P; try reflexivity.
  cbn [plain] in P. apply andb_true_iff in P. destruct P as [P P3]. apply andb_true_iff in P. destruct P as [P P2].
  apply andb_true_iff in P. destruct P as [P1 PL]. apply negb_true_iff in P1, P2.
  assert (G: forall ps' l, Forall (fun e => forall ps, plain e = true -> rw ps e = Ok e) l -> forallb plain l = true ->
             (fix go (l : list expr) : res (list expr) :=
                match l with [] => Ok [] | x :: t => x' <- rw ps' x ;; t' <- go t ;; Ok (x' :: t') end) l = Ok l).
  { clear. intros ps'. induction 1 as [|x t Hx Ht IHt]; intros F; [reflexivity|]. cbn [forallb] in F.
    apply andb_true_iff in F. destruct F as [Fx Ft]. rewrite (Hx ps' Fx). cbn [bind]. rewrite (IHt Ft). reflexivity. }
  cbn [rw]. rewrite P1.
  destruct (String.eqb op "return") eqn:ER.
  - cbn [andb] in P2. destruct args as [|a0 [|a1 t]]; try (first [reflexivity | rewrite (G ps _ IH P3); reflexivity]).
    rewrite P2. rewrite (G ps _ IH P3). reflexivity.
  - destruct (String.eqb op "label") eqn:EL; [|rewrite (G ps _ IH P3); reflexivity].
    cbn [negb orb] in PL. destruct args as [|a0 [|vl t]]; try discriminate PL.
    rewrite (G _ _ IH P3). reflexivity.
Qed.

(* ---- (return ret_ofst ret_len) ---- *)
Definition exit_frame : list (string * nat) := [("ret_ofst", 1%nat); ("ret_len", 0%nat)].   (* var_list ret_ofst ret_len *)
Definition ret_orig : expr := Node "return" [Var "ret_ofst"; Var "ret_len"].
Lemma rw_return ps : rw ps ret_orig = Ok (Node "return" [pass_; pass_]).
Proof. reflexivity. Qed.
Lemma lower_return_orig f bd s : lower (S (S f)) exit_frame bd 2 ret_orig s = Ok ([Op "DUP2"; Op "DUP2"; Op "RETURN"], s).
Proof. reflexivity. Qed.
Lemma lower_return_rw f bd s : lower (S (S f)) exit_frame bd 2 (Node "return" [pass_; pass_]) s = Ok ([Op "RETURN"], s).
Proof. reflexivity. Qed.
(* at height 2 the copies DUP2 DUP2 are the two parameters themselves: RETURN sees the same (offset, length) *)
Theorem return_rewrite_sound ofst len rest :
  run_code [Op "DUP2"; Op "DUP2"] (ofst :: len :: rest) = Some (ofst :: len :: ofst :: len :: rest).
Proof. reflexivity. Qed.
(* one more item above the parameters: the lowerer copies the parameters (DUP3 DUP3) but the rewritten RETURN takes
   whatever is on top.  The pass does not check this; the front end only emits the node directly in the exit label. *)
Lemma lower_return_orig_h3 f bd s : lower (S (S f)) exit_frame bd 3 ret_orig s = Ok ([Op "DUP3"; Op "DUP3"; Op "RETURN"], s).
Proof. reflexivity. Qed.
Theorem return_rewrite_needs_height c ofst len rest :
  run_code [Op "DUP3"; Op "DUP3"] (c :: ofst :: len :: rest) = Some (ofst :: len :: c :: ofst :: len :: rest) /\
  (c <> ofst -> firstn 2 (c :: ofst :: len :: rest) <> [ofst; len]).
Proof. split; [reflexivity|]. intros N H. inversion H. contradiction. Qed.

(* ---- exit_to on the pc machine ---- *)
Section Exit.
Variable V : Type.                                            (*section*)
Variable exec : string -> list (sv V) -> option (list (sv V)). (*section*)
Variable ofs : string -> Z -> sv V.                           (*section*)
Variable truthy : sv V -> bool.                               (*section*)
Hypothesis pop_sem : forall x r, exec "POP" (x :: r) = Some r. (*section*)
Variable dest : string.                                       (*section*)
Hypothesis dest_name : String.eqb dest "return_pc" = false.   (*section*)

Definition frame_buf : list (string * nat) := [("return_buffer", 1%nat); ("return_pc", 0%nat)].  (* var_list return_buffer return_pc *)
Definition frame_pc : list (string * nat) := [("return_pc", 0%nat)].
Definition exit_node : expr := Node "exit_to" [Var dest; Var "return_pc"].

Lemma rw_exit_buf : rw (Some ["return_buffer"; "return_pc"]%string) exit_node
  = Ok (Node "seq" [Node "pop" [pass_]; Node "goto" [Var dest; pass_]]).
Proof. unfold exit_node. cbn [rw is_leaf]. rewrite dest_name. reflexivity. Qed.
Lemma rw_exit_pc : rw (Some ["return_pc"]%string) exit_node = Ok (Node "seq" [Node "goto" [Var dest; pass_]]).
Proof. unfold exit_node. cbn [rw is_leaf]. rewrite dest_name. reflexivity. Qed.
Lemma rw_exit_return ps : rw ps (Node "exit_to" [Var "return_pc"]) = Ok (Node "jump" [pass_]).
Proof. reflexivity. Qed.
Lemma lower_exit_buf f bd s :
  lower (S (S (S (S f)))) frame_buf bd 2 (Node "seq" [Node "pop" [pass_]; Node "goto" [Var dest; pass_]]) s
  = Ok ([Op "POP"; PushLbl dest; Op "JUMP"], s).
Proof. reflexivity. Qed.
Lemma lower_exit_pc f bd s :
  lower (S (S (S (S f)))) frame_pc bd 1 (Node "seq" [Node "goto" [Var dest; pass_]]) s = Ok ([PushLbl dest; Op "JUMP"], s).
Proof. reflexivity. Qed.
Lemma lower_exit_return f bd s : lower (S (S (S f))) frame_pc bd 1 (Node "jump" [pass_]) s = Ok ([Op "JUMP"], s).
Proof. reflexivity. Qed.

Variable code : list item.       (*section*)
Variable pc p : nat.             (*section*)
Hypothesis dest_pos : pos dest code = Some p.   (*section*)
Notation stepm := (mstep V exec ofs truthy code).
Definition step3 (pc : nat) (stk : list (sv V)) : option (nat * list (sv V)) :=
  match stepm pc stk with
  | Some (pc1, s1) => match stepm pc1 s1 with Some (pc2, s2) => stepm pc2 s2 | None => None end
  | None => None
  end.

(* internal function with a return buffer: the frame [return_buffer; return_pc] becomes the frame [return_pc] of
   the clean-up label, on top of the caller's stack *)
Theorem exit_buf_sound rb rpc rest :
  nth_error code pc = Some (Op "POP") -> nth_error code (S pc) = Some (PushLbl dest) ->
  nth_error code (S (S pc)) = Some (Op "JUMP") ->
  step3 pc (rb :: rpc :: rest) = Some (p, rpc :: rest).
Proof.
  intros N0 N1 N2. unfold step3, mstep. rewrite N0. cbn [String.eqb Ascii.eqb Bool.eqb terminal existsb orb].
  rewrite pop_sem, N1, N2. cbn [String.eqb Ascii.eqb Bool.eqb]. rewrite dest_pos. reflexivity.
Qed.
Theorem exit_pc_sound rpc rest :
  nth_error code pc = Some (PushLbl dest) -> nth_error code (S pc) = Some (Op "JUMP") ->
  match stepm pc (rpc :: rest) with Some (pc1, s1) => stepm pc1 s1 | None => None end = Some (p, rpc :: rest).
Proof.
  intros N0 N1. unfold mstep. rewrite N0, N1. cbn [String.eqb Ascii.eqb Bool.eqb]. rewrite dest_pos. reflexivity.
Qed.
(* (exit_to return_pc): the frame [return_pc] is consumed; control continues at that label with the caller's stack *)
Theorem exit_return_sound l q rest :
  nth_error code pc = Some (Op "JUMP") -> pos l code = Some q ->
  stepm pc (SL V l :: rest) = Some (q, rest).
Proof. intros N0 P. unfold mstep. rewrite N0. cbn [String.eqb Ascii.eqb Bool.eqb]. rewrite P. reflexivity. Qed.
End Exit.
