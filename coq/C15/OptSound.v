(* C15 part 2: every rewrite of _optimize_binop / _comparison_helper (model: Optimizer.v) preserves the
   meaning of the node for every compositional semantics of the rest of the language (Syntax.Sem):
   same final state / halting observation and same value; in truthy contexts same truthiness. *)
From Coq Require Import ZArith Bool List String Lia.
From Verif Require Import Base.Word256 Base.PyInt Base.WordLemmas C15.Syntax C15.WordFacts C15.GenUtils C15.Optimizer C15.FoldSound.
Import ListNotations.
Open Scope Z_scope.

(* induction principle for the rose tree *)
Section ExprInd.
Variable P : expr -> Prop. (*section*)
Hypothesis HL : forall v, P (Lit v). (*section*)
Hypothesis HV : forall x, P (Var x). (*section*)
Hypothesis HN : forall op args, Forall P args -> P (Node op args). (*section*)
Fixpoint expr_ind2 (e : expr) : P e :=
  match e with
  | Lit v => HL v
  | Var x => HV x
  | Node op args =>
      HN op args ((fix go (l : list expr) : Forall P l :=
                    match l with [] => Forall_nil P | x :: t => Forall_cons x (expr_ind2 x) (go t) end) args)
  end.
End ExprInd.

Lemma wf_node op args : wf (Node op args) <-> Forall wf args.
Proof.
  cbn [wf]. induction args as [|x t IH]; [split; auto|].
  split; intros H.
  - destruct H as [H1 H2]. constructor; [exact H1 | apply IH; exact H2].
  - inversion H; subst. split; [assumption | apply IH; assumption].
Qed.
Lemma wf_bin o a b : wf (Bin o a b) <-> wf a /\ wf b.
Proof. unfold Bin. cbn [wf]. tauto. Qed.
Lemma wf_un o a : wf (Un o a) <-> wf a.
Proof. unfold Un. cbn [wf]. tauto. Qed.
Lemma wf_seq1 a : wf (Seq1 a) <-> wf a.
Proof. unfold Seq1. cbn [wf]. tauto. Qed.

Lemma kind_of_bop o : kind_of (bop_name o) = KBin o.
Proof. destruct o; reflexivity. Qed.
Lemma kind_of_uop o : kind_of (uop_name o) = KUn o.
Proof. destruct o; reflexivity. Qed.

Section S.
Variable SM : Sem. (*section*)
Hypothesis OK : SemOk SM. (*section*)
Notation ev := (eval SM).

Definition equiv_val (e e' : expr) : Prop := forall s, ev e s = ev e' s.
Definition oeq_truthy (o o' : outcome (St SM) (Hl SM)) : Prop :=
  match o, o' with
  | Norm v s, Norm v' s' => s = s' /\ (v =? 0) = (v' =? 0)
  | Halt h, Halt h' => h = h'
  | _, _ => False
  end.
(* truthy = true: same final state / halting, same truthiness;  truthy = false: identical outcome *)
Definition equiv (truthy : bool) (e e' : expr) : Prop :=
  forall s, if truthy then oeq_truthy (ev e s) (ev e' s) else ev e s = ev e' s.
Lemma oeq_truthy_refl o : oeq_truthy o o.
Proof. destruct o; cbn; auto. Qed.
Lemma equiv_val_any t e e' : equiv_val e e' -> equiv t e e'.
Proof. intros H s. destruct t; [rewrite (H s); apply oeq_truthy_refl | apply H]. Qed.

Lemma eval_bin o a b s :
  ev (Bin o a b) s =
  match ev b s with
  | Norm vb s1 => match ev a s1 with Norm va s2 => Norm (bop_sem o va vb) s2 | Halt h => Halt h end
  | Halt h => Halt h
  end.
Proof. unfold Bin. cbn [eval]. rewrite kind_of_bop. unfold bindd, ret. destruct (ev b s); [|reflexivity]. destruct (ev a s0); reflexivity. Qed.
Lemma eval_un o a s :
  ev (Un o a) s = match ev a s with Norm va s1 => Norm (uop_sem o va) s1 | Halt h => Halt h end.
Proof. unfold Un. cbn [eval]. rewrite kind_of_uop. destruct o; unfold bindd, ret; destruct (ev a s); reflexivity. Qed.
Lemma eval_seq1 a s : ev (Seq1 a) s = ev a s.
Proof. reflexivity. Qed.
Lemma eval_lit v s : ev (Lit v) s = Norm (wrap v) s.
Proof. reflexivity. Qed.

Lemma seq_den_range (ds : list (den SM)) :
  Forall (fun d => forall s v s', d s = Norm v s' -> inw v) ds ->
  forall s v s', seq_den SM ds s = Norm v s' -> inw v.
Proof.
  induction ds as [|d t IH]; intros F s v s' H.
  - cbn in H. inversion H. unfold inw. wl.
  - inversion F as [|? ? Fd Ft]; subst. destruct t as [|d2 t2].
    + cbn [seq_den] in H. eapply Fd; eauto.
    + cbn [seq_den] in H. unfold bindd in H. destruct (d s) as [v0 s0|]; [|discriminate].
      eapply IH; eauto.
Qed.

Lemma eval_range e : forall s v s', ev e s = Norm v s' -> inw v.
Proof.
  induction e as [l|x|op args IH] using expr_ind2; intros s v s' H.
  - cbn in H. inversion H. apply wrap_range.
  - cbn in H. inversion H. apply wrap_range.
  - cbn [eval] in H.
    assert (KO: sem_K SM op (map ev args) s = Norm v s' -> inw v) by (intros E; eapply (K_range SM OK); eauto).
    assert (KO0: sem_K SM op [] s = Norm v s' -> inw v) by (intros E; eapply (K_range SM OK); eauto).
    destruct (kind_of op) eqn:Kd.
    + (* bin *) destruct args as [|a [|b [|c r]]]; auto. inversion IH as [|? ? Ia Ib']; subst. inversion Ib' as [|? ? Ib _]; subst.
      unfold bindd, ret in H. destruct (ev b s) as [vb s1|] eqn:Eb; [|discriminate].
      destruct (ev a s1) as [va s2|] eqn:Ea; [|discriminate]. inversion H. apply bop_sem_range; eauto.
    + (* un *) destruct o; destruct args as [|a [|b r]]; auto; inversion IH as [|? ? Ia _]; subst;
      unfold bindd, ret in H; (destruct (ev a s) as [va s1|] eqn:Ea; [|discriminate]);
      injection H as Hv Hs; rewrite <- Hv; [apply (uop_sem_range U_iszero) | apply (uop_sem_range U_not)]; eauto.
    + (* ceil32 *) destruct args as [|a [|b r]]; auto. inversion IH as [|? ? Ia _]; subst.
      unfold bindd, ret in H. destruct (ev a s) as [va s1|] eqn:Ea; [|discriminate]. inversion H. apply ceil32_sem_range; eauto.
    + (* seq *) eapply seq_den_range; [|exact H]. clear H KO. induction IH; cbn; constructor; auto.
    + (* if *) destruct args as [|c [|t [|f [|g r]]]]; auto.
      * inversion IH as [|? ? Ic It']; subst. inversion It' as [|? ? It _]; subst.
        unfold bindd, ret in H. destruct (ev c s) as [vc s1|]; [|discriminate].
        destruct (vc =? 0); [inversion H; unfold inw; wl | eauto].
      * inversion IH as [|? ? Ic It']; subst. inversion It' as [|? ? It If']; subst. inversion If' as [|? ? If_ _]; subst.
        unfold bindd in H. destruct (ev c s) as [vc s1|]; [|discriminate]. destruct (vc =? 0); eauto.
    + (* assert *) destruct args as [|c [|t r]]; auto.
      unfold bindd, ret in H. destruct (ev c s) as [vc s1|]; [|discriminate].
      destruct (vc =? 0); [discriminate | inversion H; unfold inw; wl].
    + destruct args as [|c [|t r]]; auto.
      unfold bindd, ret in H. destruct (ev c s) as [vc s1|]; [|discriminate].
      destruct (vc =? 0); [discriminate | inversion H; unfold inw; wl].
    + (* pass *) destruct args; auto. cbn in H. inversion H. unfold inw; wl.
    + auto.
Qed.

(* value of a template given the values of the two slots *)
Fixpoint tsem (t : tmpl) (vx vy : Z) : Z :=
  match t with
  | TLit c => wrap c | TX => vx | TY => vy
  | TUn o t => uop_sem o (tsem t vx vy)
  | TBin o t1 t2 => bop_sem o (tsem t1 vx vy) (tsem t2 vx vy)
  | TSeq1 t => tsem t vx vy
  end.
Fixpoint cntX (t : tmpl) : nat :=
  match t with
  | TX => 1 | TLit _ | TY => 0
  | TUn _ t | TSeq1 t => cntX t
  | TBin _ t1 t2 => cntX t1 + cntX t2
  end.
Fixpoint cntY (t : tmpl) : nat :=
  match t with
  | TY => 1 | TLit _ | TX => 0
  | TUn _ t | TSeq1 t => cntY t
  | TBin _ t1 t2 => cntY t1 + cntY t2
  end.
Fixpoint twf (t : tmpl) : Prop :=
  match t with
  | TLit c => lit_ok c | TX | TY => True
  | TUn _ t | TSeq1 t => twf t
  | TBin _ t1 t2 => twf t1 /\ twf t2
  end.

Lemma usesX_cnt t : usesX t = false <-> cntX t = 0%nat.
Proof.
  induction t; cbn; try tauto; try (split; congruence).
  rewrite orb_false_iff, IHt1, IHt2. lia.
Qed.
Lemma usesY_cnt t : usesY t = false <-> cntY t = 0%nat.
Proof.
  induction t; cbn; try tauto; try (split; congruence).
  rewrite orb_false_iff, IHt1, IHt2. lia.
Qed.

Lemma inst_wf t x y : twf t -> wf x -> wf y -> wf (inst t x y).
Proof.
  induction t; cbn [twf inst]; intros; auto.
  - apply wf_un; auto.
  - apply wf_bin; split; tauto.
  - apply wf_seq1; auto.
Qed.

(* a non-complex node has no effect; its value is read from the current state *)
Definition pval (e : expr) (s : St SM) : Z :=
  match e with Lit v => wrap v | Var x => wrap (getvar SM s x) | _ => 0 end.
Lemma noncomplex_pure e : is_complex e = false -> forall s, ev e s = Norm (pval e s) s.
Proof. destruct e; cbn; intros; try discriminate; reflexivity. Qed.
Lemma pval_range e s : inw (pval e s).
Proof. destruct e; cbn; try apply wrap_range. unfold inw; wl. Qed.

Lemma tsem_noX t vy : cntX t = 0%nat -> forall a b, tsem t a vy = tsem t b vy.
Proof.
  induction t; cbn [cntX tsem]; intros C a b; try discriminate; auto.
  - rewrite (IHt C a b). reflexivity.
  - rewrite (IHt1 ltac:(lia) a b), (IHt2 ltac:(lia) a b). reflexivity.
Qed.

Lemma tsem_noY t vx : cntY t = 0%nat -> forall a b, tsem t vx a = tsem t vx b.
Proof.
  induction t; cbn [cntY tsem]; intros C a b; try discriminate; auto.
  - rewrite (IHt C a b). reflexivity.
  - rewrite (IHt1 ltac:(lia) a b), (IHt2 ltac:(lia) a b). reflexivity.
Qed.

(* instantiation when the other slot is a constant without effect *)
Lemma instX_0 t x y vy :
  (forall s, ev y s = Norm vy s) -> cntX t = 0%nat ->
  forall vx s, ev (inst t x y) s = Norm (tsem t vx vy) s.
Proof.
  intros Py. induction t; cbn [cntX inst tsem]; intros C vx s; try discriminate.
  - reflexivity.
  - apply Py.
  - rewrite eval_un, (IHt C vx). reflexivity.
  - rewrite eval_bin. rewrite (IHt2 ltac:(lia) vx). rewrite (IHt1 ltac:(lia) vx). reflexivity.
  - rewrite eval_seq1. apply IHt; assumption.
Qed.
Lemma instX_1 t x y vy :
  (forall s, ev y s = Norm vy s) -> cntX t = 1%nat ->
  forall s, ev (inst t x y) s =
    match ev x s with Norm vx s' => Norm (tsem t vx vy) s' | Halt h => Halt h end.
Proof.
  intros Py. induction t; cbn [cntX inst tsem]; intros C s; try discriminate.
  - destruct (ev x s); reflexivity.
  - rewrite eval_un, IHt by assumption. destruct (ev x s); reflexivity.
  - rewrite eval_bin. destruct (cntX t2) eqn:C2.
    + rewrite (instX_0 t2 x y vy Py C2 0). rewrite (IHt1 ltac:(lia)).
      destruct (ev x s) as [vx s'|]; [|reflexivity].
      rewrite (tsem_noX t2 vy C2 0 vx). reflexivity.
    + rewrite (IHt2 ltac:(lia)). destruct (ev x s) as [vx s'|]; [|reflexivity].
      rewrite (instX_0 t1 x y vy Py ltac:(lia) vx). reflexivity.
  - rewrite eval_seq1. apply IHt; assumption.
Qed.
Lemma instY_0 t x y vx :
  (forall s, ev x s = Norm vx s) -> cntY t = 0%nat ->
  forall vy s, ev (inst t x y) s = Norm (tsem t vx vy) s.
Proof.
  intros Px. induction t; cbn [cntY inst tsem]; intros C vy s; try discriminate.
  - reflexivity.
  - apply Px.
  - rewrite eval_un, (IHt C vy). reflexivity.
  - rewrite eval_bin. rewrite (IHt2 ltac:(lia) vy). rewrite (IHt1 ltac:(lia) vy). reflexivity.
  - rewrite eval_seq1. apply IHt; assumption.
Qed.
Lemma instY_1 t x y vx :
  (forall s, ev x s = Norm vx s) -> cntY t = 1%nat ->
  forall s, ev (inst t x y) s =
    match ev y s with Norm vy s' => Norm (tsem t vx vy) s' | Halt h => Halt h end.
Proof.
  intros Px. induction t; cbn [cntY inst tsem]; intros C s; try discriminate.
  - destruct (ev y s); reflexivity.
  - rewrite eval_un, IHt by assumption. destruct (ev y s); reflexivity.
  - rewrite eval_bin. destruct (cntY t2) eqn:C2.
    + rewrite (instY_0 t2 x y vx Px C2 0). rewrite (IHt1 ltac:(lia)).
      destruct (ev y s) as [vy s'|]; [|reflexivity].
      rewrite (tsem_noY t2 vx C2 0 vy). reflexivity.
    + rewrite (IHt2 ltac:(lia)). destruct (ev y s) as [vy s'|]; [|reflexivity].
      rewrite (instY_0 t1 x y vx Px ltac:(lia) vy). reflexivity.
  - rewrite eval_seq1. apply IHt; assumption.
Qed.

Lemma finalize_inv x y t e' :
  finalize x y t = Some e' ->
  e' = inst t x y /\ (cntX t = 0%nat -> is_complex x = false) /\ (cntY t = 0%nat -> is_complex y = false).
Proof.
  unfold finalize. intros H.
  destruct ((is_complex x && negb (usesX t)) || (is_complex y && negb (usesY t))) eqn:E; [discriminate|].
  apply orb_false_iff in E. destruct E as [E1 E2]. inversion H. split; [reflexivity|]. split; intros C.
  - apply usesX_cnt in C. rewrite C in E1. cbn in E1. rewrite andb_true_r in E1. exact E1.
  - apply usesY_cnt in C. rewrite C in E2. cbn in E2. rewrite andb_true_r in E2. exact E2.
Qed.


(* generic rule lemma: the second argument is a literal *)
Lemma rule_lit_y o x v T e' :
  wf x -> lit_ok v -> twf T ->
  finalize x (Lit v) T = Some e' -> (cntX T <= 1)%nat ->
  (forall vx, inw vx -> tsem T vx (wrap v) = bop_sem o vx (wrap v)) ->
  equiv_val (Bin o x (Lit v)) e' /\ wf e'.
Proof.
  intros Wx Wv WT F C S. apply finalize_inv in F. destruct F as [-> [Fx _]].
  split; [|apply inst_wf; auto].
  intros s. rewrite eval_bin, eval_lit.
  destruct (cntX T) as [|[|n]] eqn:CT; [| |lia].
  - rewrite (noncomplex_pure x (Fx eq_refl)).
    rewrite (instX_0 T x (Lit v) (wrap v) (fun s => eq_refl) CT (pval x s)).
    rewrite S by apply pval_range. reflexivity.
  - rewrite (instX_1 T x (Lit v) (wrap v) (fun s => eq_refl) CT).
    destruct (ev x s) as [vx s'|] eqn:E; [|reflexivity].
    rewrite S by (eapply eval_range; eauto). reflexivity.
Qed.
(* ... the first argument is a literal *)
Lemma rule_lit_x o v y T e' :
  wf y -> lit_ok v -> twf T ->
  finalize (Lit v) y T = Some e' -> (cntY T <= 1)%nat ->
  (forall vy, inw vy -> tsem T (wrap v) vy = bop_sem o (wrap v) vy) ->
  equiv_val (Bin o (Lit v) y) e' /\ wf e'.
Proof.
  intros Wy Wv WT F C S. apply finalize_inv in F. destruct F as [-> [_ Fy]].
  split; [|apply inst_wf; auto].
  intros s. rewrite eval_bin.
  destruct (cntY T) as [|[|n]] eqn:CT; [| |lia].
  - rewrite (noncomplex_pure y (Fy eq_refl)). rewrite eval_lit.
    rewrite (instY_0 T (Lit v) y (wrap v) (fun s => eq_refl) CT (pval y s)).
    rewrite S by apply pval_range. reflexivity.
  - rewrite (instY_1 T (Lit v) y (wrap v) (fun s => eq_refl) CT).
    destruct (ev y s) as [vy s'|] eqn:E; [|reflexivity]. rewrite eval_lit.
    rewrite S by (eapply eval_range; eauto). reflexivity.
Qed.

(* ---- literal views ---- *)
Lemma int_is_inv u y c : wf y -> int_is u y c = true ->
  exists v, y = Lit v /\ lit_ok v /\ (if u then wrap v else to_signed (wrap v)) = c.
Proof.
  destruct y; cbn [int_is wf]; intros W H; try discriminate.
  exists v. split; [reflexivity|]. split; [assumption|]. apply Z.eqb_eq in H.
  destruct u; [rewrite evm_int_u in H | rewrite evm_int_s in H]; auto.
Qed.
Lemma signed_view w c : inw w -> to_signed w = c -> w = wrap c.
Proof. intros H <-. symmetry. apply wrap_to_signed. exact H. Qed.
Lemma view_val (u : bool) v c : (if u then wrap v else to_signed (wrap v)) = c -> wrap v = wrap c.
Proof.
  destruct u; intros H.
  - rewrite <- H. symmetry. apply wrap_wrap.
  - apply signed_view; [apply wrap_range | exact H].
Qed.
Lemma wrap_0 : wrap 0 = 0. Proof. reflexivity. Qed.
Lemma wrap_1 : wrap 1 = 1. Proof. reflexivity. Qed.
Lemma wrap_m1 : wrap (-1) = MAXU. Proof. reflexivity. Qed.
Lemma lit_ok_0 : lit_ok 0. Proof. wl. Qed.
Lemma lit_ok_1 : lit_ok 1. Proof. wl. Qed.

(* ---- word identities ---- *)
Lemma to_signed_0 : to_signed 0 = 0. Proof. reflexivity. Qed.
Lemma to_signed_1 : to_signed 1 = 1. Proof. reflexivity. Qed.
Lemma to_signed_MAXU : to_signed MAXU = -1. Proof. reflexivity. Qed.

Lemma id_zero o x : inw x -> memb o [B_add; B_sub; B_xor; B_or] = true -> bop_sem o x 0 = x.
Proof.
  unfold inw. intros H M. destruct o; try discriminate; cbn [bop_sem].
  - unfold w_add. rewrite Z.add_0_r. apply mod_small_W; lia.
  - unfold w_sub. rewrite Z.sub_0_r. apply mod_small_W; lia.
  - unfold w_or. apply Z.lor_0_r.
  - unfold w_xor. apply Z.lxor_0_r.
Qed.
Lemma zero_zero o x : inw x -> memb o [B_mul; B_div; B_sdiv; B_mod; B_smod; B_and] = true -> bop_sem o x 0 = 0.
Proof.
  intros H M. destruct o; try discriminate; cbn [bop_sem]; try reflexivity.
  - unfold w_mul. rewrite Z.mul_0_r. reflexivity.
  - unfold w_and. apply Z.land_0_r.
Qed.
Lemma mod_one o x : inw x -> memb o [B_mod; B_smod] = true -> bop_sem o x 1 = 0.
Proof.
  intros H M. destruct o; try discriminate; cbn [bop_sem].
  - unfold w_mod. change (1 =? 0) with false. cbv iota. apply Z.mod_1_r.
  - unfold w_smod. change (1 =? 0) with false. cbv iota. rewrite to_signed_1, Z.rem_1_r. reflexivity.
Qed.
Lemma id_one o x : inw x -> memb o [B_mul; B_div; B_sdiv] = true -> bop_sem o x 1 = x.
Proof.
  intros H M. pose proof H as H'. unfold inw in H'. destruct o; try discriminate; cbn [bop_sem].
  - unfold w_mul. rewrite Z.mul_1_r. apply mod_small_W; lia.
  - unfold w_div. change (1 =? 0) with false. cbv iota. apply Z.div_1_r.
  - unfold w_sdiv. change (1 =? 0) with false. cbv iota. rewrite to_signed_1, Z.quot_1_r.
    apply wrap_to_signed. exact H.
Qed.
Lemma neg_one o x : inw x -> memb o [B_mul; B_sdiv] = true -> bop_sem o x MAXU = bop_sem B_sub 0 x.
Proof.
  intros H M. pose proof H as H'. unfold inw in H'. destruct o; try discriminate; cbn [bop_sem]; unfold w_sub.
  - unfold w_mul, MAXU. replace (x * (W - 1)) with (0 - x + x * W) by lia. apply Z_mod_plus_full.
  - unfold w_sdiv. change (MAXU =? 0) with false. cbv iota. rewrite to_signed_MAXU.
    change (-1) with (Z.opp 1). rewrite Z.quot_opp_r by lia. rewrite Z.quot_1_r. unfold of_signed, to_signed.
    destruct (x <? HALF); [reflexivity|].
    replace (- (x - W)) with (0 - x + 1 * W) by lia. apply Z_mod_plus_full.
Qed.
Lemma land_maxu x : inw x -> Z.land x MAXU = x.
Proof. unfold inw; intros H. rewrite MAXU_ones, Z.land_ones by lia. rewrite pow256. apply Z.mod_small; lia. Qed.
Lemma lxor_maxu x : inw x -> Z.lxor x MAXU = MAXU - x.
Proof. intros H. rewrite Z.lxor_comm, MAXU_ones, lxor_max by exact H. reflexivity. Qed.
Lemma lor_maxu x : inw x -> Z.lor x MAXU = MAXU.
Proof.
  intros H. apply Z.bits_inj'. intros n Hn. rewrite Z.lor_spec, (word_bits x n H), MAXU_ones.
  rewrite Z.testbit_ones_nonneg by lia. destruct (n <? 256); [apply orb_true_r | reflexivity].
Qed.
Lemma sub_maxu x : inw x -> w_sub MAXU x = w_not x.
Proof. unfold inw, w_sub, w_not, MAXU. intros H. apply mod_small_W. lia. Qed.

Lemma exp_0_r x : w_exp x 0 = 1. Proof. reflexivity. Qed.
Lemma exp_1_r x : inw x -> w_exp x 1 = x.
Proof. unfold inw; intros H. unfold w_exp. cbn [Word256.powmod Word256.powmod_pos]. apply Z.mod_small; lia. Qed.
Lemma exp_1_l n : inw n -> w_exp 1 n = 1.
Proof. unfold inw; intros H. rewrite w_exp_eq by lia. unfold w_exp_spec. rewrite Z.pow_1_l by lia. reflexivity. Qed.
Lemma exp_0_l n : inw n -> w_exp 0 n = w_iszero n.
Proof.
  unfold inw; intros H. rewrite w_exp_eq by lia. unfold w_exp_spec, w_iszero.
  destruct (n =? 0) eqn:E; [apply Z.eqb_eq in E; subst; reflexivity|]. apply Z.eqb_neq in E.
  rewrite Z.pow_0_l by lia. reflexivity.
Qed.

(* powers of two *)
Lemma pow2b_spec p : 0 < p -> pow2b p = true -> p = 2 ^ Z.log2 p.
Proof.
  intros Hp H. unfold pow2b in H. apply andb_true_iff in H. destruct H as [_ H]. apply Z.eqb_eq in H.
  pose proof (Z.log2_spec p Hp) as [L U]. destruct (Z.eq_dec p (2 ^ Z.log2 p)) as [E|N]; [exact E|exfalso].
  assert (B1: Z.testbit p (Z.log2 p) = true) by (apply Z.bit_log2; lia).
  assert (L2: Z.log2 (p - 1) = Z.log2 p).
  { apply Z.log2_unique; [apply Z.log2_nonneg|]. replace (Z.succ (Z.log2 p)) with (Z.log2 p + 1) in U by lia.
    replace (Z.log2 p + 1) with (Z.succ (Z.log2 p)) by lia. lia. }
  assert (B2: Z.testbit (p - 1) (Z.log2 p) = true).
  { rewrite <- L2. apply Z.bit_log2. pose proof (pow2_pos (Z.log2 p) (Z.log2_nonneg p)). lia. }
  assert (B: Z.testbit (Z.land p (p - 1)) (Z.log2 p) = true) by (rewrite Z.land_spec, B1, B2; reflexivity).
  rewrite H, Z.bits_0 in B. discriminate.
Qed.
Lemma ilog2_pos p : 0 < p -> ilog2 p = Z.log2 p.
Proof.
  intros H. unfold ilog2, py_bit_length. rewrite Z.abs_eq by lia. destruct p; try lia.
Qed.
Lemma pow2_facts p : 0 <= p < W -> pow2b p = true ->
  0 <= ilog2 p < 256 /\ p = 2 ^ ilog2 p.
Proof.
  intros R H. assert (Hp: 0 < p).
  { unfold pow2b in H. apply andb_true_iff in H. destruct H as [H _]. apply negb_true_iff, Z.eqb_neq in H. lia. }
  rewrite ilog2_pos by exact Hp. split; [|apply pow2b_spec; auto].
  split; [apply Z.log2_nonneg|]. destruct (word_log2 p R); lia.
Qed.

(* ================= comparison helper ================= *)
Definition vw (u : bool) (z : Z) : Z := if u then z else to_signed z.
Definition rel_sem (o : bop) (a b : Z) : bool :=
  match o with
  | B_lt | B_slt => a <? b | B_le | B_sle => a <=? b
  | B_gt | B_sgt => a >? b | B_ge | B_sge => a >=? b
  | _ => false
  end.
Lemma cmp_view o a b : comparison o = true ->
  bop_sem o a b = Word256.b2z (rel_sem o (vw (cmp_unsigned o) a) (vw (cmp_unsigned o) b)).
Proof.
  destruct o; intros H; try discriminate; cbn [bop_sem rel_sem cmp_unsigned vw];
    unfold w_lt, w_gt, w_slt, w_sgt, w_iszero; try reflexivity.
  - rewrite Z.gtb_ltb, Z.leb_antisym. destruct (b <? a); reflexivity.
  - rewrite Z.geb_leb, Z.leb_antisym. destruct (a <? b); reflexivity.
  - rewrite Z.gtb_ltb, Z.leb_antisym. destruct (to_signed b <? to_signed a); reflexivity.
  - rewrite Z.geb_leb, Z.leb_antisym. destruct (to_signed a <? to_signed b); reflexivity.
Qed.
Lemma flip_sem o a b : comparison o = true -> bop_sem (flip_cmp o) b a = bop_sem o a b.
Proof.
  intros H. rewrite (cmp_view o) by exact H. destruct o; try discriminate; cbn [flip_cmp];
  rewrite cmp_view by reflexivity; cbn [rel_sem cmp_unsigned]; f_equal;
  rewrite ?Z.gtb_ltb, ?Z.geb_leb; reflexivity.
Qed.
Lemma flip_comparison o : comparison o = true -> comparison (flip_cmp o) = true.
Proof. destruct o; intros; try discriminate; reflexivity. Qed.

Lemma vw_range (u : bool) z : inw z -> (if u then 0 else MINS) <= vw u z <= (if u then MAXU else MAXS).
Proof.
  intros H. destruct u; cbn [vw]; [unfold inw in H; wl | apply to_signed_range; exact H].
Qed.
Lemma vw_wrap (u : bool) c : (if u then 0 else MINS) <= c <= (if u then MAXU else MAXS) -> vw u (wrap c) = c.
Proof.
  destruct u; cbn [vw]; intros H; [apply wrap_small; wl | apply to_signed_wrap; exact H].
Qed.
Lemma vw_eqb u a b : inw a -> inw b -> (a =? b) = (vw u a =? vw u b).
Proof.
  intros Ha Hb. destruct u; cbn [vw]; [reflexivity|].
  destruct (Z.eqb_spec a b) as [->|N]; [symmetry; apply Z.eqb_refl|].
  symmetry. apply Z.eqb_neq. intros E. apply N. apply to_signed_inj; auto.
Qed.
Lemma evm_int_vw u v : lit_ok v -> evm_int u v = vw u (wrap v).
Proof. intros H. destruct u; cbn [vw]; [apply evm_int_u | apply evm_int_s]; exact H. Qed.
Lemma int_bounds_vw (u : bool) :
  int_bounds (negb u) 256 = Ok ((if u then 0 else MINS), (if u then MAXU else MAXS)).
Proof. destruct u; reflexivity. Qed.
Lemma wrap256_vw u n : _wrap256 n u = Ok (vw u (wrap n)).
Proof. destruct u; [apply wrap256_u | apply wrap256_s]. Qed.
Lemma lit_ok_view (u : bool) c : (if u then 0 else MINS) <= c <= (if u then MAXU else MAXS) -> lit_ok c.
Proof. destruct u; intros; wl. Qed.

Lemma iszero_b2z c : Word256.b2z (Word256.b2z c =? 0) = Word256.b2z (negb c).
Proof. destruct c; reflexivity. Qed.
Ltac bsolve :=
  rewrite ?iszero_b2z;
  repeat match goal with
  | |- context[?a >? ?b] => rewrite (Z.gtb_ltb a b)
  | |- context[?a >=? ?b] => rewrite (Z.geb_leb a b)
  end;
  repeat match goal with
  | |- context[Word256.b2z (?a <? ?b)] => destruct (Z.ltb_spec a b)
  | |- context[Word256.b2z (?a <=? ?b)] => destruct (Z.leb_spec a b)
  | |- context[Word256.b2z (?a =? ?b)] => destruct (Z.eqb_spec a b)
  end;
  unfold Word256.b2z;
  repeat match goal with
  | |- context[?a =? ?b] => destruct (Z.eqb_spec a b)
  end; try reflexivity; try lia.

(* semantic core, stated on views: X is the view of the non-literal argument, R of the literal *)
Lemma cmp_core_sound o v ps :
  comparison o = true -> lit_ok v ->
  exists r, cmp_core o (Lit v) ps = Ok r /\
    forall c, r = Some c ->
      twf (cres_tmpl c TX TY) /\
      forall X, inw X -> tsem (cres_tmpl c TX TY) X (wrap v) = bop_sem o X (wrap v).
Proof.
  intros Hc Hv. unfold cmp_core. rewrite int_bounds_vw. cbn [bind].
  set (u := cmp_unsigned o). set (lo := if u then 0 else MINS). set (hi := if u then MAXU else MAXS).
  cbn [int_is]. rewrite (evm_int_vw u v Hv).
  pose proof (vw_range u (wrap v) (wrap_range v)) as RR. fold lo hi in RR.
  set (R := vw u (wrap v)) in *.
  assert (LH: lo < hi) by (unfold lo, hi; destruct u; wl).
  assert (V0: forall X, inw X -> bop_sem o X (wrap v) = Word256.b2z (rel_sem o (vw u X) R))
    by (intros; apply cmp_view; exact Hc).
  assert (VE: forall X c, inw X -> lo <= c <= hi -> w_eq X (wrap c) = Word256.b2z (vw u X =? c)).
  { intros X c HX Hcr. unfold w_eq. rewrite (vw_eqb u X (wrap c) HX (wrap_range c)).
    rewrite vw_wrap by exact Hcr. reflexivity. }
  assert (VEv: forall X, inw X -> w_eq X (wrap v) = Word256.b2z (vw u X =? R)).
  { intros X HX. unfold w_eq. rewrite (vw_eqb u X (wrap v) HX (wrap_range v)). reflexivity. }
  assert (VN: forall X o' c, inw X -> comparison o' = true -> cmp_unsigned o' = u -> lo <= c <= hi ->
              bop_sem o' X (wrap c) = Word256.b2z (rel_sem o' (vw u X) c)).
  { intros X o' c HX Ho' Hu Hcr. rewrite cmp_view by exact Ho'. rewrite Hu, vw_wrap by exact Hcr. reflexivity. }
  assert (L0: lit_ok 0) by wl. assert (L1: lit_ok 1) by wl.
  assert (W0: wrap 0 = 0) by reflexivity. assert (W1: wrap 1 = 1) by reflexivity.
  assert (LV: forall c, lo <= c <= hi -> lit_ok c) by (intros c; apply lit_ok_view).
  assert (XR: forall X, inw X -> lo <= vw u X <= hi) by (intros X HX; apply vw_range; exact HX).
  rewrite wrap256_vw.
  (* case analysis on the op family and the branch conditions *)
  destruct o; try discriminate Hc; cbn [cmp_strict cmp_gt negb andb bop_eqb Bool.eqb to_strict to_unstrict] in *;
  repeat match goal with
  | |- context[if ?a =? ?b then _ else _] => destruct (Z.eqb_spec a b)
  | |- context[andb ?p (_ =? _)] => destruct ps; cbn [negb andb Bool.eqb]
  | |- context[Bool.eqb _ ?p] => destruct ps; cbn [negb andb Bool.eqb]
  | |- context[bind (Ok _) _] => cbn [bind]
  end;
  try (exfalso; match goal with n : vw _ (wrap ?c) <> ?c |- _ => apply n; apply vw_wrap; fold lo hi; lia end);
  try (eexists; split; [reflexivity|]; intros c [=]; fail);
  try (eexists; split; [reflexivity|]; intros c [= <-]; cbn [cres_tmpl twf tsem uop_sem];
   split; [first [exact L0 | exact L1 | exact I | exact (conj I I) | (split; [exact I | apply LV; lia])] |
     intros X HX; specialize (XR X HX); rewrite (V0 X HX);
     rewrite ?(VN X) by (first [exact HX | reflexivity | lia]);
     cbn [bop_sem]; rewrite ?VEv, ?VE by (auto; lia);
     cbn [rel_sem]; unfold w_iszero; rewrite ?W0, ?W1; bsolve;
     try (cbv [u vw cmp_unsigned] in *; cbn [negb]; lia)]).
Qed.

Lemma cres_cnt c :
  (cntX (cres_tmpl c TX TY) <= 1)%nat /\ (cntY (cres_tmpl c TY TX) <= 1)%nat.
Proof. destruct c; cbn; lia. Qed.
Lemma cres_swap c a b : tsem (cres_tmpl c TY TX) a b = tsem (cres_tmpl c TX TY) b a.
Proof. destruct c; reflexivity. Qed.
Lemma cres_twf_swap c : twf (cres_tmpl c TX TY) -> twf (cres_tmpl c TY TX).
Proof. destruct c; cbn; tauto. Qed.
Lemma cmp_core_nonlit o y ps : is_int y = false -> cmp_core o y ps = Ok None.
Proof.
  intros H. unfold cmp_core. rewrite int_bounds_vw. cbn [bind].
  destruct y; try discriminate; cbn [int_is]; rewrite ?andb_false_r;
    destruct (cmp_gt o); cbn; rewrite ?andb_false_r; reflexivity.
Qed.

(* comparison_helper_sound: all 8 ops, both strictness preferences, every legal literal on either side *)
Theorem comparison_helper_sound_all o x y ps :
  comparison o = true -> wf x -> wf y ->
  exists r, comparison_helper o x y ps = Ok r /\
    forall T, r = Some T -> forall e', finalize x y T = Some e' ->
      equiv_val (Bin o x y) e' /\ wf e'.
Proof.
  intros Hc Wx Wy. unfold comparison_helper. destruct (is_int x) eqn:Ix.
  - destruct x; try discriminate. cbn [wf] in Wx.
    destruct (cmp_core_sound (flip_cmp o) v ps (flip_comparison o Hc) Wx) as (r & E & S).
    rewrite E. cbn [bind]. eexists; split; [reflexivity|]. intros T HT e' F.
    destruct r as [c|]; [|discriminate]. inversion HT; subst T. destruct (S c eq_refl) as [TW SS].
    refine (rule_lit_x _ _ _ _ _ Wy Wx _ F _ _); [apply cres_twf_swap; exact TW | apply cres_cnt |].
    intros vy Hy. rewrite cres_swap, SS by exact Hy. apply flip_sem. exact Hc.
  - destruct (is_int y) eqn:Iy.
    + destruct y; try discriminate. cbn [wf] in Wy.
      destruct (cmp_core_sound o v ps Hc Wy) as (r & E & S).
      rewrite E. cbn [bind]. eexists; split; [reflexivity|]. intros T HT e' F.
      destruct r as [c|]; [|discriminate]. inversion HT; subst T. destruct (S c eq_refl) as [TW SS].
      refine (rule_lit_y _ _ _ _ _ Wx Wy TW F _ _); [apply cres_cnt | exact SS].
    + rewrite cmp_core_nonlit by exact Iy. cbn [bind]. eexists; split; [reflexivity|]. intros T [=].
Qed.

(* ================= the rule cascade ================= *)
Definition rule_ok (o : bop) (x y : expr) (T : tmpl) : Prop :=
  forall e', finalize x y T = Some e' -> equiv_val (Bin o x y) e' /\ wf e'.

Ltac lit_y W H v Lv V :=
  destruct (int_is_inv _ _ _ W H) as (v & -> & Lv & V);
  first [apply view_val in V | apply (view_val false) in V | apply (view_val true) in V];
  rewrite ?wrap_0, ?wrap_1, ?wrap_m1 in V.

Lemma r_idzero o u x y : wf x -> wf y ->
  memb o [B_add; B_sub; B_xor; B_or] = true -> int_is u y 0 = true -> rule_ok o x y (TSeq1 TX).
Proof.
  intros Wx Wy M H e' F. lit_y Wy H v Lv V.
  refine (rule_lit_y _ _ _ _ _ Wx Lv _ F _ _); [exact I | cbn; lia |]. intros vx Hx. cbn [tsem]. rewrite V. symmetry. apply id_zero; auto.
Qed.
Lemma r_zero o u x y : wf x -> wf y ->
  memb o [B_mul; B_div; B_sdiv; B_mod; B_smod; B_and] = true -> int_is u y 0 = true -> rule_ok o x y (TLit 0).
Proof.
  intros Wx Wy M H e' F. lit_y Wy H v Lv V.
  refine (rule_lit_y _ _ _ _ _ Wx Lv _ F _ _); [exact lit_ok_0 | cbn; lia |]. intros vx Hx. cbn [tsem]. rewrite V, wrap_0. symmetry. apply zero_zero; auto.
Qed.
Lemma r_modone o u x y : wf x -> wf y ->
  memb o [B_mod; B_smod] = true -> int_is u y 1 = true -> rule_ok o x y (TLit 0).
Proof.
  intros Wx Wy M H e' F. lit_y Wy H v Lv V.
  refine (rule_lit_y _ _ _ _ _ Wx Lv _ F _ _); [exact lit_ok_0 | cbn; lia |]. intros vx Hx. cbn [tsem]. rewrite V, wrap_0. symmetry. apply mod_one; auto.
Qed.
Lemma r_idone o u x y : wf x -> wf y ->
  memb o [B_mul; B_div; B_sdiv] = true -> int_is u y 1 = true -> rule_ok o x y (TSeq1 TX).
Proof.
  intros Wx Wy M H e' F. lit_y Wy H v Lv V.
  refine (rule_lit_y _ _ _ _ _ Wx Lv _ F _ _); [exact I | cbn; lia |]. intros vx Hx. cbn [tsem]. rewrite V. symmetry. apply id_one; auto.
Qed.
Lemma r_negone o x y : wf x -> wf y ->
  memb o [B_mul; B_sdiv] = true -> int_is false y (-1) = true -> rule_ok o x y (TBin B_sub (TLit 0) TX).
Proof.
  intros Wx Wy M H e' F. lit_y Wy H v Lv V.
  refine (rule_lit_y _ _ _ _ _ Wx Lv _ F _ _); [exact (conj lit_ok_0 I) | cbn; lia |]. intros vx Hx. cbn [tsem]. rewrite V, wrap_0. symmetry. apply neg_one; auto.
Qed.
Lemma r_and_m1 x y : wf x -> wf y -> int_is false y (-1) = true -> rule_ok B_and x y (TSeq1 TX).
Proof.
  intros Wx Wy H e' F. lit_y Wy H v Lv V.
  refine (rule_lit_y _ _ _ _ _ Wx Lv _ F _ _); [exact I | cbn; lia |]. intros vx Hx. cbn [tsem bop_sem]. rewrite V. symmetry. apply land_maxu; auto.
Qed.
Lemma r_xor_m1 x y : wf x -> wf y -> int_is false y (-1) = true -> rule_ok B_xor x y (TUn U_not TX).
Proof.
  intros Wx Wy H e' F. lit_y Wy H v Lv V.
  refine (rule_lit_y _ _ _ _ _ Wx Lv _ F _ _); [exact I | cbn; lia |]. intros vx Hx. cbn [tsem bop_sem uop_sem]. rewrite V. symmetry. apply lxor_maxu; auto.
Qed.
Lemma r_or_m1 x v : wf x -> lit_ok v -> int_is false (Lit v) (-1) = true -> rule_ok B_or x (Lit v) (TLit v).
Proof.
  intros Wx Wv H e' F. destruct (int_is_inv false (Lit v) (-1) Wv H) as (v' & E & Lv & V). inversion E; subst v'.
  apply (view_val false) in V. rewrite wrap_m1 in V.
  refine (rule_lit_y _ _ _ _ _ Wx Lv _ F _ _); [exact Lv | cbn; lia|]. intros vx Hx. cbn [tsem bop_sem]. rewrite V. symmetry. apply lor_maxu; auto.
Qed.
Lemma r_sub_m1 x y : wf x -> wf y -> int_is false x (-1) = true -> rule_ok B_sub x y (TUn U_not TY).
Proof.
  intros Wx Wy H e' F. lit_y Wx H v Lv V.
  refine (rule_lit_x _ _ _ _ _ Wy Lv _ F _ _); [exact I | cbn; lia |]. intros vy Hy. cbn [tsem bop_sem uop_sem]. rewrite V. symmetry. apply sub_maxu; auto.
Qed.
Lemma r_exp_one u x y : wf x -> wf y -> int_is u y 0 || int_is u x 1 = true -> rule_ok B_exp x y (TLit 1).
Proof.
  intros Wx Wy H e' F. apply orb_true_iff in H. destruct H as [H|H].
  - lit_y Wy H v Lv V. refine (rule_lit_y _ _ _ _ _ Wx Lv _ F _ _); [exact lit_ok_1 | cbn; lia |].
    intros vx Hx. cbn [tsem bop_sem]. rewrite V. reflexivity.
  - lit_y Wx H v Lv V. refine (rule_lit_x _ _ _ _ _ Wy Lv _ F _ _); [exact lit_ok_1 | cbn; lia |].
    intros vy Hy. cbn [tsem bop_sem]. rewrite V, wrap_1. symmetry. apply exp_1_l; auto.
Qed.
Lemma r_exp_zero u x y : wf x -> wf y -> int_is u x 0 = true -> rule_ok B_exp x y (TUn U_iszero TY).
Proof.
  intros Wx Wy H e' F. lit_y Wx H v Lv V. refine (rule_lit_x _ _ _ _ _ Wy Lv _ F _ _); [exact I | cbn; lia |].
  intros vy Hy. cbn [tsem bop_sem uop_sem]. rewrite V. symmetry. apply exp_0_l; auto.
Qed.
Lemma r_exp_id u x y : wf x -> wf y -> int_is u y 1 = true -> rule_ok B_exp x y (TSeq1 TX).
Proof.
  intros Wx Wy H e' F. lit_y Wy H v Lv V. refine (rule_lit_y _ _ _ _ _ Wx Lv _ F _ _); [exact I | cbn; lia |].
  intros vx Hx. cbn [tsem bop_sem]. rewrite V. symmetry. apply exp_1_r; auto.
Qed.
Lemma r_eq_zero u x y : wf x -> wf y -> int_is u y 0 = true -> rule_ok B_eq x y (TUn U_iszero TX).
Proof.
  intros Wx Wy H e' F. lit_y Wy H v Lv V. refine (rule_lit_y _ _ _ _ _ Wx Lv _ F _ _); [exact I | cbn; lia |].
  intros vx Hx. cbn [tsem bop_sem uop_sem]. rewrite V. reflexivity.
Qed.
Lemma r_ne_zero u x y : wf x -> wf y -> int_is u y 0 = true -> rule_ok B_ne x y (TUn U_iszero (TUn U_iszero TX)).
Proof.
  intros Wx Wy H e' F. lit_y Wy H v Lv V. refine (rule_lit_y _ _ _ _ _ Wx Lv _ F _ _); [exact I | cbn; lia |].
  intros vx Hx. cbn [tsem bop_sem uop_sem]. rewrite V. reflexivity.
Qed.
Lemma r_eq_m1 x y : wf x -> wf y -> int_is false y (-1) = true -> rule_ok B_eq x y (TUn U_iszero (TUn U_not TX)).
Proof.
  intros Wx Wy H e' F. lit_y Wy H v Lv V. refine (rule_lit_y _ _ _ _ _ Wx Lv _ F _ _); [exact I | cbn; lia |].
  intros vx Hx. cbn [tsem bop_sem uop_sem]. rewrite V. unfold w_iszero, w_eq, w_not. f_equal.
  unfold inw in Hx. destruct (Z.eqb_spec vx MAXU), (Z.eqb_spec (MAXU - vx) 0); try reflexivity; lia.
Qed.

(* powers of two *)
Lemma r_pow2 o x v : wf x -> lit_ok v ->
  memb o [B_mod; B_div; B_mul] = true -> pow2b (evm_int true v) = true ->
  rule_ok o x (Lit v)
    (match o with
     | B_mod => TBin B_and TX (TLit (evm_int true v - 1))
     | B_div => TBin B_shr (TLit (ilog2 (evm_int true v))) TX
     | _ => TBin B_shl (TLit (ilog2 (evm_int true v))) TX
     end).
Proof.
  intros Wx Wv M P e' F. rewrite evm_int_u in * by exact Wv.
  pose proof (wrap_range v) as R. destruct (pow2_facts (wrap v) R P) as [K E].
  set (p := wrap v) in *. set (k := ilog2 p) in *.
  assert (P2: 0 < 2 ^ k) by (apply pow2_pos; lia).
  assert (Lk: lit_ok k) by wl. assert (Lp: lit_ok (p - 1)) by (unfold inw in R; wl).
  assert (Wk: wrap k = k) by (apply wrap_small; wl).
  assert (Wp: wrap (p - 1) = p - 1) by (apply wrap_small; unfold inw in R; lia).
  destruct o; try discriminate M; (refine (rule_lit_y _ _ _ _ _ Wx Wv _ F _ _); [cbn; tauto | cbn; lia |]);
    intros vx Hx; cbn [tsem bop_sem]; fold p; unfold inw in Hx.
  - (* mul -> shl *) rewrite Wk. unfold w_shl, w_mul. assert (k <? 256 = true) as -> by (apply Z.ltb_lt; lia).
    rewrite <- E. reflexivity.
  - (* div -> shr *) rewrite Wk. unfold w_shr, w_div. assert (k <? 256 = true) as -> by (apply Z.ltb_lt; lia).
    assert (p =? 0 = false) as -> by (apply Z.eqb_neq; lia). rewrite <- E. reflexivity.
  - (* mod -> and *) rewrite Wp. unfold w_and, w_mod. assert (p =? 0 = false) as -> by (apply Z.eqb_neq; lia).
    rewrite E at 1. replace (2 ^ k - 1) with (Z.ones k) by (rewrite Z.ones_equiv; lia).
    rewrite Z.land_ones by lia. rewrite <- E. reflexivity.
Qed.

(* conservative equality *)
Lemma ceq_inv x y : ceq x y = true -> x = y /\ is_complex x = false.
Proof.
  destruct x, y; cbn; intros H; try discriminate.
  - apply Z.eqb_eq in H. subst. auto.
  - apply String.eqb_eq in H. subst. auto.
Qed.
Lemma r_ceq o x y c : wf x -> wf y -> lit_ok c -> ceq x y = true ->
  (forall v, inw v -> bop_sem o v v = wrap c) -> rule_ok o x y (TLit c).
Proof.
  intros Wx Wy Lc H S e' F. apply ceq_inv in H. destruct H as [<- Nx].
  apply finalize_inv in F. destruct F as [-> _]. split; [|exact Lc].
  intros s. rewrite eval_bin. rewrite !(noncomplex_pure x Nx). cbn [inst]. rewrite eval_lit.
  rewrite S by apply pval_range. reflexivity.
Qed.
Lemma self_zero o v : memb o [B_sub; B_xor; B_ne] = true \/ strict_comparison o = true -> bop_sem o v v = wrap 0.
Proof.
  intros [M|M]; destruct o; try discriminate M; cbn [bop_sem];
    unfold w_sub, w_xor, w_iszero, w_eq, w_lt, w_gt, w_slt, w_sgt;
    rewrite ?Z.sub_diag, ?Z.lxor_nilpotent, ?Z.eqb_refl, ?Z.gtb_ltb, ?Z.ltb_irrefl; reflexivity.
Qed.
Lemma self_one o v : bop_eqb o B_eq || unstrict_comparison o = true -> bop_sem o v v = wrap 1.
Proof.
  intros M; destruct o; try discriminate M; cbn [bop_sem];
    unfold w_iszero, w_eq, w_lt, w_gt, w_slt, w_sgt;
    rewrite ?Z.eqb_refl, ?Z.gtb_ltb, ?Z.ltb_irrefl; reflexivity.
Qed.

(* rules that keep both arguments *)
Lemma r_both o o1 o2 x y : wf x -> wf y ->
  (forall vx vy, inw vx -> inw vy -> uop_sem o1 (bop_sem o2 vx vy) = bop_sem o vx vy) ->
  rule_ok o x y (TUn o1 (TBin o2 TX TY)).
Proof.
  intros Wx Wy S e' F. apply finalize_inv in F. destruct F as [-> _]. split; [|cbn; auto].
  intros s. cbn [inst]. rewrite eval_un, !eval_bin.
  destruct (ev y s) as [vy s1|] eqn:Ey; [|reflexivity].
  destruct (ev x s1) as [vx s2|] eqn:Ex; [|reflexivity].
  rewrite S by (eapply eval_range; eauto). reflexivity.
Qed.
Lemma xor_eq vx vy : uop_sem U_iszero (bop_sem B_xor vx vy) = bop_sem B_eq vx vy.
Proof.
  cbn. unfold w_iszero, w_eq, w_xor. f_equal.
  destruct (Z.eqb_spec vx vy) as [->|N]; [rewrite Z.lxor_nilpotent; reflexivity|].
  apply Z.eqb_neq. intros E. apply Z.lxor_eq in E. contradiction.
Qed.

(* truthy-only rule: (or x c) with c <> 0 is truthy *)
Lemma r_or_truthy x v e' : wf x -> lit_ok v -> int_is true (Lit v) 0 = false ->
  finalize x (Lit v) (TLit 1) = Some e' -> equiv true (Bin B_or x (Lit v)) e' /\ wf e'.
Proof.
  intros Wx Wv H F. apply finalize_inv in F. destruct F as [-> [Nx _]]. split; [|exact lit_ok_1].
  intros s. rewrite eval_bin, eval_lit. cbn [inst]. rewrite eval_lit. rewrite (noncomplex_pure x (Nx eq_refl)).
  cbn [oeq_truthy]. split; [reflexivity|]. cbn [bop_sem]. unfold w_or.
  cbn [int_is] in H. rewrite evm_int_u in H by exact Wv. apply Z.eqb_neq in H.
  rewrite wrap_1. change (1 =? 0) with false. apply Z.eqb_neq. intros E. apply Z.lor_eq_0_iff in E. tauto.
Qed.

(* ================= cascade ================= *)
Definition sound_res (truthy : bool) (o : bop) (x y : expr) (r : res (option tmpl)) : Prop :=
  exists t, r = Ok t /\
    forall T, t = Some T -> forall e', finalize x y T = Some e' ->
      equiv truthy (Bin o x y) e' /\ wf e'.

Lemma sound_fire truthy o x y T : rule_ok o x y T -> sound_res truthy o x y (Ok (Some T)).
Proof.
  intros R. eexists; split; [reflexivity|]. intros T' HT e' F. inversion HT; subst T'.
  destruct (R e' F) as [EV WF]. split; [apply equiv_val_any; exact EV | exact WF].
Qed.
Lemma sound_none truthy o x y : sound_res truthy o x y (Ok None).
Proof. eexists; split; [reflexivity|]. intros T [=]. Qed.

Lemma arith_u o fn u : arith o = Some (fn, u) -> u = negb (memb o [B_sdiv; B_smod; B_slt; B_sle; B_sgt; B_sge]).
Proof. destruct o; cbn; intros H; inversion H; reflexivity. Qed.

Lemma rules_cmp_sound truthy t2 o x y : wf x -> wf y -> sound_res truthy o x y (rules_cmp o x y t2).
Proof.
  intros Wx Wy. unfold rules_cmp. destruct (comparison o) eqn:C; [|apply sound_none].
  destruct (comparison_helper_sound_all o x y (negb t2) C Wx Wy) as (r & E & S).
  exists r. split; [exact E|]. intros T HT e' F. destruct (S T HT e' F) as [EV WF].
  split; [apply equiv_val_any; exact EV | exact WF].
Qed.

Ltac andsplit C := apply andb_true_iff in C; destruct C as [?M ?H].

Lemma rules_tail_sound o u fn x y pc : arith o = Some (fn, u) -> wf x -> wf y ->
  sound_res (is_truthy pc) o x y (rules_tail o u x y pc).
Proof.
  intros A Wx Wy. unfold rules_tail.
  destruct (bop_eqb o B_eq && int_is u y 0) eqn:C1.
  { andsplit C1. destruct o; try discriminate M. apply sound_fire. eapply r_eq_zero; eauto. }
  destruct (bop_eqb o B_ne && int_is u y 0) eqn:C2.
  { andsplit C2. destruct o; try discriminate M. apply sound_fire. eapply r_ne_zero; eauto. }
  destruct (bop_eqb o B_eq && int_is false y (-1)) eqn:C3.
  { andsplit C3. destruct o; try discriminate M. apply sound_fire. eapply r_eq_m1; eauto. }
  destruct (is_truthy pc) eqn:TR; [|apply rules_cmp_sound; auto].
  destruct (bop_eqb o B_eq) eqn:C4.
  { destruct o; try discriminate C4. cbn in A. inversion A; subst u fn.
    apply sound_fire. apply r_both; auto. intros; apply xor_eq. }
  destruct (bop_eqb o B_ne && match pc with PIszero => true | _ => false end) eqn:C5.
  { andsplit C5. destruct o; try discriminate M. apply sound_fire. apply r_both; auto. }
  destruct (bop_eqb o B_or && is_int y && negb (int_is u y 0)) eqn:C6; [|apply rules_cmp_sound; auto].
  apply andb_true_iff in C6; destruct C6 as [C6a C6c]; apply andb_true_iff in C6a; destruct C6a as [C6a C6b].
  destruct o; try discriminate C6a. cbn in A. inversion A; subst u fn.
  destruct y; try discriminate C6b. cbn [wf] in Wy. apply negb_true_iff in C6c.
  eexists; split; [reflexivity|]. intros T' HT e' F. inversion HT; subst T'.
  eapply r_or_truthy; eauto.
Qed.

Lemma rules_sound o u fn x y pc : arith o = Some (fn, u) -> wf x -> wf y ->
  sound_res (is_truthy pc) o x y (rules o u x y pc).
Proof.
  intros A Wx Wy. unfold rules.
  destruct (memb o [B_add; B_sub; B_xor; B_or] && int_is u y 0) eqn:C1.
  { andsplit C1. apply sound_fire. eapply r_idzero; eauto. }
  destruct (memb o [B_sub; B_xor; B_ne] && ceq x y) eqn:C2.
  { andsplit C2. apply sound_fire. apply r_ceq; auto; [exact lit_ok_0|]. intros; apply self_zero; auto. }
  destruct (strict_comparison o && ceq x y) eqn:C3.
  { andsplit C3. apply sound_fire. apply r_ceq; auto; [exact lit_ok_0|]. intros; apply self_zero; auto. }
  destruct ((bop_eqb o B_eq || unstrict_comparison o) && ceq x y) eqn:C4.
  { andsplit C4. apply sound_fire. apply r_ceq; auto; [exact lit_ok_1|]. intros; apply self_one; auto. }
  destruct (memb o [B_mul; B_div; B_sdiv; B_mod; B_smod; B_and] && int_is u y 0) eqn:C5.
  { andsplit C5. apply sound_fire. eapply r_zero; eauto. }
  destruct (memb o [B_mod; B_smod] && int_is u y 1) eqn:C6.
  { andsplit C6. apply sound_fire. eapply r_modone; eauto. }
  destruct (memb o [B_mul; B_div; B_sdiv] && int_is u y 1) eqn:C7.
  { andsplit C7. apply sound_fire. eapply r_idone; eauto. }
  destruct (memb o [B_mul; B_sdiv] && int_is false y (-1)) eqn:C8.
  { andsplit C8. apply sound_fire. eapply r_negone; eauto. }
  destruct (memb o [B_and; B_or; B_xor] && int_is false y (-1)) eqn:C9.
  { andsplit C9. destruct o; try discriminate M; cbn in A; inversion A; subst u fn; cbn [negb].
    - (* or *) destruct y; try discriminate H. cbn [wf] in Wy. apply sound_fire. apply r_or_m1; auto.
    - (* and *) apply sound_fire. apply r_and_m1; auto.
    - (* xor *) apply sound_fire. apply r_xor_m1; auto. }
  destruct (bop_eqb o B_sub && int_is false x (-1)) eqn:C10.
  { andsplit C10. destruct o; try discriminate M. apply sound_fire. apply r_sub_m1; auto. }
  destruct (bop_eqb o B_exp && (int_is u y 0 || int_is u x 1)) eqn:C11.
  { andsplit C11. destruct o; try discriminate M. apply sound_fire. eapply r_exp_one; eauto. }
  destruct (bop_eqb o B_exp && int_is u x 0) eqn:C12.
  { andsplit C12. destruct o; try discriminate M. apply sound_fire. eapply r_exp_zero; eauto. }
  destruct (bop_eqb o B_exp && int_is u y 1) eqn:C13.
  { andsplit C13. destruct o; try discriminate M. apply sound_fire. eapply r_exp_id; eauto. }
  destruct y; try (eapply rules_tail_sound; eauto; fail).
  destruct (memb o [B_mod; B_div; B_mul] && pow2b (evm_int u v)) eqn:C14; [|eapply rules_tail_sound; eauto].
  andsplit C14. cbn [wf] in Wy.
  destruct o; try discriminate M; cbn in A; inversion A; subst u fn; cbn [negb];
    apply sound_fire; match goal with |- rule_ok ?o _ _ _ => exact (r_pow2 o x v Wx Wy eq_refl H) end.
Qed.

(* commutative swap of a literal first argument *)
Lemma swap_equiv o v y : commutative o = true ->
  equiv_val (Bin o (Lit v) y) (Bin o y (Lit v)).
Proof.
  intros C s. rewrite !eval_bin, !eval_lit. destruct (ev y s) as [vy s1|]; [|reflexivity]. rewrite eval_lit. f_equal.
  destruct o; try discriminate C; cbn [bop_sem]; unfold w_add, w_mul, w_eq, w_and, w_or, w_xor.
  - rewrite Z.add_comm; reflexivity.
  - rewrite Z.mul_comm; reflexivity.
  - rewrite Z.eqb_sym; reflexivity.
  - rewrite Z.eqb_sym; reflexivity.
  - apply Z.lor_comm.
  - apply Z.land_comm.
  - apply Z.lxor_comm.
Qed.

Lemma equiv_trans_val t e1 e2 e3 : equiv_val e1 e2 -> equiv t e2 e3 -> equiv t e1 e3.
Proof. intros H1 H2 s. specialize (H2 s). rewrite (H1 s). exact H2. Qed.

(* opt_binop_sound: the model never fails on well-formed arguments; whatever it returns evaluates
   like the original node: same effect trace (nothing dropped, duplicated or reordered) and same
   value -- in a truthy context (parent if / assert / iszero) same truthiness. *)
Theorem opt_binop_sound_all o a b pc : wf a -> wf b ->
  exists r, opt_binop o a b pc = Ok r /\
    forall e', r = Some e' -> equiv (is_truthy pc) (Bin o a b) e' /\ wf e'.
Proof.
  intros Wa Wb. unfold opt_binop. destruct (arith o) as [[fn u]|] eqn:A.
  2:{ eexists; split; [reflexivity|]. intros e' [=]. }
  assert (GEN: forall x y, wf x -> wf y ->
     exists r, (t <- rules o u x y pc ;; Ok (match t with Some t => finalize x y t | None => None end)) = Ok r /\
       forall e', r = Some e' -> equiv (is_truthy pc) (Bin o x y) e' /\ wf e').
  { intros x y Wx Wy. destruct (rules_sound o u fn x y pc A Wx Wy) as (t & E & S). rewrite E. cbn [bind].
    eexists; split; [reflexivity|]. intros e' He'. destruct t as [T|]; [|discriminate]. eapply S; eauto. }
  assert (SW: forall x y, wf x -> wf y ->
     exists r, (let '(x0, y0) := if commutative o && is_int x then (y, x) else (x, y) in
                t <- rules o u x0 y0 pc ;; Ok (match t with Some t => finalize x0 y0 t | None => None end)) = Ok r /\
       forall e', r = Some e' -> equiv (is_truthy pc) (Bin o x y) e' /\ wf e').
  { intros x y Wx Wy. destruct (commutative o && is_int x) eqn:C; [|apply GEN; auto].
    andsplit C. destruct x; try discriminate H.
    destruct (GEN y (Lit v) Wy Wx) as (r & E & S). exists r. split; [exact E|].
    intros e' He'. destruct (S e' He') as [EQ WF]. split; [|exact WF].
    eapply equiv_trans_val; [apply swap_equiv; exact M | exact EQ]. }
  destruct a as [l| |]; try (apply SW; assumption).
  destruct b as [r| |]; try (apply SW; assumption).
  cbn [wf] in Wa, Wb.
  destruct (arith_fold_sound_all o ltac:(congruence) l r Wa Wb) as (w & E & Lw & S).
  rewrite E. cbn [bind]. eexists; split; [reflexivity|]. intros e' He'.
  cbn in He'. inversion He'; subst e'. split; [|exact Lw].
  apply equiv_val_any. intros s. rewrite eval_bin, !eval_lit, S. reflexivity.
Qed.

(* rollback_preserves_effects: a rewrite is applied only if every complex argument occurs in it *)
Theorem rollback_sound x y T e' :
  finalize x y T = Some e' ->
  (is_complex x = true -> usesX T = true) /\ (is_complex y = true -> usesY T = true).
Proof.
  unfold finalize. destruct ((is_complex x && negb (usesX T)) || (is_complex y && negb (usesY T))) eqn:E; [discriminate|].
  intros _. apply orb_false_iff in E. destruct E as [E1 E2].
  split; intros C; rewrite C in *; cbn in *; [destruct (usesX T) | destruct (usesY T)]; auto; discriminate.
Qed.
End S.
