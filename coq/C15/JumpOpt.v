(* C15 round 2 (c): models of the jump-related passes of evm/assembler/optimizer.py and of the
   optimize_assembly fixpoint loop.  No proofs here. *)
From Coq Require Import ZArith Bool List String.
From Verif Require Import Base.Word256 Base.PyInt Base.Hex C15.Peephole.
Import ListNotations.
Open Scope Z_scope.
Open Scope string_scope.

Definition terminal_ops : list string := ["JUMP"; "RETURN"; "REVERT"; "STOP"; "INVALID"].
Definition is_terminal (a : item) : bool :=
  match a with Op s => existsb (String.eqb s) terminal_ops | _ => false end.
Definition is_label (a : item) : bool := match a with Lbl _ => true | _ => false end.
Definition is_reach (a : item) : bool := match a with Lbl _ | DataHdr _ => true | _ => false end.

(* ---- _prune_unreachable_code ---- *)
Fixpoint drop_unreach (l : list item) : list item :=
  match l with
  | [] => []
  | a :: t => if is_reach a then l else drop_unreach t
  end.
(* fuel = length; the loop only looks at positions i < len - 1 *)
Fixpoint prune_unreach_ (fuel : nat) (l : list item) : list item :=
  match fuel with
  | O => l
  | S f =>
    match l with
    | a :: (_ :: _) as t => if is_terminal a then a :: prune_unreach_ f (drop_unreach t) else a :: prune_unreach_ f t
    | _ => l
    end
  end.
Definition prune_unreachable (l : list item) : list item := prune_unreach_ (List.length l) l.

(* ---- _prune_inefficient_jumps: PUSHLABEL x JUMP LABEL x -> LABEL x ---- *)
Fixpoint prune_ineff_ (fuel : nat) (l : list item) : list item :=
  match fuel with
  | O => l
  | S f =>
    match l with
    | PushLbl x :: Op o :: Lbl y :: rest =>
        (* python stays at the label, which cannot start a window: continue behind it *)
        if String.eqb o "JUMP" && String.eqb x y then Lbl y :: prune_ineff_ f rest
        else PushLbl x :: prune_ineff_ f (Op o :: Lbl y :: rest)
    | a :: ((_ :: _ :: _) as t) => a :: prune_ineff_ f t
    | _ => l
    end
  end.
Definition prune_inefficient_jumps (l : list item) : list item := prune_ineff_ (List.length l) l.

(* ---- _optimize_inefficient_jumps:
        PUSHLABEL c JUMPI PUSHLABEL x JUMP LABEL c -> ISZERO PUSHLABEL x JUMPI LABEL c ---- *)
Fixpoint opt_ineff_ (fuel : nat) (l : list item) : list item :=
  match fuel with
  | O => l
  | S f =>
    match l with
    | PushLbl c :: Op o1 :: PushLbl x :: Op o2 :: Lbl c' :: rest =>
        if String.eqb o1 "JUMPI" && String.eqb o2 "JUMP" && String.eqb c c' then
          (* python re-examines ISZERO, PUSHLABEL x, JUMPI: none of them can start a window before LABEL c *)
          Op "ISZERO" :: PushLbl x :: Op "JUMPI" :: opt_ineff_ f (Lbl c' :: rest)
        else PushLbl c :: opt_ineff_ f (Op o1 :: PushLbl x :: Op o2 :: Lbl c' :: rest)
    | a :: ((_ :: _ :: _ :: _ :: _) as t) => a :: opt_ineff_ f t
    | _ => l
    end
  end.
Definition optimize_inefficient_jumps (l : list item) : list item := opt_ineff_ (2 * List.length l) l.

(* ---- _merge_jumpdests: retarget PUSHLABEL x when LABEL x is followed by LABEL y or by PUSHLABEL y JUMP ---- *)
Definition retarget (x y : string) (a : item) : item :=
  match a with PushLbl l => if String.eqb l x then PushLbl y else a | _ => a end.
Definition has_push (x : string) (l : list item) : bool :=
  existsb (fun a => match a with PushLbl l => String.eqb l x | _ => false end) l.
Fixpoint mj_loop (fuel : nat) (l : list item) (i : nat) (changed : bool) : bool * list item :=
  match fuel with
  | O => (changed, l)
  | S f =>
    if Nat.ltb (i + 2) (List.length l) then
      match nth_error l i, nth_error l (i + 1), nth_error l (i + 2) with
      | Some (Lbl x), Some (Lbl y), _ =>
          if String.eqb x y then mj_loop f l (S i) changed
          else mj_loop f (map (retarget x y) l) (S i) (changed || has_push x l)
      | Some (Lbl x), Some (PushLbl y), Some (Op o) =>
          if String.eqb o "JUMP" then mj_loop f (map (retarget x y) l) (S i) (changed || has_push x l)
          else mj_loop f l (S i) changed
      | _, _, _ => mj_loop f l (S i) changed
      end
    else (changed, l)
  end.
Definition merge_jumpdests (l : list item) : bool * list item := mj_loop (List.length l) l 0 false.

(* ---- _prune_unused_jumpdests ---- *)
Definition uses (x : string) (a : item) : bool :=
  match a with
  | PushLbl l | PushOfst l _ | DataLbl l => String.eqb l x
  | _ => false
  end.
Definition prune_unused_jumpdests (l : list item) : list item :=
  filter (fun a => match a with Lbl x => existsb (uses x) l | _ => true end) l.

(* ---- optimize_assembly: iterate until no pass reports a change (at most 1024 rounds) ---- *)
Definition list_eqb (a b : list item) : bool :=
  (Nat.eqb (List.length a) (List.length b)) && forallb (fun p => item_eqb (fst p) (snd p)) (combine a b).
Fixpoint oa_loop (fuel : nat) (l : list item) : res (list item) :=
  match fuel with
  | O => Err Raised       (* CompilerPanic: infinite loop detected *)
  | S f =>
      let l1 := prune_unreachable l in
      l2 <- merge_iszero l1 ;;
      let '(c3, l3) := merge_jumpdests l2 in
      let l4 := prune_inefficient_jumps l3 in
      let l5 := optimize_inefficient_jumps l4 in
      let l6 := prune_unused_jumpdests l5 in
      l7 <- stack_peephole l6 ;;
      (* every pass except _merge_jumpdests reports `changed` exactly when it modified the list *)
      if c3 || negb (list_eqb l l1 && list_eqb l1 l2 && list_eqb l3 l4 && list_eqb l4 l5 && list_eqb l5 l6 && list_eqb l6 l7)
      then oa_loop f l7 else Ok l7
  end.
Definition optimize_assembly (l : list item) : res (list item) := oa_loop 1024 l.
