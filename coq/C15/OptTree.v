(* C15 round 2: model of vyper/ir/optimizer.py:_optimize (the recursion over the whole tree, with the
   `changed` flags and re-optimisation of rebuilt nodes), _merge_memzero, _merge_load,
   _rewrite_mstore_dload and _remove_empty_seqs.  No proofs here.
   `opt fuel cancun pc e`: pc is the context of e (which parent it has), cancun = version_check(begin="cancun").
   The literal rules are modelled for the arities the IRnode constructor admits (iszero/ceil32/assert 1, if 2 or 3).
   Err Raised = StaticAssertionException; Err AssertFail = IRnode constructor assertion (ceil32 fold out of range). *)
From Coq Require Import ZArith Bool List String.
From Verif Require Import Base.Word256 Base.PyInt C15.Syntax C15.GenUtils C15.Optimizer.
Import ListNotations.
Open Scope Z_scope.

(* ---------- list surgery used by the merge loops: argz[idx] = new; del argz[idx+1 : idx+n] ---------- *)
Definition splice (l : list expr) (idx n : nat) (new : expr) : list expr :=
  (firstn idx l ++ new :: skipn (idx + n) l)%list.

Definition is_lit0 (e : expr) : bool := match e with Lit 0 => true | _ => false end.

(* ---------- _merge_memzero ---------- *)
Record mrun := { r_n : nat; r_dst : Z; r_src : Z; r_total : Z; r_idx : nat }.
Definition run0 : mrun := {| r_n := 0; r_dst := 0; r_src := 0; r_total := 0; r_idx := 0 |}.

(* classification of a node for _merge_memzero: Some (offset, length) if it zeroes memory *)
Definition zeroing (e : expr) : option (Z * Z) :=
  match e with
  | Node "mstore" [Lit off; Lit 0] => Some (off, 32)
  | Node "calldatacopy" [Lit off; Var "calldatasize"; Lit len] => Some (off, len)
  | _ => None
  end.

Fixpoint mz_loop (fuel : nat) (l : list expr) (i : nat) (r : mrun) (changed : bool) : res (bool * list expr) :=
  match fuel with
  | O => Err OutOfFuel
  | S f =>
    match nth_error l i with
    | None => Ok (changed, l)
    | Some node =>
      let is_last := Nat.eqb i (List.length l - 1) in
      let '(r1, cont) :=
        match zeroing node with
        | Some (off, len) =>
            let r' := if Nat.eqb (r_n r) 0 then {| r_n := 0; r_dst := off; r_src := 0; r_total := r_total r; r_idx := i |} else r in
            if r_dst r' + r_total r' =? off then
              ({| r_n := S (r_n r'); r_dst := r_dst r'; r_src := 0; r_total := r_total r' + len; r_idx := r_idx r' |},
               negb is_last)
            else (r', false)
        | None => (r, false)
        end in
      if cont then mz_loop f l (S i) r1 changed
      else
        if Nat.ltb 1 (r_n r1) then
          let new := Node "calldatacopy" [Lit (r_dst r1); Var "calldatasize"; Lit (r_total r1)] in
          mz_loop f (splice l (r_idx r1) (r_n r1) new) (S i) run0 true
        else mz_loop f l (S i) run0 changed
    end
  end.
Definition merge_memzero (l : list expr) : res (bool * list expr) :=
  mz_loop (S (List.length l)) l 0 run0 false.

(* ---------- _merge_load ---------- *)
Definition loading (LOAD : string) (e : expr) : option (Z * Z) :=
  match e with
  | Node "mstore" [Lit dst; Node ld [Lit src]] => if String.eqb ld LOAD then Some (dst, src) else None
  | _ => None
  end.
Fixpoint ml_loop (LOAD COPY : string) (allow_overlap : bool) (fuel : nat) (l : list expr) (i : nat) (r : mrun)
    (changed : bool) : res (bool * list expr) :=
  match fuel with
  | O => Err OutOfFuel
  | S f =>
    match nth_error l i with
    | None => Ok (changed, l)
    | Some node =>
      let is_last := Nat.eqb i (List.length l - 1) in
      let '(r1, cont) :=
        match loading LOAD node with
        | Some (dst, src) =>
            let r' := if Nat.eqb (r_n r) 0 then {| r_n := 0; r_dst := dst; r_src := src; r_total := r_total r; r_idx := i |} else r in
            let has_overlap := (r_src r' <? r_dst r') && (r_dst r' <? src + 32) in
            if (r_dst r' + r_total r' =? dst) && (r_src r' + r_total r' =? src) && (allow_overlap || negb has_overlap) then
              ({| r_n := S (r_n r'); r_dst := r_dst r'; r_src := r_src r'; r_total := r_total r' + 32; r_idx := r_idx r' |},
               negb is_last)
            else (r', false)
        | None => (r, false)
        end in
      if cont then ml_loop LOAD COPY allow_overlap f l (S i) r1 changed
      else
        if Nat.ltb 1 (r_n r1) then
          let new := Node COPY [Lit (r_dst r1); Lit (r_src r1); Lit (r_total r1)] in
          ml_loop LOAD COPY allow_overlap f (splice l (r_idx r1) (r_n r1) new) (S i) run0 true
        else ml_loop LOAD COPY allow_overlap f l (S i) run0 changed
    end
  end.
Definition merge_load (LOAD COPY : string) (allow_overlap : bool) (l : list expr) : res (bool * list expr) :=
  ml_loop LOAD COPY allow_overlap (S (List.length l)) l 0 run0 false.

(* ---------- _rewrite_mstore_dload ---------- *)
Definition rewrite_dload1 (e : expr) : bool * expr :=
  match e with
  | Node "mstore" [dst; Node "dload" (src :: _)] => (true, Node "dloadbytes" [dst; src; Lit 32])
  | _ => (false, e)
  end.
Definition rewrite_mstore_dload (l : list expr) : bool * list expr :=
  (existsb (fun e => fst (rewrite_dload1 e)) l, map (fun e => snd (rewrite_dload1 e)) l).

(* ---------- _remove_empty_seqs: never removes the last element ---------- *)
Definition is_empty_seq (e : expr) : bool :=
  match e with Node op [] => String.eqb op "seq" || String.eqb op "pass" | _ => false end.
Fixpoint remove_empty_seqs (l : list expr) : bool * list expr :=
  match l with
  | [] => (false, [])
  | [x] => (false, [x])
  | x :: t => let '(c, t') := remove_empty_seqs t in
              if is_empty_seq x then (true, t') else (c, x :: t')
  end.

Definition merges (cancun : bool) (l : list expr) : res (bool * list expr) :=
  '(c1, l1) <- merge_memzero l ;;
  '(c2, l2) <- merge_load "calldataload" "calldatacopy" true l1 ;;
  '(c3, l3) <- merge_load "dload" "dloadbytes" true l2 ;;
  let '(c4, l4) := rewrite_mstore_dload l3 in
  '(c5, l5) <- (if cancun then merge_load "mload" "mcopy" false l4 else Ok (false, l4)) ;;
  let '(c6, l6) := remove_empty_seqs l5 in
  Ok (c1 || c2 || c3 || c4 || c5 || c6, l6).

(* ---------- _optimize ---------- *)
(* context of the i-th child of a node `op` *)
Definition pc_of (op : string) (i : nat) : pctx :=
  if String.eqb op "if" then (match i with O => PIf | _ => POther end)
  else if String.eqb op "assert" then PAssert
  else if String.eqb op "iszero" then PIszero
  else POther.

(* utils.ceil32 on a python int *)
Definition ceil32_py (x : Z) : Z := if x mod 32 =? 0 then x else x + 32 - x mod 32.

Fixpoint mapi_res {A B} (f : nat -> A -> res B) (i : nat) (l : list A) : res (list B) :=
  match l with
  | [] => Ok []
  | x :: t => y <- f i x ;; ys <- mapi_res f (S i) t ;; Ok (y :: ys)
  end.

Definition head_is (e : expr) (names : list string) : bool :=
  match e with Node op _ => existsb (String.eqb op) names | _ => false end.

(* finalize of _optimize: unchanged -> the original node; else rebuild and optimise again *)
Definition fin_ (rec : expr -> res (bool * expr)) (e : expr) (args_changed changed : bool) (new : expr)
    : res (bool * expr) :=
  if negb changed && negb args_changed then Ok (false, e)
  else r <- rec new ;; Ok (true, snd r).

Fixpoint opt (fuel : nat) (cancun : bool) (pc : pctx) (e : expr) : res (bool * expr) :=
  match fuel with
  | O => Err OutOfFuel
  | S f =>
    match e with
    | Lit _ | Var _ => Ok (false, e)
    | Node op args =>
      rs <- mapi_res (fun i a => opt f cancun (pc_of op i) a) 0 args ;;
      let args_changed := existsb fst rs in
      let argz := map snd rs in
      (* finalize of _optimize *)
      let fin := fin_ (opt f cancun pc) e args_changed in
      let generic := fin false (Node op argz) in
      match kind_of op with
      | KSeq =>
          '(c, l) <- merges cancun argz ;;
          match l with
          | [x] => r <- opt f cancun pc x ;; Ok (true, snd r)
          | _ => fin c (Node "seq" l)
          end
      | KBin o =>
          match arith o with
          | Some _ =>
              match argz with
              | [a; b] =>
                  r <- opt_binop o a b pc ;;
                  match r with Some e' => fin true e' | None => generic end
              | _ => Err BadIndex
              end
          | None =>   (* shl shr sar *)
              match argz with
              | [a; b] => if is_lit0 a then fin true b else generic
              | _ => Err BadIndex
              end
          end
      | KCeil32 =>
          match argz with
          | [Lit v] => let t := ceil32_py v in if lit_okb t then fin true (Lit t) else Err AssertFail
          | _ => generic
          end
      | KUn U_iszero =>
          match argz with
          | [Lit v] => fin true (Lit (if v =? 0 then 1 else 0))
          | _ => generic
          end
      | KIf =>
          match argz with
          | [Lit v; t] =>
              if evm_int true v =? 0 then fin true (Node "seq" []) else fin true (Node "seq" [t])
          | [Lit v; t; fl] =>
              if evm_int true v =? 0 then fin true (Node "seq" [fl]) else fin true (Node "seq" [t])
          | [c; t; fl] =>
              if head_is c ["iszero"; "ne"]%string then generic
              else fin true (Node "if" [Node "iszero" [c]; fl; t])
          | _ => generic
          end
      | KAssert | KAssertUnreachable =>
          match argz with
          | [Lit v] => if evm_int true v =? 0 then Err Raised else fin true (Node "seq" [])
          | _ => generic
          end
      | _ => generic
      end
    end
  end.

Definition optimize (cancun : bool) (e : expr) : res expr :=
  r <- opt 64 cancun PNone e ;; Ok (snd r).

Definition show_opt (r : res expr) : string :=
  match r with
  | Ok e => show e
  | Err Raised => "STATIC"
  | Err AssertFail => "ASSERT"
  | Err OutOfFuel => "FUEL"
  | Err _ => "E"
  end.
