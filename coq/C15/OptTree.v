(* C15 round 2: model of vyper/ir/optimizer.py:_optimize (the recursion over the whole tree, with the
   `changed` flags and re-optimisation of rebuilt nodes), _merge_memzero, _merge_load,
   _rewrite_mstore_dload and _remove_empty_seqs.  No proofs here.
   `opt fuel cancun pc e`: pc is the context of e (which parent it has), cancun = version_check(begin="cancun").
   The literal rules are modelled for the arities the IRnode constructor admits (iszero/ceil32/assert 1, if 2 or 3).
   Err Raised = StaticAssertionException; Err AssertFail = IRnode constructor assertion (ceil32 fold out of range). *)
From Coq Require Import ZArith Bool List String.
From Verif Require Import Base.Word256 Base.PyInt Base.Hex C15.Syntax C15.GenUtils C15.Optimizer.
Import ListNotations.
Open Scope Z_scope.

(* ---------- list surgery used by the merge loops: argz[idx] = new; del argz[idx+1 : idx+n] ---------- *)
Definition splice (l : list expr) (idx n : nat) (new : expr) : list expr :=
  (firstn idx l ++ new :: skipn (idx + n) l)%list.

Definition is_lit0 (e : expr) : bool := match e with Lit 0 => true | _ => false end.

(* ---------- _merge_memzero / _merge_load: one loop, two classifiers ----------
   Both Python functions are the same loop: collect a run of consecutive nodes that write adjacent memory
   ranges, replace the run by one copy node when it has more than one element.  The list is mutated while
   it is enumerated (argz[idx] = new; del argz[idx+1 : idx+n]), which the model reproduces with an explicit
   index.  A node is described by (dst, src, len); the run by its first dst/src, the total length so far, the
   index of its first node and the number of nodes. *)
Record mrun := { r_n : nat; r_dst : Z; r_src : Z; r_total : Z; r_idx : nat }.
Definition run0 : mrun := {| r_n := 0; r_dst := 0; r_src := 0; r_total := 0; r_idx := 0 |}.

Record mspec := {
  ms_cls : expr -> option (Z * Z * Z);   (* (dst, src, len) of a mergeable node *)
  ms_src : bool;                          (* the source offsets must be adjacent too (_merge_load) *)
  ms_allow_overlap : bool;
  ms_mk : Z -> Z -> Z -> expr             (* the merged node from (dst, src, total) *)
}.

Fixpoint g_loop (sp : mspec) (fuel : nat) (l : list expr) (i : nat) (r : mrun) (changed : bool)
    : res (bool * list expr) :=
  match fuel with
  | O => Err OutOfFuel
  | S f =>
    match nth_error l i with
    | None => Ok (changed, l)
    | Some node =>
      let is_last := Nat.eqb i (List.length l - 1) in
      let '(r1, cont) :=
        match ms_cls sp node with
        | Some (dst, src, len) =>
            let r' := if Nat.eqb (r_n r) 0
                      then {| r_n := 0; r_dst := dst; r_src := src; r_total := r_total r; r_idx := i |} else r in
            let has_overlap := (r_src r' <? r_dst r') && (r_dst r' <? src + 32) in
            if (r_dst r' + r_total r' =? dst)
               && (negb (ms_src sp) || (r_src r' + r_total r' =? src))
               && (ms_allow_overlap sp || negb has_overlap) then
              ({| r_n := S (r_n r'); r_dst := r_dst r'; r_src := r_src r'; r_total := r_total r' + len; r_idx := r_idx r' |},
               negb is_last)
            else (r', false)
        | None => (r, false)
        end in
      if cont then g_loop sp f l (S i) r1 changed
      else
        if Nat.ltb 1 (r_n r1) then
          (* IRnode.from_list asserts that the new literals are in range *)
          if lit_okb (r_total r1) then
            g_loop sp f (splice l (r_idx r1) (r_n r1) (ms_mk sp (r_dst r1) (r_src r1) (r_total r1))) (S i) run0 true
          else Err AssertFail
        else g_loop sp f l (S i) run0 changed
    end
  end.

(* The model declines (Err TypeErr) when a mergeable node has a negative literal offset or length: python adds
   literals as unbounded ints, the EVM wraps them -- for such (front-end unreachable) inputs the merges are not
   meaning preserving (see notes) and no claim is made. *)
Definition node_safe (sp : mspec) (e : expr) : bool :=
  match ms_cls sp e with Some (d, s, n) => (0 <=? d) && (0 <=? s) && (0 <=? n) | None => true end.
Definition g_merge (sp : mspec) (l : list expr) : res (bool * list expr) :=
  if forallb (node_safe sp) l then g_loop sp (S (List.length l)) l 0 run0 false else Err TypeErr.

(* _merge_memzero: (mstore off 0) and (calldatacopy off calldatasize len) *)
Definition zeroing (e : expr) : option (Z * Z * Z) :=
  match e with
  | Node op [Lit off; Lit z] =>
      if String.eqb op "mstore" && (z =? 0) then Some (off, 0, 32) else None
  | Node op [Lit off; Var v; Lit len] =>
      if String.eqb op "calldatacopy" && String.eqb v "calldatasize" then Some (off, 0, len) else None
  | _ => None
  end.
Definition sp_memzero : mspec :=
  {| ms_cls := zeroing; ms_src := false; ms_allow_overlap := true;
     ms_mk := fun d _ t => Node "calldatacopy" [Lit d; Var "calldatasize"; Lit t] |}.
Definition merge_memzero := g_merge sp_memzero.

(* _merge_load: (mstore dst (LOAD src)) *)
Definition loading (LOAD : string) (e : expr) : option (Z * Z * Z) :=
  match e with
  | Node op [Lit dst; Node ld [Lit src]] =>
      if String.eqb op "mstore" && String.eqb ld LOAD then Some (dst, src, 32) else None
  | _ => None
  end.
Definition sp_load (LOAD COPY : string) (allow_overlap : bool) : mspec :=
  {| ms_cls := loading LOAD; ms_src := true; ms_allow_overlap := allow_overlap;
     ms_mk := fun d s t => Node COPY [Lit d; Lit s; Lit t] |}.
Definition merge_load (LOAD COPY : string) (allow_overlap : bool) := g_merge (sp_load LOAD COPY allow_overlap).

(* ---------- _rewrite_mstore_dload ---------- *)
Definition rewrite_dload1 (e : expr) : bool * expr :=
  match e with
  | Node op [dst; Node ld [src]] =>
      if String.eqb op "mstore" && String.eqb ld "dload" then (true, Node "dloadbytes" [dst; src; Lit 32])
      else (false, e)
  | _ => (false, e)
  end.
Definition rewrite_mstore_dload (l : list expr) : bool * list expr :=
  (existsb (fun e => fst (rewrite_dload1 e)) l, map (fun e => snd (rewrite_dload1 e)) l).

(* ---------- _remove_empty_seqs: never removes the last element ---------- *)
Definition is_empty_seq (e : expr) : bool :=
  match e with Node op [] => String.eqb op "seq" || String.eqb op "pass" | _ => false end.
Fixpoint remove_empty_seqs (l : list expr) : bool * list expr :=
  match l with
  | [] => (false, [])
  | [x] => (false, [x])
  | x :: t => let '(c, t') := remove_empty_seqs t in
              if is_empty_seq x then (true, t') else (c, x :: t')
  end.

Definition merges (cancun : bool) (l : list expr) : res (bool * list expr) :=
  '(c1, l1) <- merge_memzero l ;;
  '(c2, l2) <- merge_load "calldataload" "calldatacopy" true l1 ;;
  '(c3, l3) <- merge_load "dload" "dloadbytes" true l2 ;;
  let '(c4, l4) := rewrite_mstore_dload l3 in
  '(c5, l5) <- (if cancun then merge_load "mload" "mcopy" false l4 else Ok (false, l4)) ;;
  let '(c6, l6) := remove_empty_seqs l5 in
  Ok (c1 || c2 || c3 || c4 || c5 || c6, l6).

(* ---------- _optimize ---------- *)
(* context of the i-th child of a node `op` *)
Definition pc_of (op : string) (i : nat) : pctx :=
  if String.eqb op "if" then (match i with O => PIf | _ => POther end)
  else if String.eqb op "assert" then PAssert
  else if String.eqb op "iszero" then PIszero
  else POther.

(* utils.ceil32 on a python int *)
Definition ceil32_py (x : Z) : Z := if x mod 32 =? 0 then x else x + 32 - x mod 32.

Fixpoint mapi_res {A B} (f : nat -> A -> res B) (i : nat) (l : list A) : res (list B) :=
  match l with
  | [] => Ok []
  | x :: t => y <- f i x ;; ys <- mapi_res f (S i) t ;; Ok (y :: ys)
  end.

Definition head_is (e : expr) (names : list string) : bool :=
  match e with Node op _ => existsb (String.eqb op) names | _ => false end.

(* IRnode.unique_symbols: the set of (unique_symbol name) markers below a node; CompilerPanic (Err KeyErr) if one
   name occurs under two different children.  `deploy` only counts its first and third argument. *)
Definition sym_name (e : expr) : string :=
  match e with Var x => x | Node x _ => x | Lit v => Verif.Base.Hex.hexZ v end.
Fixpoint usyms (e : expr) : res (list string) :=
  match e with
  | Node op args =>
      let own := if String.eqb op "unique_symbol" then match args with a :: _ => [sym_name a] | [] => [] end else [] in
      let skip1 := String.eqb op "deploy" && Nat.eqb (List.length args) 3 in
      (fix go (l : list expr) (i : nat) (acc : list string) : res (list string) :=
         match l with
         | [] => Ok acc
         | c :: t =>
             if skip1 && Nat.eqb i 1 then go t (S i) acc else
             s <- usyms c ;;
             if existsb (fun x => existsb (String.eqb x) acc) s then Err KeyErr else go t (S i) (acc ++ s)%list
         end) args 0%nat own
  | _ => Ok []
  end.
(* the union of arg.unique_symbols over the optimised operands *)
Fixpoint usyms_union (l : list expr) : res (list string) :=
  match l with [] => Ok [] | a :: t => s <- usyms a ;; r <- usyms_union t ;; Ok (s ++ r)%list end.
Definition same_set (a b : list string) : bool :=
  forallb (fun x => existsb (String.eqb x) b) a && forallb (fun x => existsb (String.eqb x) a) b.

(* finalize of _optimize: unchanged -> the original node; else rebuild and optimise again *)
Definition fin_ (rec : expr -> res (bool * expr)) (e : expr) (args_changed changed : bool) (new : expr)
    : res (bool * expr) :=
  if negb changed && negb args_changed then Ok (false, e)
  else r <- rec new ;; Ok (true, snd r).

(* what the rule part of _optimize decides for a node whose children are already optimised *)
Inductive action :=
| AGeneric                              (* no rule: finalize(value, argz) *)
| ARe (changed : bool) (new : expr)     (* finalize(new) with this `changed` flag *)
| ASingle (x : expr)                    (* (seq x): return True, _optimize(x, parent)[1] *)
| AFail (e : err).                      (* exception *)

Definition top_rule (cancun : bool) (pc : pctx) (op : string) (argz : list expr) : action :=
  match kind_of op with
  | KSeq =>
      match merges cancun argz with
      | Err e => AFail e
      | Ok (c, [x]) => ASingle x
      | Ok (c, l) => ARe c (Node "seq" l)
      end
  | KBin o =>
      match arith o with
      | Some _ =>
          match argz with
          | [a; b] =>
              match opt_binop o a b pc with
              | Err e => AFail e
              | Ok (Some e') => ARe true e'
              | Ok None => AGeneric
              end
          | _ => AFail BadIndex
          end
      | None =>   (* shl shr sar *)
          match argz with
          | [a; b] => if is_lit0 a then ARe true b else AGeneric
          | _ => AFail BadIndex
          end
      end
  | KCeil32 =>
      match argz with
      | [Lit v] => let t := ceil32_py v in if lit_okb t then ARe true (Lit t) else AFail AssertFail
      | _ => AGeneric
      end
  | KUn U_iszero =>
      match argz with
      | [Lit v] => ARe true (Lit (if v =? 0 then 1 else 0))
      | _ => AGeneric
      end
  | KIf =>
      match argz with
      | [Lit v; t] =>
          if evm_int true v =? 0 then ARe true (Node "seq" []) else ARe true (Node "seq" [t])
      | [Lit v; t; fl] =>
          if evm_int true v =? 0 then ARe true (Node "seq" [fl]) else ARe true (Node "seq" [t])
      | [c; t; fl] =>
          if head_is c ["iszero"; "ne"]%string then AGeneric
          else ARe true (Node "if" [Node "iszero" [c]; fl; t])
      | _ => AGeneric
      end
  | KAssert | KAssertUnreachable =>
      match argz with
      | [Lit v] => if evm_int true v =? 0 then AFail Raised else ARe true (Node "seq" [])
      | _ => AGeneric
      end
  | _ => AGeneric
  end.

Fixpoint opt (fuel : nat) (cancun : bool) (pc : pctx) (e : expr) : res (bool * expr) :=
  match fuel with
  | O => Err OutOfFuel
  | S f =>
    match e with
    | Lit _ | Var _ => Ok (false, e)
    | Node op args =>
      starting <- usyms e ;;        (* starting_symbols = node.unique_symbols *)
      rs <- mapi_res (fun i a => opt f cancun (pc_of op i) a) 0 args ;;
      let args_changed := existsb fst rs in
      let argz := map snd rs in
      let fin := fin_ (opt f cancun pc) e args_changed in
      (* should_check_symbols: after a binop rewrite the rebuilt node must carry the symbols of the (optimised)
         operands -- /repo 8260fcf; before, the reference was `starting`, taken before the children were optimised *)
      let chk := match kind_of op with KBin o => match arith o with Some _ => true | None => false end | _ => false end in
      match top_rule cancun pc op argz with
      | AGeneric => fin false (Node op argz)
      | ARe c new =>
          if chk then (st <- usyms_union argz ;; now <- usyms new ;;
                       if same_set st now then fin c new else Err KeyErr)
          else fin c new
      | ASingle x => r <- opt f cancun pc x ;; Ok (true, snd r)
      | AFail er => Err er
      end
    end
  end.

Definition optimize (cancun : bool) (e : expr) : res expr :=
  r <- opt 64 cancun PNone e ;; Ok (snd r).

Definition show_syms (r : res (list string)) : string :=
  match r with Ok l => String.concat "," l | Err _ => "PANIC" end.
Definition show_opt (r : res expr) : string :=
  match r with
  | Ok e => show e
  | Err Raised => "STATIC"
  | Err AssertFail => "ASSERT"
  | Err OutOfFuel => "FUEL"
  | Err TypeErr => "DECLINED"
  | Err KeyErr => "PANIC"
  | Err _ => "E"
  end.
