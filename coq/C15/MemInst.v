(* C15 round 2: the assumptions SemOk / MemOk are satisfiable -- a concrete state space with a byte memory,
   big-endian words, and the seven memory nodes (everything else a no-op). *)
From Coq Require Import ZArith Bool List String Lia PeanoNat.
From Verif Require Import Base.Word256 Base.PyInt C15.Syntax C15.WordFacts C15.Bytes C15.GenUtils C15.Optimizer
  C15.OptSound C15.OptTree C15.OptTreeSound C15.MergeSound.
Import ListNotations.
Open Scope Z_scope.

(* big-endian value of a byte list *)
Fixpoint be (bs : list Z) : Z :=
  match bs with [] => 0 | b :: t => b * 256 ^ Z.of_nat (List.length t) + be t end.
Definition digits (v : Z) : list Z := tab 32 (fun i => (v / 256 ^ Z.of_nat (31 - i)) mod 256).

Lemma be_bound bs : bytes bs -> 0 <= be bs < 256 ^ Z.of_nat (List.length bs).
Proof.
  induction 1 as [|b t Hb Ht IH]; [cbn; lia|]. cbn [be List.length]. rewrite Nat2Z.inj_succ, Z.pow_succ_r by lia.
  unfold isbyte in Hb. nia.
Qed.
Lemma be_digit bs : bytes bs -> forall i, (i < List.length bs)%nat ->
  (be bs / 256 ^ Z.of_nat (List.length bs - 1 - i)) mod 256 = get bs i.
Proof.
  induction 1 as [|b t Hb Ht IH]; intros i Hi; [cbn in Hi; lia|].
  pose proof (be_bound t Ht) as Bt. cbn [be List.length] in *. unfold isbyte in Hb.
  assert (P0: 0 < 256 ^ Z.of_nat (List.length t)) by (apply Z.pow_pos_nonneg; lia).
  destruct i as [|i].
  - replace (S (List.length t) - 1 - 0)%nat with (List.length t) by lia. cbn [get nth].
    rewrite Z.div_add_l by lia. rewrite Z.div_small by lia. rewrite Z.add_0_r. apply Z.mod_small. lia.
  - replace (S (List.length t) - 1 - S i)%nat with (List.length t - 1 - i)%nat by lia.
    change (get (b :: t) (S i)) with (get t i). rewrite <- (IH i ltac:(lia)).
    set (e := Z.of_nat (List.length t - 1 - i)).
    assert (E: Z.of_nat (List.length t) = e + Z.of_nat (S i)) by (unfold e; lia).
    rewrite E at 1. rewrite Z.pow_add_r by lia. rewrite Nat2Z.inj_succ, Z.pow_succ_r by lia.
    assert (Pe: 0 < 256 ^ e) by (apply Z.pow_pos_nonneg; lia).
    replace (b * (256 ^ e * (256 * 256 ^ Z.of_nat i)) + be t) with (be t + (b * 256 ^ Z.of_nat i * 256) * 256 ^ e) by ring.
    rewrite Z.div_add by lia. rewrite Z.add_mod by lia. rewrite Z.mod_mul by lia. rewrite Z.add_0_r. apply Z.mod_mod. lia.
Qed.
Lemma digits_be bs : List.length bs = 32%nat -> bytes bs -> digits (wrap (be bs)) = bs.
Proof.
  intros L B. pose proof (be_bound bs B) as Bb. rewrite L in Bb. change (256 ^ Z.of_nat 32) with W in Bb.
  rewrite wrap_small by exact Bb. apply arr_ext; [unfold digits; rewrite tab_length; lia|].
  intros i Hi. unfold digits in *. rewrite tab_length in Hi. rewrite get_tab.
  assert (i <? 32 = true)%nat as -> by (apply Nat.ltb_lt; exact Hi).
  rewrite <- (be_digit bs B i ltac:(lia)). rewrite L. replace (32 - 1 - i)%nat with (31 - i)%nat by lia. reflexivity.
Qed.

(* the state: memory bytes; no calldata, no data section *)
Definition norm (m : list Z) : list Z := map (fun z => z mod 256) m.
Lemma norm_bytes m : bytes (norm m).
Proof. unfold bytes, norm. apply Forall_forall. intros x Hx. apply in_map_iff in Hx. destruct Hx as (z & <- & _). unfold isbyte. apply Z.mod_pos_bound. lia. Qed.
Lemma norm_id m : bytes m -> norm m = m.
Proof. unfold norm. induction 1 as [|b t Hb Ht IH]; [reflexivity|]. cbn. rewrite IH. f_equal. apply Z.mod_small. exact Hb. Qed.

Definition mden := list Z -> outcome (list Z) unit.
Definition b1 (d : mden) (k : Z -> mden) : mden := fun s => match d s with Norm v s' => k v s' | Halt h => Halt h end.
Definition instK (op : string) (ds : list mden) : mden :=
  match ds with
  | [da] =>
      if String.eqb op "mload" then b1 da (fun a s => Norm (wrap (be (rd (norm s) (zn a) 32))) (touch (norm s) (zn a) 32))
      else if String.eqb op "calldataload" || String.eqb op "dload" then b1 da (fun a s => Norm (wrap (be (rd [] (zn a) 32))) s)
      else fun s => Norm 0 s
  | [da; dv] =>
      if String.eqb op "mstore" then b1 dv (fun v => b1 da (fun a s => Norm 0 (upd (norm s) (zn a) (digits v))))
      else fun s => Norm 0 s
  | [dd; dsrc; dn] =>
      if String.eqb op "calldatacopy" || String.eqb op "dloadbytes" then
        b1 dn (fun n => b1 dsrc (fun src => b1 dd (fun d s => Norm 0 (upd (norm s) (zn d) (rd [] (zn src) (zn n))))))
      else if String.eqb op "mcopy" then
        b1 dn (fun n => b1 dsrc (fun src => b1 dd (fun d s => Norm 0 (mcopy_mem (norm s) (zn d) (zn src) (zn n)))))
      else fun s => Norm 0 s
  | _ => fun s => Norm 0 s
  end.
Definition InstSem : Sem :=
  {| St := list Z; Hl := unit; getvar := fun _ _ => 0; sem_K := instK;
     sem_revert := fun _ => tt; sem_invalid := fun _ => tt |}.

Lemma b1_ext (d d' : mden) k k' s : d s = d' s -> (forall v s1, k v s1 = k' v s1) -> b1 d k s = b1 d' k' s.
Proof. intros E K. unfold b1. rewrite E. destruct (d' s); auto. Qed.

Lemma InstSemOk : SemOk InstSem.
Proof.
  constructor.
  - (* values are words *)
    intros op ds s v s' H. cbn in H. unfold instK in H.
    assert (R: forall z, 0 <= wrap z < W) by (intros; apply wrap_range).
    assert (Z0: 0 <= 0 < W) by (unfold W; lia).
    destruct ds as [|da [|dv [|dn [|x r]]]]; try (inversion H; exact Z0);
      repeat match type of H with context[if ?c then _ else _] => destruct c end;
      unfold b1 in H;
      repeat match type of H with context[match ?d s with _ => _ end] => destruct (d s); try discriminate H
                                | context[match ?d ?s0 with _ => _ end] => destruct (d s0); try discriminate H end;
      inversion H; subst; try exact Z0; apply R.
  - (* extensional *)
    intros op ds ds' F s. cbn. unfold instK.
    destruct F as [|d d' t t' Hd F]; [reflexivity|].
    destruct F as [|d2 d2' t2 t2' Hd2 F].
    { repeat match goal with |- context[if ?c then _ else _] => destruct c end; try reflexivity; apply b1_ext; auto. }
    destruct F as [|d3 d3' t3 t3' Hd3 F].
    { destruct (String.eqb op "mstore"); [|reflexivity]. apply b1_ext; [apply Hd2|]. intros. apply b1_ext; auto. }
    destruct F as [|d4 d4' t4 t4' Hd4 F]; [|reflexivity].
    repeat match goal with |- context[if ?c then _ else _] => destruct c end; try reflexivity;
      (apply b1_ext; [apply Hd3|]; intros; apply b1_ext; [apply Hd2|]; intros; apply b1_ext; auto).
Qed.

Lemma digits_len v : List.length (digits v) = 32%nat. Proof. apply tab_length. Qed.
Lemma digits_bytes v : bytes (digits v).
Proof. apply bytes_tab. intros i. unfold isbyte. apply Z.mod_pos_bound. lia. Qed.
Lemma digits_0 : digits 0 = repeat 0 32. Proof. reflexivity. Qed.

Definition InstMemOk : MemOk InstSem.
Proof.
  refine {| mget := (fun s : St InstSem => norm s); mput := (fun (s : St InstSem) m => m);
            cdat := (fun _ : St InstSem => []); ddat := []; b_of := digits; w_of := be |}.
  - intros s. apply norm_bytes.
  - intros s. constructor.
  - constructor.
  - intros s m B. apply norm_id. exact B.
  - reflexivity.
  - reflexivity.
  - reflexivity.
  - apply digits_len.
  - apply digits_bytes.
  - exact digits_0.
  - intros bs L B. apply digits_be; assumption.
  - intros s. cbn. lia.
  - intros da dv s. reflexivity.
  - intros da s. reflexivity.
  - intros da s. reflexivity.
  - intros da s. reflexivity.
  - intros dd dsrc dn s. reflexivity.
  - intros dd dsrc dn s. reflexivity.
  - intros dd dsrc dn s. reflexivity.
Defined.
