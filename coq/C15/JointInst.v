(* C15 round 5: the hypotheses of opt_then_lower_sound are jointly satisfiable.  One concrete state space meets
   SemOk (optimiser theorems), MemOk (merge theorems) and StmtOk (lowering theorem) at once:
   state = byte memory x trace of the other effects; big-endian words; mload / mstore / mcopy / calldataload /
   calldatacopy / dload / dloadbytes concrete (empty calldata and data section, as in MemInst.v); every other opcode is
   appended to the trace with its operand values; STOP / RETURN / REVERT / INVALID / SELFDESTRUCT halt with the opcode,
   its operands and the state as observation.  EVERY node kind that Syntax.v leaves uninterpreted evaluates all its
   operands, last to first, before it acts (strict), which is what StmtOk asks of the EVM opcodes. *)
From Coq Require Import ZArith Bool List String Lia PeanoNat.
From Verif Require Import Base.Word256 Base.PyInt C15.Syntax C15.WordFacts C15.Bytes C15.GenUtils C15.Optimizer
  C15.OptSound C15.OptTree C15.OptTreeSound C15.MergeSound C15.MemInst C15.Peephole C15.Lower C15.StmtSound.
Import ListNotations.
Open Scope Z_scope.

Definition JSt : Type := (list Z * list (string * list Z))%type.       (* memory bytes, effect trace (latest first) *)
Definition JHl : Type := (string * list Z * JSt)%type.
Definition jden := JSt -> outcome JSt JHl.

(* the opcode on its operand values (first operand first) *)
Definition jops (o : string) (vs : list Z) (st : JSt) : outcome JSt JHl :=
  let '(m, tr) := st in
  if existsb (String.eqb o) ["STOP"; "RETURN"; "REVERT"; "INVALID"; "SELFDESTRUCT"]%string then Halt (o, vs, st) else
  match vs with
  | [a] =>
      if String.eqb o "MLOAD" then Norm (wrap (be (rd (norm m) (zn a) 32))) (touch (norm m) (zn a) 32, tr)
      else if String.eqb o "CALLDATALOAD" || String.eqb o "DLOAD" then Norm (wrap (be (rd [] (zn a) 32))) st
      else Norm 0 (m, (o, vs) :: tr)
  | [a; v] =>
      if String.eqb o "MSTORE" then Norm 0 (upd (norm m) (zn a) (digits v), tr)
      else Norm 0 (m, (o, vs) :: tr)
  | [d; src; n] =>
      if String.eqb o "CALLDATACOPY" || String.eqb o "DLOADBYTES" then Norm 0 (upd (norm m) (zn d) (rd [] (zn src) (zn n)), tr)
      else if String.eqb o "MCOPY" then Norm 0 (mcopy_mem (norm m) (zn d) (zn src) (zn n), tr)
      else Norm 0 (m, (o, vs) :: tr)
  | _ => Norm 0 (m, (o, vs) :: tr)
  end.
(* operands last-to-first (the list is given reversed), values accumulated first-operand-first *)
Fixpoint jrun (l : list jden) (acc : list Z) (st : JSt) (k : list Z -> JSt -> outcome JSt JHl) : outcome JSt JHl :=
  match l with
  | [] => k acc st
  | d :: t => match d st with Norm v st1 => jrun t (v :: acc) st1 k | Halt h => Halt h end
  end.
Definition jK (op : string) (ds : list jden) : jden := fun st => jrun (rev ds) [] st (jops (upper op)).
Definition JSem : Sem :=
  {| St := JSt; Hl := JHl; getvar := fun _ _ => 0; sem_K := jK;
     sem_revert := fun st => ("REVERT"%string, [0; 0], st); sem_invalid := fun st => ("INVALID"%string, [], st) |}.

Lemma jops_range o vs st v st' : jops o vs st = Norm v st' -> 0 <= v < W.
Proof.
  assert (R: forall z, 0 <= wrap z < W) by (intros; apply wrap_range).
  assert (Z0: 0 <= 0 < W) by (unfold W; lia).
  unfold jops. destruct st as [m tr]. destruct (existsb _ _); [discriminate|].
  destruct vs as [|a [|b [|c [|? ?]]]]; repeat match goal with |- context[if ?c then _ else _] => destruct c end;
    intros H; inversion H; subst; auto.
Qed.
Lemma jrun_range l : forall acc st k v st', (forall vs s v s', k vs s = Norm v s' -> 0 <= v < W) ->
  jrun l acc st k = Norm v st' -> 0 <= v < W.
Proof.
  induction l as [|d t IH]; intros acc st k v st' K H; cbn [jrun] in H; [eapply K; eauto|].
  destruct (d st); [eapply IH; eauto | discriminate].
Qed.
Lemma jrun_ext l l' : Forall2 (fun d d' : jden => forall s, d s = d' s) l l' -> forall acc st k, jrun l acc st k = jrun l' acc st k.
Proof.
  induction 1 as [|d d' t t' Hd F IH]; intros acc st k; [reflexivity|]. cbn [jrun]. rewrite Hd. destruct (d' st); [apply IH | reflexivity].
Qed.
Lemma Forall2_rev' {A B} (R : A -> B -> Prop) l l' : Forall2 R l l' -> Forall2 R (rev l) (rev l').
Proof.
  induction 1 as [|x y t t' Hx F IH]; [constructor|]. cbn [rev]. apply Forall2_app; [exact IH | constructor; [exact Hx | constructor]].
Qed.

Lemma JSemOk : SemOk JSem.
Proof.
  constructor.
  - intros op ds s v s' H. cbn in H. unfold jK in H. eapply jrun_range; [|exact H]. intros. eapply jops_range; eauto.
  - intros op ds ds' F s. cbn. unfold jK. apply jrun_ext. apply Forall2_rev'. exact F.
Qed.

Definition JMemOk : MemOk JSem.
Proof.
  refine {| mget := (fun s : St JSem => norm (fst s)); mput := (fun (s : St JSem) m => (m, snd s));
            cdat := (fun _ : St JSem => []); ddat := []; b_of := digits; w_of := be |}.
  - intros s. apply norm_bytes.
  - intros s. constructor.
  - constructor.
  - intros s m B. apply norm_id. exact B.
  - reflexivity.
  - reflexivity.
  - reflexivity.
  - apply digits_len.
  - apply digits_bytes.
  - exact digits_0.
  - intros bs L B. apply digits_be; assumption.
  - intros s. cbn. lia.
  - intros da dv s. cbn. unfold jK, bindd. cbn. destruct (dv s) as [v [m tr]|]; [|reflexivity]. destruct (da (m, tr)) as [a [m1 tr1]|]; reflexivity.
  - intros da s. cbn. unfold jK, bindd. cbn. destruct (da s) as [a [m1 tr1]|]; reflexivity.
  - intros da s. cbn. unfold jK, bindd. cbn. destruct (da s) as [a [m1 tr1]|]; reflexivity.
  - intros da s. cbn. unfold jK, bindd. cbn. destruct (da s) as [a [m1 tr1]|]; reflexivity.
  - intros dd dsrc dn s. cbn. unfold jK, bindd. cbn. destruct (dn s) as [n [m tr]|]; [|reflexivity].
    destruct (dsrc (m, tr)) as [src [m1 tr1]|]; [|reflexivity]. destruct (dd (m1, tr1)) as [d [m2 tr2]|]; reflexivity.
  - intros dd dsrc dn s. cbn. unfold jK, bindd. cbn. destruct (dn s) as [n [m tr]|]; [|reflexivity].
    destruct (dsrc (m, tr)) as [src [m1 tr1]|]; [|reflexivity]. destruct (dd (m1, tr1)) as [d [m2 tr2]|]; reflexivity.
  - intros dd dsrc dn s. cbn. unfold jK, bindd. cbn. destruct (dn s) as [n [m tr]|]; [|reflexivity].
    destruct (dsrc (m, tr)) as [src [m1 tr1]|]; [|reflexivity]. destruct (dd (m1, tr1)) as [d [m2 tr2]|]; reflexivity.
Defined.

Lemma JStmtOk : StmtOk JSem jops.
Proof. constructor; [reflexivity | reflexivity | intros [m tr]; reflexivity | intros [m tr]; reflexivity]. Qed.

(* the three sets of hypotheses hold together *)
Theorem joint_instance : SemOk JSem /\ inhabited (MemOk JSem) /\ StmtOk JSem jops.
Proof. split; [exact JSemOk|]. split; [exact (inhabits JMemOk) | exact JStmtOk]. Qed.
