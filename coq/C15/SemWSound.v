(* C15 extension (session 3): SemW.evalW conservatively extends Syntax.eval.
   On every tree WITHOUT binder nodes (`plain`: the node kinds Syntax.v interprets, at their legal arities, and EVM opcode
   nodes -- no with / set / repeat / break / continue / other macro) and for every environment of words,
       evalW M opsem e en st  =  eval (with_env M en) e st     (environment returned unchanged)
   where `with_env M en` is M with the environment as the reader of non-complex leaves (for en = [] it is M itself up to
   eta), provided sem_K of an opcode node is "operands last-to-first, then opsem" (StmtOk's so_strict -- the same
   hypothesis under which StmtSound relates `eval` to the machine).  Hence the old theorems' `eval` and the new `evalW`
   agree on the old fragment, and StmtSound.frag trees are `plain`. *)
From Coq Require Import ZArith Bool List String Lia PeanoNat.
From Verif Require Import Base.Word256 Base.PyInt C15.Syntax C15.WordFacts C15.GenUtils C15.Peephole C15.Lower C15.LowerSound
  C15.OptSound C15.OptTree C15.OptTreeSound C15.LowerFlow C15.FlowSound C15.StmtSound C15.SemW.
Import ListNotations.
Open Scope Z_scope.

Definition with_env (M : Sem) (en : env) : Sem :=
  {| St := St M; Hl := Hl M;
     getvar := fun s x => match assoc x en with Some v => v | None => getvar M s x end;
     sem_K := sem_K M; sem_revert := sem_revert M; sem_invalid := sem_invalid M |}.
Definition env_words (en : env) : Prop := Forall (fun p => 0 <= snd p < W) en.

Fixpoint plain (e : expr) : Prop :=
  match e with
  | Lit _ | Var _ => True
  | Node op args =>
      (fix go (l : list expr) : Prop := match l with [] => True | x :: t => plain x /\ go t end) args /\
      match kind_of op with
      | KBin _ => List.length args = 2%nat
      | KUn _ | KCeil32 | KAssert | KAssertUnreachable => List.length args = 1%nat
      | KSeq => True
      | KIf => List.length args = 2%nat \/ List.length args = 3%nat
      | KPass => args = []
      | KOther => is_evm op = true
      end
  end.

Lemma assoc_words_gen (l : env) : env_words l -> forall x v, assoc x l = Some v -> 0 <= v < W.
Proof.
  induction 1 as [|[y w] t Hy Ht IH]; intros x v A; [discriminate|]. cbn [assoc] in A. destruct (String.eqb y x).
  - inversion A; subst. exact Hy.
  - eapply IH. exact A.
Qed.

Section Cons.
Variable M : Sem.                                                            (*section*)
Variable opsem : string -> list Z -> St M -> outcome (St M) (Hl M).          (*section*)
Hypothesis strict : forall op ds st, kind_of op = KOther -> assoc (upper op) evm_opcodes <> None ->   (*section*)
  sem_K M op ds st = run_rev M (rev ds) [] st (opsem (upper op)).
Variable en : env.                                                           (*section*)
Hypothesis EW : env_words en.                                                (*section*)
Notation evW := (evalW M opsem).
Notation ev := (eval (with_env M en)).

Definition liftW (o : outcome (St M) (Hl M)) : outW M :=
  match o with Norm v s => NormW v en s | Halt h => HaltW h end.
Definition agrees (d : denW M) (d0 : St M -> outcome (St M) (Hl M)) : Prop := forall st, d en st = liftW (d0 st).

Lemma bind_lift (d : denW M) d0 (k : Z -> denW M) k0 :
  agrees d d0 -> (forall v, agrees (k v) (k0 v)) -> agrees (bindW M d k) (bindd (with_env M en) d0 k0).
Proof.
  intros H1 H2 st. unfold bindW, bindd. rewrite H1. destruct (d0 st) as [v s1|h]; cbn [liftW]; [apply H2 | reflexivity].
Qed.
Lemma ret_lift v : agrees (retW M v) (ret (with_env M en) v).
Proof. intros st. reflexivity. Qed.
Lemma seq_lift l : Forall (fun e => agrees (evW e) (ev e)) l -> agrees (seqW M (map evW l)) (seq_den (with_env M en) (map ev l)).
Proof.
  induction 1 as [|x t Hx Ht IH]; [apply ret_lift|].
  destruct t as [|y t']; [exact Hx|].
  change (seqW M (map evW (x :: y :: t'))) with (bindW M (evW x) (fun _ => seqW M (map evW (y :: t')))).
  change (seq_den (with_env M en) (map ev (x :: y :: t'))) with
    (bindd (with_env M en) (ev x) (fun _ => seq_den (with_env M en) (map ev (y :: t')))).
  apply bind_lift; [exact Hx | intros _; exact IH].
Qed.
Lemma run_lift o l : Forall (fun e => agrees (evW e) (ev e)) l -> forall acc st,
  runW M (map evW l) acc en st (opW M opsem o) = liftW (run_rev M (map ev l) acc st (opsem o)).
Proof.
  induction 1 as [|x t Hx Ht IH]; intros acc st; cbn [map runW run_rev].
  - unfold opW. destruct (opsem o acc st); reflexivity.
  - rewrite Hx. destruct (ev x st) as [v s1|h]; cbn [liftW]; [apply IH | reflexivity].
Qed.
Lemma go_plain l : (fix go (l : list expr) : Prop := match l with [] => True | x :: t => plain x /\ go t end) l -> Forall plain l.
Proof. induction l as [|x t IH]; intros H; constructor; [apply H | apply IH; apply H]. Qed.
Lemma assoc_words x v : assoc x en = Some v -> 0 <= v < W.
Proof. apply assoc_words_gen. exact EW. Qed.

Theorem evalW_plain : forall e, plain e -> agrees (evW e) (ev e).
Proof.
  induction e as [v|x|op args IH] using expr_ind2; intros PL.
  - apply ret_lift.
  - intros st. cbn [evalW eval with_env getvar]. destruct (assoc x en) as [v|] eqn:A; [|reflexivity].
    cbn [liftW]. rewrite (wrap_small v (assoc_words _ _ A)). reflexivity.
  - cbn [plain] in PL. destruct PL as [PA PK]. apply go_plain in PA.
    assert (AG: Forall (fun e => agrees (evW e) (ev e)) args).
    { clear PK. induction IH as [|x t Hx Ht IHt]; [constructor|]. inversion PA; subst. constructor; auto. }
    clear IH PA. destruct (kind_of op) eqn:K.
    + destruct args as [|a [|b [|? ?]]]; try discriminate PK. inversion AG as [|? ? Ha AG']; subst. inversion AG' as [|? ? Hb _]; subst.
      intros st. cbn [evalW eval]. rewrite K.
      apply (bind_lift _ _ _ _ Hb). intros vb. apply (bind_lift _ _ _ _ Ha). intros va. apply ret_lift.
    + destruct args as [|a [|? ?]]; try discriminate PK. inversion AG as [|? ? Ha _]; subst.
      intros st. cbn [evalW eval]. rewrite K. destruct o; apply (bind_lift _ _ _ _ Ha); intros va; apply ret_lift.
    + destruct args as [|a [|? ?]]; try discriminate PK. inversion AG as [|? ? Ha _]; subst.
      intros st. cbn [evalW eval]. rewrite K. apply (bind_lift _ _ _ _ Ha); intros va; apply ret_lift.
    + intros st. cbn [evalW eval]. rewrite K. apply seq_lift. exact AG.
    + destruct PK as [PK|PK].
      * destruct args as [|c [|t [|? ?]]]; try discriminate PK. inversion AG as [|? ? Hc AG']; subst. inversion AG' as [|? ? Ht _]; subst.
        intros st. cbn [evalW eval]. rewrite K. apply (bind_lift _ _ _ _ Hc). intros vc. destruct (vc =? 0); [apply ret_lift | exact Ht].
      * destruct args as [|c [|t [|f [|? ?]]]]; try discriminate PK. inversion AG as [|? ? Hc AG']; subst.
        inversion AG' as [|? ? Ht AG'']; subst. inversion AG'' as [|? ? Hf _]; subst.
        intros st. cbn [evalW eval]. rewrite K. apply (bind_lift _ _ _ _ Hc). intros vc. destruct (vc =? 0); assumption.
    + destruct args as [|c [|? ?]]; try discriminate PK. inversion AG as [|? ? Hc _]; subst.
      intros st. cbn [evalW eval]. rewrite K. apply (bind_lift _ _ _ _ Hc). intros vc. destruct (vc =? 0); [|apply ret_lift].
      intros s. reflexivity.
    + destruct args as [|c [|? ?]]; try discriminate PK. inversion AG as [|? ? Hc _]; subst.
      intros st. cbn [evalW eval]. rewrite K. apply (bind_lift _ _ _ _ Hc). intros vc. destruct (vc =? 0); [|apply ret_lift].
      intros s. reflexivity.
    + subst args. intros st. cbn [evalW eval]. rewrite K. reflexivity.
    + intros st.
      assert (E0: ev (Node op args) st = sem_K M op (map ev args) st).
      { cbn [eval]. rewrite K. destruct args as [|? [|? [|? ?]]]; reflexivity. }
      rewrite E0. rewrite strict; [|exact K|unfold is_evm in PK; destruct (assoc (upper op) evm_opcodes); [discriminate | discriminate PK]].
      assert (E1: evW (Node op args) en st = runW M (rev (map evW args)) [] en st (opW M opsem (upper op))).
      { cbn [evalW]. rewrite K. rewrite PK. reflexivity. }
      rewrite E1. rewrite <- !map_rev. apply run_lift. apply Forall_rev. exact AG.
Qed.
End Cons.

(* StmtSound's fragment is binder-free *)
Lemma frag_plain : forall e, frag e -> plain e.
Proof.
  induction e as [v|x|op args IH] using expr_ind2; intros F; [exact I | exact I|].
  cbn [frag] in F. cbn [plain].
  assert (G: forall (Q : expr -> Prop) l, Forall (fun e => frag e -> plain e) l -> Forall (fun e => frag e /\ Q e) l ->
             (fix go (l : list expr) : Prop := match l with [] => True | x :: t => plain x /\ go t end) l).
  { intros Q l H1 H2. induction H1 as [|x t Hx Ht IHt]; [exact I|]. inversion H2 as [|? ? [Fx _] F2]; subst. split; [apply Hx; exact Fx | apply IHt; exact F2]. }
  destruct (kind_of op) eqn:K.
  - destruct args as [|a [|b [|? ?]]]; try contradiction. destruct F as [[Fa _] [Fb _]].
    inversion IH as [|? ? Ha IH']; subst. inversion IH' as [|? ? Hb _]; subst. repeat split; auto.
  - destruct args as [|a [|? ?]]; try contradiction. destruct F as [Fa _]. inversion IH as [|? ? Ha _]; subst. repeat split; auto.
  - destruct args as [|a [|? ?]]; try contradiction. destruct F as [Fa _]. inversion IH as [|? ? Ha _]; subst. repeat split; auto.
  - split; [|exact I]. apply go_forall in F. exact (G _ _ IH F).
  - destruct args as [|c [|t [|el [|? ?]]]]; try contradiction.
    + destruct F as ((Fc & _) & Ft & _). inversion IH as [|? ? Hc IH']; subst. inversion IH' as [|? ? Ht _]; subst.
      repeat split; auto.
    + destruct F as ((Fc & _) & Ft & Fe & _). inversion IH as [|? ? Hc IH']; subst. inversion IH' as [|? ? Ht IH'']; subst.
      inversion IH'' as [|? ? He _]; subst. split; [repeat split; auto | right; reflexivity].
  - destruct args as [|a [|? ?]]; try contradiction. destruct F as [Fa _]. inversion IH as [|? ? Ha _]; subst. repeat split; auto.
  - destruct args as [|a [|? ?]]; try contradiction. destruct F as [Fa _]. inversion IH as [|? ? Ha _]; subst. repeat split; auto.
  - subst args. split; [exact I | reflexivity].
  - unfold is_evm. destruct (assoc (upper op) evm_opcodes) as [[ins outs]|]; [|contradiction].
    destruct F as (_ & _ & _ & FA). apply go_forall in FA. split; [exact (G _ _ IH FA) | reflexivity].
Qed.
