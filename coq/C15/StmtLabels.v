(* C15 round 5: the label hypotheses of lower_stmt_sound hold for whole lowered programs of the fragment: the labels
   placed in the emitted code are pairwise distinct (each mksymbol name is placed at most once), the shared revert label
   is not among them, and it is the only label recorded as reachable from any height.  Order-insensitive bookkeeping:
   the ghost record lh grows by prepending, its keys stay distinct, and every placed label is a key created by the
   very call that placed it. *)
From Coq Require Import ZArith Bool List String Lia PeanoNat Permutation.
From Verif Require Import Base.Word256 Base.PyInt C15.Syntax C15.WordFacts C15.GenUtils C15.Peephole C15.Lower C15.LowerSound
  C15.OptSound C15.OptTree C15.OptTreeSound C15.LowerFlow C15.StmtSound.
Import ListNotations.
Open Scope nat_scope.

Lemma nodup_app_inv {A} (a b : list A) : NoDup (a ++ b) -> NoDup a /\ NoDup b /\ (forall x, In x a -> In x b -> False).
Proof.
  induction a as [|x t IH]; cbn [app]; intros H; [repeat split; [constructor | exact H | intros ? []]|].
  inversion H as [|? ? NI ND]; subst. destruct (IH ND) as (A1 & A2 & A3). repeat split.
  - constructor; [intros C; apply NI; apply in_or_app; left; exact C | exact A1].
  - exact A2.
  - intros y [->|Hy] Hb; [apply NI; apply in_or_app; right; exact Hb | eapply A3; eauto].
Qed.
Lemma nodup_app_intro {A} (a b : list A) : NoDup a -> NoDup b -> (forall x, In x a -> In x b -> False) -> NoDup (a ++ b).
Proof.
  induction 1 as [|x t NI ND IH]; intros Nb D; cbn [app]; [exact Nb|].
  constructor; [intros C; apply in_app_or in C; destruct C as [C|C]; [contradiction | eapply D; [left; reflexivity | exact C]]|].
  apply IH; [exact Nb | intros y Hy; apply D; right; exact Hy].
Qed.
Definition keys (s : lst) : list string := map fst (lh s).
(* state invariant: distinct keys, every key a mksymbol name with a counter already used, None-entries = the revert label *)
Definition kinv (s : lst) : Prop :=
  NoDup (keys s) /\
  (forall l v, In (l, v) (lh s) -> exists name c, l = (name ++ "_" ++ nat_str c)%string /\ c <= cnt s) /\
  (forall l, In (l, None) (lh s) -> revl s = Some l).
(* what a lowering call does to the labels: pl = the labels it placed *)
Definition J (s s' : lst) (pl : list string) : Prop :=
  exists L, lh s' = (L ++ lh s)%list /\ kinv s' /\ cnt s <= cnt s' /\ NoDup pl /\ incl pl (map fst L) /\
            (forall l, In (l, None) L -> ~ In l pl) /\ (forall l, revl s = Some l -> revl s' = Some l).

Lemma J_refl s : kinv s -> J s s [].
Proof.
  intros K. exists []. repeat split; auto; try apply K; try constructor; intros l H; contradiction.
Qed.
Lemma J_trans s s1 s2 p1 p2 : J s s1 p1 -> J s1 s2 p2 -> J s s2 (p1 ++ p2).
Proof.
  intros (L1 & E1 & K1 & C1 & N1 & I1 & R1 & V1) (L2 & E2 & K2 & C2 & N2 & I2 & R2 & V2).
  exists (L2 ++ L1)%list. rewrite E2, E1, app_assoc. split; [reflexivity|]. split; [exact K2|]. split; [lia|].
  assert (ND: NoDup (map fst L2 ++ map fst L1)).
  { destruct K2 as (ND & _ & _). unfold keys in ND. rewrite E2, E1, !map_app, app_assoc in ND. apply nodup_app_inv in ND. apply ND. }
  split.
  - apply nodup_app_intro; [exact N1 | exact N2|]. intros x H1 H2.
    apply I1 in H1. apply I2 in H2. exact (proj2 (proj2 (nodup_app_inv _ _ ND)) x H2 H1).
  - split; [|split].
    + intros x H. rewrite map_app. apply in_app_or in H. apply in_or_app. destruct H; [right; auto | left; auto].
    + intros l H Hp. apply in_app_or in H. apply in_app_or in Hp. destruct H as [H|H]; destruct Hp as [Hp|Hp].
      * apply I1 in Hp. apply (in_map fst) in H. cbn in H.
        exact (proj2 (proj2 (nodup_app_inv _ _ ND)) l H Hp).
      * exact (R2 l H Hp).
      * exact (R1 l H Hp).
      * apply I2 in Hp. apply (in_map fst) in H. cbn in H.
        exact (proj2 (proj2 (nodup_app_inv _ _ ND)) l Hp H).
    + intros l H. apply V2. apply V1. exact H.
Qed.

Lemma mksym_J name h s l s1 : mksym name (Some h) s = (l, s1) -> kinv s -> J s s1 [l].
Proof.
  unfold mksym. intros H (ND & KK & NV). inversion H; subst. clear H.
  set (l := (name ++ "_" ++ nat_str (S (cnt s)))%string).
  assert (FR: ~ In l (keys s)).
  { intros C. unfold keys in C. apply in_map_iff in C. destruct C as ([k v] & E & I). cbn in E. subst k.
    destruct (KK _ _ I) as (n & c & Eq & Lc). unfold l in Eq. apply sym_inj in Eq. lia. }
  exists [(l, Some h)]. cbn. repeat split.
  - constructor; assumption.
  - intros l0 v [I|I]; [inversion I; subst; exists name, (S (cnt s)); split; [reflexivity | cbn; lia]|].
    destruct (KK _ _ I) as (n & c & -> & Lc). exists n, c. split; [reflexivity | cbn; lia].
  - intros l0 [I|I]; [discriminate I | apply NV; exact I].
  - lia.
  - constructor; [intros [] | constructor].
  - intros x [<-|[]]. left. reflexivity.
  - intros l0 [I|[]] _. discriminate I.
  - auto.
Qed.
Lemma assert_false_J s af s1 : assert_false s = (af, s1) -> kinv s -> J s s1 [] /\ lbls af = [].
Proof.
  unfold assert_false. intros H K. destruct (revl s) as [l|] eqn:RL.
  - inversion H; subst. split; [apply J_refl; exact K | reflexivity].
  - cbn in H. inversion H; subst. clear H. split; [|reflexivity]. destruct K as (ND & KK & NV).
    set (l := ("revert" ++ "_" ++ nat_str (S (cnt s)))%string).
    assert (FR: ~ In l (keys s)).
    { intros C. unfold keys in C. apply in_map_iff in C. destruct C as ([k v] & E & I). cbn in E. subst k.
      destruct (KK _ _ I) as (n & c & Eq & Lc). unfold l in Eq. pose proof (sym_inj "revert" (S (cnt s)) n c Eq). lia. }
    exists [(l, None)]. cbn. repeat split.
    + constructor; assumption.
    + intros l0 v [I|I]; [inversion I; subst; exists "revert"%string, (S (cnt s)); split; [reflexivity | cbn; lia]|].
      destruct (KK _ _ I) as (n & c & -> & Lc). exists n, c. split; [reflexivity | cbn; lia].
    + intros l0 [I|I]; [inversion I; reflexivity|]. apply NV in I. congruence.
    + lia.
    + constructor.
    + intros x [].
    + intros l0 _ [].
    + intros l0 E. congruence.
Qed.

Lemma lbls_app a b : lbls (a ++ b) = (lbls a ++ lbls b)%list.
Proof. unfold lbls. apply flat_map_app. Qed.
Lemma lbls_push v : lbls (push v) = [].
Proof. unfold push, lbls. cbn [flat_map]. induction (bytes_of 33 v []) as [|b t IH]; [reflexivity | exact IH]. Qed.
Lemma lbls_pops n : lbls (repeat (Op "POP") n) = [].
Proof. induction n; [reflexivity | exact IHn]. Qed.

(* the lowering of the fragment places exactly the labels it creates, once each *)
Definition LSpec (rec : nat -> expr -> lst -> res (list item * lst)) : Prop :=
  forall h e s code s', rec h e s = Ok (code, s') -> frag e -> kinv s ->
    exists pl, J s s' pl /\ Permutation pl (lbls code).
Lemma many_labels rec : LSpec rec -> forall l h s code s',
  many_ rec l h s = Ok (code, s') -> Forall (fun x => frag x /\ valency x = 1) l -> kinv s ->
  exists pl, J s s' pl /\ Permutation pl (lbls code).
Proof.
  intros SP. induction l as [|x t IH]; intros h s code s' H F K; cbn [many_] in H.
  - inversion H; subst. exists []. split; [apply J_refl; exact K | constructor].
  - inversion F as [|? ? [Fx _] Ft]; subst.
    destruct (rec h x s) as [[cx s1]|] eqn:Ex; cbn [bind] in H; [|discriminate].
    destruct (many_ rec t (S h) s1) as [[ct s2]|] eqn:Et; cbn [bind] in H; [|discriminate]. inversion H; subst.
    destruct (SP _ _ _ _ _ Ex Fx K) as (p1 & J1 & P1).
    assert (K1: kinv s1) by (destruct J1 as (? & _ & K1 & _); exact K1).
    destruct (IH _ _ _ _ Et Ft K1) as (p2 & J2 & P2).
    exists (p1 ++ p2)%list. split; [eapply J_trans; eauto|]. rewrite lbls_app. apply Permutation_app; assumption.
Qed.
Lemma seq_labels (rec : expr -> lst -> res (list item * lst)) :
  (forall e s code s', rec e s = Ok (code, s') -> frag e -> kinv s -> exists pl, J s s' pl /\ Permutation pl (lbls code)) ->
  forall l s code s', seq_ rec l s = Ok (code, s') -> Forall (fun x => frag x /\ v01 x) l -> kinv s ->
  exists pl, J s s' pl /\ Permutation pl (lbls code).
Proof.
  intros SP. induction l as [|x t IH]; intros s code s' H F K; cbn [seq_] in H.
  - inversion H; subst. exists []. split; [apply J_refl; exact K | constructor].
  - inversion F as [|? ? [Fx _] Ft]; subst.
    destruct (rec x s) as [[cx s1]|] eqn:Ex; cbn [bind] in H; [|discriminate].
    destruct (seq_ rec t s1) as [[ct s2]|] eqn:Et; cbn [bind] in H; [|discriminate]. inversion H; subst.
    destruct (SP _ _ _ _ Ex Fx K) as (p1 & J1 & P1).
    assert (K1: kinv s1) by (destruct J1 as (? & _ & K1 & _); exact K1).
    destruct (IH _ _ _ Et Ft K1) as (p2 & J2 & P2).
    exists (p1 ++ p2)%list. split; [eapply J_trans; eauto|]. rewrite !lbls_app.
    replace (lbls (if (valency x =? 1) && negb match t with [] => true | _ :: _ => false end then [Op "POP"] else [])) with (@nil string)
      by (destruct (_ && _); reflexivity).
    cbn [app]. apply Permutation_app; assumption.
Qed.

Lemma perm_if2 (p1 p2 a b : list string) l : Permutation p1 a -> Permutation p2 b ->
  Permutation (p1 ++ [l] ++ p2) (a ++ b ++ [l]).
Proof.
  intros P1 P2. apply Permutation_app; [exact P1|]. cbn [app].
  eapply perm_trans; [apply perm_skip; exact P2 | apply Permutation_cons_append].
Qed.
Lemma perm_if3 (p1 p2 p3 a b c : list string) m l : Permutation p1 a -> Permutation p2 b -> Permutation p3 c ->
  Permutation (p1 ++ [m] ++ [l] ++ p2 ++ p3) (a ++ b ++ [m] ++ c ++ [l]).
Proof.
  intros P1 P2 P3. apply Permutation_app; [exact P1|]. cbn [app].
  eapply perm_trans; [apply perm_skip; apply perm_skip; apply Permutation_app; [exact P2 | exact P3]|].
  eapply perm_trans; [|apply Permutation_middle]. apply perm_skip.
  rewrite app_assoc. apply Permutation_cons_append.
Qed.
Lemma J_kinv s s' pl : J s s' pl -> kinv s'.
Proof. intros (? & _ & K & _). exact K. Qed.

Lemma lbls_op o t : lbls (Op o :: t) = lbls t. Proof. reflexivity. Qed.
Lemma lbls_nil : lbls [] = []. Proof. reflexivity. Qed.
Lemma lbls_pl l t : lbls (PushLbl l :: t) = lbls t. Proof. reflexivity. Qed.
Lemma lbls_lbl l t : lbls (Lbl l :: t) = ([l] ++ lbls t)%list. Proof. reflexivity. Qed.
Ltac lb := repeat (first [rewrite lbls_app | rewrite lbls_push | rewrite lbls_op | rewrite lbls_pl | rewrite lbls_lbl | rewrite lbls_nil]).
Local Opaque push.
Theorem lower_labels f : forall wa, LSpec (lower f wa None).
Proof.
  induction f as [|f IH]; intros wa h e s code s' H FR K; [discriminate|].
  destruct e as [v|x|op args].
  - cbn [lower] in H. destruct (lit_okb v); [|discriminate]. inversion H; subst.
    exists []. split; [apply J_refl; exact K | rewrite lbls_push; constructor].
  - cbn [frag] in FR. cbn [lower] in H. rewrite FR in H. destruct (assoc x wa); [|discriminate].
    destruct (Nat.ltb 16 (h - n)); [discriminate|]. inversion H; subst. exists []. split; [apply J_refl; exact K | constructor].
  - pose proof (kind_of_name op) as KN. cbn [frag] in FR. destruct (kind_of op) eqn:KD; cbn [kind_name] in KN.
    + destruct args as [|a [|b [|? ?]]]; try contradiction. destruct FR as [[Fa Va] [Fb Vb]].
      assert (EB: bop_of_name op = Some o) by (unfold kind_of in KD; destruct (bop_of_name op); [inversion KD; reflexivity|];
        repeat match type of KD with (if ?c then _ else _) = _ => destruct c end; discriminate).
      clear KN. apply bop_of_name_some' in EB. subst op.
      assert (H': exists cb s1 ca tail, lower f wa None h b s = Ok (cb, s1) /\ lower f wa None (S h) a s1 = Ok (ca, s') /\
                  code = (cb ++ ca ++ tail)%list /\ lbls tail = []).
      { destruct o; red_ops H; cbn [rev app] in H; cbn [many_] in H;
          sub H b cb s1 Eb; cbn [bind] in H; sub H a ca s2 Ea; cbn [bind] in H; inversion H; subst; clear H;
          rewrite ?app_nil_r; exists cb, s1, ca;
          try (eexists [Op _]; split; [first [reflexivity | exact Eb]|]; split; [first [exact Ea | reflexivity]|];
               split; [rewrite <- app_assoc; reflexivity | reflexivity]);
          (eexists [Op _; Op "ISZERO"]; split; [first [reflexivity | exact Eb]|]; split; [first [exact Ea | reflexivity]|];
           split; reflexivity). }
      destruct H' as (cb & s1 & ca & tail & Eb & Ea & -> & TL).
      destruct (IH wa _ _ _ _ _ Eb Fb K) as (p1 & J1 & P1). destruct (IH wa _ _ _ _ _ Ea Fa (J_kinv _ _ _ J1)) as (p2 & J2 & P2).
      exists (p1 ++ p2)%list. split; [eapply J_trans; eauto|]. rewrite !lbls_app, TL, app_nil_r. apply Permutation_app; assumption.
    + destruct args as [|a [|? ?]]; try contradiction. destruct FR as [Fa Va]. subst op.
      assert (H': exists ca, lower f wa None h a s = Ok (ca, s') /\ code = (ca ++ [Op (upper (uop_name o))])%list).
      { destruct o; red_ops H; cbn [rev app many_] in H; sub H a ca s1 Ea; cbn [bind] in H; inversion H; subst;
          exists ca; rewrite app_nil_r; auto. }
      destruct H' as (ca & Ea & ->). destruct (IH wa _ _ _ _ _ Ea Fa K) as (p1 & J1 & P1).
      exists p1. split; [exact J1|]. rewrite lbls_app. cbn. rewrite ?app_nil_r. exact P1.
    + destruct args as [|a [|? ?]]; try contradiction. destruct FR as [Fa Va]. subst op. red_ops H.
      sub H a ca s1 Ea; cbn [bind] in H. inversion H; subst. clear H.
      destruct (IH wa _ _ _ _ _ Ea Fa K) as (p1 & J1 & P1).
      exists p1. split; [exact J1|]. lb. cbn [app]. rewrite ?app_nil_r. exact P1.
    + subst op. red_ops H. apply go_forall in FR.
      exact (seq_labels _ (fun e0 s0 c0 s0' H0 F0 K0 => IH wa h e0 s0 c0 s0' H0 F0 K0) _ _ _ _ H FR K).
    + subst op. destruct args as [|c [|t [|el [|? ?]]]]; try contradiction.
      * destruct FR as ((Fc & Vc) & Ft & Vt). red_ops H.
        sub H c ac s1 Ec; cbn [bind] in H. destruct (mksym "join" (Some h) s1) as [lend s2] eqn:Ms.
        sub H t at_ s3 Et; cbn [bind] in H. inversion H; subst. clear H.
        destruct (IH wa _ _ _ _ _ Ec Fc K) as (p1 & J1 & P1).
        pose proof (mksym_J _ _ _ _ _ Ms (J_kinv _ _ _ J1)) as J2.
        destruct (IH wa _ _ _ _ _ Et Ft (J_kinv _ _ _ J2)) as (p3 & J3 & P3).
        exists (p1 ++ [lend] ++ p3)%list. split; [eapply J_trans; [exact J1|]; eapply J_trans; eauto|].
        lb. rewrite ?app_nil_r. apply perm_if2; assumption.
      * destruct FR as ((Fc & Vc) & Ft & Fe & Vte & _). red_ops H.
        sub H c ac s1 Ec; cbn [bind] in H. destruct (mksym "else" (Some h) s1) as [lmid s2] eqn:Ms1.
        destruct (mksym "join" (Some (h + valency t)%nat) s2) as [lend s3] eqn:Ms2.
        sub H t at_ s4 Et; cbn [bind] in H. sub H el ae s5 Ee; cbn [bind] in H. inversion H; subst. clear H.
        destruct (IH wa _ _ _ _ _ Ec Fc K) as (p1 & J1 & P1).
        pose proof (mksym_J _ _ _ _ _ Ms1 (J_kinv _ _ _ J1)) as J2. pose proof (mksym_J _ _ _ _ _ Ms2 (J_kinv _ _ _ J2)) as J3.
        destruct (IH wa _ _ _ _ _ Et Ft (J_kinv _ _ _ J3)) as (p4 & J4 & P4).
        destruct (IH wa _ _ _ _ _ Ee Fe (J_kinv _ _ _ J4)) as (p5 & J5 & P5).
        exists (p1 ++ [lmid] ++ [lend] ++ p4 ++ p5)%list.
        split; [eapply J_trans; [exact J1|]; eapply J_trans; [exact J2|]; eapply J_trans; [exact J3|]; eapply J_trans; eauto|].
        lb. rewrite ?app_nil_r. apply perm_if3; assumption.
    + destruct args as [|c [|? ?]]; try contradiction. destruct FR as [Fc Vc]. subst op. red_ops H.
      sub H c ac s1 Ec; cbn [bind] in H. destruct (assert_false s1) as [af s2] eqn:Af. inversion H; subst. clear H.
      destruct (IH wa _ _ _ _ _ Ec Fc K) as (p1 & J1 & P1).
      destruct (assert_false_J _ _ _ Af (J_kinv _ _ _ J1)) as [J2 LA].
      exists (p1 ++ [])%list. split; [eapply J_trans; eauto|]. lb. rewrite LA. rewrite ?app_nil_r. exact P1.
    + destruct args as [|c [|? ?]]; try contradiction. destruct FR as [Fc Vc]. subst op. red_ops H.
      sub H c ac s1 Ec; cbn [bind] in H. destruct (mksym "reachable" (Some h) s1) as [lend s2] eqn:Ms. inversion H; subst. clear H.
      destruct (IH wa _ _ _ _ _ Ec Fc K) as (p1 & J1 & P1). pose proof (mksym_J _ _ _ _ _ Ms (J_kinv _ _ _ J1)) as J2.
      exists (p1 ++ [lend])%list. split; [eapply J_trans; eauto|]. lb. rewrite ?app_nil_r.
      apply Permutation_app; [exact P1 | apply Permutation_refl].
    + subst op args. red_ops H. inversion H; subst. exists []. split; [apply J_refl; exact K | constructor].
    + destruct (assoc (upper op) evm_opcodes) as [[ins outs]|] eqn:Oop; [|contradiction].
      destruct FR as (EO & LA & LO & FA). apply go_forall in FA. apply Forall_rev in FA.
      cbn [lower] in H. rewrite Oop in H.
      destruct (many_ (lower f wa None) (rev args) h s) as [[am s1]|] eqn:Em; cbn [bind] in H; [|discriminate].
      inversion H; subst. clear H.
      destruct (many_labels _ (IH wa) _ _ _ _ _ Em FA K) as (p1 & J1 & P1).
      exists p1. split; [exact J1|]. rewrite lbls_app. cbn. rewrite ?app_nil_r. exact P1.
Qed.

(* ---- whole programs: _IRnodeLowerer.compile_to_assembly of a tree of the fragment ---- *)
Lemma kinv0 : kinv lst0.
Proof. repeat split; [constructor | intros l v [] | intros l []]. Qed.
Lemma rinv0 : rinv lst0.
Proof. split; [intros l Hl; discriminate Hl | split; [intros l v [] | intros l v v' []]]. Qed.

Definition post_of (s' : lst) : list item :=
  ([Op "STOP"] ++ match revl s' with Some l => [Lbl l] ++ push 0 ++ [Op "DUP1"; Op "REVERT"] | None => [] end)%list.
Lemma lower_top_inv e code : lower_top e = Ok code ->
  exists a s', lower 64 [] None 0 e lst0 = Ok (a, s') /\ code = (a ++ post_of s')%list.
Proof.
  unfold lower_top, lst0, post_of. intros H.
  destruct (lower 64 [] None 0 e {| cnt := 0; revl := None; labels := []; lh := []; dsegs := [] |}) as [[a s']|]; [|discriminate].
  cbn [bind] in H. inversion H; subst. exists a, s'. split; reflexivity.
Qed.

Theorem lower_top_stmt (M : Sem) (opsem : string -> list Z -> St M -> outcome (St M) (Hl M)) :
  StmtOk M opsem -> forall e code, lower_top e = Ok code -> frag e ->
  exists body, (exists rest, code = (body ++ Op "STOP" :: rest)%list) /\
    forall st, Reach M opsem code (0, [], st) (eval M e st)
                 (fun v st' => (List.length body, (if Nat.eqb (valency e) 1 then [VZ v] else []), st')).
Proof.
  intros OK e code H FR. destruct (lower_top_inv e code H) as (a & s' & L & ->). clear H.
  exists a. split; [eexists; reflexivity|]. intros st.
  destruct (lower_stmt_ok M opsem OK 64 [] 0 e lst0 a s' L FR rinv0) as (_ & R' & SS).
  destruct (lower_labels 64 [] 0 e lst0 a s' L FR kinv0) as (pl & (LL & EL & K' & _ & NDp & INp & NRp & _) & PM).
  cbn [lh lst0] in EL. rewrite app_nil_r in EL.
  assert (AT: At (a ++ post_of s') 0 a) by (exists [], (post_of s'); split; reflexivity).
  assert (ND: NoDup (lbls (a ++ post_of s'))).
  { rewrite lbls_app. unfold post_of. destruct (revl s') as [l|] eqn:RL.
    - lb. cbn [app]. apply nodup_app_intro; [eapply Permutation_NoDup; eauto | constructor; [intros [] | constructor]|].
      intros x Hx [<-|[]]. destruct R' as (RV & _ & _). specialize (RV _ RL). rewrite EL in RV.
      apply (NRp _ RV). eapply Permutation_in; [apply Permutation_sym; exact PM | exact Hx].
    - lb. rewrite app_nil_r. eapply Permutation_NoDup; eauto. }
  assert (RB: forall l, In (l, None) (lh s') -> RevBlock (a ++ post_of s') l).
  { intros l Hl. destruct K' as (_ & _ & NV). specialize (NV l Hl). unfold RevBlock, At.
    exists (Datatypes.S (List.length a)), (a ++ [Op "STOP"])%list, (@nil item).
    unfold post_of. rewrite NV. split; [rewrite <- !app_assoc, app_nil_r; reflexivity | rewrite app_length; cbn; lia]. }
  assert (AL: StmtSound.aligned M [] 0 [] st) by (intros x hx Hx; discriminate Hx).
  exact (SS _ 0 AT ND RB [] st AL eq_refl).
Qed.
