(* C15 round 3b: stack-height balance of the compile_ir lowering (model Lower.v) with control flow.
   `flow E code st` is an abstract interpreter over the emitted assembly that tracks the stack height relative to the
   current frame: every opcode must find its operands (DUPn / SWAPn need n resp. n+1 items), every static jump
   (PUSHLABEL l; JUMP / JUMPI) must arrive at the height the environment E assigns to l, and so must every fall-through
   into a label.  Theorem lower_flow: for every tree of the fragment below whose sub-terms have the valency their
   context needs, the code emitted at compile-time height h passes the check from height h and ends at height
   h + valency (or is dead after a terminal instruction), with E = the heights at which the lowerer placed its labels.
   So the `height` bookkeeping from which DUP/SWAP indices of with-variables are computed agrees with the real stack
   depth on every path: if (2/3), repeat with break / continue, assert, assert_unreachable, with, set, seq, select,
   the pseudo-ops, sha3_64, dload, dloadbytes, every EVM opcode. *)
From Coq Require Import ZArith Bool List String Ascii Lia PeanoNat DecimalString DecimalNat DecimalFacts.
From Verif Require Import Base.Word256 Base.PyInt C15.Syntax C15.WordFacts C15.GenUtils C15.Peephole C15.Lower C15.LowerSound.
Import ListNotations.
Open Scope nat_scope.

Inductive hst := Dead | Live (h : nat) (top : option string).   (* top: the label just pushed by PUSHLABEL *)
Definition lenv := list (string * option nat).                  (* label -> Some height | None: reachable from any height *)

Definition dup_names : list string := map (fun k => ("DUP" ++ nat_str k)%string) (seq 1 16).
Definition swap_names : list string := map (fun k => ("SWAP" ++ nat_str k)%string) (seq 1 16).
(* (items needed, items left): vyper's table says (1,2) for every DUPn and (2,2) for every SWAPn *)
Definition effect (o : string) : option (nat * nat) :=
  match index_of o dup_names 0 with
  | Some k => Some (S k, S (S k))
  | None => match index_of o swap_names 0 with
            | Some k => Some (S (S k), S (S k))
            | None => assoc o evm_opcodes
            end
  end.
Definition terminal (o : string) : bool :=
  existsb (String.eqb o) ["STOP"; "RETURN"; "REVERT"; "INVALID"; "SELFDESTRUCT"; "JUMP"]%string.
Definition target_ok (E : lenv) (l : string) (h : nat) : bool :=
  match assoc l E with Some (Some hl) => Nat.eqb h hl | Some None => true | None => false end.

Definition step (E : lenv) (it : item) (st : hst) : option hst :=
  match it with
  | Lbl l =>
      match assoc l E with
      | Some (Some hl) =>
          match st with
          | Dead => Some (Live hl None)
          | Live h _ => if Nat.eqb h hl then Some (Live hl None) else None
          end
      | Some None => Some (Live 0 None)
      | None => None
      end
  | Imm _ => Some st
  | PushLbl l => match st with Dead => Some Dead | Live h _ => Some (Live (S h) (Some l)) end
  | PushOfst _ _ => match st with Dead => Some Dead | Live h _ => Some (Live (S h) None) end
  | Op o =>
      match st with
      | Dead => Some Dead
      | Live h top =>
          match effect o with
          | None => None
          | Some (ins, outs) =>
              if Nat.ltb h ins then None
              else if String.eqb o "JUMP" then
                match top with
                | Some l => if target_ok E l (h - 1) then Some Dead else None
                | None => None      (* dynamic jump: not checkable *)
                end
              else if String.eqb o "JUMPI" then
                match top with
                | Some l => if target_ok E l (h - 2) then Some (Live (h - 2) None) else None
                | None => None
                end
              else if terminal o then Some Dead
              else Some (Live (h - ins + outs) None)
          end
      end
  | _ => None
  end.
Fixpoint flow (E : lenv) (a : list item) (st : hst) : option hst :=
  match a with
  | [] => Some st
  | it :: t => match step E it st with Some st1 => flow E t st1 | None => None end
  end.

Definition okst (st : hst) (h : nat) : Prop := st = Dead \/ st = Live h None.
Definition FlowOK (E : lenv) (a : list item) (h h' : nat) : Prop :=
  forall st, okst st h -> exists st', flow E a st = Some st' /\ okst st' h'.
(* code after which nothing is reachable *)
Definition FlowT (E : lenv) (a : list item) (h : nat) : Prop :=
  forall st, okst st h -> flow E a st = Some Dead.

Lemma flow_app E a b st : flow E (a ++ b) st = match flow E a st with Some s1 => flow E b s1 | None => None end.
Proof. revert st. induction a as [|it t IH]; intros st; cbn [app flow]; [reflexivity|]. destruct (step E it st); auto. Qed.
Lemma FlowOK_nil E h : FlowOK E [] h h.
Proof. intros st H. exists st. split; [reflexivity | exact H]. Qed.
Lemma FlowOK_app E a b h h1 h2 : FlowOK E a h h1 -> FlowOK E b h1 h2 -> FlowOK E (a ++ b) h h2.
Proof.
  intros A B st H. destruct (A st H) as (s1 & F1 & O1). destruct (B s1 O1) as (s2 & F2 & O2).
  exists s2. rewrite flow_app, F1. auto.
Qed.
Lemma FlowOK_T E a b h h1 : FlowOK E a h h1 -> FlowT E b h1 -> FlowT E (a ++ b) h.
Proof. intros A B st H. destruct (A st H) as (s1 & F1 & O1). rewrite flow_app, F1. apply B. exact O1. Qed.
Lemma FlowT_OK E a h h' : FlowT E a h -> FlowOK E a h h'.
Proof. intros A st H. exists Dead. split; [apply A; exact H | left; reflexivity]. Qed.
Lemma FlowT_lbl E a l h hl : FlowT E a h -> assoc l E = Some (Some hl) -> FlowOK E (a ++ [Lbl l]) h hl.
Proof.
  intros A L st H. exists (Live hl None). rewrite flow_app, (A st H). cbn. rewrite L. split; [reflexivity | right; reflexivity].
Qed.
Lemma FlowOK_lbl E l h : assoc l E = Some (Some h) -> FlowOK E [Lbl l] h h.
Proof.
  intros L st [->| ->]; exists (Live h None); cbn; rewrite L, ?Nat.eqb_refl; split; auto; right; reflexivity.
Qed.

(* ---- straight-line snippets: summary (needed, produced) ---- *)
Definition plain_op (o : string) : bool := negb (String.eqb o "JUMP") && negb (String.eqb o "JUMPI") && negb (terminal o).
Fixpoint lin (a : list item) (req prod : nat) : option (nat * nat) :=
  match a with
  | [] => Some (req, prod)
  | Imm _ :: t => lin t req prod
  | PushOfst _ _ :: t => lin t req (S prod)
  | Op o :: t =>
      if plain_op o then
        match effect o with
        | Some (i, k) => if Nat.leb i prod then lin t req (prod - i + k) else lin t (req + (i - prod)) k
        | None => None
        end
      else None
  | _ => None
  end.
Lemma step_plain E o h top i k : plain_op o = true -> effect o = Some (i, k) -> i <= h ->
  step E (Op o) (Live h top) = Some (Live (h - i + k) None).
Proof.
  intros P Ef L. unfold plain_op in P. apply andb_true_iff in P. destruct P as [P P3]. apply andb_true_iff in P.
  destruct P as [P1 P2]. apply negb_true_iff in P1, P2, P3. cbn [step]. rewrite Ef.
  destruct (Nat.ltb h i) eqn:Lt; [apply Nat.ltb_lt in Lt; lia|]. rewrite P1, P2, P3. reflexivity.
Qed.
Lemma lin_live E : forall a req prod r p h top, lin a req prod = Some (r, p) -> r <= h ->
  exists top', flow E a (Live (h - req + prod) top) = Some (Live (h - r + p) top') /\ (a <> [] -> top = None -> top' = None).
Proof.
  induction a as [|it t IH]; intros req prod r p h top H L; cbn [lin] in H.
  - inversion H; subst. exists top. split; [reflexivity | intros C; contradiction].
  - assert (MONO: forall a req prod r p, lin a req prod = Some (r, p) -> req <= r).
    { clear. induction a as [|it t IH]; intros req prod r p H; cbn [lin] in H; [inversion H; lia|].
      destruct it; try discriminate; eauto.
      destruct (plain_op s); [|discriminate]. destruct (effect s) as [[i k]|]; [|discriminate].
      destruct (Nat.leb i prod); [eauto | apply IH in H; lia]. }
    destruct it; try discriminate.
    + (* Op *) destruct (plain_op s) eqn:P; [|discriminate]. destruct (effect s) as [[i k]|] eqn:Ef; [|discriminate].
      destruct (Nat.leb i prod) eqn:Le.
      * apply Nat.leb_le in Le. pose proof (MONO _ _ _ _ _ H) as M.
        cbn [flow]. rewrite (step_plain E s _ top i k P Ef) by lia.
        replace (h - req + prod - i + k) with (h - req + (prod - i + k)) by lia.
        destruct (IH _ _ _ _ h None H L) as (t' & F & T). exists t'. split; [exact F|]. intros _ _.
        destruct t as [|x t0]; [cbn in F; inversion F; reflexivity | apply T; [discriminate | reflexivity]].
      * apply Nat.leb_gt in Le. pose proof (MONO _ _ _ _ _ H) as M.
        cbn [flow]. rewrite (step_plain E s _ top i k P Ef) by lia.
        replace (h - req + prod - i + k) with (h - (req + (i - prod)) + k) by lia.
        destruct (IH _ _ _ _ h None H L) as (t' & F & T). exists t'. split; [exact F|]. intros _ _.
        destruct t as [|x t0]; [cbn in F; inversion F; reflexivity | apply T; [discriminate | reflexivity]].
    + (* Imm *) cbn [flow step]. destruct (IH _ _ _ _ h top H L) as (t' & F & T). exists t'. split; [exact F|].
      intros _ Tn. destruct t as [|x t0]; [cbn in F; inversion F; subst; congruence | apply T; [discriminate | exact Tn]].
    + (* PushOfst *) cbn [flow step]. replace (S (h - req + prod)) with (h - req + S prod) by (pose proof (MONO _ _ _ _ _ H); lia).
      destruct (IH _ _ _ _ h None H L) as (t' & F & T). exists t'. split; [exact F|]. intros _ _.
      destruct t as [|x t0]; [cbn in F; inversion F; reflexivity | apply T; [discriminate | reflexivity]].
Qed.
Lemma lin_dead E : forall a req prod r, lin a req prod = Some r -> flow E a Dead = Some Dead.
Proof.
  induction a as [|it t IH]; intros req prod r H; cbn [lin] in H; [reflexivity|].
  destruct it; try discriminate; cbn [flow step]; eauto.
  destruct (plain_op s); [|discriminate]. destruct (effect s) as [[i k]|]; [|discriminate].
  destruct (Nat.leb i prod); eauto.
Qed.
Lemma FlowOK_lin E a r p h h' : lin a 0 0 = Some (r, p) -> a <> [] -> r <= h -> h' = h - r + p -> FlowOK E a h h'.
Proof.
  intros L NE R -> st [->| ->].
  - exists Dead. split; [eapply lin_dead; eauto | left; reflexivity].
  - destruct (lin_live E a 0 0 r p h None L R) as (t' & F & T). rewrite Nat.sub_0_r, Nat.add_0_r in F.
    exists (Live (h - r + p) t'). split; [exact F|]. right. rewrite (T NE eq_refl). reflexivity.
Qed.

(* ---- facts about the opcode families ---- *)
Lemma dup_fact d : 1 <= d <= 16 -> effect ("DUP" ++ nat_str d) = Some (d, S d) /\ plain_op ("DUP" ++ nat_str d) = true.
Proof. intros H. do 17 (destruct d as [|d]; [try lia; split; reflexivity|]). lia. Qed.
Lemma swap_fact d : 1 <= d <= 16 -> effect ("SWAP" ++ nat_str d) = Some (S d, S d) /\ plain_op ("SWAP" ++ nat_str d) = true.
Proof. intros H. do 17 (destruct d as [|d]; [try lia; split; reflexivity|]). lia. Qed.
Lemma push_fact k : k <= 32 -> effect ("PUSH" ++ nat_str k) = Some (0, 1) /\ plain_op ("PUSH" ++ nat_str k) = true.
Proof. intros H. do 33 (destruct k as [|k]; [split; reflexivity|]). lia. Qed.

Lemma FlowOK_one E o i k h : effect o = Some (i, k) -> plain_op o = true -> i <= h -> FlowOK E [Op o] h (h - i + k).
Proof.
  intros Ef P L st [->| ->]; [exists Dead; split; [reflexivity | left; reflexivity]|].
  exists (Live (h - i + k) None). cbn [flow]. rewrite (step_plain E o h None i k P Ef L). split; [reflexivity | right; reflexivity].
Qed.
Lemma flow_imms E bs st : flow E (map Imm bs) st = Some st.
Proof. induction bs as [|b t IH]; cbn [map flow step]; auto. Qed.
Lemma FlowOK_push E v h : (0 <= v < W)%Z -> FlowOK E (push v) h (S h).
Proof.
  intros Hv. unfold push. set (bs := bytes_of 33 v []).
  assert (L: List.length bs <= 32).
  { pose proof (bytes_of_len 33 v [] 32 ltac:(change (256 ^ Z.of_nat 32)%Z with W; exact Hv)). cbn [List.length] in H. unfold bs. lia. }
  destruct (push_fact _ L) as [Ef P].
  change (Op ("PUSH" ++ nat_str (List.length bs)) :: map Imm bs) with ([Op ("PUSH" ++ nat_str (List.length bs))%string] ++ map Imm bs)%list.
  eapply FlowOK_app; [apply (FlowOK_one E _ 0 1 h Ef P); lia|].
  replace (h - 0 + 1) with (S h) by lia. intros st H. exists st. split; [apply flow_imms | exact H].
Qed.
Lemma FlowOK_pops E n h : FlowOK E (repeat (Op "POP") n) (h + n) h.
Proof.
  induction n as [|n IH]; cbn [repeat]; [rewrite Nat.add_0_r; apply FlowOK_nil|].
  change (Op "POP" :: repeat (Op "POP") n) with ([Op "POP"] ++ repeat (Op "POP") n)%list.
  eapply FlowOK_app; [|exact IH]. eapply FlowOK_lin; [vm_compute; reflexivity | discriminate | lia | lia].
Qed.

(* ---- jumps ---- *)
Lemma FlowOK_jumpi E l hl : assoc l E = Some (Some hl) -> FlowOK E [PushLbl l; Op "JUMPI"] (S hl) hl.
Proof.
  intros L st [->| ->]; [exists Dead; split; [reflexivity | left; reflexivity]|].
  exists (Live hl None). split; [|right; reflexivity]. cbn [flow step]. change (effect "JUMPI") with (Some (2, 0)).
  cbn [Nat.ltb Nat.leb String.eqb Ascii.eqb Bool.eqb Nat.sub]. unfold target_ok. rewrite L, ?Nat.sub_0_r, Nat.eqb_refl. reflexivity.
Qed.
Lemma FlowOK_jumpi_any E l h : assoc l E = Some None -> FlowOK E [PushLbl l; Op "JUMPI"] (S h) h.
Proof.
  intros L st [->| ->]; [exists Dead; split; [reflexivity | left; reflexivity]|].
  exists (Live h None). split; [|right; reflexivity]. cbn [flow step]. change (effect "JUMPI") with (Some (2, 0)).
  cbn [Nat.ltb Nat.leb String.eqb Ascii.eqb Bool.eqb Nat.sub]. unfold target_ok. rewrite L, ?Nat.sub_0_r. reflexivity.
Qed.
Lemma FlowT_jump E l h : assoc l E = Some (Some h) -> FlowT E [PushLbl l; Op "JUMP"] h.
Proof.
  intros L st [->| ->]; [reflexivity|]. cbn [flow step]. change (effect "JUMP") with (Some (1, 0)).
  cbn [Nat.ltb Nat.leb String.eqb Ascii.eqb Bool.eqb Nat.sub]. unfold target_ok. rewrite L, ?Nat.sub_0_r, Nat.eqb_refl. reflexivity.
Qed.
Lemma FlowT_invalid E h : FlowT E [Op "INVALID"] h.
Proof. intros st [->| ->]; reflexivity. Qed.
Lemma FlowOK_codeend E h : FlowOK E [PushLbl "code_end"; Op "ADD"] (S h) (S h).
Proof.
  intros st [->| ->]; [exists Dead; split; [reflexivity | left; reflexivity]|].
  exists (Live (S h) None). split; [|right; reflexivity]. cbn. rewrite Nat.sub_0_r, Nat.add_1_r. reflexivity.
Qed.
(* an arbitrary EVM opcode used as IR node *)
Lemma FlowOK_opcode E U ins outs h : effect U = Some (ins, outs) ->
  String.eqb U "JUMP" = false -> String.eqb U "JUMPI" = false -> FlowOK E [Op U] (h + ins) (h + outs).
Proof.
  intros Ef J1 J2 st [->| ->]; [exists Dead; split; [reflexivity | left; reflexivity]|].
  cbn [flow step]. rewrite Ef, J1, J2. destruct (Nat.ltb (h + ins) ins) eqn:Lt; [apply Nat.ltb_lt in Lt; lia|].
  destruct (terminal U). { exists Dead. split; [reflexivity | left; reflexivity]. }
  exists (Live (h + ins - ins + outs) None). split; [reflexivity|]. right. f_equal. lia.
Qed.

(* ---- the fragment: node kinds and the valencies their context needs ---- *)
Definition v01 (e : expr) : Prop := valency e = 0 \/ valency e = 1.
Fixpoint wv (lv : bool) (e : expr) : Prop :=
  match e with
  | Lit _ => True
  | Var x => match assoc (upper x) evm_opcodes with
             | Some _ => effect (upper x) = Some (0, 1) /\ String.eqb (upper x) "JUMP" = false /\ String.eqb (upper x) "JUMPI" = false
             | None => True
             end
  | Node op args =>
      match assoc (upper op) evm_opcodes with
      | Some (ins, outs) =>
          effect (upper op) = Some (ins, outs) /\ List.length args = ins /\
          (String.eqb (upper op) "JUMP" = false /\ String.eqb (upper op) "JUMPI" = false) /\
          (fix go (l : list expr) : Prop := match l with [] => True | x :: t => (wv false x /\ valency x = 1) /\ go t end) args
      | None =>
          if String.eqb op "set" then match args with [Var _; v] => wv false v /\ valency v = 1 | _ => False end
          else if String.eqb op "pass" then True
          else if String.eqb op "if" then
            match args with
            | [c; t] => (wv false c /\ valency c = 1) /\ wv lv t /\ valency t = 0
            | [c; t; el] => (wv false c /\ valency c = 1) /\ wv lv t /\ wv lv el /\ valency t = valency el
            | _ => False
            end
          else if String.eqb op "with" then
            match args with [Var _; v; b] => (wv false v /\ valency v = 1) /\ wv false b /\ v01 b | _ => False end
          else if String.eqb op "seq" then
            (fix go (l : list expr) : Prop := match l with [] => True | x :: t => (wv lv x /\ v01 x) /\ go t end) args
          else if String.eqb op "assert" || String.eqb op "assert_unreachable" then
            match args with [c] => wv false c /\ valency c = 1 | _ => False end
          else if String.eqb op "select" then
            match args with
            | [c; a; b] => (wv false c /\ valency c = 1) /\ (wv false a /\ valency a = 1) /\ (wv false b /\ valency b = 1)
            | _ => False
            end
          else if existsb (String.eqb op) ["le"; "ge"; "sle"; "sge"; "ne"; "sha3_64"]%string then
            match args with [a; b] => (wv false a /\ valency a = 1) /\ (wv false b /\ valency b = 1) | _ => False end
          else if String.eqb op "ceil32" || String.eqb op "dload" then
            match args with [x] => wv false x /\ valency x = 1 | _ => False end
          else if String.eqb op "repeat" then
            match args with
            | [Var _; start; rounds; bound; body] =>
                (wv false start /\ valency start = 1) /\ (wv false rounds /\ valency rounds = 1) /\
                (wv false bound /\ valency bound = 1) /\ wv true body
            | _ => False
            end
          else if String.eqb op "continue" then lv = true
          else if String.eqb op "break" || String.eqb op "unique_symbol" then True
          else if String.eqb op "dloadbytes" then
            match args with
            | [d; s; l] => (wv false d /\ valency d = 1) /\ (wv false s /\ valency s = 1) /\ (wv false l /\ valency l = 1)
            | _ => False
            end
          else False
      end
  end.

Definition scope_ok (wa : list (string * nat)) (h : nat) : Prop := forall x hx, assoc x wa = Some hx -> hx < h.
Definition bd_ok (E : lenv) (bd : option (string * string * nat)) (h : nat) : Prop :=
  match bd with
  | None => True
  | Some (ex, co, bh) => bh <= h /\ assoc ex E = Some (Some bh) /\ assoc co E = Some (Some bh)
  end.
Definition lv_ok (lv : bool) (bd : option (string * string * nat)) (h : nat) : Prop :=
  lv = true -> exists ex co, bd = Some (ex, co, h).
Definition env_ok (E : lenv) (s : lst) : Prop := forall l v, In (l, v) (lh s) -> assoc l E = Some v.
(* invariant of the lowerer state: the revert label is recorded; every recorded label is a mksymbol name NAME_c with
   c <= the counter; no label is recorded twice *)
Definition rinv (s : lst) : Prop :=
  (forall l, revl s = Some l -> In (l, None) (lh s)) /\
  (forall l v, In (l, v) (lh s) -> exists name c, l = (name ++ "_" ++ nat_str c)%string /\ c <= cnt s) /\
  (forall l v v', In (l, v) (lh s) -> In (l, v') (lh s) -> v = v').
Definition mono (s s' : lst) : Prop := incl (lh s) (lh s').

Lemma mono_refl s : mono s s. Proof. apply incl_refl. Qed.
Lemma mono_trans a b c : mono a b -> mono b c -> mono a c. Proof. apply incl_tran. Qed.
Lemma env_ok_mono E s s' : mono s s' -> env_ok E s' -> env_ok E s.
Proof. intros M H l v I. apply H. apply M. exact I. Qed.
Lemma scope_ok_S wa h : scope_ok wa h -> scope_ok wa (S h).
Proof. intros H x hx A. specialize (H x hx A). lia. Qed.
Lemma bd_ok_S E bd h : bd_ok E bd h -> bd_ok E bd (S h).
Proof. destruct bd as [[[ex co] bh]|]; cbn; [|auto]. intros (A & B & C). repeat split; auto. Qed.
Lemma lv_false bd h : lv_ok false bd h. Proof. intros C. discriminate. Qed.

(* ---- mksymbol names are fresh: NAME_c determines c ---- *)
Definition is_us (c : Ascii.ascii) : bool := Ascii.eqb c "_"%char.
Fixpoint has_us (s : string) : bool := match s with EmptyString => false | String c t => is_us c || has_us t end.
Fixpoint after_us (s : string) : string :=
  match s with
  | EmptyString => EmptyString
  | String c t => if has_us t then after_us t else if is_us c then t else s
  end.
Lemma has_us_app x y : has_us (x ++ String "_"%char y) = true.
Proof. induction x as [|c t IH]; [reflexivity|]. cbn [append has_us]. rewrite IH. apply orb_true_r. Qed.
Lemma after_us_app x y : has_us y = false -> after_us (x ++ String "_"%char y) = y.
Proof.
  intros H. induction x as [|c t IH].
  - cbn [append after_us]. rewrite H. reflexivity.
  - cbn [append after_us]. rewrite has_us_app. exact IH.
Qed.
Lemma digits_no_us d : has_us (DecimalString.NilEmpty.string_of_uint d) = false.
Proof. induction d; cbn; auto. Qed.
Lemma nat_str_no_us n : has_us (nat_str n) = false.
Proof. unfold nat_str, DecimalString.NilZero.string_of_uint. destruct (Nat.to_uint n); try apply digits_no_us. reflexivity. Qed.
Lemma nat_str_inj n m : nat_str n = nat_str m -> n = m.
Proof.
  unfold nat_str. intros H.
  assert (NN: forall k, Nat.to_uint k <> Decimal.Nil).
  { intros k. pose proof (DecimalNat.Unsigned.to_of (Nat.to_uint k)) as T. rewrite DecimalNat.Unsigned.of_to in T.
    rewrite T. apply DecimalFacts.unorm_nonnil. }
  pose proof (DecimalString.NilZero.usu _ (NN n)) as A.
  pose proof (DecimalString.NilZero.usu _ (NN m)) as B.
  rewrite H in A. rewrite A in B. inversion B as [C].
  rewrite <- (DecimalNat.Unsigned.of_to n), <- (DecimalNat.Unsigned.of_to m), C. reflexivity.
Qed.
Lemma sym_inj n1 c1 n2 c2 : (n1 ++ "_" ++ nat_str c1)%string = (n2 ++ "_" ++ nat_str c2)%string -> c1 = c2.
Proof.
  intros H. change (n1 ++ String "_"%char (nat_str c1) = n2 ++ String "_"%char (nat_str c2))%string in H.
  apply nat_str_inj. rewrite <- (after_us_app n1 _ (nat_str_no_us c1)), <- (after_us_app n2 _ (nat_str_no_us c2)), H.
  reflexivity.
Qed.
Lemma rinv_env s : rinv s -> env_ok (lh s) s.
Proof.
  intros (_ & _ & U) l v I. revert I U. generalize (lh s). intros L. induction L as [|[k w] t IH]; intros I U; [contradiction|].
  cbn [assoc]. destruct (String.eqb k l) eqn:E.
  - apply String.eqb_eq in E. subst k. f_equal. apply (U l w v); [left; reflexivity | exact I].
  - destruct I as [I|I]; [inversion I; subst; rewrite String.eqb_refl in E; discriminate|].
    apply IH; [exact I|]. intros l0 a b A B. apply (U l0); right; assumption.
Qed.

(* mksym / assert_false *)
Lemma mksym_spec name ht s l s1 : mksym name ht s = (l, s1) ->
  mono s s1 /\ In (l, ht) (lh s1) /\ revl s1 = revl s /\ (rinv s -> rinv s1).
Proof.
  unfold mksym. intros H. inversion H; subst. cbn. repeat split.
  - intros x Hx. right. exact Hx.
  - left. reflexivity.
  - destruct H0 as (R & _ & _). intros l0 Hl. right. apply R. exact Hl.
  - destruct H0 as (_ & K & _). intros l0 v [I|I].
    + inversion I; subst. exists name, (S (cnt s)). split; [reflexivity | cbn; lia].
    + destruct (K _ _ I) as (n & c & -> & L). exists n, c. split; [reflexivity | cbn; lia].
  - destruct H0 as (_ & K & U). intros l0 v v' [I|I] [J|J].
    + inversion I; inversion J; subst. congruence.
    + inversion I; subst. destruct (K _ _ J) as (n & c & Eq & L). apply sym_inj in Eq. lia.
    + inversion J; subst. destruct (K _ _ I) as (n & c & Eq & L). apply sym_inj in Eq. lia.
    + eapply U; eauto.
Qed.
Lemma assert_false_spec s af s1 : assert_false s = (af, s1) -> rinv s ->
  mono s s1 /\ rinv s1 /\ exists l, af = [PushLbl l; Op "JUMPI"] /\ In (l, None) (lh s1).
Proof.
  unfold assert_false. intros H R. destruct (revl s) as [l|] eqn:RL.
  - inversion H; subst. split; [apply mono_refl|]. split; [exact R|]. exists l. split; [reflexivity | apply R; exact RL].
  - destruct (mksym "revert" None s) as [l s2] eqn:Ms. inversion H; subst.
    destruct (mksym_spec _ _ _ _ _ Ms) as (M & I & _ & R2). specialize (R2 R). destruct R2 as (_ & K & U).
    split; [exact M|]. split.
    + split; [|split; [exact K | exact U]]. intros l0 Hl. cbn in Hl. inversion Hl; subst. exact I.
    + exists l. split; [reflexivity | exact I].
Qed.

(* the specification a recursive call satisfies *)
Definition Spec (rec : nat -> expr -> lst -> res (list item * lst)) (wa : list (string * nat))
    (bd : option (string * string * nat)) : Prop :=
  forall h e s a s' lv, rec h e s = Ok (a, s') -> wv lv e -> rinv s ->
    mono s s' /\ rinv s' /\
    forall E, env_ok E s' -> scope_ok wa h -> bd_ok E bd h -> lv_ok lv bd h -> FlowOK E a h (h + valency e).

Lemma many_spec rec wa bd : Spec rec wa bd -> forall l h s a s',
  many_ rec l h s = Ok (a, s') -> Forall (fun x => wv false x /\ valency x = 1) l -> rinv s ->
  mono s s' /\ rinv s' /\
  forall E, env_ok E s' -> scope_ok wa h -> bd_ok E bd h -> FlowOK E a h (h + List.length l).
Proof.
  intros SP. induction l as [|x t IH]; intros h s a s' H F R; cbn [many_] in H.
  - inversion H; subst. split; [apply mono_refl|]. split; [exact R|]. intros. rewrite Nat.add_0_r. apply FlowOK_nil.
  - inversion F as [|? ? [Wx Vx] Ft]; subst.
    destruct (rec h x s) as [[ax s1]|] eqn:Ex; cbn [bind] in H; [|discriminate].
    destruct (many_ rec t (S h) s1) as [[at_ s2]|] eqn:Et; cbn [bind] in H; [|discriminate]. inversion H; subst.
    destruct (SP _ _ _ _ _ _ Ex Wx R) as (M1 & R1 & F1). destruct (IH _ _ _ _ Et Ft R1) as (M2 & R2 & F2).
    split; [eapply mono_trans; eauto|]. split; [exact R2|]. intros E EO SO BO.
    eapply FlowOK_app.
    + apply F1; auto; [eapply env_ok_mono; eauto | apply lv_false].
    + rewrite Vx. replace (h + 1) with (S h) by lia. cbn [List.length]. replace (h + S (List.length t)) with (S h + List.length t) by lia.
      apply F2; auto; [apply scope_ok_S; auto | apply bd_ok_S; auto].
Qed.

Definition last_valency (l : list expr) : nat :=
  (fix last (l : list expr) : nat := match l with [] => 0 | [x] => valency x | _ :: t => last t end) l.
Lemma seq_spec (rec : expr -> lst -> res (list item * lst)) wa bd h lv :
  (forall e s a s', rec e s = Ok (a, s') -> wv lv e -> rinv s ->
     mono s s' /\ rinv s' /\ forall E, env_ok E s' -> scope_ok wa h -> bd_ok E bd h -> lv_ok lv bd h ->
     FlowOK E a h (h + valency e)) ->
  forall l s a s', seq_ rec l s = Ok (a, s') -> Forall (fun x => wv lv x /\ v01 x) l -> rinv s ->
  mono s s' /\ rinv s' /\
  forall E, env_ok E s' -> scope_ok wa h -> bd_ok E bd h -> lv_ok lv bd h -> FlowOK E a h (h + last_valency l).
Proof.
  intros SP. induction l as [|x t IH]; intros s a s' H F R; cbn [seq_] in H.
  - inversion H; subst. split; [apply mono_refl|]. split; [exact R|]. intros. cbn. rewrite Nat.add_0_r. apply FlowOK_nil.
  - inversion F as [|? ? [Wx Vx] Ft]; subst.
    destruct (rec x s) as [[ax s1]|] eqn:Ex; cbn [bind] in H; [|discriminate].
    destruct (seq_ rec t s1) as [[at_ s2]|] eqn:Et; cbn [bind] in H; [|discriminate]. inversion H; subst. clear H.
    destruct (SP _ _ _ _ Ex Wx R) as (M1 & R1 & F1). destruct (IH _ _ _ Et Ft R1) as (M2 & R2 & F2).
    split; [eapply mono_trans; eauto|]. split; [exact R2|]. intros E EO SO BO LO.
    specialize (F1 E (env_ok_mono _ _ _ M2 EO) SO BO LO). specialize (F2 E EO SO BO LO).
    destruct t as [|y t'].
    + (* last element: never popped *)
      cbn [seq_] in Et. inversion Et; subst. rewrite andb_false_r. cbn [app]. rewrite List.app_nil_r. exact F1.
    + change (last_valency (x :: y :: t')) with (last_valency (y :: t')).
      eapply FlowOK_app; [exact F1|]. cbn [negb andb]. rewrite andb_true_r.
      destruct Vx as [V|V]; rewrite V; cbn [Nat.eqb app].
      * rewrite Nat.add_0_r. exact F2.
      * change (Op "POP" :: at_) with ([Op "POP"] ++ at_)%list. eapply FlowOK_app; [|exact F2].
        eapply FlowOK_lin; [vm_compute; reflexivity | discriminate | lia | lia].
Qed.

Definition pair_eqb (p q : nat * nat) : bool := Nat.eqb (fst p) (fst q) && Nat.eqb (snd p) (snd q).
Lemma assoc_in {A} k (l : list (string * A)) v : assoc k l = Some v -> In (k, v) l.
Proof.
  induction l as [|[x w] t IH]; cbn [assoc]; [discriminate|]. destruct (String.eqb x k) eqn:E.
  - apply String.eqb_eq in E. intros H. inversion H; subst. left. reflexivity.
  - intros H. right. apply IH. exact H.
Qed.
Lemma evm_in_ir U p : assoc U evm_opcodes = Some p -> assoc U ir_opcodes = Some p.
Proof.
  intros H. apply assoc_in in H.
  assert (C: forallb (fun kv => match assoc (fst kv) ir_opcodes with Some q => pair_eqb q (snd kv) | None => false end)
               evm_opcodes = true) by (vm_compute; reflexivity).
  rewrite forallb_forall in C. specialize (C _ H). cbn [fst snd] in C.
  destruct (assoc U ir_opcodes) as [q|]; [|discriminate]. unfold pair_eqb in C. apply andb_true_iff in C.
  destruct C as [C1 C2]. apply Nat.eqb_eq in C1, C2. destruct q, p. cbn in *. subst. reflexivity.
Qed.
Lemma go_forall (P : expr -> Prop) l :
  (fix go (l : list expr) : Prop := match l with [] => True | x :: t => P x /\ go t end) l -> Forall P l.
Proof. induction l as [|x t IH]; intros H; constructor; [apply H | apply IH; apply H]. Qed.
Lemma last_valency_seq l : valency (Node "seq" l) = last_valency l.
Proof. reflexivity. Qed.

Lemma FlowOK_cons E x t h h1 h2 : FlowOK E [x] h h1 -> FlowOK E t h1 h2 -> FlowOK E (x :: t) h h2.
Proof. intros A B. change (x :: t) with ([x] ++ t)%list. eapply FlowOK_app; eauto. Qed.
Lemma FlowOK_cons2 E x y t h h1 h2 : FlowOK E [x; y] h h1 -> FlowOK E t h1 h2 -> FlowOK E (x :: y :: t) h h2.
Proof. intros A B. change (x :: y :: t) with ([x; y] ++ t)%list. eapply FlowOK_app; eauto. Qed.
Lemma FlowOK_cons3 E x y z t h h1 h2 : FlowOK E [x; y; z] h h1 -> FlowOK E t h1 h2 -> FlowOK E (x :: y :: z :: t) h h2.
Proof. intros A B. change (x :: y :: z :: t) with ([x; y; z] ++ t)%list. eapply FlowOK_app; eauto. Qed.
Ltac red_ops H :=
  cbn [lower] in H; norm_assoc H; cbn iota in H; cbn [String.eqb Ascii.eqb Bool.eqb orb andb negb existsb] in H.
Ltac fin M R := split; [exact M|]; split; [exact R|].
Ltac lin_snip := eapply FlowOK_lin; [vm_compute; reflexivity | discriminate | lia | first [reflexivity | lia]].

Lemma data_ofst_spec rec wa bd : Spec rec wa bd -> forall ofst hh s a s',
  data_ofst_ rec ofst hh s = Ok (a, s') -> wv false ofst -> valency ofst = 1 -> rinv s ->
  mono s s' /\ rinv s' /\ forall E, env_ok E s' -> scope_ok wa hh -> bd_ok E bd hh -> FlowOK E a hh (S hh).
Proof.
  intros SP ofst hh s a s' H Wo Vo R.
  assert (G: forall a s', ('(a, s1) <- rec hh ofst s ;; Ok ((a ++ [PushLbl "code_end"; Op "ADD"])%list, s1)) = Ok (a, s') ->
             mono s s' /\ rinv s' /\ forall E, env_ok E s' -> scope_ok wa hh -> bd_ok E bd hh -> FlowOK E a hh (S hh)).
  { intros a0 s0 H0. destruct (rec hh ofst s) as [[ax s1]|] eqn:Ex; cbn [bind] in H0; [|discriminate]. inversion H0; subst.
    destruct (SP _ _ _ _ _ _ Ex Wo R) as (M & R1 & F). fin M R1. intros E EO SO BO.
    eapply FlowOK_app; [apply F; auto; apply lv_false|]. rewrite Vo. replace (hh + 1) with (S hh) by lia. apply FlowOK_codeend. }
  destruct ofst as [v|x|o l]; cbn [data_ofst_] in H; [|apply G; exact H|apply G; exact H].
  inversion H; subst. fin (mono_refl s') R. intros E _ _ _. intros st [->| ->].
  - exists Dead. split; [reflexivity | left; reflexivity].
  - exists (Live (S hh) None). split; [reflexivity | right; reflexivity].
Qed.
Lemma bound_check_spec rec wa bd : Spec rec wa bd -> forall ex rounds bound h s a s',
  bound_check_ rec ex rounds bound h s = Ok (a, s') -> wv false bound -> valency bound = 1 -> rinv s ->
  mono s s' /\ rinv s' /\
  forall E, env_ok E s' -> assoc ex E = Some (Some (S (S h))) -> scope_ok wa h -> bd_ok E bd h ->
  FlowOK E a (S (S h)) (S (S h)).
Proof.
  intros SP ex rounds bound h s a s' H Wb Vb R. unfold bound_check_ in H.
  destruct (expr_eqb rounds bound).
  { inversion H; subst. fin (mono_refl s') R. intros. apply FlowOK_nil. }
  destruct (rec (S (S h)) bound s) as [[ab t1]|] eqn:Eb; cbn [bind] in H; [|discriminate].
  destruct (assert_false t1) as [af t2] eqn:Af. inversion H; subst.
  destruct (SP _ _ _ _ _ _ Eb Wb R) as (M1 & R1 & F1).
  destruct (assert_false_spec _ _ _ Af R1) as (M2 & R2 & l & -> & I).
  fin (mono_trans _ _ _ M1 M2) R2. intros E EO EX SO BO.
  assert (EL: assoc l E = Some None) by (apply EO; exact I).
  eapply FlowOK_app; [apply F1; [eapply env_ok_mono; eauto | do 2 apply scope_ok_S; exact SO | do 2 apply bd_ok_S; exact BO | apply lv_false]|].
  rewrite Vb. cbn [app].
  eapply (FlowOK_cons2 _ _ _ _ _ (S (S (S h)))); [lin_snip|].
  eapply FlowOK_cons2; [apply FlowOK_jumpi_any; exact EL|].
  eapply (FlowOK_cons2 _ _ _ _ _ (S (S (S h)))); [lin_snip|].
  apply FlowOK_jumpi. exact EX.
Qed.

Local Opaque push.
Ltac set_val n := match goal with |- FlowOK _ _ _ (_ + ?v) => change v with n end.
Theorem lower_spec f : forall wa bd, Spec (lower f wa bd) wa bd.
Proof.
  induction f as [|f IH]; intros wa bd h e s a s' lv H WV R; [discriminate|].
  destruct e as [v|x|op args].
  - (* literal *)
    cbn [lower] in H. destruct (lit_okb v); [|discriminate]. inversion H; subst.
    fin (mono_refl s') R. intros E _ _ _ _. cbn [valency]. rewrite Nat.add_1_r. apply FlowOK_push.
    apply Z.mod_pos_bound. unfold W. lia.
  - (* leaf: opcode without arguments or with-variable *)
    cbn [lower wv] in H, WV. destruct (assoc (upper x) evm_opcodes) as [p|] eqn:Ox.
    + inversion H; subst. fin (mono_refl s') R. intros E _ _ _ _. cbn [valency].
      destruct WV as (Ef & J1 & J2). pose proof (FlowOK_opcode E (upper x) 0 1 h Ef J1 J2) as F. rewrite Nat.add_0_r in F. exact F.
    + destruct (assoc x wa) as [hx|] eqn:Ax; [|discriminate].
      destruct (Nat.ltb 16 (h - hx)) eqn:D; [discriminate|]. apply Nat.ltb_ge in D. inversion H; subst.
      fin (mono_refl s') R. intros E _ SO _ _. specialize (SO x hx Ax). cbn [valency].
      destruct (dup_fact (h - hx) ltac:(lia)) as [Ef P].
      pose proof (FlowOK_one E _ _ _ h Ef P ltac:(lia)) as F. replace (h - (h - hx) + S (h - hx)) with (h + 1) in F by lia. exact F.
  - cbn [lower wv] in H, WV. destruct (assoc (upper op) evm_opcodes) as [[ins outs]|] eqn:Oop.
    + (* EVM opcode: arguments in reverse order at increasing heights, then the opcode *)
      destruct WV as (Ef & Ln & (J1 & J2) & G). apply go_forall in G. apply Forall_rev in G.
      destruct (many_ (lower f wa bd) (rev args) h s) as [[am s1]|] eqn:Em; cbn [bind] in H; [|discriminate].
      inversion H; subst. destruct (many_spec _ _ _ (IH wa bd) _ _ _ _ _ Em G R) as (M & R1 & F).
      fin M R1. intros E EO SO BO _. cbn [valency]. rewrite (evm_in_ir _ _ Oop).
      eapply FlowOK_app; [apply F; auto|]. rewrite List.rev_length. apply FlowOK_opcode; assumption.
    + revert H WV.
      destruct (String.eqb op "set") eqn:E1.
      { apply String.eqb_eq in E1. subst op. intros H WV. clear Oop.
        destruct args as [|[?|x|? ?] [|v [|? ?]]]; try contradiction. destruct WV as [Wv Vv].
        cbn [String.eqb Ascii.eqb Bool.eqb] in H.
        destruct (assoc x wa) as [hx|] eqn:Ax; [|discriminate].
        destruct (Nat.ltb 16 (h - hx)) eqn:D; [discriminate|]. apply Nat.ltb_ge in D.
        destruct (lower f wa bd h v s) as [[av s1]|] eqn:Ev; cbn [bind] in H; [|discriminate]. inversion H; subst.
        destruct (IH _ _ _ _ _ _ _ _ Ev Wv R) as (M & R1 & F). fin M R1. intros E EO SO BO _.
        change (valency (Node "set" [Var x; v])) with 0. rewrite Nat.add_0_r.
        eapply FlowOK_app; [apply F; auto; apply lv_false|]. rewrite Vv. specialize (SO x hx Ax).
        destruct (swap_fact (h - hx) ltac:(lia)) as [Ef P].
        eapply FlowOK_cons; [apply (FlowOK_one E _ _ _ (h + 1) Ef P); lia|]. lin_snip. }
      destruct (String.eqb op "pass") eqn:E2.
      { apply String.eqb_eq in E2. subst op. intros H WV. clear Oop. cbn [orb] in H. inversion H; subst.
        fin (mono_refl s') R. intros E _ _ _ _. change (valency (Node "pass" args)) with 0. rewrite Nat.add_0_r. apply FlowOK_nil. }
      destruct (String.eqb op "if") eqn:E3.
      { apply String.eqb_eq in E3. subst op. intros H WV. clear Oop. cbn [String.eqb Ascii.eqb Bool.eqb orb] in H.
        destruct args as [|c [|t [|el [|? ?]]]]; try contradiction.
        - (* (if c t) *)
          destruct WV as ((Wc & Vc) & Wt & Vt).
          sub H c ac s1 Ec; cbn [bind] in H. destruct (mksym "join" (Some h) s1) as [lend s2] eqn:Ms.
          sub H t at_ s3 Et; cbn [bind] in H. inversion H; subst. clear H.
          destruct (IH _ _ _ _ _ _ _ _ Ec Wc R) as (M1 & R1 & F1).
          destruct (mksym_spec _ _ _ _ _ Ms) as (M2 & I2 & _ & R2). specialize (R2 R1).
          destruct (IH _ _ _ _ _ _ _ _ Et Wt R2) as (M3 & R3 & F3).
          fin (mono_trans _ _ _ (mono_trans _ _ _ M1 M2) M3) R3. intros E EO SO BO LO.
          assert (EL: assoc lend E = Some (Some h)) by (apply EO; apply M3; exact I2).
          change (valency (Node "if" [c; t])) with (valency t). rewrite Vt, Nat.add_0_r.
          eapply FlowOK_app; [apply F1; auto; [eapply env_ok_mono; [|exact EO]; eapply mono_trans; eauto | apply lv_false]|].
          rewrite Vc. replace (h + 1) with (S h) by lia.
          eapply FlowOK_cons; [lin_snip|]. replace (S h - 1 + 1) with (S h) by lia.
          eapply FlowOK_cons2; [apply FlowOK_jumpi; exact EL|].
          eapply FlowOK_app; [|apply FlowOK_lbl; exact EL].
          specialize (F3 E EO SO BO LO). rewrite Vt, Nat.add_0_r in F3. exact F3.
        - (* (if c t el) *)
          destruct WV as ((Wc & Vc) & Wt & We & Vte).
          sub H c ac s1 Ec; cbn [bind] in H. destruct (mksym "else" (Some h) s1) as [lmid s2] eqn:Ms1.
          destruct (mksym "join" (Some (h + valency t)) s2) as [lend s3] eqn:Ms2.
          sub H t at_ s4 Et; cbn [bind] in H. sub H el ae s5 Ee; cbn [bind] in H. inversion H; subst. clear H.
          destruct (IH _ _ _ _ _ _ _ _ Ec Wc R) as (M1 & R1 & F1).
          destruct (mksym_spec _ _ _ _ _ Ms1) as (M2 & I2 & _ & R2). specialize (R2 R1).
          destruct (mksym_spec _ _ _ _ _ Ms2) as (M3 & I3 & _ & R3). specialize (R3 R2).
          destruct (IH _ _ _ _ _ _ _ _ Et Wt R3) as (M4 & R4 & F4).
          destruct (IH _ _ _ _ _ _ _ _ Ee We R4) as (M5 & R5 & F5).
          assert (M35: mono s3 s') by (eapply mono_trans; eauto).
          fin (mono_trans _ _ _ (mono_trans _ _ _ (mono_trans _ _ _ M1 M2) M3) M35) R5. intros E EO SO BO LO.
          assert (EM: assoc lmid E = Some (Some h)) by (apply EO; apply M35; apply M3; exact I2).
          assert (EL: assoc lend E = Some (Some (h + valency t))) by (apply EO; apply M35; exact I3).
          change (valency (Node "if" [c; t; el])) with (valency t).
          eapply FlowOK_app; [apply F1; auto; [eapply env_ok_mono; [|exact EO]; eapply mono_trans; [|exact M35]; eapply mono_trans; eauto | apply lv_false]|].
          rewrite Vc. replace (h + 1) with (S h) by lia.
          eapply FlowOK_cons; [lin_snip|]. replace (S h - 1 + 1) with (S h) by lia.
          eapply FlowOK_cons2; [apply FlowOK_jumpi; exact EM|].
          eapply FlowOK_app; [apply F4; auto; eapply env_ok_mono; eauto|].
          eapply FlowOK_cons3; [apply (FlowT_lbl E [PushLbl lend; Op "JUMP"]); [apply FlowT_jump; exact EL | exact EM]|].
          eapply FlowOK_app; [|apply FlowOK_lbl; exact EL].
          specialize (F5 E EO SO BO LO). rewrite <- Vte in F5. exact F5. }
      destruct (String.eqb op "with") eqn:E4.
      { apply String.eqb_eq in E4. subst op. intros H WV. clear Oop. cbn [String.eqb Ascii.eqb Bool.eqb orb] in H.
        destruct args as [|[?|x|? ?] [|v [|b [|? ?]]]]; try contradiction. destruct WV as ((Wv & Vv) & Wb & Vb).
        sub H v av s1 Ev; cbn [bind] in H. sub H b ab s2 Eb; cbn [bind] in H. inversion H; subst. clear H.
        destruct (IH _ _ _ _ _ _ _ _ Ev Wv R) as (M1 & R1 & F1). destruct (IH _ _ _ _ _ _ _ _ Eb Wb R1) as (M2 & R2 & F2).
        fin (mono_trans _ _ _ M1 M2) R2. intros E EO SO BO LO.
        change (valency (Node "with" [Var x; v; b])) with (valency b).
        eapply FlowOK_app; [apply F1; auto; [eapply env_ok_mono; eauto | apply lv_false]|].
        rewrite Vv. replace (h + 1) with (S h) by lia.
        eapply FlowOK_app.
        { apply F2; auto; [|apply bd_ok_S; exact BO | apply lv_false].
          intros y hy Ay. cbn [assoc] in Ay. destruct (String.eqb x y); [inversion Ay; lia | specialize (SO y hy Ay); lia]. }
        destruct Vb as [V|V]; rewrite V; cbn [Nat.eqb].
        - lin_snip.
        - lin_snip. }
      destruct (String.eqb op "seq") eqn:E5.
      { apply String.eqb_eq in E5. subst op. intros H WV. clear Oop. cbn [String.eqb Ascii.eqb Bool.eqb orb] in H.
        apply go_forall in WV.
        assert (SP: forall e s a s', lower f wa bd h e s = Ok (a, s') -> wv lv e -> rinv s ->
                  mono s s' /\ rinv s' /\ forall E, env_ok E s' -> scope_ok wa h -> bd_ok E bd h -> lv_ok lv bd h ->
                  FlowOK E a h (h + valency e)).
        { intros e0 s0 a0 s0' H0 W0 R0. exact (IH wa bd h e0 s0 a0 s0' lv H0 W0 R0). }
        destruct (seq_spec _ wa bd h lv SP _ _ _ _ H WV R) as (M & R1 & F). fin M R1. intros E EO SO BO LO.
        rewrite last_valency_seq. apply F; auto. }
      destruct (String.eqb op "assert") eqn:E6.
      { apply String.eqb_eq in E6. subst op. intros H WV. clear Oop. cbn [String.eqb Ascii.eqb Bool.eqb orb] in H, WV.
        destruct args as [|c [|? ?]]; try contradiction. destruct WV as [Wc Vc].
        sub H c ac s1 Ec; cbn [bind] in H. destruct (assert_false s1) as [af s2] eqn:Af. inversion H; subst. clear H.
        destruct (IH _ _ _ _ _ _ _ _ Ec Wc R) as (M1 & R1 & F1).
        destruct (assert_false_spec _ _ _ Af R1) as (M2 & R2 & l & -> & I).
        fin (mono_trans _ _ _ M1 M2) R2. intros E EO SO BO LO.
        assert (EL: assoc l E = Some None) by (apply EO; exact I).
        change (valency (Node "assert" [c])) with 0. rewrite Nat.add_0_r.
        eapply FlowOK_app; [apply F1; auto; [eapply env_ok_mono; eauto | apply lv_false]|].
        rewrite Vc. replace (h + 1) with (S h) by lia. cbn [app].
        eapply (FlowOK_cons _ _ _ _ (S h)); [lin_snip|]. apply FlowOK_jumpi_any. exact EL. }
      destruct (String.eqb op "assert_unreachable") eqn:E7.
      { apply String.eqb_eq in E7. subst op. intros H WV. clear Oop. cbn [String.eqb Ascii.eqb Bool.eqb orb] in H, WV.
        destruct args as [|c [|? ?]]; try contradiction. destruct WV as [Wc Vc].
        sub H c ac s1 Ec; cbn [bind] in H. destruct (mksym "reachable" (Some h) s1) as [lend s2] eqn:Ms.
        inversion H; subst. clear H.
        destruct (IH _ _ _ _ _ _ _ _ Ec Wc R) as (M1 & R1 & F1).
        destruct (mksym_spec _ _ _ _ _ Ms) as (M2 & I2 & _ & R2). specialize (R2 R1).
        fin (mono_trans _ _ _ M1 M2) R2. intros E EO SO BO LO.
        assert (EL: assoc lend E = Some (Some h)) by (apply EO; exact I2).
        change (valency (Node "assert_unreachable" [c])) with 0. rewrite Nat.add_0_r.
        eapply FlowOK_app; [apply F1; auto; [eapply env_ok_mono; eauto | apply lv_false]|].
        rewrite Vc. replace (h + 1) with (S h) by lia.
        eapply FlowOK_cons2; [apply FlowOK_jumpi; exact EL|].
        apply (FlowT_lbl E [Op "INVALID"] lend h h); [apply FlowT_invalid | exact EL]. }
      cbn [orb].
      destruct (String.eqb op "select") eqn:E8.
      { apply String.eqb_eq in E8. subst op. intros H WV. clear Oop. cbn [String.eqb Ascii.eqb Bool.eqb orb] in H.
        destruct args as [|c [|x [|y [|? ?]]]]; try contradiction. destruct WV as ((Wc & Vc) & (Wx & Vx) & (Wy & Vy)).
        sub H y ay s1 Ey; cbn [bind] in H. sub H x ax s2 Ex; cbn [bind] in H. sub H c ac s3 Ec; cbn [bind] in H.
        inversion H; subst. clear H.
        destruct (IH _ _ _ _ _ _ _ _ Ey Wy R) as (M1 & R1 & F1). destruct (IH _ _ _ _ _ _ _ _ Ex Wx R1) as (M2 & R2 & F2).
        destruct (IH _ _ _ _ _ _ _ _ Ec Wc R2) as (M3 & R3 & F3).
        fin (mono_trans _ _ _ (mono_trans _ _ _ M1 M2) M3) R3. intros E EO SO BO LO.
        change (valency (Node "select" [c; x; y])) with 1.
        eapply FlowOK_app; [apply F1; auto; [eapply env_ok_mono; [|exact EO]; eapply mono_trans; eauto | apply lv_false]|].
        rewrite Vy. replace (h + 1) with (S h) by lia.
        eapply FlowOK_app; [apply F2; [eapply env_ok_mono; eauto | apply scope_ok_S; auto | apply bd_ok_S; auto | apply lv_false]|].
        rewrite Vx. replace (S h + 1) with (S (S h)) by lia. cbn [app].
        eapply (FlowOK_cons2 _ _ _ _ _ (S (S h))); [lin_snip|].
        eapply FlowOK_app; [apply F3; [auto | do 2 apply scope_ok_S; auto | do 2 apply bd_ok_S; auto | apply lv_false]|].
        rewrite Vc. lin_snip. }
      cbn [existsb orb].
      destruct (String.eqb op "le") eqn:E_le.
      { apply String.eqb_eq in E_le. subst op. intros H WV. clear Oop. cbn [String.eqb Ascii.eqb Bool.eqb orb] in H, WV.
        destruct args as [|x [|y [|? ?]]]; try contradiction. destruct WV as ((Wx & Vx) & (Wy & Vy)).
        sub H y ay s1 Ey; cbn [bind] in H. sub H x ax s2 Ex; cbn [bind] in H. inversion H; subst. clear H.
        destruct (IH _ _ _ _ _ _ _ _ Ey Wy R) as (M1 & R1 & F1). destruct (IH _ _ _ _ _ _ _ _ Ex Wx R1) as (M2 & R2 & F2).
        fin (mono_trans _ _ _ M1 M2) R2. intros E EO SO BO LO. set_val 1.
        eapply FlowOK_app; [apply F1; auto; [eapply env_ok_mono; eauto | apply lv_false]|].
        rewrite Vy. replace (h + 1) with (S h) by lia.
        eapply FlowOK_app; [apply F2; [auto | apply scope_ok_S; auto | apply bd_ok_S; auto | apply lv_false]|].
        rewrite Vx. lin_snip. }
      destruct (String.eqb op "ge") eqn:E_ge.
      { apply String.eqb_eq in E_ge. subst op. intros H WV. clear Oop. cbn [String.eqb Ascii.eqb Bool.eqb orb] in H, WV.
        destruct args as [|x [|y [|? ?]]]; try contradiction. destruct WV as ((Wx & Vx) & (Wy & Vy)).
        sub H y ay s1 Ey; cbn [bind] in H. sub H x ax s2 Ex; cbn [bind] in H. inversion H; subst. clear H.
        destruct (IH _ _ _ _ _ _ _ _ Ey Wy R) as (M1 & R1 & F1). destruct (IH _ _ _ _ _ _ _ _ Ex Wx R1) as (M2 & R2 & F2).
        fin (mono_trans _ _ _ M1 M2) R2. intros E EO SO BO LO. set_val 1.
        eapply FlowOK_app; [apply F1; auto; [eapply env_ok_mono; eauto | apply lv_false]|].
        rewrite Vy. replace (h + 1) with (S h) by lia.
        eapply FlowOK_app; [apply F2; [auto | apply scope_ok_S; auto | apply bd_ok_S; auto | apply lv_false]|].
        rewrite Vx. lin_snip. }
      destruct (String.eqb op "sle") eqn:E_sle.
      { apply String.eqb_eq in E_sle. subst op. intros H WV. clear Oop. cbn [String.eqb Ascii.eqb Bool.eqb orb] in H, WV.
        destruct args as [|x [|y [|? ?]]]; try contradiction. destruct WV as ((Wx & Vx) & (Wy & Vy)).
        sub H y ay s1 Ey; cbn [bind] in H. sub H x ax s2 Ex; cbn [bind] in H. inversion H; subst. clear H.
        destruct (IH _ _ _ _ _ _ _ _ Ey Wy R) as (M1 & R1 & F1). destruct (IH _ _ _ _ _ _ _ _ Ex Wx R1) as (M2 & R2 & F2).
        fin (mono_trans _ _ _ M1 M2) R2. intros E EO SO BO LO. set_val 1.
        eapply FlowOK_app; [apply F1; auto; [eapply env_ok_mono; eauto | apply lv_false]|].
        rewrite Vy. replace (h + 1) with (S h) by lia.
        eapply FlowOK_app; [apply F2; [auto | apply scope_ok_S; auto | apply bd_ok_S; auto | apply lv_false]|].
        rewrite Vx. lin_snip. }
      destruct (String.eqb op "sge") eqn:E_sge.
      { apply String.eqb_eq in E_sge. subst op. intros H WV. clear Oop. cbn [String.eqb Ascii.eqb Bool.eqb orb] in H, WV.
        destruct args as [|x [|y [|? ?]]]; try contradiction. destruct WV as ((Wx & Vx) & (Wy & Vy)).
        sub H y ay s1 Ey; cbn [bind] in H. sub H x ax s2 Ex; cbn [bind] in H. inversion H; subst. clear H.
        destruct (IH _ _ _ _ _ _ _ _ Ey Wy R) as (M1 & R1 & F1). destruct (IH _ _ _ _ _ _ _ _ Ex Wx R1) as (M2 & R2 & F2).
        fin (mono_trans _ _ _ M1 M2) R2. intros E EO SO BO LO. set_val 1.
        eapply FlowOK_app; [apply F1; auto; [eapply env_ok_mono; eauto | apply lv_false]|].
        rewrite Vy. replace (h + 1) with (S h) by lia.
        eapply FlowOK_app; [apply F2; [auto | apply scope_ok_S; auto | apply bd_ok_S; auto | apply lv_false]|].
        rewrite Vx. lin_snip. }
      destruct (String.eqb op "ne") eqn:E_ne.
      { apply String.eqb_eq in E_ne. subst op. intros H WV. clear Oop. cbn [String.eqb Ascii.eqb Bool.eqb orb] in H, WV.
        destruct args as [|x [|y [|? ?]]]; try contradiction. destruct WV as ((Wx & Vx) & (Wy & Vy)).
        sub H y ay s1 Ey; cbn [bind] in H. sub H x ax s2 Ex; cbn [bind] in H. inversion H; subst. clear H.
        destruct (IH _ _ _ _ _ _ _ _ Ey Wy R) as (M1 & R1 & F1). destruct (IH _ _ _ _ _ _ _ _ Ex Wx R1) as (M2 & R2 & F2).
        fin (mono_trans _ _ _ M1 M2) R2. intros E EO SO BO LO. set_val 1.
        eapply FlowOK_app; [apply F1; auto; [eapply env_ok_mono; eauto | apply lv_false]|].
        rewrite Vy. replace (h + 1) with (S h) by lia.
        eapply FlowOK_app; [apply F2; [auto | apply scope_ok_S; auto | apply bd_ok_S; auto | apply lv_false]|].
        rewrite Vx. lin_snip. }
      destruct (String.eqb op "sha3_64") eqn:E_sha.
      { apply String.eqb_eq in E_sha. subst op. intros H WV. clear Oop. cbn [String.eqb Ascii.eqb Bool.eqb orb] in H, WV.
        destruct args as [|x [|y [|? ?]]]; try contradiction. destruct WV as ((Wx & Vx) & (Wy & Vy)).
        sub H x ax s1 Ex; cbn [bind] in H. sub H y ay s2 Ey; cbn [bind] in H. inversion H; subst. clear H.
        destruct (IH _ _ _ _ _ _ _ _ Ex Wx R) as (M1 & R1 & F1). destruct (IH _ _ _ _ _ _ _ _ Ey Wy R1) as (M2 & R2 & F2).
        fin (mono_trans _ _ _ M1 M2) R2. intros E EO SO BO LO. set_val 1.
        eapply FlowOK_app; [apply F1; auto; [eapply env_ok_mono; eauto | apply lv_false]|].
        rewrite Vx. replace (h + 1) with (S h) by lia.
        eapply FlowOK_app; [apply F2; [auto | apply scope_ok_S; auto | apply bd_ok_S; auto | apply lv_false]|].
        rewrite Vy. replace (S h + 1) with (S (S h)) by lia.
        eapply FlowOK_app; [apply FlowOK_push; unfold W; lia|].
        eapply (FlowOK_app _ [Op "MSTORE"] _ _ (S h)); [lin_snip|].
        eapply FlowOK_app; [apply FlowOK_push; unfold W; lia|].
        eapply (FlowOK_app _ [Op "MSTORE"] _ _ h); [lin_snip|].
        eapply FlowOK_app; [apply FlowOK_push; unfold W; lia|].
        eapply FlowOK_app; [apply FlowOK_push; unfold W; lia|]. lin_snip. }
      cbn [orb].
      destruct (String.eqb op "ceil32") eqn:E_c32.
      { apply String.eqb_eq in E_c32. subst op. intros H WV. clear Oop. cbn [String.eqb Ascii.eqb Bool.eqb orb] in H, WV.
        destruct args as [|x [|? ?]]; try contradiction. destruct WV as [Wx Vx].
        sub H x ax s1 Ex; cbn [bind] in H. inversion H; subst. clear H.
        destruct (IH _ _ _ _ _ _ _ _ Ex Wx R) as (M1 & R1 & F1). fin M1 R1. intros E EO SO BO LO. set_val 1.
        eapply FlowOK_app; [apply FlowOK_push; unfold W; lia|].
        eapply (FlowOK_app _ [Op "NOT"] _ _ (S h)); [lin_snip|].
        eapply FlowOK_app; [apply FlowOK_push; unfold W; lia|].
        eapply FlowOK_app; [apply F1; [auto | do 2 apply scope_ok_S; auto | do 2 apply bd_ok_S; auto | apply lv_false]|].
        rewrite Vx. lin_snip. }
      destruct (String.eqb op "dload") eqn:E_dl.
      { apply String.eqb_eq in E_dl. subst op. intros H WV. clear Oop. cbn [String.eqb Ascii.eqb Bool.eqb orb] in H, WV.
        destruct args as [|x [|? ?]]; try contradiction. destruct WV as [Wx Vx].
        destruct (data_ofst_ (lower f wa bd) x (S h) s) as [[ax s1]|] eqn:Ex; cbn [bind] in H; [|discriminate].
        inversion H; subst. clear H.
        destruct (data_ofst_spec _ _ _ (IH wa bd) _ _ _ _ _ Ex Wx Vx R) as (M1 & R1 & F1). fin M1 R1. intros E EO SO BO LO. set_val 1.
        eapply FlowOK_app; [apply FlowOK_push; unfold W; lia|].
        eapply FlowOK_app; [apply F1; [auto | apply scope_ok_S; auto | apply bd_ok_S; auto]|].
        eapply FlowOK_app; [apply FlowOK_push; unfold W; lia|].
        eapply (FlowOK_app _ [Op "CODECOPY"] _ _ h); [lin_snip|].
        eapply FlowOK_app; [apply FlowOK_push; unfold W; lia|]. lin_snip. }
      destruct (String.eqb op "repeat") eqn:E_rep.
      { apply String.eqb_eq in E_rep. subst op. intros H WV. clear Oop. cbn [String.eqb Ascii.eqb Bool.eqb orb] in H, WV.
        destruct args as [|[?|i|? ?] [|start [|rounds [|bound [|body [|? ?]]]]]]; try contradiction.
        destruct WV as ((Ws & Vs) & (Wr & Vr) & (Wb & Vb) & Wbody).
        destruct (mksym "loop_start" (Some (S (S h))) s) as [entry s1] eqn:Ms1.
        destruct (mksym "loop_continue" (Some (S (S h))) s1) as [cont s2] eqn:Ms2.
        destruct (mksym "loop_exit" (Some (S (S h))) s2) as [exit_ s3] eqn:Ms3.
        sub H start a1 s4 G1; cbn [bind] in H. sub H rounds a2 s5 G2; cbn [bind] in H.
        destruct (bound_check_ (lower f wa bd) exit_ rounds bound h s5) as [[a3 s6]|] eqn:G3; cbn [bind] in H; [|discriminate].
        destruct (has i wa) eqn:Hi; [discriminate|].
        sub H body a5 s7 G5; cbn [bind] in H. inversion H; subst. clear H.
        destruct (mksym_spec _ _ _ _ _ Ms1) as (N1 & I1 & _ & Q1). specialize (Q1 R).
        destruct (mksym_spec _ _ _ _ _ Ms2) as (N2 & I2 & _ & Q2). specialize (Q2 Q1).
        destruct (mksym_spec _ _ _ _ _ Ms3) as (N3 & I3 & _ & Q3). specialize (Q3 Q2).
        destruct (IH _ _ _ _ _ _ _ _ G1 Ws Q3) as (M4 & R4 & F4).
        destruct (IH _ _ _ _ _ _ _ _ G2 Wr R4) as (M5 & R5 & F5).
        destruct (bound_check_spec _ _ _ (IH wa bd) _ _ _ _ _ _ _ G3 Wb Vb R5) as (M6 & R6 & F6).
        destruct (IH _ _ _ _ _ _ _ _ G5 Wbody R6) as (M7 & R7 & F7).
        assert (M37: mono s3 s') by (eapply mono_trans; [exact M4|]; eapply mono_trans; [exact M5|]; eapply mono_trans; eauto).
        fin (mono_trans _ _ _ (mono_trans _ _ _ (mono_trans _ _ _ N1 N2) N3) M37) R7. intros E EO SO BO LO.
        assert (EN: assoc entry E = Some (Some (S (S h)))) by (apply EO; apply M37; apply N3; apply N2; exact I1).
        assert (EC: assoc cont E = Some (Some (S (S h)))) by (apply EO; apply M37; apply N3; exact I2).
        assert (EX: assoc exit_ E = Some (Some (S (S h)))) by (apply EO; apply M37; exact I3).
        set_val 0. rewrite Nat.add_0_r.
        eapply FlowOK_app; [apply F4; auto; [eapply env_ok_mono; [|exact EO]; eapply mono_trans; [exact M5|]; eapply mono_trans; eauto | apply lv_false]|].
        rewrite Vs. replace (h + 1) with (S h) by lia.
        eapply FlowOK_app; [apply F5; [eapply env_ok_mono; [|exact EO]; eapply mono_trans; eauto | apply scope_ok_S; auto | apply bd_ok_S; auto | apply lv_false]|].
        rewrite Vr. replace (S h + 1) with (S (S h)) by lia.
        eapply FlowOK_app; [apply F6; auto; eapply env_ok_mono; eauto|].
        eapply (FlowOK_app _ _ _ _ (S (S h))).
        { destruct (start_nonzero start); [lin_snip | apply FlowOK_nil]. }
        cbn [app]. eapply (FlowOK_cons _ _ _ _ (S (S h))); [lin_snip|].
        eapply FlowOK_cons; [apply FlowOK_lbl; exact EN|].
        eapply FlowOK_app.
        { apply F7; [exact EO | | cbn; repeat split; [lia | exact EX | exact EC] | intros _; eauto].
          intros y hy Ay. cbn [assoc] in Ay. destruct (String.eqb i y); [inversion Ay; lia | specialize (SO y hy Ay); lia]. }
        eapply FlowOK_app; [apply FlowOK_pops|].
        eapply FlowOK_cons; [apply FlowOK_lbl; exact EC|].
        eapply (FlowOK_app _ [Op "PUSH1"; Imm 1%Z; Op "ADD"; Op "DUP2"; Op "DUP2"; Op "XOR"] _ _ (S (S (S h)))); [lin_snip|].
        eapply FlowOK_cons2; [apply FlowOK_jumpi; exact EN|].
        eapply FlowOK_cons; [apply FlowOK_lbl; exact EX|]. lin_snip. }
      destruct (String.eqb op "continue") eqn:E_cont.
      { apply String.eqb_eq in E_cont. subst op. intros H WV. clear Oop. cbn [String.eqb Ascii.eqb Bool.eqb orb] in H, WV.
        destruct bd as [[[ex co] bh]|]; [|discriminate]. inversion H; subst. fin (mono_refl s') R. intros E EO SO BO LO.
        destruct (LO eq_refl) as (ex1 & co1 & Eq). inversion Eq; subst. destruct BO as (_ & _ & EC).
        set_val 0. apply FlowT_OK. apply FlowT_jump. exact EC. }
      destruct (String.eqb op "break") eqn:E_brk.
      { apply String.eqb_eq in E_brk. subst op. intros H WV. clear Oop. cbn [String.eqb Ascii.eqb Bool.eqb orb] in H, WV.
        destruct bd as [[[ex co] bh]|]; [|discriminate]. inversion H; subst. fin (mono_refl s') R. intros E EO SO BO LO.
        destruct BO as (Lb & EX & _). set_val 0.
        eapply FlowOK_app.
        { pose proof (FlowOK_pops E (h - bh) bh) as P. replace (bh + (h - bh)) with h in P by lia. exact P. }
        apply FlowT_OK. apply FlowT_jump. exact EX. }
      destruct (String.eqb op "unique_symbol") eqn:E_us.
      { apply String.eqb_eq in E_us. subst op. intros H WV. clear Oop. cbn [String.eqb Ascii.eqb Bool.eqb orb] in H, WV.
        destruct args as [|[?|l|? ?] ?]; try discriminate H. unfold add_label in H.
        destruct (existsb (String.eqb l) (labels s)); [discriminate|]. cbn [bind] in H. inversion H; subst.
        split; [apply incl_refl|]. split; [exact R|]. intros E _ _ _ _. set_val 0. rewrite Nat.add_0_r. apply FlowOK_nil. }
      cbn [orb].
      destruct (String.eqb op "dloadbytes") eqn:E_dlb; [|intros _ WV; contradiction].
      apply String.eqb_eq in E_dlb. subst op. intros H WV. clear Oop. cbn [String.eqb Ascii.eqb Bool.eqb orb] in H, WV.
      destruct args as [|d [|sr [|ln [|? ?]]]]; try contradiction. destruct WV as ((Wd & Vd) & (Wsr & Vsr) & (Wl & Vl)).
      sub H ln a1 s1 K1; cbn [bind] in H.
      destruct (data_ofst_ (lower f wa bd) sr (S h) s1) as [[a2 s2]|] eqn:K2; cbn [bind] in H; [|discriminate].
      sub H d a3 s3 K3; cbn [bind] in H. inversion H; subst. clear H.
      destruct (IH _ _ _ _ _ _ _ _ K1 Wl R) as (M1 & R1 & F1).
      destruct (data_ofst_spec _ _ _ (IH wa bd) _ _ _ _ _ K2 Wsr Vsr R1) as (M2 & R2 & F2).
      destruct (IH _ _ _ _ _ _ _ _ K3 Wd R2) as (M3 & R3 & F3).
      fin (mono_trans _ _ _ (mono_trans _ _ _ M1 M2) M3) R3. intros E EO SO BO LO. set_val 0. rewrite Nat.add_0_r.
      eapply FlowOK_app; [apply F1; auto; [eapply env_ok_mono; [|exact EO]; eapply mono_trans; eauto | apply lv_false]|].
      rewrite Vl. replace (h + 1) with (S h) by lia.
      eapply FlowOK_app; [apply F2; [eapply env_ok_mono; eauto | apply scope_ok_S; auto | apply bd_ok_S; auto]|].
      eapply FlowOK_app; [apply F3; [auto | do 2 apply scope_ok_S; auto | do 2 apply bd_ok_S; auto | apply lv_false]|].
      rewrite Vd. lin_snip.
Qed.

(* whole programs: _IRnodeLowerer.compile_to_assembly = body, STOP, shared revert block *)
Definition lst0 : lst := {| cnt := 0; revl := None; labels := []; lh := []; dsegs := [] |}.
Definition postamble (s : lst) : list item :=
  (Op "STOP" :: match revl s with Some l => [Lbl l] ++ push 0 ++ [Op "DUP1"; Op "REVERT"] | None => [] end)%list.
Theorem lower_top_flow e a s' : lower 64 [] None 0 e lst0 = Ok (a, s') -> wv false e ->
  forall E, env_ok E s' -> flow E (a ++ postamble s') (Live 0 None) = Some Dead.
Proof.
  intros H WV E EO.
  assert (R0: rinv lst0) by (split; [intros l Hl; discriminate Hl | split; [intros l v [] | intros l v v' []]]).
  destruct (lower_spec 64 [] None 0 e lst0 a s' false H WV R0) as (M & R & F).
  assert (SO: scope_ok [] 0) by (intros x hx Hx; discriminate Hx).
  specialize (F E EO SO I (lv_false None 0)).
  destruct (F (Live 0 None) (or_intror eq_refl)) as (st & Fl & O). rewrite flow_app, Fl. unfold postamble.
  assert (STOP: flow E [Op "STOP"] st = Some Dead) by (destruct O as [->| ->]; reflexivity).
  change (Op "STOP" :: ?t) with ([Op "STOP"] ++ t)%list. rewrite flow_app, STOP.
  destruct (revl s') as [l|] eqn:RL; [|reflexivity].
  assert (EL: assoc l E = Some None) by (apply EO; apply (proj1 R); exact RL).
  cbn [app flow step]. rewrite EL. rewrite flow_app.
  destruct (FlowOK_push E 0 0 ltac:(unfold W; lia) (Live 0 None) (or_intror eq_refl)) as (s1 & F1 & O1). rewrite F1.
  destruct O1 as [->| ->]; reflexivity.
Qed.

Theorem lower_top_balanced e code : lower_top e = Ok code -> wv false e ->
  exists E, flow E code (Live 0 None) = Some Dead.
Proof.
  unfold lower_top. intros H WV.
  destruct (lower 64 [] None 0 e {| cnt := 0; revl := None; labels := []; lh := []; dsegs := [] |}) as [[a s']|] eqn:L; cbn [bind] in H; [|discriminate].
  inversion H; subst. exists (lh s').
  assert (R0: rinv lst0) by (split; [intros l Hl; discriminate Hl | split; [intros l v [] | intros l v v' []]]).
  destruct (lower_spec 64 [] None 0 e lst0 a s' false L WV R0) as (_ & R & _).
  exact (lower_top_flow e a s' L WV (lh s') (rinv_env s' R)).
Qed.
