(* C15 round 4: optimize never raises the "non-unique symbols" CompilerPanic (Err KeyErr) on trees whose
   unique_symbols succeeds at every node (hereditarily unique; `deploy` keeps the runtime's markers apart, so the
   invariant has to hold below the skipped argument as well).  hok e: at every node no marker name is counted twice
   (cnt of SymSound.v).  The optimiser preserves hok (every rule, the merge loops, rebuilt nodes, re-optimisation) and
   under hok every unique_symbols call inside _optimize succeeds and the _check_symbols comparison holds. *)
From Coq Require Import ZArith Bool List String Lia.
From Verif Require Import Base.Word256 Base.PyInt C15.Syntax C15.WordFacts C15.GenUtils C15.Optimizer C15.FoldSound
  C15.OptSound C15.OptTree C15.OptTreeSound C15.Bytes C15.MergeSound C15.MemInst C15.SymSound.
Import ListNotations.
Open Scope Z_scope.

(* ---- well-formedness is preserved (from the semantic soundness theorems, instantiated at the concrete state space) ---- *)
Definition inst_merges cancun l c l' (W : Forall wf l) (H : merges cancun l = Ok (c, l')) :=
  merges_sound InstSem InstMemOk cancun l c l' W H.
Lemma opt_wf f cancun pc e r : wf e -> opt f cancun pc e = Ok r -> wf (snd r).
Proof. intros W H. exact (proj2 (opt_sound InstSem InstSemOk inst_merges f cancun pc e r W H)). Qed.
Lemma top_rule_wf cancun pc op argz : Forall wf argz ->
  match top_rule cancun pc op argz with ARe _ new => wf new | ASingle x => wf x | _ => True end.
Proof.
  intros W. pose proof (top_rule_sound InstSem InstSemOk inst_merges cancun pc op argz W) as T.
  destruct (top_rule cancun pc op argz); try exact I; apply T.
Qed.

(* ---- which errors the rule part can raise ---- *)
Lemma cmp_core_nokey o y ps : cmp_core o y ps <> Err KeyErr.
Proof.
  unfold cmp_core. rewrite int_bounds_vw. cbn [bind].
  destruct (cmp_gt o); repeat (match goal with |- (if ?c then _ else _) <> _ => destruct c; [discriminate|] end);
    destruct y; try (destruct (bop_eqb o B_gt && _); discriminate);
    (destruct (negb _); [|destruct (bop_eqb o B_gt && _); discriminate]);
    repeat (match goal with |- (if ?c then _ else _) <> _ => destruct c; [discriminate|] end);
    rewrite wrap256_vw; cbn [bind]; match goal with |- (if ?c then _ else _) <> _ => destruct c; discriminate end.
Qed.
Lemma comparison_helper_nokey o x y ps : comparison_helper o x y ps <> Err KeyErr.
Proof.
  unfold comparison_helper. destruct (is_int x).
  - pose proof (cmp_core_nokey (flip_cmp o) x ps). destruct (cmp_core (flip_cmp o) x ps) as [r|e]; cbn [bind]; congruence.
  - pose proof (cmp_core_nokey o y ps). destruct (cmp_core o y ps) as [r|e]; cbn [bind]; congruence.
Qed.
Ltac nk := repeat (match goal with |- (if ?c then _ else _) <> _ => destruct c; [discriminate|] end).
Lemma rules_tail_nokey o u x y pc : rules_tail o u x y pc <> Err KeyErr.
Proof.
  unfold rules_tail, rules_cmp. nk. destruct (is_truthy pc).
  - destruct (bop_eqb o B_eq). { destruct u; discriminate. } nk.
    destruct (comparison o); [apply comparison_helper_nokey | discriminate].
  - destruct (comparison o); [apply comparison_helper_nokey | discriminate].
Qed.
Lemma rules_nokey o u x y pc : rules o u x y pc <> Err KeyErr.
Proof.
  unfold rules. do 8 (match goal with |- (if ?c then _ else _) <> _ => destruct c; [discriminate|] end).
  match goal with |- (if ?c then _ else _) <> _ => destruct c end.
  { destruct (negb u); [discriminate|]. destruct o, y; discriminate. }
  nk. destruct y; try apply rules_tail_nokey.
  match goal with |- (if ?c then _ else _) <> _ => destruct c end; [|apply rules_tail_nokey].
  destruct (negb u); [discriminate|]. destruct o; discriminate.
Qed.
Lemma opt_binop_nokey o a b pc : wf a -> wf b -> opt_binop o a b pc <> Err KeyErr.
Proof.
  intros Wa Wb. unfold opt_binop. destruct (arith o) as [[fn u]|] eqn:A; [|discriminate].
  assert (G: forall x y, (t <- rules o u x y pc ;; Ok (match t with Some t => finalize x y t | None => None end)) <> Err KeyErr).
  { intros x y. pose proof (rules_nokey o u x y pc). destruct (rules o u x y pc); cbn [bind]; congruence. }
  destruct a as [l| |]; destruct b as [r| |]; try (destruct (commutative o && is_int _); apply G).
  destruct (arith_fold_sound_all o ltac:(congruence) l r Wa Wb) as (w & E & _). rewrite E. discriminate.
Qed.
Lemma g_loop_nokey sp fuel : forall l i r c, g_loop sp fuel l i r c <> Err KeyErr.
Proof.
  induction fuel as [|f IH]; intros l i r c; [discriminate|]. cbn [g_loop].
  destruct (nth_error l i); [|discriminate].
  match goal with |- (let '(r1, cont) := ?X in _) <> _ => destruct X as [r1 cont] end.
  destruct cont; [apply IH|]. destruct (Nat.ltb 1 (r_n r1)); [|apply IH].
  destruct (lit_okb (r_total r1)); [apply IH | discriminate].
Qed.
Lemma g_merge_nokey sp l : g_merge sp l <> Err KeyErr.
Proof. unfold g_merge. destruct (forallb (node_safe sp) l); [apply g_loop_nokey | discriminate]. Qed.
Lemma merges_nokey cancun l : merges cancun l <> Err KeyErr.
Proof.
  unfold merges. pose proof (g_merge_nokey sp_memzero l) as H1. unfold merge_memzero.
  destruct (g_merge sp_memzero l) as [[c1 l1]|e1]; cbn [bind]; [|intros E; apply H1; exact E].
  unfold merge_load. pose proof (g_merge_nokey (sp_load "calldataload" "calldatacopy" true) l1) as H2.
  destruct (g_merge (sp_load "calldataload" "calldatacopy" true) l1) as [[c2 l2]|e2]; cbn [bind]; [|intros E; apply H2; exact E].
  pose proof (g_merge_nokey (sp_load "dload" "dloadbytes" true) l2) as H3.
  destruct (g_merge (sp_load "dload" "dloadbytes" true) l2) as [[c3 l3]|e3]; cbn [bind]; [|intros E; apply H3; exact E].
  destruct (rewrite_mstore_dload l3) as [c4 l4].
  destruct cancun.
  - pose proof (g_merge_nokey (sp_load "mload" "mcopy" false) l4) as H5.
    destruct (g_merge (sp_load "mload" "mcopy" false) l4) as [[c5 l5]|e5]; cbn [bind]; [|intros E; apply H5; exact E].
    destruct (remove_empty_seqs l5). discriminate.
  - cbn [bind]. destruct (remove_empty_seqs l4). discriminate.
Qed.
Lemma top_rule_nokey cancun pc op argz : Forall wf argz -> top_rule cancun pc op argz <> AFail KeyErr.
Proof.
  intros W. unfold top_rule. destruct (kind_of op) eqn:K; try discriminate.
  - destruct (arith o).
    + destruct argz as [|a [|b [|? ?]]]; try discriminate. inversion W as [|? ? Wa W1]; subst. inversion W1 as [|? ? Wb _]; subst.
      pose proof (opt_binop_nokey o a b pc Wa Wb). destruct (opt_binop o a b pc) as [[e'|]|er]; try discriminate. congruence.
    + destruct argz as [|a [|b [|? ?]]]; try discriminate. destruct (is_lit0 a); discriminate.
  - destruct o; try discriminate. destruct argz as [|[v|x|? ?] [|? ?]]; discriminate.
  - destruct argz as [|[v|x|? ?] [|? ?]]; try discriminate. destruct (lit_okb (ceil32_py v)); discriminate.
  - pose proof (merges_nokey cancun argz). destruct (merges cancun argz) as [[c [|x [|y t]]]|er]; try discriminate. congruence.
  - destruct argz as [|c [|t [|fl [|? ?]]]]; try discriminate; destruct c as [v|x|cop cargs]; try discriminate;
      cbn [head_is]; try (destruct (evm_int true v =? 0)); try (destruct (existsb _ _)); discriminate.
  - destruct argz as [|[v|x|? ?] [|? ?]]; try discriminate. destruct (evm_int true v =? 0); discriminate.
  - destruct argz as [|[v|x|? ?] [|? ?]]; try discriminate. destruct (evm_int true v =? 0); discriminate.
Qed.

(* ---- hereditary uniqueness ---- *)
Open Scope nat_scope.
Fixpoint hok (e : expr) : Prop :=
  match e with
  | Node op args =>
      (forall z, cnt z (Node op args) <= 1) /\
      (fix all (l : list expr) : Prop := match l with [] => True | x :: t => hok x /\ all t end) args
  | _ => True
  end.
Lemma hok_node op args : hok (Node op args) <-> (forall z, cnt z (Node op args) <= 1) /\ Forall hok args.
Proof.
  cbn [hok]. split; intros [A B]; (split; [exact A|]).
  - clear A. induction args as [|x t IH]; [constructor|]. destruct B as [Bx Bt]. constructor; [exact Bx | apply IH; exact Bt].
  - clear A. induction B as [|x t Hx Ht IH]; [exact I | split; assumption].
Qed.
Lemma hok_plain op l : String.eqb op "unique_symbol" = false -> String.eqb op "deploy" = false ->
  (forall z, sumc z l <= 1) -> Forall hok l -> hok (Node op l).
Proof. intros E1 E2 S F. apply hok_node. split; [|exact F]. intros z. rewrite (cnt_plain z op l E1 E2). apply S. Qed.

(* templates *)
Lemma cnt_sub_le T : (cntX T <= 1 -> True) /\ True. Proof. auto. Qed.
Lemma hok_inst T x y : hok x -> hok y -> (forall z, cnt z x + cnt z y <= 1) -> cntX T <= 1 -> cntY T <= 1 ->
  hok (inst T x y).
Proof.
  intros Hx Hy S. induction T; intros CX CY; cbn [inst cntX cntY] in *; auto.
  - exact I.
  - unfold Un. apply hok_plain; try (destruct o; reflexivity).
    + intros z. rewrite sumc_cons, sumc_nil, cnt_inst. specialize (S z). nia.
    + constructor; [apply IHT; lia | constructor].
  - unfold Bin. apply hok_plain; try (destruct o; reflexivity).
    + intros z. rewrite !sumc_cons, sumc_nil, !cnt_inst. specialize (S z). nia.
    + constructor; [apply IHT1; lia | constructor; [apply IHT2; lia | constructor]].
  - unfold Seq1. apply hok_plain; try reflexivity.
    + intros z. rewrite sumc_cons, sumc_nil, cnt_inst. specialize (S z). nia.
    + constructor; [apply IHT; lia | constructor].
Qed.
Lemma opt_binop_hok o a b pc e' : hok a -> hok b -> (forall z, cnt z a + cnt z b <= 1) ->
  opt_binop o a b pc = Ok (Some e') -> hok e'.
Proof.
  intros Ha Hb S H. unfold opt_binop in H. destruct (arith o) as [[fn u]|]; [|discriminate].
  assert (GEN: forall x y, hok x -> hok y -> (forall z, cnt z x + cnt z y <= 1) ->
            (t <- rules o u x y pc ;; Ok (match t with Some t => finalize x y t | None => None end)) = Ok (Some e') -> hok e').
  { intros x y Hx Hy Sxy HR. destruct (rules o u x y pc) as [[T|]|] eqn:ER; cbn [bind] in HR; try discriminate.
    inversion HR as [HF]. destruct (rules_cnt _ _ _ _ _ _ ER) as [CX CY].
    apply finalize_inv in HF. destruct HF as [-> _]. apply hok_inst; auto. }
  destruct a as [l| |]; destruct b as [r| |];
    try (destruct (commutative o && is_int _) eqn:CM; apply GEN in H; auto; intros z; specialize (S z); lia).
  destruct (fold o l r) as [w|]; cbn [bind] in H; [|discriminate]. cbn in H. inversion H; subst. exact I.
Qed.

(* merges *)
Lemma splice_hok l idx n new : Forall hok l -> hok new -> Forall hok (splice l idx n new).
Proof.
  intros F H. unfold splice. apply Forall_app. split; [apply Forall_forall; intros x Hx; rewrite Forall_forall in F; apply F; eapply in_firstn; eauto|].
  constructor; [exact H|]. apply Forall_forall. intros x Hx. rewrite Forall_forall in F. apply F. eapply in_skipn; eauto.
Qed.
Lemma g_loop_hok sp : (forall d s t, hok (ms_mk sp d s t)) ->
  forall fuel l i r c c' l', Forall hok l -> g_loop sp fuel l i r c = Ok (c', l') -> Forall hok l'.
Proof.
  intros MK. induction fuel as [|f IH]; intros l i r c c' l' F H; [discriminate|]. cbn [g_loop] in H.
  destruct (nth_error l i); [|inversion H; subst; exact F].
  match type of H with (let '(r1, cont) := ?X in _) = _ => destruct X as [r1 cont] end.
  destruct cont; [eapply IH; eauto|]. destruct (Nat.ltb 1 (r_n r1)); [|eapply IH; eauto].
  destruct (lit_okb (r_total r1)); [|discriminate]. eapply IH; [|exact H]. apply splice_hok; [exact F | apply MK].
Qed.
Lemma g_merge_hok sp l c l' : (forall d s t, hok (ms_mk sp d s t)) -> Forall hok l -> g_merge sp l = Ok (c, l') -> Forall hok l'.
Proof. intros MK F. unfold g_merge. destruct (forallb (node_safe sp) l); [apply g_loop_hok; assumption | discriminate]. Qed.
Lemma mk_hok_leaves op (l : list expr) : String.eqb op "unique_symbol" = false -> String.eqb op "deploy" = false ->
  Forall (fun e => is_complex e = false) l -> hok (Node op l).
Proof.
  intros E1 E2 F. apply hok_plain; auto.
  - intros z. induction F as [|x t Hx Ht IH]; [cbn; lia|]. rewrite sumc_cons. destruct x; try discriminate; cbn [cnt]; lia.
  - induction F as [|x t Hx Ht IH]; constructor; auto. destruct x; try discriminate; exact I.
Qed.
Lemma rewrite_dload1_hok e : hok e -> hok (snd (rewrite_dload1 e)).
Proof.
  intros H. destruct e as [v|x|op [|dst [|[v|x|ld [|src [|? ?]]] [|? ?]]]]; cbn [rewrite_dload1 snd]; try exact H.
  destruct (String.eqb op "mstore") eqn:E1; cbn [andb snd]; [|exact H].
  destruct (String.eqb ld "dload") eqn:E2; cbn [snd]; [|exact H].
  apply String.eqb_eq in E1, E2. subst. apply hok_node in H. destruct H as [C F].
  inversion F as [|? ? Hd F1]; subst. inversion F1 as [|? ? Hl _]; subst. apply hok_node in Hl. destruct Hl as [_ Fs].
  inversion Fs as [|? ? Hs _]; subst.
  apply hok_plain; try reflexivity.
  - intros z. specialize (C z). rewrite (cnt_plain z "mstore") in C by reflexivity. rewrite !sumc_cons, sumc_nil in C.
    rewrite (cnt_plain z "dload") in C by reflexivity. rewrite !sumc_cons, sumc_nil in C. rewrite !sumc_cons, sumc_nil.
    cbn [cnt]. lia.
  - repeat constructor; assumption.
Qed.
Lemma rewrite_mstore_dload_hok l : Forall hok l -> Forall hok (snd (rewrite_mstore_dload l)).
Proof. unfold rewrite_mstore_dload. cbn [snd]. induction 1; cbn [map]; constructor; [apply rewrite_dload1_hok; assumption | assumption]. Qed.
Lemma remove_empty_seqs_hok l : Forall hok l -> Forall hok (snd (remove_empty_seqs l)).
Proof.
  induction l as [|x t IH]; intros F; [exact F|]. destruct t as [|y t]; [exact F|].
  change (remove_empty_seqs (x :: y :: t)) with
    (let '(c, t') := remove_empty_seqs (y :: t) in if is_empty_seq x then (true, t') else (c, x :: t')).
  inversion F as [|? ? Hx Ft]; subst. specialize (IH Ft). destruct (remove_empty_seqs (y :: t)) as [c t']. cbn [snd] in IH.
  destruct (is_empty_seq x); cbn [snd]; [exact IH | constructor; assumption].
Qed.
Lemma merges_hok cancun l c l' : Forall hok l -> merges cancun l = Ok (c, l') -> Forall hok l'.
Proof.
  unfold merges, merge_memzero, merge_load. intros F H.
  assert (MK1: forall d s t, hok (ms_mk sp_memzero d s t)).
  { intros. unfold sp_memzero. cbn [ms_mk]. apply mk_hok_leaves; try reflexivity. repeat constructor. }
  assert (MK2: forall L C ov, String.eqb C "unique_symbol" = false -> String.eqb C "deploy" = false ->
            forall d s t, hok (ms_mk (sp_load L C ov) d s t)).
  { intros L C ov E1 E2 d s t. unfold sp_load. cbn [ms_mk]. apply mk_hok_leaves; auto. }
  destruct (g_merge sp_memzero l) as [[c1 l1]|] eqn:M1; cbn [bind] in H; [|discriminate].
  destruct (g_merge (sp_load "calldataload" "calldatacopy" true) l1) as [[c2 l2]|] eqn:M2; cbn [bind] in H; [|discriminate].
  destruct (g_merge (sp_load "dload" "dloadbytes" true) l2) as [[c3 l3]|] eqn:M3; cbn [bind] in H; [|discriminate].
  apply (g_merge_hok _ _ _ _ MK1 F) in M1. apply (g_merge_hok _ _ _ _ (MK2 "calldataload" "calldatacopy" true eq_refl eq_refl)%string M1) in M2.
  apply (g_merge_hok _ _ _ _ (MK2 "dload" "dloadbytes" true eq_refl eq_refl)%string M2) in M3.
  pose proof (rewrite_mstore_dload_hok l3 M3) as M4. destruct (rewrite_mstore_dload l3) as [c4 l4]. cbn [snd] in M4.
  assert (M5: forall c5 l5, (if cancun then g_merge (sp_load "mload" "mcopy" false) l4 else Ok (false, l4)) = Ok (c5, l5) ->
               Forall hok l5).
  { intros c5 l5 H5. destruct cancun; [|inversion H5; subst; exact M4].
    eapply g_merge_hok; [|exact M4|exact H5]. apply MK2; reflexivity. }
  destruct (if cancun then _ else _) as [[c5 l5]|]; cbn [bind] in H; [|discriminate]. specialize (M5 _ _ eq_refl).
  pose proof (remove_empty_seqs_hok l5 M5) as M6. destruct (remove_empty_seqs l5) as [c6 l6]. cbn [snd] in M6.
  inversion H; subst. exact M6.
Qed.

Lemma hok_top e z : hok e -> cnt z e <= 1.
Proof. destruct e; intros H; try (cbn; lia). apply H. Qed.
Lemma hok_seq0 : hok (Node "seq" []).
Proof. apply hok_plain; try reflexivity; [intros z; rewrite sumc_nil; lia | constructor]. Qed.
Lemma hok_seq1 t : hok t -> hok (Node "seq" [t]).
Proof.
  intros H. apply hok_plain; try reflexivity; [|repeat constructor; exact H].
  intros z. rewrite sumc_cons, sumc_nil. pose proof (hok_top t z H). lia.
Qed.
Lemma hok_ifflip c fl t : hok c -> hok fl -> hok t -> (forall z, cnt z c + (cnt z t + cnt z fl) <= 1) ->
  hok (Node "if" [Node "iszero" [c]; fl; t]).
Proof.
  intros Hc Hf Ht S. apply hok_plain; try reflexivity.
  - intros z. rewrite !sumc_cons, sumc_nil. rewrite (cnt_plain z "iszero") by reflexivity. rewrite sumc_cons, sumc_nil.
    specialize (S z). lia.
  - constructor; [|repeat constructor; assumption]. apply hok_plain; try reflexivity; [|repeat constructor; exact Hc].
    intros z. rewrite sumc_cons, sumc_nil. specialize (S z). lia.
Qed.
(* the rule part builds hereditarily unique nodes *)
Lemma top_rule_hok cancun pc op argz : Forall hok argz -> (forall z, cnt z (Node op argz) <= 1) ->
  match top_rule cancun pc op argz with ARe _ new => hok new | ASingle x => hok x | _ => True end.
Proof.
  intros F C. unfold top_rule. pose proof (kind_of_name op) as KN. destruct (kind_of op) eqn:K; cbn [kind_name] in KN; try exact I.
  - subst op. destruct (arith o) eqn:A.
    + destruct argz as [|a [|b [|? ?]]]; try exact I. inversion F as [|? ? Ha F1]; subst. inversion F1 as [|? ? Hb _]; subst.
      destruct (opt_binop o a b pc) as [[e'|]|] eqn:OB; try exact I.
      apply (opt_binop_hok o a b pc e' Ha Hb); [|exact OB]. intros z. specialize (C z). change (Node (bop_name o) [a; b]) with (Bin o a b) in C.
      rewrite cnt_bin in C. exact C.
    + destruct argz as [|a [|b [|? ?]]]; try exact I. destruct (is_lit0 a); [|exact I].
      inversion F as [|? ? _ F1]; subst. inversion F1; subst. assumption.
  - destruct o; try exact I. destruct argz as [|[v|x|? ?] [|? ?]]; exact I.
  - destruct argz as [|[v|x|? ?] [|? ?]]; try exact I. destruct (lit_okb (ceil32_py v)); exact I.
  - subst op. destruct (merges cancun argz) as [[c l]|] eqn:M; [|exact I].
    pose proof (merges_hok _ _ _ _ F M) as Fl.
    assert (S: forall z, sumc z l <= 1).
    { intros z. pose proof (merges_cnt z _ _ _ _ M). specialize (C z). rewrite (cnt_plain z "seq" argz) in C by reflexivity. lia. }
    destruct l as [|x [|y t]]; [apply hok_plain; auto | inversion Fl; assumption | apply hok_plain; auto].
  - subst op. assert (S: forall z, sumc z argz <= 1).
    { intros z. specialize (C z). rewrite (cnt_plain z "if" argz) in C by reflexivity. exact C. }
    destruct argz as [|c [|t [|fl [|? ?]]]]; try exact I; destruct c as [v|x|cop cargs]; try exact I; cbn [head_is].
    + inversion F as [|? ? _ F1]; subst. inversion F1; subst.
      destruct (Z.eqb (evm_int true v) 0%Z); [apply hok_seq0 | apply hok_seq1; assumption].
    + inversion F as [|? ? _ F1]; subst. inversion F1 as [|? ? Ht F2]; subst. inversion F2; subst.
      destruct (Z.eqb (evm_int true v) 0%Z); apply hok_seq1; assumption.
    + inversion F as [|? ? Hc F1]; subst. inversion F1 as [|? ? Ht F2]; subst. inversion F2; subst.
      apply hok_ifflip; auto. intros z. specialize (S z). rewrite !sumc_cons, sumc_nil in S. lia.
    + inversion F as [|? ? Hc F1]; subst. inversion F1 as [|? ? Ht F2]; subst. inversion F2; subst.
      destruct (existsb _ _); [exact I|].
      apply hok_ifflip; auto. intros z. specialize (S z). rewrite !sumc_cons, sumc_nil in S. lia.
  - destruct argz as [|[v|x|? ?] [|? ?]]; try exact I. destruct (Z.eqb (evm_int true v) 0%Z); [exact I|].
    apply hok_seq0.
  - destruct argz as [|[v|x|? ?] [|? ?]]; try exact I. destruct (Z.eqb (evm_int true v) 0%Z); [exact I|].
    apply hok_seq0.
Qed.

(* ---- the driver ---- *)
Lemma usyms_union_ok l : Forall (fun a => forall z, cnt z a <= 1) l -> exists st, usyms_union l = Ok st.
Proof.
  induction 1 as [|a t Ha Ht IH]; [eexists; reflexivity|]. cbn [usyms_union].
  destruct (cnt_usyms a Ha) as (S & E & _). rewrite E. cbn [bind]. destruct IH as (st & ->). cbn [bind]. eexists; reflexivity.
Qed.
Lemma top_rule_binop cancun pc op argz o p c new : kind_of op = KBin o -> arith o = Some p ->
  top_rule cancun pc op argz = ARe c new -> exists a b, argz = [a; b] /\ opt_binop o a b pc = Ok (Some new).
Proof.
  intros K A. unfold top_rule. rewrite K, A. destruct argz as [|a [|b [|? ?]]]; try discriminate.
  destruct (opt_binop o a b pc) as [[e'|]|] eqn:OB; try discriminate. intros H. inversion H; subst. exists a, b. split; [reflexivity | exact OB].
Qed.
Definition Good (r : res (bool * expr)) : Prop := r <> Err KeyErr /\ forall x, r = Ok x -> wf (snd x) /\ hok (snd x).
Lemma mapi_res_good (g : nat -> expr -> res (bool * expr)) :
  (forall j a, wf a -> hok a -> Good (g j a)) ->
  forall l i, Forall wf l -> Forall hok l ->
  mapi_res g i l <> Err KeyErr /\ forall rs, mapi_res g i l = Ok rs -> Forall wf (map snd rs) /\ Forall hok (map snd rs).
Proof.
  intros G. induction l as [|a t IH]; intros i W H; cbn [mapi_res].
  - split; [discriminate|]. intros rs E. inversion E; subst. split; constructor.
  - inversion W as [|? ? Wa Wt]; subst. inversion H as [|? ? Ha Ht]; subst. destruct (G i a Wa Ha) as [N1 P1].
    destruct (g i a) as [y|er]; cbn [bind]; [|split; [congruence | discriminate]].
    destruct (IH (S i) Wt Ht) as [N2 P2]. destruct (mapi_res g (S i) t) as [ys|er]; cbn [bind]; [|split; [congruence | discriminate]].
    split; [discriminate|]. intros rs E. inversion E; subst. destruct (P1 _ eq_refl) as [A B]. destruct (P2 _ eq_refl) as [C D].
    cbn [map]. split; constructor; assumption.
Qed.

Theorem opt_good f : forall cancun pc e, wf e -> hok e -> Good (opt f cancun pc e).
Proof.
  induction f as [|f IH]; intros cancun pc e W H; [split; discriminate|].
  destruct e as [v|x|op args]; try (cbn [opt]; split; [discriminate | intros r E; inversion E; subst; split; assumption]).
  cbn [opt]. pose proof H as H0. apply hok_node in H0. destruct H0 as [C F].
  destruct (cnt_usyms (Node op args) C) as (starting & EU & _). rewrite EU. cbn [bind].
  apply wf_node in W.
  destruct (mapi_res_good (fun i a => opt f cancun (pc_of op i) a) (fun j a Wa Ha => IH cancun (pc_of op j) a Wa Ha) args 0%nat W F)
    as [NM PM].
  destruct (mapi_res (fun i a => opt f cancun (pc_of op i) a) 0 args) as [rs|er] eqn:MR; cbn [bind]; [|split; [congruence | discriminate]].
  destruct (PM rs eq_refl) as [Wz Fz]. clear PM NM.
  pose proof (mapi_res_R _ (fun j a r Hr => opt_R f cancun (pc_of op j) a r Hr) _ _ _ MR) as RR.
  assert (Cz: forall z, cnt z (Node op (map snd rs)) <= 1).
  { intros z. pose proof (node_mono z op _ _ RR). specialize (C z). lia. }
  set (argz := map snd rs) in *. set (ac := existsb fst rs).
  assert (REC: forall new, wf new -> hok new -> Good (r <- opt f cancun pc new ;; Ok (true, snd r))).
  { intros new Wn Hn. destruct (IH cancun pc new Wn Hn) as [N P]. destruct (opt f cancun pc new) as [r1|er]; cbn [bind].
    - split; [discriminate|]. intros x E. inversion E; subst. cbn [snd]. apply P. reflexivity.
    - split; [congruence | discriminate]. }
  assert (FIN: forall c new, wf new -> hok new -> Good (fin_ (opt f cancun pc) (Node op args) ac c new)).
  { intros c new Wn Hn. unfold fin_. destruct (negb c && negb ac); [|apply REC; assumption].
    split; [discriminate|]. intros x E. inversion E; subst. cbn [snd]. split; [apply (proj2 (wf_node op args)); exact W | exact H]. }
  pose proof (top_rule_wf cancun pc op argz Wz) as TW. pose proof (top_rule_hok cancun pc op argz Fz Cz) as TH.
  pose proof (top_rule_nokey cancun pc op argz Wz) as TN.
  destruct (top_rule cancun pc op argz) as [|c new|x|er] eqn:TR.
  - apply FIN; [apply (proj2 (wf_node op argz)); exact Wz | apply hok_node; split; assumption].
  - destruct (kind_of op) as [o| | | | | | | |] eqn:K; try (apply FIN; assumption).
    destruct (arith o) as [p|] eqn:A; [|apply FIN; assumption].
    destruct (top_rule_binop _ _ _ _ _ _ _ _ K A TR) as (a & b & EA & OB).
    assert (UA: exists st, usyms_union argz = Ok st).
    { apply usyms_union_ok. apply Forall_forall. intros y Hy z. rewrite Forall_forall in Fz. apply hok_top. apply Fz. exact Hy. }
    destruct UA as (st & US). rewrite US. cbn [bind].
    destruct (cnt_usyms new (fun z => hok_top new z TH)) as (now & UN & _). rewrite UN. cbn [bind].
    rewrite EA in US. rewrite (symbol_check_never_fires o a b pc new st now OB US UN). apply FIN; assumption.
  - apply REC; assumption.
  - split; [congruence | discriminate].
Qed.

(* optimize never raises the non-unique-symbols / missing-symbols CompilerPanic on hereditarily unique trees *)
Theorem optimize_no_symbol_panic cancun e : wf e -> hok e -> optimize cancun e <> Err KeyErr.
Proof.
  intros W H. unfold optimize. destruct (opt_good 64 cancun PNone e W H) as [N _].
  destruct (opt 64 cancun PNone e) as [r|er]; cbn [bind]; [discriminate | congruence].
Qed.

(* in front-end terms: markers named by leaves (eval_once_check) and unique_symbols succeeding at every node *)
Fixpoint usyms_all (e : expr) : Prop :=
  match e with
  | Node op args =>
      (exists S, usyms (Node op args) = Ok S) /\
      (fix all (l : list expr) : Prop := match l with [] => True | x :: t => usyms_all x /\ all t end) args
  | _ => True
  end.
Lemma front_end_hok e : symleaf e = true -> usyms_all e -> hok e.
Proof.
  induction e as [v|x|op args IH] using expr_ind2; intros SL UA; try exact I.
  apply hok_node. destruct UA as [(S & US) UA]. split.
  - intros z. destruct (usyms_count _ SL S US z) as [E L]. lia.
  - cbn [symleaf] in SL. apply andb_true_iff in SL. destruct SL as [_ SL]. rewrite forallb_forall in SL.
    clear US. induction IH as [|x t Hx Ht IHt]; [constructor|]. destruct UA as [Ux Ut].
    constructor; [apply Hx; [apply SL; left; reflexivity | exact Ux] | apply IHt; [intros y Hy; apply SL; right; exact Hy | exact Ut]].
Qed.
Theorem optimize_no_symbol_panic_front_end cancun e :
  wf e -> symleaf e = true -> usyms_all e -> optimize cancun e <> Err KeyErr.
Proof. intros W SL UA. apply optimize_no_symbol_panic; [exact W | apply front_end_hok; assumption]. Qed.
