(* C15: facts about Word256 operations used by the optimiser rewrite rules (static; no Gen imports). *)
From Coq Require Import ZArith Bool List String Lia.
From Verif Require Import Base.Word256 Base.PyInt Base.WordLemmas C15.Syntax.
Import ListNotations.
Open Scope Z_scope.

Lemma W_val : W = 115792089237316195423570985008687907853269984665640564039457584007913129639936.
Proof. reflexivity. Qed.
Lemma HALF_val : HALF = 57896044618658097711785492504343953926634992332820282019728792003956564819968.
Proof. reflexivity. Qed.
Lemma pow256 : 2 ^ 256 = W. Proof. reflexivity. Qed.
Lemma pow255 : 2 ^ 255 = HALF. Proof. reflexivity. Qed.
Ltac wl := pose proof W_val; pose proof HALF_val; unfold lit_ok, in_word, MINS, MAXU, MAXS in *; lia.

Definition inw (x : Z) : Prop := 0 <= x < W.

Lemma wrap_range a : inw (wrap a).
Proof. unfold inw, wrap. apply Z.mod_pos_bound. wl. Qed.
Lemma wrap_neg a : MINS <= a < 0 -> wrap a = a + W.
Proof. intros H. unfold wrap. symmetry. apply Z.mod_unique with (q := -1); wl. Qed.
Lemma wrap_small a : 0 <= a < W -> wrap a = a.
Proof. intros H. unfold wrap. apply Z.mod_small. lia. Qed.
Lemma mod_small_W r : 0 <= r < W -> r mod W = r.
Proof. intros. apply Z.mod_small; lia. Qed.
Lemma wrap_wrap a : wrap (wrap a) = wrap a.
Proof. apply wrap_small, wrap_range. Qed.

Lemma to_signed_range z : inw z -> MINS <= to_signed z <= MAXS.
Proof.
  unfold inw; intros H. unfold to_signed. destruct (z <? HALF) eqn:E; [apply Z.ltb_lt in E | apply Z.ltb_ge in E]; wl.
Qed.
Lemma wrap_to_signed z : inw z -> wrap (to_signed z) = z.
Proof.
  unfold inw; intros H. unfold to_signed. destruct (z <? HALF) eqn:E.
  - apply wrap_small; lia.
  - apply Z.ltb_ge in E. rewrite wrap_neg by wl. lia.
Qed.
Lemma to_signed_wrap s : MINS <= s <= MAXS -> to_signed (wrap s) = s.
Proof.
  intros H. unfold to_signed. destruct (Z_lt_dec s 0).
  - rewrite wrap_neg by wl. destruct (s + W <? HALF) eqn:E; [apply Z.ltb_lt in E; wl | lia].
  - rewrite wrap_small by wl. destruct (s <? HALF) eqn:E; [reflexivity | apply Z.ltb_ge in E; wl].
Qed.
Lemma to_signed_inj a b : inw a -> inw b -> to_signed a = to_signed b -> a = b.
Proof. intros Ha Hb E. rewrite <- (wrap_to_signed a Ha), <- (wrap_to_signed b Hb), E. reflexivity. Qed.
Lemma to_signed_zero x : inw x -> (to_signed x =? 0) = (x =? 0).
Proof.
  unfold inw; intros H. unfold to_signed. destruct (x <? HALF) eqn:E; [reflexivity|]. apply Z.ltb_ge in E.
  destruct (x =? 0) eqn:E2; [apply Z.eqb_eq in E2; wl|]. apply Z.eqb_neq. wl.
Qed.

(* ---- bit-level ---- *)
Lemma word_log2 x : inw x -> x = 0 \/ Z.log2 x < 256.
Proof.
  unfold inw; intros H. destruct (Z.eq_dec x 0); [left; auto|right].
  apply Z.log2_lt_pow2; [lia|]. rewrite pow256. lia.
Qed.

Lemma bitop_range (op : Z -> Z -> Z) x y :
  (forall n, Z.testbit (op x y) n = false \/ (Z.testbit x n = true \/ Z.testbit y n = true)) ->
  0 <= op x y -> inw x -> inw y -> inw (op x y).
Proof.
  unfold inw. intros Hb H0 Hx Hy. split; [exact H0|].
  destruct (Z.eq_dec (op x y) 0) as [->|N]; [wl|].
  rewrite <- pow256. apply Z.log2_lt_pow2; [lia|].
  destruct (Z_lt_dec (Z.log2 (op x y)) 256); [assumption|exfalso].
  pose proof (Z.bit_log2 (op x y) ltac:(lia)) as B.
  destruct (Hb (Z.log2 (op x y))) as [F|[T|T]]; [congruence| |].
  - assert (x <> 0) by (intros ->; rewrite Z.bits_0 in T; discriminate).
    assert (Z.log2 (op x y) <= Z.log2 x) by (
      destruct (Z_le_dec (Z.log2 (op x y)) (Z.log2 x)); [lia|];
      rewrite (Z.bits_above_log2 x) in T by lia; discriminate).
    destruct (word_log2 x Hx); lia.
  - assert (y <> 0) by (intros ->; rewrite Z.bits_0 in T; discriminate).
    assert (Z.log2 (op x y) <= Z.log2 y) by (
      destruct (Z_le_dec (Z.log2 (op x y)) (Z.log2 y)); [lia|];
      rewrite (Z.bits_above_log2 y) in T by lia; discriminate).
    destruct (word_log2 y Hy); lia.
Qed.

Lemma lor_range x y : inw x -> inw y -> inw (Z.lor x y).
Proof.
  intros Hx Hy. apply bitop_range; auto.
  - intros n. rewrite Z.lor_spec. destruct (Z.testbit x n), (Z.testbit y n); auto.
  - apply Z.lor_nonneg; unfold inw in *; lia.
Qed.
Lemma land_range x y : inw x -> inw y -> inw (Z.land x y).
Proof.
  intros Hx Hy. apply bitop_range; auto.
  - intros n. rewrite Z.land_spec. destruct (Z.testbit x n), (Z.testbit y n); auto.
  - apply Z.land_nonneg; unfold inw in *; lia.
Qed.
Lemma lxor_range x y : inw x -> inw y -> inw (Z.lxor x y).
Proof.
  intros Hx Hy. apply bitop_range; auto.
  - intros n. rewrite Z.lxor_spec. destruct (Z.testbit x n), (Z.testbit y n); auto.
  - apply Z.lxor_nonneg; unfold inw in *; lia.
Qed.

Lemma word_bits x n : inw x -> Z.testbit x n = (n <? 256) && Z.testbit x n.
Proof.
  unfold inw; intros H. rewrite <- (Z.testbit_mod_pow2 x 256 n) by lia. rewrite pow256.
  rewrite Z.mod_small by lia. reflexivity.
Qed.

Lemma lxor_max x : inw x -> Z.lxor (Z.ones 256) x = W - 1 - x.
Proof.
  intros H.
  assert (L: Z.land x (Z.lxor (Z.ones 256) x) = 0).
  { apply Z.bits_inj'. intros n Hn. rewrite Z.land_spec, Z.lxor_spec, Z.bits_0.
    rewrite (word_bits x n H), Z.testbit_ones_nonneg by lia.
    destruct (Z.testbit x n), (n <? 256); reflexivity. }
  apply Z.add_nocarry_lxor in L.
  assert (X: Z.lxor x (Z.lxor (Z.ones 256) x) = Z.ones 256).
  { apply Z.bits_inj'. intros n Hn. rewrite !Z.lxor_spec.
    destruct (Z.testbit x n), (Z.testbit (Z.ones 256) n); reflexivity. }
  rewrite X in L. change (Z.ones 256) with (W - 1) in L at 2. lia.
Qed.

Lemma MAXU_ones : MAXU = Z.ones 256. Proof. reflexivity. Qed.

(* ---- range of every operation ---- *)
Lemma b2z_range c : inw (Word256.b2z c).
Proof. destruct c; unfold inw, Word256.b2z; wl. Qed.

Lemma pow2_pos k : 0 <= k -> 0 < 2 ^ k.
Proof. intros. apply Z.pow_pos_nonneg; lia. Qed.

Lemma div_le_self a b : 0 <= a -> 0 < b -> 0 <= a / b <= a.
Proof.
  intros Ha Hb. split; [apply Z.div_pos; lia|].
  apply Z.div_le_upper_bound; nia.
Qed.

Lemma bop_sem_range o a b : inw a -> inw b -> inw (bop_sem o a b).
Proof.
  intros Ha Hb. pose proof Ha as Ha'. pose proof Hb as Hb'. unfold inw in Ha', Hb'.
  destruct o; cbn [bop_sem];
    unfold w_add, w_sub, w_mul, w_div, w_mod, w_sdiv, w_smod, w_eq, w_lt, w_gt, w_slt, w_sgt,
           w_iszero, w_or, w_and, w_xor, w_shl, w_shr, w_sar, of_signed;
    try apply b2z_range;
    try (apply Z.mod_pos_bound; wl).
  - (* div *) destruct (b =? 0) eqn:E; [unfold inw; wl|]. apply Z.eqb_neq in E.
    pose proof (div_le_self a b ltac:(lia) ltac:(lia)). unfold inw; lia.
  - (* sdiv *) destruct (b =? 0); [unfold inw; wl | apply Z.mod_pos_bound; wl].
  - (* mod *) destruct (b =? 0) eqn:E; [unfold inw; wl|]. apply Z.eqb_neq in E.
    pose proof (Z.mod_pos_bound a b ltac:(lia)). unfold inw; lia.
  - (* smod *) destruct (b =? 0); [unfold inw; wl | apply Z.mod_pos_bound; wl].
  - (* exp *) rewrite w_exp_eq by lia. unfold w_exp_spec. apply Z.mod_pos_bound; wl.
  - apply lor_range; auto.
  - apply land_range; auto.
  - apply lxor_range; auto.
  - (* shl *) destruct (a <? 256); [apply Z.mod_pos_bound; wl | unfold inw; wl].
  - (* shr *) destruct (a <? 256) eqn:E; [|unfold inw; wl].
    pose proof (div_le_self b (2 ^ a) ltac:(lia) (pow2_pos a ltac:(lia))). unfold inw; lia.
  - (* sar *) destruct (a <? 256); [apply Z.mod_pos_bound; wl|].
    destruct (to_signed b <? 0); unfold inw; wl.
Qed.

Lemma uop_sem_range o a : inw a -> inw (uop_sem o a).
Proof.
  intros Ha. destruct o; cbn [uop_sem].
  - apply b2z_range.
  - unfold w_not, inw in *. wl.
Qed.

Lemma ceil32_sem_range a : inw a -> inw (ceil32_sem a).
Proof.
  intros Ha. unfold ceil32_sem, w_and. apply land_range.
  - unfold w_add, inw. apply Z.mod_pos_bound. wl.
  - unfold w_not, inw. wl.
Qed.
