(* C15 round 3b: what the height check of LowerFlow.v means for execution.  A small-step machine over the emitted
   assembly (pc + stack of values / label references; PUSHLABEL pushes a label reference, JUMP / JUMPI consume one and
   continue at the position of that label; every other opcode is an arbitrary stack function that respects its
   arity).  If `flow E code (Live 0 None)` succeeds then in EVERY reachable machine state the stack depth is exactly
   base + the statically tracked height of that pc (base = 0 until a block that is entered from any height, i.e. the
   shared revert block), no instruction ever finds fewer operands than it needs, and every jump lands on a label whose
   assigned height is the depth at that moment. *)
From Coq Require Import ZArith Bool List String Lia PeanoNat.
From Verif Require Import Base.PyInt C15.Syntax C15.GenUtils C15.Peephole C15.Lower C15.LowerFlow.
Import ListNotations.
Open Scope nat_scope.

Section Machine.
Variable V : Type.                                   (*section*)
Inductive sv := SV (v : V) | SL (l : string).
Variable exec : string -> list sv -> option (list sv).   (*section*)
Variable ofs : string -> Z -> sv.                    (*section*)
Variable truthy : sv -> bool.                        (*section*)
(* opcodes consume and produce what their stack effect says *)
Hypothesis exec_arity : forall o stk stk' i k, exec o stk = Some stk' -> effect o = Some (i, k) ->   (*section*)
  i <= List.length stk /\ List.length stk' = List.length stk - i + k.

Fixpoint pos (l : string) (code : list item) : option nat :=
  match code with
  | [] => None
  | Lbl x :: t => if String.eqb x l then Some 0 else option_map S (pos l t)
  | _ :: t => option_map S (pos l t)
  end.
Lemma pos_nth l code p : pos l code = Some p -> nth_error code p = Some (Lbl l).
Proof.
  revert p. induction code as [|it t IH]; intros p H; cbn [pos] in H; [discriminate|].
  assert (G: option_map S (pos l t) = Some p -> nth_error (it :: t) p = Some (Lbl l)).
  { destruct (pos l t) as [q|]; [|discriminate]. intros Q. inversion Q; subst. cbn. apply IH. reflexivity. }
  destruct it; try (apply G; exact H).
  destruct (String.eqb l0 l) eqn:E; [|apply G; exact H]. apply String.eqb_eq in E. subst. inversion H; subst. reflexivity.
Qed.

Definition mstep (code : list item) (pc : nat) (stk : list sv) : option (nat * list sv) :=
  match nth_error code pc with
  | Some (Lbl _) | Some (Imm _) => Some (S pc, stk)
  | Some (PushLbl l) => Some (S pc, SL l :: stk)
  | Some (PushOfst l n) => Some (S pc, ofs l n :: stk)
  | Some (Op o) =>
      if String.eqb o "JUMP" then
        match stk with SL l :: r => option_map (fun p => (p, r)) (pos l code) | _ => None end
      else if String.eqb o "JUMPI" then
        match stk with
        | SL l :: c :: r => if truthy c then option_map (fun p => (p, r)) (pos l code) else Some (S pc, r)
        | _ => None
        end
      else if terminal o then None
      else match exec o stk with Some stk' => Some (S pc, stk') | None => None end
  | _ => None
  end.

Variable E : lenv.          (*section*)
Variable code : list item.  (*section*)
Hypothesis typed : exists fin, flow E code (Live 0 None) = Some fin.   (*section*)

Definition pre (pc : nat) : option hst := flow E (firstn pc code) (Live 0 None).

Lemma firstn_snoc {A} (l : list A) n x : nth_error l n = Some x -> firstn (S n) l = (firstn n l ++ [x])%list.
Proof.
  revert n. induction l as [|a t IH]; intros n H; [destruct n; discriminate|].
  destruct n as [|n]; cbn in *; [inversion H; reflexivity|]. f_equal. apply IH. exact H.
Qed.
Lemma pre_some pc : pc <= List.length code -> exists st, pre pc = Some st.
Proof.
  intros L. destruct typed as (fin & T). unfold pre.
  rewrite <- (firstn_skipn pc code), flow_app in T. destruct (flow E (firstn pc code) (Live 0 None)) as [st|]; [eauto | discriminate].
Qed.
Lemma pre_step pc it : nth_error code pc = Some it ->
  exists st st', pre pc = Some st /\ step E it st = Some st' /\ pre (S pc) = Some st'.
Proof.
  intros N. assert (L: S pc <= List.length code) by (apply Nat.le_succ_l; apply nth_error_Some; congruence).
  destruct (pre_some (S pc) L) as (st' & P'). unfold pre in *. rewrite (firstn_snoc _ _ _ N), flow_app in P'.
  destruct (flow E (firstn pc code) (Live 0 None)) as [st|] eqn:P; [|discriminate].
  cbn [flow] in P'. destruct (step E it st) as [s1|] eqn:ST; [|discriminate]. inversion P'; subst s1.
  exists st, st'. split; [reflexivity|]. split; [exact ST|].
  rewrite (firstn_snoc _ _ _ N), flow_app, P. cbn [flow]. rewrite ST. reflexivity.
Qed.

(* the invariant; base is ghost *)
Definition topc (top : option string) (stk : list sv) : Prop :=
  match top with Some l => exists r, stk = SL l :: r | None => True end.
Definition InvA (pc : nat) (stk : list sv) (base : nat) : Prop :=
  exists h top, pre pc = Some (Live h top) /\ List.length stk = base + h /\ topc top stk.
Definition InvB (pc : nat) (stk : list sv) (base : nat) : Prop :=
  exists l, nth_error code pc = Some (Lbl l) /\
            match assoc l E with Some (Some hl) => List.length stk = base + hl | Some None => True | None => False end.
Definition Inv (pc : nat) (stk : list sv) (base : nat) : Prop := InvA pc stk base \/ InvB pc stk base.

(* ghost update of the base: a block entered from any height restarts the bookkeeping *)
Definition base' (pc : nat) (stk : list sv) (base : nat) : nat :=
  match nth_error code pc with
  | Some (Lbl l) => match assoc l E with Some None => List.length stk | _ => base end
  | _ => base
  end.

Lemma jump_target l p r base h : pos l code = Some p -> target_ok E l h = true -> List.length r = base + h -> InvB p r base.
Proof.
  intros P T L. exists l. split; [apply pos_nth; exact P|]. unfold target_ok in T.
  destruct (assoc l E) as [[hl|]|]; [|exact I|discriminate]. apply Nat.eqb_eq in T. subst. exact L.
Qed.

Theorem step_inv pc stk base pc' stk' : Inv pc stk base -> mstep code pc stk = Some (pc', stk') ->
  Inv pc' stk' (base' pc stk base).
Proof.
  intros IN MS. unfold mstep in MS. destruct (nth_error code pc) as [it|] eqn:N; [|discriminate].
  destruct (pre_step pc it N) as (st & st1 & P & ST & P1). unfold base'. rewrite N.
  destruct IN as [(h & top & PA & LN & TC)|(l & NB & LB)].
  - rewrite PA in P. inversion P; subst st. clear P.
    destruct it as [o|n|l|l|l n|?|?|?]; try discriminate.
    + (* Op *)
      cbn [step] in ST. destruct (effect o) as [[i k]|] eqn:Ef; [|discriminate].
      destruct (Nat.ltb h i) eqn:Lt; [discriminate|]. apply Nat.ltb_ge in Lt.
      destruct (String.eqb o "JUMP") eqn:J1.
      { destruct top as [l|]; [|discriminate]. destruct (target_ok E l (h - 1)) eqn:T; [|discriminate].
        destruct TC as (r & ->). destruct (pos l code) as [p|] eqn:Pl; [|discriminate]. inversion MS; subst.
        right. eapply jump_target; eauto. apply String.eqb_eq in J1. subst o. vm_compute in Ef. inversion Ef; subst.
        cbn [List.length] in LN. lia. }
      destruct (String.eqb o "JUMPI") eqn:J2.
      { destruct top as [l|]; [|discriminate]. destruct (target_ok E l (h - 2)) eqn:T; [|discriminate].
        destruct TC as (r0 & ->). apply String.eqb_eq in J2. subst o. vm_compute in Ef. inversion Ef; subst.
        destruct r0 as [|c r]; [cbn in LN; lia|]. cbn [List.length] in LN. inversion ST; subst st1.
        destruct (truthy c).
        - destruct (pos l code) as [p|] eqn:Pl; [|discriminate]. inversion MS; subst. right. eapply jump_target; eauto. lia.
        - inversion MS; subst. left. exists (h - 2), None. split; [exact P1|]. split; [lia | exact I]. }
      destruct (terminal o); [discriminate|].
      destruct (exec o stk) as [s2|] eqn:EX; [|discriminate]. inversion MS; subst. inversion ST; subst st1.
      destruct (exec_arity _ _ _ _ _ EX Ef) as (A1 & A2). left. exists (h - i + k), None. split; [exact P1|]. split; [lia | exact I].
    + (* Imm *) inversion MS; subst. cbn [step] in ST. inversion ST; subst. left. exists h, top. auto.
    + (* Lbl *) inversion MS; subst. cbn [step] in ST. destruct (assoc l E) as [[hl|]|] eqn:AL; [| |discriminate].
      * destruct (Nat.eqb h hl) eqn:Q; [|discriminate]. apply Nat.eqb_eq in Q. subst hl. inversion ST; subst.
        left. exists h, None. split; [exact P1|]. split; [exact LN | exact I].
      * inversion ST; subst. left. exists 0, None. split; [exact P1|]. split; [lia | exact I].
    + (* PushLbl *) inversion MS; subst. cbn [step] in ST. inversion ST; subst. left. exists (S h), (Some l).
      split; [exact P1|]. split; [cbn; lia | eexists; reflexivity].
    + (* PushOfst *) inversion MS; subst. cbn [step] in ST. inversion ST; subst. left. exists (S h), None.
      split; [exact P1|]. split; [cbn; lia | exact I].
  - (* arrived at a label by a jump *)
    rewrite N in NB. inversion NB; subst it. inversion MS; subst. cbn [step] in ST.
    destruct (assoc l E) as [[hl|]|] eqn:AL; [| |contradiction].
    + left. exists hl, None. split; [|split; [exact LB | exact I]].
      destruct st as [|h0 t0]; [inversion ST; subst; exact P1|]. destruct (Nat.eqb h0 hl); [|discriminate]. inversion ST; subst. exact P1.
    + inversion ST; subst. left. exists 0, None. split; [exact P1|]. split; [lia | exact I].
Qed.

(* executions *)
Fixpoint run (n : nat) (pc : nat) (stk : list sv) (base : nat) : option (nat * list sv * nat) :=
  match n with
  | O => Some (pc, stk, base)
  | S m => match mstep code pc stk with
           | Some (pc', stk') => run m pc' stk' (base' pc stk base)
           | None => None
           end
  end.
Theorem run_inv n : forall pc stk base pc' stk' b', Inv pc stk base -> run n pc stk base = Some (pc', stk', b') -> Inv pc' stk' b'.
Proof.
  induction n as [|n IH]; intros pc stk base pc' stk' b' IN R; cbn [run] in R; [inversion R; subst; exact IN|].
  destruct (mstep code pc stk) as [[p1 s1]|] eqn:MS; [|discriminate]. eapply IH; [|exact R]. eapply step_inv; eauto.
Qed.
Lemma inv_start : Inv 0 [] 0.
Proof. left. exists 0, None. split; [reflexivity|]. split; [reflexivity | exact I]. Qed.

(* in a reachable state no instruction finds fewer operands than it needs (within the tracked frame) *)
Theorem no_underflow n pc stk base o i k :
  run n 0 [] 0 = Some (pc, stk, base) -> nth_error code pc = Some (Op o) -> effect o = Some (i, k) ->
  exists h top, pre pc = Some (Live h top) /\ List.length stk = base + h /\ i <= h.
Proof.
  intros R N Ef. destruct (run_inv n _ _ _ _ _ _ inv_start R) as [(h & top & PA & LN & TC)|(l & NB & _)]; [|congruence].
  exists h, top. split; [exact PA|]. split; [exact LN|].
  destruct (pre_step pc _ N) as (st & st1 & P & ST & _). rewrite PA in P. inversion P; subst st.
  cbn [step] in ST. rewrite Ef in ST. destruct (Nat.ltb h i) eqn:Lt; [discriminate|]. apply Nat.ltb_ge in Lt. exact Lt.
Qed.
End Machine.
