(* C15 round 3: model of vyper/ir/compile_ir.py:_IRnodeLowerer._step_r (IR -> assembly) for the node kinds
   literal, with-variable, EVM opcode, with, set, seq, pass, if (2/3), assert, assert_unreachable, the pseudo-ops
   le ge sle sge ne ceil32 and select, and (round 3b) the control-flow kinds repeat / break / continue / cleanup_repeat /
   goto / djump / symbol / label / unique_symbol / exit_to (CodegenPanic) / sha3_64 / dload / dloadbytes / data; everything else is
   declined (Err TypeErr).  No proofs here.
   State: the symbol counter of mksymbol, the shared revert label of _assert_false, existing_labels; `lh` is a ghost
   field (not part of the real lowerer): the stack height at which each generated label is placed (None: any height).
   Arguments: wa = withargs, bd = break_dest (exit label, continue label, height). *)
From Coq Require Import ZArith Bool List String Ascii DecimalString.
From Verif Require Import Base.Word256 Base.PyInt C15.Syntax C15.GenUtils C15.Peephole.
Import ListNotations.
Open Scope Z_scope.

Definition nat_str (n : nat) : string := NilZero.string_of_uint (Nat.to_uint n).
Definition up_ascii (c : ascii) : ascii :=
  let n := nat_of_ascii c in if (Nat.leb 97 n && Nat.leb n 122)%bool then ascii_of_nat (n - 32) else c.
Fixpoint upper (s : string) : string :=
  match s with EmptyString => EmptyString | String c t => String (up_ascii c) (upper t) end.
Fixpoint assoc {A} (k : string) (l : list (string * A)) : option A :=
  match l with [] => None | (x, v) :: t => if String.eqb x k then Some v else assoc k t end.

(* IRnode.__eq__ on from_list trees: value and args *)
Fixpoint expr_eqb (a b : expr) : bool :=
  match a, b with
  | Lit x, Lit y => x =? y
  | Var x, Var y => String.eqb x y
  | Node o1 l1, Node o2 l2 =>
      String.eqb o1 o2 &&
      (fix go (l1 l2 : list expr) : bool :=
         match l1, l2 with
         | [], [] => true
         | x :: t, y :: u => expr_eqb x y && go t u
         | _, _ => false
         end) l1 l2
  | _, _ => false
  end.

(* IRnode.valency *)
Fixpoint valency (e : expr) : nat :=
  match e with
  | Lit _ | Var _ => 1
  | Node op args =>
      match assoc (upper op) ir_opcodes with
      | Some (_, outs) => outs
      | None =>
          if String.eqb op "if" then match args with _ :: t :: _ => valency t | _ => 0 end
          else if String.eqb op "with" then match args with [_; _; b] => valency b | _ => 0 end
          else if String.eqb op "seq" then
            (fix last (l : list expr) : nat := match l with [] => 0 | [x] => valency x | _ :: t => last t end) args
          else if existsb (String.eqb op) ["repeat"; "goto"; "exit_to"; "label"; "unique_symbol"; "var_list"; "deploy"]%string
          then 0
          else 1
      end
  end%nat.

(* PUSH(x) *)
Fixpoint bytes_of (fuel : nat) (x : Z) (acc : list Z) : list Z :=
  match fuel with
  | O => acc
  | S f => if x >? 0 then bytes_of f (x / 256) (x mod 256 :: acc) else acc
  end.
Definition push (x : Z) : list item :=
  let bs := bytes_of 33 x [] in
  Op ("PUSH" ++ nat_str (List.length bs)) :: map Imm bs.

Record lst := { cnt : nat; revl : option string; labels : list string; lh : list (string * option nat);
                dsegs : list (list item) }.   (* data_segments, most recent first *)
Definition mksym (name : string) (ht : option nat) (s : lst) : string * lst :=
  let c := S (cnt s) in let l := (name ++ "_" ++ nat_str c)%string in
  (l, {| cnt := c; revl := revl s; labels := labels s; lh := (l, ht) :: lh s; dsegs := dsegs s |}).
Definition assert_false (s : lst) : list item * lst :=
  match revl s with
  | Some l => ([PushLbl l; Op "JUMPI"], s)
  | None => let '(l, s1) := mksym "revert" None s in
            ([PushLbl l; Op "JUMPI"], {| cnt := cnt s1; revl := Some l; labels := labels s1; lh := lh s1; dsegs := dsegs s1 |})
  end.
(* existing_labels *)
Definition add_label (l : string) (s : lst) : res lst :=
  if existsb (String.eqb l) (labels s) then Err Raised
  else Ok {| cnt := cnt s; revl := revl s; labels := l :: labels s; lh := lh s; dsegs := dsegs s |}.
Definition start_nonzero (e : expr) : bool := match e with Lit 0 => false | _ => true end.
Definition leaf_name (e : expr) : option string := match e with Var x => Some x | Node x [] => Some x | _ => None end.
Definition has (x : string) (wa : list (string * nat)) : bool := match assoc x wa with Some _ => true | None => false end.
Definition pass_ : expr := Node "pass" [].
(* data: a header and bytes items (leaves, opaque here) or (symbol l) items *)
Definition add_seg (seg : list item) (s : lst) : lst :=
  {| cnt := cnt s; revl := revl s; labels := labels s; lh := lh s; dsegs := seg :: dsegs s |}.
Fixpoint data_items (l : list expr) : option (list item) :=
  match l with
  | [] => Some []
  | Var b :: t => option_map (cons (Opaque b)) (data_items t)
  | Node sy [Var x] :: t => if String.eqb sy "symbol" then option_map (cons (DataLbl x)) (data_items t) else None
  | _ => None
  end.

Definition unsupported {A} : res A := Err TypeErr.

(* compile a list of nodes at increasing heights, concatenating (reversed opcode / goto arguments) *)
Fixpoint many_ (rec : nat -> expr -> lst -> res (list item * lst)) (l : list expr) (h : nat) (s : lst)
    : res (list item * lst) :=
  match l with
  | [] => Ok ([], s)
  | x :: t => '(a, s1) <- rec h x s ;; '(b, s2) <- many_ rec t (S h) s1 ;; Ok ((a ++ b)%list, s2)
  end.
(* seq: every valued element but the last (by position) is popped *)
Fixpoint seq_ (rec : expr -> lst -> res (list item * lst)) (l : list expr) (s : lst) : res (list item * lst) :=
  match l with
  | [] => Ok ([], s)
  | x :: t =>
      '(a, s1) <- rec x s ;;
      let p := if Nat.eqb (valency x) 1 && negb (match t with [] => true | _ => false end) then [Op "POP"] else [] in
      '(b, s2) <- seq_ rec t s1 ;; Ok ((a ++ p ++ b)%list, s2)
  end.
(* _data_ofst_of(Label("code_end"), ofst, height) *)
Definition data_ofst_ (rec : nat -> expr -> lst -> res (list item * lst)) (ofst : expr) (hh : nat) (s : lst)
    : res (list item * lst) :=
  match ofst with
  | Lit v => Ok ([PushOfst "code_end" v], s)
  | _ => '(a, s1) <- rec hh ofst s ;; Ok ((a ++ [PushLbl "code_end"; Op "ADD"])%list, s1)
  end.
(* repeat: assert rounds <= rounds_bound; if rounds == 0 goto exit (only when rounds is not the bound itself) *)
Definition bound_check_ (rec : nat -> expr -> lst -> res (list item * lst)) (exit_ : string) (rounds bound : expr)
    (h : nat) (s : lst) : res (list item * lst) :=
  if expr_eqb rounds bound then Ok ([], s) else
    '(ab, t1) <- rec (S (S h)) bound s ;;
    let '(af, t2) := assert_false t1 in
    Ok ((ab ++ [Op "DUP2"; Op "GT"] ++ af ++ [Op "DUP1"; Op "ISZERO"; PushLbl exit_; Op "JUMPI"])%list, t2).
(* label: for arg in reversed(var_args): withargs[arg] = height; height += 1 *)
Fixpoint scope_ (l : list expr) (hh : nat) (acc : list (string * nat)) : option (list (string * nat) * nat) :=
  match l with
  | [] => Some (acc, hh)
  | p :: t => match leaf_name p with Some x => scope_ t (S hh) ((x, hh) :: acc) | None => None end
  end.

Fixpoint lower (fuel : nat) (wa : list (string * nat)) (bd : option (string * string * nat)) (h : nat) (e : expr) (s : lst)
    : res (list item * lst) :=
  match fuel with
  | O => Err OutOfFuel
  | S f =>
    let many := many_ (lower f wa bd) in
    match e with
    | Lit v => if lit_okb v then Ok (push (v mod W), s) else Err AssertFail
    | Var x =>
        if match assoc (upper x) evm_opcodes with Some _ => true | None => false end then Ok ([Op (upper x)], s) else
        match assoc x wa with
        | Some hx => let d := (h - hx)%nat in if Nat.ltb 16 d then Err Raised else Ok ([Op ("DUP" ++ nat_str d)], s)
        | None => Err Raised      (* CompilerPanic: invalid IRnode *)
        end
    | Node op args =>
      if match assoc (upper op) evm_opcodes with Some _ => true | None => false end then
        '(a, s1) <- many (rev args) h s ;; Ok ((a ++ [Op (upper op)])%list, s1)
      else if String.eqb op "set" then
        match args with
        | [Var x; v] =>
            match assoc x wa with
            | Some hx => let d := (h - hx)%nat in
                if Nat.ltb 16 d then Err Raised else
                '(a, s1) <- lower f wa bd h v s ;; Ok ((a ++ [Op ("SWAP" ++ nat_str d); Op "POP"])%list, s1)
            | None => Err Raised
            end
        | _ => Err Raised
        end
      else if String.eqb op "pass" || String.eqb op "dummy" then Ok ([], s)
      else if String.eqb op "if" then
        match args with
        | [c; t] =>
            '(ac, s1) <- lower f wa bd h c s ;;
            let '(lend, s2) := mksym "join" (Some h) s1 in
            '(at_, s3) <- lower f wa bd h t s2 ;;
            Ok ((ac ++ [Op "ISZERO"; PushLbl lend; Op "JUMPI"] ++ at_ ++ [Lbl lend])%list, s3)
        | [c; t; el] =>
            '(ac, s1) <- lower f wa bd h c s ;;
            let '(lmid, s2) := mksym "else" (Some h) s1 in
            let '(lend, s3) := mksym "join" (Some (h + valency t)%nat) s2 in
            '(at_, s4) <- lower f wa bd h t s3 ;;
            '(ae, s5) <- lower f wa bd h el s4 ;;
            Ok ((ac ++ [Op "ISZERO"; PushLbl lmid; Op "JUMPI"] ++ at_ ++ [PushLbl lend; Op "JUMP"; Lbl lmid] ++ ae ++ [Lbl lend])%list, s5)
        | _ => unsupported
        end
      else if String.eqb op "with" then
        match args with
        | [Var x; v; b] =>
            '(av, s1) <- lower f wa bd h v s ;;
            '(ab, s2) <- lower f ((x, h) :: wa) bd (S h) b s1 ;;
            Ok ((av ++ ab ++ (if Nat.eqb (valency b) 0 then [Op "POP"] else [Op "SWAP1"; Op "POP"]))%list, s2)
        | _ => unsupported
        end
      else if String.eqb op "seq" then
                seq_ (lower f wa bd h) args s
      else if String.eqb op "assert_unreachable" then
        match args with
        | [c] => '(ac, s1) <- lower f wa bd h c s ;;
                 let '(lend, s2) := mksym "reachable" (Some h) s1 in
                 Ok ((ac ++ [PushLbl lend; Op "JUMPI"; Op "INVALID"; Lbl lend])%list, s2)
        | _ => unsupported
        end
      else if String.eqb op "assert" then
        match args with
        | [c] => '(ac, s1) <- lower f wa bd h c s ;;
                 let '(af, s2) := assert_false s1 in Ok ((ac ++ [Op "ISZERO"] ++ af)%list, s2)
        | _ => unsupported
        end
      else if String.eqb op "select" then
        match args with
        | [c; a; b] =>
            '(ab, s1) <- lower f wa bd h b s ;; '(aa, s2) <- lower f wa bd (S h) a s1 ;;
            '(ac, s3) <- lower f wa bd (S (S h)) c s2 ;;
            Ok ((ab ++ aa ++ [Op "DUP2"; Op "XOR"] ++ ac ++ [Op "MUL"; Op "XOR"])%list, s3)
        | _ => unsupported
        end
      else
        let cmp (o : string) :=   (* (iszero (o a b)) *)
          match args with
          | [a; b] => '(ab, s1) <- lower f wa bd h b s ;; '(aa, s2) <- lower f wa bd (S h) a s1 ;;
                      Ok ((ab ++ aa ++ [Op o; Op "ISZERO"])%list, s2)
          | _ => unsupported
          end in
        if String.eqb op "le" then cmp "GT" else if String.eqb op "ge" then cmp "LT"
        else if String.eqb op "sle" then cmp "SGT" else if String.eqb op "sge" then cmp "SLT"
        else if String.eqb op "ne" then cmp "EQ"
        else if String.eqb op "ceil32" then
          match args with
          | [x] => (* (and (add x 31) (not 31)) *)
              '(ax, s1) <- lower f wa bd (S (S h)) x s ;;
              Ok ((push 31 ++ [Op "NOT"] ++ push 31 ++ ax ++ [Op "ADD"; Op "AND"])%list, s1)
          | _ => unsupported
          end
        else if String.eqb op "repeat" then
          match args with
          | [Var i; start; rounds; bound; body] =>
              let '(entry, s1) := mksym "loop_start" (Some (S (S h))) s in
              let '(cont, s2) := mksym "loop_continue" (Some (S (S h))) s1 in
              let '(exit_, s3) := mksym "loop_exit" (Some (S (S h))) s2 in
              '(a1, s4) <- lower f wa bd h start s3 ;;
              '(a2, s5) <- lower f wa bd (S h) rounds s4 ;;
              '(a3, s6) <- bound_check_ (lower f wa bd) exit_ rounds bound h s5 ;;
              let a4 := if start_nonzero start then [Op "DUP2"; Op "ADD"] else [] in
              if has i wa then Err Raised else
              '(a5, s7) <- lower f ((i, S h) :: wa) (Some (exit_, cont, S (S h))) (S (S h)) body s6 ;;
              Ok ((a1 ++ a2 ++ a3 ++ a4 ++ [Op "SWAP1"; Lbl entry] ++ a5 ++ repeat (Op "POP") (valency body)
                   ++ [Lbl cont; Op "PUSH1"; Imm 1; Op "ADD"; Op "DUP2"; Op "DUP2"; Op "XOR"; PushLbl entry; Op "JUMPI";
                       Lbl exit_; Op "POP"; Op "POP"])%list, s7)
          | _ => unsupported
          end
        else if String.eqb op "continue" then
          match bd with Some (_, cont, _) => Ok ([PushLbl cont; Op "JUMP"], s) | None => Err Raised end
        else if String.eqb op "break" then
          match bd with
          | Some (exit_, _, bh) => Ok ((repeat (Op "POP") (h - bh) ++ [PushLbl exit_; Op "JUMP"])%list, s)
          | None => Err Raised
          end
        else if String.eqb op "cleanup_repeat" then
          match bd with
          | Some (_, _, bh) =>
              let bh1 := if has "return_buffer" wa then (bh - 1)%nat else bh in
              let bh2 := if has "return_pc" wa then (bh1 - 1)%nat else bh1 in
              (* python: ["POP"] * n is [] for negative n; on nat both subtractions truncate, but -1 then -1 from 0 or 1
                 also gives a non-positive python count *)
              Ok (repeat (Op "POP") bh2, s)
          | None => Err Raised
          end
        else if String.eqb op "goto" then
          match args with
          | Var target :: rest => '(a, s1) <- many (rev rest) h s ;; Ok ((a ++ [PushLbl target; Op "JUMP"])%list, s1)
          | _ => unsupported
          end
        else if String.eqb op "djump" then
          match args with
          | t :: _ => '(a, s1) <- lower f wa bd h t s ;; Ok ((a ++ [Op "JUMP"])%list, s1)
          | _ => Err Raised
          end
        else if String.eqb op "symbol" then
          match args with Var l :: _ => Ok ([PushLbl l], s) | _ => unsupported end
        else if String.eqb op "label" then
          match args with
          | [Var name; Node vl params; body] =>
              if negb (String.eqb vl "var_list") then Err Raised else
              s0 <- add_label name s ;;
              (* new scope: for arg in reversed(var_args): withargs[arg] = height; height += 1 *)
              match scope_ (rev params) 0%nat [] with
              | Some (wa', hh) => '(a, s1) <- lower f wa' bd hh body s0 ;; Ok ((Lbl name :: a)%list, s1)
              | None => unsupported
              end
          | _ => unsupported
          end
        else if String.eqb op "unique_symbol" then
          match args with
          | Var l :: _ => s1 <- add_label l s ;; Ok ([], s1)
          | _ => unsupported
          end
        else if String.eqb op "exit_to" then Err Raised
        else if String.eqb op "data" then
          match args with
          | Var l :: items =>
              match data_items items with Some its => Ok ([], add_seg (DataHdr l :: its) s) | None => unsupported end
          | _ => unsupported
          end
        else if String.eqb op "sha3_64" then
          match args with
          | [a; b] =>
              '(aa, s1) <- lower f wa bd h a s ;; '(ab, s2) <- lower f wa bd (S h) b s1 ;;
              Ok ((aa ++ ab ++ push 32 ++ [Op "MSTORE"] ++ push 0 ++ [Op "MSTORE"] ++ push 64 ++ push 0 ++ [Op "SHA3"])%list, s2)
          | _ => unsupported
          end
        else
        (* _data_ofst_of(Label("code_end"), ofst, height) *)
        let data_ofst := data_ofst_ (lower f wa bd) in
        if String.eqb op "dload" then
          match args with
          | [loc] => '(a, s1) <- data_ofst loc (S h) s ;;
                     Ok ((push 32 ++ a ++ push 0 ++ [Op "CODECOPY"] ++ push 0 ++ [Op "MLOAD"])%list, s1)
          | _ => unsupported
          end
        else if String.eqb op "dloadbytes" then
          match args with
          | [dst; src; len_] =>
              '(a1, s1) <- lower f wa bd h len_ s ;; '(a2, s2) <- data_ofst src (S h) s1 ;;
              '(a3, s3) <- lower f wa bd (S (S h)) dst s2 ;;
              Ok ((a1 ++ a2 ++ a3 ++ [Op "CODECOPY"])%list, s3)
          | _ => unsupported
          end
        else unsupported
    end
  end.

(* _IRnodeLowerer.compile_to_assembly for a tree without data segments *)
Definition lower_top (e : expr) : res (list item) :=
  '(a, s) <- lower 64 [] None 0 e {| cnt := 0; revl := None; labels := []; lh := []; dsegs := [] |} ;;
  Ok (a ++ [Op "STOP"] ++ match revl s with Some l => [Lbl l] ++ push 0 ++ [Op "DUP1"; Op "REVERT"] | None => [] end)%list.
