(* C15 round 3: model of vyper/ir/compile_ir.py:_IRnodeLowerer._step_r (IR -> assembly) for the node kinds
   literal, with-variable, EVM opcode, with, set, seq, pass, if (2/3), assert, assert_unreachable, the pseudo-ops
   le ge sle sge ne ceil32 and select; everything else is declined (Err TypeErr).  No proofs here.
   State: the symbol counter of mksymbol and the shared revert label of _assert_false. *)
From Coq Require Import ZArith Bool List String Ascii DecimalString.
From Verif Require Import Base.Word256 Base.PyInt C15.Syntax C15.GenUtils C15.Peephole.
Import ListNotations.
Open Scope Z_scope.

Definition nat_str (n : nat) : string := NilZero.string_of_uint (Nat.to_uint n).
Definition up_ascii (c : ascii) : ascii :=
  let n := nat_of_ascii c in if (Nat.leb 97 n && Nat.leb n 122)%bool then ascii_of_nat (n - 32) else c.
Fixpoint upper (s : string) : string :=
  match s with EmptyString => EmptyString | String c t => String (up_ascii c) (upper t) end.
Fixpoint assoc {A} (k : string) (l : list (string * A)) : option A :=
  match l with [] => None | (x, v) :: t => if String.eqb x k then Some v else assoc k t end.

(* IRnode.__eq__ on from_list trees: value and args *)
Fixpoint expr_eqb (a b : expr) : bool :=
  match a, b with
  | Lit x, Lit y => x =? y
  | Var x, Var y => String.eqb x y
  | Node o1 l1, Node o2 l2 =>
      String.eqb o1 o2 &&
      (fix go (l1 l2 : list expr) : bool :=
         match l1, l2 with
         | [], [] => true
         | x :: t, y :: u => expr_eqb x y && go t u
         | _, _ => false
         end) l1 l2
  | _, _ => false
  end.

(* IRnode.valency *)
Fixpoint valency (e : expr) : nat :=
  match e with
  | Lit _ | Var _ => 1
  | Node op args =>
      match assoc (upper op) ir_opcodes with
      | Some (_, outs) => outs
      | None =>
          if String.eqb op "if" then match args with _ :: t :: _ => valency t | _ => 0 end
          else if String.eqb op "with" then match args with [_; _; b] => valency b | _ => 0 end
          else if String.eqb op "seq" then
            (fix last (l : list expr) : nat := match l with [] => 0 | [x] => valency x | _ :: t => last t end) args
          else 1
      end
  end%nat.

(* PUSH(x) *)
Fixpoint bytes_of (fuel : nat) (x : Z) (acc : list Z) : list Z :=
  match fuel with
  | O => acc
  | S f => if x >? 0 then bytes_of f (x / 256) (x mod 256 :: acc) else acc
  end.
Definition push (x : Z) : list item :=
  let bs := bytes_of 33 x [] in
  Op ("PUSH" ++ nat_str (List.length bs)) :: map Imm bs.

Record lst := { cnt : nat; revl : option string }.
Definition mksym (name : string) (s : lst) : string * lst :=
  let c := S (cnt s) in ((name ++ "_" ++ nat_str c)%string, {| cnt := c; revl := revl s |}).
Definition assert_false (s : lst) : list item * lst :=
  match revl s with
  | Some l => ([PushLbl l; Op "JUMPI"], s)
  | None => let '(l, s1) := mksym "revert" s in ([PushLbl l; Op "JUMPI"], {| cnt := cnt s1; revl := Some l |})
  end.

Definition unsupported {A} : res A := Err TypeErr.

Fixpoint lower (fuel : nat) (wa : list (string * nat)) (h : nat) (e : expr) (s : lst) : res (list item * lst) :=
  match fuel with
  | O => Err OutOfFuel
  | S f =>
    (* compile a list of nodes at increasing heights, concatenating (used for reversed opcode arguments) *)
    let fix many (l : list expr) (h : nat) (s : lst) : res (list item * lst) :=
      match l with
      | [] => Ok ([], s)
      | x :: t => '(a, s1) <- lower f wa h x s ;; '(b, s2) <- many t (S h) s1 ;; Ok ((a ++ b)%list, s2)
      end in
    match e with
    | Lit v => if lit_okb v then Ok (push (v mod W), s) else Err AssertFail
    | Var x =>
        if match assoc (upper x) evm_opcodes with Some _ => true | None => false end then Ok ([Op (upper x)], s) else
        match assoc x wa with
        | Some hx => let d := (h - hx)%nat in if Nat.ltb 16 d then Err Raised else Ok ([Op ("DUP" ++ nat_str d)], s)
        | None => unsupported
        end
    | Node op args =>
      if match assoc (upper op) evm_opcodes with Some _ => true | None => false end then
        '(a, s1) <- many (rev args) h s ;; Ok ((a ++ [Op (upper op)])%list, s1)
      else if String.eqb op "set" then
        match args with
        | [Var x; v] =>
            match assoc x wa with
            | Some hx => let d := (h - hx)%nat in
                if Nat.ltb 16 d then Err Raised else
                '(a, s1) <- lower f wa h v s ;; Ok ((a ++ [Op ("SWAP" ++ nat_str d); Op "POP"])%list, s1)
            | None => Err Raised
            end
        | _ => Err Raised
        end
      else if String.eqb op "pass" || String.eqb op "dummy" then Ok ([], s)
      else if String.eqb op "if" then
        match args with
        | [c; t] =>
            '(ac, s1) <- lower f wa h c s ;;
            let '(lend, s2) := mksym "join" s1 in
            '(at_, s3) <- lower f wa h t s2 ;;
            Ok ((ac ++ [Op "ISZERO"; PushLbl lend; Op "JUMPI"] ++ at_ ++ [Lbl lend])%list, s3)
        | [c; t; el] =>
            '(ac, s1) <- lower f wa h c s ;;
            let '(lmid, s2) := mksym "else" s1 in
            let '(lend, s3) := mksym "join" s2 in
            '(at_, s4) <- lower f wa h t s3 ;;
            '(ae, s5) <- lower f wa h el s4 ;;
            Ok ((ac ++ [Op "ISZERO"; PushLbl lmid; Op "JUMPI"] ++ at_ ++ [PushLbl lend; Op "JUMP"; Lbl lmid] ++ ae ++ [Lbl lend])%list, s5)
        | _ => unsupported
        end
      else if String.eqb op "with" then
        match args with
        | [Var x; v; b] =>
            '(av, s1) <- lower f wa h v s ;;
            '(ab, s2) <- lower f ((x, h) :: wa) (S h) b s1 ;;
            Ok ((av ++ ab ++ (if Nat.eqb (valency b) 0 then [Op "POP"] else [Op "SWAP1"; Op "POP"]))%list, s2)
        | _ => unsupported
        end
      else if String.eqb op "seq" then
        (* every valued element but the last (by position) is popped *)
        (fix go (l : list expr) (s : lst) : res (list item * lst) :=
           match l with
           | [] => Ok ([], s)
           | x :: t =>
               '(a, s1) <- lower f wa h x s ;;
               let p := if Nat.eqb (valency x) 1 && negb (match t with [] => true | _ => false end) then [Op "POP"] else [] in
               '(b, s2) <- go t s1 ;; Ok ((a ++ p ++ b)%list, s2)
           end) args s
      else if String.eqb op "assert_unreachable" then
        match args with
        | [c] => '(ac, s1) <- lower f wa h c s ;;
                 let '(lend, s2) := mksym "reachable" s1 in
                 Ok ((ac ++ [PushLbl lend; Op "JUMPI"; Op "INVALID"; Lbl lend])%list, s2)
        | _ => unsupported
        end
      else if String.eqb op "assert" then
        match args with
        | [c] => '(ac, s1) <- lower f wa h c s ;;
                 let '(af, s2) := assert_false s1 in Ok ((ac ++ [Op "ISZERO"] ++ af)%list, s2)
        | _ => unsupported
        end
      else if String.eqb op "select" then
        match args with
        | [c; a; b] =>
            '(ab, s1) <- lower f wa h b s ;; '(aa, s2) <- lower f wa (S h) a s1 ;;
            '(ac, s3) <- lower f wa (S (S h)) c s2 ;;
            Ok ((ab ++ aa ++ [Op "DUP2"; Op "XOR"] ++ ac ++ [Op "MUL"; Op "XOR"])%list, s3)
        | _ => unsupported
        end
      else
        let cmp (o : string) :=   (* (iszero (o a b)) *)
          match args with
          | [a; b] => '(ab, s1) <- lower f wa h b s ;; '(aa, s2) <- lower f wa (S h) a s1 ;;
                      Ok ((ab ++ aa ++ [Op o; Op "ISZERO"])%list, s2)
          | _ => unsupported
          end in
        if String.eqb op "le" then cmp "GT" else if String.eqb op "ge" then cmp "LT"
        else if String.eqb op "sle" then cmp "SGT" else if String.eqb op "sge" then cmp "SLT"
        else if String.eqb op "ne" then cmp "EQ"
        else if String.eqb op "ceil32" then
          match args with
          | [x] => (* (and (add x 31) (not 31)) *)
              '(ax, s1) <- lower f wa (S (S h)) x s ;;
              Ok ((push 31 ++ [Op "NOT"] ++ push 31 ++ ax ++ [Op "ADD"; Op "AND"])%list, s1)
          | _ => unsupported
          end
        else unsupported
    end
  end.

(* _IRnodeLowerer.compile_to_assembly for a tree without data segments *)
Definition lower_top (e : expr) : res (list item) :=
  '(a, s) <- lower 64 [] 0 e {| cnt := 0; revl := None |} ;;
  Ok (a ++ [Op "STOP"] ++ match revl s with Some l => [Lbl l] ++ push 0 ++ [Op "DUP1"; Op "REVERT"] | None => [] end)%list.
