(* C15 round 3: correctness of the compile_ir lowering (model Lower.v) for pure expressions: literals, with-variables,
   the arithmetic / comparison / bitwise EVM opcodes, iszero, not, the pseudo-ops le ge sle sge ne ceil32, select,
   with and valued seq.  Executing the emitted assembly on a stack machine leaves exactly the value of the IR
   expression on top of an otherwise unchanged stack: operand order of the reversed argument compilation, DUP
   indices from the height bookkeeping, the SWAP1 POP clean-up of `with`, the POPs of `seq`, the pseudo-op
   expansions and the PUSH encoding are all inside the statement. *)
From Coq Require Import ZArith Bool List String Lia PeanoNat.
From Verif Require Import Base.Word256 Base.PyInt C15.Syntax C15.WordFacts C15.GenUtils C15.Peephole C15.Lower.
Import ListNotations.
Open Scope Z_scope.

(* ---- the stack machine for straight-line code ---- *)
Definition mbin (o : string) : option (Z -> Z -> Z) :=
  assoc o [("ADD", w_add); ("SUB", w_sub); ("MUL", w_mul); ("DIV", w_div); ("SDIV", w_sdiv); ("MOD", w_mod);
           ("SMOD", w_smod); ("EXP", w_exp); ("EQ", w_eq); ("LT", w_lt); ("GT", w_gt); ("SLT", w_slt); ("SGT", w_sgt);
           ("OR", w_or); ("AND", w_and); ("XOR", w_xor); ("SHL", w_shl); ("SHR", w_shr); ("SAR", w_sar)]%string.
Definition mun (o : string) : option (Z -> Z) := assoc o [("ISZERO", w_iszero); ("NOT", w_not)]%string.
Fixpoint imms (k : nat) (code : list item) (acc : Z) : option (Z * list item) :=
  match k with
  | O => Some (acc, code)
  | S k' => match code with Imm b :: t => imms k' t (acc * 256 + b) | _ => None end
  end.
Definition push_names : list string := map (fun k => ("PUSH" ++ nat_str k)%string) (seq 0 33).

Fixpoint mexec (fuel : nat) (code : list item) (stk : list Z) : option (list Z) :=
  match fuel with
  | O => None
  | S f =>
    match code with
    | [] => Some stk
    | Op o :: rest =>
        match index_of o push_names 0 with
        | Some k => match imms k rest 0 with Some (v, rest') => mexec f rest' (v :: stk) | None => None end
        | None =>
        match index_of o dups 0 with
        | Some k => match nth_error stk k with Some v => mexec f rest (v :: stk) | None => None end
        | None =>
          if String.eqb o "SWAP1" then match stk with a :: b :: t => mexec f rest (b :: a :: t) | _ => None end
          else if String.eqb o "POP" then match stk with _ :: t => mexec f rest t | [] => None end
          else match mbin o with
               | Some g => match stk with a :: b :: t => mexec f rest (g a b :: t) | _ => None end
               | None => match mun o with
                         | Some g => match stk with a :: t => mexec f rest (g a :: t) | [] => None end
                         | None => None
                         end
               end
        end end
    | _ => None
    end
  end.
Definition run_code (code : list item) (stk : list Z) : option (list Z) := mexec (S (List.length code)) code stk.

(* ---- pure IR semantics with an environment ---- *)
Fixpoint peval (fuel : nat) (en : list (string * Z)) (e : expr) : option Z :=
  match fuel with
  | O => None
  | S f =>
    match e with
    | Lit v => if lit_okb v then Some (wrap v) else None
    | Var x => assoc x en
    | Node op args =>
        match bop_of_name op, args with
        | Some o, [a; b] =>
            match peval f en a, peval f en b with Some va, Some vb => Some (bop_sem o va vb) | _, _ => None end
        | _, _ =>
          if String.eqb op "iszero" then match args with [a] => option_map w_iszero (peval f en a) | _ => None end
          else if String.eqb op "not" then match args with [a] => option_map w_not (peval f en a) | _ => None end
          else if String.eqb op "ceil32" then match args with [a] => option_map ceil32_sem (peval f en a) | _ => None end
          else if String.eqb op "select" then
            match args with
            | [c; a; b] =>
                match peval f en c, peval f en a, peval f en b with
                | Some vc, Some va, Some vb => Some (w_xor vb (w_mul (w_xor va vb) vc))
                | _, _, _ => None
                end
            | _ => None
            end
          else if String.eqb op "with" then
            match args with
            | [Var x; v; b] =>
                (* a with-variable is not named like an opcode *)
                match assoc (upper x) evm_opcodes, peval f en v with
                | None, Some vv => peval f ((x, vv) :: en) b
                | _, _ => None
                end
            | _ => None
            end
          else None
        end
    end
  end.

(* ---- running code: [runs c stk stk'] = executing c (followed by anything) takes stk to stk' ---- *)
Definition runs (c : list item) (stk stk' : list Z) : Prop :=
  exists n, forall fu rest, mexec (n + fu) (c ++ rest) stk = mexec fu rest stk'.
Lemma runs_nil stk : runs [] stk stk.
Proof. exists 0%nat. reflexivity. Qed.
Lemma runs_app c1 c2 s0 s1 s2 : runs c1 s0 s1 -> runs c2 s1 s2 -> runs (c1 ++ c2) s0 s2.
Proof.
  intros [n1 H1] [n2 H2]. exists (n1 + n2)%nat. intros fu rest.
  rewrite <- app_assoc. rewrite <- Nat.add_assoc. rewrite H1. apply H2.
Qed.

Definition plain_name (o : string) : Prop :=
  index_of o push_names 0 = None /\ index_of o dups 0 = None /\ String.eqb o "SWAP1" = false /\ String.eqb o "POP" = false.
Lemma runs_bin o g a b t : plain_name o -> mbin o = Some g -> runs [Op o] (a :: b :: t) (g a b :: t).
Proof. intros (P1 & P2 & P3 & P4) G. exists 1%nat. intros fu rest. cbn [Nat.add app mexec]. rewrite P1, P2, P3, P4, G. reflexivity. Qed.
Lemma runs_un o g a t : plain_name o -> mbin o = None -> mun o = Some g -> runs [Op o] (a :: t) (g a :: t).
Proof. intros (P1 & P2 & P3 & P4) G1 G2. exists 1%nat. intros fu rest. cbn [Nat.add app mexec]. rewrite P1, P2, P3, P4, G1, G2. reflexivity. Qed.
Lemma runs_swap1 a b t : runs [Op "SWAP1"] (a :: b :: t) (b :: a :: t).
Proof. exists 1%nat. intros fu rest. reflexivity. Qed.
Lemma runs_pop a t : runs [Op "POP"] (a :: t) t.
Proof. exists 1%nat. intros fu rest. reflexivity. Qed.
Lemma runs_dup d stk v : (1 <= d <= 16)%nat -> nth_error stk (d - 1) = Some v ->
  runs [Op ("DUP" ++ nat_str d)] stk (v :: stk).
Proof.
  intros D N. exists 1%nat. intros fu rest. cbn [Nat.add app mexec].
  assert (E: index_of ("DUP" ++ nat_str d) push_names 0 = None /\ index_of ("DUP" ++ nat_str d) dups 0 = Some (d - 1)%nat).
  { do 17 (destruct d as [|d]; [try lia; split; reflexivity|]). lia. }
  destruct E as [E1 E2]. rewrite E1, E2, N. reflexivity.
Qed.

(* PUSH *)
Definition val (bs : list Z) (a : Z) : Z := fold_left (fun acc b => acc * 256 + b) bs a.
Lemma val_shift bs a : val bs a = a * 256 ^ Z.of_nat (List.length bs) + val bs 0.
Proof.
  revert a. induction bs as [|b t IH]; intros a; [cbn; lia|]. cbn [val fold_left List.length].
  fold (val t (a * 256 + b)). fold (val t (0 * 256 + b)). rewrite (IH (a * 256 + b)), (IH (0 * 256 + b)).
  rewrite Nat2Z.inj_succ, Z.pow_succ_r by lia. ring.
Qed.
Lemma imms_val bs rest a : imms (List.length bs) (map Imm bs ++ rest) a = Some (val bs a, rest).
Proof. revert a. induction bs as [|b t IH]; intros a; [reflexivity|]. cbn [List.length map app imms]. rewrite IH. reflexivity. Qed.
Lemma bytes_of_val f : forall x acc, 0 <= x < 256 ^ Z.of_nat f ->
  val (bytes_of f x acc) 0 = x * 256 ^ Z.of_nat (List.length acc) + val acc 0.
Proof.
  induction f as [|f IH]; intros x acc Hx.
  - cbn in Hx. assert (x = 0) by lia. subst. cbn [bytes_of]. lia.
  - cbn [bytes_of]. destruct (x >? 0) eqn:E.
    + rewrite Nat2Z.inj_succ, Z.pow_succ_r in Hx by lia.
      rewrite IH by (split; [apply Z.div_pos; lia | apply Z.div_lt_upper_bound; lia]).
      cbn [List.length]. rewrite Nat2Z.inj_succ, Z.pow_succ_r by lia.
      change (val (x mod 256 :: acc) 0) with (val acc (0 * 256 + x mod 256)). rewrite (val_shift acc (0 * 256 + x mod 256)).
      pose proof (Z.div_mod x 256 ltac:(lia)). nia.
    + rewrite Z.gtb_ltb in E. apply Z.ltb_ge in E. assert (x = 0) by lia. subst. lia.
Qed.
Lemma bytes_of_len f : forall x acc n, 0 <= x < 256 ^ Z.of_nat n ->
  (List.length (bytes_of f x acc) <= n + List.length acc)%nat.
Proof.
  induction f as [|f IH]; intros x acc n Hx; cbn [bytes_of]; [lia|].
  destruct (x >? 0) eqn:E; [|lia]. rewrite Z.gtb_ltb in E. apply Z.ltb_lt in E.
  destruct n as [|n]; [cbn in Hx; lia|].
  rewrite Nat2Z.inj_succ, Z.pow_succ_r in Hx by lia.
  specialize (IH (x / 256) (x mod 256 :: acc) n ltac:(split; [apply Z.div_pos; lia | apply Z.div_lt_upper_bound; lia])).
  cbn [List.length] in IH. lia.
Qed.
Lemma runs_push v stk : 0 <= v < W -> runs (push v) stk (v :: stk).
Proof.
  intros Hv. unfold push. set (bs := bytes_of 33 v []).
  assert (L: (List.length bs <= 32)%nat).
  { pose proof (bytes_of_len 33 v [] 32 ltac:(change (256 ^ Z.of_nat 32) with W; exact Hv)). cbn [List.length] in H. unfold bs. lia. }
  assert (V: val bs 0 = v).
  { unfold bs. rewrite bytes_of_val; [cbn; lia|]. split; [lia|].
    apply Z.lt_trans with W; [lia|]. change W with (256 ^ 32). apply Z.pow_lt_mono_r; lia. }
  exists 1%nat. intros fu rest. cbn [Nat.add app mexec].
  assert (E: index_of ("PUSH" ++ nat_str (List.length bs)) push_names 0 = Some (List.length bs)).
  { generalize dependent (List.length bs). intros k Lk. do 33 (destruct k as [|k]; [reflexivity|]). lia. }
  rewrite E. rewrite imms_val, V. reflexivity.
Qed.

(* ---- the invariant: every variable of the environment sits in the stack slot the lowerer thinks it is in ---- *)
Inductive aligned (stk : list Z) (h : nat) : list (string * nat) -> list (string * Z) -> Prop :=
| al_nil : aligned stk h [] []
| al_cons x hx v wa en :
    (hx < h)%nat -> nth_error stk (h - 1 - hx) = Some v -> assoc (upper x) evm_opcodes = None ->
    aligned stk h wa en -> aligned stk h ((x, hx) :: wa) ((x, v) :: en).
Lemma aligned_lookup stk h wa en x v : aligned stk h wa en -> assoc x en = Some v ->
  exists hx, assoc x wa = Some hx /\ (hx < h)%nat /\ nth_error stk (h - 1 - hx) = Some v /\
             assoc (upper x) evm_opcodes = None.
Proof.
  induction 1 as [|y hy vy wa en L N O A IH]; cbn [assoc]; [discriminate|].
  destruct (String.eqb y x) eqn:E.
  - apply String.eqb_eq in E. subst y. intros H. inversion H; subst. eauto.
  - exact IH.
Qed.
Lemma aligned_push stk h wa en t : aligned stk h wa en -> aligned (t :: stk) (S h) wa en.
Proof.
  induction 1 as [|y hy vy wa en L N O A IH]; constructor; auto.
  replace (S h - 1 - hy)%nat with (S (h - 1 - hy)) by lia. exact N.
Qed.

Lemma bop_of_name_some' s o : bop_of_name s = Some o -> s = bop_name o.
Proof. unfold bop_of_name. intros H. apply find_some in H. destruct H as [_ H]. apply String.eqb_eq in H. auto. Qed.

Ltac norm_assoc H :=
  repeat match type of H with
  | context[assoc (upper ?s) evm_opcodes] =>
      let r := eval vm_compute in (assoc (upper s) evm_opcodes) in
      change (assoc (upper s) evm_opcodes) with r in H
  end.
Ltac sub H x cs s1 E :=
  match type of H with
  | context[lower ?f ?wa ?bd ?h x ?s] => destruct (lower f wa bd h x s) as [[cs s1]|] eqn:E; [|discriminate H]
  end.
Ltac plain := repeat split; reflexivity.

Local Opaque push.

(* a pure valued expression has valency 1 *)
Lemma peval_valency pf : forall en e v, peval pf en e = Some v -> Nat.eqb (valency e) 0 = true -> False.
Proof.
  induction pf as [|pf IH]; intros en e v P V; [discriminate|]. cbn [peval] in P.
  destruct e as [l|x|op args]; try discriminate V.
  destruct (bop_of_name op) as [o|] eqn:EB.
  - apply bop_of_name_some' in EB. subst op. destruct args as [|a [|b [|c r]]]; try (destruct o; discriminate P).
    destruct o; vm_compute in V; discriminate V.
  - assert (Q: forall a, args = [a] -> False \/ True) by auto. clear Q.
    destruct (String.eqb op "iszero") eqn:E1; [apply String.eqb_eq in E1; subst; vm_compute in V; discriminate V|].
    destruct (String.eqb op "not") eqn:E2; [apply String.eqb_eq in E2; subst; vm_compute in V; discriminate V|].
    destruct (String.eqb op "ceil32") eqn:E3; [apply String.eqb_eq in E3; subst; vm_compute in V; discriminate V|].
    destruct (String.eqb op "select") eqn:E4.
    { apply String.eqb_eq in E4. subst. destruct args as [|? [|? ?]]; try discriminate P; vm_compute in V; discriminate V. }
    destruct (String.eqb op "with") eqn:E5.
    { apply String.eqb_eq in E5. subst. destruct args as [|[l|x|o2 a2] [|v0 [|b [|d r]]]]; try discriminate P.
      destruct (assoc (upper x) evm_opcodes); [discriminate P|].
      destruct (peval pf en v0) as [vv|]; [|discriminate P].
      apply (IH _ _ _ P). cbn [valency] in V.
      change (assoc (upper "with") ir_opcodes) with (@None (nat * nat)) in V. cbn in V. exact V. }
    destruct args as [|? [|? ?]]; discriminate P.
Qed.

Theorem lower_pure_sound f : forall wa bd h e s code s' pf en stk v,
  lower f wa bd h e s = Ok (code, s') -> aligned stk h wa en -> List.length stk = h ->
  peval pf en e = Some v -> runs code stk (v :: stk).
Proof.
  induction f as [|f IH]; intros wa bd h e s code s' pf en stk v H A L P; [discriminate|].
  destruct pf as [|pf]; [discriminate|]. cbn [peval] in P.
  destruct e as [l|x|op args].
  - (* literal *) cbn [lower many_] in H. destruct (lit_okb l); [|discriminate]. inversion H; subst. inversion P; subst.
    apply runs_push. unfold wrap. apply Z.mod_pos_bound. unfold W. lia.
  - (* variable *) destruct (aligned_lookup _ _ _ _ _ _ A P) as (hx & Ax & Lx & Nx & Ox).
    cbn [lower many_] in H. rewrite Ox, Ax in H.
    destruct (Nat.ltb 16 (h - hx)) eqn:D; [discriminate|]. apply Nat.ltb_ge in D. inversion H; subst.
    apply runs_dup; [lia|]. replace (List.length stk - hx - 1)%nat with (List.length stk - 1 - hx)%nat by lia. exact Nx.
  - destruct (bop_of_name op) as [o|] eqn:EB.
    + (* binary operators *)
      apply bop_of_name_some' in EB. subst op.
      destruct args as [|a [|b [|c r]]]; try (destruct o; discriminate P).
      destruct (peval pf en a) as [va|] eqn:Pa; [|destruct o; discriminate P].
      destruct (peval pf en b) as [vb|] eqn:Pb; [|destruct o; discriminate P].
      assert (Pv: v = bop_sem o va vb) by (destruct o; inversion P; reflexivity). subst v. clear P.
      assert (SUB: forall cb s1 ca s2, lower f wa bd h b s = Ok (cb, s1) -> lower f wa bd (S h) a s1 = Ok (ca, s2) ->
                runs (cb ++ ca) stk (va :: vb :: stk)).
      { intros cb s1 ca s2 Hb Ha. eapply runs_app.
        - eapply (IH _ _ _ _ _ _ _ _ _ _ _ Hb A L Pb).
        - eapply (IH _ _ _ _ _ _ _ _ _ _ _ Ha (aligned_push _ _ _ _ vb A) ltac:(cbn; lia) Pa). }
      destruct o; cbn [lower many_ bop_name] in H; norm_assoc H; cbn iota in H; cbn [rev app] in H; cbn [many_] in H;
        try (* EVM opcode: arguments in reverse order, then the opcode *)
          (sub H b cb s1 Eb; cbn [bind] in H; sub H a ca s2 Ea; cbn [bind] in H; inversion H; subst; clear H;
           rewrite app_nil_r; eapply runs_app; [eapply SUB; eauto|];
           apply runs_bin; [plain | reflexivity]).
      (* pseudo-ops: (iszero (OP a b)) *)
      all: cbn [String.eqb Ascii.eqb Bool.eqb orb] in H; cbn [bop_sem];
           sub H b cb s1 Eb; cbn [bind] in H; sub H a ca s2 Ea; cbn [bind] in H; inversion H; subst; clear H;
           rewrite app_assoc; eapply runs_app; [eapply SUB; eauto|];
           change [Op ?x; Op "ISZERO"] with ([Op x] ++ [Op "ISZERO"])%list; eapply runs_app;
           [apply runs_bin; [plain | reflexivity] | apply runs_un; [plain | reflexivity | reflexivity]].
    + (* the other node kinds *)
      assert (P': (if String.eqb op "iszero" then match args with [a] => option_map w_iszero (peval pf en a) | _ => None end
            else if String.eqb op "not" then match args with [a] => option_map w_not (peval pf en a) | _ => None end
            else if String.eqb op "ceil32" then match args with [a] => option_map ceil32_sem (peval pf en a) | _ => None end
            else if String.eqb op "select" then
              match args with
              | [c; a; b] => match peval pf en c, peval pf en a, peval pf en b with
                             | Some vc, Some va, Some vb => Some (w_xor vb (w_mul (w_xor va vb) vc)) | _, _, _ => None end
              | _ => None end
            else if String.eqb op "with" then
              match args with
              | [Var x; v0; b] => match assoc (upper x) evm_opcodes, peval pf en v0 with
                                  | None, Some vv => peval pf ((x, vv) :: en) b | _, _ => None end
              | _ => None end
            else None) = Some v) by (destruct args as [|? [|? ?]]; exact P).
      clear P.
      destruct (String.eqb op "iszero") eqn:E1.
      { apply String.eqb_eq in E1. subst op. destruct args as [|a [|b r]]; try discriminate P'.
        destruct (peval pf en a) as [va|] eqn:Pa; [|discriminate P']. inversion P'; subst v.
        cbn [lower many_] in H. norm_assoc H. cbn iota in H. cbn [rev app] in H; cbn [many_] in H.
        sub H a ca s1 Ea. cbn [bind] in H. inversion H; subst. rewrite app_nil_r.
        eapply runs_app; [eapply (IH _ _ _ _ _ _ _ _ _ _ _ Ea A eq_refl Pa)|].
        apply runs_un; [plain | reflexivity | reflexivity]. }
      destruct (String.eqb op "not") eqn:E2.
      { apply String.eqb_eq in E2. subst op. destruct args as [|a [|b r]]; try discriminate P'.
        destruct (peval pf en a) as [va|] eqn:Pa; [|discriminate P']. inversion P'; subst v.
        cbn [lower many_] in H. norm_assoc H. cbn iota in H. cbn [rev app] in H; cbn [many_] in H.
        sub H a ca s1 Ea. cbn [bind] in H. inversion H; subst. rewrite app_nil_r.
        eapply runs_app; [eapply (IH _ _ _ _ _ _ _ _ _ _ _ Ea A eq_refl Pa)|].
        apply runs_un; [plain | reflexivity | reflexivity]. }
      destruct (String.eqb op "ceil32") eqn:E3.
      { apply String.eqb_eq in E3. subst op. destruct args as [|a [|b r]]; try discriminate P'.
        destruct (peval pf en a) as [va|] eqn:Pa; [|discriminate P']. inversion P'; subst v.
        cbn [lower many_] in H. norm_assoc H. cbn iota in H. cbn [String.eqb Ascii.eqb Bool.eqb orb] in H.
        sub H a ca s1 Ea. cbn [bind] in H. inversion H; subst. clear H.
        (* PUSH 31; NOT; PUSH 31; <a>; ADD; AND *)
        eapply runs_app; [apply (runs_push 31 stk); unfold W; lia|].
        eapply (runs_app [Op "NOT"]); [apply runs_un; [plain | reflexivity | reflexivity]|].
        eapply runs_app; [apply (runs_push 31); unfold W; lia|].
        eapply runs_app.
        { eapply (IH _ _ _ _ _ _ _ _ _ _ _ Ea); [|cbn; reflexivity|exact Pa].
          apply aligned_push. apply aligned_push. exact A. }
        eapply (runs_app [Op "ADD"]); [apply runs_bin; [plain | reflexivity]|].
        unfold ceil32_sem. apply runs_bin; [plain | reflexivity]. }
      destruct (String.eqb op "select") eqn:E4.
      { apply String.eqb_eq in E4. subst op. destruct args as [|c [|a [|b [|d r]]]]; try discriminate P'.
        destruct (peval pf en c) as [vc|] eqn:Pc; [|discriminate P'].
        destruct (peval pf en a) as [va|] eqn:Pa; [|discriminate P'].
        destruct (peval pf en b) as [vb|] eqn:Pb; [|discriminate P']. inversion P'; subst v.
        cbn [lower many_] in H. norm_assoc H. cbn iota in H. cbn [String.eqb Ascii.eqb Bool.eqb orb] in H.
        sub H b cb s1 Eb. cbn [bind] in H. sub H a ca s2 Ea. cbn [bind] in H. sub H c cc s3 Ec. cbn [bind] in H.
        inversion H; subst. clear H.
        eapply runs_app; [eapply (IH _ _ _ _ _ _ _ _ _ _ _ Eb A eq_refl Pb)|].
        eapply runs_app; [eapply (IH _ _ _ _ _ _ _ _ _ _ _ Ea (aligned_push _ _ _ _ vb A) ltac:(cbn; reflexivity) Pa)|].
        eapply (runs_app [Op ("DUP" ++ nat_str 2)]); [apply (runs_dup 2 (va :: vb :: stk) vb); [lia | reflexivity]|].
        eapply (runs_app [Op "XOR"]); [apply runs_bin; [plain | reflexivity]|].
        eapply runs_app.
        { eapply (IH _ _ _ _ _ _ _ _ _ _ _ Ec); [|cbn; reflexivity|exact Pc].
          apply aligned_push. apply aligned_push. exact A. }
        eapply (runs_app [Op "MUL"]); [apply runs_bin; [plain | reflexivity]|].
        (* stack: (vc * (vb xor va)) :: vb :: stk ; XOR *)
        replace (w_xor vb (w_mul (w_xor va vb) vc)) with (w_xor (w_mul vc (w_xor vb va)) vb).
        - apply runs_bin; [plain | reflexivity].
        - unfold w_xor, w_mul. rewrite (Z.lxor_comm va vb), (Z.mul_comm vc). apply Z.lxor_comm. }
      destruct (String.eqb op "with") eqn:E5; [|discriminate P'].
      apply String.eqb_eq in E5. subst op.
      destruct args as [|[l|x|o2 a2] [|v0 [|b [|d r]]]]; try discriminate P'.
      destruct (assoc (upper x) evm_opcodes) eqn:Ox; [discriminate P'|].
      destruct (peval pf en v0) as [vv|] eqn:Pv; [|discriminate P'].
      cbn [lower many_] in H. norm_assoc H. cbn iota in H. cbn [String.eqb Ascii.eqb Bool.eqb orb] in H.
      sub H v0 cv s1 Ev. cbn [bind] in H. sub H b cb s2 Eb. cbn [bind] in H. inversion H; subst. clear H.
      eapply runs_app; [eapply (IH _ _ _ _ _ _ _ _ _ _ _ Ev A eq_refl Pv)|].
      eapply runs_app.
      { eapply (IH _ _ _ _ _ _ _ _ _ _ _ Eb); [|cbn; reflexivity|exact P'].
        constructor; [lia | | exact Ox | apply aligned_push; exact A].
        replace (S (List.length stk) - 1 - List.length stk)%nat with 0%nat by lia. reflexivity. }
      (* the body is valued here (it evaluates to v): SWAP1 POP *)
      destruct (Nat.eqb (valency b) 0) eqn:VB.
      * (* a body the lowerer believes to be a statement cannot be a pure valued expression *)
        exfalso. revert VB. apply (peval_valency pf _ _ _ P').
      * eapply (runs_app [Op "SWAP1"]); [apply runs_swap1 | apply runs_pop].
Qed.
