(* C15 part 1: the optimiser's compile-time arithmetic (arith table through the translated
   utils helpers) equals the EVM word operation for every pair of IRnode-legal literals. *)
From Coq Require Import ZArith Bool List String Lia.
From Verif Require Import Base.Word256 Base.PyInt Base.WordLemmas C15.Syntax C15.WordFacts C15.GenUtils C15.Optimizer.
Import ListNotations.
Open Scope Z_scope.

Lemma int_bounds_u : int_bounds false 256 = Ok (0, MAXU). Proof. reflexivity. Qed.
Lemma int_bounds_s : int_bounds true 256 = Ok (MINS, MAXS). Proof. reflexivity. Qed.

Lemma s2u_strict v : MINS <= v < 0 -> signed_to_unsigned v 256 true = Ok (v + W).
Proof.
  intros H. unfold signed_to_unsigned. rewrite int_bounds_s. cbn [bind].
  assert ((MINS <=? v) && (v <=? MAXS) = true) as ->.
  { apply andb_true_intro; split; apply Z.leb_le; wl. }
  cbn [bind]. assert (v <? 0 = true) as -> by (apply Z.ltb_lt; lia).
  unfold py_pow. change (256 <? 0) with false. cbv iota. cbn [bind]. rewrite pow256. reflexivity.
Qed.

Lemma u2s_strict v : 0 <= v <= MAXU -> unsigned_to_signed v 256 true = Ok (to_signed v).
Proof.
  intros H. unfold unsigned_to_signed. rewrite int_bounds_u. cbn [bind].
  assert ((0 <=? v) && (v <=? MAXU) = true) as ->.
  { apply andb_true_intro; split; apply Z.leb_le; lia. }
  cbn [bind]. unfold py_pow. change (256 - 1 <? 0) with false. change (256 <? 0) with false.
  cbv iota. cbn [bind]. change (256 - 1) with 255. rewrite pow255, pow256. unfold to_signed.
  destruct (v >? HALF - 1) eqn:E; rewrite Z.gtb_ltb in E.
  - apply Z.ltb_lt in E. assert (v <? HALF = false) as -> by (apply Z.ltb_ge; lia). reflexivity.
  - apply Z.ltb_ge in E. assert (v <? HALF = true) as -> by (apply Z.ltb_lt; lia). reflexivity.
Qed.

Lemma evm_int_t_u v : lit_ok v -> evm_int_t true v = Ok (wrap v).
Proof.
  intros H. unfold evm_int_t. cbn [andb negb].
  destruct (v <? 0) eqn:E; [apply Z.ltb_lt in E | apply Z.ltb_ge in E].
  - rewrite s2u_strict by wl. rewrite wrap_neg by wl. reflexivity.
  - rewrite wrap_small by wl. reflexivity.
Qed.

Lemma evm_int_t_s v : lit_ok v -> evm_int_t false v = Ok (to_signed (wrap v)).
Proof.
  intros H. unfold evm_int_t. cbn [andb negb]. rewrite pow255.
  destruct (v >? HALF - 1) eqn:E; rewrite Z.gtb_ltb in E.
  - apply Z.ltb_lt in E. rewrite u2s_strict by wl. rewrite wrap_small by wl. reflexivity.
  - apply Z.ltb_ge in E. rewrite to_signed_wrap by wl. reflexivity.
Qed.

(* the pure _evm_int used by the rule conditions agrees with the translated one *)
Lemma evm_int_u v : lit_ok v -> evm_int true v = wrap v.
Proof.
  intros H. unfold evm_int. destruct (v <? 0) eqn:E; [apply Z.ltb_lt in E | apply Z.ltb_ge in E].
  - rewrite wrap_neg by wl. reflexivity.
  - rewrite wrap_small by wl. reflexivity.
Qed.
Lemma evm_int_s v : lit_ok v -> evm_int false v = to_signed (wrap v).
Proof.
  intros H. unfold evm_int. destruct (v >? MAXS) eqn:E; rewrite Z.gtb_ltb in E.
  - apply Z.ltb_lt in E. rewrite wrap_small by wl. unfold to_signed.
    assert (v <? HALF = false) as -> by (apply Z.ltb_ge; wl). reflexivity.
  - apply Z.ltb_ge in E. rewrite to_signed_wrap by wl. reflexivity.
Qed.
Lemma evm_int_t_pure u v : lit_ok v -> evm_int_t u v = Ok (evm_int u v).
Proof.
  intros H. destruct u; [rewrite evm_int_t_u, evm_int_u | rewrite evm_int_t_s, evm_int_s]; auto.
Qed.

Lemma wrap256_u v : _wrap256 v true = Ok (wrap v).
Proof.
  unfold _wrap256, py_pow. change (256 <? 0) with false. cbv iota. cbn [bind]. rewrite pow256.
  unfold py_mod. change (W =? 0) with false. cbv iota. cbn [bind negb]. reflexivity.
Qed.
Lemma wrap256_s v : _wrap256 v false = Ok (to_signed (wrap v)).
Proof.
  unfold _wrap256, py_pow. change (256 <? 0) with false. cbv iota. cbn [bind]. rewrite pow256.
  unfold py_mod. change (W =? 0) with false. cbv iota. cbn [bind negb].
  fold (wrap v). pose proof (wrap_range v) as R. unfold inw in R.
  rewrite u2s_strict by wl. reflexivity.
Qed.

Lemma evm_div_quot x y : evm_div x y = Ok (if y =? 0 then 0 else Z.quot x y).
Proof.
  unfold evm_div. destruct (y =? 0) eqn:E0; [reflexivity|]. pose proof E0 as E; apply Z.eqb_neq in E.
  unfold py_floordiv. assert (Z.abs y =? 0 = false) as -> by (apply Z.eqb_neq; lia). cbn [bind]. f_equal.
  rewrite (Z.quot_div x y) by exact E.
  destruct (x * y <? 0) eqn:S; [apply Z.ltb_lt in S | apply Z.ltb_ge in S].
  - assert (Z.sgn x * Z.sgn y = -1) as -> by nia. reflexivity.
  - destruct (Z.eq_dec x 0) as [->|Hx]; [cbn; lia|].
    assert (Z.sgn x * Z.sgn y = 1) as -> by nia. reflexivity.
Qed.

Lemma evm_mod_rem x y : evm_mod x y = Ok (if y =? 0 then 0 else Z.rem x y).
Proof.
  unfold evm_mod. destruct (y =? 0) eqn:E0; [reflexivity|]. pose proof E0 as E; apply Z.eqb_neq in E.
  unfold py_mod. assert (Z.abs y =? 0 = false) as -> by (apply Z.eqb_neq; lia). cbn [bind]. f_equal.
  rewrite (Z.rem_mod x y) by exact E.
  destruct (x <? 0) eqn:S; [apply Z.ltb_lt in S | apply Z.ltb_ge in S].
  - assert (Z.sgn x = -1) as -> by lia. reflexivity.
  - destruct (Z.eq_dec x 0) as [->|Hx]; [cbn; lia|].
    assert (Z.sgn x = 1) as -> by lia. reflexivity.
Qed.

Lemma evm_pow_ok x y : 0 <= x -> 0 <= y -> evm_pow x y = Ok ((x ^ y) mod W).
Proof.
  intros Hx Hy. unfold evm_pow.
  assert ((x >=? 0) && (y >=? 0) = true) as ->
    by (rewrite !Z.geb_leb; apply andb_true_intro; split; apply Z.leb_le; lia).
  unfold py_pow. change (256 <? 0) with false. cbv iota. cbn [bind]. rewrite pow256.
  unfold py_pow3. assert (y <? 0 = false) as -> by (apply Z.ltb_ge; lia).
  change (W =? 0) with false. cbv iota. rewrite powmod_spec by wl. reflexivity.
Qed.

(* shape of the fold for unsigned / signed table entries *)
Lemma fold_u o fn l r g :
  arith o = Some (fn, true) -> lit_ok l -> lit_ok r ->
  fn (wrap l) (wrap r) = Ok g -> fold o l r = Ok (wrap g).
Proof.
  intros A Hl Hr F. unfold fold. rewrite A, !evm_int_t_u by auto. cbn [bind]. rewrite F. cbn [bind].
  apply wrap256_u.
Qed.
Lemma fold_s o fn l r g :
  arith o = Some (fn, false) -> lit_ok l -> lit_ok r ->
  fn (to_signed (wrap l)) (to_signed (wrap r)) = Ok g -> fold o l r = Ok (to_signed (wrap g)).
Proof.
  intros A Hl Hr F. unfold fold. rewrite A, !evm_int_t_s by auto. cbn [bind]. rewrite F. cbn [bind].
  apply wrap256_s.
Qed.

Lemma lit_ok_word w : inw w -> lit_ok w.
Proof. unfold inw; intros; wl. Qed.
Lemma lit_ok_signed w : inw w -> lit_ok (to_signed w).
Proof. intros H. pose proof (to_signed_range w H). wl. Qed.

Definition fold_ok (o : bop) : Prop :=
  forall l r, lit_ok l -> lit_ok r ->
    exists w, fold o l r = Ok w /\ lit_ok w /\ wrap w = bop_sem o (wrap l) (wrap r).

Ltac fold_unsigned l r Hl Hr g :=
  pose proof (wrap_range l) as Rl; pose proof (wrap_range r) as Rr;
  exists (wrap g); split; [eapply fold_u; [reflexivity | auto | auto | ] | split; [apply lit_ok_word, wrap_range|rewrite wrap_wrap]].
Ltac fold_signed l r Hl Hr g :=
  pose proof (wrap_range l) as Rl; pose proof (wrap_range r) as Rr;
  exists (to_signed (wrap g)); split; [eapply fold_s; [reflexivity | auto | auto | ] |
    split; [apply lit_ok_signed, wrap_range | rewrite wrap_to_signed by apply wrap_range]].

Lemma b2z_b2z c : PyInt.b2z c = Word256.b2z c. Proof. reflexivity. Qed.
Lemma wrap_b2z c : wrap (PyInt.b2z c) = Word256.b2z c. Proof. destruct c; reflexivity. Qed.

Lemma fold_add : fold_ok B_add. Proof. intros l r Hl Hr. fold_unsigned l r Hl Hr (wrap l + wrap r); reflexivity. Qed.
Lemma fold_sub : fold_ok B_sub. Proof. intros l r Hl Hr. fold_unsigned l r Hl Hr (wrap l - wrap r); reflexivity. Qed.
Lemma fold_mul : fold_ok B_mul. Proof. intros l r Hl Hr. fold_unsigned l r Hl Hr (wrap l * wrap r); reflexivity. Qed.
Lemma fold_div : fold_ok B_div.
Proof.
  intros l r Hl Hr. fold_unsigned l r Hl Hr (if wrap r =? 0 then 0 else Z.quot (wrap l) (wrap r)).
  - apply evm_div_quot.
  - cbn [bop_sem]. pose proof (bop_sem_range B_div _ _ Rl Rr) as R. cbn [bop_sem] in R. unfold w_div in *.
    unfold inw in *. destruct (wrap r =? 0) eqn:E; [reflexivity|]. apply Z.eqb_neq in E.
    rewrite Z.quot_div_nonneg by lia. apply wrap_small. exact R.
Qed.
Lemma fold_mod : fold_ok B_mod.
Proof.
  intros l r Hl Hr. fold_unsigned l r Hl Hr (if wrap r =? 0 then 0 else Z.rem (wrap l) (wrap r)).
  - apply evm_mod_rem.
  - cbn [bop_sem]. pose proof (bop_sem_range B_mod _ _ Rl Rr) as R. cbn [bop_sem] in R. unfold w_mod in *.
    unfold inw in *. destruct (wrap r =? 0) eqn:E; [reflexivity|]. apply Z.eqb_neq in E.
    rewrite Z.rem_mod_nonneg by lia. apply wrap_small. exact R.
Qed.
Lemma fold_sdiv : fold_ok B_sdiv.
Proof.
  intros l r Hl Hr. fold_signed l r Hl Hr (if to_signed (wrap r) =? 0 then 0 else Z.quot (to_signed (wrap l)) (to_signed (wrap r))).
  - apply evm_div_quot.
  - cbn [bop_sem]. unfold w_sdiv, of_signed. rewrite to_signed_zero by auto.
    destruct (wrap r =? 0); reflexivity.
Qed.
Lemma fold_smod : fold_ok B_smod.
Proof.
  intros l r Hl Hr. fold_signed l r Hl Hr (if to_signed (wrap r) =? 0 then 0 else Z.rem (to_signed (wrap l)) (to_signed (wrap r))).
  - apply evm_mod_rem.
  - cbn [bop_sem]. unfold w_smod, of_signed. rewrite to_signed_zero by auto.
    destruct (wrap r =? 0); reflexivity.
Qed.
Lemma fold_exp : fold_ok B_exp.
Proof.
  intros l r Hl Hr. fold_unsigned l r Hl Hr ((wrap l ^ wrap r) mod W).
  - unfold inw in *. apply evm_pow_ok; lia.
  - cbn [bop_sem]. unfold inw in *. rewrite w_exp_eq by lia. unfold w_exp_spec. apply wrap_small.
    apply Z.mod_pos_bound. wl.
Qed.
Lemma fold_eq : fold_ok B_eq.
Proof. intros l r Hl Hr. fold_unsigned l r Hl Hr (PyInt.b2z (wrap l =? wrap r)); [reflexivity | apply wrap_b2z]. Qed.
Lemma fold_ne : fold_ok B_ne.
Proof.
  intros l r Hl Hr. fold_unsigned l r Hl Hr (PyInt.b2z (negb (wrap l =? wrap r))); [reflexivity | rewrite wrap_b2z].
  cbn [bop_sem]. unfold w_iszero, w_eq. destruct (wrap l =? wrap r); reflexivity.
Qed.
Lemma fold_lt : fold_ok B_lt.
Proof. intros l r Hl Hr. fold_unsigned l r Hl Hr (PyInt.b2z (wrap l <? wrap r)); [reflexivity | apply wrap_b2z]. Qed.
Lemma fold_gt : fold_ok B_gt.
Proof. intros l r Hl Hr. fold_unsigned l r Hl Hr (PyInt.b2z (wrap l >? wrap r)); [reflexivity | apply wrap_b2z]. Qed.
Lemma fold_le : fold_ok B_le.
Proof.
  intros l r Hl Hr. fold_unsigned l r Hl Hr (PyInt.b2z (wrap l <=? wrap r)); [reflexivity | rewrite wrap_b2z].
  cbn [bop_sem]. unfold w_iszero, w_gt. rewrite Z.gtb_ltb, Z.leb_antisym. destruct (wrap r <? wrap l); reflexivity.
Qed.
Lemma fold_ge : fold_ok B_ge.
Proof.
  intros l r Hl Hr. fold_unsigned l r Hl Hr (PyInt.b2z (wrap l >=? wrap r)); [reflexivity | rewrite wrap_b2z].
  cbn [bop_sem]. unfold w_iszero, w_lt. rewrite Z.geb_leb, Z.leb_antisym. destruct (wrap l <? wrap r); reflexivity.
Qed.
Lemma fold_slt : fold_ok B_slt.
Proof. intros l r Hl Hr. fold_signed l r Hl Hr (PyInt.b2z (to_signed (wrap l) <? to_signed (wrap r))); [reflexivity | apply wrap_b2z]. Qed.
Lemma fold_sgt : fold_ok B_sgt.
Proof. intros l r Hl Hr. fold_signed l r Hl Hr (PyInt.b2z (to_signed (wrap l) >? to_signed (wrap r))); [reflexivity | apply wrap_b2z]. Qed.
Lemma fold_sle : fold_ok B_sle.
Proof.
  intros l r Hl Hr. fold_signed l r Hl Hr (PyInt.b2z (to_signed (wrap l) <=? to_signed (wrap r))); [reflexivity | rewrite wrap_b2z].
  cbn [bop_sem]. unfold w_iszero, w_sgt. rewrite Z.gtb_ltb, Z.leb_antisym.
  destruct (to_signed (wrap r) <? to_signed (wrap l)); reflexivity.
Qed.
Lemma fold_sge : fold_ok B_sge.
Proof.
  intros l r Hl Hr. fold_signed l r Hl Hr (PyInt.b2z (to_signed (wrap l) >=? to_signed (wrap r))); [reflexivity | rewrite wrap_b2z].
  cbn [bop_sem]. unfold w_iszero, w_slt. rewrite Z.geb_leb, Z.leb_antisym.
  destruct (to_signed (wrap l) <? to_signed (wrap r)); reflexivity.
Qed.
Lemma fold_or : fold_ok B_or.
Proof. intros l r Hl Hr. fold_unsigned l r Hl Hr (Z.lor (wrap l) (wrap r)); [reflexivity | apply wrap_small, lor_range; auto]. Qed.
Lemma fold_and : fold_ok B_and.
Proof. intros l r Hl Hr. fold_unsigned l r Hl Hr (Z.land (wrap l) (wrap r)); [reflexivity | apply wrap_small, land_range; auto]. Qed.
Lemma fold_xor : fold_ok B_xor.
Proof. intros l r Hl Hr. fold_unsigned l r Hl Hr (Z.lxor (wrap l) (wrap r)); [reflexivity | apply wrap_small, lxor_range; auto]. Qed.

Theorem arith_fold_sound_all o : arith o <> None -> fold_ok o.
Proof.
  destruct o; intros H; try (exfalso; apply H; reflexivity).
  exact fold_add. exact fold_sub. exact fold_mul. exact fold_div. exact fold_sdiv. exact fold_mod.
  exact fold_smod. exact fold_exp. exact fold_eq. exact fold_ne. exact fold_lt. exact fold_le.
  exact fold_gt. exact fold_ge. exact fold_slt. exact fold_sle. exact fold_sgt. exact fold_sge.
  exact fold_or. exact fold_and. exact fold_xor.
Qed.

(* the table has exactly the 21 binops *)
Lemma arith_keys o : arith o <> None <-> memb o [B_shl; B_shr; B_sar] = false.
Proof. destruct o; cbn; split; intros; congruence. Qed.
