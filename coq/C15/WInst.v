(* C15 extension (session 3): a small concrete state space for SemW.evalW -- word-addressed memory, storage, calldata
   words -- used (1) by the check to execute evalW (vm_compute) on seeded IR programs over with / set / repeat / break /
   continue and compare with the real compile_ir + pyrevm (tools/vlib/c15_semw.py), (2) as the non-vacuity witness of the
   hypotheses of the with/set lowering theorem and of the conservativity theorem (StmtOk, K_ext). *)
From Coq Require Import ZArith Bool List String Lia.
From Verif Require Import Base.Word256 Base.PyInt C15.Syntax C15.GenUtils C15.Peephole C15.Lower C15.SemW.
Import ListNotations.
Open Scope Z_scope.

Definition TSt : Type := (list (Z * Z) * list (Z * Z) * list Z)%type.   (* memory words by byte address, storage, calldata words *)
Definition THl : Type := (string * list Z * TSt)%type.
Fixpoint zget (k : Z) (l : list (Z * Z)) : Z := match l with [] => 0 | (a, v) :: t => if a =? k then v else zget k t end.

(* the opcode on its operand values (first operand first); only aligned accesses are meaningful (the check generates no other) *)
Definition tops (o : string) (vs : list Z) (st : TSt) : outcome TSt THl :=
  let '(m, sto, cd) := st in
  if existsb (String.eqb o) ["STOP"; "RETURN"; "REVERT"; "INVALID"]%string then Halt (o, vs, st) else
  match vs with
  | [a] =>
      if String.eqb o "MLOAD" then Norm (zget a m) st
      else if String.eqb o "SLOAD" then Norm (zget a sto) st
      else if String.eqb o "CALLDATALOAD" then Norm (nth (Z.to_nat (a / 32)) cd 0) st
      else Norm 0 st
  | [a; v] =>
      if String.eqb o "MSTORE" then Norm 0 ((a, v) :: m, sto, cd)
      else if String.eqb o "SSTORE" then Norm 0 (m, (a, v) :: sto, cd)
      else Norm 0 st
  | _ => Norm 0 st
  end.
Definition tden := TSt -> outcome TSt THl.
Fixpoint trun (l : list tden) (acc : list Z) (st : TSt) (k : list Z -> TSt -> outcome TSt THl) : outcome TSt THl :=
  match l with
  | [] => k acc st
  | d :: t => match d st with Norm v st1 => trun t (v :: acc) st1 k | Halt h => Halt h end
  end.
Definition TSem : Sem :=
  {| St := TSt; Hl := THl; getvar := fun _ _ => 0;
     sem_K := fun op ds st => trun (rev ds) [] st (tops (upper op));
     sem_revert := fun st => ("REVERT"%string, [0; 0], st); sem_invalid := fun st => ("INVALID"%string, [], st) |}.

(* what the check compares: status, then (for RETURN) the twelve memory words 0, 32, ..., 352 *)
Definition words (m : list (Z * Z)) : list Z := map (fun k => zget (32 * Z.of_nat k) m) (seq 0 12).
Definition obsW (o : outW TSem) : list Z :=
  match o with
  | HaltW (op, _, (m, _, _)) =>
      if String.eqb op "RETURN" then 1 :: words m else if String.eqb op "STOP" then [3] else [2]
  | NormW _ _ _ => [0]
  | BrkW _ _ => [10]
  | CntW _ _ => [11]
  | FuelW => [12]
  | StuckW => [13]
  end.
Definition runW_obs (e : expr) (cd : list Z) : list Z := obsW (evalW TSem tops e [] ([], [], cd)).
