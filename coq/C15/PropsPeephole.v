(* C15 (part 3): assembly peephole rewrites preserve results (model C15/Peephole.v, tied to
   vyper/evm/assembler/optimizer.py by exact output equality on generated and compiled assemblies). *)
From Coq Require Import ZArith List String Lia.
From Verif Require Import Base.Word256 Base.PyInt C15.Peephole C15.PeepholeSound.
Import ListNotations.
Open Scope Z_scope.

(* The whole _stack_peephole_opts pass: for every semantics of the opcodes it does not look at, every
   assembly whose SWAP* mnemonics are real opcodes, and every stack on which the input runs without
   underflow, the output runs (no new underflow) and leaves the same stack. *)
Theorem stack_peephole_sound :
  forall other l out, swaps_real l -> stack_peephole l = Ok out -> refines other l out.
Proof. exact stack_peephole_pass_sound. Qed.
Print Assumptions stack_peephole_sound.

(* replacing an equivalent window inside straight-line code *)
Theorem window_splice_sound :
  forall other p w w' t, refines other w w' -> refines other (p ++ w ++ t) (p ++ w' ++ t).
Proof. exact refines_window. Qed.

(* ISZERO ISZERO after a 0/1-valued opcode is the identity; before JUMPI it keeps the decision *)
Theorem iszero_chain_sound :
  (forall other a s v t, exec1 other a s = Some (v :: t) -> v = 0 \/ v = 1 ->
     exec other [a; Op "ISZERO"; Op "ISZERO"] s = exec other [a] s) /\
  (forall other o s v t, In o ["LT"; "GT"; "SLT"; "SGT"; "EQ"; "ISZERO"]%string ->
     exec1 other (Op o) s = Some (v :: t) -> v = 0 \/ v = 1) /\
  (forall v, (w_iszero (w_iszero v) =? 0) = (v =? 0)).
Proof. split; [exact iszero_chain_after | split; [exact ret01_modelled | exact iszero_iszero_truthy]]. Qed.
Print Assumptions iszero_chain_sound.

Example peephole_nonvacuous :
  stack_peephole [Op "DUP1"; Op "SWAP2"; Op "SWAP1"; Op "SWAP3"; Op "SWAP3"; Op "SWAP1"; Op "ADD"; Op "POP"]
    = Ok [Op "SWAP1"; Op "DUP2"; Op "ADD"; Op "POP"] /\
  exec (fun _ _ => None) [Op "DUP1"; Op "SWAP2"; Op "SWAP1"] [1; 2; 3] = Some [1; 2; 1; 3].
Proof. split; vm_compute; reflexivity. Qed.
