(* C15 (part 3): assembly peephole rewrites preserve results (model C15/Peephole.v, tied to
   vyper/evm/assembler/optimizer.py by exact output equality on generated and compiled assemblies). *)
From Coq Require Import ZArith List String Lia.
From Verif Require Import Base.Word256 Base.PyInt C15.Peephole C15.PeepholeSound C15.JumpOpt C15.JumpSem C15.JumpSound C15.JumpSound2 C15.JumpSound3.
Import ListNotations.
Open Scope Z_scope.

(* The whole _stack_peephole_opts pass: for every semantics of the opcodes it does not look at, every
   assembly whose SWAP* mnemonics are real opcodes, and every stack on which the input runs without
   underflow, the output runs (no new underflow) and leaves the same stack. *)
Theorem stack_peephole_sound :
  forall other l out, swaps_real l -> stack_peephole l = Ok out -> refines other l out.
Proof. exact stack_peephole_pass_sound. Qed.
Print Assumptions stack_peephole_sound.

(* replacing an equivalent window inside straight-line code *)
Theorem window_splice_sound :
  forall other p w w' t, refines other w w' -> refines other (p ++ w ++ t) (p ++ w' ++ t).
Proof. exact refines_window. Qed.

(* ISZERO ISZERO after a 0/1-valued opcode is the identity; before JUMPI it keeps the decision *)
Theorem iszero_chain_sound :
  (forall other a s v t, exec1 other a s = Some (v :: t) -> v = 0 \/ v = 1 ->
     exec other [a; Op "ISZERO"; Op "ISZERO"] s = exec other [a] s) /\
  (forall other o s v t, In o ["LT"; "GT"; "SLT"; "SGT"; "EQ"; "ISZERO"]%string ->
     exec1 other (Op o) s = Some (v :: t) -> v = 0 \/ v = 1) /\
  (forall v, (w_iszero (w_iszero v) =? 0) = (v =? 0)).
Proof. split; [exact iszero_chain_after | split; [exact ret01_modelled | exact iszero_iszero_truthy]]. Qed.
Print Assumptions iszero_chain_sound.

(* ---- the jump-related passes, on a labelled-program semantics (JumpSem.v: code suffix + stack, jumps look the
   label up in the whole program, label values live on the stack, every other instruction is an arbitrary partial
   stack transformer).  [sound_rel other P P']: whenever P halts (from its start, on a stack without label values),
   P' halts with the same halting instruction and the same observable stack. ---- *)
Theorem prune_unreachable_sound_thm :
  forall other P, sound_rel other P (prune_unreachable P).
Proof. exact prune_unreachable_sound. Qed.
Theorem inefficient_jump_sound :
  forall other P, NoDup (labels P) ->
    sound_rel other P (prune_inefficient_jumps P) /\ sound_rel other P (optimize_inefficient_jumps P).
Proof. intros other P ND. split; [apply prune_inefficient_jumps_sound | apply optimize_inefficient_jumps_sound]; exact ND. Qed.
(* _merge_iszero, pass level; hypothesis: the members of _RETURNS_ZERO_OR_ONE other than ISZERO leave 0 or 1 *)
Theorem merge_iszero_pass_sound :
  forall other,
    (forall o st st', is_ret01 (Op o) = true -> String.eqb o "ISZERO" = false ->
       other (Op o) st = Some st' -> exists v t, st' = SV v :: t /\ (v = 0 \/ v = 1)) ->
    forall P out, merge_iszero P = Ok out -> sound_rel other P out.
Proof. exact merge_iszero_sound. Qed.
(* _merge_jumpdests; hypothesis: instructions do not look at the names of label values *)
Theorem merge_jumpdests_sound_thm :
  forall other,
    (forall x y it st, other it (rs x y st) = option_map (rs x y) (other it st)) ->
    forall P, NoDup (labels P) -> sound_rel other P (snd (merge_jumpdests P)).
Proof. exact merge_jumpdests_sound. Qed.
(* _prune_unused_jumpdests (labels used by PUSHLABEL, PUSH_OFST and data items are kept); hypothesis: a label value
   on the stack was on the stack before or is pushed by the instruction itself *)
Theorem prune_unused_jumpdests_sound_thm :
  forall other P,
    (forall it st st' l, other it st = Some st' -> In (SL l) st' -> In (SL l) st \/ uses l it = true) ->
    sound_rel other P (prune_unused_jumpdests P).
Proof. exact prune_unused_jumpdests_sound. Qed.
Print Assumptions merge_jumpdests_sound_thm.
Print Assumptions prune_unused_jumpdests_sound_thm.

(* optimize_assembly (the fixpoint loop over all seven passes, model JumpOpt.optimize_assembly): whenever the
   assembly halts -- started at its beginning on a stack without label values -- the optimised assembly halts with the
   same halting instruction and the same observable stack.  Hypotheses on the uninterpreted instructions: CALL-like
   members of _RETURNS_ZERO_OR_ONE leave 0/1; label names are not inspected; label values come from the stack or the
   instruction; POP DUP1 DUP2 SWAP1 SWAP2 as in the EVM, every SWAP* is an involution, commutative opcodes commute;
   labels are unique.  [hypotheses_satisfiable] exhibits an instruction semantics meeting all of them. *)
Theorem optimize_assembly_sound_thm :
  forall (other : item -> lstack -> option lstack),
  (forall o st st', is_ret01 (Op o) = true -> String.eqb o "ISZERO" = false ->
     other (Op o) st = Some st' -> exists v t, st' = SV v :: t /\ (v = 0 \/ v = 1)) ->
  (forall x y it st, other it (rs x y st) = option_map (rs x y) (other it st)) ->
  (forall it st st' l, other it st = Some st' -> In (SL l) st' -> In (SL l) st \/ uses l it = true) ->
  (forall st, other (Op "POP") st = match st with _ :: t => Some t | [] => None end) ->
  (forall st, other (Op "DUP1") st = match st with a :: t => Some (a :: a :: t) | [] => None end) ->
  (forall st, other (Op "DUP2") st = match st with a :: b :: t => Some (b :: a :: b :: t) | _ => None end) ->
  (forall st, other (Op "SWAP1") st = lswap 0 st) -> (forall st, other (Op "SWAP2") st = lswap 1 st) ->
  (forall o st st', String.prefix "SWAP" o = true -> other (Op o) st = Some st' -> other (Op o) st' = Some st) ->
  (forall o a b t, is_comm (Op o) = true -> other (Op o) (a :: b :: t) = other (Op o) (b :: a :: t)) ->
  forall l out, NoDup (labels l) -> optimize_assembly l = Ok out -> sound_rel other l out.
Proof. exact optimize_assembly_sound_full. Qed.
Print Assumptions optimize_assembly_sound_thm.
Example optimize_assembly_hypotheses_satisfiable :
  forall l out, NoDup (labels l) -> optimize_assembly l = Ok out -> sound_rel other_inst l out.
Proof. exact hypotheses_satisfiable. Qed.

Example peephole_nonvacuous :
  stack_peephole [Op "DUP1"; Op "SWAP2"; Op "SWAP1"; Op "SWAP3"; Op "SWAP3"; Op "SWAP1"; Op "ADD"; Op "POP"]
    = Ok [Op "SWAP1"; Op "DUP2"; Op "ADD"; Op "POP"] /\
  exec (fun _ _ => None) [Op "DUP1"; Op "SWAP2"; Op "SWAP1"] [1; 2; 3] = Some [1; 2; 1; 3] /\
  optimize_assembly [PushLbl "c"; Op "JUMPI"; PushLbl "x"; Op "JUMP"; Lbl "c"; Op "STOP"; Op "POP"; Lbl "x"; Lbl "y"; Op "INVALID"]
    = Ok [Op "ISZERO"; PushLbl "y"; Op "JUMPI"; Op "STOP"; Lbl "y"; Op "INVALID"] /\
  run (fun _ st => Some st) [PushLbl "a"; Op "JUMP"; Lbl "a"; Op "STOP"] 5
      [PushLbl "a"; Op "JUMP"; Lbl "a"; Op "STOP"] [] = Halted "STOP" [].
Proof. repeat split; vm_compute; reflexivity. Qed.
