(* C15 round 2 (c): the optimize_assembly fixpoint loop -- composition of the per-pass theorems. *)
From Coq Require Import ZArith Bool List String Lia PeanoNat.
From Verif Require Import Base.Word256 Base.PyInt C15.Peephole C15.PeepholeSound C15.JumpOpt C15.JumpSem C15.JumpSound C15.JumpSound2.
Import ListNotations.
Open Scope Z_scope.

(* a pass keeps a sub-sequence of the labels *)
Inductive subseq {A} : list A -> list A -> Prop :=
| ss_nil : subseq [] []
| ss_skip a l l' : subseq l l' -> subseq l (a :: l')
| ss_keep a l l' : subseq l l' -> subseq (a :: l) (a :: l').
Lemma subseq_refl {A} (l : list A) : subseq l l.
Proof. induction l; [apply ss_nil | apply ss_keep; auto]. Qed.
Lemma subseq_trans {A} (a b c : list A) : subseq a b -> subseq b c -> subseq a c.
Proof.
  intros H1 H2. revert a H1. induction H2 as [|x l l' H IH|x l l' H IH]; intros a H1.
  - exact H1.
  - apply ss_skip. apply IH. exact H1.
  - inversion H1; subst.
    + apply ss_skip. apply IH. assumption.
    + apply ss_keep. apply IH. assumption.
Qed.
Lemma subseq_in {A} (a b : list A) x : subseq a b -> In x a -> In x b.
Proof. induction 1; cbn; intros I; auto. destruct I; auto. Qed.
Lemma subseq_nodup {A} (a b : list A) : subseq a b -> NoDup b -> NoDup a.
Proof.
  induction 1 as [|x l l' H IH|x l l' H IH]; intros ND; auto.
  - inversion ND; auto.
  - inversion ND as [|? ? NI ND']; subst. constructor; [|auto]. intros I. apply NI. eapply subseq_in; eauto.
Qed.
Lemma subseq_app {A} (a a' b b' : list A) : subseq a a' -> subseq b b' -> subseq (a ++ b) (a' ++ b').
Proof. induction 1; cbn; intros; [assumption | apply ss_skip; auto | apply ss_keep; auto]. Qed.
Lemma subseq_nil_l {A} (l : list A) : subseq [] l.
Proof. induction l; [apply ss_nil | apply ss_skip; auto]. Qed.

Definition lsub (l l' : list item) : Prop := subseq (labels l) (labels l').
Lemma lsub_refl l : lsub l l. Proof. apply subseq_refl. Qed.
Lemma lsub_trans a b c : lsub a b -> lsub b c -> lsub a c. Proof. apply subseq_trans. Qed.
Lemma lsub_cons a l l' : lsub l l' -> lsub (a :: l) (a :: l').
Proof. unfold lsub. destruct a; cbn; auto. apply ss_keep. Qed.
Lemma lsub_drop a l l' : lsub l l' -> lsub l (a :: l').
Proof. unfold lsub. destruct a; cbn; auto. apply ss_skip. Qed.
Lemma lsub_app p l l' : lsub l l' -> lsub (p ++ l) (p ++ l').
Proof. induction p; cbn; auto using lsub_cons. Qed.

(* whatever T relates keeps a sub-sequence of the labels (windows and dead code contain none) *)
Lemma labels_plain w : forallb plain w = true -> labels w = [].
Proof. induction w as [|a w IH]; [reflexivity|]. cbn [forallb]. intros H. apply andb_true_iff in H. destruct H as [Pa Pw]. destruct a; try discriminate Pa; cbn; auto. Qed.
Lemma T_lsub other P k k' : T other P k k' -> lsub k' k.
Proof.
  induction 1 as [| a k k' HT IHT | w w' k k' Pw Pw' SR HT IHT | l0 k k' HT IHT | a junk k k' TA NJ HT IHT
                  | x k K' FL HT IHT | c x k K' FL HT IHT]; unfold lsub in *.
  - constructor.
  - destruct a; cbn; auto. apply ss_keep. auto.
  - rewrite !labels_app, (labels_plain w Pw), (labels_plain w' Pw'). exact IHT.
  - cbn. exact IHT.
  - destruct (terminal_inv a TA) as (o & -> & _). cbn [labels]. rewrite labels_app.
    apply (subseq_trans _ _ _ IHT). clear. induction (labels junk); cbn; [apply subseq_refl | apply ss_skip; auto].
  - cbn [labels] in *. exact IHT.
  - cbn [labels] in *. exact IHT.
Qed.

Lemma prune_unreachable_lsub l : lsub (prune_unreachable l) l.
Proof. apply (T_lsub (fun _ _ => None) l). apply prune_unreach_T. Qed.
Lemma filter_lsub (f : item -> bool) l : lsub (filter f l) l.
Proof. induction l as [|a l IH]; [apply lsub_refl|]. cbn. destruct (f a); [apply lsub_cons | apply lsub_drop]; exact IH. Qed.
Lemma prune_unused_lsub l : lsub (prune_unused_jumpdests l) l.
Proof. apply filter_lsub. Qed.
Lemma merge_jumpdests_labels l : labels (snd (merge_jumpdests l)) = labels l.
Proof.
  unfold merge_jumpdests. generalize (List.length l) as f, 0%nat as i, false as c. intros f. revert l.
  induction f as [|f IH]; intros l i c; [reflexivity|]. cbn [mj_loop].
  destruct (Nat.ltb (i + 2) (List.length l)); [|reflexivity].
  destruct (nth_error l i) as [[]|]; try apply IH.
  destruct (nth_error l (i + 1)) as [[]|]; try apply IH.
  - destruct (String.eqb l0 l1); [apply IH|]. rewrite IH. apply labels_retarget.
  - destruct (nth_error l (i + 2)) as [[]|]; try apply IH. destruct (String.eqb s "JUMP"); [|apply IH].
    rewrite IH. apply labels_retarget.
Qed.

Lemma mi_loop1_labels fuel : forall pre suf out, mi_loop1 fuel pre suf = Ok out -> labels out = labels (rev pre ++ suf).
Proof.
  induction fuel as [|f IH]; intros pre suf out H; [discriminate|]. cbn [mi_loop1] in H.
  destruct suf as [|a [|b [|c rest]]]; try (inversion H; reflexivity).
  destruct (is_ret01 a && is_op b "ISZERO" && is_op c "ISZERO") eqn:C.
  - apply andb_true_iff in C. destruct C as [C C3]. apply andb_true_iff in C. destruct C as [C1 C2].
    unfold is_op in C2, C3. destruct b; try discriminate C2. destruct c; try discriminate C3. destruct a; try discriminate C1.
    rewrite (IH _ _ _ H). rewrite !labels_app. reflexivity.
  - rewrite (IH _ _ _ H). cbn [rev]. rewrite <- app_assoc. reflexivity.
Qed.
Lemma mi_loop2_labels fuel : forall pre suf out, mi_loop2 fuel pre suf = Ok out -> labels out = labels (rev pre ++ suf).
Proof.
  induction fuel as [|f IH]; intros pre suf out H; [discriminate|]. cbn [mi_loop2] in H.
  destruct suf as [|a [|b [|c [|d rest]]]]; try (inversion H; reflexivity).
  destruct (is_op a "ISZERO" && is_op b "ISZERO" && is_pushlabel c && is_op d "JUMPI") eqn:C.
  - apply andb_true_iff in C. destruct C as [C C4]. apply andb_true_iff in C. destruct C as [C C3].
    apply andb_true_iff in C. destruct C as [C1 C2].
    unfold is_op in C1, C2. destruct a; try discriminate C1. destruct b; try discriminate C2.
    rewrite (IH _ _ _ H). rewrite !labels_app. reflexivity.
  - rewrite (IH _ _ _ H). cbn [rev]. rewrite <- app_assoc. reflexivity.
Qed.
Lemma merge_iszero_labels l out : merge_iszero l = Ok out -> labels out = labels l.
Proof.
  unfold merge_iszero. intros H. destruct (mi_loop1 _ [] l) as [l1|] eqn:E1; [|discriminate]. cbn [bind] in H.
  rewrite (mi_loop2_labels _ _ _ _ H). cbn [rev app]. rewrite (mi_loop1_labels _ _ _ _ E1). reflexivity.
Qed.

Section Compose.
Variable other : item -> lstack -> option lstack. (*section*)
Hypothesis other_01 : forall o st st', is_ret01 (Op o) = true -> String.eqb o "ISZERO" = false -> (*section*)
  other (Op o) st = Some st' -> exists v t, st' = SV v :: t /\ (v = 0 \/ v = 1).
Hypothesis other_equiv : forall x y it st, other it (rs x y st) = option_map (rs x y) (other it st). (*section*)
Hypothesis other_lbl : forall it st st' l, (*section*)
  other it st = Some st' -> In (SL l) st' -> In (SL l) st \/ uses l it = true.
(* the stack peephole pass on this semantics (proved on the plain stack machine in PeepholeSound.v) *)
Hypothesis SP : forall l out, stack_peephole l = Ok out -> sound_rel other l out /\ labels out = labels l. (*section*)

Lemma nodup_eq (a b : list item) : labels a = labels b -> NoDup (labels b) -> NoDup (labels a).
Proof. intros ->. auto. Qed.

Theorem oa_loop_sound fuel : forall l out, NoDup (labels l) -> oa_loop fuel l = Ok out -> sound_rel other l out.
Proof.
  induction fuel as [|f IH]; intros l out ND H; [discriminate|]. cbn [oa_loop] in H.
  set (l1 := prune_unreachable l) in *.
  assert (S1: sound_rel other l l1) by apply prune_unreachable_sound.
  assert (ND1: NoDup (labels l1)) by (eapply subseq_nodup; [apply prune_unreachable_lsub | exact ND]).
  destruct (merge_iszero l1) as [l2|] eqn:E2; [|discriminate]. cbn [bind] in H.
  assert (S2: sound_rel other l1 l2) by (eapply merge_iszero_sound; eauto).
  assert (ND2: NoDup (labels l2)) by (eapply nodup_eq; [eapply merge_iszero_labels; eauto | exact ND1]).
  destruct (merge_jumpdests l2) as [c3 l3] eqn:E3.
  assert (E3': l3 = snd (merge_jumpdests l2)) by (rewrite E3; reflexivity).
  assert (S3: sound_rel other l2 l3) by (subst l3; apply merge_jumpdests_sound; auto).
  assert (ND3: NoDup (labels l3)) by (subst l3; rewrite merge_jumpdests_labels; exact ND2).
  set (l4 := prune_inefficient_jumps l3) in *.
  assert (S4: sound_rel other l3 l4) by (apply prune_inefficient_jumps_sound; exact ND3).
  assert (ND4: NoDup (labels l4)).
  { eapply subseq_nodup; [|exact ND3]. apply (T_lsub other l3). apply (prune_ineff_T other l3 _ ND3 []). reflexivity. }
  set (l5 := optimize_inefficient_jumps l4) in *.
  assert (S5: sound_rel other l4 l5) by (apply optimize_inefficient_jumps_sound; exact ND4).
  assert (ND5: NoDup (labels l5)).
  { eapply subseq_nodup; [|exact ND4]. apply (T_lsub other l4). apply (opt_ineff_T other l4 _ ND4 []). reflexivity. }
  set (l6 := prune_unused_jumpdests l5) in *.
  assert (S6: sound_rel other l5 l6) by (apply prune_unused_jumpdests_sound; exact other_lbl).
  assert (ND6: NoDup (labels l6)) by (eapply subseq_nodup; [apply prune_unused_lsub | exact ND5]).
  destruct (stack_peephole l6) as [l7|] eqn:E7; [|discriminate]. cbn [bind] in H.
  destruct (SP l6 l7 E7) as [S7 L7].
  assert (ND7: NoDup (labels l7)) by (rewrite L7; exact ND6).
  assert (S07: sound_rel other l l7).
  { refine (sound_rel_trans other _ _ _ S1 _). refine (sound_rel_trans other _ _ _ S2 _).
    refine (sound_rel_trans other _ _ _ S3 _). refine (sound_rel_trans other _ _ _ S4 _).
    refine (sound_rel_trans other _ _ _ S5 _). refine (sound_rel_trans other _ _ _ S6 _). exact S7. }
  match type of H with (if ?c then _ else _) = _ => destruct c end.
  - eapply sound_rel_trans; [exact S07 | apply IH; assumption].
  - inversion H; subst. exact S07.
Qed.

(* optimize_assembly: whenever the assembly halts, the optimised assembly halts with the same instruction and the
   same observable stack *)
Theorem optimize_assembly_sound l out :
  NoDup (labels l) -> optimize_assembly l = Ok out -> sound_rel other l out.
Proof. apply oa_loop_sound. Qed.
End Compose.

(* ================= the stack peephole pass on the labelled semantics =================
   hypotheses: the uninterpreted-instruction function implements POP, DUP1, DUP2, SWAP1..16 as the EVM does and the
   commutative opcodes do not depend on the order of their two operands *)
Definition lswap (k : nat) (s : lstack) : option lstack :=
  match s with
  | x :: t => match skipn k t with y :: r => Some (y :: firstn k t ++ x :: r)%list | [] => None end
  | [] => None
  end.
Lemma lswap_invol k s s' : lswap k s = Some s' -> lswap k s' = Some s.
Proof.
  unfold lswap. destruct s as [|x t]; [discriminate|].
  destruct (skipn k t) as [|y r] eqn:E; [discriminate|]. intros H. inversion H; subst s'. clear H.
  assert (L: List.length (firstn k t) = k).
  { apply firstn_length_le. assert (List.length (skipn k t) = (List.length t - k)%nat) by apply skipn_length.
    rewrite E in H. cbn in H. lia. }
  rewrite skipn_app, L, Nat.sub_diag. cbn [skipn].
  rewrite (skipn_all2 (firstn k t)) by lia. cbn [app].
  rewrite firstn_app, L, Nat.sub_diag. cbn [firstn]. rewrite app_nil_r.
  rewrite (firstn_all2 (firstn k t)) by lia.
  rewrite <- E, firstn_skipn. reflexivity.
Qed.

Section SP.
Variable other : item -> lstack -> option lstack. (*section*)
Hypothesis H_pop : forall st, other (Op "POP") st = match st with _ :: t => Some t | [] => None end. (*section*)
Hypothesis H_dup1 : forall st, other (Op "DUP1") st = match st with a :: t => Some (a :: a :: t) | [] => None end. (*section*)
Hypothesis H_dup2 : forall st, other (Op "DUP2") st = match st with a :: b :: t => Some (b :: a :: b :: t) | _ => None end. (*section*)
Hypothesis H_swap1 : forall st, other (Op "SWAP1") st = lswap 0 st. (*section*)
Hypothesis H_swap2 : forall st, other (Op "SWAP2") st = lswap 1 st. (*section*)
(* every SWAP* mnemonic exchanges two stack slots: applying it twice restores the stack *)
Hypothesis H_swapinv : forall o st st', String.prefix "SWAP" o = true -> (*section*)
  other (Op o) st = Some st' -> other (Op o) st' = Some st.
Hypothesis H_comm : forall o a b t, is_comm (Op o) = true -> other (Op o) (a :: b :: t) = other (Op o) (b :: a :: t). (*section*)


Lemma w_dup1_swap2_swap1 : srefines other [Op "DUP1"; Op "SWAP2"; Op "SWAP1"] [Op "SWAP1"; Op "DUP2"].
Proof.
  intros st r. cbn [sexec]. cbn [String.eqb Ascii.eqb Bool.eqb]. rewrite H_dup1, H_swap1.
  destruct st as [|a [|b t]]; cbn; try discriminate.
  - rewrite H_swap2. cbn. discriminate.
  - rewrite H_swap2. cbn. rewrite H_swap1, H_dup2. cbn. auto.
Qed.
Lemma w_dup1_swap1_pop : srefines other [Op "DUP1"; Op "SWAP1"; Op "POP"] [].
Proof.
  intros st r. cbn [sexec]. cbn [String.eqb Ascii.eqb Bool.eqb]. rewrite H_dup1.
  destruct st as [|a t]; cbn; try discriminate. rewrite H_swap1. cbn. rewrite H_pop. auto.
Qed.
Lemma w_swap1_pop_pop : srefines other [Op "SWAP1"; Op "POP"; Op "POP"] [Op "POP"; Op "POP"].
Proof.
  intros st r. cbn [sexec]. cbn [String.eqb Ascii.eqb Bool.eqb]. rewrite H_swap1.
  destruct st as [|a [|b t]]; cbn; try discriminate. rewrite !H_pop. auto.
Qed.
Lemma w_dup1_swap1 : srefines other [Op "DUP1"; Op "SWAP1"] [Op "DUP1"].
Proof.
  intros st r. cbn [sexec]. cbn [String.eqb Ascii.eqb Bool.eqb]. rewrite H_dup1.
  destruct st as [|a t]; cbn; try discriminate. rewrite H_swap1. cbn. auto.
Qed.
Lemma swap_facts o : String.prefix "SWAP" o = true -> String.eqb o "ISZERO" = false /\ plain (Op o) = true.
Proof.
  intros H. assert (N: forall c, String.prefix "SWAP" c = false -> String.eqb o c = false).
  { intros c Hc. destruct (String.eqb o c) eqn:E; [|reflexivity]. apply String.eqb_eq in E. subst. congruence. }
  split; [apply N; reflexivity|]. cbn [plain]. unfold is_halt. cbn [existsb halt_ops].
  rewrite !N by reflexivity. reflexivity.
Qed.
Lemma w_swap_swap o : String.prefix "SWAP" o = true -> srefines other [Op o; Op o] [].
Proof.
  intros I st r. cbn [sexec]. rewrite (proj1 (swap_facts o I)).
  destruct (other (Op o) st) as [s1|] eqn:E; [|discriminate]. rewrite (H_swapinv o st s1 I E). auto.
Qed.
Lemma comm_facts o : is_comm (Op o) = true -> String.eqb o "ISZERO" = false /\ plain (Op o) = true.
Proof.
  cbn [is_comm comm_ops existsb]. intros C.
  repeat (apply orb_true_iff in C; destruct C as [C|C]); try discriminate; apply String.eqb_eq in C; subst; split; reflexivity.
Qed.
Lemma w_swap1_comm o : is_comm (Op o) = true -> srefines other [Op "SWAP1"; Op o] [Op o].
Proof.
  intros C st r. destruct (comm_facts o C) as [NZ _]. cbn [sexec]. cbn [String.eqb Ascii.eqb Bool.eqb]. rewrite NZ, H_swap1.
  destruct st as [|a [|b t]]; cbn; try discriminate. rewrite (H_comm o b a t C). auto.
Qed.

Lemma step_rel pre w w' rest :
  forallb plain w = true -> forallb plain w' = true -> srefines other w w' ->
  sound_rel other (rev pre ++ w ++ rest) (rev pre ++ w' ++ rest) /\ labels (rev pre ++ w' ++ rest) = labels (rev pre ++ w ++ rest).
Proof.
  intros Pw Pw' SR. split.
  - apply T_sound_rel. apply T_prefix. apply T_win; auto. apply T_refl.
  - rewrite !labels_app, (labels_plain w Pw), (labels_plain w' Pw'). reflexivity.
Qed.

Definition conc (a b : list item) : Prop := sound_rel other a b /\ labels b = labels a.
Lemma conc_refl a : conc a a. Proof. split; [apply sound_rel_refl | reflexivity]. Qed.
Lemma conc_trans a b c : conc a b -> conc b c -> conc a c.
Proof. intros [S1 L1] [S2 L2]. split; [eapply sound_rel_trans; eauto | congruence]. Qed.

Lemma sp_loop_sound2 fuel : forall pre suf out,
  sp_loop fuel pre suf = Ok out -> conc (rev pre ++ suf) out.
Proof.
  induction fuel as [|f IH]; intros pre suf out H; [discriminate|].
  cbn [sp_loop] in H.
  destruct suf as [|a [|b [|c rest]]]; try (inversion H; apply conc_refl).
  destruct (is_op a "DUP1" && is_op b "SWAP2" && is_op c "SWAP1") eqn:P1.
  { apply andb_true_iff in P1. destruct P1 as [P1 Pc]. apply andb_true_iff in P1. destruct P1 as [Pa Pb].
    apply is_op_eq in Pa, Pb, Pc. subst a b c.
    eapply conc_trans; [|apply (IH _ _ _ H)].
    apply (step_rel pre [Op "DUP1"; Op "SWAP2"; Op "SWAP1"] [Op "SWAP1"; Op "DUP2"] rest); try reflexivity.
    apply w_dup1_swap2_swap1. }
  destruct (is_op a "DUP1" && is_op b "SWAP1" && is_op c "POP") eqn:P2.
  { apply andb_true_iff in P2. destruct P2 as [P2 Pc]. apply andb_true_iff in P2. destruct P2 as [Pa Pb].
    apply is_op_eq in Pa, Pb, Pc. subst a b c.
    eapply conc_trans; [|apply (IH _ _ _ H)].
    apply (step_rel pre [Op "DUP1"; Op "SWAP1"; Op "POP"] [] rest); try reflexivity. apply w_dup1_swap1_pop. }
  destruct (is_op a "SWAP1" && is_op b "POP" && is_op c "POP") eqn:P3.
  { apply andb_true_iff in P3. destruct P3 as [P3 Pc]. apply andb_true_iff in P3. destruct P3 as [Pa Pb].
    apply is_op_eq in Pa, Pb, Pc. subst a b c.
    eapply conc_trans; [|apply (IH _ _ _ H)].
    apply (step_rel pre [Op "SWAP1"; Op "POP"; Op "POP"] [Op "POP"; Op "POP"] rest); try reflexivity. apply w_swap1_pop_pop. }
  set (suf0 := a :: b :: c :: rest) in *.
  set (s1 := if starts_swap a && item_eqb a b then c :: rest else suf0) in *.
  assert (R1: conc (rev pre ++ suf0) (rev pre ++ s1)).
  { unfold s1. destruct (starts_swap a && item_eqb a b) eqn:P4; [|apply conc_refl].
    apply andb_true_iff in P4. destruct P4 as [Pa Pb]. apply item_eqb_eq in Pb. subst b.
    destruct a as [o| | | | | | |]; try discriminate Pa. cbn in Pa.
    apply (step_rel pre [Op o; Op o] [] (c :: rest)); [|reflexivity|apply w_swap_swap; exact Pa].
    cbn [forallb]. rewrite (proj2 (swap_facts o Pa)). reflexivity. }
  destruct s1 as [|a1 tl1] eqn:ES1; [discriminate|].
  set (s2r := if is_op a1 "SWAP1" then
               match tl1 with b1 :: _ => Ok (if is_comm b1 then tl1 else a1 :: tl1) | [] => Err BadIndex end
             else Ok (a1 :: tl1)) in *.
  destruct s2r as [s2|] eqn:ES2; [|discriminate]. cbn [bind] in H.
  assert (R2: conc (rev pre ++ a1 :: tl1) (rev pre ++ s2)).
  { unfold s2r in ES2. destruct (is_op a1 "SWAP1") eqn:Q; [|inversion ES2; subst s2; apply conc_refl].
    destruct tl1 as [|b1 tl]; [discriminate|]. inversion ES2; subst s2. clear ES2.
    destruct (is_comm b1) eqn:C; [|apply conc_refl].
    apply is_op_eq in Q. subst a1. destruct b1 as [o| | | | | | |]; try discriminate C.
    apply (step_rel pre [Op "SWAP1"; Op o] [Op o] tl); [| |apply w_swap1_comm; exact C];
      cbn [forallb]; rewrite (proj2 (comm_facts o C)); reflexivity. }
  destruct s2 as [|a2 tl2]; [discriminate|].
  set (s3r := if is_op a2 "DUP1" then
               match tl2 with b2 :: tl3 => Ok (if is_op b2 "SWAP1" then a2 :: tl3 else a2 :: tl2) | [] => Err BadIndex end
             else Ok (a2 :: tl2)) in *.
  destruct s3r as [s3|] eqn:ES3; [|discriminate]. cbn [bind] in H.
  assert (R3: conc (rev pre ++ a2 :: tl2) (rev pre ++ s3)).
  { unfold s3r in ES3. destruct (is_op a2 "DUP1") eqn:Q; [|inversion ES3; subst s3; apply conc_refl].
    destruct tl2 as [|b2 tl3]; [discriminate|]. inversion ES3; subst s3. clear ES3.
    destruct (is_op b2 "SWAP1") eqn:C; [|apply conc_refl].
    apply is_op_eq in Q, C. subst a2 b2.
    apply (step_rel pre [Op "DUP1"; Op "SWAP1"] [Op "DUP1"] tl3); try reflexivity. apply w_dup1_swap1. }
  eapply conc_trans; [exact R1|]. eapply conc_trans; [exact R2|]. eapply conc_trans; [exact R3|].
  destruct s3 as [|h t]; [inversion H; rewrite app_nil_r; apply conc_refl|].
  specialize (IH (h :: pre) t out H).
  cbn [rev] in IH. rewrite <- app_assoc in IH. exact IH.
Qed.

Theorem stack_peephole_labelled l out :
  stack_peephole l = Ok out -> sound_rel other l out /\ labels out = labels l.
Proof. intros H. exact (sp_loop_sound2 _ [] l out H). Qed.
End SP.

(* optimize_assembly, all hypotheses on the uninterpreted instructions spelled out *)
Theorem optimize_assembly_sound_full (other : item -> lstack -> option lstack) :
  (forall o st st', is_ret01 (Op o) = true -> String.eqb o "ISZERO" = false ->
     other (Op o) st = Some st' -> exists v t, st' = SV v :: t /\ (v = 0 \/ v = 1)) ->
  (forall x y it st, other it (rs x y st) = option_map (rs x y) (other it st)) ->
  (forall it st st' l, other it st = Some st' -> In (SL l) st' -> In (SL l) st \/ uses l it = true) ->
  (forall st, other (Op "POP") st = match st with _ :: t => Some t | [] => None end) ->
  (forall st, other (Op "DUP1") st = match st with a :: t => Some (a :: a :: t) | [] => None end) ->
  (forall st, other (Op "DUP2") st = match st with a :: b :: t => Some (b :: a :: b :: t) | _ => None end) ->
  (forall st, other (Op "SWAP1") st = lswap 0 st) -> (forall st, other (Op "SWAP2") st = lswap 1 st) ->
  (forall o st st', String.prefix "SWAP" o = true -> other (Op o) st = Some st' -> other (Op o) st' = Some st) ->
  (forall o a b t, is_comm (Op o) = true -> other (Op o) (a :: b :: t) = other (Op o) (b :: a :: t)) ->
  forall l out, NoDup (labels l) -> optimize_assembly l = Ok out -> sound_rel other l out.
Proof.
  intros H01 HE HL HP HD1 HD2 HS1 HS2 HSI HC l out ND H.
  apply (optimize_assembly_sound other H01 HE HL); auto.
  intros l0 out0 H0. apply (stack_peephole_labelled other HP HD1 HD2 HS1 HS2 HSI HC). exact H0.
Qed.

(* the hypotheses are jointly satisfiable: POP, DUP1, DUP2 and SWAP1..16 as the EVM does, nothing else defined *)
Definition other_inst (it : item) (st : lstack) : option lstack :=
  match it with
  | Op o =>
      match index_of o swaps 0 with
      | Some k => lswap k st
      | None =>
          if String.eqb o "POP" then match st with _ :: t => Some t | [] => None end
          else if String.eqb o "DUP1" then match st with a :: t => Some (a :: a :: t) | [] => None end
          else if String.eqb o "DUP2" then match st with a :: b :: t => Some (b :: a :: b :: t) | _ => None end
          else None
      end
  | _ => None
  end.
Lemma lswap_map (g : sval -> sval) k st : lswap k (map g st) = option_map (map g) (lswap k st).
Proof.
  unfold lswap. destruct st as [|x t]; [reflexivity|]. cbn [map]. rewrite skipn_map.
  destruct (skipn k t) as [|y r]; [reflexivity|]. cbn [map option_map]. rewrite firstn_map, map_app. reflexivity.
Qed.
Lemma lswap_in k st st' v : lswap k st = Some st' -> In v st' -> In v st.
Proof.
  unfold lswap. destruct st as [|x t]; [discriminate|]. destruct (skipn k t) as [|y r] eqn:E; [discriminate|].
  intros H I. inversion H; subst. rewrite <- (firstn_skipn k t), E.
  destruct I as [<-|I]; [right; apply in_or_app; right; left; reflexivity|].
  apply in_app_or in I. destruct I as [I|[<-|I]].
  - right. apply in_or_app. left. exact I.
  - left. reflexivity.
  - right. apply in_or_app. right. right. exact I.
Qed.
Example hypotheses_satisfiable :
  forall l out, NoDup (labels l) -> optimize_assembly l = Ok out -> sound_rel other_inst l out.
Proof.
  apply optimize_assembly_sound_full.
  - intros o st st' R NZ H. exfalso. cbn [is_ret01 ret01 existsb] in R. unfold other_inst in H.
    repeat (apply orb_true_iff in R; destruct R as [R|R]); try discriminate;
      apply String.eqb_eq in R; subst o; cbn in H; discriminate.
  - intros x y it st. unfold other_inst. destruct it; try reflexivity.
    destruct (index_of s swaps 0); [apply lswap_map|].
    repeat match goal with |- context[if ?c then _ else _] => destruct c end; try reflexivity;
      destruct st as [|a [|b t]]; reflexivity.
  - intros it st st' l H I. left. unfold other_inst in H. destruct it; try discriminate.
    destruct (index_of s swaps 0); [eapply lswap_in; eauto|].
    repeat match type of H with context[if ?c then _ else _] => destruct c end; try discriminate;
      destruct st as [|a [|b t]]; try discriminate; inversion H; subst; cbn in I; cbn; tauto.
  - reflexivity.
  - reflexivity.
  - reflexivity.
  - reflexivity.
  - reflexivity.
  - intros o st st' P H. unfold other_inst in *. destruct (index_of o swaps 0) as [k|] eqn:E.
    + apply lswap_invol. exact H.
    + exfalso. assert (N: forall c, String.prefix "SWAP" c = false -> String.eqb o c = false).
      { intros c Hc. destruct (String.eqb o c) eqn:E2; [|reflexivity]. apply String.eqb_eq in E2. subst. congruence. }
      rewrite !N in H by reflexivity. discriminate.
  - intros o a b t C. unfold other_inst. cbn [is_comm comm_ops existsb] in C.
    repeat (apply orb_true_iff in C; destruct C as [C|C]); try discriminate; apply String.eqb_eq in C; subst o; reflexivity.
Qed.
