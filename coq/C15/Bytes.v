(* C15 round 2: byte arrays for the memory model of the seq-level merges (static; no Gen imports).
   A memory is the list of its bytes (length = msize); every operation is a tabulation, so equalities are
   proved pointwise ([arr_ext]). *)
From Coq Require Import ZArith Bool List Lia PeanoNat.
Import ListNotations.
Open Scope nat_scope.

Definition tab (n : nat) (f : nat -> Z) : list Z := map f (seq 0 n).
Definition get (m : list Z) (i : nat) : Z := nth i m 0%Z.

Lemma tab_length n f : length (tab n f) = n.
Proof. unfold tab. rewrite map_length, seq_length. reflexivity. Qed.
Lemma get_tab n f i : get (tab n f) i = if i <? n then f i else 0%Z.
Proof.
  unfold get, tab. destruct (i <? n) eqn:E.
  - apply Nat.ltb_lt in E. rewrite (nth_indep _ 0%Z (f 0)) by (rewrite map_length, seq_length; exact E).
    rewrite map_nth, seq_nth by exact E. reflexivity.
  - apply Nat.ltb_ge in E. apply nth_overflow. rewrite map_length, seq_length. exact E.
Qed.
Lemma arr_ext (a b : list Z) : length a = length b -> (forall i, i < length a -> get a i = get b i) -> a = b.
Proof. intros L H. apply (nth_ext a b 0%Z 0%Z L). exact H. Qed.
Lemma get_overflow m i : length m <= i -> get m i = 0%Z.
Proof. intros H. apply nth_overflow. exact H. Qed.
Lemma tab_get_id m : tab (length m) (get m) = m.
Proof.
  apply arr_ext; [apply tab_length|]. intros i H. rewrite tab_length in H. rewrite get_tab.
  apply Nat.ltb_lt in H. rewrite H. reflexivity.
Qed.
Lemma get_repeat k i : get (repeat 0%Z k) i = 0%Z.
Proof.
  unfold get. destruct (Nat.lt_ge_cases i k) as [H|H].
  - apply nth_repeat.
  - apply nth_overflow. rewrite repeat_length. exact H.
Qed.
Lemma get_app a b i : get (a ++ b) i = if i <? length a then get a i else get b (i - length a).
Proof.
  unfold get. destruct (i <? length a) eqn:E.
  - apply Nat.ltb_lt in E. apply app_nth1. exact E.
  - apply Nat.ltb_ge in E. apply app_nth2. exact E.
Qed.

(* memory grows in 32-byte words *)
Definition c32 (n : nat) : nat := 32 * ((n + 31) / 32).
Lemma c32_ge n : n <= c32 n.
Proof. unfold c32. pose proof (Nat.div_mod (n + 31) 32 ltac:(lia)). pose proof (Nat.mod_upper_bound (n + 31) 32 ltac:(lia)). lia. Qed.
Lemma c32_mono a b : a <= b -> c32 a <= c32 b.
Proof. intros H. unfold c32. apply Nat.mul_le_mono_l. apply Nat.div_le_mono; lia. Qed.

(* size after touching [a, a+k) *)
Definition grow (m : list Z) (a k : nat) : nat := if k =? 0 then length m else Nat.max (length m) (c32 (a + k)).
(* write bytes bs at a (memory expansion included; writing nothing does nothing) *)
Definition upd (m : list Z) (a : nat) (bs : list Z) : list Z :=
  tab (grow m a (length bs))
      (fun i => if (a <=? i) && (i <? a + length bs) then get bs (i - a) else get m i).
(* memory expansion caused by reading [a, a+k) *)
Definition touch (m : list Z) (a k : nat) : list Z := tab (grow m a k) (get m).
(* read k bytes at a (zero beyond the end) *)
Definition rd (m : list Z) (a k : nat) : list Z := tab k (fun i => get m (a + i)).

Lemma rd_length m a k : length (rd m a k) = k. Proof. apply tab_length. Qed.
Lemma get_rd m a k i : get (rd m a k) i = if i <? k then get m (a + i) else 0%Z.
Proof. unfold rd. rewrite get_tab. reflexivity. Qed.
Lemma upd_length m a bs : length (upd m a bs) = grow m a (length bs). Proof. apply tab_length. Qed.
Lemma touch_length m a k : length (touch m a k) = grow m a k. Proof. apply tab_length. Qed.
Lemma grow_ge m a k : length m <= grow m a k.
Proof. unfold grow. destruct (k =? 0); lia. Qed.
Lemma grow_cover m a k : k <> 0 -> a + k <= grow m a k.
Proof. intros H. unfold grow. apply Nat.eqb_neq in H. rewrite H. pose proof (c32_ge (a + k)). lia. Qed.

Lemma get_upd m a bs i :
  get (upd m a bs) i = if (a <=? i) && (i <? a + length bs) then get bs (i - a) else get m i.
Proof.
  unfold upd. rewrite get_tab. destruct (i <? grow m a (length bs)) eqn:E; [reflexivity|].
  apply Nat.ltb_ge in E. destruct ((a <=? i) && (i <? a + length bs)) eqn:C.
  - apply andb_true_iff in C. destruct C as [C1 C2]. apply Nat.leb_le in C1. apply Nat.ltb_lt in C2.
    assert (length bs <> 0) by lia. pose proof (grow_cover m a (length bs) H). lia.
  - symmetry. apply get_overflow. pose proof (grow_ge m a (length bs)). lia.
Qed.
Lemma get_touch m a k i : get (touch m a k) i = get m i.
Proof.
  unfold touch. rewrite get_tab. destruct (i <? grow m a k) eqn:E; [reflexivity|].
  apply Nat.ltb_ge in E. symmetry. apply get_overflow. pose proof (grow_ge m a k). lia.
Qed.
Lemma upd_nil m a : upd m a [] = m.
Proof.
  apply arr_ext; [rewrite upd_length; reflexivity|]. intros i _. rewrite get_upd. cbn [length].
  replace (a + 0) with a by lia. destruct (a <=? i) eqn:E1, (i <? a) eqn:E2; cbn; try reflexivity.
  apply Nat.leb_le in E1. apply Nat.ltb_lt in E2. lia.
Qed.
Lemma touch_zero m a : touch m a 0 = m.
Proof. unfold touch, grow. cbn. apply tab_get_id. Qed.
Lemma rd_touch m a k b j : rd (touch m a k) b j = rd m b j.
Proof. apply arr_ext; [rewrite !rd_length; reflexivity|]. intros i _. rewrite !get_rd, get_touch. reflexivity. Qed.

(* adjacent writes are one write *)
Lemma upd_upd_adjacent m a bs bs' :
  upd (upd m a bs) (a + length bs) bs' = upd m a (bs ++ bs').
Proof.
  apply arr_ext.
  - rewrite !upd_length, app_length. unfold grow. rewrite upd_length. unfold grow.
    destruct (length bs) as [|p] eqn:E1, (length bs') as [|q] eqn:E2; cbn [Nat.eqb Nat.add]; try lia.
    + replace (a + 0 + S q) with (a + S q) by lia. reflexivity.
    + replace (p + 0) with p by lia. cbn. lia.
    + cbn [Nat.eqb]. pose proof (c32_mono (a + S p) (a + S p + S q) ltac:(lia)).
      replace (a + S (p + S q)) with (a + S p + S q) by lia. lia.
  - intros i _. rewrite !get_upd, app_length, get_app.
    destruct (a <=? i) eqn:A1, (i <? a + length bs) eqn:A2, (a + length bs <=? i) eqn:A3,
             (i <? a + length bs + length bs') eqn:A4, (i <? a + (length bs + length bs')) eqn:A5,
             (i - a <? length bs) eqn:A6; cbn [andb];
    repeat match goal with
    | H : (_ <=? _) = true |- _ => apply Nat.leb_le in H
    | H : (_ <=? _) = false |- _ => apply Nat.leb_gt in H
    | H : (_ <? _) = true |- _ => apply Nat.ltb_lt in H
    | H : (_ <? _) = false |- _ => apply Nat.ltb_ge in H
    end; try lia; try reflexivity.
    f_equal. lia.
Qed.

Lemma rd_split m a k k' : rd m a (k + k') = rd m a k ++ rd m (a + k) k'.
Proof.
  apply arr_ext; [rewrite app_length, !rd_length; reflexivity|]. intros i H. rewrite rd_length in H.
  rewrite get_app, !get_rd, rd_length.
  assert (i <? k + k' = true) as -> by (apply Nat.ltb_lt; lia).
  destruct (i <? k) eqn:E; [reflexivity|]. apply Nat.ltb_ge in E.
  assert (i - k <? k' = true) as -> by (apply Nat.ltb_lt; lia). f_equal. lia.
Qed.
Lemma rd_zero_tail m a k : length m <= a -> rd m a k = repeat 0%Z k.
Proof.
  intros H. apply arr_ext; [rewrite rd_length, repeat_length; reflexivity|]. intros i _.
  rewrite get_rd, get_repeat. destruct (i <? k); [apply get_overflow; lia | reflexivity].
Qed.
Lemma repeat_add_z k k' : repeat 0%Z (k + k') = repeat 0%Z k ++ repeat 0%Z k'.
Proof. apply repeat_app. Qed.

(* word-by-word forward copy (what a run of (mstore (dst+32i) (mload (src+32i))) does) *)
Fixpoint mcp_iter (n : nat) (m : list Z) (src dst : nat) : list Z :=
  match n with
  | 0 => m
  | S k => let m1 := mcp_iter k m src dst in
           upd (touch m1 (src + 32 * k) 32) (dst + 32 * k) (rd m1 (src + 32 * k) 32)
  end.
(* MCOPY: as if through an intermediate buffer *)
Definition mcopy_mem (m : list Z) (dst src len : nat) : list Z :=
  upd (touch m src len) dst (rd m src len).

(* the overlap guard of _merge_load (not (src < dst < src + len)) is what makes the two agree *)
Lemma mcp_iter_mcopy n m src dst :
  dst <= src \/ src + 32 * n <= dst -> mcp_iter n m src dst = mcopy_mem m dst src (32 * n).
Proof.
  induction n as [|k IH]; intros G.
  - cbn [mcp_iter]. unfold mcopy_mem. replace (32 * 0) with 0 by lia. rewrite touch_zero.
    change (rd m src 0) with (@nil Z). symmetry. apply upd_nil.
  - cbn [mcp_iter]. rewrite IH by lia. unfold mcopy_mem.
    set (m1 := upd (touch m src (32 * k)) dst (rd m src (32 * k))).
    assert (G1: forall j, get m1 j = if (dst <=? j) && (j <? dst + 32 * k) then get m (src + (j - dst)) else get m j).
    { intros j. unfold m1. rewrite get_upd, rd_length, get_touch, get_rd.
      destruct ((dst <=? j) && (j <? dst + 32 * k)) eqn:C; [|reflexivity].
      apply andb_true_iff in C. destruct C as [C1 C2]. apply Nat.leb_le in C1. apply Nat.ltb_lt in C2.
      assert (j - dst <? 32 * k = true) as -> by (apply Nat.ltb_lt; lia). reflexivity. }
    assert (L1: length m1 = if k =? 0 then length m else Nat.max (Nat.max (length m) (c32 (src + 32 * k))) (c32 (dst + 32 * k))).
    { unfold m1. rewrite upd_length, rd_length. unfold grow. rewrite touch_length. unfold grow.
      destruct k; cbn [Nat.eqb Nat.mul]; [reflexivity|]. replace (32 * S k =? 0) with false by (symmetry; apply Nat.eqb_neq; lia). reflexivity. }
    apply arr_ext.
    + rewrite !upd_length, !rd_length. unfold grow. rewrite !touch_length. unfold grow. rewrite L1.
      replace (32 =? 0) with false by reflexivity. replace (32 * S k =? 0) with false by (symmetry; apply Nat.eqb_neq; lia).
      pose proof (c32_mono (src + 32 * k) (src + 32 * k + 32) ltac:(lia)).
      pose proof (c32_mono (dst + 32 * k) (dst + 32 * k + 32) ltac:(lia)).
      replace (src + 32 * S k) with (src + 32 * k + 32) by lia. replace (dst + 32 * S k) with (dst + 32 * k + 32) by lia.
      destruct (k =? 0); lia.
    + intros i _. rewrite !get_upd, !rd_length, !get_touch, !get_rd, !G1.
      destruct ((dst + 32 * k <=? i) && (i <? dst + 32 * k + 32)) eqn:C1.
      * apply andb_true_iff in C1. destruct C1 as [A B]. apply Nat.leb_le in A. apply Nat.ltb_lt in B.
        assert (i - (dst + 32 * k) <? 32 = true) as -> by (apply Nat.ltb_lt; lia).
        assert ((dst <=? i) && (i <? dst + 32 * S k) = true) as -> by (apply andb_true_iff; split; [apply Nat.leb_le | apply Nat.ltb_lt]; lia).
        assert (i - dst <? 32 * S k = true) as -> by (apply Nat.ltb_lt; lia).
        assert ((dst <=? src + 32 * k + (i - (dst + 32 * k))) && (src + 32 * k + (i - (dst + 32 * k)) <? dst + 32 * k) = false) as ->.
        { apply andb_false_iff. destruct G as [G|G]; [right; apply Nat.ltb_ge; lia | left; apply Nat.leb_gt; lia]. }
        f_equal. lia.
      * destruct ((dst <=? i) && (i <? dst + 32 * k)) eqn:C2.
        -- apply andb_true_iff in C2. destruct C2 as [A B]. apply Nat.leb_le in A. apply Nat.ltb_lt in B.
           assert ((dst <=? i) && (i <? dst + 32 * S k) = true) as -> by (apply andb_true_iff; split; [apply Nat.leb_le | apply Nat.ltb_lt]; lia).
           assert (i - dst <? 32 * S k = true) as -> by (apply Nat.ltb_lt; lia). reflexivity.
        -- assert ((dst <=? i) && (i <? dst + 32 * S k) = false) as ->; [|reflexivity].
           apply andb_false_iff in C1. apply andb_false_iff in C2. apply andb_false_iff.
           destruct (dst <=? i) eqn:D; [right | left; reflexivity]. apply Nat.leb_le in D.
           destruct C2 as [C2|C2]; [discriminate|]. apply Nat.ltb_ge in C2.
           destruct C1 as [C1|C1]; [apply Nat.leb_gt in C1; lia | apply Nat.ltb_ge in C1; apply Nat.ltb_ge; lia].
Qed.

(* without the guard the two differ: forward copying into an overlapping higher range smears *)
Example mcp_iter_overlap_differs :
  mcp_iter 2 (tab 96 (fun i => Z.of_nat i)) 0 32 <> mcopy_mem (tab 96 (fun i => Z.of_nat i)) 32 0 64.
Proof. intros H. apply (f_equal (fun l => get l 64)) in H. vm_compute in H. discriminate H. Qed.

Lemma mcopy_length m d s k :
  length (mcopy_mem m d s k) = if k =? 0 then length m else Nat.max (Nat.max (length m) (c32 (s + k))) (c32 (d + k)).
Proof.
  unfold mcopy_mem. rewrite upd_length, rd_length. unfold grow. rewrite touch_length. unfold grow.
  destruct (k =? 0); reflexivity.
Qed.
Lemma get_mcopy m d s k j :
  get (mcopy_mem m d s k) j = if (d <=? j) && (j <? d + k) then get m (s + (j - d)) else get m j.
Proof.
  unfold mcopy_mem. rewrite get_upd, rd_length, get_touch, get_rd.
  destruct ((d <=? j) && (j <? d + k)) eqn:C; [|reflexivity].
  apply andb_true_iff in C. destruct C as [C1 C2]. apply Nat.leb_le in C1. apply Nat.ltb_lt in C2.
  assert (j - d <? k = true) as -> by (apply Nat.ltb_lt; lia). reflexivity.
Qed.

(* two adjacent MCOPYs are one, provided the destination does not start inside the source range *)
Lemma mcopy_compose m d s t n :
  d <= s \/ s + t + n <= d ->
  mcopy_mem (mcopy_mem m d s t) (d + t) (s + t) n = mcopy_mem m d s (t + n).
Proof.
  intros G. apply arr_ext.
  - rewrite !mcopy_length.
    pose proof (c32_mono (s + t) (s + t + n) ltac:(lia)). pose proof (c32_mono (d + t) (d + t + n) ltac:(lia)).
    replace (s + (t + n)) with (s + t + n) by lia. replace (d + (t + n)) with (d + t + n) by lia.
    destruct (n =? 0) eqn:En, (t =? 0) eqn:Et;
      repeat match goal with H : (_ =? _) = true |- _ => apply Nat.eqb_eq in H | H : (_ =? _) = false |- _ => apply Nat.eqb_neq in H end.
    + subst. reflexivity.
    + subst. rewrite !Nat.add_0_r. assert (t =? 0 = false) as -> by (apply Nat.eqb_neq; lia). reflexivity.
    + subst. rewrite !Nat.add_0_r. cbn [Nat.add]. assert (n =? 0 = false) as -> by (apply Nat.eqb_neq; lia). reflexivity.
    + assert (t + n =? 0 = false) as -> by (apply Nat.eqb_neq; lia). lia.
  - intros i _. rewrite !get_mcopy.
    destruct ((d + t <=? i) && (i <? d + t + n)) eqn:C1.
    + apply andb_true_iff in C1. destruct C1 as [A B]. apply Nat.leb_le in A. apply Nat.ltb_lt in B.
      assert ((d <=? i) && (i <? d + (t + n)) = true) as -> by (apply andb_true_iff; split; [apply Nat.leb_le | apply Nat.ltb_lt]; lia).
      assert ((d <=? s + t + (i - (d + t))) && (s + t + (i - (d + t)) <? d + t) = false) as ->.
      { apply andb_false_iff. destruct G as [G|G]; [right; apply Nat.ltb_ge; lia | left; apply Nat.leb_gt; lia]. }
      f_equal. lia.
    + destruct ((d <=? i) && (i <? d + t)) eqn:C2.
      * apply andb_true_iff in C2. destruct C2 as [A B]. apply Nat.leb_le in A. apply Nat.ltb_lt in B.
        assert ((d <=? i) && (i <? d + (t + n)) = true) as -> by (apply andb_true_iff; split; [apply Nat.leb_le | apply Nat.ltb_lt]; lia).
        reflexivity.
      * assert ((d <=? i) && (i <? d + (t + n)) = false) as ->; [|reflexivity].
        apply andb_false_iff in C1. apply andb_false_iff in C2. apply andb_false_iff.
        destruct (d <=? i) eqn:D; [right | left; reflexivity]. apply Nat.leb_le in D.
        destruct C2 as [C2|C2]; [discriminate|]. apply Nat.ltb_ge in C2.
        destruct C1 as [C1|C1]; [apply Nat.leb_gt in C1; lia | apply Nat.ltb_ge in C1; apply Nat.ltb_ge; lia].
Qed.

(* ---- contents are bytes ---- *)
Definition isbyte (z : Z) : Prop := (0 <= z < 256)%Z.
Definition bytes (m : list Z) : Prop := Forall isbyte m.
Lemma get_byte m i : bytes m -> isbyte (get m i).
Proof.
  intros B. unfold get. destruct (Nat.lt_ge_cases i (length m)) as [H|H].
  - apply (proj1 (Forall_forall _ _) B). apply nth_In. exact H.
  - rewrite nth_overflow by exact H. unfold isbyte. lia.
Qed.
Lemma bytes_tab n f : (forall i, isbyte (f i)) -> bytes (tab n f).
Proof. intros H. unfold bytes, tab. apply Forall_forall. intros x Hx. apply in_map_iff in Hx. destruct Hx as (i & <- & _). apply H. Qed.
Lemma bytes_rd m a k : bytes m -> bytes (rd m a k).
Proof. intros B. apply bytes_tab. intros i. apply get_byte. exact B. Qed.
Lemma bytes_touch m a k : bytes m -> bytes (touch m a k).
Proof. intros B. apply bytes_tab. intros i. apply get_byte. exact B. Qed.
Lemma bytes_upd m a bs : bytes m -> bytes bs -> bytes (upd m a bs).
Proof. intros B1 B2. apply bytes_tab. intros i. destruct ((a <=? i) && (i <? a + length bs)); apply get_byte; assumption. Qed.
Lemma bytes_mcopy m d s k : bytes m -> bytes (mcopy_mem m d s k).
Proof. intros B. unfold mcopy_mem. apply bytes_upd; [apply bytes_touch | apply bytes_rd]; exact B. Qed.
Lemma bytes_repeat0 k : bytes (repeat 0%Z k).
Proof. unfold bytes. apply Forall_forall. intros x Hx. apply repeat_spec in Hx. subst. unfold isbyte. lia. Qed.
