(* C15 round 4: model of vyper/ir/compile_ir.py:_rewrite_return_sequences, the IR -> IR pass that compile_to_assembly runs
   before lowering.  It (1) replaces the two arguments of `(return ret_ofst ret_len)` by `pass`, so that RETURN consumes
   the label parameters directly from the stack instead of copies, (2) turns `(exit_to return_pc)` into `(jump pass)`
   and (3) turns every other `(exit_to dest a1 .. an)` into `(seq [(pop pass)] (goto dest a1' .. an'))` where
   ai' = pass if ai is the leaf return_pc, and `(pop pass)` is present iff the enclosing label has a parameter
   return_buffer.  The ONLY conditions the python code checks are these names (value equality of leaves); it does not
   look at stack heights.  No proofs here. *)
From Coq Require Import ZArith Bool List String.
From Verif Require Import Base.Word256 Base.PyInt C15.Syntax C15.GenUtils C15.Peephole C15.Lower.
Import ListNotations.
Open Scope Z_scope.

Definition is_leaf (e : expr) (x : string) : bool :=
  match e with Var y => String.eqb y x | Node y [] => String.eqb y x | _ => false end.
Definition param_names (e : expr) : list string :=
  match e with
  | Node _ ps => flat_map (fun p => match leaf_name p with Some x => [x] | None => [] end) ps
  | _ => []
  end.

Fixpoint rw (ps : option (list string)) (e : expr) : res expr :=
  match e with
  | Node op args =>
      let rec_all (ps' : option (list string)) :=
        (fix go (l : list expr) : res (list expr) :=
           match l with [] => Ok [] | x :: t => x' <- rw ps' x ;; t' <- go t ;; Ok (x' :: t') end) in
      if String.eqb op "return" then
        match args with
        | a0 :: a1 :: t =>
            if is_leaf a0 "ret_ofst" && is_leaf a1 "ret_len"
            then t' <- rec_all ps t ;; Ok (Node "return" (pass_ :: pass_ :: t'))
            else args' <- rec_all ps args ;; Ok (Node op args')
        | _ => args' <- rec_all ps args ;; Ok (Node op args')
        end
      else if String.eqb op "exit_to" then
        match args with
        | a0 :: rest =>
            if is_leaf a0 "return_pc" then rest' <- rec_all ps rest ;; Ok (Node "jump" (pass_ :: rest'))
            else
              match ps with
              | None => Err Raised          (* TypeError: argument of type 'NoneType' is not iterable *)
              | Some names =>
                  rest' <- rec_all ps rest ;;
                  let more := map (fun p => if is_leaf (fst p) "return_pc" then pass_ else snd p) (combine rest rest') in
                  let popbuf := if existsb (String.eqb "return_buffer") names then [Node "pop" [pass_]] else [] in
                  Ok (Node "seq" (popbuf ++ [Node "goto" (a0 :: more)]))
              end
        | [] => Err Raised
        end
      else if String.eqb op "label" then
        match args with
        | _ :: vl :: _ => args' <- rec_all (Some (param_names vl)) args ;; Ok (Node op args')
        | _ => Err Raised
        end
      else args' <- rec_all ps args ;; Ok (Node op args')
  | _ => Ok e
  end.

(* compile_ir.compile_to_assembly(code, OptimizationLevel.NONE): rewrite, then lower *)
Definition lower_top_fuel (n : nat) (e : expr) : res (list item) :=
  '(a, s) <- lower n [] None 0 e {| cnt := 0; revl := None; labels := []; lh := []; dsegs := [] |} ;;
  Ok (a ++ [Op "STOP"] ++ match revl s with Some l => [Lbl l] ++ push 0 ++ [Op "DUP1"; Op "REVERT"] | None => [] end ++ List.concat (rev (dsegs s)))%list.
Definition compile_to_assembly (n : nat) (e : expr) : res (list item) := e' <- rw None e ;; lower_top_fuel n e'.
