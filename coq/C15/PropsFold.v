(* C15 (part 1): compile-time evaluation inside the legacy IR optimiser follows exact 256-bit EVM
   semantics: for every binop of the optimiser's `arith` table (regenerated from the source) and all
   literals in [MIN_INT256, MAX_UINT256], the folded literal, read as a word, is the EVM operation
   applied to the operand words -- and it is again a legal literal (never an assertion failure). *)
From Coq Require Import ZArith List String Lia.
From Verif Require Import Base.Word256 Base.PyInt C15.Syntax C15.GenUtils C15.Optimizer C15.FoldSound.
Import ListNotations.
Open Scope Z_scope.

Theorem arith_fold_sound :
  forall o, arith o <> None -> forall l r, lit_ok l -> lit_ok r ->
    exists w, fold o l r = Ok w /\ lit_ok w /\ wrap w = bop_sem o (wrap l) (wrap r).
Proof. exact arith_fold_sound_all. Qed.
Print Assumptions arith_fold_sound.

(* non-vacuity: boundary literals are legal; the table has the 21 ops; a signed boundary case *)
Example arith_fold_nonvacuous :
  lit_ok MINS /\ lit_ok MAXU /\ lit_ok (-1) /\
  (forall o, arith o <> None <-> memb o [B_shl; B_shr; B_sar] = false) /\
  fold B_sdiv MINS (-1) = Ok MINS /\ fold B_sdiv (-7) 2 = Ok (-3) /\ fold B_smod (-7) 2 = Ok (-1).
Proof.
  repeat split; try (unfold lit_ok, MINS, MAXU, HALF, W; lia); try apply arith_keys; vm_compute; reflexivity.
Qed.
