(* C15 round 2: optimize_sound -- the whole-tree recursion of optimizer._optimize (model OptTree.opt)
   preserves the meaning of every IR tree, for every compositional semantics of the node kinds the
   optimiser does not interpret (Syntax.Sem / SemOk). *)
From Coq Require Import ZArith Bool List String Lia Znumtheory.
From Verif Require Import Base.Word256 Base.PyInt Base.WordLemmas C15.Syntax C15.WordFacts C15.GenUtils
  C15.Optimizer C15.FoldSound C15.OptSound C15.OptTree.
Import ListNotations.
Open Scope Z_scope.

(* ---- names and kinds ---- *)
Lemma bop_of_name_some s o : bop_of_name s = Some o -> s = bop_name o.
Proof.
  unfold bop_of_name. intros H. apply find_some in H. destruct H as [_ H]. apply String.eqb_eq in H. auto.
Qed.
Lemma truthy_pc_inv op i : is_truthy (pc_of op i) = true ->
  (op = "if"%string /\ i = 0%nat) \/ op = "assert"%string \/ op = "iszero"%string.
Proof.
  unfold pc_of. destruct (String.eqb op "if") eqn:E1.
  - apply String.eqb_eq in E1. destruct i; cbn; intros H; [auto | discriminate].
  - destruct (String.eqb op "assert") eqn:E2; [apply String.eqb_eq in E2; auto|].
    destruct (String.eqb op "iszero") eqn:E3; [apply String.eqb_eq in E3; auto|]. cbn. discriminate.
Qed.
Lemma pc_not_truthy op i :
  op <> "if"%string -> op <> "assert"%string -> op <> "iszero"%string -> is_truthy (pc_of op i) = false.
Proof.
  intros A B C. destruct (is_truthy (pc_of op i)) eqn:E; [|reflexivity].
  apply truthy_pc_inv in E. destruct E as [[E _]|[E|E]]; contradiction.
Qed.

Definition kind_name (k : kind) (s : string) : Prop :=
  match k with
  | KBin o => s = bop_name o | KUn o => s = uop_name o
  | KCeil32 => s = "ceil32"%string | KSeq => s = "seq"%string | KIf => s = "if"%string
  | KAssert => s = "assert"%string | KAssertUnreachable => s = "assert_unreachable"%string
  | KPass => s = "pass"%string | KOther => True
  end.
Lemma kind_of_name s : kind_name (kind_of s) s.
Proof.
  unfold kind_of. destruct (bop_of_name s) eqn:E; [cbn; apply bop_of_name_some; exact E|].
  destruct (String.eqb s "iszero") eqn:E1; [apply String.eqb_eq in E1; exact E1|].
  destruct (String.eqb s "not") eqn:E2; [apply String.eqb_eq in E2; exact E2|].
  destruct (String.eqb s "ceil32") eqn:E3; [apply String.eqb_eq in E3; exact E3|].
  destruct (String.eqb s "seq") eqn:E4; [apply String.eqb_eq in E4; exact E4|].
  destruct (String.eqb s "if") eqn:E5; [apply String.eqb_eq in E5; exact E5|].
  destruct (String.eqb s "assert") eqn:E6; [apply String.eqb_eq in E6; exact E6|].
  destruct (String.eqb s "assert_unreachable") eqn:E7; [apply String.eqb_eq in E7; exact E7|].
  destruct (String.eqb s "pass") eqn:E8; [apply String.eqb_eq in E8; exact E8|].
  exact I.
Qed.
Lemma kind_inv s k : kind_of s = k -> kind_name k s.
Proof. intros <-. apply kind_of_name. Qed.
(* for the node kinds that are not if / assert / iszero no child is in a truthy context *)
Lemma kind_not_truthy s j :
  match kind_of s with KIf | KAssert | KUn U_iszero => True | _ => is_truthy (pc_of s j) = false end.
Proof.
  destruct (kind_of s) eqn:K; auto; try (destruct o; auto);
    apply pc_not_truthy; intros ->; vm_compute in K; discriminate K.
Qed.

(* the merge functions fail only with AssertFail / TypeErr / OutOfFuel *)
Lemma g_loop_not_raised sp fuel : forall l i r c, g_loop sp fuel l i r c <> Err Raised.
Proof.
  induction fuel as [|f IH]; intros l i r c; [discriminate|]. cbn [g_loop].
  destruct (nth_error l i); [|discriminate].
  match goal with |- (let '(r1, cont) := ?X in _) <> _ => destruct X as [r1 cont] end.
  destruct cont; [apply IH|]. destruct (Nat.ltb 1 (r_n r1)); [|apply IH].
  destruct (lit_okb (r_total r1)); [apply IH | discriminate].
Qed.
Lemma g_merge_not_raised sp l : g_merge sp l <> Err Raised.
Proof. unfold g_merge. destruct (forallb (node_safe sp) l); [apply g_loop_not_raised | discriminate]. Qed.
Lemma merges_not_raised cancun l : merges cancun l <> Err Raised.
Proof.
  unfold merges. pose proof (g_merge_not_raised sp_memzero l) as H1. unfold merge_memzero.
  destruct (g_merge sp_memzero l) as [[c1 l1]|e1]; cbn [bind]; [|intros E; apply H1; exact E].
  unfold merge_load. pose proof (g_merge_not_raised (sp_load "calldataload" "calldatacopy" true) l1) as H2.
  destruct (g_merge (sp_load "calldataload" "calldatacopy" true) l1) as [[c2 l2]|e2]; cbn [bind]; [|intros E; apply H2; exact E].
  pose proof (g_merge_not_raised (sp_load "dload" "dloadbytes" true) l2) as H3.
  destruct (g_merge (sp_load "dload" "dloadbytes" true) l2) as [[c3 l3]|e3]; cbn [bind]; [|intros E; apply H3; exact E].
  destruct (rewrite_mstore_dload l3) as [c4 l4].
  destruct cancun.
  - pose proof (g_merge_not_raised (sp_load "mload" "mcopy" false) l4) as H5.
    destruct (g_merge (sp_load "mload" "mcopy" false) l4) as [[c5 l5]|e5]; cbn [bind]; [|intros E; apply H5; exact E].
    destruct (remove_empty_seqs l5). discriminate.
  - cbn [bind]. destruct (remove_empty_seqs l4). discriminate.
Qed.

(* unique_symbols fails only with the "non-unique symbols" panic *)
Lemma usyms_err e : forall er, usyms e = Err er -> er = KeyErr.
Proof.
  induction e as [v|x|op args IH] using expr_ind2; intros er H; try discriminate.
  cbn [usyms] in H.
  set (own := if String.eqb op "unique_symbol" then match args with a :: _ => [sym_name a] | [] => [] end else []) in H.
  set (skip1 := String.eqb op "deploy" && Nat.eqb (List.length args) 3) in H.
  clearbody skip1 own.
  assert (G: forall l, Forall (fun e => forall er, usyms e = Err er -> er = KeyErr) l -> forall i acc,
     (fix go (l : list expr) (i : nat) (acc : list string) : res (list string) :=
         match l with
         | [] => Ok acc
         | c :: t =>
             if skip1 && Nat.eqb i 1 then go t (S i) acc else
             s <- usyms c ;;
             if existsb (fun x => existsb (String.eqb x) acc) s then Err KeyErr else go t (S i) (acc ++ s)%list
         end) l i acc = Err er -> er = KeyErr).
  { clear. induction 1 as [|c t Hc Ht IHt]; intros i acc H; [discriminate|].
    destruct (skip1 && Nat.eqb i 1); [eapply IHt; eauto|].
    destruct (usyms c) as [sc|e1] eqn:E; cbn [bind] in H.
    - destruct (existsb _ sc); [inversion H; reflexivity | eapply IHt; eauto].
    - inversion H; subst. eapply Hc; eauto. }
  eapply G; eauto.
Qed.

Lemma usyms_union_err l : forall er, usyms_union l = Err er -> er = KeyErr.
Proof.
  induction l as [|a t IH]; intros er H; [discriminate|]. cbn [usyms_union] in H.
  destruct (usyms a) as [s|e1] eqn:E; cbn [bind] in H; [|inversion H; subst; eapply usyms_err; eauto].
  destruct (usyms_union t) as [r|e2]; cbn [bind] in H; [discriminate|]. inversion H; subst. eapply IH; eauto.
Qed.

Section T.
Variable SM : Sem. (*section*)
Hypothesis OK : SemOk SM. (*section*)
(* soundness of the seq-level merges (proved in MergeSound.v for state spaces with an EVM memory) *)
Hypothesis merges_ok : forall cancun l c l', (*section*)
  Forall wf l -> merges cancun l = Ok (c, l') ->
  equiv_val SM (Node "seq" l) (Node "seq" l') /\ Forall wf l'.
Notation ev := (eval SM).
Notation eqv := (equiv SM).
Notation eqval := (equiv_val SM).

Lemma eqv_refl t e : eqv t e e.
Proof. apply equiv_val_any. intros s; reflexivity. Qed.
Lemma oeq_truthy_trans a b c : oeq_truthy SM a b -> oeq_truthy SM b c -> oeq_truthy SM a c.
Proof.
  destruct a, b, c; cbn; try tauto; try congruence.
  intros [-> E1] [-> E2]. split; congruence.
Qed.
Lemma eqv_trans t a b c : eqv t a b -> eqv t b c -> eqv t a c.
Proof.
  intros H1 H2 s. specialize (H1 s). specialize (H2 s). destruct t.
  - eapply oeq_truthy_trans; eauto.
  - congruence.
Qed.
Lemma eqval_eqv t a b : eqval a b -> eqv t a b.
Proof. apply equiv_val_any. Qed.

(* children related position-wise, each in the context its parent gives it *)
Fixpoint crel (op : string) (i : nat) (l l' : list expr) : Prop :=
  match l, l' with
  | [], [] => True
  | a :: t, a' :: t' => eqv (is_truthy (pc_of op i)) a a' /\ crel op (S i) t t'
  | _, _ => False
  end.
Lemma crel_exact op i l l' :
  (forall j, is_truthy (pc_of op j) = false) -> crel op i l l' -> Forall2 (fun a a' => eqval a a') l l'.
Proof.
  intros NT. revert i l'. induction l as [|a t IH]; intros i [|a' t'] H; cbn in H; try contradiction; constructor.
  - destruct H as [H _]. rewrite NT in H. exact H.
  - destruct H as [_ H]. eapply IH; eauto.
Qed.

Lemma seq_den_congr (ds ds' : list (den SM)) :
  Forall2 (fun d d' => forall s, d s = d' s) ds ds' -> forall s, seq_den SM ds s = seq_den SM ds' s.
Proof.
  induction 1 as [|d d' t t' Hd Ht IH]; intros s; [reflexivity|].
  destruct Ht as [|d2 d2' t2 t2' Hd2 Ht2].
  - cbn. apply Hd.
  - change (seq_den SM (d :: d2 :: t2) s) with (bindd SM d (fun _ => seq_den SM (d2 :: t2)) s).
    change (seq_den SM (d' :: d2' :: t2') s) with (bindd SM d' (fun _ => seq_den SM (d2' :: t2')) s).
    unfold bindd. rewrite Hd. destruct (d' s); [apply IH | reflexivity].
Qed.
Lemma map_ev_congr l l' : Forall2 (fun a a' => eqval a a') l l' ->
  Forall2 (fun d d' : den SM => forall s, d s = d' s) (map ev l) (map ev l').
Proof. induction 1; cbn; constructor; auto. Qed.

(* truthy-equivalent conditions select the same continuation *)
Lemma bind_truthy (a a' : expr) (k k' : Z -> den SM) s :
  oeq_truthy SM (ev a s) (ev a' s) ->
  (forall v v' s1, (v =? 0) = (v' =? 0) -> k v s1 = k' v' s1) ->
  bindd SM (ev a) k s = bindd SM (ev a') k' s.
Proof.
  intros H K. unfold bindd. destruct (ev a s), (ev a' s); cbn in H; try contradiction.
  - destruct H as [-> E]. apply K; exact E.
  - congruence.
Qed.


Lemma crel_length op i l l' : crel op i l l' -> List.length l = List.length l'.
Proof.
  revert i l'. induction l as [|a t IH]; intros i [|a' t'] H; cbn in H; try contradiction; auto.
  cbn. f_equal. eapply IH. apply H.
Qed.

Ltac f2inv F :=
  repeat match type of F with
  | Forall2 _ [] _ => inversion F; subst; clear F
  | Forall2 _ (_ :: _) _ =>
      let a := fresh "a'" in let t := fresh "t'" in let H := fresh "Hc" in let F' := fresh "F" in
      inversion F as [|? a ? t H F']; subst; clear F; rename F' into F
  end.

Lemma node_congr op args argz : crel op 0 args argz -> eqval (Node op args) (Node op argz).
Proof.
  intros C s. cbn [eval].
  assert (GEN: (forall j, is_truthy (pc_of op j) = false) ->
               sem_K SM op (map ev args) s = sem_K SM op (map ev argz) s).
  { intros NT. apply (K_ext SM OK). apply map_ev_congr. eapply crel_exact; eauto. }
  pose proof (fun j => kind_not_truthy op j) as NT.
  pose proof (crel_length _ _ _ _ C) as LEN.
  destruct (kind_of op) eqn:Kd.
  - (* bin *)
    pose proof (crel_exact _ _ _ _ NT C) as F.
    destruct args as [|a [|b [|c r]]]; f2inv F; try (apply GEN; exact NT).
    unfold bindd, ret. rewrite (Hc0 s). destruct (ev a'0 s) as [vb s1|]; [|reflexivity]. rewrite (Hc s1). reflexivity.
  - (* un *)
    destruct o.
    + (* iszero: the child is in a truthy context *)
      apply kind_inv in Kd. cbn in Kd. subst op.
      destruct args as [|a [|b r]], argz as [|a' [|b' r']]; cbn in LEN; try discriminate LEN; try reflexivity.
      destruct C as [C _]. apply bind_truthy; [apply C|].
      intros v v' s1 E. unfold ret, uop_sem, w_iszero. rewrite E. reflexivity.
    + pose proof (crel_exact _ _ _ _ NT C) as F.
      destruct args as [|a [|b r]]; f2inv F; try (apply GEN; exact NT).
      unfold bindd. rewrite (Hc s). reflexivity.
  - (* ceil32 *)
    pose proof (crel_exact _ _ _ _ NT C) as F.
    destruct args as [|a [|b r]]; f2inv F; try (apply GEN; exact NT).
    unfold bindd. rewrite (Hc s). reflexivity.
  - (* seq *)
    pose proof (crel_exact _ _ _ _ NT C) as F. apply seq_den_congr. apply map_ev_congr. exact F.
  - (* if: condition truthy, branches exact *)
    apply kind_inv in Kd. cbn in Kd. subst op.
    destruct args as [|c [|t [|f [|g r]]]], argz as [|c' [|t' [|f' [|g' r']]]]; cbn in LEN; try discriminate LEN; try reflexivity.
    + destruct C as [Cc [Ct _]]. cbn in Cc, Ct. apply bind_truthy; [apply Cc|].
      intros v v' s1 E. rewrite E. destruct (v' =? 0); [reflexivity | apply Ct].
    + destruct C as [Cc [Ct [Cf _]]]. cbn in Cc, Ct, Cf. apply bind_truthy; [apply Cc|].
      intros v v' s1 E. rewrite E. destruct (v' =? 0); [apply Cf | apply Ct].
  - (* assert *)
    apply kind_inv in Kd. cbn in Kd. subst op.
    destruct args as [|c [|t r]], argz as [|c' [|t' r']]; cbn in LEN; try discriminate LEN; try reflexivity.
    destruct C as [Cc _]. cbn in Cc. apply bind_truthy; [apply Cc|].
    intros v v' s1 E. rewrite E. reflexivity.
  - (* assert_unreachable *)
    pose proof (crel_exact _ _ _ _ NT C) as F.
    destruct args as [|a [|b r]]; f2inv F; try (apply GEN; exact NT).
    unfold bindd. rewrite (Hc s). reflexivity.
  - (* pass *)
    pose proof (crel_exact _ _ _ _ NT C) as F.
    destruct args as [|a r]; f2inv F; try reflexivity; apply GEN; exact NT.
  - apply GEN; exact NT.
Qed.


(* ---- word facts for the literal rules of _optimize ---- *)
Lemma shift_zero o x : inw x -> arith o = None -> bop_sem o 0 x = x.
Proof.
  intros H A. pose proof H as H'. unfold inw in H'. destruct o; try discriminate A; cbn [bop_sem].
  - unfold w_shl. change (0 <? 256) with true. cbv iota. rewrite Z.pow_0_r, Z.mul_1_r. apply mod_small_W; lia.
  - unfold w_shr. change (0 <? 256) with true. cbv iota. rewrite Z.pow_0_r. apply Z.div_1_r.
  - unfold w_sar. change (0 <? 256) with true. cbv iota. rewrite Z.pow_0_r, Z.div_1_r. apply wrap_to_signed; exact H.
Qed.

Lemma land_floor32 y : inw y -> Z.land y (MAXU - 31) = 32 * (y / 32).
Proof.
  intros H. replace (32 * (y / 32)) with (Z.shiftl (Z.shiftr y 5) 5)
    by (rewrite Z.shiftl_mul_pow2, Z.shiftr_div_pow2 by lia; change (2 ^ 5) with 32; lia).
  change (MAXU - 31) with (Z.shiftl (Z.ones 251) 5).
  apply Z.bits_inj'. intros n Hn. rewrite Z.land_spec, !Z.shiftl_spec by lia.
  destruct (Z_lt_dec n 5).
  - rewrite (Z.testbit_neg_r (Z.ones 251)) by lia. rewrite (Z.testbit_neg_r (Z.shiftr y 5)) by lia. apply andb_false_r.
  - rewrite Z.shiftr_spec by lia. replace (n - 5 + 5) with n by lia.
    rewrite Z.testbit_ones_nonneg by lia. rewrite (word_bits y n H).
    destruct (n <? 256) eqn:E; [apply Z.ltb_lt in E | apply Z.ltb_ge in E].
    + assert (n - 5 <? 251 = true) as -> by (apply Z.ltb_lt; lia). cbn. apply andb_true_r.
    + reflexivity.
Qed.

Lemma W_div32 : W = 32 * (W / 32). Proof. reflexivity. Qed.

Lemma ceil32_fold v : lit_ok v -> lit_ok (ceil32_py v) -> wrap (ceil32_py v) = ceil32_sem (wrap v).
Proof.
  intros Hv Hc. unfold ceil32_sem, w_and, w_add, w_not.
  pose proof (wrap_range v) as R. set (x := wrap v) in *.
  assert (XM: x mod 32 = v mod 32).
  { unfold x, wrap. symmetry. apply Znumtheory.Zmod_div_mod; [lia | wl | exists (W / 32); reflexivity]. }
  assert (XV: exists k, v = x + k * W).
  { exists (v / W). unfold x, wrap. pose proof (Z.div_mod v W ltac:(wl)). lia. }
  destruct XV as [k XV].
  rewrite land_floor32 by (unfold inw; apply Z.mod_pos_bound; wl).
  unfold ceil32_py. rewrite <- XM.
  assert (WQ: W = 32 * (W / 32)) by reflexivity. set (Q := W / 32) in *.
  assert (QP: 0 < Q) by (unfold Q; vm_compute; reflexivity).
  unfold inw in R. unfold wrap.
  pose proof (Z.div_mod x 32 ltac:(lia)) as DX. pose proof (Z.mod_pos_bound x 32 ltac:(lia)) as RX.
  set (q := x / 32) in *. set (r := x mod 32) in *.
  assert (QB: 0 <= q < Q) by nia.
  destruct (r =? 0) eqn:E0; [apply Z.eqb_eq in E0 | apply Z.eqb_neq in E0].
  - (* multiple of 32 *)
    assert ((x + 31) mod W = x + 31) as -> by (apply Z.mod_small; nia).
    replace ((x + 31) / 32) with q by (apply Z.div_unique with (r := 31); lia).
    rewrite XV. rewrite Z.mod_add by wl. rewrite Z.mod_small by lia. lia.
  - rewrite XV. replace (x + k * W + 32 - r) with (x + 32 - r + k * W) by lia. rewrite Z.mod_add by wl.
    destruct (Z_lt_dec (q + 1) Q).
    + assert ((x + 31) mod W = x + 31) as -> by (apply Z.mod_small; nia).
      replace ((x + 31) / 32) with (q + 1) by (apply Z.div_unique with (r := r - 1); lia).
      rewrite Z.mod_small by nia. lia.
    + assert (q = Q - 1) by lia.
      assert ((x + 31) mod W = r - 1) as -> by (symmetry; apply Z.mod_unique with (q := 1); nia).
      rewrite Z.div_small by lia.
      replace (x + 32 - r) with (0 + 1 * W) by nia. rewrite Z.mod_add by wl. reflexivity.
Qed.

Lemma lit_okb_ok t : lit_okb t = true -> lit_ok t.
Proof. unfold lit_okb, lit_ok. intros H. apply andb_true_iff in H. destruct H as [A B]. apply Z.leb_le in A, B. lia. Qed.
Lemma wrap_zero_iff v : lit_ok v -> (wrap v =? 0) = (v =? 0).
Proof.
  intros H. destruct (Z.eqb_spec v 0) as [->|N]; [reflexivity|]. apply Z.eqb_neq.
  destruct (Z_lt_dec v 0); [rewrite wrap_neg by wl; wl | rewrite wrap_small by wl; lia].
Qed.

Lemma mapi_res_crel op (g : nat -> expr -> res (bool * expr)) :
  forall l i rs,
  (forall j a r, wf a -> g j a = Ok r -> eqv (is_truthy (pc_of op j)) a (snd r) /\ wf (snd r)) ->
  Forall wf l -> mapi_res g i l = Ok rs ->
  crel op i l (map snd rs) /\ Forall wf (map snd rs).
Proof.
  induction l as [|a t IH]; intros i rs G W H; cbn [mapi_res] in H.
  - inversion H. cbn. auto.
  - inversion W as [|? ? Wa Wt]; subst.
    destruct (g i a) as [y|] eqn:E; [|discriminate]. cbn [bind] in H.
    destruct (mapi_res g (S i) t) as [ys|] eqn:E2; [|discriminate]. cbn [bind] in H. inversion H; subst.
    destruct (G i a y Wa E) as [Q1 Q2]. destruct (IH (S i) ys G Wt E2) as [R1 R2].
    cbn [map crel]. split; [split; assumption | constructor; assumption].
Qed.

Lemma eval_seq_single x : eqval (Node "seq" [x]) x.
Proof. intros s. reflexivity. Qed.

(* ---- static assertions ---- *)
(* a node that never completes normally *)
Definition always_halts (e : expr) : Prop := forall s, exists h, ev e s = Halt h.
(* e contains -- after sound rewrites -- an assert / assert_unreachable whose condition is always zero (or which
   is never reached because evaluation halts before) *)
Inductive Blame : expr -> Prop :=
| Blame_here op c : (op = "assert"%string \/ op = "assert_unreachable"%string) -> always_halts (Node op [c]) ->
    Blame (Node op [c])
| Blame_child op args a : In a args -> Blame a -> Blame (Node op args)
| Blame_equiv t e e' : eqv t e e' -> Blame e' -> Blame e.

Lemma assert_zero_halts op c v :
  (op = "assert"%string \/ op = "assert_unreachable"%string) ->
  eqv (is_truthy (pc_of op 0)) c (Lit v) -> lit_ok v -> evm_int true v = 0 -> always_halts (Node op [c]).
Proof.
  intros O E Lv Z s. rewrite evm_int_u in Z by exact Lv. specialize (E s). rewrite eval_lit in E.
  destruct O as [-> | ->]; cbn [eval].
  - change (kind_of "assert") with KAssert. cbn iota. unfold bindd. cbn in E.
    destruct (ev c s) as [v0 s1|h]; [|eauto]. destruct E as [-> E]. rewrite Z in E. cbn in E. rewrite E. eauto.
  - change (kind_of "assert_unreachable") with KAssertUnreachable. cbn iota. unfold bindd. cbn in E. rewrite E, Z. cbn. eauto.
Qed.

(* the rule part of _optimize: what it rewrites to is equivalent; what it rejects statically always fails *)
Lemma top_rule_sound cancun pc op argz :
  Forall wf argz ->
  match top_rule cancun pc op argz with
  | AGeneric => True
  | ARe _ new => eqv (is_truthy pc) (Node op argz) new /\ wf new
  | ASingle x => eqv (is_truthy pc) (Node op argz) x /\ wf x
  | AFail Raised => always_halts (Node op argz) /\ exists c, argz = [c] /\
                    (op = "assert"%string \/ op = "assert_unreachable"%string)
  | AFail _ => True
  end.
Proof.
  intros Wz. set (t := is_truthy pc). unfold top_rule.
  destruct (kind_of op) eqn:Kd; try exact I.
  - (* binop *)
    pose proof (kind_inv _ _ Kd) as Nm. cbn in Nm. subst op.
    destruct (arith o) as [p|] eqn:A.
    + destruct argz as [|a [|b [|c0 r0]]]; try exact I.
      inversion Wz as [|? ? Wa Wb']; subst. inversion Wb' as [|? ? Wb _]; subst.
      destruct (opt_binop_sound_all SM OK o a b pc Wa Wb) as (ro & Eo & So). rewrite Eo.
      destruct ro as [e'|]; [|exact I]. exact (So e' eq_refl).
    + destruct argz as [|a [|b [|c0 r0]]]; try exact I.
      destruct (is_lit0 a) eqn:L0; [|exact I].
      destruct a as [[| |]| |]; try discriminate L0.
      inversion Wz as [|? ? Wa Wb']; subst. inversion Wb' as [|? ? Wb _]; subst.
      split; [|exact Wb]. apply eqval_eqv. intros s.
      change (Node (bop_name o) [Lit 0; b]) with (Bin o (Lit 0) b). rewrite eval_bin.
      destruct (ev b s) as [vb s1|] eqn:Eb; [|reflexivity]. rewrite eval_lit. change (wrap 0) with 0.
      rewrite shift_zero; [reflexivity | eapply eval_range; eauto | exact A].
  - (* unop *)
    destruct o; [|exact I].
    destruct argz as [|[v| |] [|x2 rest2]]; try exact I.
    pose proof (kind_inv _ _ Kd) as Nm. cbn in Nm. subst op.
    inversion Wz as [|? ? Wv Wr]; subst. cbn [wf] in Wv.
    split; [|cbn [wf]; destruct (v =? 0); wl].
    apply eqval_eqv. intros s. change (Node "iszero" [Lit v]) with (Un U_iszero (Lit v)).
    rewrite eval_un, !eval_lit. cbn [uop_sem]. unfold w_iszero. rewrite wrap_zero_iff by exact Wv.
    destruct (v =? 0); reflexivity.
  - (* ceil32 *)
    destruct argz as [|[v| |] [|x2 rest2]]; try exact I.
    pose proof (kind_inv _ _ Kd) as Nm. cbn in Nm. subst op.
    inversion Wz as [|? ? Wv Wr]; subst. cbn [wf] in Wv.
    cbn zeta. destruct (lit_okb (ceil32_py v)) eqn:LO; [|exact I]. apply lit_okb_ok in LO.
    split; [|exact LO]. apply eqval_eqv. intros s. cbn [eval]. unfold bindd, ret.
    change (kind_of "ceil32") with KCeil32. cbn iota. rewrite ceil32_fold by assumption. reflexivity.
  - (* seq *)
    pose proof (kind_inv _ _ Kd) as Nm. cbn in Nm. subst op.
    destruct (merges cancun argz) as [[c l]|er] eqn:EM.
    + destruct (merges_ok cancun argz c l Wz EM) as [MQ MW].
      destruct l as [|x [|y l2]].
      * split; [apply eqval_eqv; exact MQ | apply (proj2 (wf_node _ _)); exact MW].
      * inversion MW as [|? ? Wx _]; subst. split; [|exact Wx].
        eapply eqv_trans; [apply eqval_eqv; exact MQ | apply eqval_eqv; apply eval_seq_single].
      * split; [apply eqval_eqv; exact MQ | apply (proj2 (wf_node _ _)); exact MW].
    + (* the merges never raise a static assertion *)
      destruct er; try exact I. exfalso. revert EM. apply merges_not_raised.
  - (* if *)
    pose proof (kind_inv _ _ Kd) as Nm. cbn in Nm. subst op.
    assert (LITC: forall v, lit_ok v -> (evm_int true v =? 0) = (wrap v =? 0)) by (intros v Lv; rewrite evm_int_u by exact Lv; reflexivity).
    destruct argz as [|c [|t1 [|fl [|g rest]]]]; try exact I.
    + destruct c; exact I.
    + destruct c as [v| |]; try exact I.
      inversion Wz as [|? ? Wv Wr]; subst. inversion Wr as [|? ? Wt _]; subst. cbn [wf] in Wv.
      destruct (evm_int true v =? 0) eqn:EZ; rewrite (LITC v Wv) in EZ.
      * split; [|cbn; exact I]. apply eqval_eqv. intros s. cbn [eval].
        change (kind_of "if") with KIf. change (kind_of "seq") with KSeq. cbn iota. unfold bindd, ret. cbn [map seq_den]. rewrite EZ. reflexivity.
      * split; [|apply (proj2 (wf_node _ _)); constructor; auto]. apply eqval_eqv. intros s. cbn [eval].
        change (kind_of "if") with KIf. change (kind_of "seq") with KSeq. cbn iota. unfold bindd, ret. cbn [map seq_den]. rewrite EZ. reflexivity.
    + inversion Wz as [|? ? Wc Wr]; subst. inversion Wr as [|? ? Wt Wr2]; subst. inversion Wr2 as [|? ? Wf _]; subst.
      destruct c as [v| |].
      * cbn [wf] in Wc. destruct (evm_int true v =? 0) eqn:EZ; rewrite (LITC v Wc) in EZ.
        -- split; [|apply (proj2 (wf_node _ _)); constructor; auto]. apply eqval_eqv. intros s. cbn [eval].
           change (kind_of "if") with KIf. change (kind_of "seq") with KSeq. cbn iota. unfold bindd, ret. cbn [map seq_den]. rewrite EZ. reflexivity.
        -- split; [|apply (proj2 (wf_node _ _)); constructor; auto]. apply eqval_eqv. intros s. cbn [eval].
           change (kind_of "if") with KIf. change (kind_of "seq") with KSeq. cbn iota. unfold bindd, ret. cbn [map seq_den]. rewrite EZ. reflexivity.
      * cbn [head_is]. split.
        -- apply eqval_eqv. intros s. cbn [eval]. change (kind_of "if") with KIf. change (kind_of "iszero") with (KUn U_iszero).
           cbn iota. unfold bindd, ret. cbn [uop_sem]. unfold w_iszero.
           destruct (wrap (getvar SM s x) =? 0); reflexivity.
        -- apply (proj2 (wf_node _ _)). repeat constructor; auto.
      * destruct (head_is (Node op args) ["iszero"; "ne"]%string); [exact I|]. split.
        -- apply eqval_eqv. intros s. cbn [eval]. change (kind_of "if") with KIf. change (kind_of "iszero") with (KUn U_iszero).
           cbn iota. unfold bindd, ret.
           match goal with |- context[match ?d s with _ => _ end] => destruct (d s) as [vc s1|] end; [|reflexivity].
           cbn [uop_sem]. unfold w_iszero. destruct (vc =? 0); reflexivity.
        -- apply (proj2 (wf_node _ _)). constructor; [|constructor; [|constructor]]; auto.
           apply (proj2 (wf_node _ _)). constructor; auto.
    + destruct c; exact I.
  - (* assert *)
    pose proof (kind_inv _ _ Kd) as Nm. cbn in Nm. subst op.
    destruct argz as [|[v| |] [|x2 rest2]]; try exact I.
    inversion Wz as [|? ? Wv Wr]; subst. cbn [wf] in Wv.
    destruct (evm_int true v =? 0) eqn:EZ.
    + apply Z.eqb_eq in EZ. split; [|eauto]. apply (assert_zero_halts "assert" (Lit v) v); auto. apply eqv_refl.
    + rewrite evm_int_u in EZ by exact Wv.
      split; [|cbn; exact I]. apply eqval_eqv. intros s. cbn [eval].
      change (kind_of "assert") with KAssert. change (kind_of "seq") with KSeq. cbn iota. unfold bindd, ret. cbn [map seq_den]. rewrite EZ. reflexivity.
  - (* assert_unreachable *)
    pose proof (kind_inv _ _ Kd) as Nm. cbn in Nm. subst op.
    destruct argz as [|[v| |] [|x2 rest2]]; try exact I.
    inversion Wz as [|? ? Wv Wr]; subst. cbn [wf] in Wv.
    destruct (evm_int true v =? 0) eqn:EZ.
    + apply Z.eqb_eq in EZ. split; [|eauto]. apply (assert_zero_halts "assert_unreachable" (Lit v) v); auto. apply eqv_refl.
    + rewrite evm_int_u in EZ by exact Wv.
      split; [|cbn; exact I]. apply eqval_eqv. intros s. cbn [eval].
      change (kind_of "assert_unreachable") with KAssertUnreachable. change (kind_of "seq") with KSeq. cbn iota. unfold bindd, ret. cbn [map seq_den]. rewrite EZ. reflexivity.
Qed.

(* result specification of _optimize: a returned tree is equivalent; a StaticAssertionException blames an assert *)
Definition spec (t : bool) (e : expr) (r : res (bool * expr)) : Prop :=
  match r with
  | Ok r => eqv t e (snd r) /\ wf (snd r)
  | Err Raised => Blame e
  | Err _ => True
  end.

Lemma mapi_res_spec op (g : nat -> expr -> res (bool * expr)) :
  forall l i,
  (forall j a, wf a -> spec (is_truthy (pc_of op j)) a (g j a)) ->
  Forall wf l ->
  match mapi_res g i l with
  | Ok rs => crel op i l (map snd rs) /\ Forall wf (map snd rs)
  | Err Raised => exists a, In a l /\ Blame a
  | Err _ => True
  end.
Proof.
  induction l as [|a t IH]; intros i G W; cbn [mapi_res]; [cbn; auto|].
  inversion W as [|? ? Wa Wt]; subst. pose proof (G i a Wa) as Ga. unfold spec in Ga.
  destruct (g i a) as [y|er]; cbn [bind].
  - specialize (IH (S i) G Wt). destruct (mapi_res g (S i) t) as [ys|er2]; cbn [bind].
    + destruct IH as [R1 R2]. destruct Ga as [Q1 Q2]. cbn [map crel]. split; [split; assumption | constructor; assumption].
    + destruct er2; try exact I. destruct IH as (b & Ib & Bb). exists b. split; [right; exact Ib | exact Bb].
  - destruct er; try exact I. exists a. split; [left; reflexivity | exact Ga].
Qed.

Theorem opt_spec fuel : forall cancun pc e, wf e -> spec (is_truthy pc) e (opt fuel cancun pc e).
Proof.
  induction fuel as [|f IH]; intros cancun pc e W; [exact I|].
  destruct e as [v|x|op args]; try (cbn; split; [apply eqv_refl | exact W]).
  cbn [opt]. apply wf_node in W.
  destruct (usyms (Node op args)) as [starting|er0] eqn:EU; cbn [bind].
  2:{ rewrite (usyms_err _ _ EU). exact I. }
  pose proof (mapi_res_spec op (fun i a => opt f cancun (pc_of op i) a) args 0
                (fun j a Wa => IH cancun (pc_of op j) a Wa) W) as MS.
  destruct (mapi_res (fun i a => opt f cancun (pc_of op i) a) 0 args) as [rs|er]; cbn [bind].
  2:{ destruct er; try exact I. destruct MS as (a & Ia & Ba). cbn. eapply Blame_child; eauto. }
  destruct MS as [CR Wz].
  set (argz := map snd rs) in *. set (ac := existsb fst rs) in *.
  pose proof (node_congr op args argz CR) as B.
  set (t := is_truthy pc).
  assert (REC: forall new, eqv t (Node op args) new -> wf new ->
            spec t (Node op args) (r <- opt f cancun pc new ;; Ok (true, snd r))).
  { intros new E Wn. pose proof (IH cancun pc new Wn) as S. fold t in S.
    destruct (opt f cancun pc new) as [r1|er]; cbn [bind spec] in *.
    - destruct S as [Q1 Q2]. cbn [snd]. split; [eapply eqv_trans; eauto | exact Q2].
    - destruct er; try exact I. eapply Blame_equiv; eauto. }
  assert (FIN: forall changed new, eqv t (Node op argz) new -> wf new ->
            spec t (Node op args) (fin_ (opt f cancun pc) (Node op args) ac changed new)).
  { intros changed new E Wn. unfold fin_. destruct (negb changed && negb ac).
    - cbn. split; [apply eqv_refl | apply (proj2 (wf_node op args)); exact W].
    - apply REC; [|exact Wn]. eapply eqv_trans; [apply eqval_eqv; exact B | exact E]. }
  pose proof (top_rule_sound cancun pc op argz Wz) as TR. fold t in TR.
  destruct (top_rule cancun pc op argz) as [|c new|x|er].
  - apply FIN; [apply eqv_refl | apply (proj2 (wf_node op argz)); exact Wz].
  - destruct TR as [Q1 Q2].
    match goal with |- spec _ _ (if ?c then _ else _) => destruct c end; [|apply FIN; assumption].
    destruct (usyms_union argz) as [st|er2] eqn:EA; cbn [bind]; [|rewrite (usyms_union_err _ _ EA); exact I].
    destruct (usyms new) as [now|er1] eqn:EN; cbn [bind]; [|rewrite (usyms_err _ _ EN); exact I].
    destruct (same_set st now); [apply FIN; assumption | exact I].
  - destruct TR as [Q1 Q2]. apply REC; [|exact Q2]. eapply eqv_trans; [apply eqval_eqv; exact B | exact Q1].
  - destruct er; try exact I. destruct TR as [AH (c & EA & O)]. cbn.
    apply (Blame_equiv t _ (Node op argz)); [apply eqval_eqv; exact B|].
    rewrite EA in *. apply Blame_here; assumption.
Qed.

(* optimize_sound (Ok results) *)
Theorem opt_sound fuel : forall cancun pc e r,
  wf e -> opt fuel cancun pc e = Ok r -> eqv (is_truthy pc) e (snd r) /\ wf (snd r).
Proof. intros cancun pc e r W H. pose proof (opt_spec fuel cancun pc e W) as S. rewrite H in S. exact S. Qed.
(* StaticAssertionException is raised only when the tree contains, after sound rewrites, an assertion that cannot
   succeed *)
Theorem opt_raised fuel : forall cancun pc e, wf e -> opt fuel cancun pc e = Err Raised -> Blame e.
Proof. intros cancun pc e W H. pose proof (opt_spec fuel cancun pc e W) as S. rewrite H in S. exact S. Qed.

(* optimizer.optimize *)
Theorem optimize_sound_gen cancun e e' :
  wf e -> optimize cancun e = Ok e' -> eqval e e' /\ wf e'.
Proof.
  unfold optimize. intros W H. destruct (opt 64 cancun PNone e) as [r|] eqn:E; [|discriminate].
  cbn [bind] in H. inversion H; subst e'. exact (opt_sound 64 cancun PNone e r W E).
Qed.
Theorem optimize_raised_gen cancun e : wf e -> optimize cancun e = Err Raised -> Blame e.
Proof.
  unfold optimize. intros W H. destruct (opt 64 cancun PNone e) as [r|er] eqn:E; [discriminate|].
  cbn [bind] in H. inversion H; subst er. exact (opt_raised 64 cancun PNone e W E).
Qed.
End T.
