(* C17: compile-time evaluation agrees with run-time evaluation.
   Compile-time side: GenFold.v (regenerated from /repo: Operator._op, evm_div, builtin _try_fold bodies)
   wrapped by FoldModel.v (shift-bound check of visit_BinOp, literal range check = `typed T`).
   Run-time side: ArithSpec.v (exact-or-revert).  `agrees f s` = whenever the fold yields the value v
   (and v passes the literal range check for T), run time yields v as well; hence never two different
   values, and at most the compiler rejects more.  Oracles g (Pow's float hang guard, min/max's
   get_common_types) are universally quantified: the theorems hold whatever they answer. *)
From Coq Require Import ZArith Bool List.
From Verif Require Import Base.PyInt C17.ArithSpec C17.GenFold C17.FoldModel C17.FoldAgree.
Import ListNotations.
Open Scope Z_scope.

Theorem fold_binop_agrees :
  forall (g : oracle) T op a b, ty_ok T -> in_range T a = true -> operand2_ok T op b ->
    agrees (typed T (fold_binop g op a b)) (arith_spec T op a b) /\
    (forall w, arith_spec T op a b = Some w ->
       typed T (fold_binop g op a b) = Ok w \/ exists e, typed T (fold_binop g op a b) = Err e).
Proof.
  intros. split. now apply fold_binop_agrees_lemma. intros. now apply fold_binop_runtime_value.
Qed.
Print Assumptions fold_binop_agrees.

Theorem fold_unop_agrees :
  forall T op a, ty_ok T -> in_range T a = true -> (op = UInvert -> T = U256) ->
    agrees (typed T (fold_unop op a)) (unop_spec T op a).
Proof. exact fold_unop_agrees_lemma. Qed.
Print Assumptions fold_unop_agrees.

Theorem fold_compare_agrees : forall op a b, fold_cmp op a b = Ok (cmp_spec op a b).
Proof. exact fold_cmp_agrees_lemma. Qed.
Print Assumptions fold_compare_agrees.

Theorem fold_boolop_agrees :
  forall l, And_op l = Ok (fold_right andb true l) /\ Or_op l = Ok (fold_right orb false l) /\
            forall b, Not_op b = Ok (negb b).
Proof. exact fold_boolop_agrees_lemma. Qed.

Theorem fold_min_agrees : forall (g : oracle) T a b, agrees (typed T (Min_fold g a b)) (min_spec T a b).
Proof. exact fold_min_agrees_lemma. Qed.
Theorem fold_max_agrees : forall (g : oracle) T a b, agrees (typed T (Max_fold g a b)) (max_spec T a b).
Proof. exact fold_max_agrees_lemma. Qed.
Theorem fold_abs_agrees : forall T a, agrees (typed T (Abs_fold a)) (abs_spec T a).
Proof. exact fold_abs_agrees_lemma. Qed.
Theorem fold_shift_agrees : forall T x n, ty_ok T -> bits T = 256 -> in_range T x = true ->
  agrees (typed T (Shift_fold x n)) (shift_spec T x n).
Proof. exact fold_shift_agrees_lemma. Qed.
Theorem fold_uint256_addmod_agrees : forall a b c, agrees (AddMod_fold a b c) (addmod_spec a b c).
Proof. exact fold_addmod_agrees_lemma. Qed.
Theorem fold_uint256_mulmod_agrees : forall a b c, agrees (MulMod_fold a b c) (mulmod_spec a b c).
Proof. exact fold_mulmod_agrees_lemma. Qed.
Theorem fold_pow_mod256_agrees : forall a b, agrees (PowMod256_fold a b) (powmod256_spec a b).
Proof. exact fold_powmod256_agrees_lemma. Qed.
Theorem fold_as_wei_value_agrees : forall denom v u,
  agrees (typed U256 (AsWeiValue_fold denom v u)) (as_wei_spec v denom).
Proof. exact fold_as_wei_agrees_lemma. Qed.
Print Assumptions fold_shift_agrees.
Print Assumptions fold_pow_mod256_agrees.

(* decimals: hand model (not regenerated), see FoldModel.v *)
Theorem fold_decimal_agrees_handmodel : forall op a b, agrees (dtyped (dec_fold op a b)) (dec_spec op a b).
Proof. exact fold_decimal_agrees_lemma. Qed.
Theorem fold_floor_ceil_agrees_handmodel : forall a,
  floor_fold a = Ok (floor_spec a) /\ ceil_fold a = Ok (ceil_spec a).
Proof. exact fold_floor_ceil_agrees_lemma. Qed.

(* non-vacuity: the hypotheses are satisfiable, both sides do yield values, and both sides do reject *)
Definition g0 : oracle := fun _ _ => Ok false.
Example fold_nonvacuous :
  let I8 := mk_ity true 8 in
  ty_ok I8 /\ in_range I8 (-128) = true /\ operand2_ok I8 BFloorDiv 3 /\
  typed I8 (fold_binop g0 BFloorDiv (-128) 3) = Ok (-42) /\ arith_spec I8 BFloorDiv (-128) 3 = Some (-42) /\
  typed I8 (fold_binop g0 BMod (-7) 3) = Ok (-1) /\
  (exists e, typed I8 (fold_binop g0 BFloorDiv (-128) (-1)) = Err e) /\ arith_spec I8 BFloorDiv (-128) (-1) = None /\
  typed U256 (fold_unop UInvert 5) = Ok (2 ^ 256 - 6) /\
  typed I256 (Shift_fold (-8) (-1)) = Ok (-4) /\
  typed I8 (fold_binop g0 BPow (-2) 7) = Ok (-128).
Proof.
  cbv zeta. unfold ty_ok, operand2_ok. cbn [bits is_shift].
  repeat split; try (vm_compute; reflexivity); try (vm_compute; intro; discriminate).
  eexists. vm_compute. reflexivity.
Qed.
