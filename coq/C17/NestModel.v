(* C17 (extension, session 3): NESTED constant expressions.
   Compile-time side, two passes as in the source:
     fold_e / fold_b   = ConstantFolder.visit (semantics/analysis/constant_folding.py): children first, then the node's
                         visitor on the children's folded values; values are unbounded Python ints, NO range check;
                         the per-node kernels are the regenerated ones of GenFold.v behind FoldModel.v / ConvModel.v / MiscModel.v.
     tc / tcb          = ExprVisitor.visit (semantics/analysis/local.py): the node is visited at its expected type, the
                         children at the types the visit_* methods hand down, and AFTER that
                         "if node.has_folded_value: self.visit(folded_node, typ)" validates the folded value of EVERY node
                         (NumericT.validate_literal: lower <= value <= upper) -- the rule that rejects out-of-range intermediates.
   Run-time side: eval / evalb = the same tree with every leaf supplied as a non-constant of the node's type, each operator
   application by the exact-or-revert specifications of ArithSpec.v / ConvSpec.v (bottom-up, `and`/`or` short-circuit).
   Named constants (`K: constant(T) = e`, referenced by name, possibly through other constants) are transparent: a reference
   folds to the folded value of the defining expression, which was itself checked at T (ENamed / BNamed).
   Hand-written (H-tie: differential against the real front end + paired probes, tools/vlib/c17_nest.py).  No proofs here. *)
From Coq Require Import ZArith Bool List.
From Verif Require Import Base.PyInt C17.ArithSpec C17.ConvSpec C17.GenFold C17.FoldModel C17.ConvModel C17.MiscModel.
Import ListNotations.
Open Scope Z_scope.

Inductive sop : Set := SShl | SShr.
Definition binop_of (o : sop) : binop := match o with SShl => BShl | SShr => BShr end.

(* decimal trees (values scaled by 10^10; kernels: the hand models dec_fold / floor_fold / ceil_fold / dec_cmp_fold /
   dec_min_fold / as_wei_dec_fold of FoldModel.v and MiscModel.v) *)
Inductive dex : Set :=
| DLit (V : Z)
| DNamed (d : dex)
| DBin (op : dbinop) (a b : dex)            (* + - * / % *)
| DNeg (a : dex)
| DMinMax (mx : bool) (a b : dex).          (* min / max *)

Inductive ex : Set :=
| ELit (v : Z)                               (* Int literal as the PARSER delivers it: ast/parse.py visit_UnaryOp collapses unary
                                                minus over a numeric literal bottom-up, so -(-(-5)) is the one literal -5 *)
| ENamed (d : ex)                            (* reference to a named constant defined by d *)
| EBin (op : binop) (a b : ex)               (* + - * // % ** & | ^ : both operands at the node's type *)
| EShf (op : sop) (a : ex) (Tr : ity) (b : ex)   (* << >> : the amount has its own type Tr *)
| EUn (op : unop) (a : ex)
| EMin (a b : ex) | EMax (a b : ex) | EAbs (a : ex)
| EShift (a : ex) (Tn : ity) (n : ex)        (* shift(a, n) *)
| EAddMod (a b c : ex) | EMulMod (a b c : ex) | EPowMod (a b : ex)   (* arguments uint256 *)
| EIdx (l : exl) (Ti : ity) (i : ex)         (* [e0, e1, ..][i] *)
| EFloor (d : dex) | ECeil (d : dex)         (* floor / ceil of a decimal tree : int256 *)
| ELen (bs : list Z)                         (* len(<Str / Bytes / HexBytes literal or named constant>) *)
| EBound (mx : bool) (Tb : ity)              (* min_value(Tb) / max_value(Tb) *)
| EAsWei (Ta : ity) (a : ex) (denom : Z)     (* as_wei_value(<integer tree of type Ta>, unit) *)
| EAsWeiD (d : dex) (denom : Z)              (* as_wei_value(<decimal tree>, unit) *)
with exl : Set := LNil | LCons (e : ex) (l : exl).

(* ---- visit_Compare on non-integer literal kinds (== != in not-in): Decimal (scaled by 10^10), Hex (bytesM / address: the
   characters after 0x, as ASCII codes), Str, Bytes (byte values), NameConstant.  Hex values are the SOURCE TEXT and are
   lower-cased before the comparison (== != and, since 70929bb, in / not in); nothing else is.  Different literal kinds:
   UnfoldableNode.  Run time compares the denoted bytes: for a hex literal the sequence of its nibbles. *)
Inductive cval : Set :=
| VDec (V : Z) | VHex (cs : list Z) | VStr (cs : list Z) | VBytes (bs : list Z) | VBool (b : bool).
Definition lower (c : Z) : Z := if (65 <=? c) && (c <=? 90) then c + 32 else c.          (* str.lower() on ASCII *)
Definition is_hexdigit (c : Z) : bool :=
  ((48 <=? c) && (c <=? 57)) || ((65 <=? c) && (c <=? 70)) || ((97 <=? c) && (c <=? 102)).
Definition nib (c : Z) : Z := if c <=? 57 then c - 48 else if c <=? 70 then c - 55 else c - 87.
Fixpoint leqb (a b : list Z) : bool :=
  match a, b with
  | [], [] => true
  | x :: a', y :: b' => (x =? y) && leqb a' b'
  | _, _ => false
  end.
(* Python == on the two .value objects after the Hex rule *)
Definition veq_fold (l r : cval) : res bool :=
  match l, r with
  | VDec a, VDec b => Ok (a =? b)
  | VHex a, VHex b => Ok (leqb (map lower a) (map lower b))
  | VStr a, VStr b => Ok (leqb a b)
  | VBytes a, VBytes b => Ok (leqb a b)
  | VBool a, VBool b => Ok (Bool.eqb a b)
  | _, _ => Err Raised
  end.
Definition cmpv_fold (neg : bool) (l r : cval) : res bool := b <- veq_fold l r ;; Ok (if neg then negb b else b).
(* `left in [..]`: any element equal (Python list membership on the values) *)
Fixpoint inv_any (x : cval) (l : list cval) : res bool :=
  match l with
  | [] => Ok false
  | y :: r => b <- veq_fold x y ;; bs <- inv_any x r ;; Ok (b || bs)
  end.
Definition inv_fold (neg : bool) (x : cval) (l : list cval) : res bool := b <- inv_any x l ;; Ok (if neg then negb b else b).
(* run time: equality of the denoted values *)
Definition veq_spec (l r : cval) : option bool :=
  match l, r with
  | VDec a, VDec b => Some (a =? b)
  | VHex a, VHex b => Some (leqb (map nib a) (map nib b))
  | VStr a, VStr b => Some (leqb a b)
  | VBytes a, VBytes b => Some (leqb a b)
  | VBool a, VBool b => Some (Bool.eqb a b)
  | _, _ => None
  end.
Fixpoint inv_spec (x : cval) (l : list cval) : option bool :=
  match l with
  | [] => Some false
  | y :: r => match veq_spec x y, inv_spec x r with Some b, Some bs => Some (b || bs) | _, _ => None end
  end.
Definition wfv (v : cval) : bool := match v with VHex cs => forallb is_hexdigit cs | _ => true end.

Inductive bex : Set :=
| BLit (b : bool)
| BNamed (d : bex)
| BCmp (op : cmpop) (Tc : ity) (a b : ex)    (* Tc = the common type the checker picks for both operands *)
| BIn (neg : bool) (Tc : ity) (a : ex) (l : exl)   (* a in [..] / a not in [..] *)
| BCmpD (op : cmpop) (a b : dex)             (* comparison of two decimal trees *)
| BCmpV (neg : bool) (l r : cval)              (* == / != on two literals / named constants of a non-integer kind *)
| BInV (neg : bool) (x : cval) (l : list cval)   (* in / not in a list of such literals *)
| BNot (a : bex)
| BConj (l : bexl) | BDisj (l : bexl)           (* BoolOp with n values *)
with bexl : Set := BNil | BCons (b : bex) (l : bexl).

Scheme ex_mind := Induction for ex Sort Prop with exl_mind := Induction for exl Sort Prop.
Combined Scheme ex_exl_ind from ex_mind, exl_mind.
Scheme bex_mind := Induction for bex Sort Prop with bexl_mind := Induction for bexl Sort Prop.
Combined Scheme bex_bexl_ind from bex_mind, bexl_mind.

Section Fold.
Variables gp gm : oracle.    (* Pow's float guard, min/max's get_common_types: arbitrary *)

(* ---- pass 1: ConstantFolder *)
Fixpoint fold_d (e : dex) : res Z :=
  match e with
  | DLit V => Ok V
  | DNamed d => fold_d d
  | DBin op a b => x <- fold_d a ;; y <- fold_d b ;; dec_fold op x y
  | DNeg a => x <- fold_d a ;; USub_op x
  | DMinMax mx a b => x <- fold_d a ;; y <- fold_d b ;; (if mx then dec_max_fold gm x y else dec_min_fold gm x y)
  end.

Fixpoint fold_e (e : ex) : res Z :=
  match e with
  | ELit v => Ok v
  | ENamed d => fold_e d
  | EBin op a b => x <- fold_e a ;; y <- fold_e b ;; fold_binop gp op x y
  | EShf op a _ b => x <- fold_e a ;; y <- fold_e b ;; fold_binop gp (binop_of op) x y
  | EUn op a => x <- fold_e a ;; fold_unop op x
  | EMin a b => x <- fold_e a ;; y <- fold_e b ;; Min_fold gm x y
  | EMax a b => x <- fold_e a ;; y <- fold_e b ;; Max_fold gm x y
  | EAbs a => x <- fold_e a ;; Abs_fold x
  | EShift a _ n => x <- fold_e a ;; k <- fold_e n ;; Shift_fold x k
  | EAddMod a b c => x <- fold_e a ;; y <- fold_e b ;; z <- fold_e c ;; AddMod_fold x y z
  | EMulMod a b c => x <- fold_e a ;; y <- fold_e b ;; z <- fold_e c ;; MulMod_fold x y z
  | EPowMod a b => x <- fold_e a ;; y <- fold_e b ;; PowMod256_fold x y
  | EIdx l _ i => vs <- fold_l l ;; j <- fold_e i ;; fold_index vs j
  | EFloor d => x <- fold_d d ;; floor_fold x
  | ECeil d => x <- fold_d d ;; ceil_fold x
  | ELen bs => len_fold bs
  | EBound mx Tb => if mx then max_value_fold Tb else min_value_fold Tb
  | EAsWei _ a denom => x <- fold_e a ;; AsWeiValue_fold denom x 0
  | EAsWeiD d denom => x <- fold_d d ;; as_wei_dec_fold denom x
  end
with fold_l (l : exl) : res (list Z) :=
  match l with
  | LNil => Ok []
  | LCons e r => x <- fold_e e ;; xs <- fold_l r ;; Ok (x :: xs)
  end.

Fixpoint fold_b (b : bex) : res bool :=
  match b with
  | BLit v => Ok v
  | BNamed d => fold_b d
  | BCmp op _ a c => x <- fold_e a ;; y <- fold_e c ;; fold_cmp op x y
  | BIn neg _ a l => x <- fold_e a ;; xs <- fold_l l ;; (if neg then notin_fold x xs else in_fold x xs)
  | BCmpD op a c => x <- fold_d a ;; y <- fold_d c ;; dec_cmp_fold op x y
  | BCmpV neg l r => cmpv_fold neg l r
  | BInV neg x l => inv_fold neg x l
  | BNot a => x <- fold_b a ;; Not_op x
  | BConj l => xs <- fold_bl l ;; And_op xs
  | BDisj l => xs <- fold_bl l ;; Or_op xs
  end
with fold_bl (l : bexl) : res (list bool) :=
  match l with
  | BNil => Ok []
  | BCons b r => x <- fold_b b ;; xs <- fold_bl r ;; Ok (x :: xs)
  end.

(* ---- pass 2: the type checker's validation of every node's folded value *)
Definition okv (T : ity) (r : res Z) : bool := match r with Ok v => in_range T v | Err _ => false end.
Definition okb (r : res bool) : bool := match r with Ok _ => true | Err _ => false end.

Definition okd (r : res Z) : bool := match dtyped r with Ok _ => true | Err _ => false end.
Fixpoint tcd (e : dex) : bool :=
  okd (fold_d e) &&
  match e with
  | DLit _ => true
  | DNamed d => tcd d
  | DBin _ a b => tcd a && tcd b
  | DNeg a => tcd a
  | DMinMax _ a b => tcd a && tcd b
  end.

Fixpoint tc (T : ity) (e : ex) : bool :=
  okv T (fold_e e) &&
  match e with
  | ELit _ => true
  | ENamed d => tc T d
  | EBin _ a b => tc T a && tc T b
  | EShf _ a Tr b => tc T a && tc Tr b
  | EUn _ a => tc T a
  | EMin a b | EMax a b => tc T a && tc T b
  | EAbs a => tc T a
  | EShift a Tn n => tc T a && tc Tn n
  | EAddMod a b c | EMulMod a b c => tc U256 a && tc U256 b && tc U256 c
  | EPowMod a b => tc U256 a && tc U256 b
  | EIdx l Ti i => tcl T l && tc Ti i
  | EFloor d | ECeil d => tcd d
  | ELen _ | EBound _ _ => true
  | EAsWei Ta a _ => tc Ta a
  | EAsWeiD d _ => tcd d
  end
with tcl (T : ity) (l : exl) : bool :=
  match l with LNil => true | LCons e r => tc T e && tcl T r end.

Fixpoint tcb (b : bex) : bool :=
  okb (fold_b b) &&
  match b with
  | BLit _ => true
  | BNamed d => tcb d
  | BCmp _ Tc a c => tc Tc a && tc Tc c
  | BIn _ Tc a l => tc Tc a && tcl Tc l
  | BCmpD _ a c => tcd a && tcd c
  | BCmpV _ _ _ | BInV _ _ _ => true
  | BNot a => tcb a
  | BConj l | BDisj l => tcbl l
  end
with tcbl (l : bexl) : bool :=
  match l with BNil => true | BCons b r => tcb b && tcbl r end.

End Fold.

(* ---- shapes the model speaks about (every Vyper integer type satisfies tyb; ~ folds for uint256 only; shift() is
   defined on the 256-bit types; << >> go through EShf) *)
Definition tyb (T : ity) : bool := (8 <=? bits T) && (bits T <=? 256).
Definition ity_eqb (A B : ity) : bool := Bool.eqb (sgn A) (sgn B) && (bits A =? bits B).

Fixpoint wf (T : ity) (e : ex) : bool :=
  tyb T &&
  match e with
  | ELit _ => true
  | ENamed d => wf T d
  | EBin op a b => negb (is_shift op) && wf T a && wf T b
  | EShf _ a Tr b => wf T a && wf Tr b
  | EUn op a => (match op with UInvert => ity_eqb T U256 | UNeg => true end) && wf T a
  | EMin a b | EMax a b => wf T a && wf T b
  | EAbs a => wf T a
  | EShift a Tn n => (bits T =? 256) && wf T a && wf Tn n
  | EAddMod a b c | EMulMod a b c => wf U256 a && wf U256 b && wf U256 c
  | EPowMod a b => wf U256 a && wf U256 b
  | EIdx l Ti i => wfl T l && wf Ti i
  | EFloor _ | ECeil _ | ELen _ | EAsWeiD _ _ => true
  | EBound _ Tb => 1 <=? bits Tb
  | EAsWei Ta a _ => ity_eqb T U256 && wf Ta a
  end
with wfl (T : ity) (l : exl) : bool :=
  match l with LNil => true | LCons e r => wf T e && wfl T r end.

Fixpoint wfb (b : bex) : bool :=
  match b with
  | BLit _ => true
  | BNamed d => wfb d
  | BCmp _ Tc a c => wf Tc a && wf Tc c
  | BIn _ Tc a l => wf Tc a && wfl Tc l
  | BCmpD _ _ _ => true
  | BCmpV _ l r => wfv l && wfv r
  | BInV _ x l => wfv x && forallb wfv l
  | BNot a => wfb a
  | BConj l | BDisj l => wfbl l
  end
with wfbl (l : bexl) : bool :=
  match l with BNil => true | BCons b r => wfb b && wfbl r end.

(* ---- run time: the same tree over non-constant leaves *)
Definition obind {A B} (m : option A) (f : A -> option B) : option B := match m with Some x => f x | None => None end.

Fixpoint evald (e : dex) : option Z :=
  match e with
  | DLit V => dchk V
  | DNamed d => evald d
  | DBin op a b => obind (evald a) (fun x => obind (evald b) (fun y => dec_spec op x y))
  | DNeg a => obind (evald a) (fun x => dchk (- x))
  | DMinMax mx a b => obind (evald a) (fun x => obind (evald b) (fun y => if mx then dec_max_spec x y else dec_min_spec x y))
  end.

Fixpoint eval (T : ity) (e : ex) : option Z :=
  match e with
  | ELit v => chk T v                              (* an ABI-valid argument / variable of type T *)
  | ENamed d => eval T d
  | EBin op a b => obind (eval T a) (fun x => obind (eval T b) (fun y => arith_spec T op x y))
  | EShf op a Tr b => obind (eval T a) (fun x => obind (eval Tr b) (fun y => arith_spec T (binop_of op) x y))
  | EUn op a => obind (eval T a) (fun x => unop_spec T op x)
  | EMin a b => obind (eval T a) (fun x => obind (eval T b) (fun y => min_spec T x y))
  | EMax a b => obind (eval T a) (fun x => obind (eval T b) (fun y => max_spec T x y))
  | EAbs a => obind (eval T a) (fun x => abs_spec T x)
  | EShift a Tn n => obind (eval T a) (fun x => obind (eval Tn n) (fun k => shift_spec T x k))
  | EAddMod a b c => obind (eval U256 a) (fun x => obind (eval U256 b) (fun y => obind (eval U256 c) (fun z =>
                       obind (addmod_spec x y z) (chk T))))
  | EMulMod a b c => obind (eval U256 a) (fun x => obind (eval U256 b) (fun y => obind (eval U256 c) (fun z =>
                       obind (mulmod_spec x y z) (chk T))))
  | EPowMod a b => obind (eval U256 a) (fun x => obind (eval U256 b) (fun y => obind (powmod256_spec x y) (chk T)))
  | EIdx l Ti i => obind (eval_l T l) (fun vs => obind (eval Ti i) (fun j => index_spec vs j))
  | EFloor d => obind (evald d) (fun x => chk T (floor_spec x))
  | ECeil d => obind (evald d) (fun x => chk T (ceil_spec x))
  | ELen bs => chk T (len_spec bs)
  | EBound mx Tb => chk T (if mx then hi Tb else lo Tb)
  | EAsWei Ta a denom => obind (eval Ta a) (fun x => obind (as_wei_spec x denom) (chk T))
  | EAsWeiD d denom => obind (evald d) (fun x => obind (as_wei_dec_spec x denom) (chk T))
  end
with eval_l (T : ity) (l : exl) : option (list Z) :=
  match l with
  | LNil => Some []
  | LCons e r => obind (eval T e) (fun x => obind (eval_l T r) (fun xs => Some (x :: xs)))
  end.

Fixpoint evalb (b : bex) : option bool :=
  match b with
  | BLit v => Some v
  | BNamed d => evalb d
  | BCmp op Tc a c => obind (eval Tc a) (fun x => obind (eval Tc c) (fun y => Some (cmp_spec op x y)))
  | BIn neg Tc a l => obind (eval Tc a) (fun x => obind (eval_l Tc l) (fun xs =>
                        Some (if neg then negb (in_spec x xs) else in_spec x xs)))
  | BCmpD op a c => obind (evald a) (fun x => obind (evald c) (fun y => Some (dec_cmp_spec op x y)))
  | BCmpV neg l r => obind (veq_spec l r) (fun b => Some (if neg then negb b else b))
  | BInV neg x l => obind (inv_spec x l) (fun b => Some (if neg then negb b else b))
  | BNot a => obind (evalb a) (fun x => Some (negb x))
  | BConj l => eval_and l
  | BDisj l => eval_or l
  end
with eval_and (l : bexl) : option bool :=      (* short-circuit: operands after the first False are not evaluated *)
  match l with
  | BNil => Some true
  | BCons b r => obind (evalb b) (fun x => if x then eval_and r else Some false)
  end
with eval_or (l : bexl) : option bool :=
  match l with
  | BNil => Some false
  | BCons b r => obind (evalb b) (fun x => if x then Some true else eval_or r)
  end.

(* computation-friendly variant for the correspondence runs: pow_mod256 through the square-and-multiply powmod *)
Definition enc_nest (gp gm : oracle) (T : ity) (e : ex) : list Z :=
  (match fold_e gp gm e with Ok v => [1; v] | Err _ => [0; 0] end) ++
  [PyInt.b2z (tc gp gm T e); PyInt.b2z (wf T e)] ++
  (match eval T e with Some v => [1; v] | None => [0; 0] end).
Definition enc_nestd (gp gm : oracle) (d : dex) : list Z :=
  (match fold_d gm d with Ok v => [1; v] | Err _ => [0; 0] end) ++
  [PyInt.b2z (tcd gm d); 1] ++
  (match evald d with Some v => [1; v] | None => [0; 0] end).
Definition enc_nestb (gp gm : oracle) (b : bex) : list Z :=
  (match fold_b gp gm b with Ok v => [1; PyInt.b2z v] | Err _ => [0; 0] end) ++
  [PyInt.b2z (tcb gp gm b); PyInt.b2z (wfb b)] ++
  (match evalb b with Some v => [1; PyInt.b2z v] | None => [0; 0] end).
