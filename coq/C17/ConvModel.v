(* C17 (round 2): compile-time side of literal conversion (builtins/_convert.py: _literal_int, _literal_decimal,
   _signextend) and of list-literal indexing (ConstantFolder.visit_Subscript), uint2str, min_value / max_value.
   Hand model (the code works on AST nodes and Decimal objects); `unsigned_to_signed` and `int_bounds` are the
   translated vyper.utils functions of GenFold.v.  Tie: differential against the real functions (tools/checks/c17.py). *)
From Coq Require Import ZArith Bool List.
From Verif Require Import Base.PyInt C17.ArithSpec C17.ConvSpec C17.GenFold C17.FoldModel.
Import ListNotations.
Open Scope Z_scope.

Inductive lit : Set :=
| LInt (v : Z) | LDec (V : Z) | LHex (m : Z) (val : Z) | LBool (b : bool).

(* _literal_int: value, sign extension for hex/bytes literals into signed types, bounds check, int() truncation *)
Definition literal_int (l : lit) (T : ity) : res Z :=
  match l with
  | LInt v => if in_range T v then Ok v else Err Raised
  | LDec V =>
      (* lo <= Decimal <= hi on the unscaled value, then int(val) *)
      if (lo T * c_DECIMAL_DIVISOR <=? V) && (V <=? hi T * c_DECIMAL_DIVISOR) then Ok (Z.quot V c_DECIMAL_DIVISOR) else Err Raised
  | LHex m val =>
      v <- (if sgn T then unsigned_to_signed val (8 * m) false else Ok val) ;;
      if in_range T v then Ok v else Err Raised
  | LBool b => let v := (if b then 1 else 0) in if in_range T v then Ok v else Err Raised
  end.

(* _literal_decimal for an Int literal: val * DECIMAL_DIVISOR, bounds check against the decimal int_bounds *)
Definition literal_decimal (v : Z) : res Z :=
  let V := v * c_DECIMAL_DIVISOR in
  if (c_MINDECIMAL <=? V) && (V <=? c_MAXDECIMAL) then Ok V else Err Raised.

(* _literal_decimal for a hex literal of m bytes: the number, sign-extended (decimal is signed), bounds-checked *)
Definition literal_decimal_hex (m val : Z) : res Z :=
  v <- unsigned_to_signed val (8 * m) false ;;
  if (c_MINDECIMAL <=? v) && (v <=? c_MAXDECIMAL) then Ok v else Err Raised.

Definition src_of (l : lit) : csrc :=
  match l with LInt v => SInt v | LDec V => SDec V | LHex m val => SBytesM m val | LBool b => SBool b end.

(* visit_Subscript on a folded list literal *)
Definition fold_index (l : list Z) (i : Z) : res Z :=
  if (i <? 0) || (Z.of_nat (length l) <=? i) then Err Raised
  else match nth_error l (Z.to_nat i) with Some v => Ok v | None => Err BadIndex end.

(* uint2str fold = Python str(int): decimal digits, most significant first *)
Fixpoint digits_fuel (fuel : nat) (v : Z) : list Z :=
  match fuel with
  | O => []
  | S f => if v <? 10 then [48 + v] else digits_fuel f (v / 10) ++ [48 + v mod 10]
  end.
Definition uint2str_fold (v : Z) : res (list Z) := if v <? 0 then Err Raised else Ok (digits_fuel 80 v).

(* min_value / max_value: the type's int_bounds *)
Definition min_value_fold (T : ity) : res Z := b <- int_bounds (sgn T) (bits T) ;; Ok (fst b).
Definition max_value_fold (T : ity) : res Z := b <- int_bounds (sgn T) (bits T) ;; Ok (snd b).
