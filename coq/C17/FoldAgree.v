(* C17: the compile-time fold (GenFold.v, regenerated from /repo) agrees with the run-time specification. *)
From Coq Require Import ZArith Bool List Lia ZifyBool.
From Verif Require Import Base.PyInt Base.WordLemmas C17.ArithSpec C17.GenFold C17.FoldModel.
Import ListNotations.
Open Scope Z_scope.

Lemma typed_ok T r v : typed T r = Ok v -> r = Ok v /\ in_range T v = true.
Proof.
  unfold typed. destruct r as [x|e]; cbn [bind]; [|discriminate].
  destruct (in_range T x) eqn:E; [|discriminate]. intros H; inversion H; subst; auto.
Qed.

Lemma chk_in T v : in_range T v = true -> chk T v = Some v.
Proof. unfold chk. intros ->. reflexivity. Qed.

Lemma z2b_false b : negb (z2b b) = (b =? 0).
Proof. unfold z2b. rewrite negb_involutive. reflexivity. Qed.

(* ---- division / modulo *)
Lemma evm_div_quot a b : b <> 0 -> evm_div a b = Ok (Z.quot a b).
Proof.
  intros Hb. unfold evm_div. destruct (b =? 0) eqn:E; [lia|].
  unfold py_floordiv. destruct (Z.abs b =? 0) eqn:E2; [lia|]. cbn [bind]. f_equal.
  rewrite (Z.quot_div a b Hb).
  destruct (a * b <? 0) eqn:E3.
  - assert (Z.sgn a * Z.sgn b = -1) by nia. rewrite H. reflexivity.
  - destruct (Z.eq_dec a 0) as [->|Ha].
    + cbn. reflexivity.
    + assert (Z.sgn a * Z.sgn b = 1) by nia. rewrite H. reflexivity.
Qed.

Lemma Mod_op_rem a b : b <> 0 -> Mod_op a b = Ok (Z.rem a b).
Proof.
  intros Hb. unfold Mod_op. rewrite z2b_false. destruct (b =? 0) eqn:E; [lia|].
  unfold py_mod. destruct (Z.abs b =? 0) eqn:E2; [lia|]. cbn [bind].
  rewrite (Z.rem_mod a b Hb).
  destruct (a <? 0) eqn:E3; cbn [bind]; f_equal.
  - assert (Z.sgn a = -1) by lia. rewrite H. lia.
  - destruct (Z.eq_dec a 0) as [->|Ha]; [cbn; reflexivity|].
    assert (Z.sgn a = 1) by lia. rewrite H. lia.
Qed.

(* ---- wrap *)
Lemma pow_half n : 1 <= n -> 2 ^ n = 2 * 2 ^ (n - 1).
Proof. intros. replace n with (Z.succ (n - 1)) at 1 by lia. rewrite Z.pow_succ_r by lia. reflexivity. Qed.

Lemma wrapT_id T v : ty_ok T -> in_range T v = true -> wrapT T v = v.
Proof.
  unfold ty_ok, in_range, wrapT, lo, hi. intros HT H.
  pose proof (pow_half (bits T) ltac:(lia)) as E.
  assert (0 < 2 ^ (bits T - 1)) by (apply Z.pow_pos_nonneg; lia).
  set (P := 2 ^ (bits T - 1)) in *. rewrite E in *. clearbody P.
  destruct (sgn T); cbn [andb].
  - destruct (Z_lt_dec v 0).
    + assert (Hm : v mod (2 * P) = v + 2 * P) by (symmetry; apply Z.mod_unique with (q := -1); lia).
      rewrite Hm. destruct (P <=? v + 2 * P) eqn:E2; lia.
    + rewrite Z.mod_small by lia. destruct (P <=? v) eqn:E2; lia.
  - rewrite Z.mod_small by lia. reflexivity.
Qed.

Lemma range_abs T v : ty_ok T -> in_range T v = true -> - 2 ^ 256 < v < 2 ^ 256.
Proof.
  unfold ty_ok, in_range, lo, hi. intros HT H.
  assert (2 ^ bits T <= 2 ^ 256) by (apply Z.pow_le_mono_r; lia).
  assert (2 ^ (bits T - 1) <= 2 ^ 255) by (apply Z.pow_le_mono_r; lia).
  assert (2 ^ 255 < 2 ^ 256) by (apply Z.pow_lt_mono_r; lia).
  assert (0 < 2 ^ (bits T - 1)) by (apply Z.pow_pos_nonneg; lia).
  assert (0 < 2 ^ 256) by (apply Z.pow_pos_nonneg; lia).
  destruct (sgn T); lia.
Qed.

(* ---- the binary operators *)
Definition operand2_ok (T : ity) (op : binop) (b : Z) : Prop :=
  if is_shift op then 0 <= b < 2 ^ 256 else in_range T b = true.

Theorem fold_binop_agrees_lemma :
  forall (g : oracle) T op a b, ty_ok T -> in_range T a = true -> operand2_ok T op b ->
    agrees (typed T (fold_binop g op a b)) (arith_spec T op a b).
Proof.
  intros g T op a b HT Ha Hb v Hf. apply typed_ok in Hf. destruct Hf as [Hf Hv].
  unfold fold_binop in Hf.
  destruct op; cbn [is_shift andb op_fn] in Hf; cbn [arith_spec].
  - (* add *) unfold Add_op in Hf. inversion Hf; subst. now apply chk_in.
  - unfold Sub_op in Hf. inversion Hf; subst. now apply chk_in.
  - unfold Mult_op in Hf. inversion Hf; subst. now apply chk_in.
  - (* floordiv *) unfold FloorDiv_op in Hf. rewrite z2b_false in Hf.
    destruct (b =? 0) eqn:E; [discriminate|]. rewrite evm_div_quot in Hf by lia. cbn [bind] in Hf.
    inversion Hf; subst. now apply chk_in.
  - (* mod *) destruct (b =? 0) eqn:E.
    + unfold Mod_op in Hf. rewrite z2b_false, E in Hf. discriminate.
    + rewrite Mod_op_rem in Hf by lia. inversion Hf; subst. now apply chk_in.
  - (* pow *) unfold Pow_op, py_pow in Hf. destruct (b <? 0) eqn:E; [discriminate|].
    destruct (Z.abs a <=? 1).
    + cbn [bind] in Hf. inversion Hf; subst. now apply chk_in.
    + destruct (g a b) as [[|]|]; cbn [bind] in Hf; try discriminate.
      inversion Hf; subst. now apply chk_in.
  - unfold BitAnd_op in Hf. inversion Hf; subst. now apply chk_in.
  - unfold BitOr_op in Hf. inversion Hf; subst. now apply chk_in.
  - unfold BitXor_op in Hf. inversion Hf; subst. now apply chk_in.
  - (* shl *) destruct ((0 <=? b) && (b <=? 256)) eqn:E; cbn [negb] in Hf; [|discriminate].
    unfold LShift_op, py_lshift in Hf. destruct (b <? 0) eqn:E2; [discriminate|].
    inversion Hf; subst. rewrite Z.shiftl_mul_pow2 in * by lia.
    destruct (256 <=? b) eqn:E3.
    + assert (b = 256) by lia. subst b.
      pose proof (range_abs T _ HT Ha). pose proof (range_abs T _ HT Hv).
      f_equal. nia.
    + now rewrite wrapT_id.
  - (* shr *) destruct ((0 <=? b) && (b <=? 256)) eqn:E; cbn [negb] in Hf; [|discriminate].
    unfold RShift_op in Hf. rewrite py_rshift_spec in Hf by lia. inversion Hf; subst.
    destruct (256 <=? b) eqn:E3; [|reflexivity].
    assert (b = 256) by lia. subst b. pose proof (range_abs T _ HT Ha). f_equal.
    destruct (a <? 0) eqn:E4.
    + apply Z.div_unique with (r := a + 2 ^ 256); lia.
    + symmetry. apply Z.div_small. lia.
Qed.

Corollary fold_binop_one_value :
  forall (g : oracle) T op a b v w, ty_ok T -> in_range T a = true -> operand2_ok T op b ->
    typed T (fold_binop g op a b) = Ok v -> arith_spec T op a b = Some w -> v = w.
Proof.
  intros. pose proof (fold_binop_agrees_lemma g T op a b H H0 H1 v H2). congruence.
Qed.

Corollary fold_binop_runtime_value :
  forall (g : oracle) T op a b w, ty_ok T -> in_range T a = true -> operand2_ok T op b ->
    arith_spec T op a b = Some w ->
    typed T (fold_binop g op a b) = Ok w \/ exists e, typed T (fold_binop g op a b) = Err e.
Proof.
  intros. destruct (typed T (fold_binop g op a b)) as [v|e] eqn:E; [left|right; eauto].
  f_equal. eapply fold_binop_one_value; eauto.
Qed.

(* ---- unary *)
Lemma lxor_ones n a : 0 <= n -> 0 <= a < 2 ^ n -> Z.lxor (2 ^ n - 1) a = 2 ^ n - 1 - a.
Proof.
  intros Hn Ha.
  assert (E : Z.lxor (2 ^ n - 1) a = Z.land (Z.lnot a) (Z.ones n)).
  { apply Z.bits_inj'. intros i Hi. rewrite Z.lxor_spec, Z.land_spec, Z.lnot_spec by lia.
    replace (2 ^ n - 1) with (Z.ones n) by (rewrite Z.ones_equiv; lia).
    destruct (Z_lt_dec i n).
    - rewrite Z.ones_spec_low by lia. rewrite andb_true_r. reflexivity.
    - rewrite Z.ones_spec_high by lia. rewrite andb_false_r.
      assert (Hb : Z.testbit a i = false).
      { replace a with (a mod 2 ^ n) by (apply Z.mod_small; lia). apply Z.mod_pow2_bits_high. lia. }
      rewrite Hb. reflexivity. }
  rewrite E, Z.land_ones by lia. unfold Z.lnot. 
  symmetry. apply Z.mod_unique with (q := -1); lia.
Qed.

Theorem fold_unop_agrees_lemma :
  forall T op a, ty_ok T -> in_range T a = true -> (op = UInvert -> T = U256) ->
    agrees (typed T (fold_unop op a)) (unop_spec T op a).
Proof.
  intros T op a HT Ha HI v Hf. apply typed_ok in Hf. destruct Hf as [Hf Hv].
  destruct op; cbn [fold_unop unop_spec] in *.
  - unfold USub_op in Hf. inversion Hf; subst. now apply chk_in.
  - rewrite (HI eq_refl) in *. unfold Invert_op, py_pow in Hf. change (256 <? 0) with false in Hf.
    cbv iota in Hf. cbn [bind] in Hf.
    assert (Hx : Z.lxor (2 ^ 256 - 1) a = v) by congruence. subst v. clear Hf.
    cbn [sgn bits U256] in *. unfold in_range, lo, hi in Ha. cbn [sgn bits U256] in Ha.
    rewrite lxor_ones in * by lia. now apply chk_in.
Qed.

(* ---- comparisons *)
Theorem fold_cmp_agrees_lemma : forall op a b, fold_cmp op a b = Ok (cmp_spec op a b).
Proof.
  intros. destruct op; cbn; unfold Eq_op, NotEq_op, Lt_op, LtE_op, Gt_op, GtE_op; f_equal.
  - apply Z.gtb_ltb. - apply Z.geb_leb.
Qed.

Theorem fold_boolop_agrees_lemma :
  forall l, And_op l = Ok (fold_right andb true l) /\ Or_op l = Ok (fold_right orb false l) /\
            forall b, Not_op b = Ok (negb b).
Proof.
  intros. unfold And_op, Or_op, Not_op. repeat split; f_equal; induction l; cbn; congruence.
Qed.

(* ---- builtins *)
Theorem fold_min_agrees_lemma : forall (g : oracle) T a b,
  agrees (typed T (Min_fold g a b)) (min_spec T a b).
Proof.
  intros g T a b v Hf. apply typed_ok in Hf. destruct Hf as [Hf Hv]. unfold Min_fold in Hf.
  destruct (g a b) as [[|]|]; cbn [bind negb] in Hf; try discriminate. inversion Hf; subst.
  unfold min_spec. replace (if a <? b then a else b) with (Z.min a b) by (destruct (a <? b) eqn:E; lia).
  now apply chk_in.
Qed.

Theorem fold_max_agrees_lemma : forall (g : oracle) T a b,
  agrees (typed T (Max_fold g a b)) (max_spec T a b).
Proof.
  intros g T a b v Hf. apply typed_ok in Hf. destruct Hf as [Hf Hv]. unfold Max_fold in Hf.
  destruct (g a b) as [[|]|]; cbn [bind negb] in Hf; try discriminate. inversion Hf; subst.
  unfold max_spec. replace (if a <? b then b else a) with (Z.max a b) by (destruct (a <? b) eqn:E; lia).
  now apply chk_in.
Qed.

Theorem fold_abs_agrees_lemma : forall T a, agrees (typed T (Abs_fold a)) (abs_spec T a).
Proof.
  intros T a v Hf. apply typed_ok in Hf. destruct Hf as [Hf Hv]. unfold Abs_fold in Hf.
  inversion Hf; subst. unfold abs_spec.
  replace (if a <? 0 then - a else a) with (Z.abs a) by (destruct (a <? 0) eqn:E; lia).
  now apply chk_in.
Qed.

Lemma idx2_0 (a b : Z) : py_index [a; b] 0 = Ok a. Proof. reflexivity. Qed.
Lemma idx2_1 (a b : Z) : py_index [a; b] 1 = Ok b. Proof. reflexivity. Qed.
Lemma idx3_0 (a b c : Z) : py_index [a; b; c] 0 = Ok a. Proof. reflexivity. Qed.
Lemma idx3_1 (a b c : Z) : py_index [a; b; c] 1 = Ok b. Proof. reflexivity. Qed.
Lemma idx3_2 (a b c : Z) : py_index [a; b; c] 2 = Ok c. Proof. reflexivity. Qed.

Theorem fold_shift_agrees_lemma : forall T x n, ty_ok T -> bits T = 256 -> in_range T x = true ->
  agrees (typed T (Shift_fold x n)) (shift_spec T x n).
Proof.
  intros T x n HT HB Hx v Hf. apply typed_ok in Hf. destruct Hf as [Hf Hv]. unfold Shift_fold in Hf.
  rewrite idx2_0, idx2_1 in Hf. cbn [bind] in Hf.
  destruct ((n <? -256) || (n >? 256)) eqn:E; [discriminate|].
  unfold shift_spec. pose proof (range_abs T _ HT Hx) as Rx.
  destruct (n <? 0) eqn:E2.
  - rewrite py_rshift_spec in Hf by lia. cbn [bind] in Hf. inversion Hf; subst. f_equal.
    destruct (256 <=? - n) eqn:E3; [|reflexivity].
    assert (- n = 256) by lia. rewrite H.
    destruct (x <? 0) eqn:E4.
    + apply Z.div_unique with (r := x + 2 ^ 256); lia.
    + symmetry. apply Z.div_small. lia.
  - unfold py_lshift in Hf. rewrite E2 in Hf. cbn [bind] in Hf.
    unfold py_pow in Hf. change (256 <? 0) with false in Hf. cbv iota in Hf. cbn [bind] in Hf.
    unfold py_mod in Hf. change (2 ^ 256 =? 0) with false in Hf. cbv iota in Hf. cbn [bind] in Hf.
    assert (Hxv : Z.shiftl x n mod 2 ^ 256 = v) by congruence. subst v. clear Hf.
    rewrite Z.shiftl_mul_pow2 in * by lia. f_equal.
    destruct (256 <=? n) eqn:E3.
    + assert (n = 256) by lia. subst n. symmetry. apply Z_mod_mult.
    + unfold wrapT. rewrite HB. 
      destruct (sgn T && (2 ^ (256 - 1) <=? (x * 2 ^ n) mod 2 ^ 256)) eqn:E4; [|reflexivity].
      (* signed and the folded value is >= 2^255: then it is not in range, contradiction *)
      exfalso. unfold in_range, lo, hi in Hv. rewrite HB in Hv.
      destruct (sgn T); cbn [andb] in E4; [|discriminate]. lia.
Qed.

Theorem fold_addmod_agrees_lemma : forall a b c, agrees (AddMod_fold a b c) (addmod_spec a b c).
Proof.
  intros a b c v Hf. unfold AddMod_fold in Hf. rewrite idx3_0, idx3_1, idx3_2 in Hf. cbn [bind] in Hf.
  unfold addmod_spec. destruct (c =? 0) eqn:E; [discriminate|].
  unfold py_mod in Hf. rewrite E in Hf. cbn [bind] in Hf. congruence.
Qed.

Theorem fold_mulmod_agrees_lemma : forall a b c, agrees (MulMod_fold a b c) (mulmod_spec a b c).
Proof.
  intros a b c v Hf. unfold MulMod_fold in Hf. rewrite idx3_0, idx3_1, idx3_2 in Hf. cbn [bind] in Hf.
  unfold mulmod_spec. destruct (c =? 0) eqn:E; [discriminate|].
  unfold py_mod in Hf. rewrite E in Hf. cbn [bind] in Hf. congruence.
Qed.

Theorem fold_powmod256_agrees_lemma : forall a b, agrees (PowMod256_fold a b) (powmod256_spec a b).
Proof.
  intros a b v Hf. unfold PowMod256_fold in Hf. rewrite idx2_0, idx2_1 in Hf. cbn [bind] in Hf.
  destruct ((a <? 0) || (b <? 0)) eqn:E; [discriminate|].
  unfold py_pow in Hf. change (256 <? 0) with false in Hf. cbv iota in Hf. cbn [bind] in Hf.
  unfold py_pow3 in Hf. destruct (b <? 0) eqn:E2; [lia|]. change (2 ^ 256 =? 0) with false in Hf.
  cbv iota in Hf. cbn [bind] in Hf. rewrite powmod_spec in Hf by lia.
  unfold powmod256_spec. congruence.
Qed.

Theorem fold_as_wei_agrees_lemma : forall denom v u,
  agrees (typed U256 (AsWeiValue_fold denom v u)) (as_wei_spec v denom).
Proof.
  intros denom x u v Hf. apply typed_ok in Hf. destruct Hf as [Hf Hv]. unfold AsWeiValue_fold in Hf.
  unfold as_wei_spec. destruct (x <? 0); [discriminate|]. inversion Hf; subst. now apply chk_in.
Qed.

(* ---- decimals (hand model, scaled integers) *)
Lemma dtyped_ok r v : dtyped r = Ok v -> r = Ok v /\ dec_in_range v = true.
Proof.
  unfold dtyped. destruct r as [x|e]; cbn [bind]; [|discriminate].
  destruct ((c_MINDECIMAL <=? x) && (x <=? c_MAXDECIMAL)) eqn:E; [|discriminate].
  intros H; inversion H; subst. split; auto. unfold dec_in_range.
  change c_MINDECIMAL with (- 2 ^ 167) in E. change c_MAXDECIMAL with (2 ^ 167 - 1) in E. lia.
Qed.

Theorem fold_decimal_agrees_lemma : forall op a b, agrees (dtyped (dec_fold op a b)) (dec_spec op a b).
Proof.
  intros op a b v Hf. apply dtyped_ok in Hf. destruct Hf as [Hf Hv].
  assert (D : c_DECIMAL_DIVISOR = DEC) by reflexivity.
  destruct op; cbn [dec_fold dec_spec] in *; rewrite ?D in *.
  - inversion Hf; subst. unfold dchk. now rewrite Hv.
  - inversion Hf; subst. unfold dchk. now rewrite Hv.
  - inversion Hf; subst. unfold dchk. now rewrite Hv.
  - destruct (b =? 0); [discriminate|]. inversion Hf; subst. unfold dchk. now rewrite Hv.
  - destruct (b =? 0) eqn:E; [discriminate|]. inversion Hf; subst.
    assert (R : (if a <? 0 then -1 else 1) * (Z.abs a mod Z.abs b) = Z.rem a b).
    { rewrite (Z.rem_mod a b) by lia. destruct (a <? 0) eqn:E3.
      - assert (Z.sgn a = -1) by lia. rewrite H. reflexivity.
      - destruct (Z.eq_dec a 0) as [->|Ha]; [cbn; reflexivity|].
        assert (Z.sgn a = 1) by lia. rewrite H. reflexivity. }
    rewrite R in *. unfold dchk. now rewrite Hv.
Qed.

Theorem fold_floor_ceil_agrees_lemma : forall a,
  floor_fold a = Ok (floor_spec a) /\ ceil_fold a = Ok (ceil_spec a).
Proof. intros. split; reflexivity. Qed.
