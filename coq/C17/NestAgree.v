(* C17 (extension): the nested-expression theorem, by mutual induction over the tree with the per-operator
   theorems of FoldAgree.v / ConvAgree.v / MiscAgree.v as the cases. *)
From Coq Require Import ZArith Bool List Lia ZifyBool.
From Verif Require Import Base.PyInt C17.ArithSpec C17.ConvSpec C17.GenFold C17.FoldModel C17.ConvModel C17.MiscModel
  C17.FoldAgree C17.ConvAgree C17.MiscAgree C17.NestModel.
Import ListNotations.
Open Scope Z_scope.

Lemma bind_ok {A B} (m : res A) (f : A -> res B) v : bind m f = Ok v -> exists x, m = Ok x /\ f x = Ok v.
Proof. destruct m; cbn [bind]; [eauto | discriminate]. Qed.

Lemma typed_intro T r v : r = Ok v -> in_range T v = true -> typed T r = Ok v.
Proof. intros -> H. unfold typed. cbn [bind]. now rewrite H. Qed.

Lemma tyb_ok T : tyb T = true -> ty_ok T.
Proof. unfold tyb, ty_ok. lia. Qed.

Lemma ity_eqb_eq A B : ity_eqb A B = true -> A = B.
Proof.
  destruct A as [sa ba], B as [sb bb]. unfold ity_eqb. cbn [sgn bits]. intros H.
  apply andb_prop in H. destruct H as [H1 H2]. apply Bool.eqb_prop in H1. apply Z.eqb_eq in H2. congruence.
Qed.

Lemma okv_ok T r : okv T r = true -> exists v, r = Ok v /\ in_range T v = true.
Proof. destruct r; cbn [okv]; [eauto | discriminate]. Qed.

(* ---- visit_Compare on non-integer literal kinds *)
Lemma leqb_refl_iff a b : leqb a b = true <-> a = b.
Proof.
  revert b. induction a as [|x a IH]; intros [|y b]; cbn [leqb]; split; intros H; try reflexivity; try discriminate.
  - apply andb_prop in H. destruct H as [H1 H2]. apply Z.eqb_eq in H1. apply IH in H2. congruence.
  - inversion H; subst. rewrite Z.eqb_refl. cbn [andb]. now apply IH.
Qed.
Lemma hexdigit_lower_nib c d : is_hexdigit c = true -> is_hexdigit d = true -> (lower c = lower d <-> nib c = nib d).
Proof.
  unfold is_hexdigit, lower, nib. intros Hc Hd.
  destruct (65 <=? c) eqn:C1, (c <=? 90) eqn:C2, (65 <=? d) eqn:D1, (d <=? 90) eqn:D2,
           (c <=? 57) eqn:C3, (c <=? 70) eqn:C4, (d <=? 57) eqn:D3, (d <=? 70) eqn:D4; cbn [andb]; split; intros H; lia.
Qed.
Lemma hex_lower_nib a : forall b, forallb is_hexdigit a = true -> forallb is_hexdigit b = true ->
  leqb (map lower a) (map lower b) = leqb (map nib a) (map nib b).
Proof.
  induction a as [|x a IH]; intros [|y b] Ha Hb; cbn [map leqb]; try reflexivity.
  cbn [forallb] in Ha, Hb. apply andb_prop in Ha, Hb. destruct Ha as [Hx Ha], Hb as [Hy Hb].
  rewrite (IH b Ha Hb). f_equal. pose proof (hexdigit_lower_nib x y Hx Hy). lia.
Qed.
Theorem veq_agrees_lemma : forall l r b, wfv l = true -> wfv r = true -> veq_fold l r = Ok b -> veq_spec l r = Some b.
Proof.
  intros l r b Hl Hr H. destruct l, r; cbn [veq_fold veq_spec] in *; try discriminate; try congruence.
  cbn [wfv] in Hl, Hr. rewrite <- (hex_lower_nib cs cs0 Hl Hr). congruence.
Qed.
Theorem inv_agrees_lemma : forall x l b, wfv x = true -> forallb wfv l = true -> inv_any x l = Ok b -> inv_spec x l = Some b.
Proof.
  intros x l. induction l as [|y l IH]; intros b Hx Hl H; cbn [inv_any inv_spec] in *; [congruence|].
  cbn [forallb] in Hl. apply andb_prop in Hl. destruct Hl as [Hy Hl].
  apply bind_ok in H. destruct H as (b1 & H1 & H). apply bind_ok in H. destruct H as (b2 & H2 & H).
  rewrite (veq_agrees_lemma x y b1 Hx Hy H1). rewrite (IH b2 Hx Hl H2). congruence.
Qed.

Section G.
Variables gp gm : oracle.
Notation fold_e := (fold_e gp gm).
Notation fold_l := (fold_l gp gm).
Notation fold_b := (fold_b gp gm).
Notation fold_bl := (fold_bl gp gm).
Notation tc := (tc gp gm).
Notation tcl := (tcl gp gm).
Notation tcb := (tcb gp gm).
Notation tcbl := (tcbl gp gm).

Notation fold_d := (fold_d gm).
Notation tcd := (tcd gm).

Lemma okd_val r v : okd r = true -> r = Ok v -> dtyped r = Ok v /\ dec_in_range v = true.
Proof.
  unfold okd. intros H ->. destruct (dtyped (Ok v)) as [w|] eqn:E; [|discriminate].
  pose proof (dtyped_ok _ _ E) as [E1 E2]. inversion E1; subst. tauto.
Qed.
Lemma tcd_okd e : tcd e = true -> okd (fold_d e) = true.
Proof. destruct e; cbn [NestModel.tcd]; intros H; apply andb_prop in H; tauto. Qed.

Theorem nested_decimal_agrees_lemma : forall e v, fold_d e = Ok v -> tcd e = true -> evald e = Some v.
Proof.
  induction e as [V | d IH | op a IHa b IHb | a IHa | mx a IHa b IHb]; intros v Hf Ht;
    pose proof (okd_val _ _ (tcd_okd _ Ht) Hf) as [Hd Hr].
  - cbn in *. inversion Hf; subst. unfold dchk. now rewrite Hr.
  - cbn [NestModel.fold_d NestModel.tcd evald] in *. apply andb_prop in Ht. destruct Ht. eauto.
  - cbn [NestModel.fold_d NestModel.tcd evald] in *. apply andb_prop in Ht. destruct Ht as [_ Ht].
    apply andb_prop in Ht. destruct Ht as [Ta Tb].
    apply bind_ok in Hf. destruct Hf as (x & Hx & Hf). apply bind_ok in Hf. destruct Hf as (y & Hy & Hf).
    rewrite Hx, Hy in Hd. cbn [bind] in Hd.
    rewrite (IHa x Hx Ta), (IHb y Hy Tb). cbn [obind]. now apply fold_decimal_agrees_lemma.
  - cbn [NestModel.fold_d NestModel.tcd evald] in *. apply andb_prop in Ht. destruct Ht as [_ Ta].
    apply bind_ok in Hf. destruct Hf as (x & Hx & Hf). rewrite (IHa x Hx Ta). cbn [obind].
    unfold USub_op in Hf. inversion Hf; subst. unfold dchk. now rewrite Hr.
  - cbn [NestModel.fold_d NestModel.tcd evald] in *. apply andb_prop in Ht. destruct Ht as [_ Ht].
    apply andb_prop in Ht. destruct Ht as [Ta Tb].
    apply bind_ok in Hf. destruct Hf as (x & Hx & Hf). apply bind_ok in Hf. destruct Hf as (y & Hy & Hf).
    rewrite Hx, Hy in Hd. cbn [bind] in Hd.
    rewrite (IHa x Hx Ta), (IHb y Hy Tb). cbn [obind].
    destruct (fold_dec_minmax_agrees_lemma gm x y v) as [Hmin Hmax]. destruct mx; auto.
Qed.

Lemma tc_okv T e : tc T e = true -> okv T (fold_e e) = true.
Proof. destruct e; cbn [NestModel.tc]; intros H; apply andb_prop in H; tauto. Qed.

(* the value of a checked subtree is its folded value, and it lies in the subtree's type *)
Lemma tc_val T e x : tc T e = true -> fold_e e = Ok x -> in_range T x = true.
Proof. intros H E. apply tc_okv in H. rewrite E in H. exact H. Qed.

Lemma wf_tyb T e : wf T e = true -> tyb T = true.
Proof. destruct e; cbn [wf]; intros H; apply andb_prop in H; tauto. Qed.

Lemma shift_amount (op : sop) x y v : fold_binop gp (binop_of op) x y = Ok v -> 0 <= y < 2 ^ 256.
Proof.
  unfold fold_binop. destruct op; cbn [binop_of is_shift andb];
  destruct ((0 <=? y) && (y <=? 256)) eqn:E; cbn [negb]; try discriminate; intros _;
  assert (2 ^ 256 > 256) by reflexivity; lia.
Qed.

Ltac split_and :=
  repeat match goal with
  | H : _ && _ = true |- _ => apply andb_prop in H; destruct H
  end.
Ltac binds :=
  repeat match goal with
  | H : bind _ _ = Ok _ |- _ => apply bind_ok in H; destruct H as (? & ? & H)
  end.

Definition P (e : ex) : Prop :=
  forall T v, wf T e = true -> fold_e e = Ok v -> tc T e = true -> eval T e = Some v.
Definition Q (l : exl) : Prop :=
  forall T vs, wfl T l = true -> fold_l l = Ok vs -> tcl T l = true -> eval_l T l = Some vs.

Lemma nested_int : (forall e, P e) /\ (forall l, Q l).
Proof.
  apply ex_exl_ind; unfold P, Q.
  - (* literal *) intros v T w Hw Hf Ht. cbn in *. inversion Hf; subst. rewrite andb_true_r in Ht. now apply chk_in.
  - (* named *) intros d IH T v Hw Hf Ht. cbn [wf NestModel.fold_e NestModel.tc eval] in *. split_and. eauto.
  - (* binop *) intros op a IHa b IHb T v Hw Hf Ht.
    pose proof (tc_okv _ _ Ht) as Hv. rewrite Hf in Hv. cbn [okv] in Hv.
    cbn [wf NestModel.fold_e NestModel.tc eval] in *. split_and. binds.
    rewrite (IHa T x) by assumption. rewrite (IHb T x0) by assumption. cbn [obind].
    apply (fold_binop_agrees_lemma gp T op x x0).
    + now apply tyb_ok.
    + now apply (tc_val T a x).
    + unfold operand2_ok. destruct (is_shift op); [discriminate|]. now apply (tc_val T b x0).
    + now apply typed_intro.
  - (* << >> *) intros op a IHa Tr b IHb T v Hw Hf Ht.
    pose proof (tc_okv _ _ Ht) as Hv. rewrite Hf in Hv. cbn [okv] in Hv.
    cbn [wf NestModel.fold_e NestModel.tc eval] in *. split_and. binds.
    rewrite (IHa T x) by assumption. rewrite (IHb Tr x0) by assumption. cbn [obind].
    apply (fold_binop_agrees_lemma gp T (binop_of op) x x0).
    + now apply tyb_ok.
    + now apply (tc_val T a x).
    + unfold operand2_ok. replace (is_shift (binop_of op)) with true by (now destruct op). eapply shift_amount; eauto.
    + now apply typed_intro.
  - (* unary *) intros op a IHa T v Hw Hf Ht.
    pose proof (tc_okv _ _ Ht) as Hv. rewrite Hf in Hv. cbn [okv] in Hv.
    cbn [wf NestModel.fold_e NestModel.tc eval] in *. split_and. binds.
    rewrite (IHa T x) by assumption. cbn [obind].
    apply (fold_unop_agrees_lemma T op x).
    + now apply tyb_ok.
    + now apply (tc_val T a x).
    + intros ->. now apply ity_eqb_eq.
    + now apply typed_intro.
  - (* min *) intros a IHa b IHb T v Hw Hf Ht.
    pose proof (tc_okv _ _ Ht) as Hv. rewrite Hf in Hv. cbn [okv] in Hv.
    cbn [wf NestModel.fold_e NestModel.tc eval] in *. split_and. binds.
    rewrite (IHa T x) by assumption. rewrite (IHb T x0) by assumption. cbn [obind].
    apply (fold_min_agrees_lemma gm T x x0). now apply typed_intro.
  - (* max *) intros a IHa b IHb T v Hw Hf Ht.
    pose proof (tc_okv _ _ Ht) as Hv. rewrite Hf in Hv. cbn [okv] in Hv.
    cbn [wf NestModel.fold_e NestModel.tc eval] in *. split_and. binds.
    rewrite (IHa T x) by assumption. rewrite (IHb T x0) by assumption. cbn [obind].
    apply (fold_max_agrees_lemma gm T x x0). now apply typed_intro.
  - (* abs *) intros a IHa T v Hw Hf Ht.
    pose proof (tc_okv _ _ Ht) as Hv. rewrite Hf in Hv. cbn [okv] in Hv.
    cbn [wf NestModel.fold_e NestModel.tc eval] in *. split_and. binds.
    rewrite (IHa T x) by assumption. cbn [obind].
    apply (fold_abs_agrees_lemma T x). now apply typed_intro.
  - (* shift() *) intros a IHa Tn n IHn T v Hw Hf Ht.
    pose proof (tc_okv _ _ Ht) as Hv. rewrite Hf in Hv. cbn [okv] in Hv.
    cbn [wf NestModel.fold_e NestModel.tc eval] in *. split_and. binds.
    rewrite (IHa T x) by assumption. rewrite (IHn Tn x0) by assumption. cbn [obind].
    apply (fold_shift_agrees_lemma T x x0).
    + now apply tyb_ok.
    + lia.
    + now apply (tc_val T a x).
    + now apply typed_intro.
  - (* addmod *) intros a IHa b IHb c IHc T v Hw Hf Ht.
    pose proof (tc_okv _ _ Ht) as Hv. rewrite Hf in Hv. cbn [okv] in Hv.
    cbn [wf NestModel.fold_e NestModel.tc eval] in *. split_and. binds.
    rewrite (IHa U256 x) by assumption. rewrite (IHb U256 x0) by assumption. rewrite (IHc U256 x1) by assumption.
    cbn [obind]. rewrite (fold_addmod_agrees_lemma x x0 x1 v Hf). cbn [obind]. now apply chk_in.
  - (* mulmod *) intros a IHa b IHb c IHc T v Hw Hf Ht.
    pose proof (tc_okv _ _ Ht) as Hv. rewrite Hf in Hv. cbn [okv] in Hv.
    cbn [wf NestModel.fold_e NestModel.tc eval] in *. split_and. binds.
    rewrite (IHa U256 x) by assumption. rewrite (IHb U256 x0) by assumption. rewrite (IHc U256 x1) by assumption.
    cbn [obind]. rewrite (fold_mulmod_agrees_lemma x x0 x1 v Hf). cbn [obind]. now apply chk_in.
  - (* pow_mod256 *) intros a IHa b IHb T v Hw Hf Ht.
    pose proof (tc_okv _ _ Ht) as Hv. rewrite Hf in Hv. cbn [okv] in Hv.
    cbn [wf NestModel.fold_e NestModel.tc eval] in *. split_and. binds.
    rewrite (IHa U256 x) by assumption. rewrite (IHb U256 x0) by assumption.
    cbn [obind]. rewrite (fold_powmod256_agrees_lemma x x0 v Hf). cbn [obind]. now apply chk_in.
  - (* list index *) intros l IHl Ti i IHi T v Hw Hf Ht.
    cbn [wf NestModel.fold_e NestModel.tc eval] in *. split_and. binds.
    rewrite (IHl T x) by assumption. rewrite (IHi Ti x0) by assumption. cbn [obind].
    now apply fold_index_agrees_lemma.
  - (* floor *) intros d T v Hw Hf Ht.
    pose proof (tc_okv _ _ Ht) as Hv. rewrite Hf in Hv. cbn [okv] in Hv.
    cbn [wf NestModel.fold_e NestModel.tc eval] in *. split_and. binds.
    rewrite (nested_decimal_agrees_lemma d x) by assumption. cbn [obind].
    destruct (fold_floor_ceil_agrees_lemma x) as [Hfl _]. rewrite Hfl in Hf. inversion Hf; subst. now apply chk_in.
  - (* ceil *) intros d T v Hw Hf Ht.
    pose proof (tc_okv _ _ Ht) as Hv. rewrite Hf in Hv. cbn [okv] in Hv.
    cbn [wf NestModel.fold_e NestModel.tc eval] in *. split_and. binds.
    rewrite (nested_decimal_agrees_lemma d x) by assumption. cbn [obind].
    destruct (fold_floor_ceil_agrees_lemma x) as [_ Hce]. rewrite Hce in Hf. inversion Hf; subst. now apply chk_in.
  - (* len *) intros bs T v Hw Hf Ht.
    pose proof (tc_okv _ _ Ht) as Hv. rewrite Hf in Hv. cbn [okv] in Hv.
    cbn [NestModel.fold_e eval] in *. rewrite fold_len_agrees_lemma in Hf. inversion Hf; subst. now apply chk_in.
  - (* min_value / max_value *) intros mx Tb T v Hw Hf Ht.
    pose proof (tc_okv _ _ Ht) as Hv. rewrite Hf in Hv. cbn [okv] in Hv.
    cbn [wf NestModel.fold_e eval] in *. split_and.
    destruct (fold_min_max_value_agrees_lemma Tb) as [Hlo Hhi]; [lia|].
    destruct mx; [rewrite Hhi in Hf | rewrite Hlo in Hf]; inversion Hf; subst; now apply chk_in.
  - (* as_wei_value on an integer tree *) intros Ta a IHa denom T v Hw Hf Ht.
    pose proof (tc_okv _ _ Ht) as Hv. rewrite Hf in Hv. cbn [okv] in Hv.
    cbn [wf NestModel.fold_e NestModel.tc eval] in *. split_and. binds.
    match goal with H : ity_eqb T U256 = true |- _ => apply ity_eqb_eq in H; subst T end.
    rewrite (IHa Ta x) by assumption. cbn [obind].
    rewrite (fold_as_wei_agrees_lemma denom x 0 v) by (now apply typed_intro). cbn [obind]. now apply chk_in.
  - (* as_wei_value on a decimal tree *) intros d denom T v Hw Hf Ht.
    pose proof (tc_okv _ _ Ht) as Hv. rewrite Hf in Hv. cbn [okv] in Hv.
    cbn [wf NestModel.fold_e NestModel.tc eval] in *. split_and. binds.
    rewrite (nested_decimal_agrees_lemma d x) by assumption. cbn [obind].
    rewrite (fold_as_wei_decimal_agrees_lemma denom x v Hf). cbn [obind]. now apply chk_in.
  - (* nil *) intros T vs _ Hf _. cbn in *. congruence.
  - (* cons *) intros e IHe l IHl T vs Hw Hf Ht.
    cbn [wfl NestModel.fold_l NestModel.tcl eval_l] in *. split_and. binds.
    rewrite (IHe T x) by assumption. rewrite (IHl T x0) by assumption. cbn [obind]. congruence.
Qed.

Theorem nested_fold_agrees_lemma : forall e T v,
  wf T e = true -> fold_e e = Ok v -> tc T e = true -> eval T e = Some v.
Proof. exact (proj1 nested_int). Qed.
Theorem nested_list_agrees_lemma : forall l T vs,
  wfl T l = true -> fold_l l = Ok vs -> tcl T l = true -> eval_l T l = Some vs.
Proof. exact (proj2 nested_int). Qed.

(* ---- booleans *)
Definition Pb (b : bex) : Prop := forall v, wfb b = true -> fold_b b = Ok v -> tcb b = true -> evalb b = Some v.
Definition Qb (l : bexl) : Prop :=
  forall vs, wfbl l = true -> fold_bl l = Ok vs -> tcbl l = true ->
    eval_and l = Some (forallb (fun x => x) vs) /\ eval_or l = Some (existsb (fun x => x) vs).

Lemma nested_bool : (forall b, Pb b) /\ (forall l, Qb l).
Proof.
  apply bex_bexl_ind; unfold Pb, Qb.
  - intros b v _ Hf _. cbn in *. congruence.
  - intros d IH v Hw Hf Ht. cbn [wfb NestModel.fold_b NestModel.tcb evalb] in *. split_and. eauto.
  - (* compare *) intros op Tc a c v Hw Hf Ht.
    cbn [wfb NestModel.fold_b NestModel.tcb evalb] in *. split_and. binds.
    rewrite (nested_fold_agrees_lemma a Tc x) by assumption.
    rewrite (nested_fold_agrees_lemma c Tc x0) by assumption. cbn [obind].
    rewrite fold_cmp_agrees_lemma in Hf. congruence.
  - (* in / not in *) intros neg Tc a l v Hw Hf Ht.
    cbn [wfb NestModel.fold_b NestModel.tcb evalb] in *. split_and. binds.
    rewrite (nested_fold_agrees_lemma a Tc x) by assumption.
    rewrite (nested_list_agrees_lemma l Tc x0) by assumption. cbn [obind].
    destruct (fold_in_agrees_lemma x x0) as [Hi Hn]. destruct neg; congruence.
  - (* decimal comparison *) intros op a c v Hw Hf Ht.
    cbn [wfb NestModel.fold_b NestModel.tcb evalb] in *. split_and. binds.
    rewrite (nested_decimal_agrees_lemma a x) by assumption.
    rewrite (nested_decimal_agrees_lemma c x0) by assumption. cbn [obind].
    rewrite fold_dec_compare_agrees_lemma in Hf. congruence.
  - (* == != on literal kinds *) intros neg l r v Hw Hf Ht.
    cbn [wfb NestModel.fold_b evalb] in *. split_and. unfold cmpv_fold in Hf. binds.
    rewrite (veq_agrees_lemma l r x) by assumption. cbn [obind]. congruence.
  - (* in / not in on literal kinds *) intros neg x l v Hw Hf Ht.
    cbn [wfb NestModel.fold_b evalb] in *. split_and. unfold inv_fold in Hf. binds.
    rewrite (inv_agrees_lemma x l x0) by assumption. cbn [obind]. congruence.
  - (* not *) intros a IHa v Hw Hf Ht.
    cbn [wfb NestModel.fold_b NestModel.tcb evalb] in *. split_and. binds.
    rewrite (IHa x) by assumption. cbn [obind]. unfold Not_op in Hf. congruence.
  - (* and *) intros l IHl v Hw Hf Ht.
    cbn [wfb NestModel.fold_b NestModel.tcb evalb] in *. split_and. binds.
    destruct (IHl x) as [Ha _]; try assumption. rewrite Ha. unfold And_op in Hf. congruence.
  - (* or *) intros l IHl v Hw Hf Ht.
    cbn [wfb NestModel.fold_b NestModel.tcb evalb] in *. split_and. binds.
    destruct (IHl x) as [_ Ho]; try assumption. rewrite Ho. unfold Or_op in Hf. congruence.
  - intros vs _ Hf _. cbn in *. inversion Hf; subst. split; reflexivity.
  - intros b IHb l IHl vs Hw Hf Ht.
    cbn [wfbl NestModel.fold_bl NestModel.tcbl eval_and eval_or] in *. split_and. binds.
    rewrite (IHb x) by assumption. cbn [obind]. destruct (IHl x0) as [Ha Ho]; try assumption.
    inversion Hf; subst. cbn [forallb existsb]. destruct x; cbn [andb orb]; split; auto.
Qed.

Theorem nested_bool_agrees_lemma : forall b v,
  wfb b = true -> fold_b b = Ok v -> tcb b = true -> evalb b = Some v.
Proof. exact (proj1 nested_bool). Qed.

(* the two-pass formulation is the same as folding with a range check at every node: what the front end accepts
   is exactly "every node folds and every folded value fits its node's type" *)
Lemma tc_sub_binop T op a b : tc T (EBin op a b) = true -> tc T a = true /\ tc T b = true.
Proof. cbn [NestModel.tc]. intros H. split_and. tauto. Qed.

(* an out-of-range intermediate rejects the whole expression, whatever the final value *)
Lemma intermediate_rejects T op a b x :
  fold_e a = Ok x -> in_range T x = false -> tc T (EBin op a b) = false.
Proof.
  intros Ha Hx. destruct (tc T (EBin op a b)) eqn:E; [|reflexivity].
  apply tc_sub_binop in E. destruct E as [E _]. pose proof (tc_val _ _ _ E Ha). congruence.
Qed.

End G.
