From Coq Require Import ZArith Bool List Lia ZifyBool.
From Verif Require Import Base.PyInt C17.ArithSpec C17.ConvSpec C17.GenFold C17.FoldModel C17.FoldAgree C17.ConvModel.
Import ListNotations.
Open Scope Z_scope.

Lemma u2s_spec val n : 1 <= n -> unsigned_to_signed val n false = Ok (if 2 ^ (n - 1) <=? val then val - 2 ^ n else val).
Proof.
  intros Hn. unfold unsigned_to_signed. cbn [bind]. unfold py_pow.
  destruct (n - 1 <? 0) eqn:E; [lia|]. cbn [bind].
  destruct (val >? 2 ^ (n - 1) - 1) eqn:E2; destruct (2 ^ (n - 1) <=? val) eqn:E3; try lia.
  - destruct (n <? 0) eqn:E4; [lia|]. reflexivity.
  - reflexivity.
Qed.

Theorem fold_convert_agrees_lemma : forall l T v,
  (forall m val, l = LHex m val -> 1 <= m) ->
  literal_int l T = Ok v -> convert_int_spec (src_of l) T = Some v.
Proof.
  intros l T v Hm H. destruct l; cbn [literal_int src_of convert_int_spec] in *.
  - destruct (in_range T v0) eqn:E; [|discriminate]. inversion H; subst. now apply chk_in.
  - change c_DECIMAL_DIVISOR with DEC in H.
    destruct ((lo T * DEC <=? V) && (V <=? hi T * DEC)); [|discriminate]. congruence.
  - specialize (Hm m val eq_refl).
    destruct (sgn T).
    + rewrite u2s_spec in H by lia. cbn [bind andb] in *.
      destruct (in_range T _) eqn:E; [|discriminate]. inversion H; subst. now apply chk_in.
    + cbn [bind andb] in *. destruct (in_range T val) eqn:E; [|discriminate]. inversion H; subst. now apply chk_in.
  - destruct (in_range T (if b then 1 else 0)); [|discriminate]. congruence.
Qed.

Theorem fold_convert_decimal_agrees_lemma : forall v V, literal_decimal v = Ok V -> convert_dec_spec v = Some V.
Proof.
  intros v V H. unfold literal_decimal in H. unfold convert_dec_spec.
  change c_DECIMAL_DIVISOR with DEC in H. change c_MINDECIMAL with (- 2 ^ 167) in H. change c_MAXDECIMAL with (2 ^ 167 - 1) in H.
  destruct ((- 2 ^ 167 <=? v * DEC) && (v * DEC <=? 2 ^ 167 - 1)) eqn:E; [|discriminate]. inversion H; subst.
  assert (D : DEC = 10000000000) by reflexivity.
  assert (Q1 : Z.quot (- 2 ^ 167) DEC = -18707220957835557353007165858768422651595) by reflexivity.
  assert (Q2 : Z.quot (2 ^ 167 - 1) DEC = 18707220957835557353007165858768422651595) by reflexivity.
  assert (P : 2 ^ 167 = 187072209578355573530071658587684226515959365500928) by reflexivity.
  rewrite Q1, Q2. rewrite P, D in E.
  destruct ((-18707220957835557353007165858768422651595 <=? v) && (v <=? 18707220957835557353007165858768422651595)) eqn:E2.
  - rewrite D. reflexivity.
  - exfalso. lia.
Qed.

Theorem fold_index_agrees_lemma : forall l i v, fold_index l i = Ok v -> index_spec l i = Some v.
Proof.
  intros l i v H. unfold fold_index in H. unfold index_spec.
  destruct ((i <? 0) || (Z.of_nat (length l) <=? i)) eqn:E; [discriminate|].
  assert (((0 <=? i) && (i <? Z.of_nat (length l))) = true) by lia. rewrite H0.
  destruct (nth_error l (Z.to_nat i)); congruence.
Qed.

(* min_value / max_value fold = the bounds the run-time specification uses *)
Theorem fold_min_max_value_agrees_lemma : forall T, 1 <= bits T ->
  min_value_fold T = Ok (lo T) /\ max_value_fold T = Ok (hi T).
Proof.
  intros T HT. unfold min_value_fold, max_value_fold, int_bounds, lo, hi, py_pow.
  destruct (sgn T).
  - destruct (bits T - 1 <? 0) eqn:E; [lia|]. cbn. auto.
  - destruct (bits T <? 0) eqn:E; [lia|]. cbn. auto.
Qed.

(* uint2str: the folded digit string denotes the number *)
Lemma val_of_digits_app acc a b : val_of_digits acc (a ++ b) = val_of_digits (val_of_digits acc a) b.
Proof. revert acc. induction a; cbn; auto. Qed.
Lemma digits_val fuel : forall v, 0 <= v < 10 ^ Z.of_nat fuel -> (0 < fuel)%nat ->
  val_of_digits 0 (digits_fuel fuel v) = v.
Proof.
  induction fuel as [|f IH]; intros v Hv Hf; [lia|].
  cbn [digits_fuel]. destruct (v <? 10) eqn:E.
  - cbn [val_of_digits]. lia.
  - assert (Hf' : (0 < f)%nat) by (destruct f; [cbn in Hv; lia | lia]).
    assert (Hv' : 0 <= v / 10 < 10 ^ Z.of_nat f).
    { rewrite Nat2Z.inj_succ, Z.pow_succ_r in Hv by lia. split; [apply Z.div_pos; lia|]. apply Z.div_lt_upper_bound; lia. }
    rewrite val_of_digits_app, (IH (v / 10) Hv' Hf'). cbn [val_of_digits].
    pose proof (Z.div_mod v 10 ltac:(lia)). lia.
Qed.
Theorem uint2str_value_lemma : forall v ds, 0 <= v < 10 ^ 80 -> uint2str_fold v = Ok ds -> val_of_digits 0 ds = v.
Proof.
  intros v ds Hv H. unfold uint2str_fold in H. destruct (v <? 0) eqn:E; [lia|].
  assert (Hd : ds = digits_fuel 80 v) by congruence. rewrite Hd. clear H Hd.
  apply digits_val; [change (Z.of_nat 80) with 80; lia | lia].
Qed.
(* ... in digits only, without a leading zero (so it is THE decimal representation) *)
Lemma digits_are_digits fuel : forall v, 0 <= v -> forallb is_digit (digits_fuel fuel v) = true.
Proof.
  induction fuel as [|f IH]; intros v Hv; [reflexivity|]. cbn [digits_fuel]. destruct (v <? 10) eqn:E.
  - cbn [forallb]. unfold is_digit. lia.
  - rewrite forallb_app, IH by (apply Z.div_pos; lia). cbn [forallb]. unfold is_digit.
    pose proof (Z.mod_pos_bound v 10 ltac:(lia)). lia.
Qed.

(* hashes: relative to an oracle H shared by both sides (the EVM's KECCAK256 opcode / SHA256 precompile and the
   compiler's library are assumed to compute the same function; the paired probes test exactly that) *)
Section Hashes.
  Variable H : list Z -> Z.
  Definition hash_fold (bytes : list Z) : res Z := Ok (H bytes).
  Definition hash_spec (bytes : list Z) : option Z := Some (H bytes).
  Theorem fold_hash_agrees_lemma : forall b v, hash_fold b = Ok v -> hash_spec b = Some v.
  Proof. unfold hash_fold, hash_spec. intros. congruence. Qed.
  (* method_id(sig) = first 4 bytes of keccak256(sig) on both sides *)
  Definition method_id_of (bytes : list Z) : Z := H bytes / 2 ^ 224.
End Hashes.
