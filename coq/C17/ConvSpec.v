(* C17 (round 2): run-time side of conversions and of the remaining foldable forms.  Hand-written specification
   (from the language documentation), tied to compiled code by paired probes.  No proofs here. *)
From Coq Require Import ZArith Bool List.
From Verif Require Import C17.ArithSpec.
Import ListNotations.
Open Scope Z_scope.

(* the operand of convert(x, T) as it exists at run time *)
Inductive csrc : Set :=
| SInt (v : Z)                 (* an integer of some integer type *)
| SDec (V : Z)                 (* a decimal, scaled by 10^10 *)
| SBytesM (m : Z) (val : Z)    (* bytesM, as the unsigned number of its m bytes *)
| SBool (b : bool).

(* convert(x, <integer type T>): exact if representable else revert; decimals truncate toward zero after the
   bounds check; bytesM is read as an m-byte two's complement number when T is signed *)
Definition convert_int_spec (s : csrc) (T : ity) : option Z :=
  match s with
  | SInt v => chk T v
  | SDec V => if (lo T * DEC <=? V) && (V <=? hi T * DEC) then Some (Z.quot V DEC) else None
  | SBytesM m val =>
      chk T (if sgn T && (2 ^ (8 * m - 1) <=? val) then val - 2 ^ (8 * m) else val)
  | SBool b => Some (if b then 1 else 0)
  end.
(* convert(x : integer, decimal) *)
Definition convert_dec_spec (v : Z) : option Z :=
  if (Z.quot (- 2 ^ 167) DEC <=? v) && (v <=? Z.quot (2 ^ 167 - 1) DEC) then Some (v * DEC) else None.

(* <list>[i] with run-time index *)
Definition index_spec (l : list Z) (i : Z) : option Z :=
  if (0 <=? i) && (i <? Z.of_nat (length l)) then nth_error l (Z.to_nat i) else None.

(* uint2str: canonical decimal representation (ASCII codes) *)
Definition is_digit (c : Z) : bool := (48 <=? c) && (c <=? 57).
Fixpoint val_of_digits (acc : Z) (ds : list Z) : Z :=
  match ds with [] => acc | c :: t => val_of_digits (acc * 10 + (c - 48)) t end.
Definition canonical (v : Z) (ds : list Z) : Prop :=
  forallb is_digit ds = true /\ val_of_digits 0 ds = v /\ ds <> [] /\ (hd 0 ds = 48 -> ds = [48]).
