From Coq Require Import ZArith Bool List Lia ZifyBool.
From Verif Require Import Base.PyInt C17.ArithSpec C17.GenFold C17.FoldModel C17.FoldAgree C17.MiscModel.
Import ListNotations.
Open Scope Z_scope.

Theorem fold_dec_compare_agrees_lemma : forall op A B, dec_cmp_fold op A B = Ok (dec_cmp_spec op A B).
Proof. intros. apply fold_cmp_agrees_lemma. Qed.

Theorem fold_dec_minmax_agrees_lemma : forall (g : oracle) A B v,
  (dtyped (dec_min_fold g A B) = Ok v -> dec_min_spec A B = Some v) /\
  (dtyped (dec_max_fold g A B) = Ok v -> dec_max_spec A B = Some v).
Proof.
  intros g A B v. split; intros H; apply dtyped_ok in H; destruct H as [H Hv].
  - unfold dec_min_fold, Min_fold in H. destruct (g A B) as [[|]|]; cbn [bind negb] in H; try discriminate.
    inversion H; subst. unfold dec_min_spec, dchk.
    replace (if A <? B then A else B) with (Z.min A B) by (destruct (A <? B) eqn:E; lia). now rewrite Hv.
  - unfold dec_max_fold, Max_fold in H. destruct (g A B) as [[|]|]; cbn [bind negb] in H; try discriminate.
    inversion H; subst. unfold dec_max_spec, dchk.
    replace (if A <? B then B else A) with (Z.max A B) by (destruct (A <? B) eqn:E; lia). now rewrite Hv.
Qed.

Theorem fold_as_wei_decimal_agrees_lemma : forall denom V v,
  as_wei_dec_fold denom V = Ok v -> as_wei_dec_spec V denom = Some v.
Proof.
  intros denom V v H. unfold as_wei_dec_fold in H. unfold as_wei_dec_spec. change c_DECIMAL_DIVISOR with DEC in H.
  destruct (V <? 0); [discriminate|]. congruence.
Qed.
(* the run-time code multiplies without an overflow check: justified for every decimal and every denomination *)
Lemma as_wei_decimal_no_overflow : forall V denom, 0 <= V < 2 ^ 167 -> 0 <= denom <= 10 ^ 21 -> 0 <= V * denom < 2 ^ 256.
Proof.
  intros V denom HV Hd. split; [nia|].
  assert (2 ^ 167 * 10 ^ 21 < 2 ^ 256) by reflexivity.
  assert (V * denom <= 2 ^ 167 * 10 ^ 21) by (apply Z.mul_le_mono_nonneg; lia). lia.
Qed.

Theorem fold_in_agrees_lemma : forall x l, in_fold x l = Ok (in_spec x l) /\ notin_fold x l = Ok (negb (in_spec x l)).
Proof. intros. split; reflexivity. Qed.
Theorem fold_len_agrees_lemma : forall b, len_fold b = Ok (len_spec b).
Proof. reflexivity. Qed.
