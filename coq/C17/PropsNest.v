(* C17 (extension): NESTED constant expressions.
   For every tree of the foldable expression language (NestModel.v: literals, named constants referencing constants,
   + - * // % ** & | ^, << >>, unary - and ~, min, max, abs, shift, uint256_addmod, uint256_mulmod, pow_mod256, list-literal
   indexing, floor / ceil / as_wei_value of decimal trees, as_wei_value of integer trees, len of a literal, min_value / max_value;
   comparisons (integer and decimal trees; == != in not-in on Decimal / Hex / Str / Bytes / bool literals), in / not in on list literals, not, n-ary and / or), for every integer type and every oracle:
   if the ConstantFolder yields the value v (fold_e, pass 1) and the type checker's validation of the folded value of EVERY
   node passes (tc, pass 2: out-of-range intermediates are rejected), then evaluating the same tree at run time -- every
   leaf a non-constant of its type, every operator application exact-or-revert (ArithSpec.v / ConvSpec.v), and / or
   short-circuiting -- yields v as well.  Hence never two different values; only the compiler rejects more. *)
From Coq Require Import ZArith Bool List.
From Verif Require Import Base.PyInt C17.ArithSpec C17.ConvSpec C17.GenFold C17.FoldModel C17.ConvModel C17.MiscModel
  C17.NestModel C17.NestAgree.
Import ListNotations.
Open Scope Z_scope.

Theorem nested_fold_agrees : forall (gp gm : oracle) e T v,
  wf T e = true -> fold_e gp gm e = Ok v -> tc gp gm T e = true -> eval T e = Some v.
Proof. exact nested_fold_agrees_lemma. Qed.
Print Assumptions nested_fold_agrees.

Theorem nested_list_agrees : forall (gp gm : oracle) l T vs,
  wfl T l = true -> fold_l gp gm l = Ok vs -> tcl gp gm T l = true -> eval_l T l = Some vs.
Proof. exact nested_list_agrees_lemma. Qed.
Print Assumptions nested_list_agrees.

Theorem nested_bool_agrees : forall (gp gm : oracle) b v,
  wfb b = true -> fold_b gp gm b = Ok v -> tcb gp gm b = true -> evalb b = Some v.
Proof. exact nested_bool_agrees_lemma. Qed.
Print Assumptions nested_bool_agrees.

(* decimal trees (+ - * / % unary - min max over decimal literals and constants), every node validated against the decimal bounds *)
Theorem nested_decimal_agrees : forall (gm : oracle) d v,
  fold_d gm d = Ok v -> tcd gm d = true -> evald d = Some v.
Proof. exact nested_decimal_agrees_lemma. Qed.
Print Assumptions nested_decimal_agrees.

(* visit_Compare on Decimal / Hex (bytesM, address) / Str / Bytes / bool literals and named constants: the folder compares the
   Python values, Hex source texts after lower-casing; run time compares the denoted bytes (for hex: the nibbles) *)
Theorem fold_compare_literal_kinds_agrees : forall l r b,
  wfv l = true -> wfv r = true -> veq_fold l r = Ok b -> veq_spec l r = Some b.
Proof. exact veq_agrees_lemma. Qed.
Theorem fold_in_literal_kinds_agrees : forall x l b,
  wfv x = true -> forallb wfv l = true -> inv_any x l = Ok b -> inv_spec x l = Some b.
Proof. exact inv_agrees_lemma. Qed.
Print Assumptions fold_compare_literal_kinds_agrees.
Print Assumptions fold_in_literal_kinds_agrees.

(* the rule itself: an operand whose folded value is outside the node's type makes the checker reject the expression,
   whatever the final value is *)
Theorem out_of_range_intermediate_rejected : forall (gp gm : oracle) T op a b x,
  fold_e gp gm a = Ok x -> in_range T x = false -> tc gp gm T (EBin op a b) = false.
Proof. exact intermediate_rejects. Qed.
Print Assumptions out_of_range_intermediate_rejected.

(* non-vacuity: accepted trees of depth 3 with named constants on both sides; a tree whose final value is in range but
   an intermediate is not: the fold yields a value, the checker rejects, and run time indeed reverts *)
Definition g0n : oracle := fun _ _ => Ok false.
Definition gTn : oracle := fun _ _ => Ok true.
Definition I8 := mk_ity true 8.
Definition U8 := mk_ity false 8.
Example nest_nonvacuous :
  let e1 := EBin BSub (EBin BMult (ENamed (EBin BAdd (ELit 5) (ELit 6))) (ELit (-11))) (EMin (ELit 7) (EUn UNeg (ELit 3))) in
  wf I8 e1 = true /\ fold_e g0n gTn e1 = Ok (-118) /\ tc g0n gTn I8 e1 = true /\ eval I8 e1 = Some (-118) /\
  (* (127 + 1) - 1 : final value 127 fits int8, the intermediate 128 does not *)
  let e2 := EBin BSub (EBin BAdd (ELit 127) (ELit 1)) (ELit 1) in
  wf I8 e2 = true /\ fold_e g0n gTn e2 = Ok 127 /\ tc g0n gTn I8 e2 = false /\ eval I8 e2 = None /\
  (* (200 << 1) >> 1 on uint256 is fine; [1, 2, 3][1 + 1]; a chain of constants *)
  let e3 := EIdx (LCons (ELit 1) (LCons (EBin BAdd (ELit 1) (ELit 1)) (LCons (ELit 3) LNil))) U256 (EBin BAdd (ELit 1) (ELit 1)) in
  wf U8 e3 = true /\ fold_e g0n gTn e3 = Ok 3 /\ tc g0n gTn U8 e3 = true /\ eval U8 e3 = Some 3 /\
  let b1 := BConj (BCons (BCmp CLt I8 (EBin BAdd (ELit 100) (ELit 27)) (ELit 5))
                 (BCons (BIn false U8 (ELit 2) (LCons (ELit 1) (LCons (EBin BAdd (ELit 1) (ELit 1)) LNil))) BNil)) in
  wfb b1 = true /\ fold_b g0n gTn b1 = Ok false /\ tcb g0n gTn b1 = true /\ evalb b1 = Some false /\
  (* 0xA1AAB33F in [0xa1aab33f, 0x00000000] ; "Hello" == "hello" *)
  let hx := VHex [65; 49; 65; 65; 66; 51; 51; 70] in let hy := VHex [97; 49; 97; 97; 98; 51; 51; 102] in
  let b2 := BDisj (BCons (BInV false hx [hy; VHex [48; 48; 48; 48; 48; 48; 48; 48]]) (BCons (BCmpV false (VStr [72; 105]) (VStr [104; 105])) BNil)) in
  wfb b2 = true /\ fold_b g0n gTn b2 = Ok true /\ evalb b2 = Some true /\
  fold_b g0n gTn (BCmpV false (VStr [72; 105]) (VStr [104; 105])) = Ok false /\
  (* floor((1.5 * -2.5) / 0.5) + len("abc") * max_value(int8)  : int256 ;  as_wei_value(1.5 + 0.25, "gwei") *)
  let d1 := DBin DDiv (DBin DMul (DLit 15000000000) (DNeg (DLit 25000000000))) (DNamed (DLit 5000000000)) in
  let e4 := EBin BAdd (EFloor d1) (EBin BMult (ELen [97; 98; 99]) (EBound true I8)) in
  fold_d gTn d1 = Ok (-75000000000) /\ tcd gTn d1 = true /\ evald d1 = Some (-75000000000) /\
  wf I256 e4 = true /\ fold_e g0n gTn e4 = Ok 373 /\ tc g0n gTn I256 e4 = true /\ eval I256 e4 = Some 373 /\
  let e5 := EAsWeiD (DBin DAdd (DLit 15000000000) (DLit 2500000000)) 1000000000 in
  wf U256 e5 = true /\ fold_e g0n gTn e5 = Ok 1750000000 /\ tc g0n gTn U256 e5 = true /\ eval U256 e5 = Some 1750000000 /\
  (* max_decimal + epsilon - epsilon: the intermediate leaves the decimal range *)
  let d2 := DBin DSub (DBin DAdd (DLit (2 ^ 167 - 1)) (DLit 1)) (DLit 1) in
  fold_d gTn d2 = Ok (2 ^ 167 - 1) /\ tcd gTn d2 = false /\ evald d2 = None.
Proof. cbv zeta. repeat split; vm_compute; reflexivity. Qed.
