(* C17 (round 4): remaining AST-level folds, hand models (the code works on Decimal / bytes / list objects):
   decimal comparisons and min/max (Python Decimal order = order of the scaled integers), as_wei_value on a decimal,
   `in` / `not in` on a literal list, len() of a literal.  Tie: differential against the real ConstantFolder. *)
From Coq Require Import ZArith Bool List.
From Verif Require Import Base.PyInt C17.ArithSpec C17.GenFold C17.FoldModel.
Import ListNotations.
Open Scope Z_scope.

(* Compare._op on two Decimal literals, operands scaled by 10^10 *)
Definition dec_cmp_fold (op : cmpop) (A B : Z) : res bool := fold_cmp op A B.
(* _MinMax._try_fold on Decimal literals *)
Definition dec_min_fold (g : oracle) (A B : Z) : res Z := Min_fold g A B.
Definition dec_max_fold (g : oracle) (A B : Z) : res Z := Max_fold g A B.
(* AsWeiValue._try_fold on a Decimal literal: int(value * denom), value = V / 10^10 >= 0 *)
Definition as_wei_dec_fold (denom V : Z) : res Z :=
  if V <? 0 then Err Raised else Ok ((V * denom) / c_DECIMAL_DIVISOR).
(* In._op / NotIn._op: `left in right` on literal values *)
Definition in_fold (x : Z) (l : list Z) : res bool := Ok (existsb (fun y => y =? x) l).
Definition notin_fold (x : Z) (l : list Z) : res bool := Ok (negb (existsb (fun y => y =? x) l)).
(* Len._try_fold *)
Definition len_fold (bytes : list Z) : res Z := Ok (Z.of_nat (length bytes)).

(* run-time side *)
Definition dec_cmp_spec (op : cmpop) (A B : Z) : bool := cmp_spec op A B.   (* signed comparison of the scaled words *)
Definition dec_min_spec (A B : Z) : option Z := dchk (if A <? B then A else B).
Definition dec_max_spec (A B : Z) : option Z := dchk (if A <? B then B else A).
(* as_wei_value(x: decimal, unit): assert x >= 0; (x * denom) / 10^10 (no overflow: MAX_DECIMAL * denom < 2^256) *)
Definition as_wei_dec_spec (V denom : Z) : option Z := if V <? 0 then None else Some ((V * denom) / DEC).
Definition in_spec (x : Z) (l : list Z) : bool := existsb (fun y => y =? x) l.
Definition len_spec (bytes : list Z) : Z := Z.of_nat (length bytes).
