(* C17 (round 4): the run-time side stated against C03's specifications.
   C03 proves (coq/C03/Props*.v) that the code BOTH code generators emit for arithmetic and for convert() returns exactly
   `C03.ArithSpec.arith_spec` / `C03.ConvSpec.conv_spec` for all inputs.  Here: C17's hand-written run-time
   specifications coincide with those, hence every C17 agreement theorem is an agreement with the emitted code's
   specification (fold = Ok v  ==>  C03 spec = Val v). *)
From Coq Require Import ZArith Bool List Lia ZifyBool.
From Verif Require C03.LIR C03.ArithSpec C03.ConvSpec.
From Verif Require Import Base.PyInt C17.ArithSpec C17.ConvSpec C17.GenFold C17.FoldModel C17.FoldAgree C17.ConvModel C17.ConvAgree.
Import ListNotations.
Open Scope Z_scope.

Module A3 := Verif.C03.ArithSpec.
Module C3 := Verif.C03.ConvSpec.
Module L3 := Verif.C03.LIR.

Definition nty_of (T : ity) : A3.nty := {| A3.nbytes := bits T / 8; A3.nsigned := sgn T; A3.ndec := false |}.
Definition byte_ty (T : ity) : Prop := exists k, 1 <= k <= 32 /\ bits T = 8 * k.
Definition out_of (o : option Z) : L3.outcome := match o with Some v => L3.Val v | None => L3.Revert end.

Lemma nbits_of T : byte_ty T -> A3.nbits (nty_of T) = bits T.
Proof.
  intros [k [_ E]]. unfold A3.nbits, nty_of. cbn [A3.nbytes]. rewrite E.
  replace (8 * k / 8) with k; [reflexivity|]. rewrite (Z.mul_comm 8 k). rewrite Z.div_mul; lia.
Qed.
Lemma lo_of T : byte_ty T -> A3.ty_lo (nty_of T) = lo T.
Proof. intros H. unfold A3.ty_lo, lo. rewrite (nbits_of T H). reflexivity. Qed.
Lemma hi_of T : byte_ty T -> A3.ty_hi (nty_of T) = hi T.
Proof. intros H. unfold A3.ty_hi, hi. rewrite (nbits_of T H). reflexivity. Qed.
Lemma chk_of T v : byte_ty T -> A3.chk (nty_of T) v = out_of (chk T v).
Proof.
  intros H. unfold A3.chk, chk, A3.in_rangeb, in_range. rewrite (lo_of T H), (hi_of T H).
  destruct ((lo T <=? v) && (v <=? hi T)); reflexivity.
Qed.

Definition aop_of (op : binop) : option A3.aop :=
  match op with
  | BAdd => Some A3.AAdd | BSub => Some A3.ASub | BMult => Some A3.AMul | BFloorDiv => Some A3.ADiv
  | BMod => Some A3.AMod | BPow => Some A3.APow | _ => None
  end.

(* C17's integer arithmetic specification = C03's, operator by operator *)
Theorem arith_spec_is_c03 : forall T op o a b, byte_ty T -> aop_of op = Some o ->
  out_of (arith_spec T op a b) = A3.arith_spec (nty_of T) o a b.
Proof.
  intros T op o a b HT Ho. destruct op; inversion Ho; subst; cbn [arith_spec A3.arith_spec];
    change (A3.ndec (nty_of T)) with false; cbv iota; rewrite ?(chk_of T _ HT); try reflexivity.
  - destruct (b =? 0); [reflexivity|]. rewrite ?(chk_of T _ HT). reflexivity.
  - destruct (b =? 0); [reflexivity|]. rewrite ?(chk_of T _ HT). reflexivity.
  - destruct (b <? 0); [reflexivity|]. rewrite ?(chk_of T _ HT). reflexivity.
Qed.

(* hence: the folded value of + - * // % ** is the value the emitted code's specification gives *)
Theorem fold_binop_agrees_c03 : forall (g : oracle) T op o a b v, ty_ok T -> byte_ty T -> aop_of op = Some o ->
  in_range T a = true -> in_range T b = true ->
  typed T (fold_binop g op a b) = Ok v -> A3.arith_spec (nty_of T) o a b = L3.Val v.
Proof.
  intros g T op o a b v HT HB Ho Ha Hb H.
  rewrite <- (arith_spec_is_c03 T op o a b HB Ho).
  assert (Hop : operand2_ok T op b) by (unfold operand2_ok; destruct op; cbn in *; try discriminate; auto).
  rewrite (fold_binop_agrees_lemma g T op a b HT Ha Hop v H). reflexivity.
Qed.

Definition daop_of (op : dbinop) : A3.aop :=
  match op with DAdd => A3.AAdd | DSub => A3.ASub | DMul => A3.AMul | DDiv => A3.ADiv | DMod => A3.AMod end.
Lemma dchk_of v : A3.chk A3.decimal_t v = out_of (dchk v).
Proof.
  unfold A3.chk, dchk, A3.in_rangeb, dec_in_range.
  change (A3.ty_lo A3.decimal_t) with (- 2 ^ 167). change (A3.ty_hi A3.decimal_t) with (2 ^ 167 - 1).
  destruct ((- 2 ^ 167 <=? v) && (v <=? 2 ^ 167 - 1)) eqn:E; destruct ((- 2 ^ 167 <=? v) && (v <? 2 ^ 167)) eqn:E2;
    try reflexivity; exfalso; lia.
Qed.
Theorem dec_spec_is_c03 : forall op a b, out_of (dec_spec op a b) = A3.arith_spec A3.decimal_t (daop_of op) a b.
Proof.
  intros op a b. destruct op; cbn [dec_spec A3.arith_spec daop_of]; change (A3.ndec A3.decimal_t) with true; cbv iota;
    change A3.DIVISOR with DEC; rewrite ?dchk_of; try reflexivity.
  - destruct (b =? 0); [reflexivity|]. rewrite ?dchk_of. reflexivity.
  - destruct (b =? 0); [reflexivity|]. rewrite ?dchk_of. reflexivity.
Qed.
Theorem fold_decimal_agrees_c03 : forall op a b v,
  dtyped (dec_fold op a b) = Ok v -> A3.arith_spec A3.decimal_t (daop_of op) a b = L3.Val v.
Proof.
  intros op a b v H. rewrite <- dec_spec_is_c03. rewrite (fold_decimal_agrees_lemma op a b v H). reflexivity.
Qed.

(* ---- convert(): literal folding against C03.ConvSpec.conv_spec *)
Definition cty_of_lit (S0 : A3.nty) (l : lit) : C3.cty :=
  match l with LInt _ => C3.CNum S0 | LDec _ => C3.CNum A3.decimal_t | LHex m _ => C3.CBytes m | LBool _ => C3.CBool end.
Definition val_of_lit (l : lit) : Z :=
  match l with LInt v => v | LDec V => V | LHex _ val => val | LBool b => if b then 1 else 0 end.

Lemma c_chk_of T v : byte_ty T -> C3.c_chk (C3.CNum (nty_of T)) v = out_of (chk T v).
Proof.
  intros H. unfold C3.c_chk, C3.c_in_rangeb, chk, in_range. cbn [C3.c_lo C3.c_hi].
  rewrite (lo_of T H), (hi_of T H). destruct ((lo T <=? v) && (v <=? hi T)); reflexivity.
Qed.

(* convert(<literal>, <integer type>) as folded by _literal_int = conv_spec of the literal's run-time type and value *)
Theorem fold_convert_agrees_c03 : forall l T S0 v, byte_ty T -> A3.ndec S0 = false ->
  (forall m val, l = LHex m val -> 1 <= m) ->
  literal_int l T = Ok v -> C3.conv_spec (cty_of_lit S0 l) (C3.CNum (nty_of T)) (val_of_lit l) = L3.Val v.
Proof.
  intros l T S0 v HT HS Hm H.
  pose proof (fold_convert_agrees_lemma l T v Hm H) as Sp.
  destruct l; cbn [cty_of_lit val_of_lit C3.conv_spec src_of convert_int_spec] in *;
    change (A3.ndec (nty_of T)) with false; cbv iota.
  - rewrite HS. rewrite (c_chk_of T _ HT), Sp. reflexivity.
  - change (A3.ndec A3.decimal_t) with true. cbv iota. rewrite (lo_of T HT), (hi_of T HT).
    change A3.DIVISOR with DEC. destruct ((lo T * DEC <=? V) && (V <=? hi T * DEC)); [|discriminate].
    inversion Sp; subst. reflexivity.
  - change (A3.nsigned (nty_of T)) with (sgn T). rewrite (c_chk_of T _ HT).
    assert (E : (if sgn T then C3.sbytes m val else val) = (if sgn T && (2 ^ (8 * m - 1) <=? val) then val - 2 ^ (8 * m) else val)).
    { unfold C3.sbytes. destruct (sgn T); cbn [andb]; [|reflexivity].
      destruct (val <? 2 ^ (8 * m - 1)) eqn:E1; destruct (2 ^ (8 * m - 1) <=? val) eqn:E2; try reflexivity; exfalso; lia. }
    rewrite E, Sp. reflexivity.
  - rewrite (c_chk_of T _ HT). destruct b; cbn in Sp; inversion Sp; subst.
    + unfold literal_int in H. destruct (in_range T 1) eqn:E; [|discriminate]. unfold chk. rewrite E. reflexivity.
    + unfold literal_int in H. destruct (in_range T 0) eqn:E; [|discriminate]. unfold chk. rewrite E. reflexivity.
Qed.

(* convert(<int literal>, decimal) as folded by _literal_decimal *)
Theorem fold_convert_decimal_agrees_c03 : forall S0 v V, A3.ndec S0 = false ->
  literal_decimal v = Ok V -> C3.conv_spec (C3.CNum S0) (C3.CNum A3.decimal_t) v = L3.Val V.
Proof.
  intros S0 v V HS H. cbn [C3.conv_spec]. change (A3.ndec A3.decimal_t) with true. cbv iota.
  unfold literal_decimal in H. change c_DECIMAL_DIVISOR with A3.DIVISOR in H.
  change c_MINDECIMAL with (- 2 ^ 167) in H. change c_MAXDECIMAL with (2 ^ 167 - 1) in H.
  unfold C3.c_chk, C3.c_in_rangeb. cbn [C3.c_lo C3.c_hi].
  change (A3.ty_lo A3.decimal_t) with (- 2 ^ 167). change (A3.ty_hi A3.decimal_t) with (2 ^ 167 - 1).
  destruct ((- 2 ^ 167 <=? v * A3.DIVISOR) && (v * A3.DIVISOR <=? 2 ^ 167 - 1)); [|discriminate].
  inversion H; subst. reflexivity.
Qed.

(* convert(<hex literal of m bytes>, decimal): _literal_decimal with sign extension (decimal is signed) *)
Theorem fold_convert_hex_decimal_agrees_c03 : forall m val V, 1 <= m ->
  literal_decimal_hex m val = Ok V -> C3.conv_spec (C3.CBytes m) (C3.CNum A3.decimal_t) val = L3.Val V.
Proof.
  intros m val V Hm H. unfold literal_decimal_hex in H. rewrite u2s_spec in H by lia. cbn [bind] in H.
  cbn [C3.conv_spec]. change (A3.ndec A3.decimal_t) with true. cbv iota.
  unfold C3.c_chk, C3.c_in_rangeb, C3.sbytes. cbn [C3.c_lo C3.c_hi].
  change (A3.ty_lo A3.decimal_t) with (- 2 ^ 167). change (A3.ty_hi A3.decimal_t) with (2 ^ 167 - 1).
  change c_MINDECIMAL with (- 2 ^ 167) in H. change c_MAXDECIMAL with (2 ^ 167 - 1) in H.
  destruct (2 ^ (8 * m - 1) <=? val) eqn:E1; destruct (val <? 2 ^ (8 * m - 1)) eqn:E2; try (exfalso; lia).
  - destruct ((- 2 ^ 167 <=? val - 2 ^ (8 * m)) && (val - 2 ^ (8 * m) <=? 2 ^ 167 - 1)); [|discriminate]. inversion H; reflexivity.
  - destruct ((- 2 ^ 167 <=? val) && (val <=? 2 ^ 167 - 1)); [|discriminate]. inversion H; reflexivity.
Qed.
