(* C17 (round 2): literal conversion, list-literal indexing, uint2str, min_value/max_value, hashes. *)
From Coq Require Import ZArith Bool List.
From Verif Require Import Base.PyInt C17.ArithSpec C17.ConvSpec C17.GenFold C17.FoldModel C17.ConvModel C17.ConvAgree.
Import ListNotations.
Open Scope Z_scope.

(* convert(<literal>, <integer type>) folded by _literal_int = run-time convert of the same value:
   integer / decimal (truncation after the bounds check) / bytesM-hex (sign extension) / bool operands *)
Theorem fold_convert_agrees : forall l T v,
  (forall m val, l = LHex m val -> 1 <= m) ->
  literal_int l T = Ok v -> convert_int_spec (src_of l) T = Some v.
Proof. exact fold_convert_agrees_lemma. Qed.
Print Assumptions fold_convert_agrees.
Theorem fold_convert_decimal_agrees : forall v V, literal_decimal v = Ok V -> convert_dec_spec v = Some V.
Proof. exact fold_convert_decimal_agrees_lemma. Qed.
Theorem fold_index_agrees : forall l i v, fold_index l i = Ok v -> index_spec l i = Some v.
Proof. exact fold_index_agrees_lemma. Qed.
Theorem fold_min_max_value_agrees : forall T, 1 <= bits T ->
  min_value_fold T = Ok (lo T) /\ max_value_fold T = Ok (hi T).
Proof. exact fold_min_max_value_agrees_lemma. Qed.
Theorem fold_uint2str_value : forall v ds, 0 <= v < 10 ^ 80 -> uint2str_fold v = Ok ds ->
  val_of_digits 0 ds = v /\ forallb is_digit ds = true.
Proof.
  intros v ds Hv H. split. eapply uint2str_value_lemma; eauto.
  unfold uint2str_fold in H. destruct (v <? 0); [discriminate|].
  assert (Hd : ds = digits_fuel 80 v) by congruence. rewrite Hd. apply digits_are_digits. apply Hv.
Qed.
Theorem fold_hash_agrees : forall (H : list Z -> Z) b v, hash_fold H b = Ok v -> hash_spec H b = Some v.
Proof. exact fold_hash_agrees_lemma. Qed.
Print Assumptions fold_uint2str_value.
Print Assumptions fold_min_max_value_agrees.

Example conv_nonvacuous :
  literal_int (LDec (-15000000000)) (mk_ity true 8) = Ok (-1) /\
  convert_int_spec (SDec (-15000000000)) (mk_ity true 8) = Some (-1) /\
  literal_int (LHex 1 255) (mk_ity true 8) = Ok (-1) /\
  literal_int (LHex 1 255) (mk_ity false 8) = Ok 255 /\
  (exists e, literal_int (LDec 2559000000000) (mk_ity false 8) = Err e) /\
  fold_index [7; 8; 9] 2 = Ok 9 /\ (exists e, fold_index [7; 8; 9] 3 = Err e) /\
  uint2str_fold 1203 = Ok [49; 50; 48; 51].
Proof. repeat split; try (vm_compute; reflexivity); eexists; vm_compute; reflexivity. Qed.
