(* C17 (extension): the nested theorem against C03's specification of the emitted code (C03 proves legacy_/venom_*_exact:
   the code of both pipelines computes C03.ArithSpec.arith_spec for every operator application). *)
From Coq Require Import ZArith Bool List.
From Verif Require C03.LIR C03.ArithSpec.
From Verif Require Import Base.PyInt C17.ArithSpec C17.GenFold C17.FoldModel C17.BridgeC03 C17.NestModel C17.NestBridge.
Import ListNotations.
Open Scope Z_scope.

Theorem nested_arith_agrees_runtime_spec : forall (gp gm : oracle) e T v,
  byte_ty T -> arith_tree e = true -> wf T e = true ->
  fold_e gp gm e = Ok v -> tc gp gm T e = true -> eval3 (nty_of T) e = L3.Val v.
Proof. exact nested_arith_agrees_c03. Qed.
Print Assumptions nested_arith_agrees_runtime_spec.

Theorem nested_decimal_agrees_runtime_spec : forall (gm : oracle) d v,
  darith_tree d = true -> fold_d gm d = Ok v -> tcd gm d = true -> evald3 d = L3.Val v.
Proof. exact nested_decimal_agrees_c03. Qed.
Print Assumptions nested_decimal_agrees_runtime_spec.

Definition g0b : oracle := fun _ _ => Ok false.
Example nest_bridge_nonvacuous :
  let T := mk_ity true 8 in
  let e := EBin BSub (EBin BMult (ENamed (EBin BAdd (ELit 5) (ELit 6))) (ELit (-11))) (EBin BFloorDiv (ELit (-7)) (ELit 2)) in
  byte_ty T /\ arith_tree e = true /\ wf T e = true /\ fold_e g0b g0b e = Ok (-118) /\ tc g0b g0b T e = true /\
  eval3 (nty_of T) e = L3.Val (-118) /\
  eval3 (nty_of T) (EBin BSub (EBin BAdd (ELit 127) (ELit 1)) (ELit 1)) = L3.Revert /\
  let d := DBin DDiv (DBin DMul (DLit 15000000000) (DLit (-25000000000))) (DNamed (DLit 5000000000)) in
  darith_tree d = true /\ fold_d g0b d = Ok (-75000000000) /\ tcd g0b d = true /\ evald3 d = L3.Val (-75000000000).
Proof.
  cbv zeta. split. { exists 1. split; [split; discriminate | reflexivity]. }
  repeat split; vm_compute; reflexivity.
Qed.
