(* C17: compile-time side.  The per-operator bodies come from GenFold.v (regenerated from /repo);
   this file adds the thin dispatch that ConstantFolder.visit_BinOp / visit_UnaryOp / visit_Compare and the
   literal type check (NumericT.validate_literal) put around them.  Hand-written (H-tie: checked against the
   real ConstantFolder on every run by tools/checks/c17.py).  No proofs here. *)
From Coq Require Import ZArith Bool List.
From Verif Require Import Base.PyInt C17.ArithSpec C17.GenFold.
Import ListNotations.
Open Scope Z_scope.

Definition oracle := Z -> Z -> res bool.

Definition op_fn (g : oracle) (op : binop) : Z -> Z -> res Z :=
  match op with
  | BAdd => Add_op | BSub => Sub_op | BMult => Mult_op | BFloorDiv => FloorDiv_op | BMod => Mod_op
  | BPow => Pow_op g | BAnd => BitAnd_op | BOr => BitOr_op | BXor => BitXor_op
  | BShl => LShift_op | BShr => RShift_op
  end.

(* visit_BinOp: shifts outside 0..256 raise InvalidLiteral before _op is called *)
Definition fold_binop (g : oracle) (op : binop) (a b : Z) : res Z :=
  if is_shift op && negb ((0 <=? b) && (b <=? 256)) then Err Raised else op_fn g op a b.

Definition fold_unop (op : unop) (a : Z) : res Z :=
  match op with UNeg => USub_op a | UInvert => Invert_op a end.

Definition fold_cmp (op : cmpop) (a b : Z) : res bool :=
  match op with
  | CEq => Eq_op a b | CNe => NotEq_op a b | CLt => Lt_op a b | CLe => LtE_op a b
  | CGt => Gt_op a b | CGe => GtE_op a b
  end.

(* the folded literal is then checked against the expected type: out of range = compile error *)
Definition typed (T : ity) (r : res Z) : res Z :=
  v <- r ;; if in_range T v then Ok v else Err Raised.

(* "fold says v  ==>  run time says v" ; by determinism of both sides this is the same as
   "never two different values, and if the fold yields a value run time does not revert" *)
Definition agrees (f : res Z) (s : option Z) : Prop := forall v, f = Ok v -> s = Some v.

(* decimals, hand-modelled as integers scaled by 10^10 (the Decimal paths of Operator._op are outside
   the translator's integer subset).  Div: Decimal true division, negative results recomputed as
   -(-l / r), then quantize ROUND_DOWN = truncation toward zero at 10 places. *)
Definition dec_fold (op : dbinop) (a b : Z) : res Z :=
  match op with
  | DAdd => Ok (a + b)
  | DSub => Ok (a - b)
  | DMul => Ok (Z.quot (a * b) c_DECIMAL_DIVISOR)
  | DDiv => if b =? 0 then Err Raised else Ok (Z.quot (a * c_DECIMAL_DIVISOR) b)
  | DMod => if b =? 0 then Err Raised
            else Ok ((if a <? 0 then -1 else 1) * (Z.abs a mod Z.abs b))
  end.
Definition dtyped (r : res Z) : res Z :=
  v <- r ;; if (c_MINDECIMAL <=? v) && (v <=? c_MAXDECIMAL) then Ok v else Err Raised.
Definition floor_fold (a : Z) : res Z := Ok (a / c_DECIMAL_DIVISOR).
Definition ceil_fold (a : Z) : res Z := Ok (- ((- a) / c_DECIMAL_DIVISOR)).
