(* C17 (extension): nested + - * // % ** trees (integers) and + - * / % trees (decimals) against C03's run-time
   specification: the composition of C03.ArithSpec.arith_spec over the tree -- the function C03's legacy_/venom_*_exact
   theorems prove the emitted code computes, operator application by operator application. *)
From Coq Require Import ZArith Bool List Lia ZifyBool.
From Verif Require C03.LIR C03.ArithSpec.
From Verif Require Import Base.PyInt C17.ArithSpec C17.ConvSpec C17.GenFold C17.FoldModel C17.ConvModel C17.MiscModel
  C17.FoldAgree C17.ConvAgree C17.BridgeC03 C17.NestModel C17.NestAgree.
Import ListNotations.
Open Scope Z_scope.

Fixpoint arith_tree (e : ex) : bool :=
  match e with
  | ELit _ => true
  | ENamed d => arith_tree d
  | EBin op a b => (match aop_of op with Some _ => true | None => false end) && arith_tree a && arith_tree b
  | _ => false
  end.

Definition bind3 (o : L3.outcome) (f : Z -> L3.outcome) : L3.outcome :=
  match o with L3.Val x => f x | _ => L3.Revert end.

(* the tree over non-constant leaves of type N, every application by C03's arith_spec *)
Fixpoint eval3 (N : A3.nty) (e : ex) : L3.outcome :=
  match e with
  | ELit v => A3.chk N v
  | ENamed d => eval3 N d
  | EBin op a b =>
      match aop_of op with
      | Some o => bind3 (eval3 N a) (fun x => bind3 (eval3 N b) (fun y => A3.arith_spec N o x y))
      | None => L3.Revert
      end
  | _ => L3.Revert
  end.

Lemma eval_is_c03 : forall e T, byte_ty T -> arith_tree e = true -> out_of (eval T e) = eval3 (nty_of T) e.
Proof.
  induction e; intros T HT Ha; cbn [arith_tree] in Ha; try discriminate.
  - cbn [eval eval3]. now rewrite chk_of.
  - cbn [eval eval3]. auto.
  - cbn [eval eval3]. destruct (aop_of op) as [o|] eqn:Eo; [|discriminate]. cbn [andb] in Ha.
    apply andb_prop in Ha. destruct Ha as [A1 A2].
    rewrite <- (IHe1 T HT A1), <- (IHe2 T HT A2).
    destruct (eval T e1) as [x|]; cbn [obind out_of bind3]; [|reflexivity].
    destruct (eval T e2) as [y|]; cbn [obind out_of bind3]; [|reflexivity].
    now apply arith_spec_is_c03.
Qed.

Theorem nested_arith_agrees_c03 : forall (gp gm : oracle) e T v,
  byte_ty T -> arith_tree e = true -> wf T e = true ->
  fold_e gp gm e = Ok v -> tc gp gm T e = true -> eval3 (nty_of T) e = L3.Val v.
Proof.
  intros gp gm e T v HT Ha Hw Hf Ht. rewrite <- (eval_is_c03 e T HT Ha).
  rewrite (nested_fold_agrees_lemma gp gm e T v Hw Hf Ht). reflexivity.
Qed.

(* decimals: + - * / % trees *)
Fixpoint darith_tree (d : dex) : bool :=
  match d with
  | DLit _ => true
  | DNamed a => darith_tree a
  | DBin _ a b => darith_tree a && darith_tree b
  | _ => false
  end.
Fixpoint evald3 (d : dex) : L3.outcome :=
  match d with
  | DLit V => A3.chk A3.decimal_t V
  | DNamed a => evald3 a
  | DBin op a b => bind3 (evald3 a) (fun x => bind3 (evald3 b) (fun y => A3.arith_spec A3.decimal_t (daop_of op) x y))
  | _ => L3.Revert
  end.
Lemma evald_is_c03 : forall d, darith_tree d = true -> out_of (evald d) = evald3 d.
Proof.
  induction d; intros Ha; cbn [darith_tree] in Ha; try discriminate.
  - cbn [evald evald3]. now rewrite dchk_of.
  - cbn [evald evald3]. auto.
  - cbn [evald evald3]. apply andb_prop in Ha. destruct Ha as [A1 A2].
    rewrite <- (IHd1 A1), <- (IHd2 A2).
    destruct (evald d1) as [x|]; cbn [obind out_of bind3]; [|reflexivity].
    destruct (evald d2) as [y|]; cbn [obind out_of bind3]; [|reflexivity].
    apply dec_spec_is_c03.
Qed.
Theorem nested_decimal_agrees_c03 : forall (gm : oracle) d v,
  darith_tree d = true -> fold_d gm d = Ok v -> tcd gm d = true -> evald3 d = L3.Val v.
Proof.
  intros gm d v Ha Hf Ht. rewrite <- (evald_is_c03 d Ha). rewrite (nested_decimal_agrees_lemma gm d v Hf Ht). reflexivity.
Qed.
