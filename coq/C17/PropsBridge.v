(* C17 (round 4): agreement theorems stated against C03's run-time specifications (which C03 proves exact for the code
   both pipelines emit), and the remaining AST-level folds. *)
From Coq Require Import ZArith Bool List Lia.
From Verif Require C03.LIR C03.ArithSpec C03.ConvSpec.
From Verif Require Import Base.PyInt C17.ArithSpec C17.ConvSpec C17.GenFold C17.FoldModel C17.ConvModel C17.MiscModel
  C17.MiscAgree C17.BridgeC03.
Import ListNotations.
Open Scope Z_scope.

Theorem fold_binop_agrees_runtime_spec : forall (g : oracle) T op o a b v, ty_ok T -> byte_ty T -> aop_of op = Some o ->
  in_range T a = true -> in_range T b = true ->
  typed T (fold_binop g op a b) = Ok v -> A3.arith_spec (nty_of T) o a b = L3.Val v.
Proof. exact fold_binop_agrees_c03. Qed.
Print Assumptions fold_binop_agrees_runtime_spec.
Theorem fold_decimal_agrees_runtime_spec : forall op a b v,
  dtyped (dec_fold op a b) = Ok v -> A3.arith_spec A3.decimal_t (daop_of op) a b = L3.Val v.
Proof. exact fold_decimal_agrees_c03. Qed.
Theorem fold_convert_agrees_runtime_spec : forall l T S0 v, byte_ty T -> A3.ndec S0 = false ->
  (forall m val, l = LHex m val -> 1 <= m) ->
  literal_int l T = Ok v -> C3.conv_spec (cty_of_lit S0 l) (C3.CNum (nty_of T)) (val_of_lit l) = L3.Val v.
Proof. exact fold_convert_agrees_c03. Qed.
Print Assumptions fold_convert_agrees_runtime_spec.
Theorem fold_convert_decimal_agrees_runtime_spec : forall S0 v V, A3.ndec S0 = false ->
  literal_decimal v = Ok V -> C3.conv_spec (C3.CNum S0) (C3.CNum A3.decimal_t) v = L3.Val V.
Proof. exact fold_convert_decimal_agrees_c03. Qed.
Theorem fold_convert_hex_decimal_agrees_runtime_spec : forall m val V, 1 <= m ->
  literal_decimal_hex m val = Ok V -> C3.conv_spec (C3.CBytes m) (C3.CNum A3.decimal_t) val = L3.Val V.
Proof. exact fold_convert_hex_decimal_agrees_c03. Qed.

Theorem fold_dec_compare_agrees : forall op A B, dec_cmp_fold op A B = Ok (dec_cmp_spec op A B).
Proof. exact fold_dec_compare_agrees_lemma. Qed.
Theorem fold_dec_minmax_agrees : forall (g : oracle) A B v,
  (dtyped (dec_min_fold g A B) = Ok v -> dec_min_spec A B = Some v) /\
  (dtyped (dec_max_fold g A B) = Ok v -> dec_max_spec A B = Some v).
Proof. exact fold_dec_minmax_agrees_lemma. Qed.
Theorem fold_as_wei_decimal_agrees : forall denom V v, as_wei_dec_fold denom V = Ok v -> as_wei_dec_spec V denom = Some v.
Proof. exact fold_as_wei_decimal_agrees_lemma. Qed.
Theorem fold_in_agrees : forall x l, in_fold x l = Ok (in_spec x l) /\ notin_fold x l = Ok (negb (in_spec x l)).
Proof. exact fold_in_agrees_lemma. Qed.
Theorem fold_len_agrees : forall b, len_fold b = Ok (len_spec b).
Proof. exact fold_len_agrees_lemma. Qed.

Example bridge_nonvacuous :
  let I8 := mk_ity true 8 in
  byte_ty I8 /\ aop_of BFloorDiv = Some A3.ADiv /\
  A3.arith_spec (nty_of I8) A3.ADiv (-128) 3 = L3.Val (-42) /\
  C3.conv_spec (C3.CBytes 1) (C3.CNum (nty_of I8)) 255 = L3.Val (-1) /\
  C3.conv_spec (C3.CNum A3.decimal_t) (C3.CNum (nty_of (mk_ity false 8))) 2559000000000 = L3.Revert /\
  as_wei_dec_fold (10 ^ 9) 15000000000 = Ok 1500000000 /\ literal_decimal_hex 1 255 = Ok (-1).
Proof. cbv zeta. repeat split; try (vm_compute; reflexivity). exists 1. split; [lia|reflexivity]. Qed.
