(* C17: run-time side.  Specification of what Vyper arithmetic yields at run time on operands of an
   integer type T: the exact mathematical result if representable in T, else Revert (None).
   // truncates toward zero, % takes the sign of the dividend, division by zero reverts, shifts wrap.
   Written from the language documentation, independent of the compiler; tied to the compiled code by the
   paired-probe correspondence in tools/checks/c17.py.  No proofs here. *)
From Coq Require Import ZArith Bool.
Open Scope Z_scope.

Record ity : Set := mk_ity { sgn : bool; bits : Z }.
Definition U256 := mk_ity false 256.
Definition I256 := mk_ity true 256.

Definition lo (T : ity) : Z := if sgn T then - 2 ^ (bits T - 1) else 0.
Definition hi (T : ity) : Z := if sgn T then 2 ^ (bits T - 1) - 1 else 2 ^ bits T - 1.
Definition in_range (T : ity) (v : Z) : bool := (lo T <=? v) && (v <=? hi T).
Definition ty_ok (T : ity) : Prop := 8 <= bits T <= 256.

(* exact-or-revert *)
Definition chk (T : ity) (v : Z) : option Z := if in_range T v then Some v else None.
(* two's complement wrap into T *)
Definition wrapT (T : ity) (v : Z) : Z :=
  let m := v mod 2 ^ bits T in
  if sgn T && (2 ^ (bits T - 1) <=? m) then m - 2 ^ bits T else m.

Inductive binop : Set :=
| BAdd | BSub | BMult | BFloorDiv | BMod | BPow | BAnd | BOr | BXor | BShl | BShr.
Definition is_shift (op : binop) : bool := match op with BShl | BShr => true | _ => false end.

Definition arith_spec (T : ity) (op : binop) (a b : Z) : option Z :=
  match op with
  | BAdd => chk T (a + b)
  | BSub => chk T (a - b)
  | BMult => chk T (a * b)
  | BFloorDiv => if b =? 0 then None else chk T (Z.quot a b)
  | BMod => if b =? 0 then None else chk T (Z.rem a b)
  | BPow => if b <? 0 then None else chk T (a ^ b)
  | BAnd => chk T (Z.land a b)
  | BOr => chk T (Z.lor a b)
  | BXor => chk T (Z.lxor a b)
  (* shifts: the shift amount is an unsigned word; no overflow check, the result wraps *)
  | BShl => Some (if 256 <=? b then 0 else wrapT T (a * 2 ^ b))
  | BShr => Some (if 256 <=? b then (if a <? 0 then -1 else 0) else a / 2 ^ b)
  end.

Inductive unop : Set := UNeg | UInvert.
Definition unop_spec (T : ity) (op : unop) (a : Z) : option Z :=
  match op with
  | UNeg => chk T (- a)
  | UInvert => chk T (if sgn T then -1 - a else 2 ^ bits T - 1 - a)
  end.

Inductive cmpop : Set := CEq | CNe | CLt | CLe | CGt | CGe.
Definition cmp_spec (op : cmpop) (a b : Z) : bool :=
  match op with
  | CEq => a =? b | CNe => negb (a =? b) | CLt => a <? b | CLe => a <=? b | CGt => b <? a | CGe => b <=? a
  end.

(* builtins *)
Definition min_spec (T : ity) (a b : Z) : option Z := chk T (if a <? b then a else b).
Definition max_spec (T : ity) (a b : Z) : option Z := chk T (if a <? b then b else a).
Definition abs_spec (T : ity) (a : Z) : option Z := chk T (if a <? 0 then - a else a).
(* shift(x, n): n < 0 shifts right by -n, else left by n (wrapping) *)
Definition shift_spec (T : ity) (x n : Z) : option Z :=
  Some (if n <? 0 then (if 256 <=? - n then (if x <? 0 then -1 else 0) else x / 2 ^ (- n))
        else if 256 <=? n then 0 else wrapT T (x * 2 ^ n)).
Definition addmod_spec (a b c : Z) : option Z := if c =? 0 then None else Some ((a + b) mod c).
Definition mulmod_spec (a b c : Z) : option Z := if c =? 0 then None else Some ((a * b) mod c).
Definition powmod256_spec (a b : Z) : option Z := Some ((a ^ b) mod 2 ^ 256).
(* as_wei_value(v : T, unit) with unit = denom wei *)
Definition as_wei_spec (v denom : Z) : option Z := if v <? 0 then None else chk U256 (v * denom).
(* unsafe_*: wrap, never revert; unsafe_div by zero gives 0 *)
Inductive uop : Set := UAdd | USub | UMul | UDiv.
Definition unsafe_spec (T : ity) (op : uop) (a b : Z) : Z :=
  match op with
  | UAdd => wrapT T (a + b) | USub => wrapT T (a - b) | UMul => wrapT T (a * b)
  | UDiv => if b =? 0 then 0 else wrapT T (Z.quot a b)
  end.

(* decimals are integers scaled by 10^10 in [-2^167, 2^167) *)
Definition DEC : Z := 10 ^ 10.
Definition dec_in_range (v : Z) : bool := (- 2 ^ 167 <=? v) && (v <? 2 ^ 167).
Definition dchk (v : Z) : option Z := if dec_in_range v then Some v else None.
Inductive dbinop : Set := DAdd | DSub | DMul | DDiv | DMod.
Definition dec_spec (op : dbinop) (a b : Z) : option Z :=
  match op with
  | DAdd => dchk (a + b) | DSub => dchk (a - b)
  | DMul => dchk (Z.quot (a * b) DEC)
  | DDiv => if b =? 0 then None else dchk (Z.quot (a * DEC) b)
  | DMod => if b =? 0 then None else dchk (Z.rem a b)
  end.
Definition floor_spec (a : Z) : Z := a / DEC.
Definition ceil_spec (a : Z) : Z := - ((- a) / DEC).
