(* C10 (f): the address arithmetic emitted by vyper/codegen/core.py get_element_ptr
   (_get_element_ptr_array / _get_element_ptr_tuplelike) as a parametric LIR generator, and the theorem
   that it computes  base + ws * (Layout.resolve offset)  (mod 2^256), reverting exactly when an index is
   out of bounds.  ws = word_scale of the location (1: storage / transient, 32: memory / calldata / code).
   O-tie: tools/checks/c10.py exports the real generator's output for generated (type, path) pairs and
   compares it syntactically (vm_compute) with [addr_path].  HashMap steps (sha3_64) split a path into
   segments; each segment is handled here, the hash chain in Paths.v / MapChain below. *)
From Coq Require Import ZArith Bool List String Ascii Lia ZifyBool.
From Verif Require Import Base.Word256 C03.LIR C10.Layout C10.Paths.
Import ListNotations.
Open Scope Z_scope.
Ltac Zify.zify_post_hook ::= Z.to_euclidean_division_equations.

Definition digit (k : nat) : ascii := ascii_of_nat (48 + k).
Definition ixn (k : nat) : string := String "i"%char (String "x"%char (String (digit k) EmptyString)).
Definition lenn (k : nat) : string := String "l"%char (String "e"%char (String "n"%char (String (digit k) EmptyString))).
Definition valn : string := "val"%string.

(* IRnode.cache_when_complex("val"): the parent is inlined when the legacy optimizer reduces it to a
   variable / literal; for pointer expressions over a variable base that is exactly  (add q 0)  chains
   (member 0 of a struct).  The correctness theorem below holds for either choice. *)
Fixpoint is_simple (p : lir) : bool :=
  match p with
  | LVar _ | LInt _ => true
  | L2 OAdd q (LInt 0) => is_simple q
  | _ => false
  end.
Definition wrap_parent (p : lir) (f : lir -> lir) : lir :=
  if is_simple p then f p else LWith valn p (f (LVar valn)).

Definition chk (signed : bool) (k : nat) (bound : lir) : lir :=
  LSeq (LAssert (L1 OIszero (L2 OOr (L2 (if signed then OSlt else OLt) (LVar (ixn k)) (LInt 0))
                                    (L2 OGe (LVar (ixn k)) bound))))
       (LVar (ixn k)).

Definition addr_step (ws : Z) (signed : bool) (k : nat) (t : ty) (s : step) (p : lir) : option (lir * ty) :=
  match t, s with
  | TSArr e n, SIdx _ =>
      Some (wrap_parent p (fun q => L2 OAdd q (L2 OMul (chk signed k (LInt n)) (LInt (ws * size_words e)))), e)
  | TDArr e n, SIdx _ =>
      Some (wrap_parent p (fun q => L2 OAdd (L2 OAdd q (LInt ws))
                                           (L2 OMul (chk signed k (LVar (lenn k))) (LInt (ws * size_words e)))), e)
  | TStruct ms, SField j =>
      match nth_error ms j with
      | Some m => Some (wrap_parent p (fun q => L2 OAdd q (LInt (ws * fields_before ms j))), m)
      | None => None
      end
  | _, _ => None
  end.

Fixpoint addr_path (ws : Z) (signs : list bool) (k : nat) (t : ty) (path : list step) (p : lir) : option lir :=
  match path with
  | [] => Some p
  | s :: path' =>
      match addr_step ws (hd false signs) k t s p with
      | Some (q, c) => addr_path ws (tl signs) (S k) c path' q
      | None => None
      end
  end.

(* ---------- semantics ---------- *)
Lemma W_is : W = 2 ^ 256. Proof. reflexivity. Qed.
Lemma HALF_is : HALF = 2 ^ 255. Proof. reflexivity. Qed.

Lemma wrap_add_l : forall a b, wrap (wrap a + b) = wrap (a + b).
Proof. intros. unfold wrap. rewrite Z.add_mod_idemp_l; [reflexivity|]. rewrite W_is. lia. Qed.
Lemma wrap_add_r : forall a b, wrap (a + wrap b) = wrap (a + b).
Proof. intros. unfold wrap. rewrite Z.add_mod_idemp_r; [reflexivity|]. rewrite W_is. lia. Qed.
Lemma wrap_mul_r : forall a b, wrap (a * wrap b) = wrap (a * b).
Proof. intros. unfold wrap. rewrite Z.mul_mod_idemp_r; [reflexivity|]. rewrite W_is. lia. Qed.
Lemma wrap_small : forall a, 0 <= a < W -> wrap a = a.
Proof. intros. unfold wrap. apply Z.mod_small. auto. Qed.

Definition idxv (signed : bool) (x : Z) : Z := if signed then to_signed x else x.

(* the environment binds "val" only through our own LWith; index / length variables are never "val" *)
Lemma lookup_val_ix : forall v e k, lookup ((valn, v) :: e) (ixn k) = lookup e (ixn k).
Proof. intros. reflexivity. Qed.
Lemma lookup_val_len : forall v e k, lookup ((valn, v) :: e) (lenn k) = lookup e (lenn k).
Proof. intros. reflexivity. Qed.

Lemma chk_eval : forall signed k e x b bound,
  lookup e (ixn k) = Some x -> 0 <= x < W -> leval e bound = Val b -> 0 <= b < W ->
  leval e (chk signed k bound) = if (0 <=? idxv signed x) && (idxv signed x <? b) then Val x else Revert.
Proof.
  intros signed k e x b bound Hx Rx Hb Rb. pose proof W_is. pose proof HALF_is. unfold chk.
  destruct signed; cbn [leval ev1 ev2 idxv]; rewrite Hb, Hx; change (wrap 0) with 0;
    unfold w_iszero, w_or, w_slt, w_lt; try replace (to_signed 0) with 0 by reflexivity; unfold to_signed, b2z.
  - destruct (Z.ltb_spec x HALF); destruct (Z.ltb_spec x b); cbn;
      repeat match goal with |- context [?a <? ?b] => destruct (Z.ltb_spec a b) | |- context [?a <=? ?b] => destruct (Z.leb_spec a b) end;
      cbn; try reflexivity; lia.
  - destruct (Z.ltb_spec x 0); destruct (Z.ltb_spec x b); cbn;
      repeat match goal with |- context [?a <=? ?b] => destruct (Z.leb_spec a b) end; cbn; try reflexivity; lia.
Qed.

(* what one level of the environment must provide *)
Definition level_ok (e : env) (signed : bool) (k : nat) (t : ty) (s : step) : Prop :=
  match t, s with
  | TSArr _ n, SIdx i =>
      exists x, lookup e (ixn k) = Some x /\ 0 <= x < W /\ idxv signed x = i /\ 0 <= n < W
  | TDArr _ n, SIdx i =>
      exists x l, lookup e (ixn k) = Some x /\ 0 <= x < W /\ idxv signed x = i /\
                  lookup e (lenn k) = Some l /\ 0 <= l <= n /\ n < W /\ i < l
  | _, _ => True
  end.

Lemma wrap_parent_eval : forall e p pv f r,
  leval e p = Val pv ->
  (forall e' q, leval e' q = Val pv -> (forall s, s <> valn -> lookup e' s = lookup e s) -> leval e' (f q) = r) ->
  leval e (wrap_parent p f) = r.
Proof.
  intros e p pv f r Hp Hf. unfold wrap_parent. destruct (is_simple p).
  - apply Hf; auto.
  - cbn [leval]. rewrite Hp. apply Hf.
    + cbn [leval lookup]. unfold valn. rewrite String.eqb_refl. reflexivity.
    + intros s Hs. cbn [lookup]. destruct (String.eqb_spec valn s); [congruence|reflexivity].
Qed.

Lemma ixn_not_val : forall k, ixn k <> valn. Proof. intros k H. discriminate H. Qed.
Lemma lenn_not_val : forall k, lenn k <> valn. Proof. intros k H. discriminate H. Qed.

Theorem addr_step_correct : forall ws signed k t s p e pv q c o c',
  (ws = 1 \/ ws = 32) ->
  addr_step ws signed k t s p = Some (q, c) -> leval e p = Val pv ->
  level_ok e signed k t s -> step_child t s = Some (o, c') ->
  c = c' /\ leval e q = Val (wrap (pv + ws * o)).
Proof.
  intros ws signed k t s p e pv q c o c' Hws A Hp L S. pose proof W_is.
  destruct t; destruct s; cbn [addr_step step_child] in A, S; try discriminate.
  - (* static array *)
    destruct ((0 <=? i) && (i <? n)) eqn:B; [|discriminate]. inversion A; subst. inversion S; subst. split; [reflexivity|].
    destruct L as [x [Hx [Rx [Iv Rn]]]].
    eapply wrap_parent_eval; [exact Hp|]. intros e' q' Hq' Same. cbn [leval ev2].
    rewrite (chk_eval signed k e' x (wrap n) (LInt n)); auto.
    + rewrite (wrap_small n Rn). rewrite Iv. rewrite B. rewrite Hq'. unfold w_add, w_mul. fold (wrap (x * wrap (ws * size_words c'))).
      fold (wrap (pv + wrap (x * wrap (ws * size_words c')))). rewrite wrap_mul_r, wrap_add_r. f_equal.
      assert (x = idxv signed x) as Ex.
      { unfold idxv in *. destruct signed; [|reflexivity]. unfold to_signed in *. pose proof HALF_is. destruct (x <? HALF) eqn:Q; lia. }
      rewrite <- Iv, <- Ex. f_equal. lia.
    + rewrite Same; [auto|apply ixn_not_val].
    + unfold wrap. apply Z.mod_pos_bound. lia.
  - (* dynamic array, index *)
    destruct ((0 <=? i) && (i <? n)) eqn:B; [|discriminate]. inversion A; subst. inversion S; subst. split; [reflexivity|].
    destruct L as [x [l [Hx [Rx [Iv [Hl [Rl [Rn Il]]]]]]]].
    eapply wrap_parent_eval; [exact Hp|]. intros e' q' Hq' Same. cbn [leval ev2].
    assert (Hl' : leval e' (LVar (lenn k)) = Val l) by (cbn [leval]; rewrite Same; [rewrite Hl; reflexivity|apply lenn_not_val]).
    rewrite (chk_eval signed k e' x l (LVar (lenn k))); auto; try lia.
    + rewrite Iv. replace ((0 <=? i) && (i <? l)) with true by lia. rewrite Hq'.
      assert (wrap ws = ws) as Ews by (destruct Hws; subst; reflexivity). rewrite Ews.
      unfold w_add, w_mul. fold (wrap (pv + ws)). fold (wrap (x * wrap (ws * size_words c'))).
      fold (wrap (wrap (pv + ws) + wrap (x * wrap (ws * size_words c')))).
      rewrite wrap_mul_r, wrap_add_r, wrap_add_l. f_equal.
      assert (x = idxv signed x) as Ex.
      { unfold idxv in *. destruct signed; [|reflexivity]. unfold to_signed in *. pose proof HALF_is. destruct (x <? HALF) eqn:Q; lia. }
      rewrite <- Iv, <- Ex. f_equal. ring.
    + rewrite Same; [auto|apply ixn_not_val].
  - (* struct member *)
    destruct (nth_error ms k0) eqn:N; [|discriminate]. inversion A; subst. inversion S; subst. split; [reflexivity|].
    eapply wrap_parent_eval; [exact Hp|]. intros e' q' Hq' Same. cbn [leval ev2]. rewrite Hq'.
    unfold w_add. fold (wrap (pv + wrap (ws * fields_before ms k0))). rewrite wrap_add_r. reflexivity.
Qed.

(* all levels of a path *)
Fixpoint levels_ok (e : env) (signs : list bool) (k : nat) (t : ty) (path : list step) : Prop :=
  match path with
  | [] => True
  | s :: path' =>
      level_ok e (hd false signs) k t s /\
      match step_child t s with
      | Some (_, c) => levels_ok e (tl signs) (S k) c path'
      | None => False
      end
  end.

Lemma wrap_range : forall a, 0 <= wrap a < W.
Proof. intros. unfold wrap. apply Z.mod_pos_bound. rewrite W_is. lia. Qed.

Theorem addr_path_correct : forall path ws signs k t p e pv q o t',
  (ws = 1 \/ ws = 32) -> 0 <= pv < W ->
  addr_path ws signs k t path p = Some q -> leval e p = Val pv ->
  levels_ok e signs k t path -> resolve t path = Some (o, t') ->
  leval e q = Val (wrap (pv + ws * o)).
Proof.
  induction path as [|s path IH]; intros ws signs k t p e pv q o t' Hws Rp A Hp L R; cbn [addr_path resolve levels_ok] in *.
  - inversion A; subst. inversion R; subst. rewrite Hp. f_equal. rewrite Z.mul_0_r, Z.add_0_r. symmetry. apply wrap_small. exact Rp.
  - destruct (addr_step ws (hd false signs) k t s p) as [[q1 c]|] eqn:A1; [|discriminate].
    destruct (step_child t s) as [[o1 c1]|] eqn:S1; [|discriminate].
    destruct (resolve c1 path) as [[o2 t2]|] eqn:R2; [|discriminate]. inversion R; subst.
    destruct L as [L1 L2].
    destruct (addr_step_correct _ _ _ _ _ _ _ _ _ _ _ _ Hws A1 Hp L1 S1) as [Ec E1]. subst c1.
    rewrite (IH ws (tl signs) (S k) c q1 e (wrap (pv + ws * o1)) q o2 t' Hws (wrap_range _) A E1 L2 R2).
    f_equal. rewrite wrap_add_l. f_equal. lia.
Qed.

(* ---------- HashMap chains (g) ----------
   Vyper only allows HashMap as the type of a top-level variable or as the value type of another
   HashMap, so an entry behind n >= 1 map levels lives at  H (... (H (H s k1) k2) ...) kn + offset
   with no offsets between the levels.  H_spread / H_avoid_static are the keccak hypotheses of
   Paths.v (Section Mapping). *)
Section MapChain.
  Variable H : Z -> Z -> Z.
  Variable BOUND : Z.
  Hypothesis BOUND_pos : 0 < BOUND.
  Hypothesis H_spread : forall s k s' k', (s, k) <> (s', k') -> H s k + BOUND <= H s' k' \/ H s' k' + BOUND <= H s k.
  Hypothesis H_avoid_static : forall s k, BOUND <= H s k.

  Definition chainH (s : Z) (ks : list Z) : Z := fold_left H ks s.

  Lemma chainH_snoc : forall ks s k, chainH s (ks ++ [k]) = H (chainH s ks) k.
  Proof. intros. unfold chainH. rewrite fold_left_app. reflexivity. Qed.

  Lemma H_inj : forall a k a' k', H a k = H a' k' -> (a, k) = (a', k').
  Proof.
    intros a k a' k' E. destruct (Z.eq_dec a a') as [->|Na]; [destruct (Z.eq_dec k k') as [->|Nk]; [reflexivity|]|].
    - assert ((a', k) <> (a', k')) as N by congruence. pose proof (H_spread _ _ _ _ N). lia.
    - assert ((a, k) <> (a', k')) as N by congruence. pose proof (H_spread _ _ _ _ N). lia.
  Qed.

  Lemma chainH_ge : forall ks s, ks <> [] -> BOUND <= chainH s ks.
  Proof.
    intros ks s N. destruct (exists_last N) as [ks0 [k ->]]. rewrite chainH_snoc. apply H_avoid_static.
  Qed.

  Theorem chainH_inj : forall ks s ks' s', 0 <= s < BOUND -> 0 <= s' < BOUND ->
    chainH s ks = chainH s' ks' -> s = s' /\ ks = ks'.
  Proof.
    induction ks as [|k ks IH] using rev_ind; intros s ks' s' Rs Rs' E.
    - destruct ks' as [|k' ks'] using rev_ind; [cbn in E; auto|].
      clear IHks'. rewrite chainH_snoc in E. cbn in E. pose proof (H_avoid_static (chainH s' ks') k'). lia.
    - destruct ks' as [|k' ks'] using rev_ind.
      + rewrite chainH_snoc in E. cbn in E. pose proof (H_avoid_static (chainH s ks) k). lia.
      + clear IHks'. rewrite !chainH_snoc in E. apply H_inj in E. inversion E as [[E1 E2]].
        destruct (IH s ks' s' Rs Rs' E1) as [-> ->]. auto.
  Qed.

  (* entry = (variable slot, key chain, static path inside the value type) *)
  Definition chain_entry (s : Z) (ks : list Z) (v : ty) (p : list step) : option (Z * Z) :=
    match resolve v p with Some (o, t') => Some (chainH s ks + o, size_words t') | None => None end.

  Theorem chained_maps_distinct_l : forall s ks v p s' ks' v' p' a n a' n',
    0 <= s < BOUND -> 0 <= s' < BOUND -> ks <> [] -> ks' <> [] ->
    wf v -> wf v' -> size_words v <= BOUND -> size_words v' <= BOUND ->
    (s, ks) <> (s', ks') ->
    chain_entry s ks v p = Some (a, n) -> chain_entry s' ks' v' p' = Some (a', n') ->
    a + n <= a' \/ a' + n' <= a.
  Proof.
    intros s ks v p s' ks' v' p' a n a' n' Rs Rs' N N' W W' B B' NE E E'. unfold chain_entry in *.
    destruct (resolve v p) as [[o t]|] eqn:R; [|discriminate]. destruct (resolve v' p') as [[o' t']|] eqn:R'; [|discriminate].
    inversion E; inversion E'; subst. clear E E'.
    pose proof (elem_in_parent_l _ _ _ _ W R) as [_ [? ?]]. pose proof (elem_in_parent_l _ _ _ _ W' R') as [_ [? ?]].
    destruct (exists_last N) as [k0 [k Ek]]. destruct (exists_last N') as [k0' [k' Ek']]. subst ks ks'.
    rewrite !chainH_snoc.
    assert ((chainH s k0, k) <> (chainH s' k0', k')) as D.
    { intros Q. inversion Q as [[Q1 Q2]]. destruct (chainH_inj _ _ _ _ Rs Rs' Q1) as [Es Ek]. apply NE. congruence. }
    pose proof (H_spread _ _ _ _ D). lia.
  Qed.

  Theorem chained_maps_avoid_static_l : forall s ks v p a n base sz,
    ks <> [] -> wf v -> 0 <= base -> base + sz <= BOUND ->
    chain_entry s ks v p = Some (a, n) -> base + sz <= a.
  Proof.
    intros s ks v p a n base sz N W B0 B E. unfold chain_entry in E.
    destruct (resolve v p) as [[o t]|] eqn:R; [|discriminate]. inversion E; subst.
    pose proof (elem_in_parent_l _ _ _ _ W R) as [_ [? ?]]. pose proof (chainH_ge ks s N). lia.
  Qed.
End MapChain.
