(* C10 round 4: composition of the venom per-step address theorem over arbitrary access paths.

   The venom front end lowers  base.f[i][j].g ...  by lowering the inner expression first and then emitting
   the instructions of the outer step with the inner result as base pointer: the program for a path is the
   concatenation of the per-step templates (VAddrTemplates.vaddr_step), alpha-renamed per level k:
       p0 -> the result variable of level k-1 ("base" for k = 0),   s -> <digit k> ++ s  otherwise
   (this is how the exporter names the SSA variables of the real output before comparing).
   Part 1: generic facts about C03/VSL: append, frame, simulation under an injective renaming.
   Part 2: vaddr_path and vaddr_path_correct: the final pointer is  base + ws * (sum of step offsets)
           = base + ws * resolve-offset, for every path and all in-range indices. *)
From Coq Require Import ZArith Bool List String Ascii Lia ZifyBool.
From Verif Require Import Base.Word256 C03.LIR C03.VSL C10.Layout C10.Paths C04.Checks C10.AddrTemplates C10.VAddrTemplates.
Import ListNotations.
Open Scope Z_scope.

(* ================= Part 1: VSL metatheory ================= *)
Definition rn_op (r : string -> string) (a : vop) : vop :=
  match a with VLit n => VLit n | VVar s => VVar (r s) end.
Definition rn_instr (r : string -> string) (i : vinstr) : vinstr :=
  match i with
  | V1 o op a => V1 (r o) op (rn_op r a)
  | V2 o op a b => V2 (r o) op (rn_op r a) (rn_op r b)
  | V3 o op a b c => V3 (r o) op (rn_op r a) (rn_op r b) (rn_op r c)
  | VAssign o a => VAssign (r o) (rn_op r a)
  | VAssert a => VAssert (rn_op r a)
  end.
Definition rn (r : string -> string) (l : list vinstr) : list vinstr := map (rn_instr r) l.

Definition out_of (i : vinstr) : list string :=
  match i with V1 o _ _ | V2 o _ _ _ | V3 o _ _ _ _ | VAssign o _ => [o] | VAssert _ => [] end.
Definition outs (l : list vinstr) : list string := flat_map out_of l.

Lemma vsl_app : forall l1 l2 e,
  vsl e (l1 ++ l2) = match vsl e l1 with VOk e1 => vsl e1 l2 | VRevert => VRevert | VStuck => VStuck end.
Proof.
  induction l1; intros l2 e; cbn [app vsl]; [reflexivity|].
  destruct (vstep e a); auto.
Qed.

Lemma lookup_cons : forall k (v : Z) e s, lookup ((k, v) :: e) s = if String.eqb k s then Some v else lookup e s.
Proof. reflexivity. Qed.

Lemma vstep_frame : forall e i e1 s, vstep e i = VOk e1 -> ~ In s (out_of i) -> lookup e1 s = lookup e s.
Proof.
  intros e i e1 s E N. destruct i; cbn [vstep] in E; cbn [out_of In] in N;
    repeat match type of E with context [match ?x with _ => _ end] => destruct x; try discriminate end;
    inversion E; subst; try reflexivity;
    rewrite lookup_cons; destruct (String.eqb_spec out s); try reflexivity; exfalso; apply N; auto.
Qed.

Lemma vsl_frame : forall l e e1 s, vsl e l = VOk e1 -> ~ In s (outs l) -> lookup e1 s = lookup e s.
Proof.
  induction l as [|i l IH]; intros e e1 s E N; cbn [vsl] in E.
  - inversion E. reflexivity.
  - destruct (vstep e i) as [e2| |] eqn:S; try discriminate. cbn [outs flat_map] in N.
    rewrite (IH e2 e1 s E); [|intros I; apply N; apply in_or_app; right; exact I].
    eapply vstep_frame; eauto. intros I. apply N. apply in_or_app. left. exact I.
Qed.

(* one-directional agreement on bound names *)
Definition agree (r : string -> string) (e e' : env) : Prop :=
  forall s v, lookup e s = Some v -> lookup e' (r s) = Some v.

Lemma vval_sim : forall r e e' a x, agree r e e' -> vval e a = Some x -> vval e' (rn_op r a) = Some x.
Proof. intros r e e' [n|s] x A V; cbn [vval rn_op] in *; auto. Qed.

Lemma agree_bind : forall r e e' o v, (forall a b, r a = r b -> a = b) -> agree r e e' -> agree r ((o, v) :: e) ((r o, v) :: e').
Proof.
  intros r e e' o v Inj A s w L. rewrite lookup_cons in *. destruct (String.eqb_spec o s) as [->|N].
  - rewrite String.eqb_refl. exact L.
  - destruct (String.eqb_spec (r o) (r s)) as [E|_]; [exfalso; apply N; apply Inj; exact E|]. apply A. exact L.
Qed.

Lemma vstep_sim : forall r e e' i, (forall a b, r a = r b -> a = b) -> agree r e e' ->
  match vstep e i with
  | VOk e1 => exists e1', vstep e' (rn_instr r i) = VOk e1' /\ agree r e1 e1'
  | VRevert => vstep e' (rn_instr r i) = VRevert
  | VStuck => True
  end.
Proof.
  intros r e e' i Inj A. destruct i; cbn [vstep rn_instr].
  - destruct (vval e a) as [x|] eqn:Va; [|exact I]. rewrite (vval_sim r e e' a x A Va).
    eexists. split; [reflexivity|]. apply agree_bind; auto.
  - destruct (vval e a) as [x|] eqn:Va; [|exact I]. destruct (vval e b) as [y|] eqn:Vb; [|exact I].
    rewrite (vval_sim r e e' a x A Va), (vval_sim r e e' b y A Vb). eexists. split; [reflexivity|]. apply agree_bind; auto.
  - destruct (vval e a) as [x|] eqn:Va; [|exact I]. destruct (vval e b) as [y|] eqn:Vb; [|exact I].
    destruct (vval e c) as [z|] eqn:Vc; [|exact I].
    rewrite (vval_sim r e e' a x A Va), (vval_sim r e e' b y A Vb), (vval_sim r e e' c z A Vc).
    eexists. split; [reflexivity|]. apply agree_bind; auto.
  - destruct (vval e a) as [x|] eqn:Va; [|exact I]. rewrite (vval_sim r e e' a x A Va).
    eexists. split; [reflexivity|]. apply agree_bind; auto.
  - destruct (vval e a) as [x|] eqn:Va; [|exact I]. rewrite (vval_sim r e e' a x A Va).
    destruct (x =? 0); [reflexivity|]. eexists. split; [reflexivity|exact A].
Qed.

Lemma vsl_sim : forall r l e e', (forall a b, r a = r b -> a = b) -> agree r e e' ->
  match vsl e l with
  | VOk e1 => exists e1', vsl e' (rn r l) = VOk e1' /\ agree r e1 e1'
  | VRevert => vsl e' (rn r l) = VRevert
  | VStuck => True
  end.
Proof.
  intros r l. induction l as [|i l IH]; intros e e' Inj A; cbn [vsl rn map].
  - eexists. split; [reflexivity|exact A].
  - pose proof (vstep_sim r e e' i Inj A) as S. destruct (vstep e i) as [e2| |]; [|rewrite S; reflexivity|exact I].
    destruct S as [e2' [S A2]]. rewrite S. fold (rn r l). apply IH; auto.
Qed.

Lemma outs_rn : forall r l, outs (rn r l) = map r (outs l).
Proof.
  intros r l. unfold outs, rn. induction l as [|i l IH]; [reflexivity|]. cbn [map flat_map].
  rewrite map_app, IH. f_equal. destruct i; reflexivity.
Qed.

(* ================= Part 2: paths ================= *)
Definition tagk (k : nat) (s : string) : string := String (digit k) s.
Definition rk (k : nat) (prev : string) (s : string) : string := if String.eqb s "p0" then prev else tagk k s.

Definition head_ne (k : nat) (s : string) : Prop := match s with String c _ => c <> digit k | EmptyString => True end.

Lemma rk_inj : forall k prev, head_ne k prev -> forall a b, rk k prev a = rk k prev b -> a = b.
Proof.
  intros k prev Hp a b E. unfold rk in E.
  destruct (String.eqb_spec a "p0") as [Ea|Na]; destruct (String.eqb_spec b "p0") as [Eb|Nb].
  - congruence.
  - exfalso. rewrite E in Hp. apply Hp. reflexivity.
  - exfalso. rewrite <- E in Hp. apply Hp. reflexivity.
  - inversion E. reflexivity.
Qed.

Lemma digit_inj : forall j k, (j < 200)%nat -> (k < 200)%nat -> digit j = digit k -> j = k.
Proof.
  intros j k Hj Hk E. unfold digit in E. apply (f_equal nat_of_ascii) in E.
  rewrite !nat_ascii_embedding in E by lia. lia.
Qed.

Fixpoint vaddr_path (ws : Z) (signs : list bool) (k : nat) (t : ty) (path : list step) (prev : string)
  : option (list vinstr * string) :=
  match path with
  | [] => Some ([], prev)
  | s :: path' =>
      match vaddr_step ws (hd false signs) t s with
      | Some ((l, VVar res), c) =>
          match vaddr_path ws (tl signs) (S k) c path' (tagk k res) with
          | Some (l', fin) => Some (rn (rk k prev) l ++ l', fin)
          | None => None
          end
      | _ => None
      end
  end.

(* the inputs of every level are bound in the environment and the indices are in range; [o] is the sum of the
   step offsets, [t'] the type reached *)
Inductive vpath_ok (e : env) : list bool -> nat -> ty -> list step -> Z -> ty -> Prop :=
| vp_nil : forall signs k t, vpath_ok e signs k t [] 0 t
| vp_cons : forall signs k t s path x l o c o' t',
    lookup e (tagk k "p1") = Some x -> 0 <= x < W ->
    lookup e (tagk k "ld0") = Some l -> 0 <= l < W ->
    (match t with TSArr _ n => 0 <= n < W | _ => True end) ->
    step_child t (match s with SIdx _ => SIdx (idxv (hd false signs) x) | s' => s' end) = Some (o, c) ->
    (match t with TDArr _ _ => idxv (hd false signs) x < l | _ => True end) ->
    vpath_ok e (tl signs) (S k) c path o' t' ->
    vpath_ok e signs k t (s :: path) (o + o') t'.

(* the path with the run-time index values substituted resolves (Layout.resolve) to the same offset *)
Fixpoint concrete (e : env) (signs : list bool) (k : nat) (path : list step) : list step :=
  match path with
  | [] => []
  | s :: path' =>
      (match s with
       | SIdx _ => match lookup e (tagk k "p1") with Some x => SIdx (idxv (hd false signs) x) | None => s end
       | s' => s'
       end) :: concrete e (tl signs) (S k) path'
  end.

Lemma vpath_resolve : forall e signs k t path o t', vpath_ok e signs k t path o t' ->
  resolve t (concrete e signs k path) = Some (o, t').
Proof.
  induction 1; cbn [concrete resolve]; [reflexivity|].
  assert (E : (match s with
               | SIdx _ => match lookup e (tagk k "p1") with Some x0 => SIdx (idxv (hd false signs) x0) | None => s end
               | s' => s' end) = (match s with SIdx _ => SIdx (idxv (hd false signs) x) | s' => s' end)).
  { destruct s; try reflexivity. rewrite H. reflexivity. }
  rewrite E, H4, IHvpath_ok. reflexivity.
Qed.

Lemma outs_tagged : forall k prev l s, ~ In "p0"%string (outs l) -> In s (outs (rn (rk k prev) l)) ->
  exists s', s = tagk k s'.
Proof.
  intros k prev l s N I. rewrite outs_rn in I. apply in_map_iff in I. destruct I as [s' [E I]].
  exists s'. subst s. unfold rk. destruct (String.eqb_spec s' "p0"); [subst; contradiction|reflexivity].
Qed.

(* the results / temporaries of the step templates are never called p0 *)
Lemma vaddr_step_outs : forall ws signed t s l res c, vaddr_step ws signed t s = Some ((l, res), c) ->
  ~ In "p0"%string (outs l) /\ exists rs, res = VVar rs /\ rs <> "p0"%string.
Proof.
  intros ws signed t s l res c A. destruct t; destruct s; cbn [vaddr_step] in A; try discriminate.
  - inversion A; subst. destruct signed; cbn; split; try (intros H; repeat (destruct H as [H|H]; [discriminate|]); exact H);
      eexists; split; try reflexivity; discriminate.
  - inversion A; subst. destruct signed; cbn; split; try (intros H; repeat (destruct H as [H|H]; [discriminate|]); exact H);
      eexists; split; try reflexivity; discriminate.
  - destruct (nth_error ms k); [|discriminate]. inversion A; subst. cbn. split.
    + intros H; repeat (destruct H as [H|H]; [discriminate|]); exact H.
    + eexists; split; [reflexivity|discriminate].
Qed.

Lemma tagk_ne : forall j k a b, (j < 200)%nat -> (k < 200)%nat -> j <> k -> tagk j a <> tagk k b.
Proof. intros j k a b Hj Hk N E. inversion E. apply N. apply digit_inj; auto. Qed.

(* vpath_ok only reads names tagged with its own levels *)
Lemma vpath_ok_env : forall e e1 signs k t path o t', vpath_ok e signs k t path o t' ->
  (forall j s', (k <= j < k + List.length path)%nat -> lookup e1 (tagk j s') = lookup e (tagk j s')) ->
  vpath_ok e1 signs k t path o t'.
Proof.
  induction 1; intros Same; [constructor|].
  cbn [List.length] in Same. apply (vp_cons e1 signs k t s path x l o c o' t'); auto.
  - rewrite Same by lia. exact H.
  - rewrite Same by lia. exact H1.
  - apply IHvpath_ok. intros j s' Hj. apply Same. lia.
Qed.

Theorem vaddr_path_correct_l : forall path ws signs k t prev e pv q fin o t',
  (ws = 1 \/ ws = 32) -> (k + List.length path < 100)%nat -> head_ne k prev ->
  vaddr_path ws signs k t path prev = Some (q, fin) ->
  lookup e prev = Some pv -> 0 <= pv < W ->
  vpath_ok e signs k t path o t' ->
  exists e1, vsl e q = VOk e1 /\ lookup e1 fin = Some (wrap (pv + ws * o)).
Proof.
  induction path as [|s path IH]; intros ws signs k t prev e pv q fin o t' Hws Hlen Hp A Lp Rp V; cbn [vaddr_path] in A.
  - inversion A; subst. inversion V; subst. exists e. split; [reflexivity|].
    rewrite Lp. f_equal. rewrite Z.mul_0_r, Z.add_0_r. symmetry. apply wrap_small. exact Rp.
  - inversion V as [|? ? ? ? ? x l o1 c o2 ? Hx Rx Hl Rl Rn Sc Il V']; subst.
    destruct (vaddr_step ws (hd false signs) t s) as [[[lst res] c1]|] eqn:St; [|discriminate].
    destruct (vaddr_step_outs _ _ _ _ _ _ _ St) as [Np0 [rs [Er Nrs]]]. subst res.
    destruct (vaddr_path ws (tl signs) (S k) c1 path (tagk k rs)) as [[l' fin']|] eqn:Rec; [|discriminate].
    inversion A; subst. clear A. cbn [List.length] in Hlen.
    set (ea := [("p0"%string, pv); ("p1"%string, x); ("ld0"%string, l)]).
    destruct (vaddr_step_correct ws (hd false signs) t s ea pv x l (lst, VVar rs) c1 o1 c Hws St
                eq_refl Rp eq_refl Rx eq_refl Rl Rn Sc Il) as [Ec Run]. subst c1.
    unfold vrun in Run. cbn [fst snd] in Run.
    destruct (vsl ea lst) as [ea1| |] eqn:Ea; try discriminate.
    assert (Ag : agree (rk k prev) ea e).
    { intros s0 v L. unfold ea in L. cbn [lookup] in L.
      destruct (String.eqb_spec "p0" s0) as [<-|N0]; [inversion L; subst; unfold rk; cbn; exact Lp|].
      destruct (String.eqb_spec "p1" s0) as [<-|N1]; [inversion L; subst; unfold rk; cbn; exact Hx|].
      destruct (String.eqb_spec "ld0" s0) as [<-|N2]; [inversion L; subst; unfold rk; cbn; exact Hl|]. discriminate. }
    pose proof (vsl_sim (rk k prev) lst ea e (rk_inj k prev Hp) Ag) as Sim. rewrite Ea in Sim.
    destruct Sim as [e1 [Run1 Ag1]].
    assert (Lres : lookup e1 (tagk k rs) = Some (wrap (pv + ws * o1))).
    { destruct (vval ea1 (VVar rs)) as [v|] eqn:Vv; [|discriminate]. inversion Run; subst.
      cbn [vval] in Vv. pose proof (Ag1 rs _ Vv) as L. unfold rk in L.
      destruct (String.eqb_spec rs "p0"); [contradiction|exact L]. }
    assert (Fr : forall s0, (forall s', s0 <> tagk k s') -> lookup e1 s0 = lookup e s0).
    { intros s0 N. eapply vsl_frame; eauto. intros I. destruct (outs_tagged _ _ _ _ Np0 I) as [s' E]. apply (N s'). exact E. }
    assert (V1 : vpath_ok e1 (tl signs) (S k) c path o2 t').
    { eapply vpath_ok_env; [exact V'|]. intros j s' Hj. apply Fr. intros s''. apply tagk_ne; lia. }
    assert (Hp' : head_ne (S k) (tagk k rs)).
    { unfold head_ne, tagk. intros E. apply digit_inj in E; lia. }
    destruct (IH ws (tl signs) (S k) c (tagk k rs) e1 (wrap (pv + ws * o1)) l' fin o2 t' Hws ltac:(lia) Hp' Rec Lres (wrap_range _) V1)
      as [e2 [Run2 Lfin]].
    exists e2. split.
    + rewrite vsl_app, Run1. exact Run2.
    + rewrite Lfin. f_equal. rewrite wrap_add_l. f_equal. ring.
Qed.

(* with Layout.resolve and Paths.elem_in_parent: the pointer of every in-range path lies inside the variable *)
Theorem vaddr_path_in_bounds_l : forall path ws signs t e pv q fin o t',
  (ws = 1 \/ ws = 32) -> (List.length path < 100)%nat -> wf t ->
  vaddr_path ws signs 0 t path "base" = Some (q, fin) ->
  lookup e "base"%string = Some pv -> 0 <= pv < W ->
  vpath_ok e signs 0 t path o t' ->
  (exists e1, vsl e q = VOk e1 /\ lookup e1 fin = Some (wrap (pv + ws * o))) /\
  resolve t (concrete e signs 0 path) = Some (o, t') /\
  0 <= o /\ o + size_words t' <= size_words t.
Proof.
  intros path ws signs t e pv q fin o t' Hws Hlen Wf A Lp Rp V.
  pose proof (vpath_resolve _ _ _ _ _ _ _ V) as R.
  pose proof (elem_in_parent_l _ _ _ _ Wf R) as [_ [B1 B2]].
  split; [|split; [exact R|split; assumption]].
  eapply vaddr_path_correct_l; eauto; [lia|]. unfold head_ne. intros E. vm_compute in E. discriminate.
Qed.
