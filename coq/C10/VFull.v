(* C10 extension (session 3): the venom front end, WHOLE accesses.

   A state-variable access  self.m[k1]..[kn].f[i][j].g  is lowered by vyper/codegen_venom/expr.py by recursion
   on the expression: the HashMap levels first (Expr._lower_mapping_subscript: [key_bytes] for Bytes/String keys,
   then the 64-byte buffer + sha3), then the array / struct steps (Expr._lower_array_subscript /
   _lower_struct_field) with the hashed slot as base pointer.  Vyper allows HashMap only as the type of a variable
   or as the value type of a HashMap, so every access has this shape (n >= 0 map levels, then a static path).

   This file
   (1) joins the two mini-languages (VMapTemplates.hinstr: memory + sha3, C03/VSL.vinstr: pure word ops + assert)
       into one program type [cinstr] with one semantics [crun];
   (2) generalises VMapTemplates.map_chain to any sequence of key kinds (word key / byte-string key = hash of
       hash) at every level: [kchain], and proves that it computes  chainH H2 slot (effective keys);
   (3) composes it with VAddrPath.vaddr_path: [vfull] / [vfull_correct]: the final pointer is
       chainH H2 slot keys + ws * o,  o = Layout.resolve offset of the path with the run-time indices, and
       [o, o + size t') lies inside the value type  -- i.e. exactly AddrTemplates.chain_entry;
   (4) non-aliasing: accesses through different variables / key chains / diverging paths address disjoint
       word ranges ([access_ranges_disjoint], [vfull_disjoint]); the hash is an arbitrary function argument with
       the spread / avoid-static premises of the legacy part.
   O-tie: tools/vlib/c10_vfull.py runs the REAL recursive lowering on generated (key types, value type tree,
   path) and compares the emitted instructions with [vfull] by [clist_eqb] (vm_compute) on every run. *)
From Coq Require Import ZArith Bool List String Ascii Lia.
From Verif Require Import Base.Word256 C03.LIR C03.VSL C10.Layout C10.Paths C04.Checks C10.AddrTemplates
  C10.VAddrTemplates C10.VAddrPath C10.VMapTemplates.
Import ListNotations.
Open Scope Z_scope.

(* ================= (1) joint language ================= *)
Inductive cinstr := CH (i : hinstr) | CV (i : vinstr).
Inductive cres := COk (st : hst) | CRevert | CStuck.

Definition cinstr_eqb (a b : cinstr) : bool :=
  match a, b with
  | CH x, CH y => hinstr_eqb x y
  | CV x, CV y => vinstr_eqb x y
  | _, _ => false
  end.
Fixpoint clist_eqb (l m : list cinstr) : bool :=
  match l, m with
  | [], [] => true
  | i :: l', j :: m' => cinstr_eqb i j && clist_eqb l' m'
  | _, _ => false
  end.

(* key kinds: false = word key (used directly), true = Bytes / String key (pointer; hashed first) *)
Fixpoint kchain (c j : nat) (slot : vop) (kinds : list bool) : list hinstr * vop :=
  match kinds with
  | [] => ([], slot)
  | false :: r =>
      let l := map_word (tn c) (tn (c + 1)) (tn (c + 2)) slot (VVar (kn j)) in
      let '(l', res) := kchain (c + 3) (S j) (VVar (tn (c + 2))) r in
      (l ++ l', res)
  | true :: r =>
      let l := key_bytes (tn c) (tn (c + 1)) (tn (c + 2)) (VVar (kn j)) ++
               map_word (tn (c + 3)) (tn (c + 4)) (tn (c + 5)) slot (VVar (tn (c + 2))) in
      let '(l', res) := kchain (c + 6) (S j) (VVar (tn (c + 5))) r in
      (l ++ l', res)
  end%list.

Definition vfull (ws : Z) (kinds signs : list bool) (v : ty) (path : list step) : option (list cinstr * string) :=
  match kchain 0 0 (VVar "base") kinds with
  | (l, VVar r) =>
      match vaddr_path ws signs 0 v path r with
      | Some (q, fin) => Some ((map CH l ++ map CV q)%list, fin)
      | None => None
      end
  | _ => None
  end.

Definition bufcells (fr : list Z) : list Z := flat_map (fun a => [a; w_add a 32]) fr.

Section Full.
  Variable H2 : Z -> Z -> Z.
  Variable HB : (Z -> Z) -> Z -> Z -> Z.

  Definition cstep (st : hst) (i : cinstr) : cres :=
    match i with
    | CH h => match hstep H2 HB st h with Some st' => COk st' | None => CStuck end
    | CV v =>
        match vstep (h_env st) v with
        | VOk e => COk (mkH e (h_mem st) (h_fresh st))
        | VRevert => CRevert
        | VStuck => CStuck
        end
    end.
  Fixpoint crun (st : hst) (l : list cinstr) : cres :=
    match l with
    | [] => COk st
    | i :: r => match cstep st i with COk st' => crun st' r | CRevert => CRevert | CStuck => CStuck end
    end.

  Lemma crun_app : forall l1 l2 st,
    crun st (l1 ++ l2) = match crun st l1 with COk st' => crun st' l2 | CRevert => CRevert | CStuck => CStuck end.
  Proof. induction l1; intros l2 st; cbn [app crun]; [reflexivity|]. destruct (cstep st a); auto. Qed.

  Lemma crun_H : forall l st,
    crun st (map CH l) = match hrun H2 HB st l with Some st' => COk st' | None => CStuck end.
  Proof.
    induction l as [|i l IH]; intros st; cbn [map crun hrun cstep]; [reflexivity|].
    destruct (hstep H2 HB st i); [apply IH|reflexivity].
  Qed.

  Lemma crun_V : forall l st,
    crun st (map CV l) = match vsl (h_env st) l with
                         | VOk e => COk (mkH e (h_mem st) (h_fresh st))
                         | VRevert => CRevert
                         | VStuck => CStuck
                         end.
  Proof.
    induction l as [|i l IH]; intros st; cbn [map crun vsl cstep].
    - destruct st; reflexivity.
    - destruct (vstep (h_env st) i); [|reflexivity|reflexivity]. rewrite IH. reflexivity.
  Qed.

  (* ================= (2) key chains of any kind sequence ================= *)
  Fixpoint effkeys (m0 : Z -> Z) (kinds : list bool) (kvs : list Z) : list Z :=
    match kinds, kvs with
    | isb :: r, kv :: r' => (if isb then HB m0 (w_add kv 32) (m0 kv) else kv) :: effkeys m0 r r'
    | _, _ => []
    end.

  (* a byte-string key lives outside the fresh key buffers: its hash does not depend on their contents *)
  Definition key_stable (m0 : Z -> Z) (bufs : list Z) (isb : bool) (kv : Z) : Prop :=
    isb = true -> forall m', (forall x, ~ In x bufs -> m' x = m0 x) ->
    HB m' (w_add kv 32) (m' kv) = HB m0 (w_add kv 32) (m0 kv).

  Lemma chainH_cons : forall b k ks, chainH H2 b (k :: ks) = chainH H2 (H2 b k) ks.
  Proof. reflexivity. Qed.

  Lemma tn_ne : forall i j, (i < 100)%nat -> (j < 100)%nat -> i <> j -> tn i <> tn j.
  Proof. intros i j Hi Hj N E. apply N. apply tn_inj; auto. Qed.

  Lemma kchain_res : forall kinds c j slot,
    snd (kchain c j slot kinds) = slot \/ exists i, (c <= i)%nat /\ (i < c + 6 * List.length kinds)%nat /\ snd (kchain c j slot kinds) = VVar (tn i).
  Proof.
    induction kinds as [|isb r IH]; intros c j slot; cbn [kchain]; [left; reflexivity|]. right.
    destruct isb.
    - specialize (IH (c + 6)%nat (S j) (VVar (tn (c + 5)))). destruct (kchain (c + 6) (S j) (VVar (tn (c + 5))) r) as [l' res].
      cbn [snd List.length] in *. destruct IH as [->|[i [A [B ->]]]]; [exists (c + 5)%nat|exists i]; repeat split; lia.
    - specialize (IH (c + 3)%nat (S j) (VVar (tn (c + 2)))). destruct (kchain (c + 3) (S j) (VVar (tn (c + 2))) r) as [l' res].
      cbn [snd List.length] in *. destruct IH as [->|[i [A [B ->]]]]; [exists (c + 2)%nat|exists i]; repeat split; lia.
  Qed.

  Definition slot_name_ok (c : nat) (slot : vop) : Prop :=
    match slot with VVar s => forall i, (c <= i < 100)%nat -> s <> tn i | VLit _ => True end.

  Theorem kchain_correct : forall kinds c j slot st b kvs m0 bufs,
    (c + 6 * List.length kinds <= 100)%nat ->
    List.length (h_fresh st) = List.length kinds ->
    Forall (fun a => 0 <= a < W) (h_fresh st) ->
    incl (bufcells (h_fresh st)) bufs ->
    (forall x, ~ In x bufs -> h_mem st x = m0 x) ->
    vval (h_env st) slot = Some b -> slot_name_ok c slot ->
    (forall i, (i < List.length kinds)%nat -> lookup (h_env st) (kn (j + i)) = Some (nth i kvs 0)) ->
    Forall2 (key_stable m0 bufs) kinds kvs ->
    exists st', hrun H2 HB st (fst (kchain c j slot kinds)) = Some st' /\
      vval (h_env st') (snd (kchain c j slot kinds)) = Some (chainH H2 b (effkeys m0 kinds kvs)) /\
      (forall s, (forall i, (c <= i < 100)%nat -> s <> tn i) -> lookup (h_env st') s = lookup (h_env st) s) /\
      (forall x, ~ In x bufs -> h_mem st' x = m0 x).
  Proof.
    induction kinds as [|isb r IH]; intros c j slot st b kvs m0 bufs Hb Lf Rf Inc Mem Vs Ns Keys KS.
    - inversion KS; subst. cbn. exists st. repeat split; auto.
    - inversion KS as [|? kv ? kvs' Kst KS']; subst. clear KS.
      destruct (h_fresh st) as [|a rest] eqn:Fr; [discriminate|].
      inversion Rf as [|? ? Ra Rrest]; subst. cbn [List.length] in *.
      assert (Ina : In a bufs) by (apply Inc; cbn; auto).
      assert (Ina32 : In (w_add a 32) bufs) by (apply Inc; cbn; auto).
      assert (Inc' : incl (bufcells rest) bufs).
      { intros x Hx. apply Inc. cbn [bufcells flat_map]. apply in_or_app. right. exact Hx. }
      assert (K0 : lookup (h_env st) (kn j) = Some kv).
      { specialize (Keys 0%nat ltac:(lia)). rewrite Nat.add_0_r in Keys. exact Keys. }
      destruct isb; cbn [kchain effkeys].
      + (* byte-string key: hash the key, then buffer + sha3 *)
        destruct (kchain (c + 6) (S j) (VVar (tn (c + 5))) r) as [l' res] eqn:KC. cbn [fst snd].
        destruct (key_bytes_correct H2 HB (tn c) (tn (c + 1)) (tn (c + 2)) (VVar (kn j)) st kv) as [st1 [R1 [L1 [F1 [M1 E1]]]]].
        * apply tn_ne; lia.
        * cbn. intros [E|[]]. apply (tn_kn _ _ E).
        * exact K0.
        * rewrite (Kst eq_refl (h_mem st) Mem) in L1.
          assert (Vs1 : vval (h_env st1) slot = Some b).
          { destruct slot as [n0|s]; [exact Vs|]. cbn [vval] in *. rewrite E1; [exact Vs| | |]; apply Ns; lia. }
          destruct (map_word_correct H2 HB (tn (c + 3)) (tn (c + 4)) (tn (c + 5)) slot (VVar (tn (c + 2))) st1 b
                      (HB m0 (w_add kv 32) (m0 kv)) a rest) as [st2 [R2 [L2 [F2 [E2 M2]]]]]; auto.
          -- apply tn_ne; lia.
          -- destruct slot as [n0|s]; cbn; [exact I|]. intros [E|[]]. apply (Ns (c + 3)%nat); [lia|auto].
          -- cbn. intros [E|[]]. apply tn_inj in E; lia.
          -- cbn. intros [E|[]]. apply tn_inj in E; lia.
          -- rewrite F1. exact Fr.
          -- pose proof (IH (c + 6)%nat (S j) (VVar (tn (c + 5))) st2 (H2 b (HB m0 (w_add kv 32) (m0 kv))) kvs' m0 bufs) as IH'.
             rewrite KC in IH'. cbn [fst snd] in IH'.
             destruct IH' as [st3 [R3 [V3 [E3 M3]]]].
             ++ lia.
             ++ rewrite F2. lia.
             ++ rewrite F2. exact Rrest.
             ++ rewrite F2. exact Inc'.
             ++ intros x Hx. rewrite M2, M1; [apply Mem; exact Hx| |]; intros E; subst x; contradiction.
             ++ cbn [vval]. exact L2.
             ++ cbn. intros i Hi E. apply tn_inj in E; lia.
             ++ intros i Hi. rewrite E2, E1.
                ** specialize (Keys (S i) ltac:(lia)). replace (j + S i)%nat with (S j + i)%nat in Keys by lia. exact Keys.
                ** intros E. symmetry in E. apply (tn_kn _ _ E).
                ** intros E. symmetry in E. apply (tn_kn _ _ E).
                ** intros E. symmetry in E. apply (tn_kn _ _ E).
                ** intros E. symmetry in E. apply (tn_kn _ _ E).
                ** intros E. symmetry in E. apply (tn_kn _ _ E).
                ** intros E. symmetry in E. apply (tn_kn _ _ E).
             ++ exact KS'.
             ++ exists st3. split; [|split; [|split]].
                ** rewrite <- app_assoc, hrun_app, R1, hrun_app, R2. exact R3.
                ** rewrite V3. reflexivity.
                ** intros s N. rewrite E3, E2, E1; auto; try (apply N; lia). intros i Hi. apply N. lia.
                ** exact M3.
      + (* word key *)
        destruct (kchain (c + 3) (S j) (VVar (tn (c + 2))) r) as [l' res] eqn:KC. cbn [fst snd].
        destruct (map_word_correct H2 HB (tn c) (tn (c + 1)) (tn (c + 2)) slot (VVar (kn j)) st b kv a rest)
          as [st1 [R1 [L1 [F1 [E1 M1]]]]]; auto.
        * apply tn_ne; lia.
        * destruct slot as [n0|s]; cbn; [exact I|]. intros [E|[]]. apply (Ns c); [lia|auto].
        * cbn. intros [E|[]]. apply (tn_kn _ _ E).
        * cbn. intros [E|[]]. apply (tn_kn _ _ E).
        * pose proof (IH (c + 3)%nat (S j) (VVar (tn (c + 2))) st1 (H2 b kv) kvs' m0 bufs) as IH'.
          rewrite KC in IH'. cbn [fst snd] in IH'.
          destruct IH' as [st2 [R2 [V2 [E2 M2]]]].
          -- lia.
          -- rewrite F1. lia.
          -- rewrite F1. exact Rrest.
          -- rewrite F1. exact Inc'.
          -- intros x Hx. rewrite M1; [apply Mem; exact Hx| |]; intros E; subst x; contradiction.
          -- cbn [vval]. exact L1.
          -- cbn. intros i Hi E. apply tn_inj in E; lia.
          -- intros i Hi. rewrite E1.
             ++ specialize (Keys (S i) ltac:(lia)). replace (j + S i)%nat with (S j + i)%nat in Keys by lia. exact Keys.
             ++ intros E. symmetry in E. apply (tn_kn _ _ E).
             ++ intros E. symmetry in E. apply (tn_kn _ _ E).
             ++ intros E. symmetry in E. apply (tn_kn _ _ E).
          -- exact KS'.
          -- exists st2. split; [|split; [|split]].
             ++ rewrite hrun_app, R1. exact R2.
             ++ rewrite V2. reflexivity.
             ++ intros s N. rewrite E2, E1; auto; try (apply N; lia). intros i Hi. apply N. lia.
             ++ exact M2.
  Qed.

  (* ================= (3) whole access = key chain, then static path ================= *)
  Hypothesis H2_word : forall a k, 0 <= H2 a k < W.

  Lemma chainH_word : forall ks b, 0 <= b < W -> 0 <= chainH H2 b ks < W.
  Proof. induction ks as [|k ks IH]; intros b Rb; [exact Rb|]. rewrite chainH_cons. apply IH. apply H2_word. Qed.

  Lemma digit_t : forall j, (j < 60)%nat -> digit j <> "t"%char.
  Proof.
    intros j Hj E. change "t"%char with (digit 68) in E. apply digit_inj in E; lia.
  Qed.

  Lemma tagk_tn : forall j s i, (j < 60)%nat -> tagk j s <> tn i.
  Proof. intros j s i Hj E. unfold tagk, tn in E. inversion E as [[E1 E2]]. apply (digit_t j Hj). exact E1. Qed.

  Theorem vfull_correct : forall kinds kvs signs ws v path st b m0 bufs prog fin o t',
    (ws = 1 \/ ws = 32) -> (6 * List.length kinds <= 100)%nat -> (List.length path < 60)%nat -> wf v ->
    vfull ws kinds signs v path = Some (prog, fin) ->
    lookup (h_env st) "base"%string = Some b -> 0 <= b < W ->
    List.length (h_fresh st) = List.length kinds ->
    Forall (fun a => 0 <= a < W) (h_fresh st) ->
    incl (bufcells (h_fresh st)) bufs ->
    (forall x, ~ In x bufs -> h_mem st x = m0 x) ->
    (forall i, (i < List.length kinds)%nat -> lookup (h_env st) (kn i) = Some (nth i kvs 0)) ->
    Forall2 (key_stable m0 bufs) kinds kvs ->
    vpath_ok (h_env st) signs 0 v path o t' ->
    exists st', crun st prog = COk st' /\
      lookup (h_env st') fin = Some (wrap (chainH H2 b (effkeys m0 kinds kvs) + ws * o)) /\
      resolve v (concrete (h_env st) signs 0 path) = Some (o, t') /\
      0 <= o /\ o + size_words t' <= size_words v /\
      (forall x, ~ In x bufs -> h_mem st' x = m0 x).
  Proof.
    intros kinds kvs signs ws v path st b m0 bufs prog fin o t' Hws Hk Hlen Wf A Lb Rb Lf Rf Inc Mem Keys KS V.
    unfold vfull in A.
    destruct (kchain_correct kinds 0%nat 0%nat (VVar "base") st b kvs m0 bufs) as [st1 [R1 [V1 [E1 M1]]]]; auto.
    { cbn. intros i Hi E. discriminate E. }
    pose proof (kchain_res kinds 0%nat 0%nat (VVar "base")) as Res.
    destruct (kchain 0 0 (VVar "base") kinds) as [l res] eqn:KC. cbn [fst snd] in *.
    assert (Hr : exists r, res = VVar r /\ head_ne 0 r).
    { destruct Res as [->|[i [_ [_ ->]]]]; eexists; (split; [reflexivity|]); unfold head_ne; cbn; intros E; discriminate E. }
    destruct Hr as [r [-> Hne]].
    destruct (vaddr_path ws signs 0 v path r) as [[q fin']|] eqn:VP; [|discriminate]. inversion A; subst. clear A.
    pose proof (vpath_resolve _ _ _ _ _ _ _ V) as R.
    pose proof (elem_in_parent_l _ _ _ _ Wf R) as [_ [B1 B2]].
    assert (V' : vpath_ok (h_env st1) signs 0 v path o t').
    { eapply vpath_ok_env; [exact V|]. intros j s' Hj. apply E1. intros i Hi. apply tagk_tn. lia. }
    cbn [vval] in V1.
    destruct (vaddr_path_correct_l path ws signs 0%nat v r (h_env st1) (chainH H2 b (effkeys m0 kinds kvs)) q fin o t')
      as [e2 [Run2 Lfin]]; auto.
    { lia. }
    { apply chainH_word. exact Rb. }
    exists (mkH e2 (h_mem st1) (h_fresh st1)). split; [|split; [|split; [|split; [|split]]]]; auto.
    rewrite crun_app, crun_H, R1, crun_V, Run2. reflexivity.
  Qed.
End Full.

(* ================= (4) non-aliasing of whole accesses ================= *)
Section Disjoint.
  Variable H : Z -> Z -> Z.
  Variable BOUND : Z.
  Hypothesis BOUND_pos : 0 < BOUND.
  Hypothesis H_spread : forall s k s' k', (s, k) <> (s', k') -> H s k + BOUND <= H s' k' \/ H s' k' + BOUND <= H s k.
  Hypothesis H_avoid_static : forall s k, BOUND <= H s k.

  (* when two accesses (variable slot, key chain, value type, path) must not overlap *)
  Definition distinct_access (s : Z) (ks : list Z) (v : ty) (p : list step) (s' : Z) (ks' : list Z) (v' : ty) (p' : list step) : Prop :=
    (* two plain variables whose reported ranges are disjoint *)
    (ks = [] /\ ks' = [] /\ (s + size_words v <= s' \/ s' + size_words v' <= s)) \/
    (* two HashMap entries behind different (variable, key chain) *)
    (ks <> [] /\ ks' <> [] /\ (s, ks) <> (s', ks') /\ 0 <= s < BOUND /\ 0 <= s' < BOUND /\
     size_words v <= BOUND /\ size_words v' <= BOUND) \/
    (* a plain variable (in the static area) and a HashMap entry *)
    (ks = [] /\ ks' <> [] /\ 0 <= s /\ s + size_words v <= BOUND) \/
    (ks <> [] /\ ks' = [] /\ 0 <= s' /\ s' + size_words v' <= BOUND) \/
    (* the same variable / entry, diverging paths *)
    (s = s' /\ ks = ks' /\ v = v' /\ diverge p p').

  Theorem access_ranges_disjoint_l : forall s ks v p s' ks' v' p' a n a' n',
    wf v -> wf v' -> distinct_access s ks v p s' ks' v' p' ->
    chain_entry H s ks v p = Some (a, n) -> chain_entry H s' ks' v' p' = Some (a', n') ->
    a + n <= a' \/ a' + n' <= a.
  Proof.
    intros s ks v p s' ks' v' p' a n a' n' Wv Wv' D E E'.
    destruct D as [[K [K' D]]|[[K [K' [NE [Rs [Rs' [Bv Bv']]]]]]|[[K [K' [S0 SB]]]|[[K [K' [S0 SB]]]|[Es [Ek [Ev D]]]]]]].
    - subst. unfold chain_entry in *. cbn [chainH fold_left] in *.
      destruct (resolve v p) as [[o t]|] eqn:R; [|discriminate]. destruct (resolve v' p') as [[o' t']|] eqn:R'; [|discriminate].
      inversion E; inversion E'; subst.
      pose proof (elem_in_parent_l _ _ _ _ Wv R) as [_ [? ?]]. pose proof (elem_in_parent_l _ _ _ _ Wv' R') as [_ [? ?]]. lia.
    - eapply (chained_maps_distinct_l H BOUND BOUND_pos H_spread H_avoid_static s ks v p s' ks' v' p'); eauto.
    - subst ks. pose proof (chained_maps_avoid_static_l H BOUND H_spread H_avoid_static s' ks' v' p' a' n' s (size_words v) K' Wv' S0 SB E').
      unfold chain_entry in E. cbn [chainH fold_left] in E. destruct (resolve v p) as [[o t]|] eqn:R; [|discriminate]. inversion E; subst.
      pose proof (elem_in_parent_l _ _ _ _ Wv R) as [_ [? ?]]. lia.
    - subst ks'. pose proof (chained_maps_avoid_static_l H BOUND H_spread H_avoid_static s ks v p a n s' (size_words v') K Wv S0 SB E).
      unfold chain_entry in E'. cbn [chainH fold_left] in E'. destruct (resolve v' p') as [[o t]|] eqn:R; [|discriminate]. inversion E'; subst.
      pose proof (elem_in_parent_l _ _ _ _ Wv' R) as [_ [? ?]]. lia.
    - subst s' ks' v'. unfold chain_entry in *.
      destruct (resolve v p) as [[o t]|] eqn:R; [|discriminate]. destruct (resolve v p') as [[o' t']|] eqn:R'; [|discriminate].
      inversion E; inversion E'; subst. pose proof (paths_disjoint_l _ _ _ _ _ _ _ Wv D R R'). lia.
  Qed.

  (* hashed entries and plain variables do not wrap around the address space *)
  Hypothesis H_nowrap : forall s k, H s k + BOUND <= W.

  Lemma entry_nowrap : forall s ks v p a n, wf v -> 0 <= s -> s + size_words v <= W -> size_words v <= BOUND ->
    chain_entry H s ks v p = Some (a, n) -> 0 <= a /\ a + n <= W.
  Proof.
    intros s ks v p a n Wv S0 SW Bv E. unfold chain_entry in E.
    destruct (resolve v p) as [[o t]|] eqn:R; [|discriminate]. inversion E; subst.
    pose proof (elem_in_parent_l _ _ _ _ Wv R) as [Wt [? ?]]. pose proof (size_positive_l _ Wt).
    destruct ks as [|k ks] using rev_ind.
    - cbn [chainH fold_left]. lia.
    - rewrite chainH_snoc. pose proof (H_nowrap (chainH H s ks) k). pose proof (H_avoid_static (chainH H s ks) k). lia.
  Qed.
End Disjoint.

(* Two venom programs for two accesses, run from the same state: the words they address are disjoint *)
Definition vaccess_pre (H2 : Z -> Z -> Z) (HB : (Z -> Z) -> Z -> Z -> Z) (st : hst) (m0 : Z -> Z) (bufs : list Z)
  (basen : Z) (kinds : list bool) (kvs : list Z) (signs : list bool) (v : ty) (path : list step)
  (prog : list cinstr) (fin : string) (o : Z) (t' : ty) : Prop :=
  (6 * List.length kinds <= 100)%nat /\ (List.length path < 60)%nat /\ wf v /\
  vfull 1 kinds signs v path = Some (prog, fin) /\
  lookup (h_env st) "base"%string = Some basen /\ 0 <= basen < W /\
  List.length (h_fresh st) = List.length kinds /\
  Forall (fun a => 0 <= a < W) (h_fresh st) /\
  incl (bufcells (h_fresh st)) bufs /\
  (forall x, ~ In x bufs -> h_mem st x = m0 x) /\
  (forall i, (i < List.length kinds)%nat -> lookup (h_env st) (kn i) = Some (nth i kvs 0)) /\
  Forall2 (key_stable HB m0 bufs) kinds kvs /\
  vpath_ok (h_env st) signs 0 v path o t'.

Theorem vfull_disjoint_l : forall (H2 : Z -> Z -> Z) (HB : (Z -> Z) -> Z -> Z -> Z) (BOUND : Z),
  0 < BOUND ->
  (forall s k s' k', (s, k) <> (s', k') -> H2 s k + BOUND <= H2 s' k' \/ H2 s' k' + BOUND <= H2 s k) ->
  (forall s k, BOUND <= H2 s k) -> (forall s k, H2 s k + BOUND <= W) ->
  forall m0 bufs st1 b1 kinds1 kvs1 signs1 v1 path1 prog1 fin1 o1 t1
                 st2 b2 kinds2 kvs2 signs2 v2 path2 prog2 fin2 o2 t2,
  vaccess_pre H2 HB st1 m0 bufs b1 kinds1 kvs1 signs1 v1 path1 prog1 fin1 o1 t1 ->
  vaccess_pre H2 HB st2 m0 bufs b2 kinds2 kvs2 signs2 v2 path2 prog2 fin2 o2 t2 ->
  b1 + size_words v1 <= W -> b2 + size_words v2 <= W -> size_words v1 <= BOUND -> size_words v2 <= BOUND ->
  distinct_access BOUND b1 (effkeys HB m0 kinds1 kvs1) v1 (concrete (h_env st1) signs1 0 path1)
                        b2 (effkeys HB m0 kinds2 kvs2) v2 (concrete (h_env st2) signs2 0 path2) ->
  exists s1' s2' p1 p2,
    crun H2 HB st1 prog1 = COk s1' /\ crun H2 HB st2 prog2 = COk s2' /\
    lookup (h_env s1') fin1 = Some p1 /\ lookup (h_env s2') fin2 = Some p2 /\
    chain_entry H2 b1 (effkeys HB m0 kinds1 kvs1) v1 (concrete (h_env st1) signs1 0 path1) = Some (p1, size_words t1) /\
    chain_entry H2 b2 (effkeys HB m0 kinds2 kvs2) v2 (concrete (h_env st2) signs2 0 path2) = Some (p2, size_words t2) /\
    (p1 + size_words t1 <= p2 \/ p2 + size_words t2 <= p1).
Proof.
  intros H2 HB B Bp Hs Ha Hn m0 bufs st1 b1 kinds1 kvs1 signs1 v1 path1 prog1 fin1 o1 t1
         st2 b2 kinds2 kvs2 signs2 v2 path2 prog2 fin2 o2 t2 P1 P2 W1 W2 Bv1 Bv2 D.
  assert (HW : forall a k, 0 <= H2 a k < W).
  { intros a k. pose proof (Ha a k). pose proof (Hn a k). lia. }
  destruct P1 as [K1 [L1 [Wf1 [A1 [Lb1 [Rb1 [Lf1 [Rf1 [Inc1 [Mem1 [Keys1 [KS1 V1]]]]]]]]]]]].
  destruct P2 as [K2 [L2 [Wf2 [A2 [Lb2 [Rb2 [Lf2 [Rf2 [Inc2 [Mem2 [Keys2 [KS2 V2]]]]]]]]]]]].
  destruct (vfull_correct H2 HB HW kinds1 kvs1 signs1 1 v1 path1 st1 b1 m0 bufs prog1 fin1 o1 t1) as [s1' [R1 [F1 [Rs1 [O1 [O1' _]]]]]]; auto.
  destruct (vfull_correct H2 HB HW kinds2 kvs2 signs2 1 v2 path2 st2 b2 m0 bufs prog2 fin2 o2 t2) as [s2' [R2 [F2 [Rs2 [O2 [O2' _]]]]]]; auto.
  rewrite Z.mul_1_l in F1, F2.
  set (ks1 := effkeys HB m0 kinds1 kvs1) in *. set (ks2 := effkeys HB m0 kinds2 kvs2) in *.
  set (c1 := concrete (h_env st1) signs1 0 path1) in *. set (c2 := concrete (h_env st2) signs2 0 path2) in *.
  assert (E1 : chain_entry H2 b1 ks1 v1 c1 = Some (chainH H2 b1 ks1 + o1, size_words t1)) by (unfold chain_entry; rewrite Rs1; reflexivity).
  assert (E2 : chain_entry H2 b2 ks2 v2 c2 = Some (chainH H2 b2 ks2 + o2, size_words t2)) by (unfold chain_entry; rewrite Rs2; reflexivity).
  pose proof (entry_nowrap H2 B Bp Hs Ha Hn b1 ks1 v1 c1 _ _ Wf1 ltac:(lia) W1 Bv1 E1) as [N1 N1'].
  pose proof (entry_nowrap H2 B Bp Hs Ha Hn b2 ks2 v2 c2 _ _ Wf2 ltac:(lia) W2 Bv2 E2) as [N2 N2'].
  pose proof (elem_in_parent_l _ _ _ _ Wf1 Rs1) as [Wt1 _]. pose proof (size_positive_l _ Wt1).
  pose proof (elem_in_parent_l _ _ _ _ Wf2 Rs2) as [Wt2 _]. pose proof (size_positive_l _ Wt2).
  rewrite wrap_small in F1 by lia. rewrite wrap_small in F2 by lia.
  exists s1', s2', (chainH H2 b1 ks1 + o1), (chainH H2 b2 ks2 + o2).
  repeat (split; [assumption|]).
  eapply (access_ranges_disjoint_l H2 B Bp Hs Ha b1 ks1 v1 c1 b2 ks2 v2 c2); eauto.
Qed.
