(* C10 hand model of data_positions.py on top of the *generated* allocate_slot
   (C10/GenAlloc.v, regenerated from /repo on every run).  No proofs here.

   _allocate_layout_r   -> alloc_decls (recursion through `initializes`, shared allocators)
   set_data_positions   -> allocate (lock slot first) / allocate_override
   OverridingStorageAllocator.reserve_slot_range -> reserve_interval (list of reserved ranges: the
        implementation since /repo commit df51f72) and reserve_perslot (one dict entry per slot: the
        implementation before; proved equivalent in AllocProofs.v)
   generate_layout_export -> export *)
From Coq Require Import ZArith Bool List String.
From Verif Require Import Base.PyInt C10.GenAlloc.
Import ListNotations.
Open Scope Z_scope.

Inductive loc := LStorage | LTransient | LCode.
Definition loc_eqb (a b : loc) : bool :=
  match a, b with LStorage, LStorage | LTransient, LTransient | LCode, LCode => true | _, _ => false end.
Definition loc_code (l : loc) : Z := match l with LStorage => 0 | LTransient => 1 | LCode => 2 end.

(* a module body: state variable declarations and `initializes:` of sub-modules.
   [nr] = the module has a @nonreentrant function (or public getter) *)
Inductive decl : Type :=
| DVar (name : string) (l : loc) (size : Z)
| DInit (alias : string) (nr : bool) (body : list decl).

Definition path := list string.
Record entry := mkE { e_path : path; e_loc : loc; e_off : Z; e_size : Z }.

(* the three SimpleAllocators: current _slot of each *)
Record astate := mkS { s_st : Z; s_tr : Z; s_co : Z }.
Definition get (s : astate) (l : loc) : Z := match l with LStorage => s_st s | LTransient => s_tr s | LCode => s_co s end.
Definition set (s : astate) (l : loc) (v : Z) : astate :=
  match l with
  | LStorage => mkS v (s_tr s) (s_co s)
  | LTransient => mkS (s_st s) v (s_co s)
  | LCode => mkS (s_st s) (s_tr s) v
  end.
Definition maxof (l : loc) : Z := match l with LStorage => MAX_STORAGE | LTransient => MAX_TRANSIENT | LCode => MAX_CODE end.
Definition startof (l : loc) : Z := match l with LStorage => START_STORAGE | LTransient => START_TRANSIENT | LCode => START_CODE end.
Definition init_state : astate := mkS START_STORAGE START_TRANSIENT START_CODE.

Definition alloc_in (s : astate) (l : loc) (n : Z) : res (Z * astate) :=
  '(r, v) <- allocate_slot (get s l) (maxof l) n ;; Ok (r, set s l v).

(* _allocate_layout_r *)
Fixpoint alloc_decl (no_storage : bool) (p : path) (d : decl) (s : astate) : res (list entry * astate) :=
  match d with
  | DVar nm l sz =>
      if no_storage && loc_eqb l LStorage then Ok ([], s)
      else '(off, s') <- alloc_in s l sz ;; Ok ([mkE (p ++ [nm]) l off sz], s')
  | DInit al _ body =>
      (fix go (ds : list decl) (s : astate) : res (list entry * astate) :=
         match ds with
         | [] => Ok ([], s)
         | d :: ds' =>
             '(e1, s1) <- alloc_decl no_storage (p ++ [al]) d s ;;
             '(e2, s2) <- go ds' s1 ;;
             Ok (e1 ++ e2, s2)
         end) body s
  end.

Fixpoint alloc_decls (no_storage : bool) (p : path) (ds : list decl) (s : astate) : res (list entry * astate) :=
  match ds with
  | [] => Ok ([], s)
  | d :: ds' =>
      '(e1, s1) <- alloc_decl no_storage p d s ;;
      '(e2, s2) <- alloc_decls no_storage p ds' s1 ;;
      Ok (e1 ++ e2, s2)
  end.

(* Allocators.allocate_global_nonreentrancy_slot : always, first *)
Definition alloc_lock (lockloc : loc) : res (Z * astate) :=
  '(slot, s) <- alloc_in init_state lockloc KEY_SIZE ;;
  if slot =? startof lockloc then Ok (slot, s) else Err AssertFail.

(* set_data_positions without override: (lock slot, entries) *)
Definition allocate (lockloc : loc) (ds : list decl) : res (Z * list entry) :=
  '(slot, s) <- alloc_lock lockloc ;;
  '(es, _) <- alloc_decls false [] ds s ;;
  Ok (slot, es).

(* ---- flat view: in-order traversal of the module tree ---- *)
Fixpoint flatten_decl (p : path) (d : decl) : list (path * loc * Z) :=
  match d with
  | DVar nm l sz => [(p ++ [nm], l, sz)]
  | DInit al _ body =>
      (fix go (ds : list decl) := match ds with [] => [] | d :: ds' => flatten_decl (p ++ [al]) d ++ go ds' end) body
  end.
Fixpoint flatten (p : path) (ds : list decl) : list (path * loc * Z) :=
  match ds with [] => [] | d :: ds' => flatten_decl p d ++ flatten p ds' end.

Fixpoint alloc_flat (no_storage : bool) (vs : list (path * loc * Z)) (s : astate) : res (list entry * astate) :=
  match vs with
  | [] => Ok ([], s)
  | (p, l, sz) :: vs' =>
      if no_storage && loc_eqb l LStorage then alloc_flat no_storage vs' s
      else
        '(off, s1) <- alloc_in s l sz ;;
        '(es, s2) <- alloc_flat no_storage vs' s1 ;;
        Ok (mkE p l off sz :: es, s2)
  end.

(* ---- storage layout override ---- *)
Definition TWO256 : Z := 0x10000000000000000000000000000000000000000000000000000000000000000.

(* name of a reservation: None = "$.nonreentrant_key" *)
Definition rname := option path.
Fixpoint path_eqb (a b : path) : bool :=
  match a, b with
  | [], [] => true
  | x :: a', y :: b' => String.eqb x y && path_eqb a' b'
  | _, _ => false
  end.

(* faithful model: occupied_slots : dict[int, str] as an association list *)
Definition occ := list (Z * rname).
Fixpoint occ_get (o : occ) (slot : Z) : option rname :=
  match o with [] => None | (s, n) :: o' => if s =? slot then Some n else occ_get o' slot end.

(* _reserve_slot *)
Definition reserve_slot (o : occ) (slot : Z) (n : rname) : res occ :=
  if (slot <? 0) || (slot >=? TWO256) then Err Raised
  else match occ_get o slot with Some _ => Err Raised | None => Ok ((slot, n) :: o) end.

(* reserve_slot_range: [x + first_slot for x in range(n_slots)] then _reserve_slots *)
Fixpoint reserve_slots (k : nat) (slot : Z) (n : rname) (o : occ) : res occ :=
  match k with
  | O => Ok o
  | S k' => o' <- reserve_slot o slot n ;; reserve_slots k' (slot + 1) n o'
  end.
Definition reserve_perslot (o : occ) (first n_slots : Z) (n : rname) : res occ :=
  reserve_slots (Z.to_nat n_slots) first n o.

(* efficient model: list of reserved intervals *)
Definition iocc := list (Z * Z * rname).
Definition overlaps (a n b m : Z) : bool := (a <? b + m) && (b <? a + n).
Definition reserve_interval (o : iocc) (first n_slots : Z) (n : rname) : res iocc :=
  if n_slots <=? 0 then Ok o
  else if (first <? 0) || (first + n_slots >? TWO256) then Err Raised
  else if existsb (fun '(b, m, _) => overlaps first n_slots b m) o then Err Raised
  else Ok ((first, n_slots, n) :: o).
Fixpoint iocc_get (o : iocc) (slot : Z) : option rname :=
  match o with [] => None | (b, m, n) :: o' => if (b <=? slot) && (slot <? b + m) then Some n else iocc_get o' slot end.

(* requests in the order _allocate_with_overrides_r issues them: per module first the lock
   (once per nonreentrant function; idempotent), then the module's variables / sub-modules *)
Inductive req := RLock | RVar (p : path) (n_slots : Z).

Fixpoint reqs_decl (p : path) (d : decl) : list req :=
  match d with
  | DVar nm l sz => if loc_eqb l LStorage then [RVar (p ++ [nm]) sz] else []
  | DInit al nr body =>
      (if nr then [RLock] else []) ++
      (fix go (ds : list decl) := match ds with [] => [] | d :: ds' => reqs_decl (p ++ [al]) d ++ go ds' end) body
  end.
Fixpoint reqs_decls (p : path) (ds : list decl) : list req :=
  match ds with [] => [] | d :: ds' => reqs_decl p d ++ reqs_decls p ds' end.
Definition reqs_module (nr : bool) (ds : list decl) : list req :=
  (if nr then [RLock] else []) ++ reqs_decls [] ds.

(* the override file: qualified path -> slot;  lock entry separately *)
Definition ovr := list (path * Z).
Fixpoint ovr_get (o : ovr) (p : path) : option Z :=
  match o with [] => None | (q, s) :: o' => if path_eqb q p then Some s else ovr_get o' p end.

(* one request against the per-slot dict.  lock_in_storage=false (cancun): lock requests are skipped *)
Definition do_req_perslot (lock_in_storage : bool) (ov : ovr) (nrslot : option Z) (st : occ * list (path * Z)) (r : req)
  : res (occ * list (path * Z)) :=
  let '(o, pos) := st in
  match r with
  | RLock =>
      if negb lock_in_storage then Ok st else
      match nrslot with
      | None => Err Raised
      | Some s =>
          match occ_get o s with
          | Some None => Ok st                  (* already reserved by the key *)
          | _ => o' <- reserve_perslot o s KEY_SIZE None ;; Ok (o', pos)
          end
      end
  | RVar p n =>
      match ovr_get ov p with
      | None => Err Raised
      | Some s => o' <- reserve_perslot o s n (Some p) ;; Ok (o', pos ++ [(p, s)])
      end
  end.

Definition do_req_interval (lock_in_storage : bool) (ov : ovr) (nrslot : option Z) (st : iocc * list (path * Z)) (r : req)
  : res (iocc * list (path * Z)) :=
  let '(o, pos) := st in
  match r with
  | RLock =>
      if negb lock_in_storage then Ok st else
      match nrslot with
      | None => Err Raised
      | Some s =>
          match iocc_get o s with
          | Some None => Ok st
          | _ => o' <- reserve_interval o s KEY_SIZE None ;; Ok (o', pos)
          end
      end
  | RVar p n =>
      match ovr_get ov p with
      | None => Err Raised
      | Some s => o' <- reserve_interval o s n (Some p) ;; Ok (o', pos ++ [(p, s)])
      end
  end.

Fixpoint fold_res {A B} (f : A -> B -> res A) (a : A) (l : list B) : res A :=
  match l with [] => Ok a | b :: l' => a' <- f a b ;; fold_res f a' l' end.

(* _allocate_with_overrides: storage positions assigned to the variables, in order *)
Definition override_perslot (lis : bool) (ov : ovr) (nrslot : option Z) (rs : list req) : res (list (path * Z)) :=
  st <- fold_res (do_req_perslot lis ov nrslot) (([] : occ), []) rs ;; Ok (snd st).
Definition override_interval (lis : bool) (ov : ovr) (nrslot : option Z) (rs : list req) : res (list (path * Z)) :=
  st <- fold_res (do_req_interval lis ov nrslot) (([] : iocc), []) rs ;; Ok (snd st).

(* set_data_positions with override: code/transient by the simple allocators (no_storage),
   storage from the file *)
Definition allocate_override (lockloc : loc) (nr : bool) (ds : list decl) (ov : ovr) (nrslot : option Z)
  : res (list entry * list (path * Z)) :=
  '(slot, s) <- alloc_lock lockloc ;;
  '(es, _) <- alloc_decls true [] ds s ;;
  pos <- override_interval (loc_eqb lockloc LStorage) ov nrslot (reqs_module nr ds) ;;
  Ok (es, pos).

(* ---- generate_layout_export: a second traversal of the module tree that reads the position
   recorded on each variable (varinfo.position) ---- *)
Definition posmap := list (path * Z).
Fixpoint pos_get (m : posmap) (p : path) : option Z :=
  match m with [] => None | (q, v) :: m' => if path_eqb q p then Some v else pos_get m' p end.
Definition positions_of (es : list entry) : posmap := map (fun e => (e_path e, e_off e)) es.

(* one exported item: qualified name, location, size (n_slots / length), position (slot / offset) *)
Definition xitem := (path * loc * Z * option Z)%type.
Fixpoint export_decl (m : posmap) (p : path) (d : decl) : list xitem :=
  match d with
  | DVar nm l sz => [(p ++ [nm], l, sz, pos_get m (p ++ [nm]))]
  | DInit al _ body =>
      (fix go (ds : list decl) := match ds with [] => [] | d :: ds' => export_decl m (p ++ [al]) d ++ go ds' end) body
  end.
Fixpoint export_decls (m : posmap) (p : path) (ds : list decl) : list xitem :=
  match ds with [] => [] | d :: ds' => export_decl m p d ++ export_decls m p ds' end.

(* ---- harness output helpers (flat Z lists) ---- *)
Definition entries_out (es : list entry) : list Z :=
  flat_map (fun e => [loc_code (e_loc e); e_off e; e_size e]) es.
Definition allocate_out (lockloc : loc) (ds : list decl) : list Z :=
  match allocate lockloc ds with
  | Ok (slot, es) => slot :: entries_out es
  | Err _ => [-1]
  end.
Definition override_out (lockloc : loc) (nr : bool) (ds : list decl) (ov : ovr) (nrslot : option Z) : list Z :=
  match allocate_override lockloc nr ds ov nrslot with
  | Ok (es, pos) => 1 :: entries_out es ++ map snd pos
  | Err _ => [-1]
  end.
