(* C10/C04 hand model: type trees, sizes, access paths -> offsets.  No proofs here.
   Sizes follow vyper/semantics/types/*: size_in_bytes; storage/transient are word-addressed
   (size/32), memory/immutables/calldata byte-addressed.  Tied to /repo by exact-output
   correspondence of [size_bytes] with the real type objects and of [resolve] with raw storage
   diffs of deployed contracts (tools/checks/c10.py). *)
From Coq Require Import ZArith Bool List String.
Import ListNotations.
Open Scope Z_scope.

Inductive ty : Type :=
| TWord                         (* every 32-byte primitive: ints, address, bool, bytesM, flag, decimal, interface *)
| TBytes (maxlen : Z)           (* Bytes[n] / String[n] : length word + ceil32(n) bytes *)
| TSArr (t : ty) (n : Z)        (* T[n] *)
| TDArr (t : ty) (n : Z)        (* DynArray[T, n] : length word + n elements *)
| TStruct (ms : list ty)
| TMap (v : ty).                (* HashMap[K, V] : one (unused) slot *)

Definition ceil32 (x : Z) : Z := if x mod 32 =? 0 then x else x + 32 - x mod 32.

Fixpoint size_bytes (t : ty) : Z :=
  match t with
  | TWord => 32
  | TBytes n => 32 + ceil32 n
  | TSArr t n => size_bytes t * n
  | TDArr t n => 32 + size_bytes t * n
  | TStruct ms => fold_right (fun m acc => size_bytes m + acc) 0 ms
  | TMap _ => 32
  end.

(* size in words; all sizes are multiples of 32 (Paths.size_bytes_words) *)
Fixpoint size_words (t : ty) : Z :=
  match t with
  | TWord => 1
  | TBytes n => 1 + ceil32 n / 32
  | TSArr t n => size_words t * n
  | TDArr t n => 1 + size_words t * n
  | TStruct ms => fold_right (fun m acc => size_words m + acc) 0 ms
  | TMap _ => 1
  end.

Fixpoint wf (t : ty) : Prop :=
  match t with
  | TWord => True
  | TBytes n => 0 <= n
  | TSArr t n => wf t /\ 0 < n
  | TDArr t n => wf t /\ 0 < n
  | TStruct ms => ms <> [] /\ fold_right (fun m acc => wf m /\ acc) True ms
  | TMap v => wf v
  end.

Fixpoint wfb (t : ty) : bool :=
  match t with
  | TWord => true
  | TBytes n => 0 <=? n
  | TSArr t n => wfb t && (0 <? n)
  | TDArr t n => wfb t && (0 <? n)
  | TStruct ms => negb (match ms with [] => true | _ => false end) && forallb wfb ms
  | TMap v => wfb v
  end.

(* one step of an access path *)
Inductive step : Type :=
| SIdx (i : Z)       (* x[i] on T[n] / DynArray *)
| SField (k : nat)   (* k-th struct member *)
| SLen               (* the length word of a DynArray / Bytes / String *)
| SData (w : Z).     (* w-th data word of a Bytes / String *)

Fixpoint fields_before (ms : list ty) (k : nat) : Z :=
  match k, ms with
  | O, _ => 0
  | S k', m :: ms' => size_words m + fields_before ms' k'
  | S _, [] => 0
  end.

(* one step: word offset of the child inside the parent, and the child's type *)
Definition step_child (t : ty) (s : step) : option (Z * ty) :=
  match t, s with
  | TSArr e n, SIdx i => if (0 <=? i) && (i <? n) then Some (i * size_words e, e) else None
  | TDArr e n, SIdx i => if (0 <=? i) && (i <? n) then Some (i * size_words e + 1, e) else None
  | TDArr e n, SLen => Some (0, TWord)
  | TBytes n, SLen => Some (0, TWord)
  | TBytes n, SData w => if (0 <=? w) && (w <? ceil32 n / 32) then Some (w + 1, TWord) else None
  | TStruct ms, SField k => match nth_error ms k with Some m => Some (fields_before ms k, m) | None => None end
  | _, _ => None
  end.

(* word offset (relative to the variable's first word) and type reached by a path *)
Fixpoint resolve (t : ty) (p : list step) : option (Z * ty) :=
  match p with
  | [] => Some (0, t)
  | s :: p' =>
    match step_child t s with
    | Some (o, c) => match resolve c p' with Some (o', t') => Some (o + o', t') | None => None end
    | None => None
    end
  end.

(* harness helper: [first; count] of the words addressed by path p of a variable at word [base];
   [-1] when the path is out of bounds.  For byte-addressed locations multiply by 32. *)
Definition path_range (base : Z) (t : ty) (p : list step) : list Z :=
  match resolve t p with
  | Some (o, t') => [base + o; size_words t']
  | None => [-1]
  end.
