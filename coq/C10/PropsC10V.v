(* C10 extension (session 3): property theorems for WHOLE state-variable accesses of the venom front end
   (HashMap levels with word / byte-string keys, then array / DynArray / struct steps).  Proofs in VFull.v. *)
From Coq Require Import ZArith Bool List String Lia.
From Verif Require Import Base.Word256 C03.LIR C03.VSL C10.Layout C10.Paths C10.AddrTemplates C10.VAddrTemplates
  C10.VAddrPath C10.VMapTemplates C10.VFull.
Import ListNotations.
Open Scope Z_scope.

(* The venom key-hashing code for n nested HashMap levels of ANY key kinds (word key: buffer + sha3; Bytes/String
   key: sha3 of the data first, then buffer + sha3) leaves in its result operand
       chainH H2 slot [key_1'; ..; key_n']     key_i' = key_i  or  HB mem (ptr_i + 32) (mem ptr_i)
   (H2 a b = keccak256(a ++ b) and HB = keccak256 of a byte range are arbitrary function arguments), provided the
   byte-string keys do not live in the freshly allocated key buffers; all other names and all memory outside the
   fresh buffers are unchanged. *)
Theorem venom_keychain_slot : forall (H2 : Z -> Z -> Z) (HB : (Z -> Z) -> Z -> Z -> Z) kinds c j slot st b kvs m0 bufs,
  (c + 6 * List.length kinds <= 100)%nat ->
  List.length (h_fresh st) = List.length kinds ->
  Forall (fun a => 0 <= a < W) (h_fresh st) ->
  incl (bufcells (h_fresh st)) bufs ->
  (forall x, ~ In x bufs -> h_mem st x = m0 x) ->
  vval (h_env st) slot = Some b -> slot_name_ok c slot ->
  (forall i, (i < List.length kinds)%nat -> lookup (h_env st) (kn (j + i)) = Some (nth i kvs 0)) ->
  Forall2 (key_stable HB m0 bufs) kinds kvs ->
  exists st', hrun H2 HB st (fst (kchain c j slot kinds)) = Some st' /\
    vval (h_env st') (snd (kchain c j slot kinds)) = Some (chainH H2 b (effkeys HB m0 kinds kvs)) /\
    (forall s, (forall i, (c <= i < 100)%nat -> s <> tn i) -> lookup (h_env st') s = lookup (h_env st) s) /\
    (forall x, ~ In x bufs -> h_mem st' x = m0 x).
Proof. exact kchain_correct. Qed.
Print Assumptions venom_keychain_slot.

(* "reported layout = used layout" for a whole venom access  base[k1]..[kn].path : the program [vfull] (matched
   syntactically against the real recursive lowering on every run) ends with its result variable holding
       chainH H2 base keys + ws * o,
   o = Layout.resolve offset of the path with the run-time indices, and [o, o + size t') inside the value type:
   the access stays inside the variable's reported range (n = 0) or inside the entry hashed from its slot (n > 0). *)
Theorem venom_access_matches_layout : forall (H2 : Z -> Z -> Z) (HB : (Z -> Z) -> Z -> Z -> Z),
  (forall a k, 0 <= H2 a k < W) ->
  forall kinds kvs signs ws v path st b m0 bufs prog fin o t',
  (ws = 1 \/ ws = 32) -> (6 * List.length kinds <= 100)%nat -> (List.length path < 60)%nat -> wf v ->
  vfull ws kinds signs v path = Some (prog, fin) ->
  lookup (h_env st) "base"%string = Some b -> 0 <= b < W ->
  List.length (h_fresh st) = List.length kinds ->
  Forall (fun a => 0 <= a < W) (h_fresh st) ->
  incl (bufcells (h_fresh st)) bufs ->
  (forall x, ~ In x bufs -> h_mem st x = m0 x) ->
  (forall i, (i < List.length kinds)%nat -> lookup (h_env st) (kn i) = Some (nth i kvs 0)) ->
  Forall2 (key_stable HB m0 bufs) kinds kvs ->
  vpath_ok (h_env st) signs 0 v path o t' ->
  exists st', crun H2 HB st prog = COk st' /\
    lookup (h_env st') fin = Some (wrap (chainH H2 b (effkeys HB m0 kinds kvs) + ws * o)) /\
    resolve v (concrete (h_env st) signs 0 path) = Some (o, t') /\
    0 <= o /\ o + size_words t' <= size_words v /\
    (forall x, ~ In x bufs -> h_mem st' x = m0 x).
Proof. intros H2 HB HW. exact (vfull_correct H2 HB HW). Qed.
Print Assumptions venom_access_matches_layout.

(* non-aliasing of accesses (variable slot, key chain, value type, path), H an arbitrary function with the
   keccak premises of mapping_slots_distinct: distinct plain variables, entries of different (variable, key chain),
   plain variable vs entry, diverging paths of one variable / entry *)
Theorem access_ranges_disjoint : forall (H : Z -> Z -> Z) (BOUND : Z), 0 < BOUND ->
  (forall s k s' k', (s, k) <> (s', k') -> H s k + BOUND <= H s' k' \/ H s' k' + BOUND <= H s k) ->
  (forall s k, BOUND <= H s k) ->
  forall s ks v p s' ks' v' p' a n a' n',
  wf v -> wf v' -> distinct_access BOUND s ks v p s' ks' v' p' ->
  chain_entry H s ks v p = Some (a, n) -> chain_entry H s' ks' v' p' = Some (a', n') ->
  a + n <= a' \/ a' + n' <= a.
Proof. exact access_ranges_disjoint_l. Qed.
Print Assumptions access_ranges_disjoint.

(* the two together, for the emitted code (storage / transient, ws = 1): the venom programs of two distinct accesses
   compute pointers whose word ranges [p, p + size) are disjoint (no wrap-around: H2 s k + BOUND <= 2^256) *)
Theorem venom_accesses_disjoint : forall (H2 : Z -> Z -> Z) (HB : (Z -> Z) -> Z -> Z -> Z) (BOUND : Z),
  0 < BOUND ->
  (forall s k s' k', (s, k) <> (s', k') -> H2 s k + BOUND <= H2 s' k' \/ H2 s' k' + BOUND <= H2 s k) ->
  (forall s k, BOUND <= H2 s k) -> (forall s k, H2 s k + BOUND <= W) ->
  forall m0 bufs st1 b1 kinds1 kvs1 signs1 v1 path1 prog1 fin1 o1 t1
                 st2 b2 kinds2 kvs2 signs2 v2 path2 prog2 fin2 o2 t2,
  vaccess_pre H2 HB st1 m0 bufs b1 kinds1 kvs1 signs1 v1 path1 prog1 fin1 o1 t1 ->
  vaccess_pre H2 HB st2 m0 bufs b2 kinds2 kvs2 signs2 v2 path2 prog2 fin2 o2 t2 ->
  b1 + size_words v1 <= W -> b2 + size_words v2 <= W -> size_words v1 <= BOUND -> size_words v2 <= BOUND ->
  distinct_access BOUND b1 (effkeys HB m0 kinds1 kvs1) v1 (concrete (h_env st1) signs1 0 path1)
                        b2 (effkeys HB m0 kinds2 kvs2) v2 (concrete (h_env st2) signs2 0 path2) ->
  exists s1' s2' p1 p2,
    crun H2 HB st1 prog1 = COk s1' /\ crun H2 HB st2 prog2 = COk s2' /\
    lookup (h_env s1') fin1 = Some p1 /\ lookup (h_env s2') fin2 = Some p2 /\
    chain_entry H2 b1 (effkeys HB m0 kinds1 kvs1) v1 (concrete (h_env st1) signs1 0 path1) = Some (p1, size_words t1) /\
    chain_entry H2 b2 (effkeys HB m0 kinds2 kvs2) v2 (concrete (h_env st2) signs2 0 path2) = Some (p2, size_words t2) /\
    (p1 + size_words t1 <= p2 \/ p2 + size_words t2 <= p1).
Proof. exact vfull_disjoint_l. Qed.
Print Assumptions venom_accesses_disjoint.

(* ---- non-vacuity: m: HashMap[uint256, HashMap[Bytes[..], S]] at slot 5,  m[7][<bytes at 640>].f1[2] ---- *)
Open Scope string_scope.
Definition exH2 (a k : Z) : Z := 2 ^ 100 + (a * 1000 + k) mod 2 ^ 90.
Definition exHB (m : Z -> Z) (p n : Z) : Z := p + n.
Definition exv : ty := TStruct [TWord; TSArr TWord 3].
Definition exenv (k0 : Z) : env :=
  [("base", 5); ("k0", k0); ("k1", 640); ("0p1", 0); ("0ld0", 0); ("1p1", 2); ("1ld0", 0)].
Definition exst (k0 : Z) : hst := mkH (exenv k0) (fun x => if Z.eqb x 640 then 3 else 0) [2000; 3000].

Lemma ex_pre : forall k0, 0 <= k0 < W -> exists prog fin,
  vaccess_pre exH2 exHB (exst k0) (h_mem (exst k0)) [2000; 2032; 3000; 3032] 5 [false; true] [k0; 640] [false; false]
    exv [SField 1%nat; SIdx 0] prog fin (1 + 2) TWord.
Proof.
  intros k0 Rk. eexists. eexists. unfold vaccess_pre.
  split; [cbn; lia|]. split; [cbn; lia|]. split; [cbn; repeat split; try discriminate; lia|].
  split; [reflexivity|]. split; [reflexivity|]. split; [unfold W; cbn; lia|]. split; [reflexivity|].
  split; [repeat constructor; unfold W; cbn; lia|]. split; [intros x Hx; exact Hx|]. split; [reflexivity|].
  split; [intros i Hi; destruct i as [|[|i]]; [reflexivity|reflexivity|cbn in Hi; lia]|].
  split; [constructor; [intros E; discriminate E|constructor; [intros _ m' Hm; unfold exHB; rewrite Hm; [reflexivity|intros [E|[E|[E|[E|[]]]]]; discriminate E]|constructor]]|].
  eapply (vp_cons _ _ 0%nat exv (SField 1%nat) [SIdx 0] 0 0 1 (TSArr TWord 3) 2 TWord);
    try reflexivity; try (unfold W; cbn; lia); try exact I.
  replace 2 with (2 + 0) at 2 by reflexivity.
  eapply (vp_cons _ _ 1%nat (TSArr TWord 3) (SIdx 0) [] 2 0 2 TWord 0 TWord);
    try reflexivity; try (unfold W; cbn; lia); try exact I. constructor.
Qed.

Example venom_access_nonvacuous :
  (exists prog fin,
     vaccess_pre exH2 exHB (exst 7) (h_mem (exst 7)) [2000; 2032; 3000; 3032] 5 [false; true] [7; 640] [false; false]
       exv [SField 1%nat; SIdx 0] prog fin (1 + 2) TWord /\
     exists st', crun exH2 exHB (exst 7) prog = COk st' /\
       lookup (h_env st') fin = Some (exH2 (exH2 5 7) (672 + 3) + 3)) /\
  (* two different outer keys: the premises of venom_accesses_disjoint hold *)
  distinct_access (2 ^ 100) 5 (effkeys exHB (h_mem (exst 7)) [false; true] [7; 640]) exv [SField 1%nat; SIdx 2]
                            5 (effkeys exHB (h_mem (exst 8)) [false; true] [8; 640]) exv [SField 1%nat; SIdx 2] /\
  (* an out-of-range index reverts *)
  (exists prog fin, vfull 1 [false] [false] (TSArr TWord 3) [SIdx 0] = Some (prog, fin) /\
     crun exH2 exHB (mkH [("base", 5); ("k0", 1); ("0p1", 3)] (fun _ => 0) [64]) prog = CRevert).
Proof.
  split; [|split].
  - destruct (ex_pre 7 ltac:(unfold W; cbn; lia)) as [prog [fin P]]. exists prog, fin. split; [exact P|].
    destruct P as [_ [_ [_ [A _]]]]. vm_compute in A. inversion A; subst. eexists. split; vm_compute; reflexivity.
  - right. left. cbn [effkeys]. repeat split; try discriminate; try (unfold W; cbn; lia).
  - eexists. eexists. split; [reflexivity|]. vm_compute. reflexivity.
Qed.
