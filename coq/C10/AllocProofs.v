(* C10: proofs about the allocation model (Alloc.v over the generated allocate_slot). *)
From Coq Require Import ZArith Bool List String Lia ZifyBool.
From Verif Require Import Base.PyInt C10.GenAlloc C10.Alloc.
Import ListNotations.
Open Scope Z_scope.

(* ---------- the generated bump allocator ---------- *)
Lemma allocate_slot_spec : forall s m n r s',
  allocate_slot s m n = Ok (r, s') <-> (r = s /\ s' = s + n /\ s + n < m).
Proof.
  intros. unfold allocate_slot. destruct (s + n >=? m) eqn:E; split; intros H.
  - discriminate.
  - lia.
  - inversion H; subst. lia.
  - destruct H as [-> [-> _]]. reflexivity.
Qed.

Lemma get_set_same : forall s l v, get (set s l v) l = v.
Proof. destruct l; reflexivity. Qed.
Lemma get_set_other : forall s l l' v, l <> l' -> get (set s l v) l' = get s l'.
Proof. destruct l; destruct l'; intros; try congruence; reflexivity. Qed.

Lemma alloc_in_spec : forall s l n r s',
  alloc_in s l n = Ok (r, s') <-> (r = get s l /\ s' = set s l (get s l + n) /\ get s l + n < maxof l).
Proof.
  intros. unfold alloc_in. destruct (allocate_slot (get s l) (maxof l) n) as [[r0 v]|e] eqn:E; cbn.
  - apply allocate_slot_spec in E. destruct E as [-> [-> L]]. split; intros H.
    + inversion H; subst. auto.
    + destruct H as [-> [-> _]]. reflexivity.
  - split; [discriminate|]. intros [_ [_ L]].
    assert (allocate_slot (get s l) (maxof l) n = Ok (get s l, get s l + n)) by (apply allocate_slot_spec; auto).
    congruence.
Qed.

(* ---------- tree recursion = in-order traversal ---------- *)
Section DeclInd.
  Variable P : decl -> Prop.
  Hypothesis Hv : forall nm l sz, P (DVar nm l sz).
  Hypothesis Hi : forall al nr body, Forall P body -> P (DInit al nr body).
  Fixpoint decl_ind' (d : decl) : P d :=
    match d with
    | DVar nm l sz => Hv nm l sz
    | DInit al nr body => Hi al nr body ((fix go (l : list decl) : Forall P l :=
        match l with [] => Forall_nil P | m :: l' => Forall_cons m (decl_ind' m) (go l') end) body)
    end.
End DeclInd.

Lemma alloc_decl_init : forall ns p al nr body s,
  alloc_decl ns p (DInit al nr body) s = alloc_decls ns (p ++ [al]) body s.
Proof.
  intros. cbn [alloc_decl]. revert s. induction body; intros s; cbn [alloc_decls]; [reflexivity|].
  destruct (alloc_decl ns (p ++ [al]) a s) as [[e1 s1]|]; cbn; [|reflexivity].
  rewrite IHbody. reflexivity.
Qed.

Lemma flatten_decl_init : forall p al nr body, flatten_decl p (DInit al nr body) = flatten (p ++ [al]) body.
Proof. intros. cbn [flatten_decl]. induction body; cbn [flatten]; [reflexivity|]. rewrite IHbody. reflexivity. Qed.

Lemma alloc_flat_app : forall ns a b s,
  alloc_flat ns (a ++ b) s =
  ('(e1, s1) <- alloc_flat ns a s ;; '(e2, s2) <- alloc_flat ns b s1 ;; Ok (e1 ++ e2, s2)).
Proof.
  induction a as [|[[p l] sz] a IH]; intros b s; cbn [app alloc_flat].
  - cbn. destruct (alloc_flat ns b s) as [[e2 s2]|]; reflexivity.
  - destruct (ns && loc_eqb l LStorage); [apply IH|].
    destruct (alloc_in s l sz) as [[off s1]|]; cbn; [|reflexivity].
    rewrite IH. destruct (alloc_flat ns a s1) as [[e1 s1']|]; cbn; [|reflexivity].
    destruct (alloc_flat ns b s1') as [[e2 s2]|]; reflexivity.
Qed.

Lemma alloc_tree_flat_decl : forall ns d p s, alloc_decl ns p d s = alloc_flat ns (flatten_decl p d) s.
Proof.
  intros ns d. induction d using decl_ind'; intros p s.
  - cbn [alloc_decl flatten_decl alloc_flat]. destruct (ns && loc_eqb l LStorage); [reflexivity|].
    destruct (alloc_in s l sz) as [[off s1]|]; reflexivity.
  - rewrite alloc_decl_init, flatten_decl_init. generalize (p ++ [al]). intros q. revert s.
    induction H; intros s; cbn [alloc_decls flatten]; [reflexivity|].
    rewrite alloc_flat_app, H. destruct (alloc_flat ns (flatten_decl q x) s) as [[e1 s1]|]; cbn; [|reflexivity].
    rewrite IHForall. reflexivity.
Qed.

Theorem alloc_tree_flat : forall ns ds p s, alloc_decls ns p ds s = alloc_flat ns (flatten p ds) s.
Proof.
  induction ds; intros p s; cbn [alloc_decls flatten]; [reflexivity|].
  rewrite alloc_flat_app, alloc_tree_flat_decl.
  destruct (alloc_flat ns (flatten_decl p a) s) as [[e1 s1]|]; cbn; [|reflexivity].
  rewrite IHds. reflexivity.
Qed.

(* ---------- the bump invariant ---------- *)
Definition before (e1 e2 : entry) : Prop := e_loc e1 = e_loc e2 -> e_off e1 + e_size e1 <= e_off e2.
Definition disjoint (e1 e2 : entry) : Prop :=
  e_loc e1 = e_loc e2 -> e_off e1 + e_size e1 <= e_off e2 \/ e_off e2 + e_size e2 <= e_off e1.

Lemma loc_eqb_eq : forall a b, loc_eqb a b = true <-> a = b.
Proof. destruct a; destruct b; cbn; split; congruence. Qed.
Lemma loc_dec : forall a b : loc, a = b \/ a <> b.
Proof. destruct a; destruct b; (left; congruence) || (right; congruence). Qed.

Lemma alloc_flat_inv : forall ns vs s es s',
  Forall (fun v => 0 <= snd v) vs ->
  alloc_flat ns vs s = Ok (es, s') ->
  (forall l, get s l <= get s' l) /\
  Forall (fun e => get s (e_loc e) <= e_off e /\ 0 <= e_size e /\ e_off e + e_size e <= get s' (e_loc e)
                   /\ e_off e + e_size e < maxof (e_loc e)) es /\
  ForallOrdPairs before es /\
  map (fun e => (e_path e, e_loc e, e_size e)) es =
    filter (fun v => negb (ns && loc_eqb (snd (fst v)) LStorage)) vs.
Proof.
  induction vs as [|[[p l] sz] vs IH]; intros s es s' NN E; cbn [alloc_flat] in E.
  - inversion E; subst. repeat split; try constructor. lia.
  - inversion NN as [|? ? Hsz NN']; subst. cbn in Hsz. cbn [filter fst snd].
    destruct (ns && loc_eqb l LStorage) eqn:Skip; cbn [negb].
    + apply IH; auto.
    + destruct (alloc_in s l sz) as [[off s1]|] eqn:A; cbn in E; [|discriminate].
      destruct (alloc_flat ns vs s1) as [[es1 s2]|] eqn:F; cbn in E; [|discriminate].
      inversion E; subst. apply alloc_in_spec in A. destruct A as [-> [-> Lt]].
      destruct (IH _ _ _ NN' F) as [Mono [All [Ord Names]]].
      assert (M1 : forall l', get s l' <= get (set s l (get s l + sz)) l').
      { intros l'. destruct (loc_dec l l') as [<-|N]; [rewrite get_set_same; lia|rewrite get_set_other; auto; lia]. }
      repeat split.
      * intros l'. specialize (Mono l'). specialize (M1 l'). lia.
      * constructor.
        -- cbn. specialize (Mono l). rewrite get_set_same in Mono. lia.
        -- rewrite Forall_forall in *. intros e He. specialize (All e He). specialize (M1 (e_loc e)). lia.
      * constructor; [|exact Ord]. rewrite Forall_forall in *. intros e He. specialize (All e He).
        unfold before. cbn. intros Hl. rewrite <- Hl in All. rewrite get_set_same in All. lia.
      * cbn [map]. cbn. f_equal. exact Names.
Qed.

Lemma before_disjoint : forall es, ForallOrdPairs before es -> ForallOrdPairs disjoint es.
Proof.
  induction 1; constructor; auto. rewrite Forall_forall in *. intros e He Hl. left. apply H; auto.
Qed.

Definition sizes_nonneg (ds : list decl) : Prop := Forall (fun v => 0 <= snd v) (flatten [] ds).

(* set_data_positions without override *)
Theorem alloc_disjoint_l : forall lockloc ds slot es,
  sizes_nonneg ds ->
  allocate lockloc ds = Ok (slot, es) ->
  (* reported set = declared set, in order, each variable once *)
  map (fun e => (e_path e, e_loc e, e_size e)) es = flatten [] ds /\
  (* pairwise disjoint within a location *)
  ForallOrdPairs disjoint es /\
  (* inside the location, and not on the lock range [slot, slot + KEY_SIZE) *)
  Forall (fun e => 0 <= e_off e /\ e_off e + e_size e < maxof (e_loc e) /\
                   (e_loc e = lockloc -> slot + KEY_SIZE <= e_off e)) es /\
  slot = 0 /\ 0 < KEY_SIZE.
Proof.
  intros lockloc ds slot es NN A. unfold allocate, alloc_lock in A.
  destruct (alloc_in init_state lockloc KEY_SIZE) as [[sl s]|] eqn:L; cbn in A; [|discriminate].
  destruct (sl =? startof lockloc) eqn:Es; cbn in A; [|discriminate].
  rewrite alloc_tree_flat in A.
  destruct (alloc_flat false (flatten [] ds) s) as [[es' s2]|] eqn:F; cbn in A; [|discriminate].
  inversion A; subst. apply alloc_in_spec in L. destruct L as [-> [-> Lt]].
  destruct (alloc_flat_inv _ _ _ _ _ NN F) as [Mono [All [Ord Names]]].
  assert (S0 : forall l, get init_state l = 0) by (destruct l; reflexivity).
  assert (K : KEY_SIZE = 1) by reflexivity.
  split; [|split; [|split]].
  - rewrite Names. clear. induction (flatten [] ds); cbn; [reflexivity|]. f_equal. auto.
  - apply before_disjoint. exact Ord.
  - rewrite Forall_forall in *. intros e He. specialize (All e He). rewrite S0 in *.
    destruct (loc_dec lockloc (e_loc e)) as [Hl|N].
    + rewrite <- Hl in *. rewrite get_set_same in All. split; [lia|]. split; [lia|]. intros _. lia.
    + rewrite get_set_other in All by auto. rewrite S0 in All. split; [lia|]. split; [lia|]. congruence.
  - rewrite S0. split; [reflexivity|lia].
Qed.

(* ---------- per-slot dict  vs  interval list ---------- *)
Definition occ_rel (o : occ) (io : iocc) : Prop :=
  (forall s, occ_get o s = iocc_get io s) /\ Forall (fun x => 0 < snd (fst x)) io.

Lemma reserve_slots_spec : forall k slot nm o,
  match reserve_slots k slot nm o with
  | Ok o' =>
      (forall s, slot <= s < slot + Z.of_nat k -> 0 <= s < TWO256 /\ occ_get o s = None) /\
      (forall s, occ_get o' s = if (slot <=? s) && (s <? slot + Z.of_nat k) then Some nm else occ_get o s)
  | Err e => e = Raised /\ exists s, slot <= s < slot + Z.of_nat k /\ (~ 0 <= s < TWO256 \/ occ_get o s <> None)
  end.
Proof.
  induction k; intros slot nm o; cbn [reserve_slots].
  - split; [lia|]. intros s. replace ((slot <=? s) && (s <? slot + Z.of_nat 0)) with false by lia. reflexivity.
  - unfold reserve_slot.
    destruct ((slot <? 0) || (slot >=? TWO256)) eqn:B; cbn [bind].
    { split; [reflexivity|]. exists slot. split; [lia|]. left. lia. }
    destruct (occ_get o slot) eqn:G; cbn [bind].
    { split; [reflexivity|]. exists slot. split; [lia|]. right. congruence. }
    specialize (IHk (slot + 1) nm ((slot, nm) :: o)).
    destruct (reserve_slots k (slot + 1) nm ((slot, nm) :: o)) as [o'|e].
    + destruct IHk as [Free Get]. split.
      * intros s Hs. destruct (Z.eq_dec s slot) as [->|N]; [split; [lia|auto]|].
        assert (slot + 1 <= s < slot + 1 + Z.of_nat k) by lia. destruct (Free s H) as [R Gs]. split; [auto|].
        cbn [occ_get] in Gs. destruct (slot =? s) eqn:Q; [lia|auto].
      * intros s. rewrite Get. cbn [occ_get].
        destruct (Z.eq_dec s slot) as [->|N].
        -- replace ((slot + 1 <=? slot) && (slot <? slot + 1 + Z.of_nat k)) with false by lia.
           replace (slot =? slot) with true by lia.
           replace ((slot <=? slot) && (slot <? slot + Z.of_nat (S k))) with true by lia. reflexivity.
        -- replace (slot =? s) with false by lia.
           replace ((slot <=? s) && (s <? slot + Z.of_nat (S k))) with ((slot + 1 <=? s) && (s <? slot + 1 + Z.of_nat k)) by lia.
           reflexivity.
    + destruct IHk as [-> [s [Hs Bad]]]. split; [reflexivity|]. exists s. split; [lia|].
      destruct Bad as [Bad|Bad]; [left; auto|]. cbn [occ_get] in Bad.
      destruct (slot =? s) eqn:Q; [lia|]. right. auto.
Qed.

Lemma iocc_get_none_iff : forall io a n, Forall (fun x => 0 < snd (fst x)) io -> 0 < n ->
  existsb (fun '(b, m, _) => overlaps a n b m) io = false <->
  (forall s, a <= s < a + n -> iocc_get io s = None).
Proof.
  induction io as [|[[b m] y] io IH]; intros a n Pos Hn; cbn [existsb iocc_get].
  - split; auto.
  - inversion Pos as [|? ? Pm Pos']; subst. cbn in Pm. rewrite orb_false_iff, (IH a n Pos' Hn). unfold overlaps. split.
    + intros [O R] s Hs. replace ((b <=? s) && (s <? b + m)) with false by lia. auto.
    + intros Hall. split.
      * destruct ((a <? b + m) && (b <? a + n)) eqn:O; [|reflexivity].
        specialize (Hall (Z.max a b)). replace ((b <=? Z.max a b) && (Z.max a b <? b + m)) with true in Hall by lia.
        assert (a <= Z.max a b < a + n) by lia. specialize (Hall H). discriminate.
      * intros s Hs. specialize (Hall s Hs). destruct ((b <=? s) && (s <? b + m)); [discriminate|auto].
Qed.

Theorem interval_vs_perslot_l : forall o io first n nm, occ_rel o io ->
  match reserve_perslot o first n nm, reserve_interval io first n nm with
  | Ok o', Ok io' => occ_rel o' io'
  | Err e, Err e' => e = e'
  | _, _ => False
  end.
Proof.
  intros o io first n nm [G Pos]. unfold reserve_perslot, reserve_interval.
  pose proof (reserve_slots_spec (Z.to_nat n) first nm o) as Sp.
  destruct (n <=? 0) eqn:N0.
  - replace (Z.to_nat n) with O in * by lia. cbn [reserve_slots]. split; auto.
  - assert (Zn : Z.of_nat (Z.to_nat n) = n) by lia. rewrite Zn in Sp.
    destruct (reserve_slots (Z.to_nat n) first nm o) as [o'|e].
    + destruct Sp as [Free Get].
      destruct ((first <? 0) || (first + n >? TWO256)) eqn:B.
      { destruct (Z.ltb_spec first 0).
        - assert (first <= first < first + n) by lia. destruct (Free _ H0). lia.
        - assert (first <= first + n - 1 < first + n) by lia. destruct (Free _ H0). lia. }
      assert (NoOv : existsb (fun '(b, m, _) => overlaps first n b m) io = false).
      { apply iocc_get_none_iff; [auto|lia|]. intros s Hs. rewrite <- G. apply Free. auto. }
      rewrite NoOv. split.
      * intros s. rewrite Get. cbn [iocc_get]. destruct ((first <=? s) && (s <? first + n)); auto.
      * constructor; [cbn; lia|auto].
    + destruct Sp as [-> [s [Hs Bad]]].
      destruct ((first <? 0) || (first + n >? TWO256)) eqn:B; [reflexivity|].
      destruct (existsb (fun '(b, m, _) => overlaps first n b m) io) eqn:Ov; [reflexivity|].
      rewrite iocc_get_none_iff in Ov by (auto; lia). specialize (Ov s Hs). rewrite <- G in Ov.
      destruct Bad as [Bad|Bad]; [lia|congruence].
Qed.

Lemma do_req_rel : forall lis ov nrslot o io pos r, occ_rel o io ->
  match do_req_perslot lis ov nrslot (o, pos) r, do_req_interval lis ov nrslot (io, pos) r with
  | Ok (o', p'), Ok (io', p'') => occ_rel o' io' /\ p' = p''
  | Err e, Err e' => e = e'
  | _, _ => False
  end.
Proof.
  intros lis ov nrslot o io pos r R. destruct r as [|p n]; cbn [do_req_perslot do_req_interval].
  - destruct (negb lis); [auto|]. destruct nrslot as [s|]; [|reflexivity].
    destruct R as [G Pos]. rewrite <- G.
    assert (R : occ_rel o io) by (split; auto).
    pose proof (interval_vs_perslot_l o io s KEY_SIZE None R) as I.
    destruct (occ_get o s) as [[q|]|]; [| auto |];
      (destruct (reserve_perslot o s KEY_SIZE None); destruct (reserve_interval io s KEY_SIZE None); cbn [bind]; auto; contradiction).
  - destruct (ovr_get ov p) as [s|]; [|reflexivity].
    pose proof (interval_vs_perslot_l o io s n (Some p) R) as I.
    destruct (reserve_perslot o s n (Some p)); destruct (reserve_interval io s n (Some p)); cbn [bind]; auto; contradiction.
Qed.

Lemma fold_req_rel : forall lis ov nrslot rs o io pos, occ_rel o io ->
  match fold_res (do_req_perslot lis ov nrslot) (o, pos) rs, fold_res (do_req_interval lis ov nrslot) (io, pos) rs with
  | Ok (o', p'), Ok (io', p'') => occ_rel o' io' /\ p' = p''
  | Err e, Err e' => e = e'
  | _, _ => False
  end.
Proof.
  induction rs; intros o io pos R; cbn [fold_res]; [auto|].
  pose proof (do_req_rel lis ov nrslot o io pos a R) as D.
  destruct (do_req_perslot lis ov nrslot (o, pos) a) as [[o1 p1]|]; destruct (do_req_interval lis ov nrslot (io, pos) a) as [[io1 p1']|];
    cbn [bind]; try contradiction; auto.
  destruct D as [R1 <-]. apply IHrs. auto.
Qed.

Lemma rel_bind : forall (x : res (occ * list (path * Z))) (y : res (iocc * list (path * Z))),
  match x, y with
  | Ok (o', p'), Ok (io', p'') => occ_rel o' io' /\ p' = p''
  | Err e, Err e' => e = e'
  | _, _ => False
  end -> (st <- x ;; Ok (snd st)) = (st <- y ;; Ok (snd st)).
Proof.
  intros [[o p]|e] [[io p']|e']; cbn; intros H; try contradiction.
  - destruct H as [_ Hp]. rewrite Hp. reflexivity.
  - congruence.
Qed.

(* the faithful per-slot allocator and the interval allocator accept the same override files
   and assign the same positions *)
Theorem override_models_agree : forall lis ov nrslot rs,
  override_perslot lis ov nrslot rs = override_interval lis ov nrslot rs.
Proof.
  intros. unfold override_perslot, override_interval. apply rel_bind. apply fold_req_rel.
  split; [reflexivity|constructor].
Qed.

(* ---------- generate_layout_export round trip ---------- *)
Lemma path_eqb_eq : forall a b, path_eqb a b = true <-> a = b.
Proof.
  induction a; destruct b; cbn; split; intros H; try discriminate; auto.
  - apply andb_prop in H. destruct H as [H1 H2]. apply String.eqb_eq in H1. apply IHa in H2. congruence.
  - inversion H; subst. rewrite String.eqb_refl. apply IHa. reflexivity.
Qed.

Lemma export_decl_init : forall m p al nr body, export_decl m p (DInit al nr body) = export_decls m (p ++ [al]) body.
Proof. intros. cbn [export_decl]. induction body; cbn [export_decls]; [reflexivity|]. rewrite IHbody. reflexivity. Qed.

Lemma export_tree_flat_decl : forall m d p,
  export_decl m p d = map (fun v => (fst (fst v), snd (fst v), snd v, pos_get m (fst (fst v)))) (flatten_decl p d).
Proof.
  intros m d. induction d using decl_ind'; intros p.
  - reflexivity.
  - rewrite export_decl_init, flatten_decl_init. generalize (p ++ [al]). intros q.
    induction H; cbn [export_decls flatten]; [reflexivity|]. rewrite map_app, H, IHForall. reflexivity.
Qed.

Lemma export_tree_flat : forall m ds p,
  export_decls m p ds = map (fun v => (fst (fst v), snd (fst v), snd v, pos_get m (fst (fst v)))) (flatten p ds).
Proof.
  induction ds; intros p; cbn [export_decls flatten]; [reflexivity|]. rewrite map_app, export_tree_flat_decl, IHds. reflexivity.
Qed.

Lemma pos_get_nodup : forall es e, NoDup (map e_path es) -> In e es -> pos_get (positions_of es) (e_path e) = Some (e_off e).
Proof.
  induction es as [|a es IH]; intros e N I; [contradiction|]. cbn [positions_of map pos_get]. inversion N; subst.
  destruct I as [<-|I].
  - replace (path_eqb (e_path a) (e_path a)) with true by (symmetry; apply path_eqb_eq; reflexivity). reflexivity.
  - destruct (path_eqb (e_path a) (e_path e)) eqn:Q.
    + apply path_eqb_eq in Q. exfalso. apply H1. rewrite Q. apply in_map. exact I.
    + apply IH; auto.
Qed.

(* every state variable is exported exactly once, in declaration order, with the (position, size) it was
   allocated (qualified names are unique: enforced by the module system) *)
Theorem export_roundtrip_l : forall lockloc ds slot es,
  allocate lockloc ds = Ok (slot, es) ->
  NoDup (map (fun v => fst (fst v)) (flatten [] ds)) ->
  export_decls (positions_of es) [] ds = map (fun e => (e_path e, e_loc e, e_size e, Some (e_off e))) es.
Proof.
  intros lockloc ds slot es A N. rewrite export_tree_flat.
  unfold allocate, alloc_lock in A.
  destruct (alloc_in init_state lockloc KEY_SIZE) as [[sl s]|] eqn:L; cbn in A; [|discriminate].
  destruct (sl =? startof lockloc) eqn:Es; cbn in A; [|discriminate].
  rewrite alloc_tree_flat in A.
  destruct (alloc_flat false (flatten [] ds) s) as [[es' s2]|] eqn:F; cbn in A; [|discriminate].
  inversion A; subst. clear A.
  assert (Names : map (fun e => (e_path e, e_loc e, e_size e)) es = flatten [] ds).
  { revert F. generalize (flatten [] ds). clear. intros vs. revert s es s2.
    induction vs as [|[[p l] sz] vs IH]; intros s es s2 F; cbn [alloc_flat andb] in F.
    - inversion F. reflexivity.
    - destruct (alloc_in s l sz) as [[off s1]|]; cbn in F; [|discriminate].
      destruct (alloc_flat false vs s1) as [[es1 s3]|] eqn:G; cbn in F; [|discriminate]. inversion F; subst.
      cbn [map]. cbn. f_equal. eapply IH; eauto. }
  assert (ND : NoDup (map e_path es)).
  { replace (map e_path es) with (map (fun v => fst (fst v)) (map (fun e => (e_path e, e_loc e, e_size e)) es)) by (rewrite map_map; reflexivity).
    rewrite Names. exact N. }
  rewrite <- Names, map_map. apply map_ext_in. intros e He. cbn [fst snd]. rewrite (pos_get_nodup es e ND He). reflexivity.
Qed.
