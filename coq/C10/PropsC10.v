(* C10: state variables never alias; reported layout = used layout.
   Property theorems (proved in AllocProofs.v / Paths.v / OverrideProofs.v) + non-vacuity examples. *)
From Coq Require Import ZArith Bool List String Lia.
From Verif Require Import Base.PyInt Base.Word256 C03.LIR C10.GenAlloc C10.Layout C10.Alloc C10.Paths C10.AllocProofs C10.OverrideProofs C10.AddrTemplates C03.VSL C10.VAddrTemplates C10.VAddrPath C10.VMapTemplates C10.RoundTrip.
Import ListNotations.
Open Scope Z_scope.

(* T-tie: the generated size helpers (vyper.utils.ceil32, VyperType.storage_size_in_words)
   are the ones the layout model uses *)
Theorem gen_ceil32_is_model : forall x, GenAlloc.ceil32 x = Ok (Layout.ceil32 x).
Proof.
  intros x. unfold GenAlloc.ceil32, Layout.ceil32, py_mod. cbn [Z.eqb bind].
  destruct (x mod 32 =? 0); reflexivity.
Qed.
Print Assumptions gen_ceil32_is_model.

Theorem storage_words_of_type : forall t, words_of_bytes (size_bytes t) = Ok (size_words t).
Proof.
  intros t. rewrite size_bytes_words. unfold words_of_bytes, py_mod, py_floordiv.
  assert (M : (32 * size_words t) mod 32 = 0) by (rewrite Z.mul_comm; apply Z.mod_mul; lia).
  assert (D : (32 * size_words t) / 32 = size_words t) by (rewrite Z.mul_comm; apply Z.div_mul; lia).
  change (32 =? 0) with false. cbv beta iota delta [bind]. rewrite M, D.
  change (0 =? 0) with true. reflexivity.
Qed.
Print Assumptions storage_words_of_type.

(* for every declaration tree: reported = declared (each variable once, in order); all ranges in
   one location pairwise disjoint, inside [0, max), and off the lock range *)
Theorem alloc_disjoint : forall lockloc ds slot es,
  sizes_nonneg ds ->
  allocate lockloc ds = Ok (slot, es) ->
  map (fun e => (e_path e, e_loc e, e_size e)) es = flatten [] ds /\
  ForallOrdPairs disjoint es /\
  Forall (fun e => 0 <= e_off e /\ e_off e + e_size e < maxof (e_loc e) /\
                   (e_loc e = lockloc -> slot + KEY_SIZE <= e_off e)) es /\
  slot = 0 /\ 0 < KEY_SIZE.
Proof. exact alloc_disjoint_l. Qed.
Print Assumptions alloc_disjoint.

(* the module-tree recursion through `initializes` is the in-order traversal *)
Theorem alloc_tree_is_flat : forall ns ds p s, alloc_decls ns p ds s = alloc_flat ns (flatten p ds) s.
Proof. exact alloc_tree_flat. Qed.
Print Assumptions alloc_tree_is_flat.

Theorem size_positive : forall t, wf t -> 0 < size_words t /\ size_bytes t = 32 * size_words t.
Proof. intros t W. split; [apply size_positive_l; auto | apply size_bytes_words]. Qed.
Print Assumptions size_positive.

Theorem elem_in_parent : forall p t o t', wf t -> resolve t p = Some (o, t') ->
  wf t' /\ 0 <= o /\ o + size_words t' <= size_words t.
Proof. exact elem_in_parent_l. Qed.
Print Assumptions elem_in_parent.

Theorem paths_disjoint : forall t p q op tp oq tq, wf t -> diverge p q ->
  resolve t p = Some (op, tp) -> resolve t q = Some (oq, tq) ->
  op + size_words tp <= oq \/ oq + size_words tq <= op.
Proof. exact paths_disjoint_l. Qed.
Print Assumptions paths_disjoint.

(* the per-slot dict of OverridingStorageAllocator and interval reservation are equivalent *)
Theorem interval_vs_perslot : forall o io first n nm, occ_rel o io ->
  match reserve_perslot o first n nm, reserve_interval io first n nm with
  | Ok o', Ok io' => occ_rel o' io'
  | Err e, Err e' => e = e'
  | _, _ => False
  end.
Proof. exact interval_vs_perslot_l. Qed.
Print Assumptions interval_vs_perslot.

Theorem override_perslot_is_interval : forall lis ov nrslot rs,
  override_perslot lis ov nrslot rs = override_interval lis ov nrslot rs.
Proof. exact override_models_agree. Qed.
Print Assumptions override_perslot_is_interval.

(* The override allocator (interval reservation, OverridingStorageAllocator.reserve_slot_range)
   accepts a file iff it is complete, every non-empty range is inside [0, 2^256) and disjoint from
   all ranges granted before (accept_spec: pairwise disjoint, incl. the lock range when the lock
   lives in storage); then every storage variable sits exactly at the file's slot.  The same holds
   for the slot-by-slot dict allocator the code used before (override_perslot). *)
Theorem override_accept_iff : forall lis ov nrslot rs,
  (accept_spec lis ov nrslot [] false rs <-> override_interval lis ov nrslot rs = Ok (spec_positions ov rs)) /\
  (forall pos, override_interval lis ov nrslot rs = Ok pos -> pos = spec_positions ov rs).
Proof. exact override_accept_iff_l. Qed.
Print Assumptions override_accept_iff.

Theorem override_accept_iff_perslot : forall lis ov nrslot rs,
  (accept_spec lis ov nrslot [] false rs <-> override_perslot lis ov nrslot rs = Ok (spec_positions ov rs)) /\
  (forall pos, override_perslot lis ov nrslot rs = Ok pos -> pos = spec_positions ov rs).
Proof. exact override_accept_iff_perslot_l. Qed.
Print Assumptions override_accept_iff_perslot.

(* HashMap entries (H, BOUND and the two hypotheses are explicit premises: keccak assumptions) *)
Theorem mapping_slots_distinct :
  forall (H : Z -> Z -> Z) (BOUND : Z),
  (forall s k s' k', (s, k) <> (s', k') -> H s k + BOUND <= H s' k' \/ H s' k' + BOUND <= H s k) ->
  (forall s k, BOUND <= H s k) ->
  (forall s v k p s' v' k' p' a n a' n',
    wf v -> wf v' -> size_words v <= BOUND -> size_words v' <= BOUND -> (s, k) <> (s', k') ->
    entry_range H s v k p = Some (a, n) -> entry_range H s' v' k' p' = Some (a', n') ->
    a + n <= a' \/ a' + n' <= a) /\
  (forall s v k p a n base sz, wf v -> 0 <= base -> base + sz <= BOUND ->
    entry_range H s v k p = Some (a, n) -> base + sz <= a) /\
  (forall s v k p q a n a' n', wf v -> diverge p q ->
    entry_range H s v k p = Some (a, n) -> entry_range H s v k q = Some (a', n') ->
    a + n <= a' \/ a' + n' <= a).
Proof.
  intros H B Hs Ha. split; [|split].
  - intros s v k p s' v' k' p' a n a' n'. apply (mapping_slots_distinct_l H B Hs Ha).
  - intros s v k p a n base sz. apply (mapping_avoids_static_l H B Hs Ha).
  - intros s v k p q a n a' n'. apply (mapping_same_entry_paths_l H B Hs Ha).
Qed.
Print Assumptions mapping_slots_distinct.

(* generate_layout_export lists every state variable exactly once, in order, with the position and size it
   was allocated (second traversal reading the recorded positions) *)
Theorem export_roundtrip : forall lockloc ds slot es,
  allocate lockloc ds = Ok (slot, es) ->
  NoDup (map (fun v => fst (fst v)) (flatten [] ds)) ->
  export_decls (positions_of es) [] ds = map (fun e => (e_path e, e_loc e, e_size e, Some (e_off e))) es.
Proof. exact export_roundtrip_l. Qed.
Print Assumptions export_roundtrip.

(* "reported layout = used layout" for the emitted address code: the IR that get_element_ptr emits for a
   path (template addr_path, matched syntactically against the real generator on every run) evaluates to
   base + ws * (resolve offset) mod 2^256 when every index is in bounds (levels_ok) *)
Theorem addr_code_matches_layout : forall path ws signs k t p e pv q o t',
  (ws = 1 \/ ws = 32) -> 0 <= pv < W ->
  addr_path ws signs k t path p = Some q -> leval e p = Val pv ->
  levels_ok e signs k t path -> resolve t path = Some (o, t') ->
  leval e q = Val (wrap (pv + ws * o)).
Proof. exact addr_path_correct. Qed.
Print Assumptions addr_code_matches_layout.

(* the same for the venom front end, per subscript / struct-member step (Expr._lower_array_subscript with its
   bounds check, Expr._lower_struct_field): the emitted pointer is base + ws * step offset *)
Theorem venom_addr_code_matches_layout : forall ws signed t s e pv x l tpl c o c',
  (ws = 1 \/ ws = 32) ->
  vaddr_step ws signed t s = Some (tpl, c) ->
  lookup e "p0"%string = Some pv -> 0 <= pv < W ->
  lookup e "p1"%string = Some x -> 0 <= x < W ->
  lookup e "ld0"%string = Some l -> 0 <= l < W ->
  (match t with TSArr _ n => 0 <= n < W | _ => True end) ->
  step_child t (match s with SIdx _ => SIdx (idxv signed x) | s' => s' end) = Some (o, c') ->
  (match t with TDArr _ _ => idxv signed x < l | _ => True end) ->
  c = c' /\ vrun e tpl = Val (wrap (pv + ws * o)).
Proof. exact vaddr_step_correct. Qed.
Print Assumptions venom_addr_code_matches_layout.

(* round 4: layout_override (layout_export m) == layout m.  Feeding the exported storage layout back as an override
   file (every storage variable at its exported slot, lock key at its exported slot) is accepted and reproduces the
   same storage positions and the same transient / immutables entries *)
Theorem export_override_roundtrip : forall lockloc nr ds slot es,
  sizes_nonneg ds -> NoDup (map (fun v => fst (fst v)) (flatten [] ds)) ->
  allocate lockloc ds = Ok (slot, es) ->
  allocate_override lockloc nr ds (export_as_override es) (Some slot) =
    Ok (ns_entries es, map (fun e => (e_path e, e_off e)) (st_entries es)).
Proof. exact export_override_roundtrip_l. Qed.
Print Assumptions export_override_roundtrip.

(* round 4: composition over whole access paths.  The venom program for a path (per-step templates, SSA names
   canonicalised per level; matched syntactically against the real recursive lowering on every run) leaves in its
   result variable  base + ws * o  where o is the Layout.resolve offset of the path with the run-time indices, and
   that offset lies inside the variable: 0 <= o and o + size(t') <= size(t)  -- for every path and all in-range indices *)
Theorem venom_path_in_bounds : forall path ws signs t e pv q fin o t',
  (ws = 1 \/ ws = 32) -> (List.length path < 100)%nat -> wf t ->
  vaddr_path ws signs 0 t path "base" = Some (q, fin) ->
  lookup e "base"%string = Some pv -> 0 <= pv < W ->
  vpath_ok e signs 0 t path o t' ->
  (exists e1, vsl e q = VOk e1 /\ lookup e1 fin = Some (wrap (pv + ws * o))) /\
  resolve t (concrete e signs 0 path) = Some (o, t') /\
  0 <= o /\ o + size_words t' <= size_words t.
Proof. exact vaddr_path_in_bounds_l. Qed.
Print Assumptions venom_path_in_bounds.

(* venom HashMap lowering (key buffer + sha3): H2 a b = keccak256(a ++ b), HB mem p n = keccak256 of n bytes at p
   are abstract; one level yields H2 slot key, byte-string keys are hashed first, n nested levels give chainH *)
Theorem venom_mapping_slot : forall (H2 : Z -> Z -> Z) (HB : (Z -> Z) -> Z -> Z -> Z),
  (forall ob oo orr slot key st b k a rest,
     ob <> oo -> avoids slot [ob] -> avoids key [ob] -> avoids key [oo] ->
     vval (h_env st) slot = Some b -> vval (h_env st) key = Some k ->
     h_fresh st = a :: rest -> 0 <= a < W ->
     exists st', hrun H2 HB st (map_word ob oo orr slot key) = Some st' /\
       lookup (h_env st') orr = Some (H2 b k) /\ h_fresh st' = rest /\
       (forall s, s <> ob -> s <> oo -> s <> orr -> lookup (h_env st') s = lookup (h_env st) s) /\
       (forall x, x <> a -> x <> w_add a 32 -> h_mem st' x = h_mem st x)) /\
  (forall od on ok kp st p, od <> on -> avoids kp [od] -> vval (h_env st) kp = Some p ->
     exists st', hrun H2 HB st (key_bytes od on ok kp) = Some st' /\
       lookup (h_env st') ok = Some (HB (h_mem st) (w_add p 32) (h_mem st p)) /\
       h_fresh st' = h_fresh st /\ h_mem st' = h_mem st /\
       (forall s, s <> od -> s <> on -> s <> ok -> lookup (h_env st') s = lookup (h_env st) s)) /\
  (forall nlev j slot st b ks,
     (3 * (j + nlev) < 100)%nat -> List.length ks = nlev -> List.length (h_fresh st) = nlev ->
     Forall (fun a => 0 <= a < W) (h_fresh st) -> vval (h_env st) slot = Some b ->
     (match slot with VVar s => (forall i, (3 * j <= i < 100)%nat -> s <> tn i) | VLit _ => True end) ->
     (forall i, (i < nlev)%nat -> lookup (h_env st) (kn (j + i)) = Some (nth i ks 0)) ->
     exists st', hrun H2 HB st (fst (map_chain j slot nlev)) = Some st' /\
                 vval (h_env st') (snd (map_chain j slot nlev)) = Some (chainH H2 b ks)).
Proof.
  intros H2 HB. split; [|split].
  - apply map_word_correct.
  - apply key_bytes_correct.
  - apply map_chain_correct.
Qed.
Print Assumptions venom_mapping_slot.

(* nested HashMaps: entries behind different (variable, key chain) never overlap, and never reach the static area *)
Theorem chained_maps_distinct :
  forall (H : Z -> Z -> Z) (BOUND : Z), 0 < BOUND ->
  (forall s k s' k', (s, k) <> (s', k') -> H s k + BOUND <= H s' k' \/ H s' k' + BOUND <= H s k) ->
  (forall s k, BOUND <= H s k) ->
  (forall s ks v p s' ks' v' p' a n a' n',
     0 <= s < BOUND -> 0 <= s' < BOUND -> ks <> [] -> ks' <> [] -> wf v -> wf v' ->
     size_words v <= BOUND -> size_words v' <= BOUND -> (s, ks) <> (s', ks') ->
     chain_entry H s ks v p = Some (a, n) -> chain_entry H s' ks' v' p' = Some (a', n') ->
     a + n <= a' \/ a' + n' <= a) /\
  (forall s ks v p a n base sz, ks <> [] -> wf v -> 0 <= base -> base + sz <= BOUND ->
     chain_entry H s ks v p = Some (a, n) -> base + sz <= a).
Proof.
  intros H B Bp Hs Ha. split.
  - intros s ks v p s' ks' v' p' a n a' n'. apply (chained_maps_distinct_l H B Bp Hs Ha).
  - intros s ks v p a n base sz. apply (chained_maps_avoid_static_l H B Hs Ha).
Qed.
Print Assumptions chained_maps_distinct.

(* ---- non-vacuity ---- *)
Open Scope string_scope.
Definition ex_decls : list decl :=
  [DVar "a" LStorage 1; DInit "lib1" true [DVar "y" LStorage 4; DVar "t" LTransient 1; DVar "Q" LCode 64];
   DVar "c" LStorage (2 ^ 100 + 1)].

Example alloc_nonvacuous :
  sizes_nonneg ex_decls /\
  allocate LStorage ex_decls =
    Ok (0, [mkE ["a"] LStorage 1 1; mkE ["lib1"; "y"] LStorage 2 4; mkE ["lib1"; "t"] LTransient 0 1;
            mkE ["lib1"; "Q"] LCode 0 64; mkE ["c"] LStorage 6 (2 ^ 100 + 1)]) /\
  (exists e, allocate LStorage [DVar "x" LStorage (2 ^ 256 - 1)] = Err e) /\
  (exists r, allocate LStorage [DVar "x" LStorage (2 ^ 256 - 2)] = Ok r) /\
  (exists e, allocate LStorage [DVar "x" LCode 0x6000] = Err e).
Proof.
  split; [|split; [|split; [|split]]].
  - unfold sizes_nonneg. cbn. repeat constructor; cbn; lia.
  - vm_compute. reflexivity.
  - eexists. vm_compute. reflexivity.
  - eexists. vm_compute. reflexivity.
  - eexists. vm_compute. reflexivity.
Qed.

Definition ex_ty : ty := TStruct [TWord; TSArr (TDArr TWord 3) 2; TBytes 33].
Example paths_nonvacuous :
  wf ex_ty /\ size_words ex_ty = 12 /\
  resolve ex_ty [SField 1%nat; SIdx 1; SIdx 2] = Some (8, TWord) /\
  resolve ex_ty [SField 1%nat; SIdx 1; SLen] = Some (5, TWord) /\
  resolve ex_ty [SField 1%nat; SIdx 2] = None /\
  diverge [SField 1%nat; SIdx 1; SIdx 2] [SField 1%nat; SIdx 1; SLen].
Proof.
  repeat split; try (vm_compute; congruence); try (cbn; lia); try discriminate.
  exists [SField 1%nat; SIdx 1], (SIdx 2), SLen, [], []. repeat split; discriminate.
Qed.

Example accept_spec_nonvacuous :
  let rs := reqs_module true [DVar "a" LStorage 1; DInit "l" true [DVar "b" LStorage 3]] in
  accept_spec true [(["a"], 5); (["l"; "b"], 6)] (Some 9) [] false rs /\
  ~ accept_spec true [(["a"], 5); (["l"; "b"], 3)] (Some 9) [] false rs /\
  ~ accept_spec true [(["a"], 5)] (Some 9) [] false rs.
Proof.
  cbv zeta. unfold reqs_module. cbn [reqs_decls reqs_decl app loc_eqb accept_spec negb ovr_get path_eqb String.eqb Ascii.eqb Bool.eqb andb Z.leb Z.compare].
  unfold rin, rdisj, TWO256, KEY_SIZE. cbn [fst snd]. repeat split; try lia.
  - repeat constructor; cbn; lia.
  - repeat constructor; cbn; lia.
  - repeat constructor; cbn; lia.
  - intros A. repeat match goal with H : _ /\ _ |- _ => destruct H end.
    repeat match goal with H : Forall _ (_ :: _) |- _ => inversion H; clear H; subst end. cbn [fst snd] in *. lia.
Qed.

Example addr_nonvacuous :
  let t := TSArr (TDArr (TStruct [TWord; TSArr TWord 3]) 4) 2 in
  let path := [SIdx 1; SIdx 2; SField 1%nat; SIdx 0] in
  exists q, addr_path 1 [false; true; false; false] 0%nat t path (LVar "base") = Some q /\
            resolve t path = Some (1 * 17 + 1 + 2 * 4 + 1 + 0, TWord) /\
            leval [("base", 100); ("ix0", 1); ("ix1", 2); ("len1", 3); ("ix3", 0)] q = Val 127 /\
            leval [("base", 100); ("ix0", 1); ("ix1", 3); ("len1", 3); ("ix3", 0)] q = Revert.
Proof. cbv zeta. eexists. split; [reflexivity|]. repeat split; vm_compute; reflexivity. Qed.

Example venom_path_nonvacuous :
  let t := TSArr (TDArr (TStruct [TWord; TSArr TWord 3]) 4) 2 in
  exists q fin, vaddr_path 1 [false; true; false; false] 0%nat t [SIdx 0; SIdx 0; SField 1%nat; SIdx 0] "base" = Some (q, fin) /\
    exists e1, vsl [("base", 100); ("0p1", 1); ("1p1", 2); ("1ld0", 3); ("3p1", 0)] q = VOk e1 /\ lookup e1 fin = Some 127.
Proof. cbv zeta. eexists. eexists. split; [reflexivity|]. eexists. split; vm_compute; reflexivity. Qed.

Example override_nonvacuous :
  let rs := reqs_module true [DVar "a" LStorage 1; DInit "l" true [DVar "b" LStorage 3]] in
  override_perslot true [(["a"], 5); (["l"; "b"], 6)] (Some 9) rs = Ok [(["a"], 5); (["l"; "b"], 6)] /\
  (exists e, override_perslot true [(["a"], 5); (["l"; "b"], 3)] (Some 9) rs = Err e) /\
  (exists e, override_perslot true [(["a"], 5)] (Some 9) rs = Err e) /\
  (exists e, override_perslot true [(["a"], 5); (["l"; "b"], 7)] (Some 9) rs = Err e) /\
  (exists e, override_perslot true [(["a"], 5); (["l"; "b"], 6)] None rs = Err e) /\
  override_perslot false [(["a"], 5); (["l"; "b"], 6)] None rs = Ok [(["a"], 5); (["l"; "b"], 6)].
Proof.
  cbv zeta. repeat split; try (eexists; vm_compute; reflexivity); vm_compute; reflexivity.
Qed.
