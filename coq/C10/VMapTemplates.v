(* C10 round 4: the venom lowering of HashMap subscripts (vyper/codegen_venom/expr.py
   Expr._lower_mapping_subscript, _lower_keccak256_key): key buffer + sha3.

       %buf = alloca 64 ; mstore %buf, slot ; %o = add %buf, 32 ; mstore %o, key ; %r = sha3 %buf, 64
   and for Bytes / String keys first   %d = add kp, 32 ; %n = mload kp ; key = sha3 %d, %n.

   Mini-semantics: word-cell memory (cells addressed by their byte address; sound here because the template
   only touches the two cells buf and buf+32 and the fresh buffer is disjoint from everything else),
   [alloca] takes the next address from an arbitrary supply, and the two uses of sha3 are interpreted by
   abstract functions  H2 a b = keccak256(a ++ b)  (64 bytes = two cells) and  HB mem p n = keccak256 of the n
   bytes at p.  Theorems: the resulting slot is  H2 slot key  (key = HB ... for byte strings), memory changes
   only inside the fresh buffer, and n nested levels give  chainH H2 slot [k1; ..; kn]  (AddrTemplates). *)
From Coq Require Import ZArith Bool List String Ascii Lia.
From Verif Require Import Base.Word256 C03.LIR C03.VSL C10.AddrTemplates.
Import ListNotations.
Open Scope Z_scope.

Inductive hinstr :=
| HAlloca (out : string) (size : Z)
| HMstore (addr val : vop)
| HMload (out : string) (addr : vop)
| HAdd (out : string) (a b : vop)
| HSha3_64 (out : string) (ptr : vop)          (* sha3 ptr, 64 *)
| HSha3B (out : string) (ptr len : vop).       (* sha3 ptr, len   (byte string) *)

Record hst := mkH { h_env : env; h_mem : Z -> Z; h_fresh : list Z }.

Section Sem.
  Variable H2 : Z -> Z -> Z.
  Variable HB : (Z -> Z) -> Z -> Z -> Z.

  Definition upd (m : Z -> Z) (a v : Z) : Z -> Z := fun x => if x =? a then v else m x.

  Definition hstep (st : hst) (i : hinstr) : option hst :=
    let e := h_env st in
    match i with
    | HAlloca out _ =>
        match h_fresh st with
        | a :: rest => Some (mkH ((out, a) :: e) (h_mem st) rest)
        | [] => None
        end
    | HMstore addr val =>
        match vval e addr, vval e val with
        | Some a, Some v => Some (mkH e (upd (h_mem st) a v) (h_fresh st))
        | _, _ => None
        end
    | HMload out addr =>
        match vval e addr with Some a => Some (mkH ((out, h_mem st a) :: e) (h_mem st) (h_fresh st)) | None => None end
    | HAdd out a b =>
        match vval e a, vval e b with
        | Some x, Some y => Some (mkH ((out, w_add x y) :: e) (h_mem st) (h_fresh st))
        | _, _ => None
        end
    | HSha3_64 out ptr =>
        match vval e ptr with
        | Some p => Some (mkH ((out, H2 (h_mem st p) (h_mem st (w_add p 32))) :: e) (h_mem st) (h_fresh st))
        | None => None
        end
    | HSha3B out ptr len =>
        match vval e ptr, vval e len with
        | Some p, Some n => Some (mkH ((out, HB (h_mem st) p n) :: e) (h_mem st) (h_fresh st))
        | _, _ => None
        end
    end.

  Fixpoint hrun (st : hst) (l : list hinstr) : option hst :=
    match l with [] => Some st | i :: r => match hstep st i with Some st' => hrun st' r | None => None end end.

  (* ---- templates (names are parameters; the exporter numbers SSA outputs t0, t1, ... in order) ---- *)
  Definition map_word (ob oo orr : string) (slot key : vop) : list hinstr :=
    [HAlloca ob 64; HMstore (VVar ob) slot; HAdd oo (VVar ob) (VLit 32); HMstore (VVar oo) key; HSha3_64 orr (VVar ob)].
  Definition key_bytes (od on ok : string) (kp : vop) : list hinstr :=
    [HAdd od kp (VLit 32); HMload on kp; HSha3B ok (VVar od) (VVar on)].

  Definition avoids (a : vop) (names : list string) : Prop :=
    match a with VLit _ => True | VVar s => ~ In s names end.

  Lemma vval_cons_avoid : forall a o v e, avoids a [o] -> vval ((o, v) :: e) a = vval e a.
  Proof.
    intros [n|s] o v e A; cbn [vval lookup]; [reflexivity|]. cbn in A.
    destruct (String.eqb_spec o s); [exfalso; apply A; left; auto|reflexivity].
  Qed.

  Lemma add32_ne : forall a, 0 <= a < W -> w_add a 32 <> a.
  Proof.
    intros a R E. assert (Wv : W = 2 ^ 256) by reflexivity. unfold w_add in E.
    destruct (Z_lt_dec (a + 32) W).
    - rewrite Z.mod_small in E by lia. lia.
    - assert (E2 : (a + 32) mod W = a + 32 - W).
      { rewrite <- (Z.mod_small (a + 32 - W) W) by lia. replace (a + 32 - W) with (a + 32 + (-1) * W) by lia.
        rewrite Z.mod_add by lia. reflexivity. }
      rewrite E2 in E. lia.
  Qed.

  Theorem map_word_correct : forall ob oo orr slot key st b k a rest,
    ob <> oo -> avoids slot [ob] -> avoids key [ob] -> avoids key [oo] ->
    vval (h_env st) slot = Some b -> vval (h_env st) key = Some k ->
    h_fresh st = a :: rest -> 0 <= a < W ->
    exists st', hrun st (map_word ob oo orr slot key) = Some st' /\
      lookup (h_env st') orr = Some (H2 b k) /\
      h_fresh st' = rest /\
      (forall s, s <> ob -> s <> oo -> s <> orr -> lookup (h_env st') s = lookup (h_env st) s) /\
      (forall x, x <> a -> x <> w_add a 32 -> h_mem st' x = h_mem st x).
  Proof.
    intros ob oo orr slot key st b k a rest Nbo As Ak1 Ak2 Vs Vk Fr Ra.
    unfold map_word. cbn [hrun hstep]. rewrite Fr. cbn [h_env h_mem h_fresh vval lookup].
    rewrite String.eqb_refl. rewrite (vval_cons_avoid slot ob a (h_env st) As), Vs.
    cbn [hrun hstep h_env h_mem h_fresh vval lookup]. rewrite String.eqb_refl.
    change (wrap 32) with 32.
    cbn [hrun hstep h_env h_mem h_fresh vval lookup]. rewrite String.eqb_refl.
    rewrite (vval_cons_avoid key oo _ _ Ak2), (vval_cons_avoid key ob _ _ Ak1), Vk.
    cbn [hrun hstep h_env h_mem h_fresh vval lookup].
    destruct (String.eqb_spec oo ob) as [E|_]; [exfalso; apply Nbo; auto|]. rewrite String.eqb_refl.
    eexists. split; [reflexivity|]. cbn [h_env h_mem h_fresh lookup]. rewrite String.eqb_refl.
    split; [|split; [reflexivity|split]].
    - f_equal. unfold upd. f_equal.
      + replace (a =? w_add a 32) with false by (symmetry; apply Z.eqb_neq; intros E; apply (add32_ne a Ra); auto).
        rewrite Z.eqb_refl. reflexivity.
      + rewrite Z.eqb_refl. reflexivity.
    - intros s N1 N2 N3. destruct (String.eqb_spec orr s); [congruence|]. destruct (String.eqb_spec oo s); [congruence|].
      destruct (String.eqb_spec ob s); [congruence|]. reflexivity.
    - intros x N1 N2. unfold upd. destruct (Z.eqb_spec x (w_add a 32)); [contradiction|]. destruct (Z.eqb_spec x a); [contradiction|]. reflexivity.
  Qed.

  Theorem key_bytes_correct : forall od on ok kp st p,
    od <> on -> avoids kp [od] ->
    vval (h_env st) kp = Some p ->
    exists st', hrun st (key_bytes od on ok kp) = Some st' /\
      lookup (h_env st') ok = Some (HB (h_mem st) (w_add p 32) (h_mem st p)) /\
      h_fresh st' = h_fresh st /\ h_mem st' = h_mem st /\
      (forall s, s <> od -> s <> on -> s <> ok -> lookup (h_env st') s = lookup (h_env st) s).
  Proof.
    intros od on ok kp st p Ndn Ak Vp. unfold key_bytes. cbn [hrun hstep h_env h_mem h_fresh vval]. rewrite Vp.
    change (wrap 32) with 32. cbn [hrun hstep h_env h_mem h_fresh]. rewrite (vval_cons_avoid kp od _ _ Ak), Vp.
    cbn [hrun hstep h_env h_mem h_fresh vval lookup]. rewrite String.eqb_refl.
    destruct (String.eqb_spec on od) as [E|_]; [exfalso; apply Ndn; auto|]. rewrite String.eqb_refl.
    eexists. split; [reflexivity|]. cbn [h_env h_mem h_fresh lookup]. rewrite String.eqb_refl.
    split; [reflexivity|]. split; [reflexivity|]. split; [reflexivity|].
    intros s N1 N2 N3. destruct (String.eqb_spec ok s); [congruence|]. destruct (String.eqb_spec on s); [congruence|].
    destruct (String.eqb_spec od s); [congruence|]. reflexivity.
  Qed.

  (* ---- nested maps: level j uses the names t(3j), t(3j+1), t(3j+2); slot of level j+1 = result of level j;
     keys are the parameters k0, k1, ... ---- *)
  Definition tn (i : nat) : string := String "t"%char (String (digit i) EmptyString).
  Definition kn (i : nat) : string := String "k"%char (String (digit i) EmptyString).
  Fixpoint map_chain (j : nat) (slot : vop) (nlev : nat) : list hinstr * vop :=
    match nlev with
    | O => ([], slot)
    | S n' =>
        let l := map_word (tn (3 * j)) (tn (3 * j + 1)) (tn (3 * j + 2)) slot (VVar (kn j)) in
        let '(l', r) := map_chain (S j) (VVar (tn (3 * j + 2))) n' in
        (l ++ l', r)
    end.

  Lemma hrun_app : forall l1 l2 st, hrun st (l1 ++ l2) = match hrun st l1 with Some st' => hrun st' l2 | None => None end.
  Proof. induction l1; intros l2 st; cbn [app hrun]; [reflexivity|]. destruct (hstep st a); auto. Qed.

  Lemma tn_inj : forall i j, (i < 100)%nat -> (j < 100)%nat -> tn i = tn j -> i = j.
  Proof.
    intros i j Hi Hj E. unfold tn in E. inversion E as [E1]. unfold digit in E1. apply (f_equal nat_of_ascii) in E1.
    rewrite !nat_ascii_embedding in E1 by lia. lia.
  Qed.
  Lemma tn_kn : forall i j, tn i <> kn j. Proof. intros i j E. discriminate E. Qed.

  Theorem map_chain_correct : forall nlev j slot st b ks,
    (3 * (j + nlev) < 100)%nat -> List.length ks = nlev -> List.length (h_fresh st) = nlev ->
    Forall (fun a => 0 <= a < W) (h_fresh st) ->
    vval (h_env st) slot = Some b ->
    (match slot with VVar s => (forall i, (3 * j <= i < 100)%nat -> s <> tn i) | VLit _ => True end) ->
    (forall i, (i < nlev)%nat -> lookup (h_env st) (kn (j + i)) = Some (nth i ks 0)) ->
    exists st', hrun st (fst (map_chain j slot nlev)) = Some st' /\
                vval (h_env st') (snd (map_chain j slot nlev)) = Some (chainH H2 b ks).
  Proof.
    induction nlev as [|n IH]; intros j slot st b ks Hb Lk Lf Rf Vs Ns Keys.
    - destruct ks; [|discriminate]. cbn. exists st. split; [reflexivity|exact Vs].
    - destruct ks as [|k ks]; [discriminate|]. destruct (h_fresh st) as [|a rest] eqn:Fr; [discriminate|].
      cbn [map_chain]. destruct (map_chain (S j) (VVar (tn (3 * j + 2))) n) as [l' r] eqn:MC. cbn [fst snd].
      inversion Rf as [|? ? Ra Rrest]; subst.
      assert (K0 : vval (h_env st) (VVar (kn j)) = Some k).
      { cbn [vval]. specialize (Keys 0%nat ltac:(lia)). rewrite Nat.add_0_r in Keys. exact Keys. }
      destruct (map_word_correct (tn (3 * j)) (tn (3 * j + 1)) (tn (3 * j + 2)) slot (VVar (kn j)) st b k a rest) as [st1 [R1 [L1 [F1 [E1 M1]]]]]; auto.
      + intros E. apply tn_inj in E; lia.
      + destruct slot as [n0|s]; cbn; [exact I|]. intros [E|[]]. apply (Ns (3 * j)%nat); [lia|auto].
      + cbn. intros [E|[]]. apply (tn_kn _ _ E).
      + cbn. intros [E|[]]. apply (tn_kn _ _ E).
      + rewrite hrun_app, R1.
        pose proof (IH (S j) (VVar (tn (3 * j + 2))) st1 (H2 b k) ks) as IH'. rewrite MC in IH'. cbn [fst snd] in IH'.
        destruct IH' as [st2 [R2 V2]].
        * lia.
        * cbn in Lk. lia.
        * rewrite F1. cbn in Lf. lia.
        * rewrite F1. exact Rrest.
        * cbn [vval]. exact L1.
        * intros i Hi E. apply tn_inj in E; lia.
        * intros i Hi. rewrite E1.
          -- specialize (Keys (S i) ltac:(lia)). replace (j + S i)%nat with (S j + i)%nat in Keys by lia. exact Keys.
          -- intros E. symmetry in E. apply (tn_kn _ _ E).
          -- intros E. symmetry in E. apply (tn_kn _ _ E).
          -- intros E. symmetry in E. apply (tn_kn _ _ E).
        * exists st2. split; [exact R2|]. rewrite V2. reflexivity.
  Qed.
End Sem.

(* ---- decidable syntactic equality (O-tie) ---- *)
Definition hinstr_eqb (i j : hinstr) : bool :=
  match i, j with
  | HAlloca o n, HAlloca o' n' => String.eqb o o' && (n =? n')
  | HMstore a v, HMstore a' v' => vop_eqb a a' && vop_eqb v v'
  | HMload o a, HMload o' a' => String.eqb o o' && vop_eqb a a'
  | HAdd o a b, HAdd o' a' b' => String.eqb o o' && vop_eqb a a' && vop_eqb b b'
  | HSha3_64 o p, HSha3_64 o' p' => String.eqb o o' && vop_eqb p p'
  | HSha3B o p n, HSha3B o' p' n' => String.eqb o o' && vop_eqb p p' && vop_eqb n n'
  | _, _ => false
  end.
Fixpoint hlist_eqb (l m : list hinstr) : bool :=
  match l, m with
  | [], [] => true
  | i :: l', j :: m' => hinstr_eqb i j && hlist_eqb l' m'
  | _, _ => false
  end.
(* byte-string key on one level *)
Definition map_bytes_key : list hinstr * vop :=
  ((key_bytes "t0" "t1" "t2" (VVar "k0") ++ map_word "t3" "t4" "t5" (VVar "p0") (VVar "t2"))%list, VVar "t5").
