(* C10: override_accept_iff -- the override allocator accepts exactly the files that are complete,
   in range and pairwise disjoint (declarative walk [accept_spec]), and then assigns position = file slot. *)
From Coq Require Import ZArith Bool List String Lia ZifyBool.
From Verif Require Import Base.PyInt C10.GenAlloc C10.Alloc C10.AllocProofs.
Import ListNotations.
Open Scope Z_scope.

Definition rdisj (a n b m : Z) : Prop := a + n <= b \/ b + m <= a.
Definition rin (a n : Z) : Prop := 0 <= a /\ a + n <= TWO256.

(* Declarative acceptance.  [granted]: the non-empty ranges granted so far; [lg]: the lock range has
   been granted.  Every variable must have an entry (complete), each non-empty range must lie in
   [0, 2^256) and be disjoint from every range granted before (so all are pairwise disjoint); the lock
   range [s, s+KEY_SIZE) is required (once) iff the lock lives in storage and a module is nonreentrant. *)
Fixpoint accept_spec (lis : bool) (ov : ovr) (nrslot : option Z) (granted : list (Z * Z)) (lg : bool) (rs : list req) : Prop :=
  match rs with
  | [] => True
  | RLock :: rs' =>
      if negb lis then accept_spec lis ov nrslot granted lg rs'
      else match nrslot with
           | None => False
           | Some s =>
               if lg then accept_spec lis ov nrslot granted lg rs'
               else rin s KEY_SIZE /\ Forall (fun g => rdisj s KEY_SIZE (fst g) (snd g)) granted /\
                    accept_spec lis ov nrslot ((s, KEY_SIZE) :: granted) true rs'
           end
  | RVar p n :: rs' =>
      match ovr_get ov p with
      | None => False
      | Some s =>
          if n <=? 0 then accept_spec lis ov nrslot granted lg rs'
          else rin s n /\ Forall (fun g => rdisj s n (fst g) (snd g)) granted /\
               accept_spec lis ov nrslot ((s, n) :: granted) lg rs'
      end
  end.

(* positions assigned on acceptance: the file's slot for every storage variable, in order *)
Fixpoint spec_positions (ov : ovr) (rs : list req) : list (path * Z) :=
  match rs with
  | [] => []
  | RLock :: rs' => spec_positions ov rs'
  | RVar p _ :: rs' => match ovr_get ov p with Some s => (p, s) :: spec_positions ov rs' | None => spec_positions ov rs' end
  end.

Definition iv_b (x : Z * Z * rname) := fst (fst x).
Definition iv_m (x : Z * Z * rname) := snd (fst x).
Definition iv_n (x : Z * Z * rname) := snd x.

Record inv (nrslot : option Z) (io : iocc) (granted : list (Z * Z)) (lg : bool) : Prop := {
  i_map : map (fun x => (iv_b x, iv_m x)) io = granted;
  i_pos : Forall (fun x => 0 < iv_m x) io;
  i_dis : ForallOrdPairs (fun x y => rdisj (iv_b x) (iv_m x) (iv_b y) (iv_m y)) io;
  i_lock : forall x, In x io -> iv_n x = None -> nrslot = Some (iv_b x) /\ iv_m x = KEY_SIZE /\ lg = true;
  i_lg : lg = true -> exists s, nrslot = Some s /\ In (s, KEY_SIZE, None) io
}.

Lemma iocc_get_in : forall io x s,
  Forall (fun x => 0 < iv_m x) io ->
  ForallOrdPairs (fun x y => rdisj (iv_b x) (iv_m x) (iv_b y) (iv_m y)) io ->
  In x io -> iv_b x <= s < iv_b x + iv_m x -> iocc_get io s = Some (iv_n x).
Proof.
  induction io as [|[[b m] y] io IH]; intros x s P D I R; [contradiction|].
  cbn [iocc_get]. inversion P; subst. inversion D; subst. destruct I as [<-|I].
  - unfold iv_b, iv_m, iv_n in *. cbn in *. replace ((b <=? s) && (s <? b + m)) with true by lia. reflexivity.
  - rewrite Forall_forall in H3. specialize (H3 x I). unfold rdisj, iv_b, iv_m in H3. cbn in H3.
    unfold iv_b, iv_m in R. replace ((b <=? s) && (s <? b + m)) with false by lia. apply IH; auto.
Qed.

Lemma iocc_get_some : forall io s y, iocc_get io s = Some y ->
  exists x, In x io /\ iv_n x = y /\ iv_b x <= s < iv_b x + iv_m x.
Proof.
  induction io as [|[[b m] y0] io IH]; intros s y G; cbn [iocc_get] in G; [discriminate|].
  destruct ((b <=? s) && (s <? b + m)) eqn:E.
  - inversion G; subst. exists (b, m, y). split; [left; reflexivity|]. unfold iv_n, iv_b, iv_m. cbn. split; [reflexivity|lia].
  - destruct (IH s y G) as [x [I R]]. exists x. split; [right; auto|auto].
Qed.

Lemma no_overlap_iff : forall io a n, 0 < n -> Forall (fun x => 0 < iv_m x) io ->
  existsb (fun '(b, m, _) => overlaps a n b m) io = false <->
  Forall (fun g => rdisj a n (fst g) (snd g)) (map (fun x => (iv_b x, iv_m x)) io).
Proof.
  induction io as [|[[b m] y] io IH]; intros a n Hn P; cbn [existsb map].
  - split; constructor.
  - inversion P; subst. unfold iv_m in H1. cbn in H1. rewrite orb_false_iff, (IH a n Hn H2). unfold overlaps. split.
    + intros [O R]. constructor; [|exact R]. unfold rdisj, iv_b, iv_m. cbn. lia.
    + intros F. inversion F; subst. unfold rdisj, iv_b, iv_m in H3. cbn in H3. split; [lia|auto].
Qed.

Lemma reserve_interval_iff : forall io a n nm, 0 < n -> Forall (fun x => 0 < iv_m x) io ->
  (reserve_interval io a n nm = Ok ((a, n, nm) :: io) /\ rin a n /\
     Forall (fun g => rdisj a n (fst g) (snd g)) (map (fun x => (iv_b x, iv_m x)) io)) \/
  (reserve_interval io a n nm = Err Raised /\
     ~ (rin a n /\ Forall (fun g => rdisj a n (fst g) (snd g)) (map (fun x => (iv_b x, iv_m x)) io))).
Proof.
  intros io a n nm Hn P. unfold reserve_interval. replace (n <=? 0) with false by lia.
  destruct ((a <? 0) || (a + n >? TWO256)) eqn:B.
  - right. split; [reflexivity|]. unfold rin. intros [R _]. lia.
  - destruct (existsb (fun '(b, m, _) => overlaps a n b m) io) eqn:O.
    + right. split; [reflexivity|]. intros [_ F]. apply (no_overlap_iff io a n Hn P) in F. congruence.
    + left. split; [reflexivity|]. split; [unfold rin; lia|]. apply (no_overlap_iff io a n Hn P). exact O.
Qed.

Lemma key_size_pos : 0 < KEY_SIZE.
Proof. reflexivity. Qed.

Lemma inv_add : forall nrslot io granted lg a n nm lg',
  inv nrslot io granted lg -> 0 < n ->
  Forall (fun g => rdisj a n (fst g) (snd g)) (map (fun x => (iv_b x, iv_m x)) io) ->
  (nm = None -> nrslot = Some a /\ n = KEY_SIZE /\ lg' = true) ->
  (lg = true -> lg' = true) -> (lg' = true -> lg = true \/ nm = None) ->
  inv nrslot ((a, n, nm) :: io) ((a, n) :: granted) lg'.
Proof.
  intros nrslot io granted lg a n nm lg' I Hn F Hnm Hlg Hlg'. destruct I. constructor.
  - cbn [map]. unfold iv_b, iv_m at 1 2. cbn. f_equal. exact i_map0.
  - constructor; [exact Hn|exact i_pos0].
  - constructor; [|exact i_dis0]. rewrite Forall_map in F. exact F.
  - intros x [<-|I] N.
    + unfold iv_n in N. cbn in N. unfold iv_b, iv_m. cbn. apply Hnm. exact N.
    + destruct (i_lock0 x I N) as [A [B C]]. split; [auto|]. split; [auto|]. apply Hlg. exact C.
  - intros L. destruct (Hlg' L) as [L0|N].
    + destruct (i_lg0 L0) as [s [E I]]. exists s. split; [auto|right; auto].
    + subst nm. destruct (Hnm eq_refl) as [A [B _]]. subst n. exists a. split; [auto|left; reflexivity].
Qed.

Lemma fold_interval_iff : forall lis ov nrslot rs io pos granted lg,
  inv nrslot io granted lg ->
  (accept_spec lis ov nrslot granted lg rs <->
   exists io', fold_res (do_req_interval lis ov nrslot) (io, pos) rs = Ok (io', pos ++ spec_positions ov rs)) /\
  (forall st, fold_res (do_req_interval lis ov nrslot) (io, pos) rs = Ok st -> snd st = pos ++ spec_positions ov rs).
Proof.
  induction rs as [|r rs IH]; intros io pos granted lg I.
  - cbn. rewrite app_nil_r. split; [split; [intros _; eexists; reflexivity|auto]|]. intros st E. inversion E. reflexivity.
  - destruct r as [|p n]; cbn [fold_res do_req_interval accept_spec spec_positions].
    + destruct (negb lis); [cbn [bind]; apply IH; exact I|].
      destruct nrslot as [s|]; [|cbn [bind]; split; [split; [contradiction|intros [? ?]; discriminate]|intros; discriminate]].
      destruct lg.
      * (* already granted *)
        destruct (i_lg _ _ _ _ I eq_refl) as [s0 [E0 In0]]. inversion E0; subst s0.
        assert (G : iocc_get io s = Some None).
        { apply (iocc_get_in io (s, KEY_SIZE, None) s (i_pos _ _ _ _ I) (i_dis _ _ _ _ I) In0).
          unfold iv_b, iv_m. cbn. pose proof key_size_pos. lia. }
        rewrite G. cbn [bind]. apply IH. exact I.
      * assert (G : iocc_get io s <> Some None).
        { intros G. destruct (iocc_get_some _ _ _ G) as [x [Ix [Nx _]]].
          destruct (i_lock _ _ _ _ I x Ix Nx) as [_ [_ C]]. discriminate. }
        assert (E : (match iocc_get io s with
                     | Some None => Ok (io, pos)
                     | _ => o' <- reserve_interval io s KEY_SIZE None ;; Ok (o', pos)
                     end) = (o' <- reserve_interval io s KEY_SIZE None ;; Ok (o', pos))).
        { destruct (iocc_get io s) as [[q|]|]; try reflexivity. exfalso. apply G. reflexivity. }
        rewrite E. clear E.
        destruct (reserve_interval_iff io s KEY_SIZE None key_size_pos (i_pos _ _ _ _ I)) as [[R [Rin F]]|[R NF]]; rewrite R; cbn [bind].
        -- rewrite (i_map _ _ _ _ I) in F.
           assert (I' : inv (Some s) ((s, KEY_SIZE, None) :: io) ((s, KEY_SIZE) :: granted) true).
           { eapply inv_add; eauto using key_size_pos. rewrite (i_map _ _ _ _ I). exact F. }
           destruct (IH ((s, KEY_SIZE, None) :: io) pos _ _ I') as [Iff Pos]. split; [|exact Pos].
           rewrite <- Iff. tauto.
        -- rewrite (i_map _ _ _ _ I) in NF. split; [split; [tauto|intros [? ?]; discriminate]|intros; discriminate].
    + destruct (ovr_get ov p) as [s|]; [|cbn [bind]; split; [split; [contradiction|intros [? ?]; discriminate]|intros; discriminate]].
      destruct (n <=? 0) eqn:N0.
      * unfold reserve_interval. rewrite N0. cbn [bind].
        destruct (IH io (pos ++ [(p, s)]) granted lg I) as [Iff Pos]. rewrite <- app_assoc in Iff, Pos. cbn [app] in Iff, Pos.
        split; auto.
      * assert (Hn : 0 < n) by lia.
        destruct (reserve_interval_iff io s n (Some p) Hn (i_pos _ _ _ _ I)) as [[R [Rin F]]|[R NF]]; rewrite R; cbn [bind].
        -- rewrite (i_map _ _ _ _ I) in F.
           assert (I' : inv nrslot ((s, n, Some p) :: io) ((s, n) :: granted) lg).
           { apply (inv_add nrslot io granted lg s n (Some p) lg I Hn); [rewrite (i_map _ _ _ _ I); exact F | discriminate | auto | intros L; left; exact L]. }
           destruct (IH ((s, n, Some p) :: io) (pos ++ [(p, s)]) _ _ I') as [Iff Pos].
           rewrite <- app_assoc in Iff, Pos. cbn [app] in Iff, Pos. split; [|exact Pos].
           rewrite <- Iff. tauto.
        -- rewrite (i_map _ _ _ _ I) in NF. split; [split; [tauto|intros [? ?]; discriminate]|intros; discriminate].
Qed.

Lemma bind_snd_ok : forall A B (x : res (A * B)) p, (st <- x ;; Ok (snd st)) = Ok p -> exists a, x = Ok (a, p).
Proof. intros A B [[a b]|e] p H; cbn in H; [inversion H; eauto|discriminate]. Qed.

Theorem override_accept_iff_l : forall lis ov nrslot rs,
  (accept_spec lis ov nrslot [] false rs <-> override_interval lis ov nrslot rs = Ok (spec_positions ov rs)) /\
  (forall pos, override_interval lis ov nrslot rs = Ok pos -> pos = spec_positions ov rs).
Proof.
  intros. unfold override_interval.
  assert (I : inv nrslot [] [] false).
  { constructor; try constructor; try contradiction. discriminate. }
  destruct (fold_interval_iff lis ov nrslot rs [] [] [] false I) as [Iff Pos]. cbn [app] in *. split.
  - rewrite Iff. split.
    + intros [io' E]. rewrite E. reflexivity.
    + intros E. apply bind_snd_ok in E. destruct E as [io' E]. exists io'. exact E.
  - intros pos E. apply bind_snd_ok in E. destruct E as [a E]. apply Pos in E. cbn [snd] in E. exact E.
Qed.

(* same statement for the slot-by-slot dict allocator (the implementation before df51f72) *)
Theorem override_accept_iff_perslot_l : forall lis ov nrslot rs,
  (accept_spec lis ov nrslot [] false rs <-> override_perslot lis ov nrslot rs = Ok (spec_positions ov rs)) /\
  (forall pos, override_perslot lis ov nrslot rs = Ok pos -> pos = spec_positions ov rs).
Proof. intros. rewrite override_models_agree. apply override_accept_iff_l. Qed.
