(* C10 (f), venom front end: the instructions vyper/codegen_venom/expr.py emits for one subscript /
   struct-member step (Expr._lower_array_subscript incl. bounds check, Expr._lower_struct_field), as a
   parametric C03/VSL template, and the theorem that the resulting pointer is
   base + ws * (Layout.step_child offset)  (mod 2^256), reverting iff the index is out of bounds.
   Params: p0 = base pointer, p1 = index; ld0 = the DynArray length loaded from the base. *)
From Coq Require Import ZArith Bool List String Ascii Lia ZifyBool.
From Verif Require Import Base.Word256 C03.LIR C03.VSL C10.Layout C10.Paths C04.Checks C10.AddrTemplates.
Import ListNotations.
Open Scope Z_scope.

Local Open Scope string_scope.
Definition vaddr_step (ws : Z) (signed : bool) (t : ty) (s : step) : option (vtemplate * ty) :=
  match t, s with
  | TSArr e n, SIdx _ =>
      let a := if signed then "t5" else "t4" in let b := if signed then "t6" else "t5" in
      Some ((vidx_check signed (VLit n) ++
             [V2 a OMul (VLit (ws * size_words e)) (VVar "p1"); V2 b OAdd (VVar a) (VVar "p0")])%list, VVar b, e)
  | TDArr e n, SIdx _ =>
      let d := if signed then "t5" else "t4" in let a := if signed then "t6" else "t5" in let b := if signed then "t7" else "t6" in
      Some ((vidx_check signed (VVar "ld0") ++
             [V2 d OAdd (VLit ws) (VVar "p0"); V2 a OMul (VLit (ws * size_words e)) (VVar "p1"); V2 b OAdd (VVar a) (VVar d)])%list, VVar b, e)
  | TStruct ms, SField j =>
      match nth_error ms j with
      | Some m => Some (([V2 "t0" OAdd (VLit (ws * fields_before ms j)) (VVar "p0")], VVar "t0"), m)
      | None => None
      end
  | _, _ => None
  end.
Local Close Scope string_scope.

Ltac vs :=
  cbn [vsl vstep vval lookup String.eqb Ascii.eqb Bool.eqb app].

Lemma idx_unsigned : forall signed x, 0 <= x < W -> 0 <= idxv signed x -> idxv signed x = x.
Proof.
  intros signed x R P. unfold idxv in *. destruct signed; [|reflexivity]. unfold to_signed in *.
  pose proof HALF_is. pose proof W_is. destruct (x <? HALF) eqn:Q; lia.
Qed.

Lemma wadd_mul : forall p x s, w_add p (w_mul x (wrap s)) = wrap (p + x * s).
Proof.
  intros. unfold w_add, w_mul. fold (wrap (x * wrap s)). fold (wrap (p + wrap (x * wrap s))).
  rewrite wrap_mul_r, wrap_add_r. reflexivity.
Qed.
Lemma wadd_lit : forall p s, w_add p (wrap s) = wrap (p + s).
Proof. intros. unfold w_add. fold (wrap (p + wrap s)). apply wrap_add_r. Qed.
Lemma wadd_wadd_mul : forall p a x s, w_add (w_add p (wrap a)) (w_mul x (wrap s)) = wrap (p + a + x * s).
Proof.
  intros. pose proof W_is. unfold w_add, w_mul, wrap.
  rewrite Z.mul_mod_idemp_r by lia. rewrite Z.add_mod_idemp_r by lia. rewrite Z.add_mod_idemp_r by lia.
  rewrite Z.add_mod_idemp_l by lia. reflexivity.
Qed.

Opaque w_add w_mul wrap.
Theorem vaddr_step_correct : forall ws signed t s e pv x l tpl c o c',
  (ws = 1 \/ ws = 32) ->
  vaddr_step ws signed t s = Some (tpl, c) ->
  lookup e "p0"%string = Some pv -> 0 <= pv < W ->
  lookup e "p1"%string = Some x -> 0 <= x < W ->
  lookup e "ld0"%string = Some l -> 0 <= l < W ->
  (match t with TSArr _ n => 0 <= n < W | _ => True end) ->
  step_child t (match s with SIdx _ => SIdx (idxv signed x) | s' => s' end) = Some (o, c') ->
  (match t with TDArr _ _ => idxv signed x < l | _ => True end) ->
  c = c' /\ vrun e tpl = Val (wrap (pv + ws * o)).
Proof.
  intros ws signed t s e pv x l tpl c o c' Hws A Hp Rp Hx Rx Hl Rl Rn S Il. pose proof W_is. pose proof HALF_is.
  destruct t; destruct s; cbn [vaddr_step step_child] in A, S; try discriminate.
  - (* static array *)
    destruct ((0 <=? idxv signed x) && (idxv signed x <? n)) eqn:B; [|discriminate]. inversion S; subst. inversion A; subst.
    split; [reflexivity|]. assert (Ex : idxv signed x = x) by (apply idx_unsigned; auto; lia). rewrite Ex in *.
    unfold vrun. cbn [fst snd]. destruct signed; unfold vidx_check; vs; rewrite ?Hx, ?Hp; vs; rewrite ?Hx, ?Hp; vs;
      change (wrap 0) with 0; rewrite (wrap_small n Rn);
      unfold ev1, ev2, w_iszero, w_or, w_slt, w_lt; try replace (to_signed 0) with 0 by reflexivity;
      unfold idxv, to_signed in Ex; unfold to_signed, b2z;
      repeat match goal with |- context [?a <? ?b] => destruct (Z.ltb_spec a b) end; cbn; try lia;
      repeat (progress (vs; rewrite ?Hx, ?Hp)); f_equal; rewrite wadd_mul; f_equal; ring.
  - (* dynamic array *)
    destruct ((0 <=? idxv signed x) && (idxv signed x <? n)) eqn:B; [|discriminate]. inversion S; subst. inversion A; subst.
    split; [reflexivity|]. assert (Ex : idxv signed x = x) by (apply idx_unsigned; auto; lia). rewrite Ex in *.
    unfold vrun. cbn [fst snd]. destruct signed; unfold vidx_check; vs; rewrite ?Hx, ?Hp, ?Hl; vs; rewrite ?Hx, ?Hp, ?Hl; vs;
      change (wrap 0) with 0;
      unfold ev1, ev2, w_iszero, w_or, w_slt, w_lt; try replace (to_signed 0) with 0 by reflexivity;
      unfold idxv, to_signed in Ex; unfold to_signed, b2z;
      repeat match goal with |- context [?a <? ?b] => destruct (Z.ltb_spec a b) end; cbn; try lia;
      repeat (progress (vs; rewrite ?Hx, ?Hp, ?Hl)); f_equal; rewrite wadd_wadd_mul; f_equal; ring.
  - (* struct member *)
    destruct (nth_error ms k) eqn:N; [|discriminate]. inversion S; subst. inversion A; subst. split; [reflexivity|].
    unfold vrun. cbn [fst snd]. vs. rewrite Hp. vs. f_equal. unfold ev2. apply wadd_lit.
Qed.
Transparent w_add w_mul wrap.
