(* C10 round 4: storage layout export / override round trip on the model.
   If  allocate lockloc ds = Ok (slot, es)  then feeding the exported storage layout back as an override file
   (every storage variable at its exported slot, the lock key at its exported slot) is accepted by
   allocate_override and reproduces exactly the same layout: the same storage positions, and the same
   transient / immutables entries (those are always placed by the simple allocators).
       layout_override (layout_export m) == layout m *)
From Coq Require Import ZArith Bool List String Lia ZifyBool.
From Verif Require Import Base.PyInt C10.GenAlloc C10.Alloc C10.AllocProofs C10.OverrideProofs.
Import ListNotations.
Open Scope Z_scope.

Definition is_st (l : loc) : bool := loc_eqb l LStorage.
Definition st_entries (es : list entry) : list entry := filter (fun e => is_st (e_loc e)) es.
Definition ns_entries (es : list entry) : list entry := filter (fun e => negb (is_st (e_loc e))) es.
(* the override file derived from an export *)
Definition export_as_override (es : list entry) : ovr := map (fun e => (e_path e, e_off e)) (st_entries es).

(* ---------- requests vs flattened declarations ---------- *)
Fixpoint vars_of_reqs (rs : list req) : list (path * Z) :=
  match rs with [] => [] | RLock :: r => vars_of_reqs r | RVar p n :: r => (p, n) :: vars_of_reqs r end.

Lemma vars_of_reqs_app : forall a b, vars_of_reqs (a ++ b) = vars_of_reqs a ++ vars_of_reqs b.
Proof. induction a as [|[|p n] a IH]; intros b; cbn; [reflexivity|apply IH|rewrite IH; reflexivity]. Qed.

Definition st_vars (vs : list (path * loc * Z)) : list (path * Z) :=
  map (fun v => (fst (fst v), snd v)) (filter (fun v => is_st (snd (fst v))) vs).

Lemma st_vars_app : forall a b, st_vars (a ++ b) = st_vars a ++ st_vars b.
Proof. intros. unfold st_vars. rewrite filter_app, map_app. reflexivity. Qed.

Lemma reqs_decl_init : forall p al nr body,
  reqs_decl p (DInit al nr body) = (if nr then [RLock] else []) ++ reqs_decls (p ++ [al]) body.
Proof. intros. cbn [reqs_decl]. f_equal. induction body; cbn [reqs_decls]; [reflexivity|]. rewrite IHbody. reflexivity. Qed.

Lemma reqs_vars_decl : forall d p, vars_of_reqs (reqs_decl p d) = st_vars (flatten_decl p d).
Proof.
  induction d using decl_ind'; intros p.
  - cbn [reqs_decl flatten_decl]. unfold st_vars, is_st. cbn [filter fst snd]. destruct (loc_eqb l LStorage); reflexivity.
  - rewrite reqs_decl_init, flatten_decl_init, vars_of_reqs_app.
    assert (E : vars_of_reqs (if nr then [RLock] else []) = []) by (destruct nr; reflexivity). rewrite E. cbn [app].
    generalize (p ++ [al]). intros q. induction H; cbn [reqs_decls flatten]; [reflexivity|].
    rewrite vars_of_reqs_app, st_vars_app, H, IHForall. reflexivity.
Qed.

Lemma reqs_vars : forall ds p, vars_of_reqs (reqs_decls p ds) = st_vars (flatten p ds).
Proof.
  induction ds; intros p; cbn [reqs_decls flatten]; [reflexivity|].
  rewrite vars_of_reqs_app, st_vars_app, reqs_vars_decl, IHds. reflexivity.
Qed.

(* ---------- acceptance of a sorted, in-range, complete file ---------- *)
(* storage entries in allocation order: (path, offset, size); each starts at or above the end of the previous *)
Fixpoint schain (hi : Z) (ses : list (path * Z * Z)) : Prop :=
  match ses with
  | [] => hi <= TWO256
  | x :: r => hi <= snd (fst x) /\ 0 <= snd x /\ schain (snd (fst x) + snd x) r
  end.

Lemma schain_le : forall ses hi, schain hi ses -> hi <= TWO256.
Proof. induction ses as [|[[p off] sz] r IH]; cbn; intros hi H; [lia|]. destruct H as [A [B C]]. specialize (IH _ C). lia. Qed.

Lemma accept_sorted : forall (lis : bool) (ov : ovr) (rs : list req) (ses : list (path * Z * Z)) (granted : list (Z * Z)) (lg : bool) (hi : Z),
  let lo := if lis then KEY_SIZE else 0 in
  vars_of_reqs rs = map (fun x => (fst (fst x), snd x)) ses ->
  (forall p off sz, In (p, off, sz) ses -> ovr_get ov p = Some off) ->
  schain hi ses -> lo <= hi ->
  Forall (fun g => fst g + snd g <= hi /\ (lo <= fst g \/ (lg = true /\ g = (0, KEY_SIZE)))) granted ->
  accept_spec lis ov (Some 0) granted lg rs /\ spec_positions ov rs = map (fun x => (fst (fst x), snd (fst x))) ses.
Proof.
  intros lis ov rs. induction rs as [|[|p n] rs IH]; intros ses granted lg hi lo V G C Lo Gr.
  - destruct ses; [|discriminate]. cbn. auto.
  - (* lock *)
    cbn [vars_of_reqs] in V. cbn [accept_spec spec_positions]. destruct lis; cbn [negb].
    + destruct lg.
      * apply (IH ses granted true hi); auto.
      * assert (K : KEY_SIZE = 1) by reflexivity.
        destruct (IH ses ((0, KEY_SIZE) :: granted) true hi V G C Lo) as [A P].
        { constructor; [cbn; split; [unfold lo in Lo; lia|right; auto]|].
          rewrite Forall_forall in *. intros g Hg. destruct (Gr g Hg) as [E [L|[F _]]]; [|discriminate]. split; [auto|left; auto]. }
        split; [|exact P]. split; [unfold rin, TWO256; lia|]. split; [|exact A].
        rewrite Forall_forall in *. intros g Hg. destruct (Gr g Hg) as [E [L|[F _]]]; [|discriminate].
        unfold rdisj. unfold lo in L. lia.
    + apply (IH ses granted lg hi); auto.
  - (* variable *)
    cbn [vars_of_reqs] in V. destruct ses as [|[[p' off] sz] ses]; [discriminate|]. cbn [map fst snd] in V. injection V as E1 E2 H1. subst p' sz.
    cbn [schain] in C. destruct C as [C1 [C2 C3]]. cbn [fst snd] in C1, C2, C3.
    pose proof (G p off n (or_introl eq_refl)) as Gp. cbn [accept_spec spec_positions]. rewrite Gp.
    assert (G' : forall p0 off0 sz0, In (p0, off0, sz0) ses -> ovr_get ov p0 = Some off0) by (intros; eapply G; right; eauto).
    destruct (n <=? 0) eqn:N0.
    + assert (n = 0) by lia. subst n. rewrite Z.add_0_r in C3.
      destruct (IH ses granted lg off H1 G' C3 ltac:(lia)) as [A P].
      { rewrite Forall_forall in *. intros g Hg. destruct (Gr g Hg) as [E R]. split; [lia|auto]. }
      split; [exact A|]. cbn [map fst snd]. f_equal. exact P.
    + destruct (IH ses ((off, n) :: granted) lg (off + n) H1 G' C3 ltac:(lia)) as [A P].
      { constructor; [cbn; split; [lia|left; lia]|].
        rewrite Forall_forall in *. intros g Hg. destruct (Gr g Hg) as [E R]. split; [lia|auto]. }
      split.
      * split; [pose proof (schain_le _ _ C3); unfold rin; unfold lo in Lo; destruct lis; unfold KEY_SIZE in *; lia|].
        split; [|exact A]. rewrite Forall_forall in *. intros g Hg. destruct (Gr g Hg) as [E R]. unfold rdisj. lia.
      * cbn [map fst snd]. f_equal. exact P.
Qed.

(* ---------- what the simple allocators give ---------- *)
Lemma ovr_is_pos : forall m p, ovr_get m p = pos_get m p.
Proof. induction m as [|[q v] m IH]; intros p; cbn; [reflexivity|]. rewrite IH. reflexivity. Qed.

Definition triple (e : entry) : path * Z * Z := (e_path e, e_off e, e_size e).

Lemma max_storage_is : MAX_STORAGE = TWO256. Proof. reflexivity. Qed.

Lemma alloc_flat_chain : forall vs s es s',
  Forall (fun v => 0 <= snd v) vs -> get s LStorage <= TWO256 -> alloc_flat false vs s = Ok (es, s') ->
  schain (get s LStorage) (map triple (st_entries es)).
Proof.
  induction vs as [|[[p l] sz] vs IH]; intros s es s' NN B E; cbn [alloc_flat andb] in E.
  - inversion E; subst. cbn. exact B.
  - inversion NN as [|? ? Hsz NN']; subst. cbn in Hsz.
    destruct (alloc_in s l sz) as [[off s1]|] eqn:A; cbn in E; [|discriminate].
    destruct (alloc_flat false vs s1) as [[es1 s2]|] eqn:F; cbn in E; [|discriminate]. inversion E; subst. clear E.
    apply alloc_in_spec in A. destruct A as [-> [-> Lt]].
    unfold st_entries. cbn [filter e_loc]. unfold is_st. destruct (loc_eqb l LStorage) eqn:Ls.
    + apply loc_eqb_eq in Ls. subst l. cbn [map schain]. unfold triple at 1 2 3 4. cbn [fst snd e_path e_off e_size].
      split; [lia|]. split; [exact Hsz|].
      assert (B' : get (set s LStorage (get s LStorage + sz)) LStorage <= TWO256).
      { rewrite get_set_same. change (maxof LStorage) with MAX_STORAGE in Lt. rewrite max_storage_is in Lt. lia. }
      pose proof (IH _ _ _ NN' B' F) as C. rewrite get_set_same in C. exact C.
    + assert (N : l <> LStorage) by (intros ->; cbn in Ls; discriminate).
      assert (B' : get (set s l (get s l + sz)) LStorage <= TWO256) by (rewrite get_set_other by auto; exact B).
      pose proof (IH _ _ _ NN' B' F) as C. rewrite get_set_other in C by auto. exact C.
Qed.

(* the run with no_storage=true gives exactly the non-storage entries of the normal run *)
Definition same_ns (a b : astate) : Prop := get a LTransient = get b LTransient /\ get a LCode = get b LCode.

Lemma alloc_flat_nostorage : forall vs s1 s2 es s1',
  same_ns s1 s2 -> alloc_flat false vs s1 = Ok (es, s1') ->
  exists s2', alloc_flat true vs s2 = Ok (ns_entries es, s2') /\ same_ns s1' s2'.
Proof.
  induction vs as [|[[p l] sz] vs IH]; intros s1 s2 es s1' S E; cbn [alloc_flat andb] in *.
  - inversion E; subst. exists s2. split; [reflexivity|exact S].
  - destruct (alloc_in s1 l sz) as [[off s1a]|] eqn:A; cbn in E; [|discriminate].
    destruct (alloc_flat false vs s1a) as [[es1 s1b]|] eqn:F; cbn in E; [|discriminate]. inversion E; subst. clear E.
    apply alloc_in_spec in A. destruct A as [-> [-> Lt]].
    unfold ns_entries. cbn [filter e_loc]. unfold is_st. destruct (loc_eqb l LStorage) eqn:Ls; cbn [negb].
    + apply loc_eqb_eq in Ls. subst l.
      destruct (IH (set s1 LStorage (get s1 LStorage + sz)) s2 es1 s1') as [s2' [R S']]; [destruct S as [S1 S2]; split; cbn; auto|exact F|].
      exists s2'. split; auto.
    + assert (N : l <> LStorage) by (intros ->; cbn in Ls; discriminate).
      assert (G : get s2 l = get s1 l) by (destruct S as [S1 S2]; destruct l; [congruence|auto|auto]).
      assert (A2 : alloc_in s2 l sz = Ok (get s1 l, set s2 l (get s1 l + sz))).
      { apply alloc_in_spec. rewrite G. auto. }
      rewrite A2. cbn [bind].
      destruct (IH (set s1 l (get s1 l + sz)) (set s2 l (get s1 l + sz)) es1 s1') as [s2' [R S']]; [|exact F|].
      { destruct S as [S1 S2]. destruct l; [congruence| |]; split; cbn; auto. }
      exists s2'. rewrite R. cbn [bind]. split; [reflexivity|exact S'].
Qed.

Lemma st_entries_vars : forall vs s es s', alloc_flat false vs s = Ok (es, s') ->
  map (fun x => (fst (fst x), snd x)) (map triple (st_entries es)) = st_vars vs.
Proof.
  induction vs as [|[[p l] sz] vs IH]; intros s es s' E; cbn [alloc_flat andb] in E.
  - inversion E; subst. reflexivity.
  - destruct (alloc_in s l sz) as [[off s1]|] eqn:A; cbn in E; [|discriminate].
    destruct (alloc_flat false vs s1) as [[es1 s2]|] eqn:F; cbn in E; [|discriminate]. inversion E; subst.
    unfold st_entries, st_vars, is_st. cbn [filter e_loc fst snd]. destruct (loc_eqb l LStorage); cbn [map triple fst snd e_path e_size].
    + f_equal. apply (IH _ _ _ F).
    + apply (IH _ _ _ F).
Qed.

Lemma override_file_complete : forall es, NoDup (map e_path es) ->
  forall p off sz, In (p, off, sz) (map triple (st_entries es)) -> ovr_get (export_as_override es) p = Some off.
Proof.
  intros es ND p off sz I. apply in_map_iff in I. destruct I as [e [T Ie]]. unfold triple in T. inversion T; subst.
  unfold export_as_override. rewrite ovr_is_pos. fold (positions_of (st_entries es)).
  apply pos_get_nodup; [|exact Ie].
  clear -ND. unfold st_entries. induction es as [|a es IH]; cbn; [constructor|]. inversion ND; subst.
  destruct (is_st (e_loc a)); [|auto]. cbn. constructor; [|auto].
  intros I. apply H1. apply in_map_iff in I. destruct I as [x [E Ix]]. apply filter_In in Ix. apply in_map_iff. exists x. tauto.
Qed.

Theorem export_override_roundtrip_l : forall lockloc nr ds slot es,
  sizes_nonneg ds -> NoDup (map (fun v => fst (fst v)) (flatten [] ds)) ->
  allocate lockloc ds = Ok (slot, es) ->
  allocate_override lockloc nr ds (export_as_override es) (Some slot) =
    Ok (ns_entries es, map (fun e => (e_path e, e_off e)) (st_entries es)).
Proof.
  intros lockloc nr ds slot es NN ND A.
  destruct (alloc_disjoint_l lockloc ds slot es NN A) as [Names [_ [_ [Slot0 _]]]]. subst slot.
  unfold allocate in A. unfold allocate_override.
  destruct (alloc_lock lockloc) as [[sl s]|] eqn:L; cbn [bind] in *; [|discriminate].
  rewrite alloc_tree_flat in *.
  destruct (alloc_flat false (flatten [] ds) s) as [[es' s2]|] eqn:F; cbn [bind] in A; [|discriminate]. inversion A; subst. clear A.
  destruct (alloc_flat_nostorage _ s s _ _ (conj eq_refl eq_refl) F) as [s2' [Fn _]]. rewrite Fn. cbn [bind].
  (* state after the lock *)
  assert (Ls : get s LStorage = if loc_eqb lockloc LStorage then KEY_SIZE else 0).
  { unfold alloc_lock in L. destruct (alloc_in init_state lockloc KEY_SIZE) as [[sl0 s0]|] eqn:AL; cbn [bind] in L; [|discriminate].
    destruct (sl0 =? startof lockloc); [|discriminate]. inversion L; subst. apply alloc_in_spec in AL. destruct AL as [_ [-> _]].
    destruct lockloc; reflexivity. }
  assert (NDe : NoDup (map e_path es)).
  { replace (map e_path es) with (map (fun v => fst (fst v)) (map (fun e => (e_path e, e_loc e, e_size e)) es)) by (rewrite map_map; reflexivity).
    rewrite Names. exact ND. }
  pose proof (alloc_flat_chain _ _ _ _ NN ltac:(rewrite Ls; destruct (loc_eqb lockloc LStorage); unfold KEY_SIZE, TWO256; lia) F) as Ch.
  assert (V : vars_of_reqs (reqs_module nr ds) = map (fun x => (fst (fst x), snd x)) (map triple (st_entries es))).
  { unfold reqs_module. rewrite vars_of_reqs_app, reqs_vars, (st_entries_vars _ _ _ _ F).
    destruct nr; reflexivity. }
  destruct (accept_sorted (loc_eqb lockloc LStorage) (export_as_override es) (reqs_module nr ds) (map triple (st_entries es)) [] false
              (get s LStorage) V (override_file_complete es NDe) Ch ltac:(rewrite Ls; lia) (Forall_nil _)) as [Acc Pos].
  apply (proj1 (override_accept_iff_l _ _ _ _)) in Acc. rewrite Acc. cbn [bind]. rewrite Pos, map_map. reflexivity.
Qed.
