(* C10/C04: proofs about the layout model: sizes positive and word-aligned, children inside
   parents, distinct non-nested paths address disjoint ranges. *)
From Coq Require Import ZArith Bool List String Lia ZifyBool.
From Verif Require Import C10.Layout.
Import ListNotations.
Open Scope Z_scope.
Ltac Zify.zify_post_hook ::= Z.to_euclidean_division_equations.

(* induction principle for the nested type *)
Section TyInd.
  Variable P : ty -> Prop.
  Hypothesis Hw : P TWord.
  Hypothesis Hb : forall n, P (TBytes n).
  Hypothesis Hs : forall t n, P t -> P (TSArr t n).
  Hypothesis Hd : forall t n, P t -> P (TDArr t n).
  Hypothesis Hst : forall ms, Forall P ms -> P (TStruct ms).
  Hypothesis Hm : forall v, P v -> P (TMap v).
  Fixpoint ty_ind' (t : ty) : P t :=
    match t with
    | TWord => Hw
    | TBytes n => Hb n
    | TSArr t n => Hs t n (ty_ind' t)
    | TDArr t n => Hd t n (ty_ind' t)
    | TStruct ms => Hst ms ((fix go (l : list ty) : Forall P l :=
                              match l with [] => Forall_nil P | m :: l' => Forall_cons m (ty_ind' m) (go l') end) ms)
    | TMap v => Hm v (ty_ind' v)
    end.
End TyInd.

Lemma ceil32_spec : forall x, ceil32 x mod 32 = 0 /\ x <= ceil32 x < x + 32.
Proof. intros x. unfold ceil32. destruct (x mod 32 =? 0) eqn:E; lia. Qed.

Lemma wf_struct_members : forall ms, fold_right (fun m acc => wf m /\ acc) True ms -> Forall wf ms.
Proof. induction ms; cbn; intros H; constructor; tauto. Qed.

Lemma size_bytes_words : forall t, size_bytes t = 32 * size_words t.
Proof.
  induction t using ty_ind'; cbn [size_bytes size_words]; try lia.
  - pose proof (ceil32_spec n). lia.
  - induction H; cbn [fold_right]; lia.
Qed.

Lemma wfb_wf : forall t, wfb t = true -> wf t.
Proof.
  induction t using ty_ind'; cbn [wfb wf]; intros E.
  - exact I.
  - lia.
  - apply andb_prop in E. destruct E as [E1 E2]. split; [auto|lia].
  - apply andb_prop in E. destruct E as [E1 E2]. split; [auto|lia].
  - apply andb_prop in E. destruct E as [Hn Hall]. split.
    + destruct ms; cbn in Hn; congruence.
    + clear Hn. induction H; cbn in *; [exact I|]. apply andb_prop in Hall. destruct Hall. split; auto.
  - auto.
Qed.

Lemma fold_size_nonneg : forall ms, Forall (fun m => 0 < size_words m) ms ->
  0 <= fold_right (fun m acc => size_words m + acc) 0 ms.
Proof. induction 1; cbn; lia. Qed.

Theorem size_positive_l : forall t, wf t -> 0 < size_words t.
Proof.
  induction t using ty_ind'; cbn [wf size_words]; intros W; try lia.
  - pose proof (ceil32_spec n). lia.
  - destruct W as [W Hn]. specialize (IHt W). nia.
  - destruct W as [W Hn]. specialize (IHt W). nia.
  - destruct W as [Hne W]. apply wf_struct_members in W.
    assert (Forall (fun m => 0 < size_words m) ms).
    { clear Hne. induction H; inversion W; subst; constructor; auto. }
    destruct ms as [|m ms']; [congruence|]. inversion H0; subst. cbn.
    pose proof (fold_size_nonneg ms' H4). lia.
Qed.

Lemma fields_before_bound : forall ms k m, Forall (fun m => 0 < size_words m) ms ->
  nth_error ms k = Some m ->
  0 <= fields_before ms k /\
  fields_before ms k + size_words m <= fold_right (fun m acc => size_words m + acc) 0 ms.
Proof.
  induction ms; intros k m F E; destruct k; cbn in *; try discriminate.
  - inversion E; subst. inversion F; subst. pose proof (fold_size_nonneg ms H2). lia.
  - inversion F; subst. specialize (IHms k m H2 E). lia.
Qed.

Lemma fields_before_disjoint : forall ms j k a b, Forall (fun m => 0 < size_words m) ms ->
  nth_error ms j = Some a -> nth_error ms k = Some b -> (j < k)%nat ->
  fields_before ms j + size_words a <= fields_before ms k.
Proof.
  induction ms; intros j k x y F Ej Ek Lt; destruct k; destruct j; cbn in *; try discriminate; try lia.
  - inversion Ej; subst. inversion F; subst.
    pose proof (fields_before_bound ms k y H2 Ek). lia.
  - inversion F; subst. assert (j < k)%nat by lia. specialize (IHms j k x y H2 Ej Ek H). lia.
Qed.

Lemma wf_members_pos : forall ms, wf (TStruct ms) -> Forall (fun m => 0 < size_words m) ms /\ Forall wf ms.
Proof.
  intros ms [_ W]. apply wf_struct_members in W. split; [|exact W].
  induction W; constructor; auto using size_positive_l.
Qed.

Ltac inj H := first [discriminate H | injection H; clear H; intros; subst].

(* one step stays inside the parent and leads to a well-formed child *)
Lemma step_in_parent : forall t s o c, wf t -> step_child t s = Some (o, c) ->
  wf c /\ 0 <= o /\ o + size_words c <= size_words t.
Proof.
  intros t s o c W E. destruct t; destruct s; cbn [step_child] in E; try discriminate.
  - (* Bytes, SLen *) inj E. cbn [wf size_words] in *. pose proof (ceil32_spec maxlen). lia.
  - destruct ((0 <=? w) && (w <? ceil32 maxlen / 32)) eqn:B; inj E. cbn [wf size_words]. lia.
  - destruct ((0 <=? i) && (i <? n)) eqn:B; inj E. cbn [wf size_words] in *. destruct W as [W Hn].
    pose proof (size_positive_l c W). split; [auto|]. nia.
  - destruct ((0 <=? i) && (i <? n)) eqn:B; inj E. cbn [wf size_words] in *. destruct W as [W Hn].
    pose proof (size_positive_l c W). split; [auto|]. nia.
  - inj E. cbn [wf size_words] in *. destruct W as [W Hn]. pose proof (size_positive_l t W). split; [exact I|]. nia.
  - destruct (nth_error ms k) eqn:N; inj E.
    destruct (wf_members_pos ms W) as [P Wm]. cbn [size_words].
    pose proof (fields_before_bound ms k c P N). split; [|lia].
    rewrite Forall_forall in Wm. apply Wm. eapply nth_error_In; eauto.
Qed.

Theorem elem_in_parent_l : forall p t o t', wf t -> resolve t p = Some (o, t') ->
  wf t' /\ 0 <= o /\ o + size_words t' <= size_words t.
Proof.
  induction p; intros t o t' W E; cbn in E.
  - inj E. split; [auto|lia].
  - destruct (step_child t a) as [[o1 c]|] eqn:S; [|discriminate].
    destruct (resolve c p) as [[o2 t2]|] eqn:R; [|discriminate]. inj E.
    destruct (step_in_parent _ _ _ _ W S) as [Wc [? ?]].
    destruct (IHp _ _ _ Wc R) as [? [? ?]]. split; [auto|lia].
Qed.

(* two different steps from the same parent lead to disjoint children *)
Lemma steps_disjoint : forall t a b oa ca ob cb, wf t -> a <> b ->
  step_child t a = Some (oa, ca) -> step_child t b = Some (ob, cb) ->
  oa + size_words ca <= ob \/ ob + size_words cb <= oa.
Proof.
  intros t a b oa ca ob cb W NE Ea Eb.
  destruct t; destruct a; destruct b; cbn [step_child] in Ea, Eb; try discriminate; try congruence.
  - (* Bytes: SLen vs SData *) inj Ea.
    destruct ((0 <=? w) && (w <? ceil32 maxlen / 32)) eqn:B; inj Eb. cbn [wf size_words]. lia.
  - destruct ((0 <=? w) && (w <? ceil32 maxlen / 32)) eqn:B; inj Ea; inj Eb. cbn [wf size_words]. lia.
  - destruct ((0 <=? w) && (w <? ceil32 maxlen / 32)) eqn:B; inj Ea.
    destruct ((0 <=? w0) && (w0 <? ceil32 maxlen / 32)) eqn:B0; inj Eb. cbn [wf size_words].
    assert (w <> w0) by congruence. lia.
  - (* SArr *) destruct ((0 <=? i) && (i <? n)) eqn:B; inj Ea.
    destruct ((0 <=? i0) && (i0 <? n)) eqn:B0; inj Eb.
    assert (i <> i0) by congruence. destruct W as [W _]. pose proof (size_positive_l cb W). nia.
  - (* DArr idx idx *) destruct ((0 <=? i) && (i <? n)) eqn:B; inj Ea.
    destruct ((0 <=? i0) && (i0 <? n)) eqn:B0; inj Eb.
    assert (i <> i0) by congruence. destruct W as [W _]. pose proof (size_positive_l cb W). nia.
  - (* idx vs len *) destruct ((0 <=? i) && (i <? n)) eqn:B; inj Ea; inj Eb.
    destruct W as [W _]. pose proof (size_positive_l ca W). cbn [wf size_words]. nia.
  - destruct ((0 <=? i) && (i <? n)) eqn:B; inj Ea; inj Eb.
    destruct W as [W _]. pose proof (size_positive_l cb W). cbn [wf size_words]. nia.
  - (* struct *) destruct (nth_error ms k) eqn:Na; inj Ea.
    destruct (nth_error ms k0) eqn:Nb; inj Eb.
    destruct (wf_members_pos ms W) as [P _].
    assert (k <> k0) by congruence.
    destruct (Nat.lt_ge_cases k k0).
    + left. eapply fields_before_disjoint; eauto.
    + right. eapply fields_before_disjoint; eauto. lia.
Qed.

(* p and q diverge: common prefix c, then different steps *)
Definition diverge (p q : list step) : Prop :=
  exists c a b p' q', p = c ++ a :: p' /\ q = c ++ b :: q' /\ a <> b.

Theorem paths_disjoint_l : forall t p q op tp oq tq, wf t -> diverge p q ->
  resolve t p = Some (op, tp) -> resolve t q = Some (oq, tq) ->
  op + size_words tp <= oq \/ oq + size_words tq <= op.
Proof.
  intros t p q op tp oq tq W [c [a [b [p' [q' [Ep [Eq NE]]]]]]]. subst p q.
  revert t op oq W. induction c; intros t op oq W Rp Rq; cbn [app] in *.
  - cbn in Rp, Rq.
    destruct (step_child t a) as [[o1 c1]|] eqn:Sa; [|discriminate].
    destruct (step_child t b) as [[o2 c2]|] eqn:Sb; [|discriminate].
    destruct (resolve c1 p') as [[o1' t1]|] eqn:R1; [|discriminate].
    destruct (resolve c2 q') as [[o2' t2]|] eqn:R2; [|discriminate].
    inj Rp; inj Rq.
    destruct (step_in_parent _ _ _ _ W Sa) as [W1 _]. destruct (step_in_parent _ _ _ _ W Sb) as [W2 _].
    pose proof (elem_in_parent_l _ _ _ _ W1 R1) as [_ [? ?]].
    pose proof (elem_in_parent_l _ _ _ _ W2 R2) as [_ [? ?]].
    pose proof (steps_disjoint _ _ _ _ _ _ _ W NE Sa Sb). lia.
  - cbn in Rp, Rq.
    destruct (step_child t a0) as [[o1 c1]|] eqn:Sa; [|discriminate].
    destruct (resolve c1 (c ++ a :: p')) as [[o1' t1]|] eqn:R1; [|discriminate].
    destruct (resolve c1 (c ++ b :: q')) as [[o2' t2]|] eqn:R2; [|discriminate].
    inj Rp; inj Rq.
    destruct (step_in_parent _ _ _ _ W Sa) as [W1 _].
    specialize (IHc c1 o1' o2' W1 R1 R2). lia.
Qed.

(* HashMap entries: H is the slot-derivation function (keccak256 of slot and key in the
   implementation).  The two hypotheses cannot be proved (keccak collision resistance);
   they are listed as assumptions in the evidence. *)
Section Mapping.
  Variable H : Z -> Z -> Z.
  Variable BOUND : Z.          (* larger than the size of every value type and the static area *)
  Hypothesis H_spread : forall s k s' k', (s, k) <> (s', k') -> H s k + BOUND <= H s' k' \/ H s' k' + BOUND <= H s k.
  Hypothesis H_avoid_static : forall s k, BOUND <= H s k.

  (* entry of map variable at slot s (value type v), key k, static sub-path p *)
  Definition entry_range (s : Z) (v : ty) (k : Z) (p : list step) : option (Z * Z) :=
    match resolve v p with Some (o, t') => Some (H s k + o, size_words t') | None => None end.

  Theorem mapping_slots_distinct_l : forall s v k p s' v' k' p' a n a' n',
    wf v -> wf v' -> size_words v <= BOUND -> size_words v' <= BOUND ->
    (s, k) <> (s', k') ->
    entry_range s v k p = Some (a, n) -> entry_range s' v' k' p' = Some (a', n') ->
    a + n <= a' \/ a' + n' <= a.
  Proof.
    unfold entry_range. intros s v k p s' v' k' p' a n a' n' W W' B B' NE E E'.
    destruct (resolve v p) as [[o t]|] eqn:R; [|discriminate].
    destruct (resolve v' p') as [[o' t']|] eqn:R'; [|discriminate].
    inj E; inj E'.
    pose proof (elem_in_parent_l _ _ _ _ W R) as [_ [? ?]].
    pose proof (elem_in_parent_l _ _ _ _ W' R') as [_ [? ?]].
    pose proof (H_spread _ _ _ _ NE). lia.
  Qed.

  (* ... and never collide with a static variable allocated below BOUND *)
  Theorem mapping_avoids_static_l : forall s v k p a n base sz,
    wf v -> 0 <= base -> base + sz <= BOUND ->
    entry_range s v k p = Some (a, n) -> base + sz <= a.
  Proof.
    unfold entry_range. intros s v k p a n base sz W B0 B E.
    destruct (resolve v p) as [[o t]|] eqn:R; [|discriminate]. inj E.
    pose proof (elem_in_parent_l _ _ _ _ W R) as [_ [? ?]]. pose proof (H_avoid_static s k). lia.
  Qed.

  (* same entry, diverging sub-paths: disjoint (from paths_disjoint) *)
  Theorem mapping_same_entry_paths_l : forall s v k p q a n a' n',
    wf v -> diverge p q ->
    entry_range s v k p = Some (a, n) -> entry_range s v k q = Some (a', n') ->
    a + n <= a' \/ a' + n' <= a.
  Proof.
    unfold entry_range. intros s v k p q a n a' n' W D E E'.
    destruct (resolve v p) as [[o t]|] eqn:R; [|discriminate].
    destruct (resolve v q) as [[o' t']|] eqn:R'; [|discriminate].
    inj E; inj E'.
    pose proof (paths_disjoint_l _ _ _ _ _ _ _ W D R R'). lia.
  Qed.
End Mapping.
