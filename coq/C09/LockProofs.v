(* C09 proofs about the lock protocol model (Lock.v), for all call trees. *)
From Coq Require Import ZArith List Bool Lia.
From Verif Require Import C09.Lock.
Import ListNotations.
Open Scope Z_scope.

Scheme node_mind := Induction for node Sort Prop
  with body_mind := Induction for body Sort Prop.
Combined Scheme node_body_ind from node_mind, body_mind.

Scheme vnode_mind := Minimality for vnode Sort Prop
  with vbody_mind := Minimality for vbody Sort Prop.
Combined Scheme vnode_vbody_ind from vnode_mind, vbody_mind.

Definition st_of (r : bool * state * Z) : state := snd (fst r).
Definition ok_of (r : bool * state * Z) : bool := fst (fst r).

Lemma cell_set : forall s c v c', cell (set_cell s c v) c' = if Nat.eqb c' c then v else cell s c'.
Proof. reflexivity. Qed.
Lemma cell_set_same : forall s c v, cell (set_cell s c v) c = v.
Proof. intros. rewrite cell_set, Nat.eqb_refl. reflexivity. Qed.
Lemma cell_set_other : forall s c v c', c' <> c -> cell (set_cell s c v) c' = cell s c'.
Proof. intros. rewrite cell_set. destruct (Nat.eqb_spec c' c); congruence. Qed.
Lemma cell_add_log : forall s x c, cell (add_log s x) c = cell s c.
Proof. reflexivity. Qed.

Section Proofs.
  Variable P : params.
  Notation temp := (p_temp P).
  Notation final := (p_final P).

  Lemma journal_cells : forall st tag ok s s', journal st tag ok s = Some s' -> forall c, cell s' c = cell s c.
  Proof.
    intros st tag ok s s' H c. unfold journal in H. destruct tag.
    - destruct st; inversion H; subst. apply cell_add_log.
    - inversion H; subst; reflexivity.
  Qed.

  Lemma enter_held : forall st c0 k s s1 c,
    enter P st c0 k s = Some s1 -> cell s c = temp -> cell s1 c = temp.
  Proof.
    intros st c0 k s s1 c H Hc. unfold enter in H. destruct k.
    - inversion H; subst; auto.
    - destruct (cell s c0 =? temp); inversion H; subst; auto.
    - destruct (cell s c0 =? temp); [discriminate|]. destruct st; inversion H; subst.
      rewrite cell_set. destruct (Nat.eqb c c0); auto.
  Qed.

  Lemma enter_protected_held_fails : forall st c k s,
    k <> Unprot -> cell s c = temp -> enter P st c k s = None.
  Proof.
    intros st c k s Hk Hc. unfold enter. destruct k; try congruence; rewrite Hc, Z.eqb_refl; reflexivity.
  Qed.

  Lemma enter_nonview_takes : forall st c s s1, enter P st c Nonview s = Some s1 -> cell s1 c = temp.
  Proof.
    intros st c s s1 H. unfold enter in H. destruct (cell s c =? temp); [discriminate|].
    destruct st; inversion H; subst. apply cell_set_same.
  Qed.

  (* 1. rollback: a failing call leaves the state exactly as it was *)
  Lemma run_fail_state : forall n st s, ok_of (run P st n s) = false -> st_of (run P st n s) = s.
  Proof.
    intros [c k b] st s. unfold ok_of, st_of. simpl.
    destruct (enter P st c k s); [|reflexivity].
    destruct (run_body P st b s0 1) as [[[] s2] r]; simpl; [discriminate|reflexivity].
  Qed.

  (* 2. a held lock stays held through anything that runs (nobody else can release it) *)
  Lemma held_preserved_both :
    (forall n st s c, cell s c = temp -> cell (st_of (run P st n s)) c = temp) /\
    (forall b st s acc c, cell s c = temp -> cell (st_of (run_body P st b s acc)) c = temp).
  Proof.
    apply node_body_ind.
    - intros c0 k b IH st s c Hc. unfold st_of. simpl.
      destruct (enter P st c0 k s) as [s1|] eqn:E; [|exact Hc].
      pose proof (enter_held _ _ _ _ _ _ E Hc) as H1.
      specialize (IH st s1 1 c H1). unfold st_of in IH.
      destruct (run_body P st b s1 1) as [[[] s2] r]; simpl in *; [|exact Hc].
      unfold leave. destruct k; auto.
      destruct (Nat.eqb_spec c c0).
      + subst. rewrite enter_protected_held_fails in E by (auto; discriminate). discriminate.
      + rewrite cell_set_other; auto.
    - intros retv st s acc c Hc. exact Hc.
    - intros st s acc c Hc. exact Hc.
    - intros b IH st s acc c Hc. simpl. apply IH; exact Hc.
    - intros b IH st s acc c Hc. simpl. destruct st; [exact Hc|]. apply IH; exact Hc.
    - intros n IHn catch sf tag rest IHr st s acc c Hc. unfold st_of. simpl.
      specialize (IHn (st || sf)%bool s c Hc). unfold st_of in IHn.
      destruct (run P (st || sf) n s) as [[[] s'] r]; simpl in *.
      + destruct (journal st tag true s') as [s''|] eqn:J; [|exact Hc].
        apply IHr. rewrite (journal_cells _ _ _ _ _ J). exact IHn.
      + destruct catch; [|exact Hc].
        destruct (journal st tag false s) as [s''|] eqn:J; [|exact Hc].
        apply IHr. rewrite (journal_cells _ _ _ _ _ J). exact Hc.
  Qed.
  Definition held_preserved := proj1 held_preserved_both.
  Definition held_preserved_body := proj2 held_preserved_both.

  (* 3. a free lock is free again after anything that runs (every taker releases or is rolled back) *)
  Lemma free_preserved_both : final <> temp ->
    (forall n st s c, cell s c <> temp -> cell (st_of (run P st n s)) c <> temp) /\
    (forall b st s acc c, cell s c <> temp -> cell (st_of (run_body P st b s acc)) c <> temp).
  Proof.
    intro Hft. apply node_body_ind.
    - intros c0 k b IH st s c Hc. unfold st_of. simpl.
      destruct (enter P st c0 k s) as [s1|] eqn:E; [|exact Hc].
      destruct (run_body P st b s1 1) as [[[] s2] r] eqn:R; simpl; [|exact Hc].
      unfold enter in E. destruct k; unfold leave.
      + inversion E; subst. specialize (IH st s1 1 c Hc). rewrite R in IH. exact IH.
      + destruct (cell s c0 =? temp); inversion E; subst.
        specialize (IH st s1 1 c Hc). rewrite R in IH. exact IH.
      + destruct (cell s c0 =? temp); [discriminate|]. destruct st; inversion E; subst.
        destruct (Nat.eqb_spec c c0).
        * subst. rewrite cell_set_same. exact Hft.
        * rewrite cell_set_other by auto.
          assert (H1 : cell (set_cell s c0 temp) c <> temp) by (rewrite cell_set_other; auto).
          specialize (IH false _ 1 c H1). rewrite R in IH. exact IH.
    - intros retv st s acc c Hc. exact Hc.
    - intros st s acc c Hc. exact Hc.
    - intros b IH st s acc c Hc. simpl. apply IH; exact Hc.
    - intros b IH st s acc c Hc. simpl. destruct st; [exact Hc|]. apply IH; exact Hc.
    - intros n IHn catch sf tag rest IHr st s acc c Hc. unfold st_of. simpl.
      specialize (IHn (st || sf)%bool s c Hc). unfold st_of in IHn.
      destruct (run P (st || sf) n s) as [[[] s'] r]; simpl in *.
      + destruct (journal st tag true s') as [s''|] eqn:J; [|exact Hc].
        apply IHr. rewrite (journal_cells _ _ _ _ _ J). exact IHn.
      + destruct catch; [|exact Hc].
        destruct (journal st tag false s) as [s''|] eqn:J; [|exact Hc].
        apply IHr. rewrite (journal_cells _ _ _ _ _ J). exact Hc.
  Qed.

  Lemma after_sub_held : forall st n catch sf tag s acc s2 acc2 c,
    after_sub P st n catch sf tag s acc = Some (s2, acc2) -> cell s c = temp -> cell s2 c = temp.
  Proof.
    intros st n catch sf tag s acc s2 acc2 c H Hc. unfold after_sub in H.
    pose proof (held_preserved n (st || sf)%bool s c Hc) as Hp. unfold st_of in Hp.
    destruct (run P (st || sf) n s) as [[[] s'] r]; simpl in *.
    - destruct (journal st tag true s') eqn:J; inversion H; subst.
      rewrite (journal_cells _ _ _ _ _ J). exact Hp.
    - destruct catch; [|discriminate].
      destruct (journal st tag false s) eqn:J; inversion H; subst.
      rewrite (journal_cells _ _ _ _ _ J). exact Hc.
  Qed.

  (* 4. every node visited while c's lock is held is visited with c's lock held *)
  Lemma visits_held_both :
    (forall st n s st' n' s', vnode P st n s st' n' s' -> forall c, cell s c = temp -> cell s' c = temp) /\
    (forall st b s acc st' n' s', vbody P st b s acc st' n' s' -> forall c, cell s c = temp -> cell s' c = temp).
  Proof.
    apply vnode_vbody_ind.
    - intros; assumption.
    - intros st c k b s s1 st' n' s' E _ IH c0 Hc. apply IH. eapply enter_held; eauto.
    - intros st b s acc st' n' s' _ IH c Hc. apply IH; exact Hc.
    - intros b s acc st' n' s' _ IH c Hc. apply IH; exact Hc.
    - intros st n catch sf tag rest s acc st' n' s' _ IH c Hc. apply IH; exact Hc.
    - intros st n catch sf tag rest s acc s2 acc2 st' n' s' A _ IH c Hc. apply IH.
      eapply after_sub_held; eauto.
  Qed.

  (* ---- the property theorems ---- *)

  (* While a protected non-view function of c is executing (it passed `pre`, its body is running),
     every call that reaches a protected entry point of c -- at any depth, through any chain of
     contracts, static or not -- reverts and leaves the state untouched. *)
  Theorem no_reentry_thm : forall st c b s s1 st' k' b' s',
    enter P st c Nonview s = Some s1 ->
    vbody P st b s1 1 st' (Call c k' b') s' ->
    k' <> Unprot ->
    run P st' (Call c k' b') s' = (false, s', 0).
  Proof.
    intros st c b s s1 st' k' b' s' E V Hk.
    pose proof (enter_nonview_takes _ _ _ _ E) as H1.
    pose proof (proj2 visits_held_both _ _ _ _ _ _ _ V c H1) as H2.
    simpl. rewrite enter_protected_held_fails; auto.
  Qed.

  (* the same, for a lock that is held for whatever reason when some execution starts *)
  Theorem held_blocks_all_thm : forall st n s st' c k' b' s',
    cell s c = temp -> vnode P st n s st' (Call c k' b') s' -> k' <> Unprot ->
    run P st' (Call c k' b') s' = (false, s', 0).
  Proof.
    intros st n s st' c k' b' s' Hc V Hk.
    pose proof (proj1 visits_held_both _ _ _ _ _ _ V c Hc) as H2.
    simpl. rewrite enter_protected_held_fails; auto.
  Qed.

  (* protected view entry points: revert under a held lock; otherwise behave exactly like the
     unprotected body (they take nothing); with the STATICCALLs the compiler emits for a view
     function no cell of any contract changes. *)
  Lemma static_cells_unchanged_both :
    (forall n s c, cell (st_of (run P true n s)) c = cell s c) /\
    (forall b s acc c, cell (st_of (run_body P true b s acc)) c = cell s c).
  Proof.
    apply node_body_ind.
    - intros c0 k b IH s c. unfold st_of. simpl.
      destruct (enter P true c0 k s) as [s1|] eqn:E; [|reflexivity].
      assert (s1 = s).
      { unfold enter in E. destruct k; try (destruct (cell s c0 =? temp)); inversion E; reflexivity. }
      subst s1. specialize (IH s 1 c). unfold st_of in IH.
      destruct (run_body P true b s 1) as [[[] s2] r]; simpl in *; [|reflexivity].
      unfold enter in E. destruct k; simpl; auto.
      destruct (cell s c0 =? temp); discriminate.
    - reflexivity.
    - reflexivity.
    - intros b IH s acc c. simpl. apply IH.
    - intros b IH s acc c. reflexivity.
    - intros n IHn catch sf tag rest IHr s acc c. unfold st_of. simpl.
      specialize (IHn s c). unfold st_of in IHn.
      destruct (run P true n s) as [[[] s'] r]; simpl in *.
      + destruct (journal true tag true s') as [s''|] eqn:J; [|reflexivity].
        etransitivity; [apply IHr|]. rewrite (journal_cells _ _ _ _ _ J). exact IHn.
      + destruct catch; [|reflexivity].
        destruct (journal true tag false s) as [s''|] eqn:J; [|reflexivity].
        etransitivity; [apply IHr|]. apply (journal_cells _ _ _ _ _ J).
  Qed.

  Lemma static_body_run : forall b st s acc c,
    static_body b = true ->
    cell (st_of (run_body P st b s acc)) c = cell s c.
  Proof.
    induction b; intros st s acc c0 Hs; simpl in *; try reflexivity.
    - apply IHb; exact Hs.
    - destruct st; [reflexivity|]. apply IHb; exact Hs.
    - apply andb_prop in Hs. destruct Hs as [Hs Hr]. apply andb_prop in Hs. destruct Hs as [Hsf Ht].
      subst. destruct tag; [discriminate|]. rewrite orb_true_r. unfold st_of.
      pose proof (proj1 static_cells_unchanged_both n s c0) as Hn. unfold st_of in Hn.
      destruct (run P true n s) as [[[] s'] r]; simpl in *.
      + etransitivity; [apply IHb; exact Hr|]. exact Hn.
      + destruct catch; [|reflexivity]. simpl. apply IHb; exact Hr.
  Qed.

  Theorem view_checks_only_thm : forall st c b s,
    (cell s c = temp -> run P st (Call c View b) s = (false, s, 0)) /\
    (cell s c <> temp -> run P st (Call c View b) s = run P st (Call c Unprot b) s) /\
    (static_body b = true -> forall c', cell (st_of (run P st (Call c View b) s)) c' = cell s c').
  Proof.
    intros st c b s. repeat split.
    - intro Hc. simpl. rewrite Hc, Z.eqb_refl. reflexivity.
    - intro Hc. simpl. destruct (Z.eqb_spec (cell s c) temp); [contradiction|reflexivity].
    - intros Hs c'. unfold st_of. simpl. destruct (cell s c =? temp); [reflexivity|].
      pose proof (static_body_run b st s 1 c' Hs) as H. unfold st_of in H.
      destruct (run_body P st b s 1) as [[[] s2] r]; simpl in *; [exact H|reflexivity].
  Qed.

  (* After the outermost call ends -- by return from any site, fall-through, or a revert anywhere
     below -- no cell is `temp`: the next call's `pre` passes (and a non-static protected call is
     not rejected by the lock). Also across the end of the transaction. *)
  Theorem lock_released_thm : params_ok P -> forall n s transient,
    quiescent P s ->
    let s' := st_of (run P false n s) in
    quiescent P s' /\ quiescent P (tx_end P transient s') /\
    (forall c k, enter P false c k s' <> None) /\
    (forall c k, enter P false c k (tx_end P transient s') <> None).
  Proof.
    intros [Hft Hit] n s transient Hq s'.
    assert (Hq' : quiescent P s').
    { intro c. apply (proj1 (free_preserved_both Hft)). apply Hq. }
    assert (Hq'' : quiescent P (tx_end P transient s')).
    { unfold tx_end. destruct transient; [|exact Hq']. intro c. exact Hit. }
    assert (Hen : forall s0, quiescent P s0 -> forall c k, enter P false c k s0 <> None).
    { intros s0 H0 c k. unfold enter. specialize (H0 c).
      destruct k; try discriminate; destruct (Z.eqb_spec (cell s0 c) temp); try contradiction; discriminate. }
    repeat split; auto.
  Qed.

  (* the lock really is taken: inside a protected non-view body the cell is temp, and the body of a
     successful protected call ran with the lock held (so the model is not vacuous) *)
  Theorem lock_taken_thm : forall c s s1, enter P false c Nonview s = Some s1 -> cell s1 c = temp.
  Proof. intros. eapply enter_nonview_takes; eauto. Qed.
End Proofs.

Theorem lock_values_ok_thm : params_ok transient_params /\ params_ok storage_params.
Proof. unfold params_ok; simpl; repeat split; discriminate. Qed.
