(* C09 model: the re-entrancy lock protocol over arbitrary call trees.

   A world of contracts [cid]; each has one lock cell (transient slot on cancun+,
   storage slot before) plus an opaque "rest of state" represented by a journal [log]
   (anything that is rolled back with the frame).  An execution is a *call tree*:
     node  = Call c k b       a message call entering contract c at an entry point of kind k
     body  = what the entered code does: internal steps, sub-calls (to any node: the
             adversary chooses), a failing assert/raise, or a normal exit.
   Quantifying over all trees = quantifying over all adversaries, all chains of
   intermediaries, all depths: an adaptive adversary's actual run is one tree.

   Entry kinds: Unprot (not lock protected: @reentrant / no decorator / adversary code; never
   touches the cell), View (protected view: checks only), Nonview (protected nonpayable/payable,
   __default__, or an unprotected external that immediately enters a @nonreentrant internal).
   [enter] is the model of `pre`, [leave] of `post`.  A reverting frame restores the whole
   state of its entry (cells and log).  Static context: a store (lock store or journal write) reverts.

   No proofs in this file. *)
From Coq Require Import ZArith List Bool.
Import ListNotations.
Open Scope Z_scope.

Record params := mkParams { p_final : Z; p_temp : Z; p_initial : Z }.
Definition transient_params := mkParams 0 1 0.   (* cancun+ : tload/tstore *)
Definition storage_params := mkParams 3 2 0.     (* pre-cancun : sload/sstore *)
Definition params_ok (P : params) : Prop := p_final P <> p_temp P /\ p_initial P <> p_temp P.

Definition cid := nat.
Inductive kind := Unprot | View | Nonview.

Record state := mkState { cells : cid -> Z; log : list Z }.
Definition cell (s : state) (c : cid) : Z := cells s c.
Definition set_cell (s : state) (c : cid) (v : Z) : state :=
  mkState (fun c' => if Nat.eqb c' c then v else cells s c') (log s).
Definition add_log (s : state) (x : Z) : state := mkState (cells s) (log s ++ [x]).
Definition init_state (P : params) : state := mkState (fun _ => p_initial P) [].

Inductive node :=
| Call (c : cid) (k : kind) (b : body)
with body :=
| BEnd (retv : bool)        (* normal exit (return from any site / fall-through); retv: returns its digest *)
| BFail                     (* assert / raise / failed checked sub-call / out of gas: frame reverts *)
| BStep (b : body)          (* internal step that does not touch the lock cell *)
| BWrite (b : body)         (* internal state-changing step (SSTORE/LOG/...) not touching the lock cell:
                               reverts in a static context *)
| BSub (n : node) (catch : bool) (static : bool) (tag : option Z) (rest : body).
   (* message call to n; catch=false: failure propagates (Vyper extcall), catch=true: caller
      continues (raw_call revert_on_failure=False / adversary); static: STATICCALL;
      tag = Some t: the caller journals 2*t+ok after the call *)

Section Sem.
  Variable P : params.
  Let final := p_final P.
  Let temp := p_temp P.

  (* pre: None = revert *)
  Definition enter (st : bool) (c : cid) (k : kind) (s : state) : option state :=
    match k with
    | Unprot => Some s
    | View => if cell s c =? temp then None else Some s
    | Nonview => if cell s c =? temp then None else if st then None else Some (set_cell s c temp)
    end.
  (* post *)
  Definition leave (c : cid) (k : kind) (s : state) : state :=
    match k with Nonview => set_cell s c final | _ => s end.

  (* digest of what a frame saw: deterministic, computed identically by the test contracts *)
  Definition MIXMOD := 18446744073709551616. (* 2^64 *)
  Definition mix (acc : Z) (ok : bool) (r : Z) : Z :=
    (acc * 1000003 + (r mod MIXMOD) * 7 + (if ok then 2 else 1)) mod MIXMOD.

  Definition journal (st : bool) (tag : option Z) (ok : bool) (s : state) : option state :=
    match tag with
    | None => Some s
    | Some t => if st then None else Some (add_log s (2 * t + (if ok then 1 else 0)))
    end.

  (* result: (ok, state after, returned digest).  Invariant: ok = false -> state after = state before. *)
  Fixpoint run (st : bool) (n : node) (s : state) {struct n} : bool * state * Z :=
    match n with
    | Call c k b =>
      match enter st c k s with
      | None => (false, s, 0)
      | Some s1 =>
        match run_body st b s1 1 with
        | (true, s2, r) => (true, leave c k s2, r)
        | (false, _, _) => (false, s, 0)
        end
      end
    end
  with run_body (st : bool) (b : body) (s : state) (acc : Z) {struct b} : bool * state * Z :=
    match b with
    | BEnd retv => (true, s, if retv then acc else 0)
    | BFail => (false, s, 0)
    | BStep b' => run_body st b' s acc
    | BWrite b' => if st then (false, s, 0) else run_body st b' s acc
    | BSub n catch sf tag rest =>
      match run (st || sf) n s with
      | (true, s', r) =>
        match journal st tag true s' with
        | Some s'' => run_body st rest s'' (mix acc true r)
        | None => (false, s, 0)
        end
      | (false, _, _) =>
        if catch then
          match journal st tag false s with
          | Some s'' => run_body st rest s'' (mix acc false 0)
          | None => (false, s, 0)
          end
        else (false, s, 0)
      end
    end.

  (* state and digest in which [rest] continues after a sub-call; None: the body aborts *)
  Definition after_sub (st : bool) (n : node) (catch sf : bool) (tag : option Z) (s : state) (acc : Z)
    : option (state * Z) :=
    match run (st || sf) n s with
    | (true, s', r) =>
      match journal st tag true s' with Some s'' => Some (s'', mix acc true r) | None => None end
    | (false, _, _) =>
      if catch then
        match journal st tag false s with Some s'' => Some (s'', mix acc false 0) | None => None end
      else None
    end.

  (* "during the run of n from s (static flag st), node n' is executed from state s' (flag st')" *)
  Inductive vnode : bool -> node -> state -> bool -> node -> state -> Prop :=
  | vn_here : forall st n s, vnode st n s st n s
  | vn_in : forall st c k b s s1 st' n' s',
      enter st c k s = Some s1 -> vbody st b s1 1 st' n' s' -> vnode st (Call c k b) s st' n' s'
  with vbody : bool -> body -> state -> Z -> bool -> node -> state -> Prop :=
  | vb_step : forall st b s acc st' n' s',
      vbody st b s acc st' n' s' -> vbody st (BStep b) s acc st' n' s'
  | vb_write : forall b s acc st' n' s',
      vbody false b s acc st' n' s' -> vbody false (BWrite b) s acc st' n' s'
  | vb_sub : forall st n catch sf tag rest s acc st' n' s',
      vnode (st || sf) n s st' n' s' -> vbody st (BSub n catch sf tag rest) s acc st' n' s'
  | vb_rest : forall st n catch sf tag rest s acc s2 acc2 st' n' s',
      after_sub st n catch sf tag s acc = Some (s2, acc2) ->
      vbody st rest s2 acc2 st' n' s' -> vbody st (BSub n catch sf tag rest) s acc st' n' s'.

  (* end of transaction: transient cells are cleared *)
  Definition tx_end (transient : bool) (s : state) : state :=
    if transient then mkState (fun _ => p_initial P) (log s) else s.

  Definition quiescent (s : state) : Prop := forall c, cell s c <> temp.

  (* every direct sub-call of the body is a STATICCALL (what the compiler emits for view functions) *)
  Fixpoint static_body (b : body) : bool :=
    match b with
    | BEnd _ | BFail => true
    | BStep b' => static_body b'
    | BWrite b' => static_body b'
    | BSub _ _ sf tag rest => sf && (match tag with None => true | Some _ => false end) && static_body rest
    end.
End Sem.

(* ---------- observation helper for the correspondence harness ---------- *)
Definition b2z (b : bool) : Z := if b then 1 else 0.
(* [ok; digest; cell 0; cell 1; cell 2; log...] of a top-level (non-static) call from state s *)
Definition observe (P : params) (n : node) (s : state) : state * list Z :=
  match run P false n s with
  | (ok, s', r) => (s', [b2z ok; r; cell s' 0%nat; cell s' 1%nat; cell s' 2%nat] ++ log s')
  end.
(* a sequence of top-level transactions; transient cells reset between them *)
Fixpoint observe_seq (P : params) (transient : bool) (ns : list node) (s : state) : list Z :=
  match ns with
  | [] => []
  | n :: r => match observe P n s with
              | (s', o) => (Z.of_nat (length o) :: o) ++ observe_seq P transient r (tx_end P transient (mkState (cells s') []))
              end
  end.
